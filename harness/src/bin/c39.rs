//! C39: event filter where-clause evaluation (server/events/operator.rs, event_filter.rs) and
//! LIKE pattern translation, through the hooks `verif_evaluate_where_clause`,
//! `verif_validate_where_clause`, `verif_like`.
#[path = "../util.rs"]
mod util;
use util::*;

use opcua::server::address_space::types::{AddressSpace, ObjectBuilder, VariableBuilder};
use opcua::server::events::{event_filter, operator};
use opcua::types::service_types::{
    AttributeOperand, ContentFilter, ContentFilterElement, FilterOperator, SimpleAttributeOperand,
};
use opcua::types::operand::Operand;
use opcua::types::{
    AttributeId, ByteString, DataTypeId, DateTime, ExtensionObject, Guid, NodeId, QualifiedName,
    RelativePath, StatusCode, UAString, Variant,
};
use std::cell::RefCell;

// ---------------------------------------------------------------------------------------------
// case language (mirrors coq/C39/Model.v)

#[derive(Clone, Debug, PartialEq)]
pub enum Val {
    Empty,
    Bool(bool),
    Int(u8, i128), // 0 SByte 1 Byte 2 Int16 3 UInt16 4 Int32 5 UInt32 6 Int64 7 UInt64
    Float(u32),
    Double(u64),
    Str(Vec<char>),
    Status(u32),
    Opaque(u8, u64), // 0 Guid, 1 DateTime, 2 ByteString
}

#[derive(Clone, Debug)]
pub enum Opnd {
    Lit(Val),
    Elem(u32),
    Attr(u32),   // SimpleAttributeOperand for field k of the event
    Attribute,   // AttributeOperand
    Bad,         // an extension object that is no operand
}

#[derive(Clone, Debug)]
pub struct Elem { op: u32, ops: Option<Vec<Opnd>> }

#[derive(Clone, Debug)]
pub enum Case {
    Filter { fields: Vec<Val>, els: Option<Vec<Elem>> },
    /// LIKE directly: pattern, string
    Like { pat: Vec<char>, s: Vec<char> },
    /// only the pattern text like_to_regex builds (any characters)
    LikeText { pat: Vec<char> },
    /// a chain of n `Not(element i+1)` elements ending in a literal, evaluated in a child process
    /// on a thread with `stack_kib` KiB of stack
    Deep { n: u32, stack_kib: u32 },
}

const N_SLOTS: u32 = 6;
const ITY: [&str; 8] = ["SByte", "Byte", "Int16", "UInt16", "Int32", "UInt32", "Int64", "UInt64"];
const OPS: [&str; 18] = ["Equals", "IsNull", "GreaterThan", "LessThan", "GreaterThanOrEqual", "LessThanOrEqual",
    "Like", "Not", "Between", "InList", "And", "Or", "Cast", "InView", "OfType", "RelatedTo", "BitwiseAnd", "BitwiseOr"];

fn filter_operator(op: u32) -> FilterOperator {
    use FilterOperator::*;
    [Equals, IsNull, GreaterThan, LessThan, GreaterThanOrEqual, LessThanOrEqual, Like, Not, Between, InList,
     And, Or, Cast, InView, OfType, RelatedTo, BitwiseAnd, BitwiseOr][op as usize]
}

fn ity_range(t: u8) -> (i128, i128) {
    match t {
        0 => (i8::MIN as i128, i8::MAX as i128),
        1 => (0, u8::MAX as i128),
        2 => (i16::MIN as i128, i16::MAX as i128),
        3 => (0, u16::MAX as i128),
        4 => (i32::MIN as i128, i32::MAX as i128),
        5 => (0, u32::MAX as i128),
        6 => (i64::MIN as i128, i64::MAX as i128),
        _ => (0, u64::MAX as i128),
    }
}

fn to_variant(v: &Val) -> Variant {
    match v {
        Val::Empty => Variant::Empty,
        Val::Bool(b) => Variant::Boolean(*b),
        Val::Int(t, z) => match t {
            0 => Variant::SByte(*z as i8),
            1 => Variant::Byte(*z as u8),
            2 => Variant::Int16(*z as i16),
            3 => Variant::UInt16(*z as u16),
            4 => Variant::Int32(*z as i32),
            5 => Variant::UInt32(*z as u32),
            6 => Variant::Int64(*z as i64),
            _ => Variant::UInt64(*z as u64),
        },
        Val::Float(b) => Variant::Float(f32::from_bits(*b)),
        Val::Double(b) => Variant::Double(f64::from_bits(*b)),
        Val::Str(s) => Variant::String(UAString::from(s.iter().collect::<String>())),
        Val::Status(c) => Variant::StatusCode(StatusCode::from_bits_truncate(*c)),
        Val::Opaque(0, id) => {
            let mut b = [0u8; 16];
            b[..8].copy_from_slice(&id.to_le_bytes());
            Variant::Guid(Box::new(Guid::from_bytes(b)))
        }
        Val::Opaque(1, id) => Variant::DateTime(Box::new(DateTime::from((*id % 1_000_000) as i64 * 10_000_000 + 116_444_736_000_000_000))),
        Val::Opaque(_, id) => Variant::ByteString(ByteString::from(id.to_le_bytes().to_vec())),
    }
}

fn coq_val(v: &Val) -> String {
    match v {
        Val::Empty => "VEmpty".into(),
        Val::Bool(b) => format!("(VBool {})", coq_bool(*b)),
        Val::Int(t, z) => format!("(VInt {} {})", ITY[*t as usize], self::z(*z)),
        Val::Float(b) => format!("(VFloat {})", b),
        Val::Double(b) => format!("(VDouble {})", b),
        Val::Str(s) => format!("(VStr {})", chars(s)),
        Val::Status(c) => format!("(VStatus {})", c),
        Val::Opaque(k, id) => format!("(VOpaque {} {})", k, id),
    }
}
fn chars(s: &[char]) -> String { zlist(s.iter().map(|c| *c as i128)) }
fn coq_opnd(o: &Opnd) -> String {
    match o {
        Opnd::Lit(v) => format!("(OLit {})", coq_val(v)),
        Opnd::Elem(i) => format!("(OElem {})", i),
        Opnd::Attr(k) => format!("(OAttr {})", k),
        Opnd::Attribute => "OAttribute".into(),
        Opnd::Bad => "OBad".into(),
    }
}
fn coq_elem(e: &Elem) -> String {
    format!("(mk_el {} {})", OPS[e.op as usize], coq_opt(&e.ops, |ops| coq_list(ops, coq_opnd)))
}

// canonical output of a result
fn canon_variant(v: &Variant) -> Vec<i128> {
    match v {
        Variant::Boolean(b) => vec![1, *b as i128],
        Variant::Empty => vec![2],
        Variant::SByte(x) => vec![3, 0, *x as i128],
        Variant::Byte(x) => vec![3, 1, *x as i128],
        Variant::Int16(x) => vec![3, 2, *x as i128],
        Variant::UInt16(x) => vec![3, 3, *x as i128],
        Variant::Int32(x) => vec![3, 4, *x as i128],
        Variant::UInt32(x) => vec![3, 5, *x as i128],
        Variant::Int64(x) => vec![3, 6, *x as i128],
        Variant::UInt64(x) => vec![3, 7, *x as i128],
        _ => vec![8],
    }
}
fn status_class(s: StatusCode) -> i128 {
    if s == StatusCode::BadFilterOperandCountMismatch { 1 }
    else if s == StatusCode::BadFilterOperandInvalid { 2 }
    else if s == StatusCode::BadFilterOperatorUnsupported { 3 }
    else if s == StatusCode::BadFilterOperatorInvalid { 4 }
    else { 9 }
}

// ---------------------------------------------------------------------------------------------
// the world: one address space with an event object and N_SLOTS field variables

struct World { space: AddressSpace, event: NodeId }
thread_local! { static WORLD: RefCell<Option<World>> = RefCell::new(None); }

fn field_id(k: u32) -> NodeId { NodeId::new(2, 2000 + k) }

fn make_world() -> World {
    let mut space = AddressSpace::new();
    let _ = space.register_namespace("urn:c39");
    let _ = space.register_namespace("urn:c39-2");
    let event = NodeId::new(2, 1000u32);
    ObjectBuilder::new(&event, "Event", "Event")
        .organized_by(NodeId::objects_folder_id())
        .insert(&mut space);
    for k in 0..N_SLOTS {
        VariableBuilder::new(&field_id(k), QualifiedName::new(0, format!("f{}", k)), format!("f{}", k))
            .data_type(DataTypeId::BaseDataType)
            .value(Variant::Empty)
            .property_of(event.clone())
            .insert(&mut space);
    }
    World { space, event }
}

fn build_operand(o: &Opnd) -> ExtensionObject {
    match o {
        Opnd::Lit(v) => (&Operand::literal(to_variant(v))).into(),
        Opnd::Elem(i) => (&Operand::element(*i)).into(),
        Opnd::Attr(k) => (&Operand::SimpleAttributeOperand(SimpleAttributeOperand {
            type_definition_id: NodeId::new(2, 1000u32),
            browse_path: Some(vec![QualifiedName::new(0, format!("f{}", k))]),
            attribute_id: AttributeId::Value as u32,
            index_range: UAString::null(),
        })).into(),
        Opnd::Attribute => (&Operand::AttributeOperand(AttributeOperand {
            node_id: NodeId::new(2, 1000u32),
            alias: UAString::null(),
            browse_path: RelativePath { elements: None },
            attribute_id: AttributeId::Value as u32,
            index_range: UAString::null(),
        })).into(),
        Opnd::Bad => ExtensionObject::null(),
    }
}

fn build_filter(els: &Option<Vec<Elem>>) -> ContentFilter {
    ContentFilter {
        elements: els.as_ref().map(|els| els.iter().map(|e| ContentFilterElement {
            filter_operator: filter_operator(e.op),
            filter_operands: e.ops.as_ref().map(|ops| ops.iter().map(build_operand).collect()),
        }).collect()),
    }
}

fn eval_filter(fields: &[Val], els: &Option<Vec<Elem>>) -> Vec<i128> {
    WORLD.with(|w| {
        let mut w = w.borrow_mut();
        if w.is_none() { *w = Some(make_world()); }
        let w = w.as_mut().unwrap();
        let now = DateTime::now();
        for k in 0..N_SLOTS {
            let v = fields.get(k as usize).map(to_variant).unwrap_or(Variant::Empty);
            w.space.set_variable_value(field_id(k), v, &now, &now);
        }
        let f = build_filter(els);
        // the server accepts the clause: validate never fails (it only reports per-element statuses)
        let accepted = event_filter::verif_validate_where_clause(&f, &w.space).is_ok();
        let space = &w.space;
        let event = &w.event;
        let mut out = match guarded(|| event_filter::verif_evaluate_where_clause(event, &f, space)) {
            Ok(Ok(v)) => canon_variant(&v),
            Ok(Err(s)) => vec![0, status_class(s)],
            Err(_) => vec![-2],
        };
        if !accepted { out.push(-7); }
        out
    })
}

// ---------------------------------------------------------------------------------------------
// deep chains in a child process

fn deep_filter(n: u32) -> Option<Vec<Elem>> {
    let mut els = Vec::new();
    for i in 0..n {
        if i + 1 < n { els.push(Elem { op: 7, ops: Some(vec![Opnd::Elem(i + 1)]) }); }
        else { els.push(Elem { op: 7, ops: Some(vec![Opnd::Lit(Val::Bool(false))]) }); }
    }
    Some(els)
}

/// And(1,1), And(2,2), ..., Not(false): every element is reached on 2^i paths
fn dag_filter(n: u32) -> Vec<Elem> {
    let mut els = Vec::new();
    for i in 0..n {
        if i + 1 < n { els.push(Elem { op: 10, ops: Some(vec![Opnd::Elem(i + 1), Opnd::Elem(i + 1)]) }); }
        else { els.push(Elem { op: 7, ops: Some(vec![Opnd::Lit(Val::Bool(false))]) }); }
    }
    els
}

fn child_main(n: u32, stack_kib: u32) -> ! {
    std::panic::set_hook(Box::new(|_| {}));
    let h = std::thread::Builder::new().stack_size(stack_kib as usize * 1024).spawn(move || {
        eval_filter(&[], &deep_filter(n))
    }).unwrap();
    let out = h.join().unwrap_or(vec![-2]);
    println!("{}", out.iter().map(|x| x.to_string()).collect::<Vec<_>>().join(" "));
    std::process::exit(0)
}

fn run_deep(n: u32, stack_kib: u32) -> Vec<i128> {
    let exe = std::env::current_exe().unwrap();
    let o = std::process::Command::new(exe).arg("--c39-child").arg(n.to_string()).arg(stack_kib.to_string()).output();
    match o {
        Ok(o) if o.status.success() => {
            String::from_utf8_lossy(&o.stdout).split_whitespace().filter_map(|t| t.parse::<i128>().ok()).collect()
        }
        // killed by a signal (stack overflow: SIGSEGV / SIGABRT)
        _ => vec![-3],
    }
}

// ---------------------------------------------------------------------------------------------
// generators

fn gen_int(r: &mut Rng, t: u8) -> i128 {
    let (lo, hi) = ity_range(t);
    match r.below(8) {
        0 => lo,
        1 => hi,
        2 => 0.max(lo),
        3 => (lo + r.below(3) as i128).min(hi),
        4 => (hi - r.below(3) as i128).max(lo),
        5 => { let w = (hi - lo) as u128; lo + (((r.next() as u128) << 64 | r.next() as u128) % (w + 1)) as i128 }
        _ => (r.range(-3, 12) as i128).clamp(lo, hi),
    }
}

fn gen_double_bits(r: &mut Rng) -> u64 {
    match r.below(10) {
        0 => f64::NAN.to_bits(),
        1 => f64::INFINITY.to_bits(),
        2 => f64::NEG_INFINITY.to_bits(),
        3 => (-0.0f64).to_bits(),
        4 => 0,
        5 => ((1u64 << 53) as f64 + (r.below(5) as f64) * 2.0).to_bits(),
        6 => r.next(),
        7 => ((r.range(-40, 40) as f64) / 4.0).to_bits(),
        _ => (r.range(-5, 12) as f64).to_bits(),
    }
}
fn gen_float_bits(r: &mut Rng) -> u32 {
    match r.below(10) {
        0 => f32::NAN.to_bits(),
        1 => f32::INFINITY.to_bits(),
        2 => f32::NEG_INFINITY.to_bits(),
        3 => (-0.0f32).to_bits(),
        4 => 0,
        5 => ((1u32 << 24) as f32 + (r.below(5) as f32) * 2.0).to_bits(),
        6 => r.next() as u32,
        7 => ((r.range(-40, 40) as f32) / 4.0).to_bits(),
        _ => (r.range(-5, 12) as f32).to_bits(),
    }
}

fn s(x: &str) -> Vec<char> { x.chars().collect() }

/// strings that meet numbers: integer literals (with signs, zeros, overflow), booleans, decimals, junk
fn gen_numeric_string(r: &mut Rng) -> Vec<char> {
    match r.below(12) {
        0 => s(*r.pick(&["true", "false", "1", "0", "True", "TRUE", "yes"])),
        1 => s(*r.pick(&["", "+", "-", "+-1", "1 ", " 1", "--1", "1-", "0x10", "1_0"])),
        2 => s(*r.pick(&["127", "128", "-128", "-129", "255", "256", "32767", "32768", "-32768", "65535", "65536"])),
        3 => s(*r.pick(&["2147483647", "2147483648", "-2147483648", "-2147483649", "4294967295", "4294967296",
                         "9223372036854775807", "9223372036854775808", "-9223372036854775808", "-9223372036854775809",
                         "18446744073709551615", "18446744073709551616"])),
        4 => s(*r.pick(&["+5", "-0", "+0", "007", "-007", "00000000000000000000001"])),
        5 => s(*r.pick(&["10.5", "0.25", "-2.75", "3.0", "12.125", "+1.5", "100.0", "0.1", "7.3"])),
        6 => s(*r.pick(&["abc", "x1", "1x", "one", "z", "A1", "e", "E5", "n", "fat"])),
        7 => s(*r.pick(&["1e5", "1E-3", "2.5e+2", ".5", "5.", ".", "1e", "e5", "+.5e1", "1e400", "1e-400", "4.9e-324", "2e-324",
                         "inf", "-inf", "+Infinity", "nan", "-NaN", "infinit", "1.7976931348623157e308", "1.7976931348623159e308",
                         "16777217", "16777216.5", "9007199254740993", "0.30000000000000004", "3.4028236e38", "1e-46", "1.0000001"])),
        _ => r.range(-5, 12).to_string().chars().collect(),
    }
}

const LIKE_ALPHA: &[char] = &['a', 'b', 'c', 'A', 'x', '1', '2', ' '];
fn gen_plain_string(r: &mut Rng) -> Vec<char> {
    let n = r.below(6);
    (0..n).map(|_| *r.pick(LIKE_ALPHA)).collect()
}

fn gen_val(r: &mut Rng) -> Val {
    match r.below(16) {
        0 => Val::Empty,
        1 => Val::Bool(r.chance(1, 2)),
        2..=7 => { let t = r.below(8) as u8; Val::Int(t, gen_int(r, t)) }
        8 => Val::Float(gen_float_bits(r)),
        9 | 10 => Val::Double(gen_double_bits(r)),
        11 | 12 => Val::Str(gen_numeric_string(r)),
        13 => Val::Str(gen_plain_string(r)),
        14 => Val::Status(*r.pick(&[0u32, 0x8000_0000, 0x80AB_0000, 0x40BC_0000, 0x0001_0000, 0x7FFF_0000, 0xFFFF_0000])),
        _ => Val::Opaque(r.below(3) as u8, r.below(3)),
    }
}

fn min_operands(op: u32) -> usize {
    match op { 1 | 7 => 1, 8 => 3, 13..=15 => 1, _ => 2 }
}

/// an operand for slot `slot` of an operator in element `i` of `n`
fn gen_operand(r: &mut Rng, i: u32, n: u32, nfields: u32, boolish: bool, malformed: bool) -> Opnd {
    if malformed && r.chance(1, 5) {
        return match r.below(6) {
            0 => Opnd::Attribute,
            1 => Opnd::Bad,
            2 => Opnd::Elem(n + r.below(3) as u32),            // out of range
            3 => Opnd::Elem(i),                                  // itself
            4 => Opnd::Elem(r.below(n.max(1) as u64) as u32),    // anywhere: cycles, backward
            _ => Opnd::Elem(u32::MAX - r.below(2) as u32),
        };
    }
    let p = r.below(10);
    if i + 1 < n && (p < 3 || (boolish && p < 7)) {
        Opnd::Elem(i + 1 + r.below((n - i - 1) as u64) as u32)
    } else if p < 8 || nfields == 0 {
        if boolish && r.chance(2, 3) {
            match r.below(6) { 0 => Opnd::Lit(Val::Empty), 1 => Opnd::Lit(Val::Str(s(*r.pick(&["true", "false", "1", "0", "no"])))),
                               2 => Opnd::Lit(Val::Int(4, 1)), _ => Opnd::Lit(Val::Bool(r.chance(1, 2))) }
        } else { Opnd::Lit(gen_val(r)) }
    } else {
        Opnd::Attr(r.below(nfields as u64 + 2) as u32)
    }
}

// ---- LIKE patterns: an AST printed in the canonical concrete syntax (mirrors Like.v like_print) ----
#[derive(Clone, Debug)]
enum LItem { Ch(char), One, Many, Set(bool, Vec<(char, char)>) }

const PAT_CHARS: &[char] = &['a', 'b', 'c', 'A', 'x', '1', '2', ' ', 'a', 'b', '%', '_', '[', ']', '\\', '^', '-', '$', '(', ')', '.', '+',
    '*', '?', '|', '{', '}', '&', '~', '\n', 'é', '漢', '#'];

fn print_like(p: &[LItem]) -> Vec<char> {
    let mut o = Vec::new();
    let member = |o: &mut Vec<char>, c: char| { if matches!(c, '\\' | ']' | '^' | '-') { o.push('\\'); } o.push(c); };
    for it in p {
        match it {
            LItem::Ch(c) => { if matches!(c, '\\' | '%' | '_' | '[' | ']') { o.push('\\'); } o.push(*c); }
            LItem::One => o.push('_'),
            LItem::Many => o.push('%'),
            LItem::Set(neg, rs) => {
                o.push('[');
                if *neg { o.push('^'); }
                for (lo, hi) in rs { member(&mut o, *lo); if lo != hi { o.push('-'); member(&mut o, *hi); } }
                o.push(']');
            }
        }
    }
    o
}

fn gen_like_ast(r: &mut Rng, allow_one: bool) -> Vec<LItem> {
    let n = r.below(6);
    (0..n).map(|_| match r.below(12) {
        0 | 1 | 2 => LItem::Many,
        3 => if allow_one { LItem::One } else { LItem::Many },
        4 | 5 => {
            let k = 1 + r.below(3);
            LItem::Set(r.chance(1, 3), (0..k).map(|_| {
                if r.chance(1, 2) {
                    let lo = *r.pick(&['a', 'A', '1', ' ', '*']);
                    (lo, char::from_u32(lo as u32 + r.below(4) as u32).unwrap())
                } else { let c = *r.pick(PAT_CHARS); (c, c) }
            }).collect())
        }
        6 => LItem::Ch(*r.pick(PAT_CHARS)),
        _ => LItem::Ch(*r.pick(LIKE_ALPHA)),
    }).collect()
}

/// a string that matches the pattern (mostly), then perhaps damaged
fn gen_like_subject(r: &mut Rng, p: &[LItem]) -> Vec<char> {
    let mut o = Vec::new();
    for it in p {
        match it {
            LItem::Ch(c) => o.push(*c),
            LItem::One => o.push(*r.pick(PAT_CHARS)),
            LItem::Many => { for _ in 0..r.below(3) { o.push(*r.pick(PAT_CHARS)); } }
            LItem::Set(neg, rs) => {
                if *neg { o.push(*r.pick(LIKE_ALPHA)); }
                else { let (lo, hi) = *r.pick(rs); o.push(char::from_u32(lo as u32 + r.below((hi as u64 - lo as u64) + 1) as u32).unwrap_or(lo)); }
            }
        }
    }
    match r.below(8) {
        0 => { if !o.is_empty() { let i = r.below(o.len() as u64) as usize; o[i] = *r.pick(PAT_CHARS); } }
        1 => { if !o.is_empty() { let i = r.below(o.len() as u64) as usize; o.remove(i); } }
        2 => { let i = r.below(o.len() as u64 + 1) as usize; o.insert(i, *r.pick(PAT_CHARS)); }
        _ => {}
    }
    o
}

/// raw pattern text over an alphabet of everything that means something to LIKE or to a regex
fn gen_like_raw(r: &mut Rng) -> Vec<char> {
    let n = r.below(8);
    (0..n).map(|_| *r.pick(PAT_CHARS)).collect()
}

fn gen_like_case(r: &mut Rng) -> Case {
    match r.below(10) {
        0..=5 => { let one = r.chance(1, 6); let p = gen_like_ast(r, one); let s = gen_like_subject(r, &p); Case::Like { pat: print_like(&p), s } }
        6 | 7 => { let pat = gen_like_raw(r); let s = if r.chance(1, 2) { gen_like_raw(r) } else { gen_plain_string(r) }; Case::Like { pat, s } }
        _ => Case::LikeText { pat: gen_like_raw(r) },
    }
}

// ---- content filters -------------------------------------------------------------------------------
/// a pair of values an ordering operator can say something about
fn gen_comparable(r: &mut Rng) -> (Val, Val) {
    match r.below(10) {
        0 | 1 => { let t = r.below(8) as u8; (Val::Int(t, gen_int(r, t)), Val::Int(t, gen_int(r, t))) }
        2 | 3 => { let (t, u) = (r.below(8) as u8, r.below(8) as u8); (Val::Int(t, gen_int(r, t)), Val::Int(u, gen_int(r, u))) }
        4 => { let t = r.below(8) as u8; let x = gen_int(r, t); (Val::Int(t, x), Val::Str(x.to_string().chars().collect())) }
        5 => { let x = r.range(-100, 100); (Val::Double((x as f64).to_bits()), Val::Int(4, x as i128 + r.range(-1, 1) as i128)) }
        6 => (Val::Double(gen_double_bits(r)), Val::Float(gen_float_bits(r))),
        7 => { let a = gen_plain_string(r); let b = if r.chance(1, 2) { a.clone() } else { gen_plain_string(r) }; (Val::Str(a), Val::Str(b)) }
        8 => { let a = gen_val(r); let b = if r.chance(1, 2) { a.clone() } else { gen_val(r) }; (a, b) }
        _ => (gen_val(r), gen_val(r)),
    }
}

fn gen_filter(r: &mut Rng, malformed: bool) -> Case {
    let nfields = r.below(4) as u32;
    let mut fields: Vec<Val> = (0..nfields).map(|_| gen_val(r)).collect();
    if malformed && r.chance(1, 25) { return Case::Filter { fields, els: None }; }
    let n = if malformed && r.chance(1, 25) { 0 } else { 1 + r.below(6) as u32 };
    let mut els = Vec::new();
    for i in 0..n {
        let op = if malformed && r.chance(1, 12) { *r.pick(&[12u32, 13, 14, 15]) }
                 else if i + 1 < n && r.chance(1, 2) { *r.pick(&[7u32, 10, 11, 10, 11]) }
                 else { *r.pick(&[0u32, 0, 1, 2, 3, 4, 5, 6, 7, 8, 9, 10, 11, 16, 17]) };
        if malformed && r.chance(1, 20) { els.push(Elem { op, ops: None }); continue; }
        let mut cnt = min_operands(op);
        if op == 9 { cnt += r.below(3) as usize; }
        if malformed && r.chance(1, 4) { cnt = r.below(5) as usize; }
        let boolish = matches!(op, 7 | 10 | 11);
        let mut ops: Vec<Opnd> = Vec::new();
        let structured = !(malformed && r.chance(1, 3));
        if op == 6 && structured && cnt >= 2 {
            // LIKE: subject (literal or event field), canonical pattern
            let one = r.chance(1, 8);
            let p = gen_like_ast(r, one);
            let subj = gen_like_subject(r, &p);
            if r.chance(1, 4) && (fields.len() as u32) < N_SLOTS {
                fields.push(Val::Str(subj)); ops.push(Opnd::Attr(fields.len() as u32 - 1));
            } else { ops.push(Opnd::Lit(Val::Str(subj))); }
            ops.push(Opnd::Lit(Val::Str(if r.chance(1, 10) { gen_like_raw(r) } else { print_like(&p) })));
        } else if matches!(op, 0 | 2 | 3 | 4 | 5 | 16 | 17) && structured && cnt >= 2 && r.chance(2, 3) {
            let (a, b) = gen_comparable(r);
            if r.chance(1, 5) && (fields.len() as u32) < N_SLOTS { fields.push(a); ops.push(Opnd::Attr(fields.len() as u32 - 1)); }
            else { ops.push(Opnd::Lit(a)); }
            ops.push(Opnd::Lit(b));
        } else if matches!(op, 8 | 9) && structured && cnt >= 2 && r.chance(2, 3) {
            // Between / InList around a pivot
            let t = r.below(8) as u8;
            let x = gen_int(r, t);
            ops.push(Opnd::Lit(Val::Int(t, x)));
            if op == 9 && cnt >= 3 && r.chance(1, 2) {
                // a member of another type first (extremes included), the exact match later
                let u = (t + 1 + r.below(7) as u8) % 8;
                ops.push(Opnd::Lit(if r.chance(1, 4) { gen_val(r) } else { Val::Int(u, gen_int(r, u)) }));
                for _ in 2..cnt - 1 { let w = r.below(8) as u8; ops.push(Opnd::Lit(Val::Int(w, gen_int(r, w)))); }
                ops.push(Opnd::Lit(Val::Int(t, x)));
            }
            for _ in ops.len().max(1)..cnt {
                let u = if r.chance(2, 3) { t } else { r.below(8) as u8 };
                let (lo, hi) = ity_range(u);
                let y = (x + r.range(-2, 2) as i128).clamp(lo, hi);
                ops.push(Opnd::Lit(if r.chance(1, 8) { gen_val(r) } else { Val::Int(u, y) }));
            }
        }
        while ops.len() < cnt { ops.push(gen_operand(r, i, n, fields.len() as u32, boolish, malformed)); }
        ops.truncate(cnt);
        els.push(Elem { op, ops: Some(ops) });
    }
    Case::Filter { fields, els: Some(els) }
}

fn tri_vals() -> Vec<Val> { vec![Val::Bool(true), Val::Bool(false), Val::Empty] }

/// one representative value (or a few) of every modelled type
fn type_reps() -> Vec<Val> {
    let mut v = vec![Val::Empty, Val::Bool(true), Val::Bool(false)];
    for t in 0..8u8 { let (lo, hi) = ity_range(t); v.push(Val::Int(t, 1)); v.push(Val::Int(t, lo)); v.push(Val::Int(t, hi)); }
    v.extend([Val::Float(1.0f32.to_bits()), Val::Float(f32::NAN.to_bits()), Val::Double(1.0f64.to_bits()), Val::Double((-1.0f64).to_bits()),
              Val::Double(f64::NAN.to_bits()), Val::Str(s("1")), Val::Str(s("-1")), Val::Str(s("true")), Val::Str(s("x")), Val::Str(s("")),
              Val::Status(0), Val::Status(1), Val::Status(0x8000_0000), Val::Status(0x0001_0000),
              Val::Opaque(0, 1), Val::Opaque(1, 1), Val::Opaque(2, 1)]);
    v
}

pub struct P;
impl Property for P {
    type Case = Case;
    fn fixed(tier: &str) -> Vec<Case> {
        let lit = |v: Val| Opnd::Lit(v);
        let i32v = |x: i128| Val::Int(4, x);
        let st = |x: &str| Val::Str(s(x));
        let el = |op: u32, ops: Vec<Opnd>| Elem { op, ops: Some(ops) };
        let f = |els: Vec<Elem>| Case::Filter { fields: vec![], els: Some(els) };
        let ff = |fields: Vec<Val>, els: Vec<Elem>| Case::Filter { fields, els: Some(els) };
        let like = |p: &str, t: &str| Case::Like { pat: s(p), s: s(t) };
        let mut v = vec![
            // --- the witnesses of the defects that were fixed (Proofs.v w_*) ---
            f(vec![el(0, vec![lit(i32v(1))])]),                                   // operands[1]
            f(vec![el(8, vec![lit(i32v(1)), lit(i32v(0))])]),                     // operands[2]
            f(vec![el(7, vec![Opnd::Elem(7)])]),                                  // elements[7]
            f(vec![el(1, vec![Opnd::Attribute])]),                                // AttributeOperand
            f(vec![el(0, vec![lit(i32v(1)), Opnd::Attr(0)])]),                    // number == null field
            f(vec![el(0, vec![lit(i32v(1)), lit(st("abc"))])]),                   // number == "abc"
            f(vec![el(16, vec![lit(Val::Int(7, 5)), lit(i32v(-1))])]),            // UInt64 & Int32(-1)
            f(vec![el(2, vec![lit(Val::Double(f64::NAN.to_bits())), lit(Val::Double(1.0f64.to_bits()))])]), // NaN > 1
            f(vec![el(0, vec![lit(st("abc")), lit(st("abc"))])]),                 // "abc" == "abc"
            like("\\\\%", "\\abc"), like("%", "a\nb"),
            like("a|b", "a"), like("a{2}", "aa"), like("\\d", "5"), like("[a&&b]", "a"), like("[[a]]", "a"),
            // --- known finding 1 ---
            like("a_c", "abc"), like("a_c", "ac"), like("_", "xyz"), like("%_", ""),
            ff(vec![st("abc")], vec![el(6, vec![Opnd::Attr(0), lit(st("a_c"))])]),
            // --- the clauses of the repository's own tests ---
            f(vec![el(1, vec![lit(Val::Empty)])]),
            f(vec![el(10, vec![Opnd::Elem(1), Opnd::Elem(2)]), el(0, vec![lit(i32v(550)), lit(st("550"))]),
                   el(0, vec![lit(Val::Double(10.5f64.to_bits())), lit(st("10.5"))])]),
            f(vec![el(6, vec![lit(st("Hello world")), lit(st("[Hh]ello w%"))])]),
            f(vec![el(7, vec![Opnd::Elem(1)]), el(0, vec![lit(i32v(550)), lit(i32v(551))])]),
            ff(vec![i32v(100)], vec![el(0, vec![Opnd::Attr(0), lit(i32v(100))])]),
            ff(vec![i32v(100)], vec![el(0, vec![Opnd::Attr(3), lit(i32v(100))])]),
            like("Th[ia][ts]%", "That is fine"), like("Th[ia][ts]%", "Then at any"), like("%en%", "content"),
            like("abc[13-68]", "abc4"), like("abc[13-68]", "abc7"), like("ABC[^13-5]", "ABC2"), like("ABC[^13-5]", "ABC4"),
            // --- malformed clauses that creation accepts ---
            Case::Filter { fields: vec![], els: None },
            f(vec![]),
            f(vec![Elem { op: 0, ops: None }]),
            f(vec![el(0, vec![])]),
            f(vec![el(7, vec![Opnd::Elem(0)])]),                                                    // itself
            f(vec![el(7, vec![Opnd::Elem(1)]), el(7, vec![Opnd::Elem(0)])]),                        // a loop
            f(vec![el(10, vec![Opnd::Elem(1), Opnd::Elem(1)]), el(7, vec![lit(Val::Bool(false))])]), // shared, no loop
            f(vec![el(7, vec![Opnd::Elem(u32::MAX)])]),
            f(vec![el(1, vec![Opnd::Bad])]),
            f(vec![el(0, vec![lit(i32v(1)), Opnd::Bad])]),
            f(vec![el(0, vec![Opnd::Elem(9)])]),                                   // count mismatch is seen before the bad index
            f(vec![el(10, vec![Opnd::Elem(9)])]),                                  // here the bad index is seen first
            f(vec![el(9, vec![lit(i32v(1))])]),                                    // InList with nothing to look in
            // every list member is compared with operand[0] on its own: an earlier member of another
            // type (to which operand[0] does not convert, or converts with loss) must not spoil a later match
            f(vec![el(9, vec![lit(Val::Str(s("x"))), lit(i32v(7)), lit(Val::Str(s("x")))])]),
            f(vec![el(9, vec![lit(Val::Int(1, 200)), lit(Val::Int(0, 1)), lit(Val::Int(1, 200))])]),
            f(vec![el(9, vec![lit(Val::Int(5, 4_000_000_000)), lit(Val::Int(4, 1)), lit(Val::Int(5, 4_000_000_000))])]),
            f(vec![el(9, vec![lit(Val::Int(6, 16_777_217)), lit(Val::Float(1.0f32.to_bits())), lit(Val::Int(6, 16_777_216))])]),
            f(vec![el(9, vec![lit(Val::Int(6, 16_777_217)), lit(Val::Float(1.0f32.to_bits())), lit(Val::Int(6, 16_777_217))])]),
            f(vec![el(9, vec![lit(i32v(1)), Opnd::Elem(9), Opnd::Attribute, lit(i32v(1))])]),       // errors inside InList are swallowed
            f(vec![el(13, vec![lit(i32v(1))])]), f(vec![el(14, vec![lit(i32v(1))])]), f(vec![el(15, vec![lit(i32v(1))])]),
            f(vec![el(12, vec![lit(i32v(1)), lit(i32v(1))])]), f(vec![el(12, vec![lit(i32v(1))])]),
            f(vec![el(0, vec![lit(i32v(1)), lit(i32v(1)), lit(i32v(2))])]),        // an extra operand is ignored by the code
            // --- conversions at their edges ---
            f(vec![el(0, vec![lit(Val::Int(7, u64::MAX as i128)), lit(Val::Int(6, -1))])]),
            f(vec![el(0, vec![lit(Val::Int(6, i64::MAX as i128)), lit(Val::Int(7, i64::MAX as i128))])]),
            f(vec![el(0, vec![lit(Val::Int(6, i64::MAX as i128)), lit(Val::Double((i64::MAX as f64).to_bits()))])]),
            f(vec![el(0, vec![lit(Val::Int(6, (1i128 << 53) + 1)), lit(Val::Double(((1u64 << 53) as f64).to_bits()))])]),
            f(vec![el(0, vec![lit(Val::Float(0.1f32.to_bits())), lit(Val::Double(0.1f64.to_bits()))])]),
            f(vec![el(0, vec![lit(Val::Float(0.5f32.to_bits())), lit(Val::Double(0.5f64.to_bits()))])]),
            f(vec![el(0, vec![lit(Val::Double(0.0f64.to_bits())), lit(Val::Double((-0.0f64).to_bits()))])]),
            f(vec![el(0, vec![lit(Val::Int(1, 200)), lit(Val::Int(0, -56))])]),
            f(vec![el(0, vec![lit(Val::Int(3, 0x8000)), lit(Val::Status(0x8000_0000))])]),
            f(vec![el(0, vec![lit(Val::Status(0x8000_0000)), lit(Val::Int(4, i32::MIN as i128))])]),
            f(vec![el(0, vec![lit(Val::Bool(true)), lit(st("1"))])]),
            f(vec![el(0, vec![lit(Val::Bool(true)), lit(Val::Int(1, 1))])]),
            f(vec![el(0, vec![lit(Val::Double(f64::INFINITY.to_bits())), lit(st("1e400"))])]),
            f(vec![el(0, vec![lit(Val::Double(5e-324f64.to_bits())), lit(st("4.9e-324"))])]),
            f(vec![el(0, vec![lit(Val::Float(16777216f32.to_bits())), lit(st("16777217"))])]),
            f(vec![el(0, vec![lit(Val::Opaque(1, 5)), lit(Val::Opaque(1, 5))])]),
            f(vec![el(0, vec![lit(Val::Opaque(0, 5)), lit(st("abc"))])]),
            f(vec![el(17, vec![lit(Val::Int(3, 0xff00)), lit(Val::Int(3, 0x00ff))])]),
            f(vec![el(16, vec![lit(Val::Int(0, -1)), lit(Val::Int(4, 0x7f0f))])]),
            f(vec![el(16, vec![lit(Val::Int(0, -1)), lit(Val::Int(3, 5))])]),
            // --- deep chains in a child process with a 2 MiB stack; 1000 = default max_array_length ---
            Case::Deep { n: 1, stack_kib: 2048 }, Case::Deep { n: 2, stack_kib: 2048 }, Case::Deep { n: 101, stack_kib: 2048 },
            Case::Deep { n: 1000, stack_kib: 2048 },
        ];
        // --- shared sub-elements are legal (more than one path to an element) and re-evaluated on every path:
        //     12 elements And(i+1, i+1) cost 2^12 evaluations ---
        v.push(f(dag_filter(12)));
        // --- And / Or / Not truth tables, operands as literals, as strings and through elements ---
        for a in tri_vals() {
            v.push(f(vec![el(7, vec![lit(a.clone())])]));
            for b in tri_vals() {
                v.push(f(vec![el(10, vec![lit(a.clone()), lit(b.clone())])]));
                v.push(f(vec![el(11, vec![lit(a.clone()), lit(b.clone())])]));
                v.push(f(vec![el(10, vec![Opnd::Elem(1), Opnd::Elem(2)]), el(7, vec![lit(a.clone())]), el(7, vec![lit(b.clone())])]));
            }
        }
        for p in ["[a-c-e]", "[a-]", "[-a]", "[a--]", "[^^]", "[^]", "[&&]", "[]", "[]a]", "[[:alpha:]]", "a\\\\", "\\a", "a\\", "a_?", "___", "%_",
                  "[+--]", "{}|", "[\\-a]", "x[a-a]", "[]]", "[z-a]", "[a", "]", "^$", "[$().+*?]", "\\[\\]", "", "%%", "[\\\\]", "[a\\]", "\\"] {
            v.push(Case::LikeText { pat: s(p) });
        }
        if tier == "thorough" {
            // every pair of type representatives under Equals, GreaterThan and BitwiseOr
            let reps = type_reps();
            for a in &reps { for b in &reps {
                v.push(f(vec![el(0, vec![lit(a.clone()), lit(b.clone())])]));
                v.push(f(vec![el(2, vec![lit(a.clone()), lit(b.clone())])]));
                v.push(f(vec![el(17, vec![lit(a.clone()), lit(b.clone())])]));
            } }
        }
        v
    }
    fn gen(r: &mut Rng) -> Case {
        match r.below(10) {
            0..=4 => gen_filter(r, false),
            5 | 6 => gen_filter(r, true),
            _ => gen_like_case(r),
        }
    }
    fn exec(c: &Case) -> Out {
        match c {
            Case::Filter { fields, els } => {
                let out = eval_filter(fields, els);
                let term = format!("(CFilter {} {})", coq_list(fields, coq_val), coq_opt(els, |e| coq_list(e, coq_elem)));
                let tag = match els {
                    None => "trivial-no-elements".to_string(),
                    Some(e) if e.is_empty() => "trivial-no-elements".to_string(),
                    Some(e) => {
                        let bad = e.iter().enumerate().any(|(i, x)| match &x.ops {
                            None => true,
                            Some(o) => o.len() < min_operands(x.op) || x.op >= 12 && x.op <= 15
                                || o.iter().any(|y| match y { Opnd::Elem(j) => *j as usize >= e.len() || *j as usize <= i, Opnd::Attribute | Opnd::Bad => true, _ => false }),
                        });
                        let class = match e[0].op { 0 | 2..=5 => "compare", 1 => "isnull", 6 => "like", 7 | 10 | 11 => "logic", 8 => "between",
                                                    9 => "inlist", 16 | 17 => "bitwise", _ => "unsupported" };
                        format!("{}-{}{}", if bad { "malformed" } else { "wellformed" }, class, if e.len() > 1 { "-nested" } else { "" })
                    }
                };
                Out { tag, term, out }
            }
            Case::Like { pat, s } => {
                let p: String = pat.iter().collect();
                let t: String = s.iter().collect();
                let out = match guarded(|| operator::verif_like(&p, &t)) {
                    Ok(Some((_, m))) => vec![1, m as i128],
                    Ok(None) => vec![0],
                    Err(_) => vec![-2],
                };
                Out { tag: if pat.contains(&'_') { "like-underscore".into() } else { "like".into() }, term: format!("(CLike {} {})", chars(pat), chars(s)), out }
            }
            Case::LikeText { pat } => {
                let p: String = pat.iter().collect();
                let out = match guarded(|| operator::verif_like(&p, "")) {
                    Ok(Some((t, _))) => { let mut o = vec![1]; o.extend(t.chars().map(|c| c as i128)); o }
                    Ok(None) => vec![0],
                    Err(_) => vec![-2],
                };
                Out { tag: "liketext".into(), term: format!("(CLikeText {})", chars(pat)), out }
            }
            Case::Deep { n, stack_kib } => {
                Out { tag: "deep".into(), term: format!("(CDeep {} {})", n, stack_kib), out: run_deep(*n, *stack_kib) }
            }
        }
    }
}

fn main() {
    let argv: Vec<String> = std::env::args().collect();
    if argv.len() >= 4 && argv[1] == "--c39-child" {
        child_main(argv[2].parse().unwrap_or(1), argv[3].parse().unwrap_or(2048));
    }
    if argv.len() >= 2 && argv[1] == "--probe" {
        std::panic::set_hook(Box::new(|i| { eprintln!("panic: {}", i); }));
        for (k, c) in P::fixed("quick").iter().enumerate() {
            let o = P::exec(c);
            println!("fixed:{} {} -> {:?}", k, o.term, o.out);
        }
        for n in [10u32, 100, 500, 1000, 2000, 4000, 8000] {
            println!("deep {} @2048KiB -> {:?}", n, run_deep(n, 2048));
        }
        for n in [16u32, 18, 20, 22] {
            let t0 = std::time::Instant::now();
            let out = eval_filter(&[], &Some(dag_filter(n)));
            println!("dag {} elements -> {:?} in {:?}", n, out, t0.elapsed());
        }
        for (p, t) in [("a_c", "abc"), ("a_c", "ac"), ("_", "xyz"), ("a|b", "a"), ("a{2}", "aa"), ("\\d", "5"), ("%", "a\nb"),
                       ("[]", "a"), ("[]a]", "]"), ("[[a]]", "a"), ("[a&&b]", "a"), ("___", "a"), ("\\%", "%"), ("\\\\%", "\\abc"),
                       ("[z-a]", "b"), ("[a\\]b]", "]"), ("a\\", "a\\"), ("[a", "a"), ("]", "]"), ("{", "{"), ("}", "}"), ("a{", "a{")] {
            println!("like {:?} {:?} -> {:?}", p, t, guarded(|| operator::verif_like(p, t)));
        }
        for p in ["[a-c-e]", "[a-]", "[-a]", "[a--]", "[^^]", "[^]", "[&&]", "[a&&b]", "[[:alpha:]]", "a\\\\", "\\a", "a\\", "a_?", "___", "%_", "[+--]", "{}|", "[\\-a]", "x[a-a]", "[]]"] {
            println!("liketext {:?} -> {:?}", p, guarded(|| operator::verif_like(p, "a")));
        }
        return;
    }
    run_main::<P>()
}
