(* C41 — configuration structs as data: a schema (struct name -> fields with their serde
   attributes, produced from the source by tools/translate/c41_schema.py), generic values, the
   serde data-model tree that serde_yaml builds, and the derived Serialize / Deserialize as two
   interpreters of the schema.  No proofs here. *)
From Coq Require Import List ZArith Bool String Ascii.
Import ListNotations.
Open Scope Z_scope.

Definition str := list Z.       (* Unicode scalar values *)
Definition zs (s : string) : str := map (fun a => Z.of_N (N_of_ascii a)) (list_ascii_of_string s).

Fixpoint str_eqb (a b : str) : bool :=
  match a, b with
  | [], [] => true
  | x :: a', y :: b' => (x =? y) && str_eqb a' b'
  | _, _ => false
  end.
(* String's Ord: byte-wise on UTF-8, which is the order of the scalar values *)
Fixpoint str_ltb (a b : str) : bool :=
  match a, b with
  | [], _ :: _ => true
  | x :: a', y :: b' => (x <? y) || ((x =? y) && str_ltb a' b')
  | _, _ => false
  end.

(* ---- schema ---------------------------------------------------------------------------------- *)
Inductive ty :=
| TString | TBool
| TInt (lo hi : Z)               (* u8 .. u64, usize, i32 *)
| TF64
| TPath                          (* PathBuf: a string, or not valid UTF-8 *)
| TDuration                      (* std::time::Duration: { secs, nanos } *)
| TOpt (t : ty) | TVec (t : ty)
| TMapS (t : ty)                 (* BTreeMap<String, t> *)
| TSetS                          (* BTreeSet<String> *)
| TStruct (n : string)
| TOpaque (n : string).          (* a type the schema does not describe *)

Record field := mk_field {
  f_name : string;               (* Rust field name *)
  f_key : string;                (* key in the serialised map (after rename) *)
  f_ty : ty;
  f_skip : bool;                 (* #[serde(skip)] *)
  f_skip_none : bool;            (* #[serde(skip_serializing_if = "Option::is_none")] *)
  f_default : option str         (* #[serde(default = "fn")] where fn returns this string *)
}.
Definition schema := list (string * list field).

Fixpoint lookup (s : schema) (n : string) : option (list field) :=
  match s with
  | [] => None
  | (n', fs) :: r => if String.eqb n n' then Some fs else lookup r n
  end.

(* ---- values and trees ---------------------------------------------------------------------------- *)
Inductive val :=
| VS (s : str) | VB (b : bool) | VZ (z : Z) | VF (bits : Z)
| VBadPath                       (* a PathBuf that is not valid UTF-8 *)
| VDur (secs nanos : Z)
| VO (o : option val) | VL (l : list val)
| VM (m : list (str * val))      (* in key order *)
| VR (fs : list val).            (* struct, fields in declaration order *)

Inductive ytree :=
| YNull | YBool (b : bool) | YInt (z : Z) | YFloat (bits : Z) | YStr (s : str)
| YSeq (l : list ytree) | YMap (m : list (str * ytree)).

Fixpoint yget (k : str) (m : list (str * ytree)) : option ytree :=
  match m with
  | [] => None
  | (k', y) :: r => if str_eqb k k' then Some y else yget k r
  end.

Notation "'do' x <- a ; b" := (match a with Some x => b | None => None end)
  (at level 200, x name, a at level 100, b at level 200).

Fixpoint all_some {A B} (f : A -> option B) (l : list A) : option (list B) :=
  match l with
  | [] => Some []
  | x :: r => do y <- f x; do ys <- all_some f r; Some (y :: ys)
  end.

Fixpoint strictly_sorted (l : list str) : bool :=
  match l with
  | a :: ((b :: _) as r) => str_ltb a b && strictly_sorted r
  | _ => true
  end.

(* ---- Serialize (derived), None = the serialiser reports an error -------------------------------- *)
Section WithSchema.
Variable sch : schema.

Definition is_none (v : val) : bool := match v with VO None => true | _ => false end.
Definition flat (ys : list (option (str * ytree))) : list (str * ytree) :=
  flat_map (fun o : option (str * ytree) => match o with Some e => [e] | None => [] end) ys.
Definition strs (l : list val) : list str := flat_map (fun x => match x with VS s => [s] | _ => [] end) l.

(* one field of a struct: omitted (Some None), written (Some (Some (key, tree))), or an error *)
Definition ser_field (rec : ty -> val -> option ytree) (fv : field * val) : option (option (str * ytree)) :=
  let '(f, x) := fv in
  if f_skip f || (f_skip_none f && is_none x) then Some None
  else do y <- rec (f_ty f) x; Some (Some (zs (f_key f), y)).
Definition ser_kv (rec : val -> option ytree) (kv : str * val) : option (str * ytree) :=
  do y <- rec (snd kv); Some (fst kv, y).

Fixpoint ser (fuel : nat) (t : ty) (v : val) {struct fuel} : option ytree :=
  match fuel with O => None | S fuel' =>
  match t, v with
  | TString, VS s => Some (YStr s)
  | TBool, VB b => Some (YBool b)
  | TInt _ _, VZ z => Some (YInt z)
  | TF64, VF b => Some (YFloat b)
  | TPath, VS s => Some (YStr s)
  | TPath, VBadPath => None                     (* "path contains invalid UTF-8 characters" *)
  | TDuration, VDur s n => Some (YMap [(zs "secs", YInt s); (zs "nanos", YInt n)])
  | TOpt _, VO None => Some YNull
  | TOpt t', VO (Some x) => ser fuel' t' x      (* Some is transparent *)
  | TVec t', VL l => do ys <- all_some (ser fuel' t') l; Some (YSeq ys)
  | TSetS, VL l => do ys <- all_some (ser fuel' TString) l; Some (YSeq ys)
  | TMapS t', VM m => do ys <- all_some (ser_kv (ser fuel' t')) m; Some (YMap ys)
  | TStruct n, VR vs =>
      do fs <- lookup sch n;
      if negb (List.length fs =? List.length vs)%nat then None else
      do ys <- all_some (ser_field (ser fuel')) (combine fs vs);
      Some (YMap (flat ys))
  | _, _ => None
  end end.

(* ---- Deserialize (derived), None = error ------------------------------------------------------------ *)
(* Default::default() of a skipped field: only Option is supported *)
Definition skipped_default (t : ty) : option val :=
  match t with TOpt _ => Some (VO None) | _ => None end.

Definition de_field (rec : ty -> ytree -> option val) (m : list (str * ytree)) (f : field) : option val :=
  if f_skip f then skipped_default (f_ty f)
  else match yget (zs (f_key f)) m with
       | Some y' => rec (f_ty f) y'
       | None =>
           match f_ty f, f_default f with
           | TOpt _, _ => Some (VO None)       (* a missing Option is None *)
           | _, Some d => Some (VS d)          (* #[serde(default = ..)] *)
           | _, None => None                   (* missing field *)
           end
       end.
Definition de_kv (rec : ytree -> option val) (ky : str * ytree) : option (str * val) :=
  do x <- rec (snd ky); Some (fst ky, x).

Fixpoint de (fuel : nat) (t : ty) (y : ytree) {struct fuel} : option val :=
  match fuel with O => None | S fuel' =>
  match t, y with
  | TString, YStr s => Some (VS s)
  | TBool, YBool b => Some (VB b)
  | TInt lo hi, YInt z => if (lo <=? z) && (z <=? hi) then Some (VZ z) else None
  | TF64, YFloat b => Some (VF b)
  | TPath, YStr s => Some (VS s)
  | TDuration, YMap m =>
      match yget (zs "secs") m, yget (zs "nanos") m with
      | Some (YInt s), Some (YInt n) =>
          if (0 <=? s) && (s <=? 18446744073709551615) && (0 <=? n) && (n <=? 4294967295)
          then Some (VDur s n) else None
      | _, _ => None
      end
  | TOpt _, YNull => Some (VO None)
  | TOpt t', _ => do x <- de fuel' t' y; Some (VO (Some x))
  | TVec t', YSeq l => do xs <- all_some (de fuel' t') l; Some (VL xs)
  | TSetS, YSeq l =>
      do xs <- all_some (de fuel' TString) l;
      (* collected into a BTreeSet: sorted, duplicates dropped; only the already-sorted case is modelled *)
      if strictly_sorted (strs xs) then Some (VL xs) else None
  | TMapS t', YMap m =>
      do xs <- all_some (de_kv (de fuel' t')) m;
      (* collected into a BTreeMap: only the already-sorted, duplicate-free case is modelled *)
      if strictly_sorted (map fst xs) then Some (VM xs) else None
  | TStruct n, YMap m =>
      do fs <- lookup sch n;
      do xs <- all_some (de_field (de fuel') m) fs;
      Some (VR xs)
  | _, _ => None
  end end.
End WithSchema.

(* ---- obligations on a schema ---------------------------------------------------------------------------- *)
(* a type under Option must not itself serialise to null *)
Fixpoint ty_ok (t : ty) : bool :=
  match t with
  | TOpt (TOpt _) => false
  | TOpt t' => ty_ok t'
  | TVec t' => ty_ok t'
  | TMapS t' => ty_ok t'
  | _ => true
  end.
Fixpoint keys_distinct (ks : list str) : bool :=
  match ks with
  | [] => true
  | k :: r => negb (existsb (str_eqb k) r) && keys_distinct r
  end.
Definition is_opt (t : ty) : bool := match t with TOpt _ => true | _ => false end.
Fixpoint no_opaque (t : ty) : bool :=
  match t with
  | TOpaque _ => false
  | TOpt t' | TVec t' | TMapS t' => no_opaque t'
  | _ => true
  end.
Definition field_ok (f : field) : bool :=
  ty_ok (f_ty f) &&
  (* skip_serializing_if = "Option::is_none" only on an Option: a missing Option reads as None *)
  (negb (f_skip_none f) || is_opt (f_ty f)) &&
  (* a skipped field is rebuilt by Default::default(), modelled for Option only *)
  (negb (f_skip f) || is_opt (f_ty f)) &&
  (* a field with a default function is always written (never skipped), so the default is never used on
     a saved file *)
  (match f_default f with Some _ => negb (f_skip f) && negb (f_skip_none f) | None => true end) &&
  (* every type that is written is described by the schema *)
  (f_skip f || no_opaque (f_ty f)).
Definition struct_ok (fs : list field) : bool :=
  forallb field_ok fs &&
  keys_distinct (map (fun f => zs (f_key f)) (filter (fun f => negb (f_skip f)) fs)).
Definition schema_ok (s : schema) : bool := forallb (fun e : string * list field => struct_ok (snd e)) s.

(* the fields that are skipped: equality depends on them, a saved file does not have them *)
Definition skipped_fields (s : schema) : list (string * string) :=
  flat_map (fun e : string * list field =>
              map (fun f => (fst e, f_name f)) (filter f_skip (snd e))) s.

(* ---- well-formed values ------------------------------------------------------------------------------ *)
(* [strict]: the skipped fields hold what Default::default() gives (None) *)
Section WithSchema2.
Variable sch : schema.
Variable strict : bool.

Definition is_vs (v : val) : bool := match v with VS _ => true | _ => false end.
Definition wt_field (rec : ty -> val -> bool) (fv : field * val) : bool :=
  let '(f, x) := fv in
  if f_skip f then (if strict then is_none x else true) else rec (f_ty f) x.

Fixpoint wt (fuel : nat) (t : ty) (v : val) {struct fuel} : bool :=
  match fuel with O => false | S fuel' =>
  match t, v with
  | TString, VS _ => true
  | TBool, VB _ => true
  | TInt lo hi, VZ z => (lo <=? z) && (z <=? hi)
  | TF64, VF b => (0 <=? b) && (b <=? 18446744073709551615)
  | TPath, VS _ => true
  | TDuration, VDur s n => (0 <=? s) && (s <=? 18446744073709551615) && (0 <=? n) && (n <=? 999999999)
  | TOpt _, VO None => true
  | TOpt t', VO (Some x) => wt fuel' t' x
  | TVec t', VL l => forallb (wt fuel' t') l
  | TSetS, VL l => forallb (wt fuel' TString) l && strictly_sorted (strs l)
  | TMapS t', VM m => forallb (fun kv : str * val => wt fuel' t' (snd kv)) m && strictly_sorted (map fst m)
  | TStruct n, VR vs =>
      match lookup sch n with
      | Some fs =>
          (List.length fs =? List.length vs)%nat &&
          forallb (wt_field (wt fuel')) (combine fs vs)
      | None => false
      end
  | TOpaque _, _ => true
  | _, _ => false
  end end.
End WithSchema2.
