(* C13 — channel keys are derived per the specification and agree on both ends
   (crypto/hash.rs p_sha, crypto/security_policy.rs prf / make_secure_channel_keys,
    core/comms/secure_channel.rs derive_keys).

   [p_sha_impl] is the loop of hash.rs as written; [prf]/[make_keys]/[derive_keys] follow the
   source, reading the per-policy tables and the slice arguments from Gen/C13Tables.v, which is
   regenerated from the source on every run.  The specification side ([P_hash], [spec_*]) is
   RFC 5246 section 5 and the Part 6 / Part 7 key-length table, written by hand. *)
From Coq Require Import List ZArith NArith Bool.
Import ListNotations.
From OV Require Export C13.Policy.
From OV Require Import C13.Sha Gen.C13Tables.

(* ---------- generic in the MAC ---------- *)
Section PSha.
  Variable hm : list byte -> list byte -> list byte.     (* HMAC key msg *)

  (* hash.rs p_sha: while result.len() < length { a_next = hmac(secret, a_last);
     result.extend(hmac(secret, a_next ++ seed)); a_last = a_next }; truncate *)
  Fixpoint p_sha_loop (fuel : nat) (secret seed : list byte) (len : nat)
           (result a_last : list byte) : list byte :=
    match fuel with
    | O => result
    | S f =>
        if Nat.ltb (length result) len then
          let a_next := hm secret a_last in
          p_sha_loop f secret seed len (result ++ hm secret (a_next ++ seed)) a_next
        else result
    end.
  Definition p_sha_impl (secret seed : list byte) (len : nat) : list byte :=
    firstn len (p_sha_loop (S len) secret seed len [] seed).

  (* security_policy.rs prf: result = p_sha(.., offset + length); result[offset..offset+length] *)
  Definition prf (secret seed : list byte) (len off : nat) : list byte :=
    firstn len (skipn off (p_sha_impl secret seed (off + len))).

  (* RFC 5246 section 5:  A(0) = seed, A(i) = HMAC(secret, A(i-1)),
     P_hash(secret, seed) = HMAC(secret, A(1) + seed) + HMAC(secret, A(2) + seed) + ...  *)
  Fixpoint A (secret seed : list byte) (i : nat) : list byte :=
    match i with O => seed | S j => hm secret (A secret seed j) end.
  Definition P_block (secret seed : list byte) (i : nat) : list byte :=
    hm secret (A secret seed (S i) ++ seed).
  (* the first n blocks of the stream *)
  Definition P_hash (secret seed : list byte) (n : nat) : list byte :=
    flat_map (P_block secret seed) (seq 0 n).
End PSha.

Definition mac_of (h : hash_alg) : list byte -> list byte -> list byte :=
  match h with HSha1 => hmac_sha1 | HSha256 => hmac_sha256 end.
Definition mac_len (h : hash_alg) : nat := match h with HSha1 => 20 | HSha256 => 32 end.

(* ---------- the code: make_secure_channel_keys and derive_keys ---------- *)
Definition src_sig_len (p : policy) : nat := Z.to_nat (src_sig_bits p / src_sig_div p).
Definition src_len (p : policy) (which : Z) : nat :=
  if Z.eqb which 0 then src_sig_len p
  else if Z.eqb which 1 then Z.to_nat (src_enc_len p) else Z.to_nat (src_blk_len p).

Definition key_set := (list byte * list byte * list byte)%type.     (* signing key, encryption key, IV *)

Definition slice (p : policy) (secret seed : list byte) (s : Z * list Z) : list byte :=
  prf (mac_of (src_hash p)) secret seed (src_len p (fst s))
      (fold_left Nat.add (map (src_len p) (snd s)) O).

Definition make_keys (p : policy) (secret seed : list byte) : key_set :=
  match map (slice p secret seed) src_slices with
  | [a; b; c] => (a, b, c)
  | _ => ([], [], [])
  end.

Record channel_keys := { local_keys : key_set; remote_keys : key_set }.
(* SecureChannel::derive_keys: remote = make(local_nonce, remote_nonce), local = make(remote_nonce, local_nonce) *)
Definition derive_keys (p : policy) (local_nonce remote_nonce : list byte) : channel_keys :=
  {| remote_keys := make_keys p local_nonce remote_nonce;
     local_keys := make_keys p remote_nonce local_nonce |}.

(* ---------- the specification: Part 6 6.7.5 with the Part 7 lengths ---------- *)
Definition spec_sig_len (p : policy) : nat :=
  match p with Basic128Rsa15 => 16 | Basic256 => 24 | _ => 32 end.
Definition spec_enc_len (p : policy) : nat :=
  match p with Basic128Rsa15 | Aes128Sha256RsaOaep => 16 | _ => 32 end.
Definition spec_blk_len (p : policy) : nat := 16.
Definition spec_hash (p : policy) : hash_alg :=
  match p with Basic128Rsa15 | Basic256 => HSha1 | _ => HSha256 end.

(* keys securing messages SENT by the party whose own nonce is [own], the peer's being [peer]:
   PRF(secret = peer nonce, seed = own nonce), consecutive slices of the P_hash stream *)
Definition spec_keys (p : policy) (own peer : list byte) : key_set :=
  let h := spec_hash p in
  let s := spec_sig_len p in let e := spec_enc_len p in let b := spec_blk_len p in
  let n := S (Nat.div (s + e + b) (mac_len h)) in
  let stream := P_hash (mac_of h) peer own n in
  (firstn s stream, firstn e (skipn s stream), firstn b (skipn (s + e) stream)).

(* ---------- correspondence interface ---------- *)
Open Scope Z_scope.
Record case := mk_case { c_policy : policy; c_client_nonce : list Z; c_server_nonce : list Z }.

Definition to_bytes (l : list Z) : list byte := map Z.to_N l.
Definition of_bytes (l : list byte) : list Z := map Z.of_N l.
Definition enc_set (k : key_set) : list Z :=
  let '(a, b, c) := k in
  [Z.of_nat (length a); Z.of_nat (length b); Z.of_nat (length c)] ++ of_bytes a ++ of_bytes b ++ of_bytes c.

(* observable: client local, client remote, server local, server remote key sets *)
Definition run (c : case) : list Z :=
  let cn := to_bytes (c_client_nonce c) in let sn := to_bytes (c_server_nonce c) in
  let ck := derive_keys (c_policy c) cn sn in
  let sk := derive_keys (c_policy c) sn cn in
  enc_set (local_keys ck) ++ enc_set (remote_keys ck) ++ enc_set (local_keys sk) ++ enc_set (remote_keys sk).

Definition spec (c : case) : list Z :=
  let cn := to_bytes (c_client_nonce c) in let sn := to_bytes (c_server_nonce c) in
  let client := spec_keys (c_policy c) cn sn in       (* secures what the client sends *)
  let server := spec_keys (c_policy c) sn cn in       (* secures what the server sends *)
  enc_set client ++ enc_set server ++ enc_set server ++ enc_set client.

Fixpoint list_eqb (a b : list Z) : bool :=
  match a, b with
  | [], [] => true
  | x :: a', y :: b' => (x =? y) && list_eqb a' b'
  | _, _ => false
  end.

Definition oracle (c : case) (out : list Z) : bool := list_eqb out (spec c).
Definition known (c : case) : Z := 0.
Definition valid (c : case) : Prop :=
  Forall (fun b => 0 <= b < 256) (c_client_nonce c) /\ Forall (fun b => 0 <= b < 256) (c_server_nonce c).
