(* C01 — binary encoding round-trips every valid value exactly: correspondence interface.

   Two kinds of case:
   * [CVal t v o rest]: a value [v] of type [t] (built-ins, Variant, DataValue, arrays of them),
     printed by the harness as a Coq term; the real encoder runs on it, random bytes [rest] are
     appended, the real decoder runs on the result.
   * [CBytes t o bs]: for generated structures (no term printer): the bytes [bs] are decoded,
     the decoded value is re-encoded, and the re-encoding (followed by the rest of bs) decoded again.
   No proofs here. *)
From Coq Require Import List ZArith Bool Lia.
Import ListNotations.
From OV Require Export C01.Codec C01.Builtins C01.Types C01.Argument Gen.C01ServiceTypes.
Open Scope Z_scope.

Inductive case :=
| CVal (t : ty) (v : uval) (o : opts) (rest : bytes)
| CBytes (t : ty) (o : opts) (bs : bytes)
| CArg (a : argval) (o : opts) (rest : bytes).    (* the hand-written Argument structure *)

Definition zlen {A} (l : list A) : Z := Z.of_nat (length l).

(* the print of a decoded value; generated structures have no printer on the implementation side,
   they are observed through their re-encoding only *)
Fixpoint has_struct (t : ty) : bool :=
  match t with TStruct _ | TEnum _ _ | TFlags _ _ | TEnumD _ _ _ => true | TArr t' => has_struct t' | _ => false end.
Definition pr (t : ty) (v : uval) : list Z := if has_struct t then [] else ser_uval v.
Definition depth0 (o : opts) : nat := Z.to_nat (max_depth o).

(* decode and report: [0; consumed; len print] ++ print ++ [len re-encoding] ++ re-encoding,
   [-1] error, [-2] panic *)
Definition report (t : ty) (o : opts) (input : bytes) : list Z :=
  match run (dec_ty t o (depth0 o)) input with
  | Ok (v', rest') =>
      [0; zlen input - zlen rest'; zlen (pr t v')] ++ pr t v'
      ++ [zlen (enc_ty t v')] ++ enc_ty t v'
  | Err _ => [-1]
  | Panic _ => [-2]
  end.

Definition pr_arg : argval -> list Z := ser_arg ser_scalar.
Definition report_arg (o : opts) (input : bytes) : list Z :=
  match run (dec_arg o) input with
  | Ok (v', rest') =>
      [0; zlen input - zlen rest'; zlen (pr_arg v')] ++ pr_arg v' ++ [zlen (enc_arg v')] ++ enc_arg v'
  | Err _ => [-1]
  | Panic _ => [-2]
  end.

Definition run (c : case) : list Z :=
  match c with
  | CArg a o rest =>
      let b := enc_arg a in
      [len_arg a; zlen b] ++ b ++ report_arg o (b ++ rest)
  | CVal t v o rest =>
      let b := enc_ty t v in
      [len_ty t v; zlen b] ++ b ++ report t o (b ++ rest)
  | CBytes t o bs =>
      match Codec.run (dec_ty t o (depth0 o)) bs with
      | Ok (v, rest) =>
          let b := enc_ty t v in
          [0; zlen bs - zlen rest; zlen (pr t v)] ++ pr t v
          ++ [len_ty t v; zlen b] ++ b ++ report t o (b ++ rest)
      | Err _ => [-1]
      | Panic _ => [-2]
      end
  end.

Fixpoint list_eqb (a b : list Z) : bool :=
  match a, b with
  | [], [] => true
  | x :: a', y :: b' => (x =? y) && list_eqb a' b'
  | _, _ => false
  end.

(* all lengths within the limits, hereditarily, and the nesting within the depth: the
   specification of "within decoding limits", written without reference to decoding order *)
Definition fits_ustr (limit : Z) (s : ustr) : bool :=
  match s with None => true | Some bs => zlen bs <=? limit end.
Definition fits_nodeid (o : opts) (n : nodeid) : bool :=
  match n with
  | NId _ (IStr s) => fits_ustr (max_str o) s
  | NId _ (IBStr b) => fits_ustr (max_bstr o) b
  | _ => true
  end.
Fixpoint fits_diag (o : opts) (d : nat) (x : diag) : bool :=
  match d with
  | O => false
  | S d' =>
    match x with Diag _ _ _ _ info _ inner =>
      match info with Some s => fits_ustr (max_str o) s | None => true end
      && match inner with Some y => fits_diag o d' y | None => true end
    end
  end.
Definition fits_scalar (o : opts) (d : nat) (s : scalar) : bool :=
  match s with
  | SStr s | SXml s => fits_ustr (max_str o) s
  | SBStr b => fits_ustr (max_bstr o) b
  | SNode n => fits_nodeid o n
  | SENode (ENId n uri _) => fits_nodeid o n && fits_ustr (max_str o) uri
  | SQName _ name => fits_ustr (max_str o) name
  | SLText loc txt => fits_ustr (max_str o) loc && fits_ustr (max_str o) txt
  | SExt n b =>
      match d with O => false | S _ =>
        fits_nodeid o n && match b with
                           | EONone => true
                           | EOBytes x => fits_ustr (max_bstr o) x
                           | EOXml x => fits_ustr (max_str o) x
                           end
      end
  | SDiag x => fits_diag o d x
  | _ => true
  end.
Fixpoint fits_variant (o : opts) (d : nat) (v : variant) {struct v} : bool :=
  match v with
  | VEmpty => true
  | VS s => fits_scalar o d s
  | VVar w => match d with O => false | S d' => fits_variant o d' w end
  | VDV ov r =>
      match d with O => false
      | S d' => match ov with Some w => fits_variant o d' w | None => true end end
  | VArray ty vals dims =>
      match vals with
      | [] => true
      | _ => (zlen vals <=? max_arr o)
             && forallb (fun x => fits_variant o d x) vals
             && match dims with Some ds => zlen ds <=? max_arr o | None => true end
      end
  end.
Fixpoint fits_ty (t : ty) (o : opts) (d : nat) (v : uval) {struct t} : bool :=
  match t, v with
  | TS _, US s => fits_scalar o d s
  | TVar, UV x => fits_variant o d x
  | TDV, UD ov r => fits_variant o d (VDV ov r)
  | TArr t', UA xs =>
      match xs with
      | None => true
      | Some l => (zlen l <=? max_arr o) && forallb (fits_ty t' o d) l
      end
  | TStruct fs, UT vs =>
      (fix go (fs : list ty) (vs : list uval) : bool :=
         match fs, vs with
         | f :: fs', x :: vs' => fits_ty f o d x && go fs' vs'
         | _, _ => true
         end) fs vs
  | _, _ => true
  end.

Fixpoint starts_with (p l : list Z) : option (list Z) :=
  match p, l with
  | [], _ => Some l
  | x :: p', y :: l' => if x =? y then starts_with p' l' else None
  | _ :: _, [] => None
  end.

(* The property on an implementation output for a value case:
   byte_len = bytes written; if the value is within the limits the decoder returns the normalised
   value and consumes exactly the bytes written (the re-encoding of the decoded value that follows
   is only compared with the model's); beyond the limits the decoder rejects (C03's half). *)
Definition oracle_val (t : ty) (v : uval) (o : opts) (out : list Z) : bool :=
  match out with
  | bl :: n :: more =>
      let tail := skipn (Z.to_nat n) more in
      (bl =? n) && (0 <=? n) && (n <=? zlen more) &&
      if fits_ty t o (depth0 o) v
      then match starts_with ([0; n; zlen (pr t (norm_ty t v))] ++ pr t (norm_ty t v)) tail with
           | Some (n2 :: b2) => n2 =? zlen b2
           | _ => false
           end
      else list_eqb tail [-1]
  | _ => false
  end.

(* For a bytes case the value is the one the bytes denote (the model decoder names it); whenever
   the decoder accepts, that value must round-trip like in a value case. *)
Definition oracle_bytes (t : ty) (o : opts) (bs : bytes) (out : list Z) : bool :=
  match Codec.run (dec_ty t o (depth0 o)) bs with
  | Ok (v, rest) =>
      match starts_with ([0; zlen bs - zlen rest; zlen (pr t v)] ++ pr t v) out with
      | Some more => oracle_val t v o more
      | None => false
      end
  | Err _ => list_eqb out [-1]
  | Panic _ => false
  end.

(* the Argument structure: name, type id and description strings within the string limit, the
   dimensions (those actually written) within the array limit *)
Definition fits_arg (o : opts) (a : argval) : bool :=
  match a with Arg name dt rank dims desc =>
    fits_ustr (max_str o) name && fits_nodeid o dt
    && match (if 0 <? rank then dims else Some []) with
       | Some ds => zlen ds <=? max_arr o
       | None => true end
    && fits_scalar o O desc
  end.
Definition oracle_arg (a : argval) (o : opts) (out : list Z) : bool :=
  match out with
  | bl :: n :: more =>
      let tail := skipn (Z.to_nat n) more in
      (bl =? n) && (0 <=? n) && (n <=? zlen more) &&
      if fits_arg o a
      then match starts_with ([0; n; zlen (pr_arg (norm_arg a))] ++ pr_arg (norm_arg a)) tail with
           | Some (n2 :: b2) => n2 =? zlen b2
           | _ => false
           end
      else list_eqb tail [-1]
  | _ => false
  end.

Definition oracle (c : case) (out : list Z) : bool :=
  match c with
  | CArg a o rest => oracle_arg a o out
  | CVal t v o rest => oracle_val t v o out
  | CBytes t o bs => oracle_bytes t o bs out
  end.

Definition known (c : case) : Z := 0.

Definition plain (o : opts) : Prop :=
  offset_ns o = 0 /\ 0 <= max_depth o /\ 0 <= max_str o /\ 0 <= max_bstr o /\ 0 <= max_arr o.
Definition valid (c : case) : Prop :=
  match c with
  | CArg a o rest => wf_arg a /\ plain o
  | CVal t v o rest => wf_ty t v /\ plain o
  | CBytes t o bs =>
      plain o /\ (forall v rest, Codec.run (dec_ty t o (depth0 o)) bs = Ok (v, rest) -> wf_ty t v)
      /\ (forall p, Codec.run (dec_ty t o (depth0 o)) bs <> Panic p)
  end.
