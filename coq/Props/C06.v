(* C06 — Implicit Variant conversion never changes a numeric value.  Statements only. *)
From Coq Require Import List ZArith.
From OV Require Import C06.Types C06.Model C06.Proofs.
Import ListNotations.
Open Scope Z_scope.

Theorem C06_legacy_wraps :
  run_with Legacy.cfg (mk_case Convert TUInt32 TInt32 0 0 [4000000000]) = [6; -294967296].
Proof. exact legacy_convert_wraps. Qed.
Print Assumptions C06_legacy_wraps.
