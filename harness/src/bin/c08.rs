//! C08: sweeps over valid secured chunks.  An original chunk produced under the channel's keys
//! (control: must be accepted) followed by modifications of it -- single-bit flips at every byte
//! (or a sample of positions for the long OPN chunks), every truncation, extensions -- and by
//! chunks secured with keys from other nonces / another certificate / for another recipient:
//! all of those must be rejected with an error.  The receive path is run by recv_util::exec_case
//! (real SecureChannel::verify_and_remove_security under `guarded`).
#[path = "../util.rs"]
mod util;
#[path = "../chan_util.rs"]
mod chan;
#[path = "../recv_util.rs"]
mod recv;
use chan::*;
use recv::*;
use util::*;

pub struct Case8 { c: Case, orig: Vec<bool> }
pub struct P;

thread_local! { static THOROUGH: std::cell::Cell<bool> = std::cell::Cell::new(false); }

fn sym_original(policy: usize, mode: usize, t: &[u8; 3], body: &[u8], seq: u32) -> Vec<u8> {
    let ss = POLICIES[policy].symmetric_signature_size();
    let pad = if mode == 2 { good_sym_padding(body.len(), ss) } else { vec![] };
    sym_chunk(policy, mode == 2, t, 5, 9, seq, 77, body, &pad, true)
}
fn fix_size(mut v: Vec<u8>) -> Vec<u8> { set_size(&mut v); v }

/// kind 0: bit flips at every byte; 1: truncations (size field corrected) and extensions; 2: truncations
/// without correcting the size field, chunks under foreign keys / other token / other channel
fn sym_sweep(policy: usize, mode: usize, kind: usize, r: &mut Rng) -> Case8 {
    let body = { let n = r.below(if mode == 2 { 10 } else { 30 }) as usize; r.bytes(n) };
    let t: &[u8; 3] = if r.chance(1, 5) { b"CLO" } else { b"MSG" };
    let o = sym_original(policy, mode, t, &body, 1 + r.below(1000) as u32);
    let mut chunks = vec![o.clone()];
    let mut orig = vec![true];
    match kind {
        0 => for i in 0..o.len() {
            let mut m = o.clone();
            m[i] ^= 1 << r.below(8);
            chunks.push(m); orig.push(false);
        },
        1 => {
            for n in 0..o.len() { chunks.push(fix_size(o[..n].to_vec())); orig.push(false); }
            for extra in [1usize, 2, 15, 16, 17, 32] {
                let mut m = o.clone(); m.extend(r.bytes(extra)); chunks.push(fix_size(m)); orig.push(false);
                let mut m = o.clone(); m.extend(vec![0u8; extra]); chunks.push(m); orig.push(false);
            }
        }
        _ => {
            for n in 0..o.len() { if r.chance(1, 3) { chunks.push(o[..n].to_vec()); orig.push(false); } }
            // the same plain chunk secured under keys derived from other nonces: build it on a channel pair
            // with other nonces by temporarily securing with the other policy's keys is not possible here, so
            // the receiver is what changes: see `foreign` below
        }
    }
    let mut c = mk_case(policy, mode, chunks, &format!("sym-{}-{}-{}", pol_name(policy), mode_name(mode), ["flips", "trunc-ext", "trunc-nosize"][kind]));
    c.has_keys = true; c.reset_policy = true;
    Case8 { c, orig }
}
/// a receiver whose keys come from other nonces than the sender's: every chunk of the peer is foreign
fn sym_foreign(policy: usize, mode: usize, r: &mut Rng) -> Case8 {
    let mut chunks = Vec::new();
    for _ in 0..3 { let body = rb(r, 30, 0); chunks.push(sym_original(policy, mode, b"MSG", &body, 1 + r.below(1000) as u32)); }
    let orig = vec![false; chunks.len()];
    let mut c = mk_case(policy, mode, chunks, &format!("sym-{}-{}-foreign-keys", pol_name(policy), mode_name(mode)));
    c.has_keys = true; c.reset_policy = true; c.peer_nonce = 12 + r.below(200) as u8;
    Case8 { c, orig }
}

/// a receiver whose token was renewed: it derived keys with the sender's nonce once and has derived new ones since;
/// chunks secured under the replaced keys (whatever token id they carry) are foreign now
fn sym_after_renew(policy: usize, mode: usize, r: &mut Rng) -> Case8 {
    let mut chunks = Vec::new();
    for t in [b"MSG", b"CLO", b"MSG"] { let body = rb(r, 30, 0); chunks.push(sym_original(policy, mode, t, &body, 1 + r.below(1000) as u32)); }
    let orig = vec![false; chunks.len()];
    let mut c = mk_case(policy, mode, chunks, &format!("sym-{}-{}-keys-of-the-renewed-token", pol_name(policy), mode_name(mode)));
    c.has_keys = true; c.reset_policy = true; c.pre_nonce = Some(11); c.peer_nonce = 12 + r.below(200) as u8;
    Case8 { c, orig }
}

/// a receiver that has a Sign / SignAndEncrypt policy and mode but has not derived keys yet (a client between its
/// OPN request and the response): it can authenticate nothing, so every MSG / CLO chunk -- secured by the peer,
/// unsecured, modified -- must be rejected
fn sym_keyless(policy: usize, mode: usize, r: &mut Rng) -> Case8 {
    let mut chunks = Vec::new();
    for t in [b"MSG", b"CLO"] {
        let body = rb(r, 30, 0);
        let o = sym_original(policy, mode, t, &body, 1 + r.below(1000) as u32);
        let mut m = o.clone(); let i = r.below(m.len() as u64) as usize; m[i] ^= 1 << r.below(8);
        chunks.push(o); chunks.push(m);
        let n = 4 + r.below(60) as usize;
        let pb = r.bytes(n);
        chunks.push(plain_chunk(t, b'F', 5, 9, 1 + r.below(1000) as u32, 77, &pb));
    }
    let orig = vec![false; chunks.len()];
    let mut c = mk_case(policy, mode, chunks, &format!("sym-{}-{}-no-keys-yet", pol_name(policy), mode_name(mode)));
    c.has_keys = false; c.reset_policy = true;
    Case8 { c, orig }
}

/// unsecured chunks an outsider can put on the wire ahead of the sweep: an OPN chunk naming the policy None (the
/// receive path hands it on untouched), one naming an unknown policy, a chunk too short to parse.  None of them
/// may change what the channel does with the secured chunks that follow.
fn preamble(kind: u64, r: &mut Rng) -> Vec<Vec<u8>> {
    let none = |r: &mut Rng| { let n = r.below(40) as usize; opn_chunk(0, uri_bytes(0, 0, r), &Cert::Null, &Thumb::Null, &Enc::Garbage(8 + n), 5, 3, 77, r) };
    match kind {
        0 => vec![none(r)],
        1 => vec![opn_chunk(0, uri_bytes(2, 0, r), &Cert::Null, &Thumb::Null, &Enc::Garbage(12), 5, 3, 77, r), none(r)],
        2 => vec![none(r), hdr(b"OPN", b'F', 12, 5), none(r)],
        _ => vec![opn_chunk(0, uri_bytes(4, 0, r), &Cert::Null, &Thumb::Null, &Enc::Garbage(9), 5, 3, 77, r)],
    }
}
fn with_pre(mut c: Case8, kind: u64, r: &mut Rng) -> Case8 {
    c.c.pre = preamble(kind, r);
    c.c.tag = format!("{}-after-unsecured-opn{}", c.c.tag, kind);
    c
}

fn opn_original(policy: usize, sid: usize, rid: usize, body: usize, r: &mut Rng) -> Vec<u8> {
    opn_chunk(policy, uri_bytes(0, policy, r), &Cert::Of(sid), &Thumb::Of(rid),
              &Enc::Plain { body, padding: good_asym_padding(policy, body, sid, rid), signer: sid, good_sig: true, to: rid }, 5, 3, 77, r)
}
fn opn_sweep(policy: usize, kind: usize, sid: usize, rid: usize, r: &mut Rng) -> Case8 {
    let body = 20 + r.below(60) as usize;
    let o = opn_original(policy, sid, rid, body, r);
    let mut chunks = vec![o.clone()];
    let mut orig = vec![true];
    let uri_len = POLICIES[policy].to_uri().len();
    let cert_off = 12 + 4 + uri_len + 4;
    let cert_len = ident(sid).cert.as_byte_string().as_ref().len();
    let ct_off = cert_off + cert_len + 4 + 20;
    match kind {
        0 => {
            // flips: all header / uri / length / thumbprint bytes, a sample of certificate and cipher text bytes
            // (a flip in the message type, the final flag or one of the three length fields makes the whole chunk,
            // certificate included, literal in the case term: quick runs take a sample of those positions)
            let thorough = THOROUGH.with(|t| t.get());
            let breaking: Vec<usize> = (0..4).chain(12..16).chain(cert_off - 4..cert_off).chain(cert_off + cert_len..cert_off + cert_len + 4).collect();
            let mut pos: Vec<usize> = (0..cert_off).chain((cert_off + cert_len)..ct_off).filter(|i| !breaking.contains(i)).collect();
            if thorough { pos.extend(breaking.iter()); } else { for _ in 0..4 { pos.push(*r.pick(&breaking)); } }
            for _ in 0..12 { pos.push(cert_off + r.below(cert_len as u64) as usize); }
            for _ in 0..16 { pos.push(ct_off + r.below((o.len() - ct_off) as u64) as usize); }
            pos.push(ct_off); pos.push(o.len() - 1); pos.push(ct_off + 255); pos.push(ct_off + 256);
            for i in pos { if i < o.len() { let mut m = o.clone(); m[i] ^= 1 << r.below(8); chunks.push(m); orig.push(false); } }
        }
        1 => {
            // truncations / extensions (size field corrected): every boundary and a sample
            let mut lens: Vec<usize> = vec![0, 11, 12, cert_off - 1, cert_off, cert_off + cert_len, ct_off - 1, ct_off, ct_off + 1, ct_off + 255, ct_off + 256, o.len() - 257, o.len() - 256, o.len() - 1];
            for _ in 0..10 { lens.push(r.below(o.len() as u64) as usize); }
            for n in lens { if n < o.len() { chunks.push(fix_size(o[..n].to_vec())); orig.push(false); } }
            for extra in [1usize, 16, 255, 256] { let mut m = o.clone(); m.extend(r.bytes(extra)); chunks.push(fix_size(m)); orig.push(false); }
            let mut m = o.clone(); m.extend(vec![0u8; 256]); chunks.push(m); orig.push(false);
        }
        _ => {
            // foreign: signed by another key than the certificate's, certificate swapped, encrypted for another recipient,
            // thumbprint of another certificate, broken signature
            // two identities that are neither the sender nor the receiver (RSA-2048 / RSA-1024 pool)
            let pool: Vec<usize> = (0..4).filter(|i| *i != sid && *i != rid).collect();
            let (other, third) = (pool[0], pool[1]);
            let mk = |cert: usize, thumb: usize, signer: usize, good: bool, to: usize, r: &mut Rng| opn_chunk(policy, uri_bytes(0, policy, r), &Cert::Of(cert), &Thumb::Of(thumb),
                &Enc::Plain { body, padding: good_asym_padding(policy, body, signer, to), signer, good_sig: good, to }, 5, 3, 77, r);
            chunks.push(mk(sid, rid, rid, true, rid, r)); orig.push(false);         // signed with the receiver's own key
            chunks.push(mk(sid, rid, other, true, rid, r)); orig.push(false);       // signed with another private key
            chunks.push(mk(sid, rid, third, true, rid, r)); orig.push(false);       // ... of another size
            chunks.push(mk(sid, rid, sid, false, rid, r)); orig.push(false);        // signature bit flipped
            chunks.push(mk(sid, other, sid, true, rid, r)); orig.push(false);       // thumbprint of another certificate
            chunks.push(mk(sid, rid, sid, true, other, r)); orig.push(false);       // encrypted to another recipient
            chunks.push(mk(sid, other, sid, true, other, r)); orig.push(false);     // addressed and encrypted to a third party
        }
    }
    let mut c = mk_case(policy, 2, chunks, &format!("opn-{}-{}", pol_name(policy), ["flips", "trunc-ext", "foreign"][kind]));
    c.rid = rid; c.sid = sid; c.reset_policy = true;
    Case8 { c, orig }
}

impl Property for P {
    type Case = Case8;
    fn fixed(tier: &str) -> Vec<Case8> {
        THOROUGH.with(|t| t.set(tier == "thorough"));
        let mut r = Rng::new(8);
        let mut v = Vec::new();
        for policy in 1..6 {
            for mode in [1usize, 2] {
                if tier == "thorough" || (policy + mode) % 2 == 0 {
                    for kind in 0..3 { v.push(sym_sweep(policy, mode, kind, &mut r)); }
                }
                v.push(sym_foreign(policy, mode, &mut r));
                v.push(sym_keyless(policy, mode, &mut r));
                v.push(sym_after_renew(policy, mode, &mut r));
                let k = ((policy + mode) % 3) as u64;
                let c = sym_sweep(policy, mode, (policy + 2 * mode) % 3, &mut r); v.push(with_pre(c, k, &mut r));
                if tier == "thorough" { let c = sym_foreign(policy, mode, &mut r); v.push(with_pre(c, 3 - k, &mut r)); }
            }
            let kinds: Vec<usize> = if tier == "thorough" { vec![0, 1, 2] } else { vec![policy % 3, 2] };
            for kind in kinds { v.push(opn_sweep(policy, kind, 0, 1, &mut r)); }
        }
        v
    }
    fn gen(r: &mut Rng) -> Case8 {
        let thorough = THOROUGH.with(|t| t.get());
        let policy = 1 + r.below(5) as usize;
        match r.below(8) {
            0 | 1 | 2 => { let c = sym_sweep(policy, 1 + r.below(2) as usize, r.below(3) as usize, r); if r.chance(1, 3) { let k = r.below(4); with_pre(c, k, r) } else { c } }
            3 if r.chance(1, 4) => sym_after_renew(policy, 1 + r.below(2) as usize, r),
            3 if r.chance(1, 3) => { let c = sym_keyless(policy, 1 + r.below(2) as usize, r); if r.chance(1, 2) { let k = r.below(4); with_pre(c, k, r) } else { c } }
            3 => { let c = sym_foreign(policy, 1 + r.below(2) as usize, r); if r.chance(1, 2) { let k = r.below(4); with_pre(c, k, r) } else { c } }
            _ => {
                let (sid, rid) = if thorough && r.chance(1, 4) { if policy <= 2 { (2, 3) } else { (4, 5) } } else if r.chance(1, 2) { (0, 1) } else { (1, 0) };
                opn_sweep(policy, r.below(3) as usize, sid, rid, r)
            }
        }
    }
    fn exec(c: &Case8) -> Out {
        let (term, out) = exec_case(&c.c);
        debug_assert!(c.c.reset_policy);
        let pre = PRE_VIEWS.with(|p| p.borrow().join("; "));
        let term = format!("(mk_case8 {} {} [{}])", term, coq_list(&c.orig, |b| coq_bool(*b).to_string()), pre);
        Out { tag: c.c.tag.clone(), term, out }
    }
}
fn main() { run_main::<P>() }
