(* C19 — Only activated sessions on their own channel can use services.  Statements only.
   Vocabulary (coq/C19/Model.v): [step eff c op] is one request on the connection [c] with an
   arbitrary service effect [eff]; its second component is the response class (0 = carried out,
   1 = ServiceFault BadSessionIdInvalid, 2 = ServiceFault BadSessionNotActivated, 3 = another
   fault of a session service); [exec eff h c] runs a history; [authorised c t] = the token t
   belongs to a session of the connection that is activated, bound to the connection's current
   secure channel and not timed out; [bindings] = (token, activated, channel) of every session;
   [world] = everything else a service can change; [exempt] = the Discovery and Session service
   sets of OPC UA Part 4. *)
From Coq Require Import List ZArith String.
Import ListNotations.
From OV Require Import Gen.C19Dispatch C19.Model C19.Proofs C19.OracleProofs.
Open Scope Z_scope.

(* Generated obligation: in the CURRENT source every match arm of MessageHandler::handle_message
   that is neither a discovery nor a session service is exactly one call of
   validate_service_request (the service runs inside the guard's closure). *)
Theorem C19_dispatch_guarded : dispatch_ok = true.
Proof. exact dispatch_ok_holds. Qed.
Print Assumptions C19_dispatch_guarded.

(* ... and the guard functions still make their checks, in this order. *)
Theorem C19_guard_shape :
  guard_calls = ["find_session_by_token"; "is_session_activated"; "is_session_timed_out"; "action";
                 "set_last_service_request_timestamp"]%string /\
  activate_guard_calls = ["find_session_by_token"; "is_session_timed_out"; "action";
                          "set_last_service_request_timestamp"]%string.
Proof. split; reflexivity. Qed.
Print Assumptions C19_guard_shape.

(* Every request of the model that is not exempt is dispatched through the full guard. *)
Theorem C19_required_guarded : forall sv, exempt sv = false -> arm_of sv = Some FullGuard.
Proof. exact required_full. Qed.
Print Assumptions C19_required_guarded.

(* The statement.  After ANY history (CreateSession, ActivateSession with good and bad credentials,
   CloseSession, requests with any tokens, channel changes, elapsed time), for ANY effect function:
   a service other than discovery and the session services is carried out iff the token is
   authorised; then exactly the service's effect happens and no binding changes; otherwise the
   answer is one of the guard's ServiceFaults and neither the world nor any binding changes. *)
Theorem C19_service_iff :
  forall W (eff : svc -> Z -> Z -> W -> W) (w0 : W) (h : list op) tr sv arg,
  exempt sv = false ->
  let c := exec eff h (init w0) in
  let t := tok_val tr in
  let r := step eff c (Service tr sv arg) in
  (snd r = 0 <-> authorised c t) /\
  (snd r = 0 -> world (fst r) = eff sv arg t (world c) /\ bindings (fst r) = bindings c) /\
  (snd r <> 0 -> (snd r = 1 \/ snd r = 2) /\ world (fst r) = world c /\ bindings (fst r) = bindings c).
Proof. exact service_iff. Qed.
Print Assumptions C19_service_iff.

(* After CloseSession succeeded the token never belongs to a session again, whatever follows ... *)
Theorem C19_closed_token_dead :
  forall W (eff : svc -> Z -> Z -> W -> W) (w0 : W) (h1 h2 : list op) tr,
  let c := exec eff h1 (init w0) in
  snd (step eff c (Close tr)) = 0 ->
  ~ resolves (exec eff h2 (fst (step eff c (Close tr)))) (tok_val tr).
Proof. exact closed_token_dead. Qed.
Print Assumptions C19_closed_token_dead.

(* ... and a token that belongs to no session is refused (BadSessionIdInvalid, state untouched) by
   every guarded service, by ActivateSession and by CloseSession. *)
Theorem C19_unresolved_refused :
  forall W (eff : svc -> Z -> Z -> W -> W) (c : conn W) tr,
  ~ resolves c (tok_val tr) ->
  (forall sv arg, exempt sv = false -> step eff c (Service tr sv arg) = (c, 1)) /\
  (forall cred, step eff c (Activate tr cred) = (c, 1)) /\
  step eff c (Close tr) = (c, 1).
Proof. exact unresolved_refused. Qed.
Print Assumptions C19_unresolved_refused.

(* The null token, forged values and tokens not yet issued belong to no session in any reachable
   state. *)
Theorem C19_unissued_never_resolves :
  forall W (eff : svc -> Z -> Z -> W -> W) (w0 : W) (h : list op) t,
  let c := exec eff h (init w0) in
  (t <= 0 \/ next_tok c <= t) -> ~ resolves c t.
Proof. exact unissued_never_resolves. Qed.
Print Assumptions C19_unissued_never_resolves.

(* The executable oracle applied to the implementation's observations holds of the model, for
   every history (no validity hypothesis: every operation list is a history). *)
Theorem C19_oracle : forall h : case, known h = 0 -> oracle h (run h) = true.
Proof. intros h _. apply oracle_holds. Qed.
Print Assumptions C19_oracle.
