//! Shared by c10.rs and c15.rs: a server `TcpTransport` without a socket (hooks in
//! server/comms/tcp_transport.rs), client-side frame builders (SecurityPolicy None), and the
//! replica of the reading loop's dispatch (`spawn_reading_loop_task`): bytes -> real TcpCodec ->
//! wait_for_hello / process_hello / process_chunk, stopping at the first error as the `?` of the
//! loop does, then `finish(status)` as `spawn_session_handler_task` does.
#![allow(dead_code)]
use bytes::BytesMut;
use opcua::core::comms::chunker::Chunker;
use opcua::core::comms::message_chunk::{MessageChunk, MessageChunkType, MessageIsFinalType};
use opcua::core::comms::secure_channel::{Role, SecureChannel};
use opcua::core::comms::tcp_codec::{Message, TcpCodec};
use opcua::core::comms::tcp_types::HelloMessage;
use opcua::core::supported_message::SupportedMessage;
use opcua::crypto::CertificateStore;
use opcua::server::comms::tcp_transport::{TcpTransport, VerifChannel, VerifOutgoing};
use opcua::server::comms::transport::{Transport, TransportState};
use opcua::server::prelude::{Server, ServerBuilder};
use opcua::sync::RwLock;
use opcua::types::*;
use std::sync::Arc;
use tokio_util::codec::Decoder;

pub const URL: &str = "opc.tcp://127.0.0.1:4855/";

pub struct Rig { pub server: Server }
impl Rig {
    pub fn new(tag: &str) -> Rig {
        let dir = std::env::temp_dir().join(format!("verif-frame-{}-{}", tag, std::process::id()));
        let server = ServerBuilder::new_anonymous("verif")
            .application_uri("urn:verif")
            .create_sample_keypair(false)
            .pki_dir(dir)
            .host_and_port("127.0.0.1", 4855)
            .server()
            .expect("server config");
        Rig { server }
    }
    /// a fresh connection under the given limits (0 = no limit), in the state `run` leaves it in
    pub fn transport(&self, max_message_size: usize, max_chunk_count: usize) -> TcpTransport {
        {
            let ss = self.server.server_state();
            let ss = ss.read();
            let mut cfg = ss.config.write();
            cfg.limits.max_message_size = max_message_size;
            cfg.limits.max_chunk_count = max_chunk_count;
        }
        let mut t = self.server.new_transport();
        t.verif_wait_for_hello();
        t
    }
}

/// The client end: builds frames the way a client stack would (policy None).
pub struct Client { pub sc: SecureChannel, pub seq: u32, pub req: u32 }
impl Client {
    pub fn new() -> Client {
        let sc = SecureChannel::new(
            Arc::new(RwLock::new(CertificateStore::new(std::path::Path::new("/nonexistent/pki")))),
            Role::Client, DecodingOptions::default());
        Client { sc, seq: 0, req: 0 }
    }
    pub fn hello(url: &str, pv: u32, send: usize, recv: usize) -> Vec<u8> {
        let mut h = HelloMessage::new(url, send, recv, 0, 0);
        h.protocol_version = pv;
        let mut v = Vec::new();
        h.encode(&mut v).unwrap();
        v
    }
    pub fn header(handle: u32) -> RequestHeader { RequestHeader::new(&NodeId::null(), &DateTime::null(), handle) }
    /// one-chunk frame for a request; returns (request id, bytes)
    pub fn frame(&mut self, msg: SupportedMessage) -> (u32, Vec<u8>) {
        self.req += 1;
        let chunks = Chunker::encode(self.seq + 1, self.req, 0, 0, &self.sc, &msg).expect("encode");
        self.seq += chunks.len() as u32;
        let mut v = Vec::new();
        for c in chunks { v.extend(c.data); }
        (self.req, v)
    }
    /// a message that carries the sequence number of the chunk sent before it (0 if there was none): a replayed number
    pub fn stale(&mut self, msg: SupportedMessage) -> Vec<u8> {
        self.req += 1;
        let chunks = Chunker::encode(self.seq, self.req, 0, 0, &self.sc, &msg).expect("encode");
        let mut v = Vec::new();
        for c in chunks { v.extend(c.data); }
        v
    }
    pub fn open(&mut self, renew: bool, pv: u32) -> (u32, Vec<u8>) {
        let m = OpenSecureChannelRequest {
            request_header: Self::header(1),
            // pv >= 1000: protocol version pv - 1000 in a request whose security mode is Invalid (C15)
            client_protocol_version: if pv >= 1000 { pv - 1000 } else { pv },
            request_type: if renew { SecurityTokenRequestType::Renew } else { SecurityTokenRequestType::Issue },
            security_mode: if pv >= 1000 { MessageSecurityMode::Invalid } else { MessageSecurityMode::None },
            client_nonce: ByteString::null(),
            requested_lifetime: 60000,
        };
        self.frame(m.into())
    }
    pub fn close(&mut self) -> (u32, Vec<u8>) {
        self.frame(CloseSecureChannelRequest { request_header: Self::header(2) }.into())
    }
    pub fn get_endpoints(&mut self) -> (u32, Vec<u8>) {
        self.frame(GetEndpointsRequest { request_header: Self::header(3), endpoint_url: UAString::from(URL), locale_ids: None, profile_uris: None }.into())
    }
    pub fn read(&mut self, n: usize) -> (u32, Vec<u8>) {
        self.frame(ReadRequest { request_header: Self::header(4), max_age: 0.0, timestamps_to_return: TimestampsToReturn::Neither,
            nodes_to_read: Some((0..n as u32).map(|i| ReadValueId { node_id: NodeId::new(0, 2258 + i), attribute_id: 13, ..Default::default() }).collect()) }.into())
    }
    /// a raw chunk with the given type / final flag / sequence number / body (no message structure)
    pub fn raw_chunk(&mut self, ty: MessageChunkType, fin: MessageIsFinalType, seq: u32, req: u32, body: &[u8]) -> Vec<u8> {
        MessageChunk::new(seq, req, ty, fin, &self.sc, body).unwrap().data
    }
}

/// response classes
pub fn response_kind(m: &SupportedMessage) -> i128 {
    match m {
        SupportedMessage::AcknowledgeMessage(_) => 1,
        SupportedMessage::OpenSecureChannelResponse(_) => 2,
        SupportedMessage::ServiceFault(_) => 4,
        SupportedMessage::CloseSecureChannelResponse(_) => 6,
        SupportedMessage::Invalid(_) => 9,
        _ => 3,
    }
}

pub struct Conn { pub t: TcpTransport, pub ch: VerifChannel, pub codec: TcpCodec, pub buf: BytesMut, pub closed: Option<StatusCode> }
pub enum Step { NeedMore, Done(Result<(), StatusCode>, Vec<VerifOutgoing>) }
impl Conn {
    pub fn new(t: TcpTransport) -> Conn {
        let codec = TcpCodec::new(t.verif_decoding_options());
        Conn { t, ch: VerifChannel::new(), codec, buf: BytesMut::new(), closed: None }
    }
    /// what the reading loop does with one decoded frame
    fn dispatch(&mut self, m: Message) -> Result<(), StatusCode> {
        match self.t.state() {
            TransportState::WaitingHello => match m {
                Message::Hello(h) => self.t.verif_process_hello(h, &mut self.ch),
                _ => Err(StatusCode::BadCommunicationError),
            },
            TransportState::ProcessMessages => match m {
                Message::Chunk(c) => self.t.verif_process_chunk(c, &mut self.ch),
                _ => Err(StatusCode::BadCommunicationError),
            },
            _ => Err(StatusCode::BadUnexpectedError),
        }
    }
    /// append bytes; decode and dispatch at most one frame
    pub fn feed(&mut self, bytes: &[u8]) -> Step {
        self.buf.extend_from_slice(bytes);
        self.pump()
    }
    pub fn pump(&mut self) -> Step {
        if self.closed.is_some() { return Step::Done(Err(self.closed.unwrap()), vec![]); }
        let r = match self.codec.decode(&mut self.buf) {
            Ok(None) => return Step::NeedMore,
            Ok(Some(m)) => self.dispatch(m),
            // the reading loop maps every codec error to BadCommunicationError
            Err(_) => Err(StatusCode::BadCommunicationError),
        };
        if let Err(e) = r {
            self.closed = Some(e);
            self.t.finish(e);
        }
        Step::Done(r, self.ch.drain())
    }
}

thread_local! { static RT: tokio::runtime::Runtime = tokio::runtime::Builder::new_multi_thread().worker_threads(2).enable_all().build().unwrap(); }

/// A connection to the REAL connection tasks (`TcpTransport::run`: reading loop, writing loop,
/// finish) over a loopback socket; the client end is a blocking std socket.
pub struct LiveConn { pub sock: std::net::TcpStream, pub transport: Arc<RwLock<TcpTransport>> }
impl LiveConn {
    /// None when the sandbox has no loopback networking (the cross-check is then skipped)
    pub fn connect(rig: &Rig, max_message_size: usize, max_chunk_count: usize) -> Option<LiveConn> {
        let listener = std::net::TcpListener::bind("127.0.0.1:0").ok()?;
        let addr = listener.local_addr().ok()?;
        let sock = std::net::TcpStream::connect(addr).ok()?;
        sock.set_read_timeout(Some(std::time::Duration::from_secs(30))).ok()?;
        sock.set_nodelay(true).ok();
        let (srv, _) = listener.accept().ok()?;
        srv.set_nonblocking(true).ok()?;
        let transport = Arc::new(RwLock::new(rig.transport(max_message_size, max_chunk_count)));
        RT.with(|rt| {
            let _g = rt.enter();
            let s = tokio::net::TcpStream::from_std(srv).unwrap();
            TcpTransport::run(transport.clone(), s, 1000.0);
        });
        Some(LiveConn { sock, transport })
    }
    pub fn send(&mut self, bytes: &[u8]) -> bool { use std::io::Write; self.sock.write_all(bytes).is_ok() }
    /// one whole frame as sent by the server
    pub fn read_frame(&mut self) -> Option<Vec<u8>> {
        use std::io::Read;
        let mut h = [0u8; 8];
        self.sock.read_exact(&mut h).ok()?;
        let n = u32::from_le_bytes([h[4], h[5], h[6], h[7]]) as usize;
        if n < 8 { return None; }
        let mut v = h.to_vec();
        v.resize(n, 0);
        self.sock.read_exact(&mut v[8..]).ok()?;
        Some(v)
    }
    /// the class of a response frame; follows the channel/token of an OpenSecureChannelResponse
    pub fn response_kind(cl: &mut Client, fr: Vec<u8>) -> i128 {
        if fr.len() >= 3 && &fr[0..3] == b"ACK" { return 1; }
        match Chunker::decode(&[MessageChunk { data: fr }], &cl.sc, None) {
            Ok(m) => {
                if let SupportedMessage::OpenSecureChannelResponse(r) = &m {
                    cl.sc.set_secure_channel_id(r.security_token.channel_id);
                    cl.sc.set_token_id(r.security_token.token_id);
                }
                response_kind(&m)
            }
            Err(_) => -1,
        }
    }
    /// the server closed the socket and sent nothing more
    pub fn expect_close(&mut self) -> bool { use std::io::Read; let mut b = [0u8; 1]; matches!(self.sock.read(&mut b), Ok(0)) }
    /// we close our sending side; the server must close too without sending anything
    pub fn close_and_expect_close(&mut self) -> bool { let _ = self.sock.shutdown(std::net::Shutdown::Write); self.expect_close() }
    pub fn finish(&self) { self.transport.write().finish(StatusCode::Good); }
}
