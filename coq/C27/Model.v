(* C27 — higher-priority subscriptions are served first.

   The implementation model is the shared system model C21/Sys.v (Subscriptions::tick with its
   priority sort `sort_by(|s1, s2| s2.1.cmp(&s1.1))`, as repaired by "fix: subscriptions were
   served in ascending priority order"), extended HERE by the ModifySubscription service
   (services/subscription.rs `modify_subscription`: Subscriptions::get_mut, revised interval /
   keep-alive / lifetime counts, Subscription::set_priority, both counters reset), because the
   priority of a subscription is not fixed at creation: a client may change it between two
   scheduling rounds.

   A case is a HISTORY on one Subscriptions instance: an operation list (the operations of
   C21/Sys.v — write, timer tick, publish request, create / delete subscription, create / delete
   item, republish, set publishing mode — and HModifySub) with many scheduling rounds, so that
   anything the implementation keeps between two rounds is exercised.  The observation after every
   operation is the publish responses taken from the session (in order) and, per live
   subscription, the number of notifications still waiting for a publish request.

   The property, on one scheduling round (one call of Subscriptions::tick):
     (a) the publish responses of the round are in non-increasing priority of their
         subscription, and
     (b) if the round answered a subscription of priority p, then no live subscription of
         priority > p is left with a notification ready.
   The priority of a subscription at a round is the one the client asked for LAST: in the
   CreateSubscription of the case (the k-th OCreateSub gets id k) or in a later ModifySubscription
   ([prio_step] / [prios_after]; a specification of its own, not read off the model state).
   An OPublish on a full request queue runs two rounds (enqueue_publish_request ticks before and
   after queueing); the observation does not separate them, so for such an operation the oracle
   only asks that the responses split into two non-increasing runs. *)
From Coq Require Import List ZArith Bool Lia.
Import ListNotations.
From OV Require Export C21.Sys.
Open Scope Z_scope.

(* ------------------------------------------------------------- ModifySubscription *)
(* limits of the server the harness builds (server/mod.rs constants, ServerState::new) *)
Definition MIN_PUBLISHING_MS : Z := 100.     (* SUBSCRIPTION_TIMER_RATE_MS *)
Definition DEFAULT_KAC : Z := 10.            (* DEFAULT_KEEP_ALIVE_COUNT *)
Definition MAX_KAC : Z := 30000.             (* MAX_KEEP_ALIVE_COUNT *)
Definition MAX_LIFE : Z := 90000.            (* MAX_KEEP_ALIVE_COUNT * 3 *)

(* SubscriptionService::revise_subscription_values on whole milliseconds and counts; the
   product `revised_max_keep_alive_count * 3` is at most 90000, no overflow *)
Definition revise_interval (i : Z) : Z := Z.max i MIN_PUBLISHING_MS.
Definition revise_kac (k : Z) : Z :=
  if MAX_KAC <? k then MAX_KAC else if k =? 0 then DEFAULT_KAC else k.
Definition revise_life (kac' l : Z) : Z :=
  let m := kac' * 3 in if l <? m then m else if MAX_LIFE <? l then MAX_LIFE else l.

(* the body of modify_subscription on the subscription found by get_mut: set_publishing_interval
   (resets the lifetime counter to the OLD maximum, overwritten below), set_max_keep_alive_count,
   set_max_lifetime_count, set_priority, reset_lifetime_counter, reset_keep_alive_counter *)
Definition modify_sub (s : sub) (prio interval kac life : Z) : sub :=
  let ka := revise_kac kac in
  let lt := revise_life ka life in
  mk_sub (s_id s) (revise_interval interval) lt ka prio (s_items s) (s_state s) lt ka
         (s_fms s) (s_enabled s) (s_seqnext s) (s_lastseq s) (s_nextitem s) (s_lasttime s) (s_notifs s).

(* operations of a history *)
Inductive hop :=
| HOp (o : op)                                      (* an operation of C21/Sys.v *)
| HModifySub (sub prio interval kac life : Z).      (* ModifySubscription *)

Record case := mk_hist { h_nvars : Z; h_ops : list hop }.

Section GenericH.
Variable tick : sys -> bool -> option (sys * list resp).

(* one operation.  ModifySubscription answers BadSubscriptionIdInvalid for an unknown id, else
   Good with the revised values (reported in the message slot of the observation: publishing
   interval, lifetime count, keep-alive count) *)
Definition hstep_g (y : sys) (opix : Z) (h : hop) : option (sys * Z * option msg * list resp) :=
  match h with
  | HOp o => step_g tick y opix o
  | HModifySub id prio interval kac life =>
      match find_sub id (y_subs y) with
      | None => Some (y, ST_SUB_INVALID, None, [])
      | Some s =>
          let s' := modify_sub s prio interval kac life in
          Some (set_subs y (replace_sub s' (y_subs y)), ST_GOOD,
                Some (mk_msg (s_interval s') (s_maxlife s') (s_maxka s') []), [])
      end
  end.

Fixpoint run_hops_g (y : sys) (opix : Z) (ops : list hop) : list opres * bool :=
  match ops with
  | [] => ([], false)
  | h :: r =>
      match hstep_g y opix h with
      | None => ([], true)
      | Some (y1, st, m, rs) =>
          let '(tr, p) := run_hops_g y1 (opix + 1) r in
          (mk_opres st m rs (snapshot y1) :: tr, p)
      end
  end.
End GenericH.

Definition hinit (c : case) : sys := init (mk_case (h_nvars c) []).

(* the code as it is *)
Definition hstep := hstep_g sys_tick.
Definition run_hops := run_hops_g sys_tick.
Definition run_ev (c : case) : list opres * bool := run_hops (hinit c) 0 (h_ops c).
Definition run (c : case) : list Z := enc_trace (run_ev c).

(* ------------------------------------------------------------- the specification side *)
(* The priorities the client asked for, by subscription id (ids are handed out 1, 2, ... in
   creation order, never reused): a create appends, a ModifySubscription of an id that was handed
   out overwrites.  (Deleted / expired subscriptions keep a meaningless entry; the property only
   speaks about live ones.) *)
Definition prio_step (ps : list Z) (h : hop) : list Z :=
  match h with
  | HOp (OCreateSub prio _ _ _ _) => ps ++ [prio]
  | HModifySub id prio _ _ _ =>
      if (1 <=? id) && (id <=? len ps) then set_nth (Z.to_nat (id - 1)) prio ps else ps
  | _ => ps
  end.
Definition prios_after (pre : list hop) : list Z := fold_left prio_step pre [].
(* requested priority of subscription id *)
Definition pr (ps : list Z) (id : Z) : Z := nth (Z.to_nat (id - 1)) ps 0.
Definition prio_at (pre : list hop) (id : Z) : Z := pr (prios_after pre) id.

Definition resp_subs (rs : list resp) : list Z :=
  flat_map (fun r => match r with RPub _ sub _ _ _ _ => [sub] | RFault _ _ => [] end) rs.

Fixpoint non_increasing (l : list Z) : bool :=
  match l with
  | a :: (b :: _) as r => (b <=? a) && non_increasing r
  | _ => true
  end.

(* a list splits into at most two non-increasing runs *)
Fixpoint two_runs (l : list Z) : bool :=
  match l with
  | a :: (b :: _) as r => if b <=? a then two_runs r else non_increasing r
  | _ => true
  end.

(* (b): no live subscription with a higher priority than an answered one keeps a notification *)
Definition none_starved (ps : list Z) (answered : list Z) (subs : list (Z * Z * Z)) : bool :=
  forallb (fun i =>
    forallb (fun t => let '(j, _, pending) := t in
                      negb (pr ps i <? pr ps j) || (pending =? 0)) subs) answered.

(* was the request queue full before the operation (then an OPublish runs two rounds) *)
Definition queue_full (sn : snap) : bool := 2 * len (sn_subs sn) <=? len (sn_reqs sn).

(* [ps]: the requested priorities at the time of the operation *)
Definition check_op (ps : list Z) (h : hop) (before : snap) (r : opres) : bool :=
  let answered := resp_subs (o_resps r) in
  let prios := map (pr ps) answered in
  match h with
  | HOp (OPublish _ _ _) =>
      if queue_full before then two_runs prios
      else non_increasing prios && none_starved ps answered (sn_subs (o_snap r))
  | _ => non_increasing prios && none_starved ps answered (sn_subs (o_snap r))
  end.

Definition empty_snap : snap := mk_snap [] [] [] [].

Fixpoint check_trace (ps : list Z) (ops : list hop) (before : snap) (tr : list opres) : bool :=
  match tr, ops with
  | [], _ => true
  | r :: tr', h :: ops' =>
      let ps' := prio_step ps h in
      check_op ps' h before r && check_trace ps' ops' (o_snap r) tr'
  | _ :: _, [] => false
  end.

Definition oracle (c : case) (out : list Z) : bool :=
  match decode out with
  | Some (tr, _) => check_trace [] (h_ops c) empty_snap tr
  | None => false
  end.

Definition known (c : case) : Z := 0.

(* every case: the priority order does not depend on any well-formedness of the history *)
Definition valid (c : case) : Prop := True.

(* the code before the fix: ascending priority *)
Module Legacy.
  Fixpoint ins_prio (x : Z * Z) (l : list (Z * Z)) : list (Z * Z) :=
    match l with
    | [] => [x]
    | y :: r => if snd y <? snd x then y :: ins_prio x r else x :: y :: r
    end.
  Definition prio_order (subs : list sub) : list Z :=
    map fst (fold_right ins_prio [] (map (fun s => (s_id s, s_prio s)) subs)).
  Definition sys_tick := sys_tick_g prio_order sub_tick.
  Definition run_ev (c : case) : list opres * bool := run_hops_g sys_tick (hinit c) 0 (h_ops c).
  Definition run (c : case) : list Z := enc_trace (run_ev c).
End Legacy.

(* A server that does not apply the priority of a ModifySubscription (a refutation target that
   shows the oracle looks at priorities changed between rounds) *)
Module NoPrioChange.
  Definition hstep (y : sys) (opix : Z) (h : hop) :=
    match h with
    | HModifySub id prio interval kac life =>
        match find_sub id (y_subs y) with
        | Some s => hstep_g sys_tick y opix (HModifySub id (s_prio s) interval kac life)
        | None => hstep_g sys_tick y opix h
        end
    | _ => hstep_g sys_tick y opix h
    end.
  Fixpoint run_hops (y : sys) (opix : Z) (ops : list hop) : list opres * bool :=
    match ops with
    | [] => ([], false)
    | h :: r =>
        match hstep y opix h with
        | None => ([], true)
        | Some (y1, st, m, rs) =>
            let '(tr, p) := run_hops y1 (opix + 1) r in
            (mk_opres st m rs (snapshot y1) :: tr, p)
        end
    end.
  Definition run (c : case) : list Z := enc_trace (run_hops (hinit c) 0 (h_ops c)).
End NoPrioChange.
