(* C08: what an accepted chunk exhibits (coverage), and the reduction of "a modified chunk is
   accepted" to "a MAC / signature verifies on data the peer never authenticated". *)
From Coq Require Import List ZArith Bool Lia.
Import ListNotations.
From OV Require Import C07.Chan C07.Lemmas C07.ChanProofs C09.Total.
Open Scope Z_scope.

(* ================= the declared size is the buffer length ================= *)
Lemma accepted_size P fx r src rc : fst (recv P fx r src) = Ok rc ->
  exists h b0, parse_hdr src = Ok (h, b0) /\ h_size h = len src.
Proof.
  unfold recv. destruct (parse_hdr src) as [[h b0]| |]; cbn [fst]; try discriminate.
  destruct (match h_type h with OPN => _ | _ => _ end) as [[sh b1]| |]; cbn [fst]; try discriminate.
  destruct (Z.eqb_spec (h_size h) (len src)); cbn [negb fst]; [|discriminate].
  intros _. eauto.
Qed.

(* ================= symmetric chunks ================= *)
Section Sym.
  Variable P : prims.
  Variable fx : fixes.
  Hypothesis Hfx : fx_pad_sign fx = true.
  Variable r : receiver.
  Hypothesis Hsec : secured (r_policy r) (r_mode r) = true.
  Variables (vk dk : bytes).
  Hypothesis Hkeys : r_verkey r = Some (vk, dk).
  Let ss := src_sym_sig (r_policy r).

  (* the buffer in which the signature is checked: the chunk itself (Sign), or the headers followed
     by the decrypted remainder (SignAndEncrypt) *)
  Definition sym_dst (src : bytes) : bytes :=
    match r_mode r with MSign => src | _ => take 16 src ++ p_aes_dec P dk (drop 16 src) end.
  Definition sym_signed (src : bytes) : bytes := take (len src - ss) (sym_dst src).
  Definition sym_tag (src : bytes) : bytes := drop (len src - ss) (sym_dst src).

  (* what acceptance of a symmetric chunk (16 header bytes, then [b1]) means: every byte of the
     checked buffer is signed data or signature, the signature is the MAC of the signed data under
     the receiver's verification key, and the returned chunk is a prefix of the buffer with the
     size field rewritten *)
  Lemma sym_accept src b1 rc :
    len src = 16 + len b1 -> drop 16 src = b1 ->
    recv_sym P fx r src b1 16 (len src) = Ok rc ->
    p_mac P (r_policy r) vk (sym_signed src) = sym_tag src /\
    sym_dst src = sym_signed src ++ sym_tag src /\
    ss <= len src /\
    exists n, rc = take n (set_size (sym_dst src) n).
  Proof.
    intros Hl Hb1. unfold recv_sym. rewrite Hsec, Hkeys. fold ss.
    destruct (Z.ltb_spec (len src) ss) as [Hlt|Hge]; [destruct (fx_size_sig fx); discriminate|].
    unfold sym_signed, sym_tag, sym_dst.
    destruct (r_mode r) eqn:Em.
    - (* MNone cannot be secured *) exfalso. clear - Hsec. unfold secured in Hsec. cbn in Hsec. rewrite andb_false_r in Hsec. discriminate.
    - destruct (bytes_eqb _ _) eqn:E; cbn [negb]; [|discriminate]. intro Hq. injection Hq as <-.
      apply bytes_eqb_eq in E. repeat split; try assumption; try lia.
      + symmetry. apply take_drop.
      + exists (len src - ss). reflexivity.
    - rewrite Hb1.
      destruct (negb ((len src - 16) mod 16 =? 0)); [destruct (fx_aes_block fx); discriminate|].
      destruct (bytes_eqb _ _) eqn:E; cbn [negb]; [|discriminate]. apply bytes_eqb_eq in E.
      rewrite Hfx. destruct (_ <? _); [discriminate|]. destruct (_ <? _); [discriminate|].
      destruct (verify_padding fx _ ss (len src - ss)) as [start| |] eqn:Ev; cbn [bind]; try discriminate.
      intro Hq. injection Hq as <-. repeat split; try assumption; try lia.
      + symmetry. apply take_drop.
      + exists start. reflexivity.
    - exfalso. clear - Hsec. unfold secured in Hsec. cbn in Hsec. rewrite andb_false_r in Hsec. discriminate.
  Qed.

  (* Sign mode: two accepted chunks with the same signed data are the same chunk *)
  Lemma sign_same_signed_same_chunk a b ba bb rca rcb : r_mode r = MSign ->
    len a = 16 + len ba -> drop 16 a = ba -> recv_sym P fx r a ba 16 (len a) = Ok rca ->
    len b = 16 + len bb -> drop 16 b = bb -> recv_sym P fx r b bb 16 (len b) = Ok rcb ->
    sym_signed a = sym_signed b -> a = b.
  Proof.
    intros Hm La Da Ra Lb Db Rb Hd.
    destruct (sym_accept a ba rca La Da Ra) as (Ma & Sa & _ & _).
    destruct (sym_accept b bb rcb Lb Db Rb) as (Mb & Sb & _ & _).
    assert (Ht : sym_tag a = sym_tag b) by (rewrite <- Ma, <- Mb, Hd; reflexivity).
    unfold sym_dst in Sa, Sb. rewrite Hm in Sa, Sb. rewrite Sa, Sb, Hd, Ht. reflexivity.
  Qed.

  (* Reduction.  Two accepted chunks with the same signed data are the same chunk: so an accepted
     chunk that differs from every chunk the peer sent carries a valid MAC over data the peer
     never signed.  Sign mode needs nothing; SignAndEncrypt needs AES decryption (a bijection on
     whole blocks) to be injective. *)
  Hypothesis Haes_inj : forall c1 c2, p_aes_dec P dk c1 = p_aes_dec P dk c2 -> c1 = c2.

  Lemma sym_same_signed_same_chunk a b ba bb rca rcb :
    len a = 16 + len ba -> drop 16 a = ba -> recv_sym P fx r a ba 16 (len a) = Ok rca ->
    len b = 16 + len bb -> drop 16 b = bb -> recv_sym P fx r b bb 16 (len b) = Ok rcb ->
    len a = len b -> sym_signed a = sym_signed b -> a = b.
  Proof.
    intros La Da Ra Lb Db Rb Hlen Hd.
    destruct (sym_accept a ba rca La Da Ra) as (Ma & Sa & _ & _).
    destruct (sym_accept b bb rcb Lb Db Rb) as (Mb & Sb & _ & _).
    assert (Ht : sym_tag a = sym_tag b) by (rewrite <- Ma, <- Mb, Hd; reflexivity).
    assert (Hdst : sym_dst a = sym_dst b) by (rewrite Sa, Sb, Hd, Ht; reflexivity).
    unfold sym_dst in Hdst. destruct (r_mode r); try exact Hdst.
    - (* MNone *) rewrite <- (take_drop a 16), <- (take_drop b 16).
      apply app_inv_head_iff in Hdst || idtac.
      assert (E1 : take 16 a = take 16 b).
      { apply (f_equal (take 16)) in Hdst. rewrite !take_app_exact in Hdst by (apply len_take; pose proof (len_nonneg ba); pose proof (len_nonneg bb); lia). exact Hdst. }
      rewrite E1 in Hdst. apply app_inv_head in Hdst. apply Haes_inj in Hdst. rewrite E1, Hdst. reflexivity.
    - rewrite <- (take_drop a 16), <- (take_drop b 16).
      assert (E1 : take 16 a = take 16 b).
      { apply (f_equal (take 16)) in Hdst. rewrite !take_app_exact in Hdst by (apply len_take; pose proof (len_nonneg ba); pose proof (len_nonneg bb); lia). exact Hdst. }
      rewrite E1 in Hdst. apply app_inv_head in Hdst. apply Haes_inj in Hdst. rewrite E1, Hdst. reflexivity.
    - rewrite <- (take_drop a 16), <- (take_drop b 16).
      assert (E1 : take 16 a = take 16 b).
      { apply (f_equal (take 16)) in Hdst. rewrite !take_app_exact in Hdst by (apply len_take; pose proof (len_nonneg ba); pose proof (len_nonneg bb); lia). exact Hdst. }
      rewrite E1 in Hdst. apply app_inv_head in Hdst. apply Haes_inj in Hdst. rewrite E1, Hdst. reflexivity.
  Qed.
End Sym.

(* an accepted MSG / CLO chunk went through recv_sym with 16 header bytes *)
Lemma recv_sym_form P fx r src rc h b0 : fst (recv P fx r src) = Ok rc -> parse_hdr src = Ok (h, b0) -> h_type h <> OPN ->
  recv_sym P fx r src (drop 16 src) 16 (len src) = Ok rc /\ len src = 16 + len (drop 16 src).
Proof.
  intros Hr Hp Ht. unfold recv in Hr. rewrite Hp in Hr.
  pose proof (parse_hdr_len _ _ _ Hp) as Hl0.
  assert (Hs : (match h_type h with OPN => parse_asym P (r_limits r) b0 | _ => parse_sym b0 end) = parse_sym b0)
    by (destruct (h_type h); congruence).
  rewrite Hs in Hr. destruct (parse_sym b0) as [[sh b1]| |] eqn:E1; cbn [fst] in Hr; try discriminate.
  pose proof (parse_sym_len _ _ _ E1) as Hl1.
  destruct (Z.eqb_spec (h_size h) (len src)) as [Es|Es]; cbn [negb fst] in Hr; [|discriminate].
  assert (Hsh : exists tok, sh = Sym tok).
  { unfold parse_sym in E1. do 4 (destruct b0 as [|? b0]; [discriminate|]). injection E1 as <- _. eauto. }
  destruct Hsh as (tok & ->). cbn [fst] in Hr.
  assert (Hd : drop 16 src = b1).
  { (* src = 12 header bytes ++ 4 token bytes ++ b1 *)
    unfold parse_hdr in Hp. do 12 (destruct src as [|? src]; [discriminate|]).
    destruct (mtype_of _ _ _); [|discriminate]. destruct (final_of _); [|discriminate]. injection Hp as _ <-.
    unfold parse_sym in E1. do 4 (destruct src as [|? src]; [discriminate|]). injection E1 as _ <-.
    do 16 (rewrite drop_cons by lia). apply drop_nonpos. lia. }
  replace (len src - len b1) with 16 in Hr by lia. rewrite Es in Hr. rewrite Hd. split; [exact Hr|lia].
Qed.

(* ================= asymmetric chunks ================= *)
(* what acceptance of an OPN chunk means: the sender certificate in the chunk parses to a key, the
   cipher text decrypts under the receiver's key, and the signature at the end of the decrypted
   data verifies, under the certificate's key, over the headers and everything decrypted before it;
   the returned chunk is a prefix of that buffer with the size field rewritten *)
Lemma asym_accept P fx r src b1 off pol cert thumb rc :
  recv_asym P fx r src b1 off pol cert thumb = Ok rc ->
  exists c vkey vks okey oks plain,
    cert = Some c /\ p_cert_key P c = Some (vkey, vks) /\ r_pkey r = Some (okey, oks) /\
    rsa_decrypt P fx okey oks pol b1 = Ok plain /\
    let dst := take off src ++ plain ++ rep (len b1 - len plain) 0 in
    let sig_off := off + len plain - vks in
    p_averify P vkey pol (take sig_off dst) (slice sig_off (sig_off + vks) dst) = true /\
    exists n, rc = take n (set_size dst n).
Proof.
  unfold recv_asym. destruct cert as [c|]; [|destruct (fx_null_cert fx); discriminate].
  destruct (p_cert_key P c) as [[vkey vks]|] eqn:Ek; [|discriminate].
  destruct (r_thumb r); [|destruct (fx_own_cert fx); discriminate].
  destruct (negb _); [discriminate|].
  destruct (r_pkey r) as [[okey oks]|] eqn:Epk; [|destruct (fx_own_cert fx); discriminate].
  destruct (rsa_decrypt P fx okey oks pol b1) as [plain| |] eqn:Ed; cbn [bind]; try discriminate.
  destruct (_ <? _); [discriminate|].
  destruct (p_averify P vkey pol _ _) eqn:Ev; cbn [negb]; [|discriminate].
  destruct (verify_padding fx _ _ _) as [start| |]; cbn [bind]; try discriminate.
  intro Hq. injection Hq as <-.
  exists c, vkey, vks, okey, oks, plain. repeat split; try reflexivity; try assumption. exists start. reflexivity.
Qed.

(* ================= recv-level statements ================= *)
Section SymRecv.
  Variable P : prims.
  Variable fx : fixes.
  Hypothesis Hfx : fx_pad_sign fx = true.
  Variable r : receiver.
  Hypothesis Hsec : secured (r_policy r) (r_mode r) = true.
  Variables (vk dk : bytes).
  Hypothesis Hkeys : r_verkey r = Some (vk, dk).

  Definition is_sym_chunk (src : bytes) : Prop := exists h b0, parse_hdr src = Ok (h, b0) /\ h_type h <> OPN.

  (* coverage: an accepted MSG / CLO chunk is, after decryption, signed data followed by its MAC *)
  Theorem sym_coverage src rc : is_sym_chunk src -> fst (recv P fx r src) = Ok rc ->
    p_mac P (r_policy r) vk (sym_signed P r dk src) = sym_tag P r dk src /\
    sym_dst P r dk src = sym_signed P r dk src ++ sym_tag P r dk src /\
    exists n, rc = take n (set_size (sym_dst P r dk src) n).
  Proof.
    intros (h & b0 & Hp & Ht) Hr.
    destruct (recv_sym_form P fx r src rc h b0 Hr Hp Ht) as [Hrs Hl].
    destruct (sym_accept P fx Hfx r Hsec vk dk Hkeys src (drop 16 src) rc Hl eq_refl Hrs) as (A & B & _ & C).
    repeat split; assumption.
  Qed.

  (* reduction: an accepted chunk that differs from an accepted chunk [b] of the same length (one the
     peer sent) has different signed data; its MAC verifies all the same.  AES decryption of the
     two cipher texts is assumed injective (it is a bijection on whole blocks); in Sign mode the
     hypothesis is not used. *)
  Theorem sym_reduction a b rca rcb :
    is_sym_chunk a -> is_sym_chunk b ->
    fst (recv P fx r a) = Ok rca -> fst (recv P fx r b) = Ok rcb -> len a = len b ->
    (r_mode r = MSign \/ (forall c1 c2, p_aes_dec P dk c1 = p_aes_dec P dk c2 -> c1 = c2)) ->
    a <> b ->
    sym_signed P r dk a <> sym_signed P r dk b /\
    p_mac P (r_policy r) vk (sym_signed P r dk a) = sym_tag P r dk a.
  Proof.
    intros (ha & a0 & Hpa & Hta) (hb & b0 & Hpb & Htb) Hra Hrb Hlen Hinj Hne.
    destruct (recv_sym_form P fx r a rca ha a0 Hra Hpa Hta) as [Ra La].
    destruct (recv_sym_form P fx r b rcb hb b0 Hrb Hpb Htb) as [Rb Lb].
    split.
    - intro Hd. apply Hne. destruct Hinj as [Hm|Hinj].
      + eapply (sign_same_signed_same_chunk P fx Hfx r Hsec vk dk Hkeys a b); eauto.
      + eapply (sym_same_signed_same_chunk P fx Hfx r Hsec vk dk Hkeys Hinj a b); eauto.
    - apply (sym_accept P fx Hfx r Hsec vk dk Hkeys a (drop 16 a) rca La eq_refl Ra).
  Qed.
End SymRecv.

(* ================= per case: the model's run has the expected shape and never panics ================= *)
From OV Require C09.Model C09.Proofs C08.Model.

Lemma one_total c ch : C08.Model.valid c -> total (C08.Model.one current c ch).
Proof.
  intro Hv. unfold C08.Model.one.
  assert (Ht : C09.Model.tr_ok (C09.Model.c_tr (C08.Model.c_recv c)) = true).
  { unfold C08.Model.valid, C08.Model.validb in Hv. do 3 (apply andb_true_iff in Hv as [Hv _]).
    unfold C09.Model.validb in Hv. do 2 (apply andb_true_iff in Hv as [Hv _]). exact Hv. }
  apply recv_total; [exact C09.Proofs.current_guarded|apply C09.Proofs.tr_rsa|apply C09.Proofs.tr_cert|apply C09.Proofs.tr_aes]; exact Ht.
Qed.

Fixpoint statuses_ok (out : list Z) : bool :=
  match out with
  | [] => true
  | st :: _ :: rest => ((st =? 0) || (st =? 1) || (st =? 2)) && statuses_ok rest
  | _ => false
  end.

Lemma statuses_report r l : total r -> statuses_ok l = true -> statuses_ok (C08.Model.report r ++ l) = true.
Proof.
  intros T Hl. destruct r as [rc|e|s]; [| |contradiction]; cbn [C08.Model.report app statuses_ok].
  - exact Hl.
  - unfold C09.Model.code9. destruct (e =? E_SEC); cbn; exact Hl.
Qed.

Lemma tr_facts c : C08.Model.valid c -> C09.Model.tr_ok (C09.Model.c_tr (C08.Model.c_recv c)) = true.
Proof.
  intro Hv. unfold C08.Model.valid, C08.Model.validb in Hv. do 3 (apply andb_true_iff in Hv as [Hv _]).
  unfold C09.Model.validb in Hv. do 2 (apply andb_true_iff in Hv as [Hv _]). exact Hv.
Qed.

Lemma pre_statuses c l : C08.Model.valid c -> statuses_ok l = true ->
  forall pre p, statuses_ok (fst (C08.Model.pre_feed current c p pre) ++ l) = true.
Proof.
  intros Hv Hl pre. induction pre as [|ch rest IH]; intro p; cbn [C08.Model.pre_feed]; [exact Hl|].
  pose proof (tr_facts c Hv) as Ht.
  assert (T : total (fst (recv (C09.Model.tr_prims (C09.Model.c_tr (C08.Model.c_recv c))) current
                               (C09.Model.receiver_of (C08.Model.c_recv c) p) (C09.Model.flat ch)))).
  { apply recv_total; [exact C09.Proofs.current_guarded|apply C09.Proofs.tr_rsa|apply C09.Proofs.tr_cert|apply C09.Proofs.tr_aes]; exact Ht. }
  destruct (recv _ current (C09.Model.receiver_of (C08.Model.c_recv c) p) (C09.Model.flat ch)) as [r p'].
  specialize (IH p'). destruct (C08.Model.pre_feed current c p' rest) as [os pf].
  cbn [fst] in *. rewrite <- app_assoc. apply statuses_report; assumption.
Qed.

Lemma run_statuses c : C08.Model.valid c -> statuses_ok (C08.Model.run c) = true.
Proof.
  intro Hv. unfold C08.Model.run, C08.Model.run_with. apply pre_statuses; [exact Hv|].
  unfold C08.Model.judged.
  induction (C09.Model.c_chunks (C08.Model.c_recv c)) as [|ch rest IH]; [reflexivity|].
  cbn [flat_map]. apply statuses_report; [apply one_total; exact Hv|exact IH].
Qed.

(* ================= the receive path never switches a channel to the policy None ================= *)
Lemma recv_policy P fx r src :
  snd (recv P fx r src) = r_policy r \/ is_none (snd (recv P fx r src)) = false.
Proof.
  unfold recv. destruct (parse_hdr src) as [[h b0]|e|s]; [|left; reflexivity|left; reflexivity].
  destruct (match h_type h with OPN => parse_asym P (r_limits r) b0 | _ => parse_sym b0 end) as [[sh b1]|e|s];
    [|left; reflexivity|left; reflexivity].
  destruct (negb (h_size h =? len src)); [left; reflexivity|].
  destruct sh as [tok|uri cert thumb]; [left; reflexivity|].
  destruct (policy_of_uri _) as [pol|]; [|left; reflexivity].
  destruct (is_none pol) eqn:Hn; [left; reflexivity|right; exact Hn].
Qed.

Lemma recv_stays_secured P fx r src :
  secured (r_policy r) (r_mode r) = true -> secured (snd (recv P fx r src)) (r_mode r) = true.
Proof.
  intro Hs. destruct (recv_policy P fx r src) as [H|H]; [rewrite H; exact Hs|].
  unfold secured in *. rewrite H. apply andb_true_iff in Hs as [_ Hm]. exact Hm.
Qed.

(* ... nor does any sequence of chunks: whatever an outsider feeds a Sign / SignAndEncrypt channel,
   the chunk after it still meets a secured channel *)
Lemma pre_stays_secured fx c : forall pre p,
  secured p (C09.Model.c_mode (C08.Model.c_recv c)) = true ->
  secured (snd (C08.Model.pre_feed fx c p pre)) (C09.Model.c_mode (C08.Model.c_recv c)) = true.
Proof.
  induction pre as [|ch rest IH]; intros p Hs; cbn [C08.Model.pre_feed]; [exact Hs|].
  pose proof (recv_stays_secured (C09.Model.tr_prims (C09.Model.c_tr (C08.Model.c_recv c))) fx
                (C09.Model.receiver_of (C08.Model.c_recv c) p) (C09.Model.flat ch) Hs) as H1.
  destruct (recv _ fx (C09.Model.receiver_of (C08.Model.c_recv c) p) (C09.Model.flat ch)) as [r p'].
  cbn [snd C09.Model.receiver_of r_mode] in H1. specialize (IH p' H1).
  destruct (C08.Model.pre_feed fx c p' rest) as [os pf]. exact IH.
Qed.
