(* C33 — no well-formed request from an authenticated client crashes the server.

   The statement ranges over every service; there is no complete model of the server.  What this
   file carries:
   * the correspondence interface of the request fuzzing run against a LIVE server (the
     expected observation of every case is: no panic anywhere in the process, server still serves);
   * the tripwire over the inventory of explicit panic sites of the request-processing code,
     re-extracted from the source on every run (Gen/C33Sites.v) and compared with the audited
     baseline (C33/Baseline.v).
   The panic-freedom THEOREMS about the modelled cores are in the properties that own them
   (C24 queue resize, C26 time arithmetic, C29 deletion, C32 attribute ranges, C34 node
   management, C39 event filters, C02 decoding). *)
From Coq Require Import List ZArith Bool String.
Import ListNotations.
From OV Require Import Gen.C33Sites C33.Baseline.
Open Scope Z_scope.

Record case := mk_case { c_seed : Z; c_kinds : list Z }.     (* request kinds of the sequence *)

(* observation: [number of panics during the case; 1 if a fresh session is served afterwards] *)
Definition run (c : case) : list Z := [0; 1].
Definition oracle (c : case) (out : list Z) : bool :=
  match out with [p; alive] => (p =? 0) && (alive =? 1) | _ => false end.
Definition known (c : case) : Z := 0.

(* ---- tripwire ---- *)
Fixpoint lookup (f : string) (l : list (string * Z)) : option Z :=
  match l with [] => None | (g, n) :: r => if String.eqb f g then Some n else lookup f r end.
Definition within_baseline (e : string * Z) : bool :=
  match lookup (fst e) baseline with Some b => snd e <=? b | None => snd e =? 0 end.
Definition sites_ok : bool := forallb within_baseline sites.
