//! C02: arbitrary bytes through the real decoders: random, mutated valid encodings, adversarial
//! nesting.  Observed: outcome (value / error / panic / dead process), bytes consumed, print of the
//! decoded value, deepest DepthGauge reading, largest single allocation requested.
//! Deep-nesting families run in a re-exec'ed child so a stack overflow is observed, not suffered.
#[path = "../util.rs"]
mod util;
#[path = "../codec_common.rs"]
mod cc;
#[path = "../codec_structs.rs"]
mod st;
use cc::*;
use opcua::core::comms::message_chunk::{MessageChunk, MessageChunkHeader, MessageChunkType, MessageIsFinalType};
use opcua::core::comms::tcp_types::*;
use opcua::types::*;
use std::alloc::{GlobalAlloc, Layout, System};
use std::io::{Cursor, Read};
use std::sync::atomic::{AtomicBool, AtomicUsize, Ordering};
use std::sync::Arc;
use util::*;

// ---- allocation tracking ---------------------------------------------------------------------
struct Counting;
static TRACK: AtomicBool = AtomicBool::new(false);
static MAX_REQ: AtomicUsize = AtomicUsize::new(0);
unsafe impl GlobalAlloc for Counting {
    unsafe fn alloc(&self, l: Layout) -> *mut u8 { if TRACK.load(Ordering::Relaxed) { MAX_REQ.fetch_max(l.size(), Ordering::Relaxed); } System.alloc(l) }
    unsafe fn alloc_zeroed(&self, l: Layout) -> *mut u8 { if TRACK.load(Ordering::Relaxed) { MAX_REQ.fetch_max(l.size(), Ordering::Relaxed); } System.alloc_zeroed(l) }
    unsafe fn realloc(&self, p: *mut u8, l: Layout, n: usize) -> *mut u8 { if TRACK.load(Ordering::Relaxed) { MAX_REQ.fetch_max(n, Ordering::Relaxed); } System.realloc(p, l, n) }
    unsafe fn dealloc(&self, p: *mut u8, l: Layout) { System.dealloc(p, l) }
}
#[global_allocator]
static A: Counting = Counting;
const ALLOC_FLOOR: usize = 1024;

// ---- a reader that looks at the depth gauge on every read ---------------------------------------
struct DepthReader<'a> { cur: Cursor<&'a [u8]>, gauge: Arc<DepthGauge>, max_seen: u64 }
impl<'a> DepthReader<'a> {
    fn observe(&mut self) {
        // DepthGauge's fields are private; its Debug print is "DepthGauge { max_depth: M, current_depth: C }"
        let was = TRACK.swap(false, Ordering::Relaxed);
        let s = format!("{:?}", self.gauge);
        if let Some(i) = s.rfind("current_depth: ") {
            let d: String = s[i + 15..].chars().take_while(|c| c.is_ascii_digit()).collect();
            if let Ok(d) = d.parse::<u64>() { if d > self.max_seen { self.max_seen = d } }
        }
        TRACK.store(was, Ordering::Relaxed);
    }
}
impl<'a> Read for DepthReader<'a> {
    fn read(&mut self, buf: &mut [u8]) -> std::io::Result<usize> { self.observe(); self.cur.read(buf) }
    fn read_exact(&mut self, buf: &mut [u8]) -> std::io::Result<()> { self.observe(); self.cur.read_exact(buf) }
}

pub enum Case {
    Bytes { dk: u32, o: HOpts, bs: Vec<u8> },
    Nest { dk: u32, o: HOpts, unit: Vec<u8>, n: u32, tail: Vec<u8> },
    Sizes,
}
pub struct P;

fn ty_of(dk: u32) -> Option<Ty> {
    if dk > 255 { return None }
    let dk = dk as u8;
    match dk {
        23 => Some(Ty::DV), 24 => Some(Ty::Var),
        1..=25 => Some(Ty::S(dk)),
        53 => Some(Ty::Arr(Box::new(Ty::DV))), 54 => Some(Ty::Arr(Box::new(Ty::Var))),
        31..=55 => Some(Ty::Arr(Box::new(Ty::S(dk - 30)))),
        _ => None,
    }
}
pub const DKS: [u32; 49] = [76, 1, 2, 3, 4, 5, 6, 7, 8, 9, 10, 11, 12, 13, 14, 15, 16, 17, 18, 19, 20, 21, 22, 23, 24, 25,
    31, 33, 36, 37, 41, 42, 43, 45, 47, 48, 49, 50, 51, 52, 55, 53, 54, 70, 71, 72, 73, 74, 75];

fn msg_type_code(t: &MessageType) -> i128 { match t { MessageType::Invalid => 0, MessageType::Hello => 1, MessageType::Acknowledge => 2, MessageType::Chunk => 3, MessageType::Error => 4 } }
fn p_header(h: &MessageHeader, p: &mut Vec<i128>) { p.push(msg_type_code(&h.message_type)); p.push(h.message_size as i128); }
fn p_ustr(s: &UAString, p: &mut Vec<i128>) { match s.value() { None => p.push(0), Some(v) => { p.push(1); p.push(v.len() as i128); p.extend(v.as_bytes().iter().map(|b| *b as i128)) } } }

/// decode `bs` with decoder `dk`: (outcome: Ok(print) / Err, consumed, depth)
fn decode(dk: u32, o: &HOpts, bs: &[u8]) -> (Result<Vec<i128>, ()>, u64, u64) {
    let ro = o.real();
    if let Some(t) = ty_of(dk) {
        let mut s = DepthReader { cur: Cursor::new(bs), gauge: ro.decoding_depth_gauge.clone(), max_seen: 0 };
        let r = dec_typed(&t, &mut s, &ro);
        let pos = s.cur.position();
        let was = TRACK.swap(false, Ordering::Relaxed);
        let res = r.map(|v| { let mut p = Vec::new(); s_uval(&mut p, &v); p }).map_err(|_| ());
        TRACK.store(was, Ordering::Relaxed);
        return (res, pos, s.max_seen);
    }
    if dk >= 100 {
        // a generated structure: outcome, position and depth only (no printer, allocation sizes not modelled)
        let mut s = DepthReader { cur: Cursor::new(bs), gauge: ro.decoding_depth_gauge.clone(), max_seen: 0 };
        let ok = st::observe((dk - 100) as usize, &ro, &mut s);
        return (if ok { Ok(vec![]) } else { Err(()) }, s.cur.position(), s.max_seen);
    }
    if dk == 76 {
        // the framing layer: TcpCodec::decode on a receive buffer holding the bytes (the buffer itself is the
        // harness's: it is built with the allocation tracker off)
        use opcua::core::comms::tcp_codec::{Message, TcpCodec};
        use tokio_util::codec::Decoder;
        let was = TRACK.swap(false, Ordering::Relaxed);
        let mut buf = bytes::BytesMut::with_capacity(bs.len());
        buf.extend_from_slice(bs);
        let mut codec = TcpCodec::new(ro.clone());
        TRACK.store(was, Ordering::Relaxed);
        let r = codec.decode(&mut buf);
        let was = TRACK.swap(false, Ordering::Relaxed);
        let mut p: Vec<i128> = Vec::new();
        let left = buf.len();
        let res = match r {
            Ok(None) => { p.push(1); Ok(p) }
            Ok(Some(m)) => {
                p.push(0);
                match m {
                    Message::Hello(m) => { p_header(&m.message_header, &mut p);
                        p.extend([m.protocol_version, m.receive_buffer_size, m.send_buffer_size, m.max_message_size, m.max_chunk_count].iter().map(|x| *x as i128));
                        p_ustr(&m.endpoint_url, &mut p) }
                    Message::Acknowledge(m) => { p_header(&m.message_header, &mut p);
                        p.extend([m.protocol_version, m.receive_buffer_size, m.send_buffer_size, m.max_message_size, m.max_chunk_count].iter().map(|x| *x as i128)) }
                    Message::Error(m) => { p_header(&m.message_header, &mut p); p.push(m.error as i128); p_ustr(&m.reason, &mut p) }
                    Message::Chunk(c) => { p.push(c.data.len() as i128); p.extend(c.data.iter().map(|b| *b as i128)) }
                }
                Ok(p)
            }
            Err(_) => Err(()),
        };
        drop(buf); drop(codec);
        TRACK.store(was, Ordering::Relaxed);
        return (res, (bs.len() - left) as u64, 0);
    }
    let mut s = Cursor::new(bs);
    let mut p: Vec<i128> = Vec::new();
    let ok = match dk {
        70 => MessageHeader::decode(&mut s, &ro).map(|h| p_header(&h, &mut p)).is_ok(),
        71 => HelloMessage::decode(&mut s, &ro).map(|m| { p_header(&m.message_header, &mut p);
                p.extend([m.protocol_version, m.receive_buffer_size, m.send_buffer_size, m.max_message_size, m.max_chunk_count].iter().map(|x| *x as i128));
                p_ustr(&m.endpoint_url, &mut p) }).is_ok(),
        72 => AcknowledgeMessage::decode(&mut s, &ro).map(|m| { p_header(&m.message_header, &mut p);
                p.extend([m.protocol_version, m.receive_buffer_size, m.send_buffer_size, m.max_message_size, m.max_chunk_count].iter().map(|x| *x as i128)) }).is_ok(),
        73 => ErrorMessage::decode(&mut s, &ro).map(|m| { p_header(&m.message_header, &mut p); p.push(m.error as i128); p_ustr(&m.reason, &mut p) }).is_ok(),
        74 => MessageChunkHeader::decode(&mut s, &ro).map(|h| {
                p.push(match h.message_type { MessageChunkType::Message => 0, MessageChunkType::OpenSecureChannel => 1, MessageChunkType::CloseSecureChannel => 2 });
                p.push(match h.is_final { MessageIsFinalType::Intermediate => 0, MessageIsFinalType::Final => 1, MessageIsFinalType::FinalError => 2 });
                p.push(h.message_size as i128); p.push(h.secure_channel_id as i128) }).is_ok(),
        _ => MessageChunk::decode(&mut s, &ro).map(|c| { let was = TRACK.swap(false, Ordering::Relaxed);
                p.push(c.data.len() as i128); p.extend(c.data.iter().map(|b| *b as i128)); TRACK.store(was, Ordering::Relaxed); }).is_ok(),
    };
    (if ok { Ok(p) } else { Err(()) }, s.position(), 0)
}

/// run one decode with tracking; the canonical output of Model.run
fn observe(dk: u32, o: &HOpts, bs: &[u8]) -> Vec<i128> {
    MAX_REQ.store(0, Ordering::Relaxed);
    TRACK.store(true, Ordering::Relaxed);
    let r = guarded(|| decode(dk, o, bs));
    TRACK.store(false, Ordering::Relaxed);
    let al = MAX_REQ.load(Ordering::Relaxed);
    let al = if al >= ALLOC_FLOOR && dk < 100 { al as i128 } else { 0 };
    match r {
        Err(_) => vec![-2],
        Ok((Err(_), _, depth)) => vec![-1, depth as i128, al],
        Ok((Ok(p), pos, depth)) => { let mut out = vec![0, pos as i128, depth as i128, al, p.len() as i128]; out.extend(p); out }
    }
}

/// accepted chunks are printed whole: keep them small
fn small_chunks(dk: u32, o: HOpts) -> HOpts { if dk == 75 || dk == 76 { HOpts { max_msg: 48, ..o } } else { o } }

fn nest_bytes(unit: &[u8], n: u32, tail: &[u8]) -> Vec<u8> {
    let mut b = Vec::with_capacity(unit.len() * n as usize + tail.len());
    for _ in 0..n { b.extend_from_slice(unit); }
    b.extend_from_slice(tail);
    b
}

/// a frame for the framing layer: a type, a declared size and `have` bytes of it in the buffer (plus `extra`
/// bytes of the next frame)
fn frame(t: &[u8; 4], declared: u32, body: &[u8], extra: &[u8]) -> Vec<u8> {
    let mut bs = t.to_vec(); bs.extend(declared.to_le_bytes()); bs.extend_from_slice(body); bs.extend_from_slice(extra); bs
}
const FRAME_TYPES: [&[u8; 4]; 9] = [b"HELF", b"ACKF", b"ERRF", b"MSGF", b"OPNF", b"CLOF", b"MSGC", b"MSGA", b"XYZF"];
fn frame_case(r: &mut Rng) -> Case {
    let limit: i64 = *r.pick(&[0i64, 48, 64, 100, 327675]);
    let o = HOpts { max_msg: limit, max_str: 40, ..HOpts::default() };
    let t = *r.pick(&FRAME_TYPES);
    // a body that makes sense for the type
    let mut body: Vec<u8> = match &t[..3] {
        b"HEL" => { let mut b = Vec::new(); for x in [0u32, 8192, 8192, 0, 0] { b.extend(x.to_le_bytes()); } let n = r.below(12) as usize; let u = r.bytes(n).iter().map(|c| b'a' + c % 26).collect::<Vec<u8>>(); b.extend((u.len() as i32).to_le_bytes()); b.extend(u); b }
        b"ACK" => { let mut b = Vec::new(); for _ in 0..5 { b.extend((r.next() as u32).to_le_bytes()); } b }
        b"ERR" => { let mut b = (r.next() as u32).to_le_bytes().to_vec(); b.extend((-1i32).to_le_bytes()); b }
        _ => { let n = 4 + r.below(24) as usize; r.bytes(n) }
    };
    let full = 8 + body.len() as u32;
    let declared = match r.below(10) {
        0..=3 => full,
        4 => full + 1 + r.below(20) as u32,                       // incomplete frame within the limit
        5 => if limit > 0 { limit as u32 + 1 + r.below(3) as u32 } else { 1 << 20 },   // over the limit
        6 => *r.pick(&[1u32 << 20, 1 << 26, (1 << 26) + 17]),    // far over the limit, body incomplete
        7 => r.below(9) as u32,                                   // smaller than the header
        8 => if limit > 0 { limit as u32 } else { full },
        _ => full.saturating_sub(1 + r.below(4) as u32),
    };
    if r.chance(1, 4) { let k = r.below(body.len() as u64 + 1) as usize; body.truncate(k); }
    let extra = if r.chance(1, 3) { let n = r.below(12) as usize; r.bytes(n) } else { vec![] };
    Case::Bytes { dk: 76, o, bs: frame(t, declared, &body, &extra) }
}

/// the deep-nesting cases run in a child process with a 1 MiB main-thread-independent stack
fn child_main(args: &[String]) {
    // --child dk max_str max_bstr max_arr max_msg max_depth offset n unit_hex tail_hex
    let num = |i: usize| args[i].parse::<i64>().unwrap_or(0);
    let hex = |s: &str| -> Vec<u8> { (0..s.len() / 2).map(|i| u8::from_str_radix(&s[2 * i..2 * i + 2], 16).unwrap_or(0)).collect() };
    let dk = num(0) as u32;
    let o = HOpts { max_str: num(1), max_bstr: num(2), max_arr: num(3), max_msg: num(4), max_depth: num(5), offset_ns: num(6) };
    let bs = nest_bytes(&hex(&args[8]), num(7) as u32, &hex(args.get(9).map(|s| s.as_str()).unwrap_or("")));
    std::panic::set_hook(Box::new(|_| {}));
    let h = std::thread::Builder::new().stack_size(1 << 20).spawn(move || observe(dk, &o, &bs)).unwrap();
    let out = h.join().unwrap_or_else(|_| vec![-2]);
    println!("RESULT {}", out.iter().map(|x| x.to_string()).collect::<Vec<_>>().join(" "));
}
fn run_child(dk: u32, o: &HOpts, unit: &[u8], n: u32, tail: &[u8]) -> Vec<i128> {
    let hexs = |b: &[u8]| b.iter().map(|x| format!("{:02x}", x)).collect::<String>();
    let exe = std::env::current_exe().unwrap();
    let outp = std::process::Command::new(exe)
        .args(["--child", &dk.to_string(), &o.max_str.to_string(), &o.max_bstr.to_string(), &o.max_arr.to_string(), &o.max_msg.to_string(),
               &o.max_depth.to_string(), &o.offset_ns.to_string(), &n.to_string(), &hexs(unit), &hexs(tail)])
        .stderr(std::process::Stdio::null())
        .output();
    match outp {
        Ok(o) if o.status.success() => {
            let s = String::from_utf8_lossy(&o.stdout);
            for line in s.lines() { if let Some(r) = line.strip_prefix("RESULT ") { return r.split_whitespace().filter_map(|x| x.parse::<i128>().ok()).collect(); } }
            vec![-3]
        }
        _ => vec![-3],   // killed by a signal (stack overflow) or could not run
    }
}

/// the recursion graph of the decoders: units that re-enter a decoder once per repetition
fn nest_families() -> Vec<(u32, Vec<u8>, Vec<u8>, &'static str)> {
    vec![
        (24, vec![24], vec![1, 1], "variant-in-variant"),
        (24, vec![23, 1], vec![0], "datavalue-in-variant"),
        (23, vec![1, 23], vec![0, 0], "variant-in-datavalue"),
        (25, vec![64], vec![0], "inner-diagnostic-info"),
        (24, vec![25, 64], vec![0], "diagnostic-info-in-variant"),
        (24, vec![152, 1, 0, 0, 0], vec![1, 1], "variant-array-of-variant"),
        (24, vec![151, 1, 0, 0, 0, 1], vec![0], "datavalue-array-in-variant"),
        (54, vec![1, 0, 0, 0, 24], vec![0], "variant-array-of-variant-top"),
        (24, vec![24, 23, 1], vec![0], "variant-datavalue-alternating"),
    ]
}

impl Property for P {
    type Case = Case;
    fn fixed(tier: &str) -> Vec<Case> {
        let mut v = vec![Case::Sizes];
        let d = HOpts::default();
        let ns: &[u32] = if tier == "thorough" { &[1, 9, 10, 11, 12, 1000, 100_000, 300_000] } else { &[9, 10, 11, 1000, 100_000] };
        for (dk, unit, tail, _) in nest_families() {
            for n in ns { v.push(Case::Nest { dk, o: d.clone(), unit: unit.clone(), n: *n, tail: tail.clone() }); }
            v.push(Case::Nest { dk, o: HOpts::minimal(), unit: unit.clone(), n: 3, tail: tail.clone() });
            v.push(Case::Nest { dk, o: HOpts { max_depth: 0, ..HOpts::default() }, unit: unit.clone(), n: 1, tail: tail.clone() });
            v.push(Case::Nest { dk, o: HOpts { max_depth: 300, ..HOpts::default() }, unit: unit.clone(), n: 250, tail: tail.clone() });
        }
        // allocation: lengths at / above the limits with no data behind them
        let le = |x: i32| x.to_le_bytes().to_vec();
        for (dk, pre) in [(12u32, vec![]), (15, vec![]), (24, vec![12]), (36, vec![]), (24, vec![134]), (54, vec![]), (53, vec![]), (24, vec![152])] {
            for o in [HOpts::default(), HOpts::minimal(), HOpts { max_str: 200_000, max_bstr: 300_000, max_arr: 50_000, ..HOpts::default() }] {
                for l in [o.max_str as i32, o.max_bstr as i32, o.max_arr as i32, o.max_arr as i32 + 1, i32::MAX, 4096] {
                    let mut bs = pre.clone(); bs.extend(le(l)); bs.extend([0u8, 0, 0]);
                    v.push(Case::Bytes { dk, o: o.clone(), bs });
                }
            }
        }
        // nested arrays each announcing the maximum length
        let mut bs = Vec::new();
        for _ in 0..12 { bs.extend([152u8]); bs.extend(le(1000)); }
        v.push(Case::Bytes { dk: 24, o: d.clone(), bs });
        // array dimensions whose product overflows u32 / does not match / contains 0
        for dims in [vec![0x10000u32, 0x10000], vec![u32::MAX, u32::MAX, 2], vec![1, 1], vec![2], vec![0], vec![1, 0]] {
            let mut bs = vec![198u8, 1, 0, 0, 0, 7, 0, 0, 0];
            bs.extend(le(dims.len() as i32));
            for d in &dims { bs.extend(d.to_le_bytes()); }
            v.push(Case::Bytes { dk: 24, o: d.clone(), bs });
        }
        // DateTime extremes, with and without a client offset
        for t in [i64::MAX, i64::MAX - 1, i64::MIN, 0, -1] {
            for off in [0i64, 1, -1, 150, i64::MAX / 2, i64::MIN / 2] {
                v.push(Case::Bytes { dk: 13, o: HOpts { offset_ns: off, ..HOpts::default() }, bs: t.to_le_bytes().to_vec() });
            }
        }
        // chunk headers: declared size below the header size, above the limit, short body
        for size in [0u32, 5, 12, 13, 16, 17, 20, 40, 41, 327676, u32::MAX] {
            let mut bs = b"MSGF".to_vec(); bs.extend(size.to_le_bytes()); bs.extend(7u32.to_le_bytes()); bs.extend([1u8, 2, 3, 4]);
            v.push(Case::Bytes { dk: 75, o: HOpts { max_msg: 40, ..HOpts::default() }, bs });
        }
        // the framing layer: a declared size over the limit is refused whether or not the body has arrived, and
        // an incomplete frame makes the codec wait without reserving anything for it
        for t in FRAME_TYPES {
            for (limit, declared) in [(64i64, 65u32), (64, 64), (64, 1 << 26), (327675, 327676), (327675, 1 << 26), (0, 1 << 26), (48, 20), (48, 8), (48, 0)] {
                for have in [0usize, 1, 8, 12] {
                    v.push(Case::Bytes { dk: 76, o: HOpts { max_msg: limit, ..HOpts::default() }, bs: frame(t, declared, &vec![7u8; have], &[]) });
                }
            }
        }
        // invalid UTF-8 families
        for s in [vec![0xC0u8, 0x80], vec![0xED, 0xA0, 0x80], vec![0xF4, 0x90, 0x80, 0x80], vec![0xE0, 0x9F, 0x80], vec![0xF0, 0x8F, 0x80, 0x80],
                  vec![0xC2], vec![0xEF, 0xBF, 0xBF], vec![0xF4, 0x8F, 0xBF, 0xBF], vec![0x80], vec![0xF8, 0x88, 0x80, 0x80, 0x80], vec![0xED, 0x9F, 0xBF], vec![0xE1, 0x80]] {
            let mut bs = le(s.len() as i32); bs.extend(s);
            v.push(Case::Bytes { dk: 12, o: d.clone(), bs });
        }
        v
    }
    fn gen(r: &mut Rng) -> Case {
        let o = match r.below(8) {
            0 => HOpts::minimal(),
            1 => HOpts { max_str: r.below(10) as i64, max_bstr: r.below(10) as i64, max_arr: r.below(6) as i64, max_depth: r.below(4) as i64, ..HOpts::default() },
            2 => HOpts { offset_ns: r.range(-5_000_000_000, 5_000_000_000), ..HOpts::default() },
            _ => HOpts::default(),
        };
        if r.chance(1, 6) {
            // a generated structure: valid encoding, mutated
            let (idx, mut bs) = st::gen_case(r);
            for _ in 0..r.below(3) { if bs.is_empty() { break } let i = r.below(bs.len() as u64) as usize; bs[i] = r.next() as u8; }
            if bs.len() > 160 { bs.truncate(160); }
            return Case::Bytes { dk: 100 + idx as u32, o, bs };
        }
        if r.chance(1, 8) { return frame_case(r); }
        match r.below(10) {
            // purely random bytes
            0 | 1 => { let dk = *r.pick(&DKS); let n = 1 + r.below(24) as usize; let o = small_chunks(dk, o); Case::Bytes { dk, o, bs: r.bytes(n) } }
            // random bytes biased to small values (masks, small lengths)
            2 | 3 => { let dk = *r.pick(&DKS); let n = 1 + r.below(28) as usize; let o = small_chunks(dk, o);
                       let bs = (0..n).map(|_| match r.below(6) { 0 => r.next() as u8, 1 => 0xff, 2 => 0x80 | r.below(26) as u8, 3 => 0xC0 | r.below(26) as u8, _ => r.below(27) as u8 }).collect();
                       Case::Bytes { dk, o, bs } }
            // a valid encoding, mutated
            4..=8 => {
                let depth = 2;
                let (dk, t, v) = match r.below(8) {
                    0..=3 => (24u32, Ty::Var, UVal::V(g_variant(r, depth, 5))),
                    4 => (23, Ty::DV, UVal::D(g_datavalue(r, depth - 1, 5))),
                    5 => { let k = *r.pick(&ARRAY_ELEMS); let n = r.below(3) as usize; (30 + k as u32, Ty::Arr(Box::new(Ty::S(k))), UVal::A(Some((0..n).map(|_| UVal::S(g_scalar(r, k, 1, 5))).collect()))) }
                    6 => { let n = r.below(3) as usize; (54, Ty::Arr(Box::new(Ty::Var)), UVal::A(Some((0..n).map(|_| UVal::V(g_variant(r, depth, 5))).collect()))) }
                    _ => { let k = *r.pick(&SCALAR_KINDS); (k as u32, Ty::S(k), UVal::S(g_scalar(r, k, 1, 5))) }
                };
                let mut bs = Vec::new();
                let _ = enc_typed(&t, &v, &mut bs);
                let nmut = r.below(4);
                for _ in 0..nmut {
                    if bs.is_empty() { break; }
                    let i = r.below(bs.len() as u64) as usize;
                    match r.below(6) {
                        0 => bs[i] = r.next() as u8,
                        1 => bs[i] ^= 1 << r.below(8),
                        2 => { bs.truncate(i); }
                        3 => bs.insert(i, r.next() as u8),
                        4 => bs[i] = *r.pick(&[0xffu8, 0x7f, 0x80, 0, 0x40, 0xC0, 24, 23, 25, 22]),
                        _ => { bs.remove(i); }
                    }
                }
                if bs.len() > 90 { bs.truncate(90); }
                Case::Bytes { dk, o, bs }
            }
            // moderately deep nesting, in process
            _ => { let fams = nest_families(); let (dk, unit, tail, _) = r.pick(&fams).clone();
                   let n = match r.below(3) { 0 => (o.max_depth as u32).saturating_sub(1) + r.below(3) as u32, 1 => r.below(6) as u32, _ => 12 + r.below(30) as u32 };
                   Case::Nest { dk, o, unit, n, tail } }
        }
    }
    fn exec(c: &Case) -> Out {
        match c {
            Case::Sizes => {
                use std::mem::size_of;
                let out: Vec<i128> = [size_of::<bool>(), size_of::<i8>(), size_of::<u8>(), size_of::<i16>(), size_of::<u16>(), size_of::<i32>(), size_of::<u32>(),
                    size_of::<i64>(), size_of::<u64>(), size_of::<f32>(), size_of::<f64>(), size_of::<UAString>(), size_of::<DateTime>(), size_of::<Guid>(),
                    size_of::<ByteString>(), size_of::<UAString>(), size_of::<NodeId>(), size_of::<ExpandedNodeId>(), size_of::<StatusCode>(), size_of::<QualifiedName>(),
                    size_of::<LocalizedText>(), size_of::<ExtensionObject>(), size_of::<DiagnosticInfo>(), size_of::<DataValue>(), size_of::<Variant>()]
                    .iter().map(|x| *x as i128).collect();
                Out { tag: "sizes".into(), term: "CSizes".into(), out }
            }
            Case::Bytes { dk, o, bs } => {
                let out = observe(*dk, o, bs);
                let tag = format!("bytes-dk{}-{}", dk, match out[0] { 0 => "ok", -1 => "err", -2 => "panic", _ => "dead" });
                Out { tag, term: format!("(CBytes {} {} {})", dk, o.term(), zbytes(bs)), out }
            }
            Case::Nest { dk, o, unit, n, tail } => {
                let out = if *n >= 500 { run_child(*dk, o, unit, *n, tail) } else { observe(*dk, o, &nest_bytes(unit, *n, tail)) };
                let tag = format!("nest-dk{}-{}-{}", dk, if *n >= 500 { "child" } else { "inproc" }, match out[0] { 0 => "ok", -1 => "err", -2 => "panic", _ => "dead" });
                Out { tag, term: format!("(CNest {} {} {} {} {})", dk, o.term(), zbytes(unit), n, zbytes(tail)), out }
            }
        }
    }
}
fn main() {
    let argv: Vec<String> = std::env::args().collect();
    if argv.len() > 2 && argv[1] == "--child" { child_main(&argv[2..]); return; }
    run_main::<P>()
}
