(* C39 — on well-formed clauses the evaluator model computes what the Part 4 reference evaluator
   says (outside known finding 1). *)
From Coq Require Import List ZArith Bool Lia.
From OV Require Import C39.Values C39.Like C39.Model C39.LikeProofs.
Import ListNotations.
Open Scope Z_scope.

(* ---- conversion: the table has an arm wherever precedence sends a value ------------------------ *)
Lemma ity_eqb_eq s t : ity_eqb s t = true -> s = t.
Proof. destruct s, t; cbn; intros H; try reflexivity; discriminate. Qed.

Lemma tyid_eqb_eq a b : tyid_eqb a b = true -> a = b.
Proof.
  destruct a, b; cbn; intros H; try reflexivity; try discriminate.
  - apply ity_eqb_eq in H. congruence.
  - apply Z.eqb_eq in H. congruence.
Qed.

Lemma tyid_eqb_refl a : tyid_eqb a a = true.
Proof. destruct a; cbn; try reflexivity; [destruct t; reflexivity | apply Z.eqb_refl]. Qed.

Lemma int_arm_complete : forall s d,
  tyid_eqb (TInt s) (TInt d) = false -> precedence (TInt d) <= precedence (TInt s) -> int_arm s d = true.
Proof. intros s d; destruct s, d; cbn; intros H1 H2; try reflexivity; try discriminate; lia. Qed.

Lemma in_range_bool : forall t (b : bool), in_range t (if b then 1 else 0) = true.
Proof. intros t b; destruct t, b; reflexivity. Qed.

(* `convert` agrees with the reference conversion whenever the target has at least the precedence
   of the value's type, which is the only direction `convert_pair` uses *)
Lemma convert_is_ref : forall v target,
  precedence target <= precedence (type_id v) -> convert v target = ref_convert v target.
Proof.
  intros v target Hp. unfold ref_convert.
  destruct (tyid_eqb (type_id v) target) eqn:He; [unfold convert; rewrite He; reflexivity|].
  destruct (int_value v) as [z|] eqn:Hi; [|reflexivity].
  destruct target as [| |d| | | | |k]; try reflexivity;
    destruct v; cbn in Hi; try discriminate; inversion Hi; subst; unfold convert; rewrite He.
  - rewrite in_range_bool. reflexivity.
  - cbn [type_id] in *. rewrite (int_arm_complete t d He Hp). reflexivity.
  - reflexivity.
  - reflexivity.
  - reflexivity.
  - reflexivity.
Qed.

Lemma common_agree : forall v1 v2, convert_pair v1 v2 = ref_common v1 v2.
Proof.
  intros v1 v2. unfold convert_pair, ref_common.
  destruct (tyid_eqb (type_id v1) (type_id v2)) eqn:He.
  - apply tyid_eqb_eq in He. rewrite He. rewrite Z.ltb_irrefl.
    unfold ref_convert. rewrite <- He at 1. rewrite tyid_eqb_refl. reflexivity.
  - destruct (precedence (type_id v1) <? precedence (type_id v2)) eqn:Hp.
    + apply Z.ltb_lt in Hp. rewrite convert_is_ref by lia. reflexivity.
    + apply Z.ltb_ge in Hp. rewrite convert_is_ref by lia. reflexivity.
Qed.

(* ---- comparison ------------------------------------------------------------------------------------ *)
Definition cmp_ord (c : cmpres) : option comparison :=
  match c with CLess => Some Lt | CEq => Some Eq | CGreater => Some Gt | CNotEq | CError => None end.

Lemma zcmp_ord a b : cmp_ord (zcmp a b) = Some (a ?= b).
Proof.
  unfold zcmp. destruct (Z.compare_spec a b) as [H|H|H].
  - subst. rewrite Z.ltb_irrefl, Z.eqb_refl. reflexivity.
  - apply Z.ltb_lt in H. rewrite H. reflexivity.
  - assert (H1 : (a <? b) = false) by (apply Z.ltb_ge; lia).
    assert (H2 : (a =? b) = false) by (apply Z.eqb_neq; lia). rewrite H1, H2. reflexivity.
Qed.

Lemma fcmpres_ord r : cmp_ord (fcmpres cfg_fixed r) = r.
Proof. destruct r as [[| |]|]; reflexivity. Qed.

Lemma compare_agree : forall v1 v2 ro,
  ref_compare v1 v2 = Some ro -> exists c, cmp_vals cfg_fixed v1 v2 = ROk c /\ cmp_ord c = ro.
Proof.
  intros v1 v2 ro. unfold ref_compare, cmp_vals. rewrite common_agree.
  destruct (ref_common v1 v2) as [a b].
  destruct (is_poison a || is_poison b) eqn:Hpo; [discriminate|].
  intros H. inversion H; subst; clear H.
  destruct a, b; cbn in Hpo; try discriminate; cbn [compare_values cfg_fixed fix_conv fix_eq fix_nan];
    try (eexists; split; [reflexivity | cbn; try reflexivity]);
    try (match goal with |- context [value_eqb ?x ?y] => destruct (value_eqb x y); reflexivity end).
  all: try apply fcmpres_ord.
  all: try (match goal with |- context [if ?x then CEq else CNotEq] => destruct x; reflexivity end).
  destruct (ity_eqb t t0); eexists; (split; [reflexivity|]); [apply zcmp_ord | reflexivity].
Qed.

Lemma ord_eqb c accept cacc :
  (forall o, accept o = cacc (match o with Lt => CLess | Eq => CEq | Gt => CGreater end)) ->
  cacc CNotEq = false -> cacc CError = false ->
  ord_is (cmp_ord c) accept = cacc c.
Proof. intros H1 H2 H3. destruct c; cbn; rewrite ?H1, ?H2, ?H3; reflexivity. Qed.

(* ---- logic ------------------------------------------------------------------------------------------ *)
Lemma not_agree v : not_val v = tri_value (tri_not (tri v)).
Proof. unfold not_val, tri. destruct (convert v TBool); try reflexivity. destruct b; reflexivity. Qed.

Lemma and_agree a b : and_vals a b = tri_value (tri_and (tri a) (tri b)).
Proof.
  unfold and_vals, tri. destruct (convert a TBool) as [| x | | | | | | |], (convert b TBool) as [| y | | | | | | |];
    try reflexivity; try (destruct x; reflexivity); try (destruct y; reflexivity).
  destruct x, y; reflexivity.
Qed.

Lemma or_agree a b : or_vals a b = tri_value (tri_or (tri a) (tri b)).
Proof.
  unfold or_vals, tri. destruct (convert a TBool) as [| x | | | | | | |], (convert b TBool) as [| y | | | | | | |];
    try reflexivity; try (destruct x; reflexivity); try (destruct y; reflexivity).
  destruct x, y; reflexivity.
Qed.

Lemma bitwise_agree isand a b v : ref_bitwise isand a b = Some v -> bit_vals cfg_fixed isand a b = ROk v.
Proof.
  unfold ref_bitwise, bit_vals. rewrite common_agree. destruct (ref_common a b) as [x y].
  destruct (is_poison x || is_poison y); [discriminate|]. intros H. inversion H; subst; clear H.
  destruct x; try reflexivity. destruct y; try reflexivity. cbn. destruct (ity_eqb t t0); reflexivity.
Qed.

(* ---- LIKE ------------------------------------------------------------------------------------------- *)
Lemma convert_string v : match convert v TString with VStr s => v = VStr s | _ => True end.
Proof. destruct v; cbn; try exact I; try reflexivity. Qed.

Lemma like_agree a b v :
  ref_like a b = Some v ->
  (forall s pat p, a = VStr s -> b = VStr pat -> like_parse_checked pat = Some p -> has_one p = false) ->
  like_vals cfg_fixed a b = ROk v.
Proof.
  intros Href Hguard. unfold like_vals.
  destruct a as [| | | | |s| | |]; try (destruct b; cbn in Href; inversion Href; subst; cbn; reflexivity).
  destruct b as [| | | | |pat| | |]; try (cbn in Href; inversion Href; subst; cbn; reflexivity).
  change (convert (VStr s) TString) with (VStr s). change (convert (VStr pat) TString) with (VStr pat).
  cbn [ref_like] in Href.
  destruct (like_parse_checked pat) as [p|] eqn:Hp; [|discriminate]. inversion Href; subst; clear Href.
  destruct (like_parse_checked_sound pat p Hp) as [Hwf Hpr]. subst pat.
  cbn [fix_like cfg_fixed]. rewrite (like_fixed_is_spec p s Hwf (Hguard s _ p eq_refl eq_refl Hp)). reflexivity.
Qed.

(* ---- operators over evaluated operands ---------------------------------------------------------- *)
Section OpAgree.
  Variable vo : operand -> outcome.

  Lemma compare_operands_agree o1 o2 v1 v2 ro :
    vo o1 = ROk v1 -> vo o2 = ROk v2 -> ref_compare v1 v2 = Some ro ->
    exists c, compare_operands cfg_fixed vo o1 o2 = ROk c /\ cmp_ord c = ro.
  Proof.
    intros H1 H2 Hr. unfold compare_operands. rewrite H1, H2. cbn [bind]. apply compare_agree. exact Hr.
  Qed.

  Lemma in_list_agree o0 a : forall ops vs r,
    vo o0 = ROk a -> Forall2 (fun o v => vo o = ROk v) ops vs ->
    ref_in_list a vs = Some r -> in_list_any cfg_fixed vo o0 ops = ROk (VBool r).
  Proof.
    intros ops vs r H0 HF. revert r. induction HF as [|o v ops vs Hov HF IH]; intros r Hr.
    - cbn in Hr. inversion Hr. reflexivity.
    - cbn in Hr. destruct (ref_compare a v) as [ro|] eqn:Hc; [|discriminate].
      destruct (ref_in_list a vs) as [rest|]; [|discriminate]. inversion Hr; subst; clear Hr.
      cbn [in_list_any].
      destruct (compare_operands_agree o0 o a v ro H0 Hov Hc) as [c [Hco Hord]].
      rewrite Hco. subst ro.
      destruct c; cbn; try (rewrite (IH rest eq_refl); reflexivity); reflexivity.
  Qed.

  Definition like_guard (op : operator) (vs : list value) : Prop :=
    match op, vs with
    | Like, [a; b] => forall s pat p, a = VStr s -> b = VStr pat -> like_parse_checked pat = Some p -> has_one p = false
    | _, _ => True
    end.

  Lemma eval_op_agree op ops vs v :
    Forall2 (fun o x => vo o = ROk x) ops vs ->
    ref_op op vs = Some v -> like_guard op vs ->
    eval_op cfg_fixed vo op ops = ROk v.
  Proof.
    intros HF Href Hg.
    destruct op; cbn [ref_op] in Href.
    (* binary comparisons *)
    1, 3, 4, 5, 6:
      (destruct vs as [|a [|b [|? ?]]]; try discriminate;
       inversion HF as [|o0 ? ? ? H0 HF1]; subst; inversion HF1 as [|o1 ? ? ? H1 HF2]; subst; inversion HF2; subst;
       unfold ref_cmp_op in Href; destruct (ref_compare a b) as [ro|] eqn:Hc; [|discriminate];
       inversion Href; subst; clear Href;
       cbn [eval_op]; unfold cmp_op, operand_at; cbn [nth_error];
       destruct (compare_operands_agree o0 o1 a b ro H0 H1 Hc) as [c [Hco Hord]];
       rewrite Hco; cbn [bind]; unfold bool_res; subst ro; destruct c; reflexivity).
    - (* IsNull *)
      destruct vs as [|a [|? ?]]; try discriminate. inversion HF as [|o0 ? ? ? H0 HF1]; subst. inversion HF1; subst.
      inversion Href; subst. cbn [eval_op]. rewrite H0. reflexivity.
    - (* Like *)
      destruct vs as [|a [|b [|? ?]]]; try discriminate.
      inversion HF as [|o0 ? ? ? H0 HF1]; subst; inversion HF1 as [|o1 ? ? ? H1 HF2]; subst; inversion HF2; subst.
      cbn [eval_op]. rewrite H0. cbn [bind]. unfold operand_at. cbn [nth_error]. rewrite H1. cbn [bind].
      apply like_agree; [exact Href | exact Hg].
    - (* Not *)
      destruct vs as [|a [|? ?]]; try discriminate. inversion HF as [|o0 ? ? ? H0 HF1]; subst. inversion HF1; subst.
      inversion Href; subst. cbn [eval_op]. rewrite H0. cbn [bind]. rewrite not_agree. reflexivity.
    - (* Between *)
      destruct vs as [|a [|lo [|hi [|? ?]]]]; try discriminate.
      inversion HF as [|o0 ? ? ? H0 HF1]; subst; inversion HF1 as [|o1 ? ? ? H1 HF2]; subst;
        inversion HF2 as [|o2 ? ? ? H2 HF3]; subst; inversion HF3; subst.
      destruct (ref_compare a lo) as [r1|] eqn:Hc1; [|discriminate].
      destruct (ref_compare a hi) as [r2|] eqn:Hc2; [|discriminate].
      inversion Href; subst; clear Href.
      cbn [eval_op]. unfold operand_at. cbn [nth_error].
      destruct (compare_operands_agree o0 o1 a lo r1 H0 H1 Hc1) as [c1 [Hco1 Hord1]].
      destruct (compare_operands_agree o0 o2 a hi r2 H0 H2 Hc2) as [c2 [Hco2 Hord2]].
      rewrite Hco1. cbn [bind]. subst r1 r2.
      destruct c1; cbn; try reflexivity; rewrite Hco2; cbn [bind]; unfold bool_res; destruct c2; reflexivity.
    - (* InList *)
      destruct vs as [|a l]; try discriminate.
      inversion HF as [|o0 ? ops' ? H0 HF1]; subst.
      destruct (ref_in_list a l) as [r|] eqn:Hr; [|discriminate]. inversion Href; subst; clear Href.
      cbn [eval_op tl]. apply (in_list_agree o0 a ops' l r H0 HF1 Hr).
    - (* And *)
      destruct vs as [|a [|b [|? ?]]]; try discriminate.
      inversion HF as [|o0 ? ? ? H0 HF1]; subst; inversion HF1 as [|o1 ? ? ? H1 HF2]; subst; inversion HF2; subst.
      inversion Href; subst. cbn [eval_op]. rewrite H0. cbn [bind]. unfold operand_at. cbn [nth_error]. rewrite H1. cbn [bind].
      rewrite and_agree. reflexivity.
    - (* Or *)
      destruct vs as [|a [|b [|? ?]]]; try discriminate.
      inversion HF as [|o0 ? ? ? H0 HF1]; subst; inversion HF1 as [|o1 ? ? ? H1 HF2]; subst; inversion HF2; subst.
      inversion Href; subst. cbn [eval_op]. rewrite H0. cbn [bind]. unfold operand_at. cbn [nth_error]. rewrite H1. cbn [bind].
      rewrite or_agree. reflexivity.
    - destruct vs as [|? [|? [|? ?]]]; discriminate.
    - destruct vs as [|? [|? [|? ?]]]; discriminate.
    - destruct vs as [|? [|? [|? ?]]]; discriminate.
    - destruct vs as [|? [|? [|? ?]]]; discriminate.
    - (* BitwiseAnd *)
      destruct vs as [|a [|b [|? ?]]]; try discriminate.
      inversion HF as [|o0 ? ? ? H0 HF1]; subst; inversion HF1 as [|o1 ? ? ? H1 HF2]; subst; inversion HF2; subst.
      cbn [eval_op]. rewrite H0. cbn [bind]. unfold operand_at. cbn [nth_error]. rewrite H1. cbn [bind].
      apply bitwise_agree. exact Href.
    - (* BitwiseOr *)
      destruct vs as [|a [|b [|? ?]]]; try discriminate.
      inversion HF as [|o0 ? ? ? H0 HF1]; subst; inversion HF1 as [|o1 ? ? ? H1 HF2]; subst; inversion HF2; subst.
      cbn [eval_op]. rewrite H0. cbn [bind]. unfold operand_at. cbn [nth_error]. rewrite H1. cbn [bind].
      apply bitwise_agree. exact Href.
  Qed.
End OpAgree.

(* ---- trees ------------------------------------------------------------------------------------------ *)
Lemma map_opt_Forall2 {A B} (f : A -> option B) : forall l l',
  map_opt f l = Some l' -> Forall2 (fun a b => f a = Some b) l l'.
Proof.
  induction l as [|a l IH]; intros l' H; cbn in H.
  - inversion H. constructor.
  - destruct (f a) as [b|] eqn:Hf; [|discriminate].
    destruct (map_opt f l) as [bs|] eqn:Hm; [|discriminate]. inversion H; subst.
    constructor; [exact Hf | apply IH; reflexivity].
Qed.

Lemma arity_pos op n : arity_ok op n = true -> (0 < n)%nat.
Proof. destruct op, n; cbn; try discriminate; lia. Qed.

Section Trees.
  Variable fields : list value.
  Variable els : list element.

  Lemma uses_one_args op args : uses_one fields (XOp op args) = false -> Forall (fun x => uses_one fields x = false) args.
  Proof.
    cbn [uses_one]. intros H. apply orb_false_iff in H as [H _].
    apply Forall_forall. intros x Hin. destruct (uses_one fields x) eqn:Hx; [|reflexivity].
    exfalso. assert (existsb (uses_one fields) args = true) by (apply existsb_exists; exists x; auto). congruence.
  Qed.

  Lemma uses_one_guard op args vs :
    uses_one fields (XOp op args) = false -> map_opt (ref_eval fields) args = Some vs -> like_guard op vs.
  Proof.
    intros Hu Hm. unfold like_guard. destruct op; try exact I.
    destruct vs as [|a [|b [|? ?]]]; try exact I.
    intros s pat p Ha Hb Hp. subst.
    destruct args as [|xa [|xb [|? ?]]]; cbn in Hm;
      repeat match type of Hm with
             | context [ref_eval fields ?x] => destruct (ref_eval fields x) eqn:?; try discriminate
             | context [map_opt ?f ?l] => destruct (map_opt f l) eqn:?; try discriminate
             end; try discriminate.
    inversion Hm; subst.
    cbn [uses_one] in Hu. apply orb_false_iff in Hu as [_ Hu].
    match type of Hu with context [ref_eval fields ?x] => replace (ref_eval fields x) with (Some (VStr pat)) in Hu by (symmetry; assumption) end.
    rewrite Hp in Hu. exact Hu.
  Qed.

  (* the evaluator follows the unfolding, operand by operand *)
  Lemma evaluate_agrees : forall fuel used e x v,
    unfold els fuel used e = Some x -> ref_eval fields x = Some v -> uses_one fields x = false ->
    evaluate cfg_fixed fields els fuel used e = ROk v.
  Proof.
    induction fuel as [|fuel IH]; intros used e x v Hun Href Huse; [discriminate|].
    cbn [unfold] in Hun. cbn [evaluate].
    destruct (el_ops e) as [ops|] eqn:Hops; [|discriminate].
    destruct (arity_ok (el_op e) (length ops)) eqn:Har; [|discriminate].
    destruct (map_opt (unfold_operand els (unfold els fuel) used) ops) as [xs|] eqn:Hm; [|discriminate].
    cbn in Hun. inversion Hun; subst x; clear Hun.
    cbn [ref_eval] in Href.
    destruct (map_opt (ref_eval fields) xs) as [vs|] eqn:Hvs; [|discriminate].
    pose proof (arity_pos _ _ Har) as Hpos.
    destruct ops as [|o0 rest]; [cbn in Hpos; lia|].
    pose proof (map_opt_Forall2 _ _ _ Hm) as HF1.
    pose proof (map_opt_Forall2 _ _ _ Hvs) as HF2.
    pose proof (uses_one_args _ _ Huse) as HFu.
    (* no undecodable operand *)
    assert (Hbad : existsb is_bad (o0 :: rest) = false).
    { clear - HF1. induction HF1 as [|o y l l' Ho HF IHF]; [reflexivity|].
      cbn [existsb]. rewrite IHF. destruct o; try reflexivity. cbn in Ho. discriminate. }
    rewrite Hbad.
    apply eval_op_agree with (vs := vs); [| exact Href | apply (uses_one_guard _ _ _ Huse Hvs)].
    (* every operand evaluates to the reference value of its subtree *)
    clear Href Hbad Har Hpos Hm Hvs Huse Hops.
    revert vs HF2 HFu. induction HF1 as [|o y l l' Ho HF IHF]; intros vs HF2 HFu.
    - inversion HF2. constructor.
    - inversion HF2 as [|? w ? ws Hw HF2']; subst. inversion HFu as [|? ? Hu1 HFu']; subst.
      constructor; [|apply IHF; assumption].
      destruct o; cbn in Ho |- *; try discriminate.
      + inversion Ho; subst. cbn in Hw. congruence.
      + destruct (mem i used); [discriminate|].
        unfold nels. destruct ((0 <=? i) && (i <? Z.of_nat (length els))); [|discriminate].
        destruct (nth_error els (Z.to_nat i)) as [e'|]; [|discriminate].
        apply (IH (i :: used) e' y w Ho Hw Hu1).
      + inversion Ho; subst. cbn in Hw. congruence.
  Qed.
End Trees.

Theorem reference_agrees : forall fields els v,
  reference fields els = Some v -> known_filter fields els = 0 ->
  evaluate_where_clause cfg_fixed fields els = ROk v.
Proof.
  intros fields els v Href Hk. unfold reference in Href. unfold evaluate_where_clause.
  destruct els as [l|]; [|congruence]. destruct l as [|e0 rest]; [congruence|].
  cbn [known_filter] in Hk.
  destruct (unfold_clause (e0 :: rest)) as [x|] eqn:Hu; [|discriminate].
  destruct (uses_one fields x) eqn:Huse; [discriminate|].
  unfold unfold_clause in Hu.
  apply (evaluate_agrees fields (e0 :: rest) _ [0] e0 x v Hu Href Huse).
Qed.
