(* reference_type_matches: the search always finishes within [tm_fuel] iterations, and it decides
   reachability along HasSubtype references. *)
From Coq Require Import List ZArith Bool Lia.
Import ListNotations.
From OV Require Import C28.Refs C28.RefsFacts C29.Model.
Open Scope Z_scope.

(* the HasSubtype targets of x *)
Definition subs (f : list (Z * list ref)) (x : Z) : list Z :=
  map snd (filter is_subtype_ref (bucket x f)).

Lemma tm_loop_unfold k f sub c rest visited :
  tm_loop (S k) f sub (c :: rest) visited =
  if sub =? c then Some true
  else if memZ c visited then tm_loop k f sub rest visited
  else if memZ sub (subs f c) then Some true
  else tm_loop k f sub (rev (subs f c) ++ rest) (c :: visited).
Proof.
  cbn [tm_loop]. unfold subs, bucket. destruct (sub =? c); [reflexivity|].
  destruct (memZ c visited); [reflexivity|]. destruct (get c f); reflexivity.
Qed.

(* ---- termination ---------------------------------------------------------------------------- *)
(* total size of the buckets of the types not expanded yet *)
Definition uw (f : list (Z * list ref)) (visited : list Z) : nat :=
  fold_right (fun kv acc => ((if memZ (fst kv) visited then O else length (snd kv)) + acc)%nat) O f.

Lemma uw_nil f : uw f [] = weight f.
Proof.
  unfold uw, weight. induction f as [|[k b] f IH]; cbn [fold_right fst snd memZ existsb]; [reflexivity|].
  f_equal.
Qed.

Lemma uw_mono f c visited : (uw f (c :: visited) <= uw f visited)%nat.
Proof.
  induction f as [|[k b] f IH]; cbn [uw fold_right fst snd]; [lia|]. fold (uw f (c :: visited)). fold (uw f visited).
  unfold memZ at 1. cbn [existsb]. fold (memZ k visited).
  destruct (k =? c); cbn [orb]; destruct (memZ k visited); lia.
Qed.

Lemma uw_visit f c visited : memZ c visited = false ->
  (length (bucket c f) + uw f (c :: visited) <= uw f visited)%nat.
Proof.
  intros Hc. induction f as [|[k b] f IH]; cbn [uw fold_right fst snd]; [cbn; lia|].
  fold (uw f (c :: visited)). fold (uw f visited).
  unfold bucket. cbn [get]. unfold memZ at 1. cbn [existsb]. fold (memZ k visited).
  destruct (Z.eqb_spec c k) as [<-|Hck].
  - rewrite Z.eqb_refl, Hc. cbn [orb]. pose proof (uw_mono f c visited). lia.
  - destruct (Z.eqb_spec k c) as [->|_]; [contradiction|]. cbn [orb].
    unfold bucket in IH. destruct (memZ k visited); lia.
Qed.

Lemma filter_length_le' {A} (p : A -> bool) l : (length (filter p l) <= length l)%nat.
Proof. induction l as [|x l IH]; cbn; [lia|]. destruct (p x); cbn; lia. Qed.

Lemma subs_length f c : (length (subs f c) <= length (bucket c f))%nat.
Proof. unfold subs. rewrite map_length. apply filter_length_le'. Qed.

Lemma tm_loop_total f sub : forall k stack visited,
  (length stack + uw f visited < k)%nat -> tm_loop k f sub stack visited <> None.
Proof.
  induction k as [|k IH]; intros stack visited Hlt; [lia|].
  destruct stack as [|c rest]; [cbn; discriminate|].
  rewrite tm_loop_unfold. destruct (sub =? c); [discriminate|].
  destruct (memZ c visited) eqn:Hv.
  - apply IH. cbn [length] in Hlt. lia.
  - destruct (memZ sub (subs f c)); [discriminate|]. apply IH.
    rewrite app_length, rev_length. cbn [length] in Hlt.
    pose proof (uw_visit f c visited Hv). pose proof (subs_length f c). lia.
Qed.

Lemma tm_loop_mono f sub : forall k stack visited r,
  tm_loop k f sub stack visited = Some r -> tm_loop (S k) f sub stack visited = Some r.
Proof.
  induction k as [|k IH]; intros stack visited r H; [discriminate|].
  destruct stack as [|c rest]; [exact H|].
  rewrite tm_loop_unfold in H |- *. destruct (sub =? c); [exact H|].
  destruct (memZ c visited); [apply IH, H|].
  destruct (memZ sub (subs f c)); [exact H|]. apply IH, H.
Qed.

Lemma tm_loop_more f sub j : forall k stack visited r,
  tm_loop k f sub stack visited = Some r -> tm_loop (j + k) f sub stack visited = Some r.
Proof. induction j as [|j IH]; intros; [assumption|]. cbn [Nat.add]. apply tm_loop_mono, IH. assumption. Qed.

(* never out of fuel *)
Lemma type_matches_total f ty sub incl : reference_type_matches_opt f ty sub incl <> None.
Proof.
  unfold reference_type_matches_opt. destruct (ty =? sub); [discriminate|].
  destruct incl; [|discriminate]. apply tm_loop_total. rewrite uw_nil. unfold tm_fuel. cbn [length]. lia.
Qed.

(* ---- correctness ------------------------------------------------------------------------------ *)
Inductive RReach (E : Z -> Z -> Prop) (a : Z) : Z -> Prop :=
| RReach_refl : RReach E a a
| RReach_step x b : RReach E a x -> E x b -> RReach E a b.

Lemma RReach_step_l (E : Z -> Z -> Prop) a x b : E a x -> RReach E x b -> RReach E a b.
Proof.
  intros H1 H2. induction H2 as [|y c _ IH Hy]; [exact (RReach_step E a a x (RReach_refl E a) H1)|].
  exact (RReach_step E a y c IH Hy).
Qed.

Lemma RReach_ext (E E' : Z -> Z -> Prop) a b : (forall x y, E x y -> E' x y) -> RReach E a b -> RReach E' a b.
Proof. intros H R. induction R as [|x c _ IH Hx]; [constructor|]. exact (RReach_step E' a x c IH (H _ _ Hx)). Qed.

Definition sub_rel (f : list (Z * list ref)) : Z -> Z -> Prop := fun x w => In w (subs f x).

Lemma dfs_true f sub : forall k stack visited,
  tm_loop k f sub stack visited = Some true -> exists s, In s stack /\ RReach (sub_rel f) s sub.
Proof.
  induction k as [|k IH]; intros stack visited H; [discriminate|].
  destruct stack as [|c rest]; [discriminate|]. rewrite tm_loop_unfold in H.
  destruct (Z.eqb_spec sub c) as [->|Hc].
  - exists c. split; [left; reflexivity|constructor].
  - destruct (memZ c visited).
    + destruct (IH _ _ H) as (s & Hs & Hr). exists s. split; [right; exact Hs|exact Hr].
    + destruct (memZ sub (subs f c)) eqn:Hm.
      * exists c. split; [left; reflexivity|]. apply memZ_In in Hm.
        exact (RReach_step _ c c sub (RReach_refl _ c) Hm).
      * destruct (IH _ _ H) as (s & Hs & Hr). apply in_app_iff in Hs. destruct Hs as [Hs|Hs].
        -- exists c. split; [left; reflexivity|]. apply in_rev in Hs.
           exact (RReach_step_l _ c s sub Hs Hr).
        -- exists s. split; [right; exact Hs|exact Hr].
Qed.

Lemma dfs_false f sub : forall k stack visited,
  tm_loop k f sub stack visited = Some false ->
  ~ In sub visited ->
  (forall v w, In v visited -> sub_rel f v w -> In w visited \/ In w stack) ->
  forall s, In s stack \/ In s visited -> ~ RReach (sub_rel f) s sub.
Proof.
  induction k as [|k IH]; intros stack visited H Hsub Hcl s Hs; [discriminate|].
  destruct stack as [|c rest].
  - (* the expanded types are closed under HasSubtype and do not contain sub *)
    destruct Hs as [[]|Hs]. intros Hr.
    assert (forall x, RReach (sub_rel f) s x -> In x visited).
    { intros x R. induction R as [|x b _ IHR Hx]; [exact Hs|].
      destruct (Hcl x b IHR Hx) as [Hb|[]]. exact Hb. }
    apply Hsub, H0, Hr.
  - rewrite tm_loop_unfold in H. destruct (Z.eqb_spec sub c) as [->|Hc]; [discriminate|].
    destruct (memZ c visited) eqn:Hv.
    + apply memZ_In in Hv. apply (IH rest visited H Hsub).
      * intros v w Hvv Hvw. destruct (Hcl v w Hvv Hvw) as [Hw|[<-|Hw]]; auto.
      * destruct Hs as [[<-|Hs]|Hs]; auto.
    + destruct (memZ sub (subs f c)) eqn:Hm; [discriminate|].
      apply (IH _ _ H).
      * intros [<-|Hin]; [apply Hc; reflexivity|contradiction].
      * intros v w [<-|Hvv] Hvw.
        -- right. apply in_app_iff. left. apply -> in_rev. exact Hvw.
        -- destruct (Hcl v w Hvv Hvw) as [Hw|[<-|Hw]].
           ++ left. right. exact Hw.
           ++ left. left. reflexivity.
           ++ right. apply in_app_iff. right. exact Hw.
      * destruct Hs as [[<-|Hs]|Hs].
        -- right. left. reflexivity.
        -- left. apply in_app_iff. right. exact Hs.
        -- right. right. exact Hs.
Qed.

Theorem type_matches_spec f ty sub :
  reference_type_matches f ty sub true = true <-> RReach (sub_rel f) ty sub.
Proof.
  unfold reference_type_matches. pose proof (type_matches_total f ty sub true) as Ht.
  unfold reference_type_matches_opt in *. destruct (Z.eqb_spec ty sub) as [->|Hne].
  - split; [constructor|reflexivity].
  - destruct (tm_loop (tm_fuel f) f sub [ty] []) as [[|]|] eqn:E; [| |contradiction].
    + split; [|reflexivity]. intros _. destruct (dfs_true _ _ _ _ _ E) as (s & [<-|[]] & Hr). exact Hr.
    + split; [discriminate|]. intros Hr. exfalso.
      apply (dfs_false _ _ _ _ _ E (fun H => H) (fun v w (H : In v []) _ => match H with end) ty); auto.
      left. left. reflexivity.
Qed.
