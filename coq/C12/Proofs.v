From Coq Require Import List ZArith Bool Lia Sorted.
Import ListNotations.
From OV Require Import C12.Model.
Open Scope Z_scope.

(* ================= the flat form decodes back ================= *)
Lemma take_pairs_flat l r : take_pairs (length l) (flat l ++ r) = Some (l, r).
Proof.
  induction l as [|[a b] l IH]; cbn [length flat take_pairs app]; [reflexivity|].
  rewrite IH. reflexivity.
Qed.

Definition compat (o : op) (ob : obs) : Prop :=
  match o, ob with
  | Recv _, ORecv a _ _ _ => a <> -2
  | Recv _, OPanic => True
  | Recv _, _ => False
  | _, ORecv _ _ _ _ => False
  | _, _ => True
  end.

Lemma dec1_enc1 o ob r : compat o ob -> dec1 o (enc1 ob ++ r) = Some (ob, r).
Proof.
  intros H. destruct ob as [id l| id | | | a b c d]; cbn [enc1 app].
  - destruct o; cbn in H; try contradiction; unfold dec1; cbn [Z.eqb];
      (destruct (Z.of_nat (length l) <? 0) eqn:E; [apply Z.ltb_lt in E; lia|]);
      rewrite Nat2Z.id, take_pairs_flat; reflexivity.
  - destruct o; cbn in H; try contradiction; reflexivity.
  - destruct o; cbn in H; try contradiction; reflexivity.
  - destruct o; reflexivity.
  - destruct o; cbn in H; try contradiction. unfold dec1.
    destruct (a =? -2) eqn:E; [apply Z.eqb_eq in E; contradiction|]. reflexivity.
Qed.

(* ================= the receiver ================= *)
Fixpoint seqs_from (x : Z) (l : list chunk) : bool :=
  match l with [] => true | c :: l' => (ch_seq c =? x) && seqs_from (x + 1) l' end.

Lemma consecutive_cons c l : consecutive (c :: l) = seqs_from (ch_seq c + 1) l.
Proof.
  revert c. induction l as [|b l IH]; intros c; [reflexivity|].
  change (consecutive (c :: b :: l)) with ((ch_seq b =? ch_seq c + 1) && consecutive (b :: l)).
  cbn [seqs_from]. destruct (ch_seq b =? ch_seq c + 1) eqn:E; cbn [andb]; [|reflexivity].
  apply Z.eqb_eq in E. rewrite IH, E. reflexivity.
Qed.

Definition cid_ok (chan : Z) (c : chunk) : bool := (chan =? 0) || (ch_cid c =? chan).

Lemma cid_ok_forallb chan l :
  forallb (cid_ok chan) l = (chan =? 0) || forallb (fun c => ch_cid c =? chan) l.
Proof.
  unfold cid_ok. destruct (chan =? 0); cbn [orb].
  - induction l; cbn; auto.
  - reflexivity.
Qed.

Lemma check_from_codes chan first rid0 l : forall i,
  let r := check_from chan first rid0 i l in r = 0 \/ r = 2 \/ r = 3.
Proof.
  induction l as [|c l IH]; intros i; cbn [check_from]; [auto|].
  destruct (negb (chan =? 0) && negb (ch_cid c =? chan)); [auto|].
  destruct (negb (ch_seq c =? first + i)); [auto|].
  destruct (negb (i =? 0) && negb (ch_rid c =? rid0)); [auto|]. apply IH.
Qed.

Lemma check_from_tail chan first rid0 l : forall i, i <> 0 -> 0 <= i ->
  (check_from chan first rid0 i l = 0 <->
   forallb (cid_ok chan) l = true /\ seqs_from (first + i) l = true /\
   forallb (fun c => ch_rid c =? rid0) l = true).
Proof.
  induction l as [|c l IH]; intros i Hi Hi0; cbn [check_from forallb seqs_from]; [tauto|].
  unfold cid_ok at 1.
  destruct (chan =? 0) eqn:Ec; destruct (ch_cid c =? chan) eqn:Ed; cbn [negb andb orb];
  destruct (ch_seq c =? first + i) eqn:Es; cbn [negb andb];
  destruct (i =? 0) eqn:Ei; try (apply Z.eqb_eq in Ei; contradiction); cbn [negb andb];
  destruct (ch_rid c =? rid0) eqn:Er; cbn [negb andb];
  try (split; [discriminate | intros (A & B & C); discriminate]);
  rewrite (IH (i + 1)) by lia; rewrite Z.add_assoc; tauto.
Qed.

Lemma validate_ok_iff start chan c0 l x :
  validate start chan (c0 :: l) = VOk x <->
  (start <= ch_seq c0 /\ forallb (cid_ok chan) (c0 :: l) = true /\ consecutive (c0 :: l) = true /\
   forallb (fun c => ch_rid c =? ch_rid c0) (c0 :: l) = true) /\ x = ch_seq c0 + Z.of_nat (length l).
Proof.
  unfold validate.
  assert (Hlen : Z.of_nat (length (c0 :: l)) - 1 = Z.of_nat (length l))
    by (cbn [length]; rewrite Nat2Z.inj_succ; lia).
  rewrite Hlen. clear Hlen.
  destruct (Z.ltb_spec (ch_seq c0) start) as [Hlt|Hge].
  - split; [discriminate | intros ((A & _) & _); lia].
  - rewrite consecutive_cons. cbn [check_from forallb length].
    rewrite Z.add_0_r, !Z.eqb_refl. cbn [negb andb].
    unfold cid_ok at 1.
    destruct (negb (chan =? 0) && negb (ch_cid c0 =? chan)) eqn:Ec.
    + split; [discriminate|]. intros ((_ & A & _) & _).
      destruct (chan =? 0); destruct (ch_cid c0 =? chan); cbn in *; discriminate.
    + assert (Hc : (chan =? 0) || (ch_cid c0 =? chan) = true)
        by (destruct (chan =? 0); destruct (ch_cid c0 =? chan); cbn in *; congruence).
      rewrite Hc. cbn [andb].
      pose proof (check_from_tail chan (ch_seq c0) (ch_rid c0) l 1 ltac:(lia) ltac:(lia)) as Ht.
      pose proof (check_from_codes chan (ch_seq c0) (ch_rid c0) l 1) as Hcodes. cbv zeta in Hcodes.
      destruct (check_from chan (ch_seq c0) (ch_rid c0) (0 + 1) l) eqn:E; change (0 + 1) with 1 in E; rewrite E in *.
      * split.
        -- intros H; inversion H; subst. split; [|reflexivity]. split; [lia|]. apply Ht. reflexivity.
        -- intros (_ & ->). reflexivity.
      * split; [discriminate|]. intros ((_ & A) & _). apply Ht in A. discriminate.
      * split; [discriminate|]. intros ((_ & A) & _). apply Ht in A. discriminate.
Qed.

Lemma validate_err_code start chan l e : validate start chan l = VErr e -> e = 1 \/ e = 2 \/ e = 3.
Proof.
  destruct l as [|c0 l]; [discriminate|]. unfold validate.
  destruct (ch_seq c0 <? start); [intros H; inversion H; auto|].
  pose proof (check_from_codes chan (ch_seq c0) (ch_rid c0) (c0 :: l) 0) as Hc. cbv zeta in Hc.
  destruct (check_from chan (ch_seq c0) (ch_rid c0) 0 (c0 :: l)) eqn:E; [discriminate| |];
    intros H; inversion H; subst; destruct Hc as [Hc|[Hc|Hc]]; try discriminate; auto.
Qed.

Lemma validate_no_panic start chan c0 l : validate start chan (c0 :: l) <> VPanic.
Proof.
  unfold validate. destruct (ch_seq c0 <? start); [discriminate|].
  destruct (check_from chan (ch_seq c0) (ch_rid c0) 0 (c0 :: l)); discriminate.
Qed.

Lemma last_seq_consecutive c0 l :
  consecutive (c0 :: l) = true -> last_seq (c0 :: l) = ch_seq c0 + Z.of_nat (length l).
Proof.
  revert c0. induction l as [|b l IH]; intros c0 H.
  - unfold last_seq. cbn [last length Z.of_nat]. lia.
  - change (consecutive (c0 :: b :: l)) with ((ch_seq b =? ch_seq c0 + 1) && consecutive (b :: l)) in H.
    apply andb_true_iff in H as [H1 H2]. apply Z.eqb_eq in H1.
    unfold last_seq in *. change (last (c0 :: b :: l) (mk_chunk 0 0 0)) with (last (b :: l) (mk_chunk 0 0 0)).
    rewrite IH by exact H2. cbn [length]. rewrite Nat2Z.inj_succ. lia.
Qed.

Lemma spec_accept_cons hw chan c0 l :
  spec_accept hw chan (c0 :: l) = true <->
  hw < ch_seq c0 /\ forallb (cid_ok chan) (c0 :: l) = true /\ consecutive (c0 :: l) = true /\
  forallb (fun c => ch_rid c =? ch_rid c0) (c0 :: l) = true.
Proof.
  unfold spec_accept. rewrite cid_ok_forallb, !andb_true_iff, Z.ltb_lt. tauto.
Qed.

(* accept <=> the four conditions of the statement; the new high-water mark is the last number *)
Lemma receive_ok_iff last chan l x :
  Forall (fun c => ch_seq c <= U32MAX) l ->
  (receive last chan l = VOk x <-> spec_accept last chan l = true /\ x = last_seq l).
Proof.
  intros Hr. unfold receive. destruct l as [|c0 l].
  - cbn. destruct (U32MAX <=? last); split; try discriminate; intros [? _]; discriminate.
  - inversion Hr as [|? ? Hc0 _]; subst.
    rewrite spec_accept_cons. destruct (Z.leb_spec U32MAX last) as [Hm|Hm].
    + split; [discriminate | intros ((A & _) & _); lia].
    + rewrite validate_ok_iff. split.
      * intros ((A & B & C & D) & ->). rewrite last_seq_consecutive by exact C. split; [|reflexivity].
        repeat split; try assumption; lia.
      * intros ((A & B & C & D) & ->). rewrite last_seq_consecutive by exact C. split; [|reflexivity].
        repeat split; try assumption; lia.
Qed.

Lemma receive_err_code last chan l e : receive last chan l = VErr e -> e = 1 \/ e = 2 \/ e = 3.
Proof.
  unfold receive. destruct (U32MAX <=? last); [intros H; inversion H; auto|]. apply validate_err_code.
Qed.

Lemma receive_no_panic last chan c0 l : receive last chan (c0 :: l) <> VPanic.
Proof. unfold receive. destruct (U32MAX <=? last); [discriminate|]. apply validate_no_panic. Qed.

Lemma receive_ok_greater last chan l x : receive last chan l = VOk x -> last < x.
Proof.
  unfold receive. destruct (U32MAX <=? last); [discriminate|]. destruct l as [|c0 l]; [discriminate|].
  intros H. apply validate_ok_iff in H as ((A & _) & ->). lia.
Qed.

(* ================= the sender ================= *)
Lemma number_length last n rid cid : length (number last n rid cid) = Z.to_nat n.
Proof. unfold number. rewrite map_length, seq_length. reflexivity. Qed.

Lemma numbered_map next id cid (f : nat -> Z) l :
  (forall k, In k l -> True) ->
  forall start, l = seq start (length l) -> (forall k, f k = next - Z.of_nat start + Z.of_nat k) ->
  numbered next id (hdrs (map (fun i => mk_chunk (f i) id cid) l)) = true.
Proof.
  intros _. revert next. induction l as [|a l IH]; intros next start Hl Hf; [reflexivity|].
  cbn [length seq] in Hl. inversion Hl as [[Ha Hl']]. subst a.
  cbn [map hdrs numbered ch_seq ch_rid]. change (map (fun c => (ch_seq c, ch_rid c))) with hdrs.
  rewrite Hf, Z.eqb_refl. replace (next - Z.of_nat start + Z.of_nat start =? next) with true
    by (symmetry; apply Z.eqb_eq; lia). cbn [andb].
  rewrite <- Hl'. apply (IH (next + 1) (S start)); [exact Hl'|].
  intros k. rewrite Hf, Nat2Z.inj_succ. lia.
Qed.

Lemma numbered_number last n rid cid : numbered (last + 1) rid (hdrs (number last n rid cid)) = true.
Proof.
  unfold number. apply (numbered_map (last + 1) rid cid (fun i => last + 1 + Z.of_nat i) _ (fun _ _ => I) 0%nat).
  - rewrite seq_length. reflexivity.
  - intros k. cbn. lia.
Qed.

Lemma chunks_of_hdrs cid l : Forall (fun c => ch_cid c = cid) l -> chunks_of cid (hdrs l) = l.
Proof.
  induction 1 as [|[s r c] l Hc _ IH]; [reflexivity|]. cbn in Hc. subst c.
  unfold chunks_of, hdrs in *. cbn [map fst snd ch_seq ch_rid]. f_equal. exact IH.
Qed.

Lemma number_cid last n rid cid : Forall (fun c => ch_cid c = cid) (number last n rid cid).
Proof. unfold number. apply Forall_forall. intros c Hin. apply in_map_iff in Hin as (i & <- & _). reflexivity. Qed.

Lemma number_rid last n rid cid : Forall (fun c => ch_rid c = rid) (number last n rid cid).
Proof. unfold number. apply Forall_forall. intros c Hin. apply in_map_iff in Hin as (i & <- & _). reflexivity. Qed.

Lemma number_seq_bound last n rid cid :
  Forall (fun c => last < ch_seq c <= last + n) (number last n rid cid).
Proof.
  unfold number. apply Forall_forall. intros c Hin. apply in_map_iff in Hin as (i & <- & Hi).
  apply in_seq in Hi. cbn [ch_seq]. lia.
Qed.

Lemma hdrs_length l : length (hdrs l) = length l.
Proof. unfold hdrs. apply map_length. Qed.

Lemma write_cases last mx n rid cid :
  (write last mx n rid cid = (SPanic, last) /\ U32MAX < last + n) \/
  (write last mx n rid cid = (SErr, last) /\ last + n <= U32MAX) \/
  (write last mx n rid cid = (SOk (number last n rid cid), last + n) /\ last + n <= U32MAX).
Proof.
  unfold write. destruct (Z.ltb_spec U32MAX (last + n)); [left; auto|].
  destruct ((0 <? mx) && (mx <? n)); [right; left; auto | right; right; auto].
Qed.

Lemma ssize_range big : 1 <= ssize big <= 2.
Proof. unfold ssize. destruct (big =? 1); lia. Qed.

(* ================= decoding the run ================= *)
Lemma step_compat c s o : compat o (fst (step c s o)).
Proof.
  destruct o as [n|rid big|l]; cbn [step].
  - destruct (negb (cl_alive s)); [exact I|]. destruct (U32MAX <? cl_id s + 1); [exact I|].
    destruct (write_cases (cl_seq s) (c_maxchunks c) (Z.max 1 n) (cl_id s + 1) (c_schan c))
      as [[-> _]|[[-> _]|[-> _]]]; exact I.
  - destruct (negb (sv_alive s)); [exact I|].
    destruct (write_cases (sv_seq s) (c_maxchunks c) (ssize big) rid (c_schan c)) as [[-> _]|[[-> _]|[-> _]]]; exact I.
  - destruct (resolve (sent s) l) as [|c0 cs] eqn:E; [cbn; lia|].
    destruct (receive (r_last s) (c_rchan c) (c0 :: cs)) eqn:Er; cbn; try exact I; try lia.
    apply receive_err_code in Er. lia.
Qed.

Lemma step_panic c s o : snd (step c s o) = None <-> fst (step c s o) = OPanic.
Proof.
  destruct o as [n|rid big|l]; cbn [step].
  - destruct (negb (cl_alive s)); [cbn; split; discriminate|].
    destruct (U32MAX <? cl_id s + 1); [cbn; tauto|].
    destruct (write_cases (cl_seq s) (c_maxchunks c) (Z.max 1 n) (cl_id s + 1) (c_schan c))
      as [[-> _]|[[-> _]|[-> _]]]; cbn; split; try discriminate; tauto.
  - destruct (negb (sv_alive s)); [cbn; split; discriminate|].
    destruct (write_cases (sv_seq s) (c_maxchunks c) (ssize big) rid (c_schan c)) as [[-> _]|[[-> _]|[-> _]]];
      cbn; split; try discriminate; tauto.
  - destruct (resolve (sent s) l) as [|c0 cs] eqn:E; [cbn; split; discriminate|].
    destruct (receive (r_last s) (c_rchan c) (c0 :: cs)) eqn:Er; cbn; split; try discriminate; tauto.
Qed.

Lemma enc_cons ob os : enc (ob :: os) = enc1 ob ++ enc os.
Proof. reflexivity. Qed.

Lemma dec_run c : forall ops s, dec ops (enc (run_obs c s ops)) = Some (run_obs c s ops).
Proof.
  induction ops as [|o ops IH]; intros s; [reflexivity|].
  cbn [run_obs dec]. pose proof (step_compat c s o) as Hc. pose proof (step_panic c s o) as Hp.
  destruct (step c s o) as [ob [s'|]] eqn:E; cbn [fst snd] in *.
  - rewrite enc_cons, dec1_enc1 by exact Hc.
    destruct ob; try (rewrite IH; reflexivity).
    exfalso. destruct Hp as [_ Hp]. specialize (Hp eq_refl). discriminate.
  - destruct Hp as [Hp _]. rewrite (Hp eq_refl). reflexivity.
Qed.

(* ================= the oracle holds on the model ================= *)
Definition bounded (tbl : list (list chunk)) : Prop :=
  Forall (Forall (fun ch => ch_seq ch <= U32MAX)) tbl.

Lemma resolve_bounded tbl l : bounded tbl -> Forall valid_ref l ->
  Forall (fun ch => ch_seq ch <= U32MAX) (resolve tbl l).
Proof.
  intros Hb Hl. induction Hl as [|r l Hr _ IH]; cbn [resolve]; [constructor|].
  destruct r as [m k|sq rid cid].
  - destruct ((m <? 0) || (k <? 0)); [exact IH|].
    destruct (nth_error tbl (Z.to_nat m)) as [msg|] eqn:Em; [|exact IH].
    destruct (nth_error msg (Z.to_nat k)) as [ch|] eqn:Ek; [|exact IH].
    constructor; [|exact IH].
    apply nth_error_In in Em, Ek. unfold bounded in Hb. rewrite Forall_forall in Hb.
    specialize (Hb _ Em). rewrite Forall_forall in Hb. exact (Hb _ Ek).
  - constructor; [|exact IH]. cbn in Hr. destruct Hr as [[_ H] _]. exact H.
Qed.

Record Rel (c : case) (s : st) (g : led) : Prop := {
  r_c : g_cnext g = cl_seq s + 1;
  r_s : sv_alive s = true -> g_snext g = sv_seq s + 1;
  r_id : g_maxid g = cl_id s;
  r_tbl : g_tbl g = sent s;
  r_hw : g_hw g = r_last s;
  r_b : bounded (sent s) }.

Lemma bounded_snoc tbl m : bounded tbl -> Forall (fun ch => ch_seq ch <= U32MAX) m -> bounded (tbl ++ [m]).
Proof. intros A B. apply Forall_app. split; [exact A|]. constructor; [exact B|constructor]. Qed.

Lemma number_bounded last n rid cid : last + n <= U32MAX ->
  Forall (fun ch => ch_seq ch <= U32MAX) (number last n rid cid).
Proof.
  intros H. eapply Forall_impl; [|apply number_seq_bound]. cbn. intros a Ha. lia.
Qed.

Lemma number_nonempty last n rid cid : 1 <= n -> number last n rid cid <> [].
Proof.
  intros H E. apply (f_equal (@length _)) in E. rewrite number_length in E. cbn in E. lia.
Qed.

Lemma oracle_run c : forall ops s g, Rel c s g -> Forall valid_op ops ->
  oracle_from c g ops (run_obs c s ops) = true.
Proof.
  induction ops as [|o ops IH]; intros s g HR Hv; [reflexivity|].
  inversion Hv as [|? ? Ho Hv']; subst. destruct HR as [Rc Rs Rid Rtbl Rhw Rb].
  cbn [run_obs]. destruct o as [n|rid big|l]; cbn [step].
  - (* CSend *)
    destruct (cl_alive s) eqn:Ea; cbn [negb].
    2:{ cbn [oracle_from]. apply IH; [constructor; assumption|assumption]. }
    destruct (Z.ltb_spec U32MAX (cl_id s + 1)) as [Hid|Hid].
    { cbn [oracle_from]. rewrite Rid. replace (U32MAX <? cl_id s + 1) with true by (symmetry; apply Z.ltb_lt; lia).
      rewrite orb_true_r. reflexivity. }
    destruct (write_cases (cl_seq s) (c_maxchunks c) (Z.max 1 n) (cl_id s + 1) (c_schan c))
      as [[-> Hw]|[[-> Hw]|[-> Hw]]].
    + cbn [oracle_from]. rewrite Rc.
      replace (U32MAX <? cl_seq s + 1 + Z.max 1 n - 1) with true by (symmetry; apply Z.ltb_lt; lia).
      reflexivity.
    + cbn [oracle_from]. rewrite Rid.
      replace (cl_id s <? cl_id s + 1) with true by (symmetry; apply Z.ltb_lt; lia). cbn [andb].
      apply IH; [|assumption]. constructor; cbn; auto; try discriminate.
    + cbn [oracle_from]. rewrite Rid, Rc, hdrs_length, number_length.
      replace (cl_id s <? cl_id s + 1) with true by (symmetry; apply Z.ltb_lt; lia).
      rewrite numbered_number.
      assert (Hn : (0 < Z.to_nat (Z.max 1 n))%nat) by lia.
      destruct (Z.to_nat (Z.max 1 n) =? 0)%nat eqn:E0; [apply Nat.eqb_eq in E0; lia|].
      rewrite Z2Nat.id by lia.
      replace (cl_seq s + 1 + Z.max 1 n - 1 <=? U32MAX) with true by (symmetry; apply Z.leb_le; lia).
      cbn [negb andb]. apply IH; [|assumption].
      pose proof (number_nonempty (cl_seq s) (Z.max 1 n) (cl_id s + 1) (c_schan c) ltac:(lia)) as Hne.
      constructor; cbn [g_cnext g_snext g_maxid g_tbl g_hw upd_client cl_seq sv_seq sv_alive cl_id sent r_last]; auto; try lia.
      * rewrite chunks_of_hdrs by apply number_cid. rewrite Rtbl.
        destruct (number (cl_seq s) (Z.max 1 n) (cl_id s + 1) (c_schan c)); [contradiction|reflexivity].
      * destruct (number (cl_seq s) (Z.max 1 n) (cl_id s + 1) (c_schan c)) eqn:En; [contradiction|].
        rewrite <- En. apply bounded_snoc; [exact Rb|]. apply number_bounded. lia.
  - (* SSend *)
    destruct (sv_alive s) eqn:Ea; cbn [negb].
    2:{ cbn [oracle_from]. apply IH; [constructor; auto; rewrite Ea; discriminate|assumption]. }
    specialize (Rs eq_refl).
    destruct (write_cases (sv_seq s) (c_maxchunks c) (ssize big) rid (c_schan c)) as [[-> Hw]|[[-> Hw]|[-> Hw]]].
    + cbn [oracle_from]. rewrite Rs. pose proof (ssize_range big).
      replace (U32MAX <? sv_seq s + 1 + ssize big - 1) with true by (symmetry; apply Z.ltb_lt; lia). reflexivity.
    + cbn [oracle_from]. apply IH; [|assumption]. constructor; cbn; auto; try discriminate.
    + pose proof (ssize_range big) as Hsz.
      cbn [oracle_from]. rewrite Rs, hdrs_length, number_length, Z.eqb_refl, numbered_number.
      assert (Hn : (0 < Z.to_nat (ssize big))%nat) by lia.
      destruct (Z.to_nat (ssize big) =? 0)%nat eqn:E0; [apply Nat.eqb_eq in E0; lia|].
      rewrite Z2Nat.id by lia.
      replace (sv_seq s + 1 + ssize big - 1 <=? U32MAX) with true by (symmetry; apply Z.leb_le; lia).
      cbn [negb andb]. apply IH; [|assumption].
      pose proof (number_nonempty (sv_seq s) (ssize big) rid (c_schan c) ltac:(lia)) as Hne.
      constructor; cbn [g_cnext g_snext g_maxid g_tbl g_hw upd_server cl_seq sv_seq sv_alive cl_id sent r_last]; auto; try lia.
      * rewrite chunks_of_hdrs by apply number_cid. rewrite Rtbl.
        destruct (number (sv_seq s) (ssize big) rid (c_schan c)); [contradiction|reflexivity].
      * destruct (number (sv_seq s) (ssize big) rid (c_schan c)) eqn:En; [contradiction|].
        rewrite <- En. apply bounded_snoc; [exact Rb|]. apply number_bounded. lia.
  - (* Recv *)
    cbn in Ho. pose proof (resolve_bounded (sent s) l Rb Ho) as Hbd.
    destruct (resolve (sent s) l) as [|c0 cs] eqn:Er.
    { cbn [oracle_from]. rewrite Rtbl, Er. cbn. apply IH; [constructor; auto|assumption]. }
    destruct (receive (r_last s) (c_rchan c) (c0 :: cs)) as [x|e|] eqn:Ev.
    + pose proof Ev as Ev'. apply receive_ok_iff in Ev' as [Hsp ->]; [|exact Hbd].
      cbn [oracle_from]. rewrite Rtbl, Er. unfold recv_ok. rewrite Rhw, Hsp, !Z.eqb_refl. cbn [andb].
      apply IH; [|assumption]. constructor; cbn; auto.
    + assert (Hsp : spec_accept (r_last s) (c_rchan c) (c0 :: cs) = false).
      { destruct (spec_accept (r_last s) (c_rchan c) (c0 :: cs)) eqn:E; [|reflexivity].
        assert (receive (r_last s) (c_rchan c) (c0 :: cs) = VOk (last_seq (c0 :: cs)))
          by (apply receive_ok_iff; auto). congruence. }
      apply receive_err_code in Ev.
      cbn [oracle_from]. rewrite Rtbl, Er. unfold recv_ok. rewrite Rhw, Hsp, !Z.eqb_refl.
      replace (e =? 0) with false by (symmetry; apply Z.eqb_neq; lia). cbn [negb andb].
      apply IH; [|assumption]. constructor; cbn; auto.
    + exfalso. exact (receive_no_panic _ _ _ _ Ev).
Qed.

Lemma rel_init c : Rel c (init c) (led0 c).
Proof. constructor; cbn; auto. constructor. Qed.

Lemma oracle_holds c : valid c -> known c = 0 -> oracle c (run c) = true.
Proof.
  intros (_ & _ & _ & _ & _ & _ & _ & Hops) _. unfold oracle, run. rewrite dec_run.
  apply oracle_run; [apply rel_init|exact Hops].
Qed.

(* ================= invariants over arbitrary histories ================= *)
Fixpoint zseq (a : Z) (n : nat) : list Z :=
  match n with O => [] | S n' => a :: zseq (a + 1) n' end.

Lemma zseq_app a n m : zseq a (n + m) = zseq a n ++ zseq (a + Z.of_nat n) m.
Proof.
  revert a. induction n as [|n IH]; intros a.
  - cbn. f_equal. lia.
  - cbn [plus zseq app]. rewrite IH.
    replace (a + 1 + Z.of_nat n) with (a + Z.of_nat (S n)) by (rewrite Nat2Z.inj_succ; lia). reflexivity.
Qed.

Lemma zseq_bounds n : forall a y, In y (zseq a n) -> a <= y < a + Z.of_nat n.
Proof.
  induction n as [|n IH]; intros a y H; [destruct H|].
  rewrite Nat2Z.inj_succ. destruct H as [<-|H]; [lia|]. apply IH in H. lia.
Qed.

Lemma zseq_nth n : forall a j, (j < n)%nat -> nth j (zseq a n) 0 = a + Z.of_nat j.
Proof.
  induction n as [|n IH]; intros a j H; [lia|]. destruct j as [|j]; cbn [zseq nth]; [cbn; lia|].
  rewrite IH by lia. rewrite Nat2Z.inj_succ. lia.
Qed.

Lemma zseq_sorted n : forall a, StronglySorted Z.lt (zseq a n).
Proof.
  induction n as [|n IH]; intros a; [constructor|]. cbn [zseq]. constructor; [apply IH|].
  apply Forall_forall. intros y Hy. apply zseq_bounds in Hy. lia.
Qed.

Lemma zseq_length n : forall a, length (zseq a n) = n.
Proof. induction n as [|n IH]; intros a; cbn; [reflexivity|]. rewrite IH. reflexivity. Qed.

Lemma map_seq_zseq a k : forall s, map (fun i => a + Z.of_nat i) (seq s k) = zseq (a + Z.of_nat s) k.
Proof.
  induction k as [|k IH]; intros s; [reflexivity|]. cbn [seq map zseq]. f_equal.
  rewrite IH. f_equal. rewrite Nat2Z.inj_succ. lia.
Qed.

Lemma number_seqs last n rid cid : map ch_seq (number last n rid cid) = zseq (last + 1) (Z.to_nat n).
Proof.
  unfold number. rewrite map_map. cbn [ch_seq]. rewrite map_seq_zseq. f_equal. cbn. lia.
Qed.

Lemma consecutive_zseq l : forall c0, consecutive (c0 :: l) = true ->
  map ch_seq (c0 :: l) = zseq (ch_seq c0) (S (length l)).
Proof.
  induction l as [|b l IH]; intros c0 H; [reflexivity|].
  change (consecutive (c0 :: b :: l)) with ((ch_seq b =? ch_seq c0 + 1) && consecutive (b :: l)) in H.
  apply andb_true_iff in H as [H1 H2]. apply Z.eqb_eq in H1.
  change (map ch_seq (c0 :: b :: l)) with (ch_seq c0 :: map ch_seq (b :: l)).
  rewrite IH by exact H2. rewrite H1. reflexivity.
Qed.

Lemma StronglySorted_app (l1 l2 : list Z) :
  StronglySorted Z.lt l1 -> StronglySorted Z.lt l2 ->
  (forall x y, In x l1 -> In y l2 -> x < y) -> StronglySorted Z.lt (l1 ++ l2).
Proof.
  intros H1 H2 H. induction H1 as [|a l1 Hs IH Ha]; cbn [app]; [exact H2|].
  constructor.
  - apply IH. intros x y Hx Hy. apply H; [right; exact Hx|exact Hy].
  - apply Forall_app. split; [exact Ha|]. apply Forall_forall. intros y Hy. apply H; [left; reflexivity|exact Hy].
Qed.

Record Inv (c : case) (s : st) : Prop := {
  i_cseq : cl_seq s = c_cseq0 c + Z.of_nat (length (cl_emitted s));
  i_cnum : map ch_seq (cl_emitted s) = zseq (c_cseq0 c + 1) (length (cl_emitted s));
  i_cmax : cl_seq s <= U32MAX;
  i_sseq : sv_alive s = true -> sv_seq s = c_sseq0 c + Z.of_nat (length (sv_emitted s));
  i_snum : map ch_seq (sv_emitted s) = zseq (c_sseq0 c + 1) (length (sv_emitted s));
  i_smax : c_sseq0 c + Z.of_nat (length (sv_emitted s)) <= U32MAX;
  i_ids : StronglySorted Z.lt (cl_ids s);
  i_idr : Forall (fun i => c_id0 c < i <= cl_id s) (cl_ids s);
  i_id0 : c_id0 c <= cl_id s;
  i_idm : cl_id s <= U32MAX;
  i_sent : bounded (sent s);
  i_acc_sorted : StronglySorted Z.lt (map ch_seq (concat (accepted s)));
  i_acc_le : Forall (fun ch => c_last0 c < ch_seq ch <= r_last s) (concat (accepted s));
  i_acc_ne : Forall (fun m => m <> []) (accepted s);
  i_last : c_last0 c <= r_last s }.

Lemma inv_init c : valid c -> Inv c (init c).
Proof.
  intros (Hid & Hcs & Hss & _). unfold u32 in *.
  constructor; cbn; auto; try constructor; try lia.
Qed.

Lemma ids_snoc c s : Inv c s -> cl_id s + 1 <= U32MAX ->
  StronglySorted Z.lt (cl_ids s ++ [cl_id s + 1]) /\
  Forall (fun i => c_id0 c < i <= cl_id s + 1) (cl_ids s ++ [cl_id s + 1]).
Proof.
  intros I Hm. destruct I. split.
  - apply StronglySorted_app; [assumption|repeat constructor|].
    intros x y Hx [<-|[]]. rewrite Forall_forall in i_idr0. specialize (i_idr0 _ Hx). lia.
  - apply Forall_app. split.
    + eapply Forall_impl; [|exact i_idr0]. cbn. intros a Ha. lia.
    + constructor; [lia|constructor].
Qed.

Lemma emitted_snoc a0 (em msg : list chunk) last n rid cid :
  msg = number last n rid cid -> 0 <= n ->
  last = a0 + Z.of_nat (length em) ->
  map ch_seq em = zseq (a0 + 1) (length em) ->
  map ch_seq (em ++ msg) = zseq (a0 + 1) (length (em ++ msg)) /\
  last + n = a0 + Z.of_nat (length (em ++ msg)).
Proof.
  intros -> Hn Hl He. rewrite map_app, app_length, zseq_app, He, number_seqs, number_length.
  split; [do 2 f_equal; lia|]. rewrite Nat2Z.inj_add, Z2Nat.id by lia. lia.
Qed.

Lemma step_inv c s o s' : Inv c s -> Forall valid_ref (match o with Recv l => l | _ => [] end) ->
  snd (step c s o) = Some s' -> Inv c s'.
Proof.
  intros I Hv. destruct o as [n|rid big|l]; cbn [step].
  - destruct (negb (cl_alive s)); [cbn; intros H; inversion H; subst; exact I|].
    destruct (Z.ltb_spec U32MAX (cl_id s + 1)) as [Hid|Hid]; [discriminate|].
    pose proof (ids_snoc c s I Hid) as [Hs1 Hs2].
    destruct (write_cases (cl_seq s) (c_maxchunks c) (Z.max 1 n) (cl_id s + 1) (c_schan c))
      as [[-> Hw]|[[-> Hw]|[-> Hw]]]; cbn [snd]; intros H; inversion H; subst; clear H.
    + destruct I. constructor; cbn [upd_client cl_seq cl_emitted cl_id cl_ids sv_alive sv_seq sv_emitted sent r_last accepted];
        rewrite ?app_nil_r; auto; try lia.
    + destruct (emitted_snoc (c_cseq0 c) (cl_emitted s) _ (cl_seq s) (Z.max 1 n) (cl_id s + 1) (c_schan c)
                  eq_refl ltac:(lia) (i_cseq _ _ I) (i_cnum _ _ I)) as [E1 E2].
      pose proof (number_nonempty (cl_seq s) (Z.max 1 n) (cl_id s + 1) (c_schan c) ltac:(lia)) as Hne.
      destruct I. constructor; cbn [upd_client cl_seq cl_emitted cl_id cl_ids sv_alive sv_seq sv_emitted sent r_last accepted];
        auto; try lia.
      destruct (number (cl_seq s) (Z.max 1 n) (cl_id s + 1) (c_schan c)) eqn:En; [contradiction|].
      rewrite <- En. apply bounded_snoc; [assumption|]. apply number_bounded. lia.
  - destruct (sv_alive s) eqn:Ea; cbn [negb]; [|cbn; intros H; inversion H; subst; exact I].
    destruct (write_cases (sv_seq s) (c_maxchunks c) (ssize big) rid (c_schan c)) as [[-> Hw]|[[-> Hw]|[-> Hw]]];
      cbn [snd]; [discriminate| |].
    + intros H; inversion H; subst; clear H.
      destruct I. constructor; cbn [upd_server cl_seq cl_emitted cl_id cl_ids sv_alive sv_seq sv_emitted sent r_last accepted];
        rewrite ?app_nil_r; auto; try lia; discriminate.
    + pose proof (ssize_range big) as Hsz. cbn [snd]; intros H; inversion H; subst; clear H.
      destruct (emitted_snoc (c_sseq0 c) (sv_emitted s) _ (sv_seq s) (ssize big) rid (c_schan c)
                  eq_refl ltac:(lia) (i_sseq _ _ I Ea) (i_snum _ _ I)) as [E1 E2].
      pose proof (number_nonempty (sv_seq s) (ssize big) rid (c_schan c) ltac:(pose proof (ssize_range big); lia)) as Hne.
      destruct I. constructor; cbn [upd_server cl_seq cl_emitted cl_id cl_ids sv_alive sv_seq sv_emitted sent r_last accepted];
        auto; try lia.
      destruct (number (sv_seq s) (ssize big) rid (c_schan c)) eqn:En; [contradiction|].
      rewrite <- En. apply bounded_snoc; [assumption|]. apply number_bounded. lia.
  - pose proof (resolve_bounded (sent s) l (i_sent _ _ I) Hv) as Hbd.
    destruct (resolve (sent s) l) as [|c0 cs] eqn:Er; [cbn; intros H; inversion H; subst; exact I|].
    destruct (receive (r_last s) (c_rchan c) (c0 :: cs)) as [x|e|] eqn:Ev; cbn [snd];
      [|intros H; inversion H; subst; exact I|discriminate].
    intros H; inversion H; subst; clear H.
    apply receive_ok_iff in Ev as [Hsp ->]; [|exact Hbd].
    apply spec_accept_cons in Hsp as (Hgt & _ & Hcons & _).
    pose proof (consecutive_zseq cs c0 Hcons) as Hz.
    pose proof (last_seq_consecutive c0 cs Hcons) as Hls.
    destruct I. constructor; cbn [upd_recv cl_seq cl_emitted cl_id cl_ids sv_alive sv_seq sv_emitted sent r_last accepted];
      auto; try lia.
    + rewrite concat_app, map_app. cbn [concat]. rewrite app_nil_r, Hz.
      apply StronglySorted_app; [assumption|apply zseq_sorted|].
      intros a b Ha Hb. apply zseq_bounds in Hb. apply in_map_iff in Ha as (ch & <- & Hch).
      rewrite Forall_forall in i_acc_le0. specialize (i_acc_le0 _ Hch). lia.
    + rewrite concat_app. cbn [concat]. rewrite app_nil_r. apply Forall_app. split.
      * eapply Forall_impl; [|exact i_acc_le0]. cbn. intros a Ha. lia.
      * apply Forall_forall. intros ch Hch.
        assert (Hin : In (ch_seq ch) (map ch_seq (c0 :: cs))) by (apply in_map; exact Hch).
        rewrite Hz in Hin. apply zseq_bounds in Hin. rewrite Nat2Z.inj_succ in Hin. lia.
    + apply Forall_app. split; [assumption|]. constructor; [discriminate|constructor].
Qed.

Lemma exec_inv c : forall ops s s', Inv c s -> Forall valid_op ops -> exec c s ops = Some s' -> Inv c s'.
Proof.
  induction ops as [|o ops IH]; intros s s' I Hv H.
  - cbn in H. inversion H; subst. exact I.
  - inversion Hv as [|? ? Ho Hv']; subst. cbn [exec] in H.
    destruct (snd (step c s o)) as [s1|] eqn:E; [|discriminate].
    apply (IH s1 s'); [|exact Hv'|exact H].
    eapply step_inv; [exact I| |exact E]. destruct o; try constructor. exact Ho.
Qed.

Lemma reach_inv c ops s : valid c -> exec c (init c) ops = Some s ->
  Forall valid_op ops -> Inv c s.
Proof. intros Hv He Ho. eapply exec_inv; [apply inv_init; exact Hv|exact Ho|exact He]. Qed.

(* ================= the statements ================= *)
Definition ch0 := mk_chunk 0 0 0.

(* sender: the j-th chunk a sender emits over the whole history carries start + 1 + j *)
Lemma client_nth c ops s j : valid c -> Forall valid_op ops -> exec c (init c) ops = Some s ->
  (j < length (cl_emitted s))%nat ->
  ch_seq (nth j (cl_emitted s) ch0) = c_cseq0 c + 1 + Z.of_nat j /\ ch_seq (nth j (cl_emitted s) ch0) <= U32MAX.
Proof.
  intros Hv Ho He Hj. pose proof (reach_inv c ops s Hv He Ho) as I.
  change (ch_seq (nth j (cl_emitted s) ch0)) with (ch_seq (nth j (cl_emitted s) ch0)).
  rewrite <- (map_nth ch_seq). change (ch_seq ch0) with 0. rewrite (i_cnum _ _ I), zseq_nth by exact Hj.
  split; [reflexivity|]. pose proof (i_cseq _ _ I). pose proof (i_cmax _ _ I). lia.
Qed.

Lemma server_nth c ops s j : valid c -> Forall valid_op ops -> exec c (init c) ops = Some s ->
  (j < length (sv_emitted s))%nat ->
  ch_seq (nth j (sv_emitted s) ch0) = c_sseq0 c + 1 + Z.of_nat j /\ ch_seq (nth j (sv_emitted s) ch0) <= U32MAX.
Proof.
  intros Hv Ho He Hj. pose proof (reach_inv c ops s Hv He Ho) as I.
  rewrite <- (map_nth ch_seq). change (ch_seq ch0) with 0. rewrite (i_snum _ _ I), zseq_nth by exact Hj.
  split; [reflexivity|]. pose proof (i_smax _ _ I). lia.
Qed.

Lemma sorted_nodup (l : list Z) : StronglySorted Z.lt l -> NoDup l.
Proof.
  induction 1 as [|a l Hs IH Ha]; constructor; [|exact IH].
  intros Hin. rewrite Forall_forall in Ha. specialize (Ha _ Hin). lia.
Qed.

Lemma request_ids_increase c ops s : valid c -> Forall valid_op ops -> exec c (init c) ops = Some s ->
  StronglySorted Z.lt (cl_ids s) /\ NoDup (cl_ids s).
Proof.
  intros Hv Ho He. pose proof (reach_inv c ops s Hv He Ho) as I. split; [apply I|apply sorted_nodup, I].
Qed.

(* every chunk of a message carries the request id assigned to the message, the next one *)
Lemma one_id_per_message c s n id l s' : step c s (CSend n) = (OSent id l, Some s') ->
  id = cl_id s + 1 /\ Forall (fun p => snd p = id) l /\ cl_ids s' = cl_ids s ++ [id].
Proof.
  cbn [step]. destruct (negb (cl_alive s)); [discriminate|]. destruct (U32MAX <? cl_id s + 1); [discriminate|].
  destruct (write_cases (cl_seq s) (c_maxchunks c) (Z.max 1 n) (cl_id s + 1) (c_schan c))
    as [[-> _]|[[-> _]|[-> _]]]; try discriminate.
  intros H. inversion H; subst. split; [reflexivity|]. split; [|reflexivity].
  unfold hdrs. apply Forall_forall. intros p Hp. apply in_map_iff in Hp as (ch & <- & Hch).
  pose proof (number_rid (cl_seq s) (Z.max 1 n) (cl_id s + 1) (c_schan c)) as Hr.
  rewrite Forall_forall in Hr. exact (Hr _ Hch).
Qed.

(* the wrap, explicitly: a sender that has run out of numbers stops with a panic (debug build) *)
Lemma client_wrap c s n : cl_alive s = true -> (U32MAX < cl_id s + 1 \/ U32MAX < cl_seq s + Z.max 1 n) ->
  step c s (CSend n) = (OPanic, None).
Proof.
  intros Ha H. cbn [step]. rewrite Ha. cbn [negb].
  destruct (Z.ltb_spec U32MAX (cl_id s + 1)) as [|Hid]; [reflexivity|].
  destruct H as [H|H]; [lia|].
  destruct (write_cases (cl_seq s) (c_maxchunks c) (Z.max 1 n) (cl_id s + 1) (c_schan c))
    as [[-> _]|[[_ Hw]|[_ Hw]]]; [reflexivity|lia|lia].
Qed.

Lemma server_wrap c s rid big : sv_alive s = true -> U32MAX < sv_seq s + 1 ->
  step c s (SSend rid big) = (OPanic, None).
Proof.
  intros Ha H. cbn [step]. rewrite Ha. cbn [negb].
  pose proof (ssize_range big).
  destruct (write_cases (sv_seq s) (c_maxchunks c) (ssize big) rid (c_schan c)) as [[-> _]|[[_ Hw]|[_ Hw]]];
    [reflexivity|lia|lia].
Qed.

(* ... and under the hypothesis "fewer than 2^32 chunks and requests" nothing panics *)
Fixpoint demand (ops : list op) : Z * Z * Z :=      (* client chunks, client requests, server chunks *)
  match ops with
  | [] => (0, 0, 0)
  | CSend n :: ops' => let '(a, b, d) := demand ops' in (a + Z.max 1 n, b + 1, d)
  | SSend _ big :: ops' => let '(a, b, d) := demand ops' in (a, b, d + ssize big)
  | Recv _ :: ops' => demand ops'
  end.

Lemma demand_nonneg ops : let '(a, b, d) := demand ops in 0 <= a /\ 0 <= b /\ 0 <= d.
Proof.
  induction ops as [|o ops IH]; cbn [demand]; [lia|].
  destruct o as [n|rid big|l]; destruct (demand ops) as [[a b] d]; try pose proof (ssize_range big); lia.
Qed.

Lemma no_panic_from c : forall ops s,
  (let '(a, b, d) := demand ops in
   cl_seq s + a <= U32MAX /\ cl_id s + b <= U32MAX /\ sv_seq s + d <= U32MAX) ->
  exec c s ops <> None.
Proof.
  induction ops as [|o ops IH]; intros s H; [discriminate|].
  pose proof (demand_nonneg ops) as Hnn.
  cbn [exec demand] in *. destruct o as [n|rid big|l]; destruct (demand ops) as [[a b] d] eqn:Ed; cbn [step].
  - destruct (negb (cl_alive s)); [cbn [snd]; apply IH; lia|].
    destruct (Z.ltb_spec U32MAX (cl_id s + 1)); [lia|].
    destruct (write_cases (cl_seq s) (c_maxchunks c) (Z.max 1 n) (cl_id s + 1) (c_schan c))
      as [[-> Hw]|[[-> Hw]|[-> Hw]]]; cbn [snd]; [lia| |]; apply IH; cbn; lia.
  - pose proof (ssize_range big) as Hsz.
    destruct (negb (sv_alive s)); [cbn [snd]; apply IH; lia|].
    destruct (write_cases (sv_seq s) (c_maxchunks c) (ssize big) rid (c_schan c)) as [[-> Hw]|[[-> Hw]|[-> Hw]]];
      cbn [snd]; [lia| |]; apply IH; cbn; lia.
  - destruct (resolve (sent s) l) as [|c0 cs]; [cbn [snd]; apply IH; lia|].
    destruct (receive (r_last s) (c_rchan c) (c0 :: cs)) eqn:Ev; cbn [snd].
    + apply IH. cbn. lia.
    + apply IH. lia.
    + exfalso. exact (receive_no_panic _ _ _ _ Ev).
Qed.

Lemma no_panic_in_range c :
  (let '(a, b, d) := demand (c_ops c) in
   c_cseq0 c + a <= U32MAX /\ c_id0 c + b <= U32MAX /\ c_sseq0 c + d <= U32MAX) ->
  exists s, exec c (init c) (c_ops c) = Some s.
Proof.
  intros H. destruct (exec c (init c) (c_ops c)) as [s|] eqn:E; [eauto|].
  exfalso. revert E. apply no_panic_from. exact H.
Qed.

(* receiver: the high-water mark never decreases *)
Lemma step_last_mono c s o s' : snd (step c s o) = Some s' -> r_last s <= r_last s'.
Proof.
  destruct o as [n|rid big|l]; cbn [step].
  - destruct (negb (cl_alive s)); [cbn; intros H; inversion H; lia|].
    destruct (U32MAX <? cl_id s + 1); [discriminate|].
    destruct (write_cases (cl_seq s) (c_maxchunks c) (Z.max 1 n) (cl_id s + 1) (c_schan c))
      as [[-> _]|[[-> _]|[-> _]]]; cbn; intros H; inversion H; cbn; lia.
  - destruct (negb (sv_alive s)); [cbn; intros H; inversion H; lia|].
    destruct (write_cases (sv_seq s) (c_maxchunks c) (ssize big) rid (c_schan c)) as [[-> _]|[[-> _]|[-> _]]];
      cbn; intros H; inversion H; cbn; lia.
  - destruct (resolve (sent s) l) as [|c0 cs]; [cbn; intros H; inversion H; lia|].
    destruct (receive (r_last s) (c_rchan c) (c0 :: cs)) eqn:Ev; cbn; intros H; inversion H; subst; cbn; try lia.
    apply receive_ok_greater in Ev. lia.
Qed.

Lemma high_water_monotone c : forall ops s s', exec c s ops = Some s' -> r_last s <= r_last s'.
Proof.
  induction ops as [|o ops IH]; intros s s' H; cbn [exec] in H; [inversion H; lia|].
  destruct (snd (step c s o)) as [s1|] eqn:E; [|discriminate].
  apply step_last_mono in E. apply IH in H. lia.
Qed.

(* a message is accepted only if all its numbers exceed every number accepted before *)
Lemma accept_only_greater c ops s l x : valid c -> Forall valid_op ops -> exec c (init c) ops = Some s ->
  Forall (fun ch => ch_seq ch <= U32MAX) l ->
  receive (r_last s) (c_rchan c) l = VOk x ->
  forall m old new, In m (accepted s) -> In old m -> In new l -> ch_seq old < ch_seq new.
Proof.
  intros Hv Ho He Hb Hr m old new Hm Hold Hnew. pose proof (reach_inv c ops s Hv He Ho) as I.
  apply receive_ok_iff in Hr as [Hsp _]; [|exact Hb].
  destruct l as [|c0 cs]; [destruct Hnew|]. apply spec_accept_cons in Hsp as (Hgt & _ & Hcons & _).
  assert (Hin : In old (concat (accepted s))) by (apply in_concat; eauto).
  pose proof (i_acc_le _ _ I) as Hle. rewrite Forall_forall in Hle. specialize (Hle _ Hin).
  assert (Hn : In (ch_seq new) (map ch_seq (c0 :: cs))) by (apply in_map; exact Hnew).
  rewrite (consecutive_zseq cs c0 Hcons) in Hn. apply zseq_bounds in Hn. lia.
Qed.

(* a previously accepted message, presented again at any later point of any history and to a
   receiver with any channel id, is rejected *)
Lemma replay_rejected c ops s m chan : valid c -> Forall valid_op ops -> exec c (init c) ops = Some s ->
  In m (accepted s) -> receive (r_last s) chan m = VErr 1.
Proof.
  intros Hv Ho He Hm. pose proof (reach_inv c ops s Hv He Ho) as I.
  pose proof (i_acc_ne _ _ I) as Hne. rewrite Forall_forall in Hne. specialize (Hne _ Hm).
  destruct m as [|c0 cs]; [contradiction|].
  assert (Hin : In c0 (concat (accepted s))) by (apply in_concat; exists (c0 :: cs); split; [exact Hm|left; reflexivity]).
  pose proof (i_acc_le _ _ I) as Hle. rewrite Forall_forall in Hle. specialize (Hle _ Hin).
  unfold receive. destruct (U32MAX <=? r_last s); [reflexivity|].
  unfold validate. replace (ch_seq c0 <? r_last s + 1) with true by (symmetry; apply Z.ltb_lt; lia). reflexivity.
Qed.

(* the numbers of all accepted messages, in the order of acceptance, strictly increase *)
Lemma accepted_increasing c ops s : valid c -> Forall valid_op ops -> exec c (init c) ops = Some s ->
  StronglySorted Z.lt (map ch_seq (concat (accepted s))).
Proof. intros Hv Ho He. apply (reach_inv c ops s Hv He Ho). Qed.

(* ================= the pinned code before the fix ================= *)
Lemma legacy_refuted :
  (* a chunk numbered u32::MAX that the statement accepts: panic *)
  (spec_accept 10 7 [mk_chunk U32MAX 5 7] = true /\ Legacy.receive 10 7 [mk_chunk U32MAX 5 7] = VPanic) /\
  (* a message that would have to wrap: panic instead of a rejection *)
  Legacy.receive 10 7 [mk_chunk U32MAX 5 7; mk_chunk 0 5 7] = VPanic /\
  (* high-water mark u32::MAX: the replay of the accepted message panics instead of being rejected *)
  Legacy.receive U32MAX 7 [mk_chunk U32MAX 5 7] = VPanic.
Proof. vm_compute. repeat split; reflexivity. Qed.

(* ================= what the senders emit is accepted when delivered in order ================= *)
Lemma number_cons last n rid cid : 1 <= n ->
  number last n rid cid = mk_chunk (last + 1) rid cid :: number (last + 1) (n - 1) rid cid.
Proof.
  intros Hn. unfold number. replace (Z.to_nat n) with (S (Z.to_nat (n - 1))) by lia.
  cbn [seq map]. f_equal; [f_equal; cbn; lia|].
  rewrite <- seq_shift, map_map. apply map_ext. intros i. f_equal. rewrite Nat2Z.inj_succ. lia.
Qed.

Lemma number_nil last n rid cid : n <= 0 -> number last n rid cid = [].
Proof. intros Hn. unfold number. replace (Z.to_nat n) with 0%nat by lia. reflexivity. Qed.

Lemma number_seqs_from k : forall last n rid cid, Z.to_nat n = k ->
  seqs_from (last + 1) (number last n rid cid) = true.
Proof.
  induction k as [|k IH]; intros last n rid cid Hk.
  - rewrite number_nil by lia. reflexivity.
  - rewrite number_cons by lia. cbn [seqs_from ch_seq]. rewrite Z.eqb_refl. cbn [andb]. apply IH. lia.
Qed.

Lemma number_props last n rid cid : 1 <= n ->
  consecutive (number last n rid cid) = true /\
  forallb (fun c => ch_rid c =? rid) (number last n rid cid) = true /\
  forallb (fun c => ch_cid c =? cid) (number last n rid cid) = true.
Proof.
  intros Hn. split; [|split].
  - rewrite number_cons by exact Hn. rewrite consecutive_cons. cbn [ch_seq].
    apply (number_seqs_from (Z.to_nat (n - 1))). reflexivity.
  - apply forallb_forall. intros c Hc. pose proof (number_rid last n rid cid) as H. rewrite Forall_forall in H.
    rewrite (H _ Hc). apply Z.eqb_refl.
  - apply forallb_forall. intros c Hc. pose proof (number_cid last n rid cid) as H. rewrite Forall_forall in H.
    rewrite (H _ Hc). apply Z.eqb_refl.
Qed.

Lemma number_accepted hw chan last n rid cid : 1 <= n -> hw <= last -> (chan = 0 \/ chan = cid) ->
  spec_accept hw chan (number last n rid cid) = true.
Proof.
  intros Hn Hh Hc. destruct (number_props last n rid cid Hn) as (A & B & C).
  pose proof (number_cons last n rid cid Hn) as E.
  destruct (number last n rid cid) as [|c0 l] eqn:En; [discriminate|]. injection E as E0 E1. clear En.
  unfold spec_accept. rewrite A. subst c0. cbn [ch_seq ch_rid] in *. rewrite B.
  replace (hw <? last + 1) with true by (symmetry; apply Z.ltb_lt; lia). cbn [andb].
  destruct Hc as [->| ->]; [reflexivity|]. rewrite C. apply orb_true_r.
Qed.

Definition well_sent (c : case) (m : list chunk) : Prop :=
  exists last n rid, m = number last n rid (c_schan c) /\ 1 <= n /\ last + n <= U32MAX.

Lemma step_well_sent c s o s' : Forall (well_sent c) (sent s) -> snd (step c s o) = Some s' ->
  Forall (well_sent c) (sent s').
Proof.
  intros H. destruct o as [n|rid big|l]; cbn [step].
  - destruct (negb (cl_alive s)); [cbn; intros E; inversion E; subst; exact H|].
    destruct (U32MAX <? cl_id s + 1); [discriminate|].
    destruct (write_cases (cl_seq s) (c_maxchunks c) (Z.max 1 n) (cl_id s + 1) (c_schan c))
      as [[-> Hw]|[[-> Hw]|[-> Hw]]]; cbn [snd]; intros E; inversion E; subst; clear E; cbn [upd_client sent]; [exact H|].
    pose proof (number_nonempty (cl_seq s) (Z.max 1 n) (cl_id s + 1) (c_schan c) ltac:(lia)) as Hne.
    destruct (number (cl_seq s) (Z.max 1 n) (cl_id s + 1) (c_schan c)) eqn:En; [contradiction|]. rewrite <- En.
    apply Forall_app. split; [exact H|]. constructor; [|constructor].
    exists (cl_seq s), (Z.max 1 n), (cl_id s + 1). repeat split; [lia|exact Hw].
  - destruct (negb (sv_alive s)); [cbn; intros E; inversion E; subst; exact H|].
    destruct (write_cases (sv_seq s) (c_maxchunks c) (ssize big) rid (c_schan c)) as [[-> Hw]|[[-> Hw]|[-> Hw]]];
      cbn [snd]; [discriminate|intros E; inversion E; subst; exact H|].
    pose proof (ssize_range big) as Hsz.
    cbn [snd]; intros E; inversion E; subst; clear E; cbn [upd_server sent].
    pose proof (number_nonempty (sv_seq s) (ssize big) rid (c_schan c) ltac:(pose proof (ssize_range big); lia)) as Hne.
    destruct (number (sv_seq s) (ssize big) rid (c_schan c)) eqn:En; [contradiction|]. rewrite <- En.
    apply Forall_app. split; [exact H|]. constructor; [|constructor].
    exists (sv_seq s), (ssize big), rid. repeat split; [lia|exact Hw].
  - destruct (resolve (sent s) l) as [|c0 cs]; [cbn; intros E; inversion E; subst; exact H|].
    destruct (receive (r_last s) (c_rchan c) (c0 :: cs)); cbn [snd]; intros E; inversion E; subst; exact H.
Qed.

Lemma exec_well_sent c : forall ops s s', Forall (well_sent c) (sent s) -> exec c s ops = Some s' ->
  Forall (well_sent c) (sent s').
Proof.
  induction ops as [|o ops IH]; intros s s' H E; cbn [exec] in E; [inversion E; subst; exact H|].
  destruct (snd (step c s o)) as [s1|] eqn:E1; [|discriminate].
  eapply IH; [|exact E]. eapply step_well_sent; [exact H|exact E1].
Qed.

(* a message that a sender put on the wire, presented whole and in order to a receiver on the same
   channel (or one without an id yet) whose high-water mark is below the message, is accepted *)
Lemma in_order_accepted c ops s m : exec c (init c) ops = Some s -> In m (sent s) ->
  r_last s < ch_seq (hd ch0 m) -> (c_rchan c = 0 \/ c_rchan c = c_schan c) ->
  receive (r_last s) (c_rchan c) m = VOk (last_seq m).
Proof.
  intros He Hin Hlt Hch.
  assert (Hw : Forall (well_sent c) (sent s)) by (eapply exec_well_sent; [|exact He]; constructor).
  rewrite Forall_forall in Hw. destruct (Hw _ Hin) as (last & n & rid & -> & Hn & Hmax).
  apply receive_ok_iff.
  - apply number_bounded. exact Hmax.
  - split; [|reflexivity]. rewrite number_cons in Hlt by exact Hn. cbn in Hlt.
    apply number_accepted; [exact Hn|lia|exact Hch].
Qed.
