(* C42 — text primitives the hand-written impls call: decimal integers (i64/u64 `to_string` /
   `parse`), hyphenated GUID text (uuid `Display` / `Uuid::from_str`), standard base64 with
   canonical padding (base64 `STANDARD`), RFC 3339 time stamps in the fixed millisecond form
   (chrono `to_rfc3339_opts(Millis, true)` / `parse_from_rfc3339`).

   Strings are lists of Unicode scalar values (Z); byte strings lists of bytes (Z).
   No proofs here. *)
From Coq Require Import List ZArith Bool String Ascii.
Import ListNotations.
Open Scope Z_scope.

Definition str := list Z.

Definition zs (s : string) : str := map (fun a => Z.of_N (N_of_ascii a)) (list_ascii_of_string s).

Fixpoint str_eqb (a b : str) : bool :=
  match a, b with
  | [], [] => true
  | x :: a', y :: b' => (x =? y) && str_eqb a' b'
  | _, _ => false
  end.

Definition zlen {A} (l : list A) : Z := Z.of_nat (List.length l).

(* ---- decimal ------------------------------------------------------------------------------ *)
Definition is_digit (c : Z) : bool := (48 <=? c) && (c <=? 57).

(* digits of n (0 <= n < 10^fuel), most significant first *)
Fixpoint digits_aux (fuel : nat) (n : Z) (acc : str) : str :=
  match fuel with
  | O => acc
  | S f => if n <? 10 then (48 + n) :: acc else digits_aux f (n / 10) ((48 + n mod 10) :: acc)
  end.
Definition digits (n : Z) : str := digits_aux 20 n [].

(* {integer}::to_string *)
Definition show_int (z : Z) : str := if z <? 0 then 45 :: digits (- z) else digits z.

Fixpoint parse_digits_aux (s : str) (acc : Z) : option Z :=
  match s with
  | [] => Some acc
  | c :: s' => if is_digit c then parse_digits_aux s' (acc * 10 + (c - 48)) else None
  end.
Definition parse_digits (s : str) : option Z :=
  match s with [] => None | _ => parse_digits_aux s 0 end.

(* <i64|u64 as FromStr>::from_str : optional '+' (both) or '-' (signed only), at least one digit,
   no other characters, overflow is an error *)
Definition parse_int (signed : bool) (lo hi : Z) (s : str) : option Z :=
  let r := match s with
           | c :: s' =>
               if c =? 43 then parse_digits s'
               else if c =? 45 then (if signed then option_map Z.opp (parse_digits s') else None)
               else parse_digits s
           | [] => None
           end in
  match r with
  | Some z => if (lo <=? z) && (z <=? hi) then Some z else None
  | None => None
  end.

(* ---- hex / GUID ----------------------------------------------------------------------------- *)
Definition hex_char (v : Z) : Z := if v <? 10 then 48 + v else 87 + v.       (* lower case *)
Definition hex_val (c : Z) : option Z :=
  if is_digit c then Some (c - 48)
  else if (97 <=? c) && (c <=? 102) then Some (c - 87)
  else if (65 <=? c) && (c <=? 70) then Some (c - 55)
  else None.

Definition hex_byte (b : Z) : str := [hex_char (b / 16); hex_char (b mod 16)].
Definition hex_bytes (bs : list Z) : str := flat_map hex_byte bs.

(* pairs of hex digits -> bytes; None on an odd length or a non-hex character *)
Fixpoint unhex (s : str) : option (list Z) :=
  match s with
  | [] => Some []
  | a :: b :: s' =>
      match hex_val a, hex_val b, unhex s' with
      | Some x, Some y, Some r => Some (x * 16 + y :: r)
      | _, _, _ => None
      end
  | _ => None
  end.

(* Uuid as Display: 8-4-4-4-12 lower-case hex of the 16 bytes *)
Definition guid_text (g : list Z) : str :=
  hex_bytes (firstn 4 g) ++ 45 :: hex_bytes (firstn 2 (skipn 4 g)) ++ 45 ::
  hex_bytes (firstn 2 (skipn 6 g)) ++ 45 :: hex_bytes (firstn 2 (skipn 8 g)) ++ 45 ::
  hex_bytes (skipn 10 g).

Definition parse_hyphenated (s : str) : option (list Z) :=
  if negb (zlen s =? 36) then None
  else if (nth 8 s 0 =? 45) && (nth 13 s 0 =? 45) && (nth 18 s 0 =? 45) && (nth 23 s 0 =? 45) then
    unhex (firstn 8 s ++ firstn 4 (skipn 9 s) ++ firstn 4 (skipn 14 s) ++ firstn 4 (skipn 19 s)
           ++ skipn 24 s)
  else None.

Definition urn_prefix : str := zs "urn:uuid:".

(* uuid 1.x parser: 32 = simple, 36 = hyphenated, 38 = {hyphenated}, 45 = urn:uuid:hyphenated *)
Definition parse_guid (s : str) : option (list Z) :=
  let n := zlen s in
  if n =? 32 then unhex s
  else if n =? 36 then parse_hyphenated s
  else if n =? 38 then
    if (nth 0 s 0 =? 123) && (nth 37 s 0 =? 125) then parse_hyphenated (firstn 36 (skipn 1 s)) else None
  else if n =? 45 then
    if str_eqb (firstn 9 s) urn_prefix then parse_hyphenated (skipn 9 s) else None
  else None.

(* ---- base64 (standard alphabet, padding required and canonical, no trailing bits) ---------- *)
Definition b64_char (v : Z) : Z :=
  if v <? 26 then 65 + v else if v <? 52 then 71 + v else if v <? 62 then v - 4
  else if v =? 62 then 43 else 47.
Definition b64_val (c : Z) : option Z :=
  if (65 <=? c) && (c <=? 90) then Some (c - 65)
  else if (97 <=? c) && (c <=? 122) then Some (c - 71)
  else if is_digit c then Some (c + 4)
  else if c =? 43 then Some 62
  else if c =? 47 then Some 63
  else None.

Fixpoint b64_encode (bs : list Z) : str :=
  match bs with
  | [] => []
  | [a] => [b64_char (a / 4); b64_char ((a mod 4) * 16); 61; 61]
  | [a; b] => [b64_char (a / 4); b64_char ((a mod 4) * 16 + b / 16); b64_char ((b mod 16) * 4); 61]
  | a :: b :: c :: r =>
      b64_char (a / 4) :: b64_char ((a mod 4) * 16 + b / 16) ::
      b64_char ((b mod 16) * 4 + c / 64) :: b64_char (c mod 64) :: b64_encode r
  end.

Definition b64_quad (w x y z : Z) : option (list Z) :=
  match b64_val w, b64_val x, b64_val y, b64_val z with
  | Some p, Some q, Some r, Some t => Some [p * 4 + q / 16; (q mod 16) * 16 + r / 4; (r mod 4) * 64 + t]
  | _, _, _, _ => None
  end.
(* the last group may end in one or two '=' *)
Definition b64_last (w x y z : Z) : option (list Z) :=
  if z =? 61 then
    if y =? 61 then
      match b64_val w, b64_val x with
      | Some p, Some q => if q mod 16 =? 0 then Some [p * 4 + q / 16] else None
      | _, _ => None
      end
    else
      match b64_val w, b64_val x, b64_val y with
      | Some p, Some q, Some r =>
          if r mod 4 =? 0 then Some [p * 4 + q / 16; (q mod 16) * 16 + r / 4] else None
      | _, _, _ => None
      end
  else b64_quad w x y z.

Fixpoint b64_decode (s : str) : option (list Z) :=
  match s with
  | [] => Some []
  | w :: x :: y :: z :: s' =>
      match s' with
      | [] => b64_last w x y z
      | _ => match b64_quad w x y z, b64_decode s' with
             | Some a, Some b => Some (a ++ b)
             | _, _ => None
             end
      end
  | _ => None
  end.

(* ---- time stamps ---------------------------------------------------------------------------- *)
(* Times are OPC UA ticks: 100 ns since 1601-01-01T00:00:00Z.  1601-01-01 is day 584694 of the
   proleptic Gregorian calendar counted from 0000-03-01 (start of a 400-year era). *)
Definition TICKS_PER_MS := 10000.
Definition MS_PER_DAY := 86400000.
Definition DAY0 := 584694.
Definition ERA_DAYS := 146097.

(* day of a 400-year era -> (year of era counted from March, month, day) *)
Definition civil_of_doe (doe : Z) : Z * Z * Z :=
  let yoe := (doe - doe / 1460 + doe / 36524 - doe / 146096) / 365 in
  let doy := doe - (365 * yoe + yoe / 4 - yoe / 100) in
  let mp := (5 * doy + 2) / 153 in
  let d := doy - (153 * mp + 2) / 5 + 1 in
  let m := if mp <? 10 then mp + 3 else mp - 9 in
  (yoe, m, d).
Definition doe_of_civil (yoe m d : Z) : Z :=
  let doy := (153 * (if 2 <? m then m - 3 else m + 9) + 2) / 5 + d - 1 in
  yoe * 365 + yoe / 4 - yoe / 100 + doy.
(* January and February belong to the previous March-based year *)
Definition jf (m : Z) : Z := if m <=? 2 then 1 else 0.

(* day number (from 0000-03-01) -> (year, month, day) *)
Definition civil_of_days (z : Z) : Z * Z * Z :=
  let '(yoe, m, d) := civil_of_doe (z mod ERA_DAYS) in
  (yoe + (z / ERA_DAYS) * 400 + jf m, m, d).

Definition days_of_civil (y m d : Z) : Z :=
  let y' := y - jf m in
  (y' / 400) * ERA_DAYS + doe_of_civil (y' mod 400) m d.

Definition pad2 (n : Z) : str := [48 + n / 10 mod 10; 48 + n mod 10].
Definition pad3 (n : Z) : str := [48 + n / 100 mod 10; 48 + n / 10 mod 10; 48 + n mod 10].
Definition pad4 (n : Z) : str := [48 + n / 1000 mod 10; 48 + n / 100 mod 10; 48 + n / 10 mod 10; 48 + n mod 10].

(* smallest / largest tick the fixed form covers: 0001-01-01 .. 9999-12-31T23:59:59.9999999 *)
Definition TICKS_Y1 := -504911232000000000.
Definition TICKS_Y10000 := 2650467744000000000.
(* DateTime::endtimes(): 9999-12-31T23:59:59Z *)
Definition ENDTIMES_TICKS := 2650467743990000000.

(* DateTime::to_rfc3339 = to_rfc3339_opts(SecondsFormat::Millis, true): the sub-millisecond part is
   dropped (floor).  Years outside 1..9999 print in chrono's extended form, which is not modelled. *)
Definition date_text (ticks : Z) : str :=
  let ms := ticks / TICKS_PER_MS in
  let days := ms / MS_PER_DAY in
  let r := ms mod MS_PER_DAY in
  let '(y, m, d) := civil_of_days (days + DAY0) in
  pad4 y ++ 45 :: pad2 m ++ 45 :: pad2 d ++ 84 ::
  pad2 (r / 3600000) ++ 58 :: pad2 (r / 60000 mod 60) ++ 58 :: pad2 (r / 1000 mod 60) ++ 46 ::
  pad3 (r mod 1000) ++ [90].

Fixpoint num_of (s : str) (acc : Z) : option Z :=
  match s with
  | [] => Some acc
  | c :: s' => if is_digit c then num_of s' (acc * 10 + (c - 48)) else None
  end.

(* the fixed forms YYYY-MM-DDTHH:MM:SSZ and YYYY-MM-DDTHH:MM:SS.mmmZ only (chrono accepts more:
   offsets, other fraction lengths, leap seconds; those are outside the model) *)
Definition parse_date_ms (s : str) : option Z :=
  let n := zlen s in
  if negb ((n =? 24) || (n =? 20)) then None
  else if negb ((nth 4 s 0 =? 45) && (nth 7 s 0 =? 45) && (nth 10 s 0 =? 84) && (nth 13 s 0 =? 58) && (nth 16 s 0 =? 58)) then None
  else
    let frac := if n =? 24
                then if (nth 19 s 0 =? 46) && (nth 23 s 0 =? 90) then num_of (firstn 3 (skipn 20 s)) 0 else None
                else if nth 19 s 0 =? 90 then Some 0 else None in
    match num_of (firstn 4 s) 0, num_of (firstn 2 (skipn 5 s)) 0, num_of (firstn 2 (skipn 8 s)) 0,
          num_of (firstn 2 (skipn 11 s)) 0, num_of (firstn 2 (skipn 14 s)) 0,
          num_of (firstn 2 (skipn 17 s)) 0, frac with
    | Some y, Some m, Some d, Some hh, Some mm, Some ss, Some f =>
        if (1 <=? m) && (m <=? 12) && (1 <=? d) && (d <=? 31) && (hh <? 24) && (mm <? 60) && (ss <? 60)
        then Some ((days_of_civil y m d - DAY0) * MS_PER_DAY + hh * 3600000 + mm * 60000 + ss * 1000 + f)
        else None
    | _, _, _, _, _, _, _ => None
    end.

(* DateTime::parse_from_rfc3339: clip to [epoch, endtimes] *)
Definition parse_date (s : str) : option Z :=
  match parse_date_ms s with
  | Some ms =>
      let t := ms * TICKS_PER_MS in
      Some (if t <? 0 then 0 else if ENDTIMES_TICKS <? t then ENDTIMES_TICKS else t)
  | None => None
  end.
