(* C05 -- Relative path strings round-trip and parse safely.  Statements only.

   print_path : From<&RelativePath> for String        parse : RelativePath::from_str with
   default_browse_name_resolver / default_node_resolver, as modelled in C05/Model.v. *)
From Coq Require Import String Ascii List ZArith Lia.
From OV Require Import Gen.C05Tables C05.Model C05.Escape C05.Proofs.
Import ListNotations.
Open Scope Z_scope.

(* ---- pins: the literals the hand-written recognisers and constants were written for ------------ *)
(* an edit to a pattern, to the reserved characters, to a limit or to a shorthand breaks the build
   of this file, which makes the driver search for a failing input *)
Example C05_pin_element_pattern : element_pattern =
  "(?s)(?P<reftype>/|\.|(<(?P<flags>#|!|#!)?((?P<nsidx>[0-9]+):)?(?P<name>(?:[^#!&>]|&.)(?:[^&>]|&.)*)>))(?P<target>.*)"%string.
Proof. reflexivity. Qed.
Example C05_pin_target_pattern : target_pattern = "(?s)((?P<nsidx>[0-9]+):)?(?P<name>.*)"%string.
Proof. reflexivity. Qed.
Example C05_pin_reserved : str_of_string reserved_chars = reserved.
Proof. reflexivity. Qed.
Example C05_pin_limits : max_token_len = MAX_TOKEN_LEN /\ max_elements = MAX_ELEMENTS.
Proof. split; reflexivity. Qed.
Example C05_pin_shorthands :
  parse_slash_reftype = HIERARCHICAL /\ print_slash_reftype = HIERARCHICAL /\
  parse_dot_reftype = AGGREGATES /\ print_dot_reftype = AGGREGATES.
Proof. repeat split; reflexivity. Qed.

(* ---- the round trip ------------------------------------------------------------------------------ *)
(* Every well-formed path (valid: u16 namespace indices; target name null, or any non-empty string of
   code points; reference type any numeric, Guid or ByteString id, or a non-empty String id, in any
   namespace; any flags) outside the two known classes and within the parser's limits (at most 32
   elements of at most 256 bytes of text each): the printer does not panic and its output parses back
   to exactly this path. *)
Theorem C05_roundtrip : forall p, valid (CPath p) -> known (CPath p) = 0 -> over_limit p = false ->
  exists s, print_path p = Ok s /\ parse s = Ok p.
Proof. exact roundtrip. Qed.
Print Assumptions C05_roundtrip.

Example C05_roundtrip_nonvacuous :
  let p := [mk_el (mk_nid 1 (IStr (Some [38; 47; 46; 60; 62; 58; 35; 33]))) true false
                  (mk_qn 65535 (Some [33; 35; 58; 62; 60; 46; 47; 38; 10; 128512]));
            mk_el (mk_nid 0 (INum 34)) false true (mk_qn 2 (Some [97; 62; 98]))] in
  valid (CPath p) /\ known (CPath p) = 0 /\ over_limit p = false /\
  run (CPath p) = (Z.of_nat (length (match print_path p with Ok s => s | _ => [] end)))
                    :: (match print_path p with Ok s => s | _ => [] end) ++ enc_path p.
Proof.
  cbv zeta. split; [repeat constructor; cbn; try lia; discriminate|].
  split; [|split]; vm_compute; reflexivity.
Qed.

(* beyond the documented limits of the parser (more than 32 elements, or an element whose text is
   longer than 256 bytes) the text of a well-formed path is rejected: no panic, no different path *)
Theorem C05_over_limit_rejected : forall p, valid (CPath p) -> known (CPath p) = 0 -> over_limit p = true ->
  exists s, print_path p = Ok s /\ parse s = Err.
Proof. exact over_limit_rejected. Qed.
Print Assumptions C05_over_limit_rejected.

Example C05_over_limit_nonvacuous :
  let p := repeat (mk_el (mk_nid 0 (INum 33)) false true (mk_qn 0 (Some [97]))) 33 in
  valid (CPath p) /\ known (CPath p) = 0 /\ over_limit p = true.
Proof. cbv zeta. split; [cbn [repeat]; repeat constructor; cbn; try lia; discriminate|]. split; vm_compute; reflexivity. Qed.

(* the same for every printable path, known class 2 included: the text parses back to the canonical
   form of the path (canon: a String id in namespace 0 that spells a standard reference type name
   becomes the numeric id, nothing else changes), and in class 2 that form differs from the path;
   so class 2 is exactly the set of printable paths within the limits that do not round-trip *)
Theorem C05_canonical_roundtrip : forall p,
  valid (CPath p) -> existsb unprintable p = false -> over_limit p = false ->
  exists s, print_path p = Ok s /\ parse s = Ok (map canon p).
Proof. exact canonical_roundtrip. Qed.
Print Assumptions C05_canonical_roundtrip.

Theorem C05_known_2_changes : forall p, known (CPath p) = 2 -> map canon p <> p.
Proof. exact known_2_changes. Qed.
Print Assumptions C05_known_2_changes.

(* one element: the element pattern, the target-name pattern, the flags and the resolvers *)
Theorem C05_element_roundtrip : forall e w,
  printable e -> print_elem e = Ok w -> parse_elem w = Ok (canon e) /\ (aliasing e = false -> canon e = e).
Proof. exact element_roundtrip. Qed.
Print Assumptions C05_element_roundtrip.

(* the eight sequential escape passes are the per-character map; the eight sequential unescape
   passes undo them on every string of code points *)
Theorem C05_escape_per_char : forall s, escape s = flat_map esc1 s.
Proof. exact escape_flat. Qed.
Print Assumptions C05_escape_per_char.

Theorem C05_unescape_escape : forall s, unescape (escape s) = s.
Proof. exact unescape_escape. Qed.
Print Assumptions C05_unescape_escape.

(* ---- the parser is total ------------------------------------------------------------------------- *)
(* on every string of code points the parser model returns a path or an error: the unwraps of the
   capture groups and the panic! in the flags match are unreachable *)
Theorem C05_parse_total : forall s, parse s <> Panic.
Proof. exact parse_total. Qed.
Print Assumptions C05_parse_total.

Theorem C05_parse_bounded : forall s p, parse s = Ok p -> (length p <= 32)%nat.
Proof. exact parse_bounded. Qed.
Print Assumptions C05_parse_bounded.

(* ---- the printer panics exactly on known class 1 ------------------------------------------------- *)
Theorem C05_print_panics_iff : forall p, print_path p = Panic <-> known (CPath p) = 1.
Proof. exact print_panics_iff. Qed.
Print Assumptions C05_print_panics_iff.

(* ---- the oracle on the model's output -------------------------------------------------------------- *)
(* for every well-formed path outside the known classes (within the limits: parsed back to the path;
   beyond them: rejected) and for every string (a path or an error, no panic) *)
Theorem C05_oracle : forall c, valid c -> known c = 0 -> oracle c (run c) = true.
Proof. exact oracle_holds. Qed.
Print Assumptions C05_oracle.

(* ---- the resolver tables --------------------------------------------------------------------------- *)
(* default_node_resolver and id_from_reference_type are mutually inverse on their rows; the names are
   non-empty and contain no reserved character *)
Theorem C05_tables_inverse :
  forallb id_row_ok id_table = true /\ forallb name_row_ok name_table = true.
Proof. exact tables_inverse. Qed.
Print Assumptions C05_tables_inverse.

(* ---- known findings --------------------------------------------------------------------------------- *)
Theorem C05_known_1_refuted : exists c, known c = 1 /\ oracle c (run c) = false.
Proof. exact known_1_refuted. Qed.
Print Assumptions C05_known_1_refuted.

Theorem C05_known_2_refuted : exists c, known c = 2 /\ oracle c (run c) = false.
Proof. exact known_2_refuted. Qed.
Print Assumptions C05_known_2_refuted.

(* ---- the code before the four fixes ------------------------------------------------------------------ *)
(* for each repaired defect a path (w_legacy_..., see C05/Proofs.v and fixed() in the harness) that is
   valid and outside the known classes, whose text the repaired parser reads back and the parser of
   the pinned code (Model.Legacy) does not:
     nsidx     /10:foo                      newline   /2:a<LF>b
     greedy    <HasChild>2:a&>b             unescape  <1:Connected&.To>1:Boiler *)
Theorem C05_legacy_refuted_nsidx :
  valid (CPath w_legacy_nsidx) /\ known (CPath w_legacy_nsidx) = 0 /\ over_limit w_legacy_nsidx = false /\
  exists s, print_path w_legacy_nsidx = Ok s /\ Legacy.parse s <> Ok w_legacy_nsidx /\ parse s = Ok w_legacy_nsidx.
Proof. exact legacy_refuted_nsidx. Qed.
Print Assumptions C05_legacy_refuted_nsidx.

Theorem C05_legacy_refuted_newline :
  valid (CPath w_legacy_newline) /\ known (CPath w_legacy_newline) = 0 /\ over_limit w_legacy_newline = false /\
  exists s, print_path w_legacy_newline = Ok s /\ Legacy.parse s <> Ok w_legacy_newline /\ parse s = Ok w_legacy_newline.
Proof. exact legacy_refuted_newline. Qed.
Print Assumptions C05_legacy_refuted_newline.

Theorem C05_legacy_refuted_greedy :
  valid (CPath w_legacy_greedy) /\ known (CPath w_legacy_greedy) = 0 /\ over_limit w_legacy_greedy = false /\
  exists s, print_path w_legacy_greedy = Ok s /\ Legacy.parse s <> Ok w_legacy_greedy /\ parse s = Ok w_legacy_greedy.
Proof. exact legacy_refuted_greedy. Qed.
Print Assumptions C05_legacy_refuted_greedy.

Theorem C05_legacy_refuted_unescape :
  valid (CPath w_legacy_unescape) /\ known (CPath w_legacy_unescape) = 0 /\ over_limit w_legacy_unescape = false /\
  exists s, print_path w_legacy_unescape = Ok s /\ Legacy.parse s <> Ok w_legacy_unescape /\ parse s = Ok w_legacy_unescape.
Proof. exact legacy_refuted_unescape. Qed.
Print Assumptions C05_legacy_refuted_unescape.
