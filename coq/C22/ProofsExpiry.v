(* C22 — proofs: with no publish requests the subscription closes exactly at interval `life`. *)
From Coq Require Import List ZArith Bool Lia.
From OV Require Import C22.Model C22.ProofsTable C22.ProofsTrace.
Import ListNotations.
Open Scope Z_scope.

Notation sub_tick := (sub_tick_gen true true).
Notation subs_tick := (subs_tick_gen true true).
Notation step := (step_gen true true).
Notation trace := (trace_gen true true).

(* a world with the subscription present and [q] publish requests queued *)
Definition W (x : sstate) (lf kc : Z) (f en : bool) (l k : Z) (nqv : list Z) (lst : Z) (q : Z) : world :=
  mk_world (Some (mk_subq (mk_sub x lf kc f en l k) nqv lst)) q.

Ltac step_compute :=
  unfold W, step_gen, subs_tick_gen, sub_tick_gen, interval_test, max_publish_requests;
  cbn [ws pq sb nq last st life kac first enabled maxlife maxkac sstate_eqb state_nr Z.eqb
       is_nil more_than_one negb orb andb];
  unfold_us.

Ltac fin := eexists; split; [reflexivity|]; cbn; repeat zcase; try reflexivity; try lia.

(* the invariant of a history without publish requests: [n] publishing intervals have elapsed *)
Inductive Inv2 (l k : Z) (en : bool) : world -> Z -> bool -> Z -> Prop :=
| I2_normal : forall kc lst,
    Inv2 l k en (W Normal l kc false en l k [] lst 0) 0 false lst
| I2_late : forall kc f lst n, 1 <= n <= l - 1 ->
    Inv2 l k en (W Late (l - n) kc f en l k [] lst 0) n false lst
| I2_closed : forall lf kc f lst n, l <= n ->
    Inv2 l k en (W Closed lf kc f en l k [2] lst 0) n true lst.

Lemma exp_step_timer : forall l k en ivl w n closed lst now dt,
  2 <= l -> 1 <= ivl -> Inv2 l k en w n closed lst ->
  let now' := now + dt in
  let el := ivl <=? Z.max 0 (now' - lst) in
  exists w', step ivl now' (Timer dt) w = Some (w', []) /\
    Inv2 l k en w' (if el then n + 1 else n)
         (match snap_state (mk_obs [] (snapshot w')) with Some s => s =? 0 | None => false end)
         (if el then now' else lst) /\
    (exists s, snap_state (mk_obs [] (snapshot w')) = Some s /\
       ((s =? 0) = (l <=? (if el then n + 1 else n)))).
Proof.
  intros l k en ivl w n closed lst now dt Hl Hivl HI now' el. subst el.
  destruct (Z.leb_spec ivl 0) as [|_]; [lia|].
  inversion HI as [kc lst0 | kc f lst0 n0 Hn | lf kc f lst0 n0 Hn]; subst; clear HI.
  - (* Normal, nothing sent yet *)
    destruct (Z.leb_spec ivl (Z.max 0 (now' - lst))) as [He|He].
    + eexists. split.
      { step_compute. destruct (Z.leb_spec ivl 0); [lia|]. cbn [fst snd].
        destruct (Z.leb_spec ivl (Z.max 0 (now' - lst))); [|lia].
        cbn [orb andb negb is_active]. destruct (Z.eqb_spec l 1); [lia|]. cbn [andb].
        destruct (Z.eqb_spec l 0); [lia|]. cbn [handle_action drain ready_to_remove]. reflexivity. }
      cbn. split.
      * replace (l - 1) with (l - (0 + 1)) by lia. apply I2_late. lia.
      * fin.
    + eexists. split.
      { step_compute. destruct (Z.leb_spec ivl 0); [lia|]. cbn [fst snd].
        destruct (Z.leb_spec ivl (Z.max 0 (now' - lst))); [lia|].
        cbn [orb andb negb drain ready_to_remove]. reflexivity. }
      cbn. split.
      * apply I2_normal.
      * fin.
  - (* Late, counting down *)
    destruct (Z.leb_spec ivl (Z.max 0 (now' - lst))) as [He|He].
    + destruct (Z.eq_dec (l - n) 1) as [E1|E1].
      * eexists. split.
        { step_compute. destruct (Z.leb_spec ivl 0); [lia|]. cbn [fst snd].
          destruct (Z.leb_spec ivl (Z.max 0 (now' - lst))); [|lia].
          cbn [orb andb negb is_active]. destruct (Z.eqb_spec (l - n) 1); [|lia]. cbn [andb].
          cbn [handle_action app drain ready_to_remove]. cbn. reflexivity. }
        cbn. split.
        -- apply I2_closed. lia.
        -- fin.
      * eexists. split.
        { step_compute. destruct (Z.leb_spec ivl 0); [lia|]. cbn [fst snd].
          destruct (Z.leb_spec ivl (Z.max 0 (now' - lst))); [|lia].
          cbn [orb andb negb is_active]. destruct (Z.eqb_spec (l - n) 1); [lia|]. cbn [andb].
          destruct en; cbn [andb orb negb];
            (destruct (Z.eqb_spec (l - n) 0); [lia|]); cbn [handle_action drain ready_to_remove]; reflexivity. }
        cbn. split.
        -- replace (l - n - 1) with (l - (n + 1)) by lia. apply I2_late. lia.
        -- fin.
    + eexists. split.
      { step_compute. destruct (Z.leb_spec ivl 0); [lia|]. cbn [fst snd].
        destruct (Z.leb_spec ivl (Z.max 0 (now' - lst))); [lia|].
        cbn [orb andb negb drain ready_to_remove]. reflexivity. }
      cbn. split.
      * apply I2_late. lia.
      * fin.
  - (* Closed, the status change waits for a publish request *)
    destruct (Z.leb_spec ivl (Z.max 0 (now' - lst))) as [He|He].
    + eexists. split.
      { step_compute. destruct (Z.leb_spec ivl 0); [lia|]. cbn [fst snd].
        destruct (Z.leb_spec ivl (Z.max 0 (now' - lst))); [|lia].
        cbn [orb andb negb is_active handle_action drain ready_to_remove]. cbn. reflexivity. }
      cbn. split.
      * apply I2_closed. lia.
      * fin.
    + eexists. split.
      { step_compute. destruct (Z.leb_spec ivl 0); [lia|]. cbn [fst snd].
        destruct (Z.leb_spec ivl (Z.max 0 (now' - lst))); [lia|].
        cbn [orb andb negb is_active handle_action drain ready_to_remove]. cbn. reflexivity. }
      cbn. split.
      * apply I2_closed. lia.
      * fin.
Qed.

Lemma Inv2_G : forall l k en w n closed lst, 2 <= l -> Inv2 l k en w n closed lst -> n <= l - 1 \/ closed = true.
Proof. intros l k en w n closed lst Hl HI. inversion HI; subst; lia || auto. Qed.

(* the first publish request after the closure is answered with the status change *)
Lemma exp_step_pub_closed : forall l k en ivl now lf kc f lst,
  1 <= ivl ->
  exists w', step ivl now Pub (W Closed lf kc f en l k [2] lst 0) = Some (w', [2]).
Proof.
  intros. eexists. step_compute. cbn. reflexivity.
Qed.

Lemma expiry_inv : forall l k en ivl, 2 <= l -> 1 <= ivl ->
  forall r w n closed lst now, G w -> Inv2 l k en w n closed lst ->
  check_expiry l n closed r (elapsed_flags ivl now lst r) (fst (trace ivl now w r)) = true.
Proof.
  intros l k en ivl Hl Hivl. induction r as [|o r IH]; intros w n closed lst now HG HI.
  - reflexivity.
  - destruct o as [|dt].
    + (* the first publish request ends the premise *)
      destruct (step_total ivl (op_time now Pub) Pub w Hivl HG) as (w' & pre & E & G' & C).
      rewrite (trace_cons _ _ _ _ _ _ _ E). cbn [fst elapsed_flags check_expiry o_pre].
      destruct closed; [|reflexivity].
      inversion HI; subst.
      match goal with H : step _ _ _ _ = _ |- _ =>
        destruct (exp_step_pub_closed l k en ivl (op_time now Pub) lf kc f lst Hivl) as (w2 & E2);
        rewrite E2 in H; inversion H; subst end.
      reflexivity.
    + destruct (exp_step_timer l k en ivl w n closed lst now dt Hl Hivl HI) as (w' & E & HI' & s & Hs & Hsl).
      cbn zeta in E, HI', Hsl.
      assert (G' : G w').
      { destruct (step_total ivl (now + dt) (Timer dt) w Hivl HG) as (w2 & pre2 & E2 & G2 & _).
        rewrite E in E2. inversion E2; subst. assumption. }
      change (op_time now (Timer dt)) with (now + dt) in *.
      rewrite (trace_cons ivl now w (Timer dt) r w' [] E).
      cbn [fst elapsed_flags op_time].
      destruct (Z.leb_spec ivl (Z.max 0 (now + dt - lst))) as [He|He];
        cbn [check_expiry o_pre is_nil andb]; rewrite Hs in *.
      * rewrite (IH w' (n + 1) (s =? 0) (now + dt) (now + dt) G' HI').
        rewrite Hsl. rewrite andb_true_r.
        destruct (Inv2_G _ _ _ _ _ _ _ Hl HI) as [Hn | ->].
        -- destruct closed.
           ++ inversion HI; subst; lia.
           ++ repeat zcase; try reflexivity; lia.
        -- inversion HI; subst. repeat zcase; try reflexivity; lia.
      * rewrite (IH w' n (s =? 0) lst (now + dt) G' HI').
        rewrite Hsl. rewrite andb_true_r.
        destruct (Inv2_G _ _ _ _ _ _ _ Hl HI) as [Hn | ->].
        -- destruct closed.
           ++ inversion HI; subst; lia.
           ++ repeat zcase; try reflexivity; lia.
        -- inversion HI; subst. repeat zcase; try reflexivity; lia.
Qed.

Lemma G_init : forall k l en, 2 <= l -> G (init_world k l en).
Proof.
  intros. unfold G, init_world, Gsub; cbn. repeat split; try lia. constructor.
Qed.

Lemma step_create_timer : forall k l en ivl now dt,
  step ivl now (Timer dt) (init_world k l en) = Some (W Normal l k false en l k [] 0 0, []).
Proof. intros. unfold init_world. step_compute. cbn. reflexivity. Qed.

Theorem expiry_holds : forall k l en ivl ops, 2 <= l -> 1 <= ivl ->
  check_expiry l 0 false ops (flags ivl ops) (fst (trace ivl 0 (init_world k l en) ops)) = true.
Proof.
  intros k l en ivl ops Hl Hivl. destruct ops as [|o r]; [reflexivity|].
  pose proof (G_init k l en Hl) as HG.
  destruct o as [|dt].
  - destruct (step_total ivl (op_time 0 Pub) Pub _ Hivl HG) as (w' & pre & E & G' & C).
    rewrite (trace_cons _ _ _ _ _ _ _ E). reflexivity.
  - pose proof (step_create_timer k l en ivl (op_time 0 (Timer dt)) dt) as E.
    rewrite (trace_cons _ _ _ _ _ _ _ E). cbn [flags fst check_expiry o_pre is_nil andb].
    assert (G' : G (W Normal l k false en l k [] 0 0)).
    { destruct (step_total ivl (op_time 0 (Timer dt)) (Timer dt) _ Hivl HG) as (w2 & p2 & E2 & G2 & _).
      rewrite E in E2. inversion E2; subst. assumption. }
    cbn [snap_state o_snap snapshot W ws sb st state_nr].
    change (2 =? 0) with false.
    rewrite (expiry_inv l k en ivl Hl Hivl r _ 0 false 0 (op_time 0 (Timer dt)) G' (I2_normal l k en k 0)).
    cbn. repeat zcase; try reflexivity; lia.
Qed.

(* the exact statement for a history of [n] timer ticks, each one publishing interval after the
   previous one, and no publish request: the state after tick i (the creating tick is tick 0) *)
Lemma idle_states_from : forall l k en ivl, 2 <= l -> 1 <= ivl ->
  forall m w n closed lst now, G w -> Inv2 l k en w n closed lst -> now = lst ->
  forall i, (i < m)%nat ->
  nth i (states_of (fst (trace ivl now w (repeat (Timer ivl) m)))) (-1) =
    (if l <=? n + Z.of_nat i + 1 then 0 else 3).
Proof.
  intros l k en ivl Hl Hivl. induction m as [|m IH]; intros w n closed lst now HG HI Hnow i Hi; [lia|].
  cbn [repeat].
  destruct (exp_step_timer l k en ivl w n closed lst now ivl Hl Hivl HI) as (w' & E & HI' & s & Hs & Hsl).
  cbn zeta in E, HI', Hsl.
  assert (He : (ivl <=? Z.max 0 (now + ivl - lst)) = true) by (apply Z.leb_le; lia).
  rewrite He in *.
  assert (G' : G w').
  { destruct (step_total ivl (now + ivl) (Timer ivl) w Hivl HG) as (w2 & pre2 & E2 & G2 & _).
    rewrite E in E2. inversion E2; subst. assumption. }
  rewrite (trace_cons ivl now w (Timer ivl) _ w' [] E). cbn [fst states_of op_time].
  rewrite Hs. destruct i as [|i].
  - cbn [nth]. replace (n + Z.of_nat 0 + 1) with (n + 1) by lia.
    rewrite <- Hsl. destruct (Z.eqb_spec s 0) as [->|Hne]; [reflexivity|].
    (* not closed: the state is Late *)
    assert (Hn0 : 0 <= n) by (inversion HI; subst; lia).
    inversion HI'; subst; cbn in Hs; inversion Hs; subst; try reflexivity; try lia.
    all: exfalso; cbn in Hsl; revert Hsl; repeat zcase; intros; try discriminate; lia.
  - cbn [nth]. rewrite Hs in HI'.
    rewrite (IH w' (n + 1) (s =? 0) (now + ivl) (now + ivl) G' HI' eq_refl i ltac:(lia)).
    replace (n + 1 + Z.of_nat i + 1) with (n + Z.of_nat (S i) + 1) by lia. reflexivity.
Qed.

(* after the creating tick, the subscription is Late (3) for intervals 1 .. life-1 and Closed (0)
   from interval `life` on: it expires exactly at interval `life`, for every publishing setting *)
Theorem idle_expires_exactly : forall k l en ivl n i, 2 <= l -> 1 <= ivl -> (1 <= i <= n)%nat ->
  nth i (states_of (fst (trace ivl 0 (init_world k l en) (idle_history ivl n)))) (-1) =
    (if l <=? Z.of_nat i then 0 else 3).
Proof.
  intros k l en ivl n i Hl Hivl Hi. unfold idle_history.
  pose proof (step_create_timer k l en ivl (op_time 0 (Timer 0)) 0) as E.
  rewrite (trace_cons _ _ _ _ _ _ _ E). cbn [fst states_of].
  destruct i as [|i]; [lia|]. cbn [nth].
  assert (G' : G (W Normal l k false en l k [] 0 0)).
  { destruct (step_total ivl (op_time 0 (Timer 0)) (Timer 0) _ Hivl (G_init k l en Hl)) as (w2 & p2 & E2 & G2 & _).
    rewrite E in E2. inversion E2; subst. assumption. }
  cbn [op_time]. replace (0 + 0) with 0 by lia.
  rewrite (idle_states_from l k en ivl Hl Hivl n _ 0 false 0 0 G' (I2_normal l k en k 0) eq_refl i ltac:(lia)).
  replace (0 + Z.of_nat i + 1) with (Z.of_nat (S i)) by lia. reflexivity.
Qed.

Notation final := (final_gen true true).

Lemma idle_final_from : forall l k en ivl, 2 <= l -> 1 <= ivl ->
  forall m w n closed lst, Inv2 l k en w n closed lst ->
  exists w' closed', final ivl lst w (repeat (Timer ivl) m) = Some w' /\
    Inv2 l k en w' (n + Z.of_nat m) closed' (lst + Z.of_nat m * ivl).
Proof.
  intros l k en ivl Hl Hivl. induction m as [|m IH]; intros w n closed lst HI.
  - exists w, closed. split; [reflexivity|]. replace (n + Z.of_nat 0) with n by lia.
    replace (lst + Z.of_nat 0 * ivl) with lst by lia. assumption.
  - cbn [repeat final_gen op_time].
    destruct (exp_step_timer l k en ivl w n closed lst lst ivl Hl Hivl HI) as (w' & E & HI' & _).
    cbn zeta in E, HI'.
    assert (He : (ivl <=? Z.max 0 (lst + ivl - lst)) = true) by (apply Z.leb_le; lia).
    rewrite He in HI'. rewrite E.
    destruct (IH w' (n + 1) _ (lst + ivl) HI') as (w'' & closed'' & F & HI'').
    exists w'', closed''. split; [exact F|].
    replace (n + Z.of_nat (S m)) with (n + 1 + Z.of_nat m) by lia.
    replace (lst + Z.of_nat (S m) * ivl) with (lst + ivl + Z.of_nat m * ivl) by lia. assumption.
Qed.

(* after `life` or more idle intervals the subscription is closed, the BadTimeout status change is
   queued, the next publish request (at any time) is answered with it and the subscription is
   removed *)
Theorem idle_timeout_delivered : forall k l en ivl n now, 2 <= l -> 1 <= ivl -> l <= Z.of_nat n ->
  exists w w', final ivl 0 (init_world k l en) (idle_history ivl n) = Some w /\
    step ivl now Pub w = Some (w', [2]) /\ ws w' = None.
Proof.
  intros k l en ivl n now Hl Hivl Hn. unfold idle_history. cbn [final_gen op_time].
  rewrite step_create_timer. replace (0 + 0) with 0 by lia.
  destruct (idle_final_from l k en ivl Hl Hivl n _ 0 false 0 (I2_normal l k en k 0)) as (w & closed & F & HI).
  exists w. inversion HI; subst; try lia.
  eexists. split; [exact F|]. split.
  - step_compute. cbn. reflexivity.
  - reflexivity.
Qed.
