(* C41 — obligations on the generated schema, the oracle theorem, refutations. *)
From Coq Require Import List ZArith Bool String Lia.
From OV Require Import C41.Schema Gen.C41Schema C41.SchemaProofs C41.Erase C41.Model.
Import ListNotations.
Open Scope list_scope.
Open Scope Z_scope.

(* ---- obligations on the schema extracted from the source (re-proved on every run) ------------------ *)
Lemma gen_schema_ok : schema_ok cfg_schema = true.
Proof. vm_compute. reflexivity. Qed.

(* the only skipped field *)
Lemma gen_skipped : skipped_fields cfg_schema = [("S.ServerUserToken"%string, "thumbprint"%string)].
Proof. vm_compute. reflexivity. Qed.

(* no field that an is_valid reads is skipped *)
Definition skipped_read_by_is_valid : list (string * string) :=
  filter (fun sf : string * string =>
            existsb (fun e : string * list string =>
                       String.eqb (fst e) (fst sf) && existsb (String.eqb (snd sf)) (snd e)) isvalid_deps)
         (skipped_fields cfg_schema).
Lemma gen_isvalid_reads_no_skipped_field : skipped_read_by_is_valid = [].
Proof. vm_compute. reflexivity. Qed.

(* every field with a default function is always written, so a saved file never needs the default *)
Definition default_fields : list (string * string) :=
  flat_map (fun e : string * list field =>
              map (fun f => (fst e, f_name f))
                  (filter (fun f => match f_default f with Some _ => true | None => false end) (snd e))) cfg_schema.
Lemma gen_default_fields : default_fields = [("C.ClientEndpoint"%string, "user_token_id"%string)].
Proof. vm_compute. reflexivity. Qed.
Lemma gen_default_fields_always_written :
  forallb (fun e : string * list field =>
             forallb (fun f => match f_default f with
                               | Some _ => negb (f_skip f) && negb (f_skip_none f)
                               | None => true end) (snd e)) cfg_schema = true.
Proof. vm_compute. reflexivity. Qed.

Lemma gen_roots : lookup cfg_schema root_client <> None /\ lookup cfg_schema root_server <> None.
Proof. split; vm_compute; discriminate. Qed.

Lemma gen_save_load : save_load_use_serde_yaml = true /\ save_refuses_invalid = true.
Proof. split; reflexivity. Qed.

(* ---- equality is reflexive ----------------------------------------------------------------------------- *)
Lemma list_eqb_refl l : list_eqb l l = true.
Proof. induction l as [|x l IH]; [reflexivity|]. cbn [list_eqb]. rewrite Z.eqb_refl. exact IH. Qed.

Fixpoint val_eqb_refl (v : val) : val_eqb v v = true.
Proof.
  destruct v as [s | b | z | b | | s n | [x|] | l | m | l]; cbn [val_eqb].
  - apply list_eqb_refl.
  - destruct b; reflexivity.
  - apply Z.eqb_refl.
  - apply Z.eqb_refl.
  - reflexivity.
  - rewrite !Z.eqb_refl. reflexivity.
  - apply val_eqb_refl.
  - reflexivity.
  - induction l as [|x r IHr]; [reflexivity|]. rewrite (val_eqb_refl x). exact IHr.
  - induction m as [|[k x] r IHr]; [reflexivity|]. rewrite list_eqb_refl, (val_eqb_refl x). exact IHr.
  - induction l as [|x r IHr]; [reflexivity|]. rewrite (val_eqb_refl x). exact IHr.
Qed.

(* ---- the oracle ------------------------------------------------------------------------------------------ *)
Lemma skipn_zlen (e rest : list Z) : skipn (Z.to_nat (zlen e)) (e ++ rest) = rest.
Proof.
  unfold zlen. rewrite Nat2Z.id. induction e as [|x e IH]; [reflexivity|]. cbn [List.length skipn app]. exact IH.
Qed.

Lemma root_ok c : ty_ok (root c) = true /\ no_opaque (root c) = true.
Proof. split; reflexivity. Qed.

(* what is proved about the tree mapping: a valid, well-formed configuration whose skipped fields are
   at their default is written to a tree from which it is read back *)
Theorem save_load_roundtrip c : wt cfg_schema true FUEL (root c) (c_val c) = true ->
  exists y, ser cfg_schema FUEL (root c) (c_val c) = Some y /\ de cfg_schema FUEL (root c) y = Some (c_val c).
Proof.
  intro Hwt. destruct (root_ok c) as [Hty Hno].
  destruct (ser_total cfg_schema gen_schema_ok true FUEL (root c) (c_val c) Hwt Hno) as [y Hy].
  exists y. split; [exact Hy|]. apply (roundtrip cfg_schema gen_schema_ok FUEL _ _ _ Hty Hwt Hy).
Qed.

(* ... and ANY well-formed configuration, whatever its skipped fields hold, is read back with exactly
   the skipped fields (the thumbprint caches) reset *)
Theorem save_load_erases c : wt cfg_schema false FUEL (root c) (c_val c) = true ->
  exists y, ser cfg_schema FUEL (root c) (c_val c) = Some y /\
            de cfg_schema FUEL (root c) y = Some (erase cfg_schema FUEL (root c) (c_val c)).
Proof.
  intro Hwt. destruct (root_ok c) as [Hty Hno].
  destruct (ser_total cfg_schema gen_schema_ok false FUEL (root c) (c_val c) Hwt Hno) as [y Hy].
  exists y. split; [exact Hy|]. apply (reload_is_erase cfg_schema gen_schema_ok FUEL _ _ _ Hty Hwt Hy).
Qed.

Theorem oracle_holds c : valid c -> known c = 0 -> oracle c (run c) = true.
Proof.
  unfold valid, known. intros Hin Hk. unfold oracle. rewrite Hin. cbn [negb].
  unfold inscope in Hin. repeat (apply andb_true_iff in Hin as [Hin ?]).
  rename H into Hnan, H0 into Hwt, H1 into Hkind, H2 into Hm. rename Hin into Hvalid.
  change only_thumbprint_skipped with true in Hk. rewrite Hwt in Hk. cbn [andb] in Hk.
  destruct (wt cfg_schema true FUEL (root c) (c_val c)) eqn:Hwt1; [|discriminate Hk].
  destruct (save_load_roundtrip c Hwt1) as (y & Hy & Hde).
  unfold run, run_with. rewrite Hvalid, Hm. cbn [Bool.eqb negb]. rewrite Hy, Hde.
  rewrite val_eqb_refl, Hm. apply negb_true_iff in Hnan. rewrite Hnan. reflexivity.
Qed.

(* the loaded configuration is still valid: is_valid (as modelled) of what is read back from the file
   is is_valid of the original *)
Theorem loaded_still_valid c y v' : wt cfg_schema true FUEL (root c) (c_val c) = true ->
  ser cfg_schema FUEL (root c) (c_val c) = Some y -> de cfg_schema FUEL (root c) y = Some v' ->
  is_valid_m (c_kind c) v' = is_valid_m (c_kind c) (c_val c).
Proof.
  intros Hwt Hy Hde. destruct (save_load_roundtrip c Hwt) as (y0 & Hy0 & Hde0).
  rewrite Hy in Hy0. injection Hy0 as <-. rewrite Hde in Hde0. injection Hde0 as ->. reflexivity.
Qed.

(* `save` as it is now never panics: every outcome is refused / Err / written *)
Theorem never_panics c : run c <> [-2].
Proof.
  unfold run. change save_unwraps_serializer with false. unfold run_with.
  destruct (negb (Bool.eqb (c_is_valid c) (is_valid_m (c_kind c) (c_val c)))); [discriminate|].
  destruct (negb (c_is_valid c)); [discriminate|].
  destruct (ser cfg_schema FUEL (root c) (c_val c)); discriminate.
Qed.

(* ---- refutations --------------------------------------------------------------------------------------------- *)
Definition s (x : string) : val := VS (zs x).
Definition limits0 : val :=
  VR [VB false; VZ 100; VZ 1000; VZ 10; VZ 1000; VZ 65535; VZ 65535; VF 4636737291354636288; VF 4636737291354636288;
      VZ 327675; VZ 5; VZ 65535; VZ 65535].
(* a valid server configuration with one x509 user token; [tp] is the token's thumbprint field *)
Definition server0 (pki tp : val) : val :=
  VR [s "app"; s "urn:app"; s "urn:app"; VB false; VO None; VO None; VR [VB false; VB true]; pki; VO None;
      VR [VZ 5; s "127.0.0.1"; VZ 4855]; limits0; VR [VB false]; VL [s "en"];
      VM [(zs "u1", VR [s "user"; VO None; VO (Some (s "user.der")); tp])];
      VL [s "opc.tcp://127.0.0.1:4855/"]; VO None;
      VM [(zs "none", VR [s "/"; s "None"; s "None"; VZ 0; VO None; VL [s "ANONYMOUS"; s "u1"]])]].

Definition w_thumb : case := mk_case 1 (server0 (s "pki") (VO (Some (VL [VZ 7; VZ 7])))) true.
(* the witness of known finding 1: what comes back is the configuration with the cache cleared; it is
   a valid configuration *)
Example thumb_reload :
  erase cfg_schema FUEL (root w_thumb) (c_val w_thumb) = server0 (s "pki") (VO None) /\
  is_valid_m 1 (server0 (s "pki") (VO None)) = true.
Proof. split; vm_compute; reflexivity. Qed.
Lemma known_1_refuted : exists c, known c = 1 /\ valid c /\ oracle c (run c) = false.
Proof. exists w_thumb. repeat split; vm_compute; reflexivity. Qed.

Example oracle_hypotheses_satisfiable :
  let c := mk_case 1 (server0 (s "pki: #~") (VO None)) true in valid c /\ known c = 0 /\ oracle c (run c) = true.
Proof. repeat split; vm_compute; reflexivity. Qed.

(* a path that is not valid UTF-8: the serialiser reports an error; before the fix `save` unwrapped
   that result (panic), now it returns Err *)
Definition w_badpath : case := mk_case 1 (server0 VBadPath (VO None)) true.
Lemma badpath_runs : Legacy.run w_badpath = [-2] /\ run_with false w_badpath = [-1].
Proof. split; vm_compute; reflexivity. Qed.
