(* C03 — the oracle holds on the model for the raw length-field cases (all 20 contexts). *)
From Coq Require Import List ZArith Bool Lia.
Import ListNotations.
From OV Require Import C01.Codec C01.CodecProofs C01.Builtins C01.BuiltinsProofs C01.VariantProofs
  C01.Types C01.TypesProofs C01.Model C01.Proofs C01.DecodedWf C03.Model C03.Proofs C03.Contexts.
Open Scope Z_scope.
Local Notation run := Codec.run.

Definition outZ {A} (n : Z) (r : outcome (A * bytes)) : list Z :=
  match r with Ok (_, rest) => [0; n - zlen rest] | Err _ => [-1] | Panic _ => [-2] end.

Lemma outZ_shape {A B} n (r1 : outcome (A * bytes)) (r2 : outcome (B * bytes)) :
  same_shape r1 r2 -> outZ n r1 = outZ n r2.
Proof. destruct r1 as [[a x]|e|p], r2 as [[b y]|e'|p']; cbn; intros H; try contradiction; subst; reflexivity. Qed.
Lemma outZ_rejected {A} n (r : outcome (A * bytes)) : rejected r -> outZ n r = [-1].
Proof. intros [e ->]. reflexivity. Qed.

Lemma run_clen ctx L o payload :
  C03.Model.run (CLen ctx L o payload) =
  outZ (zlen (case_bytes (CLen ctx L o payload)))
       (run (dec_ty (cx_ty (ctx_spec ctx)) o (depth0 o)) (case_bytes (CLen ctx L o payload))).
Proof. reflexivity. Qed.

(* no context decoder reaches a panic site *)
Lemma ctx_ty_sane ctx : ty_sane (cx_ty (ctx_spec ctx)).
Proof.
  unfold ctx_spec. repeat match goal with |- context [if ?c then _ else _] => destruct c end; cbn; auto.
Qed.
Lemma clen_no_panic ctx L o payload : offset_ns o = 0 -> Forall is_byte payload ->
  C03.Model.run (CLen ctx L o payload) <> [-2].
Proof.
  intros Ho Hp. rewrite run_clen.
  assert (Hb : byte_list (case_bytes (CLen ctx L o payload))).
  { cbn [case_bytes]. apply Forall_app. split.
    - unfold ctx_spec. repeat match goal with |- context [if ?c then _ else _] => destruct c end;
        cbn [cx_prefix]; repeat constructor; unfold is_byte; lia.
    - apply Forall_app. split; [apply enc_i_bytes|exact Hp]. }
  pose proof (decoded_wf_run o (depth0 o) _ _ Ho (ctx_ty_sane ctx) Hb) as H.
  destruct (run (dec_ty (cx_ty (ctx_spec ctx)) o (depth0 o)) (case_bytes (CLen ctx L o payload))) as [[v r]|e|p];
    cbn [outZ]; [discriminate|discriminate|contradiction].
Qed.

(* ---- the string / byte string decoder on a declared length and a payload ----------------------------------- *)
Lemma ustr_outZ limit utf8 n L payload : in_i 4 L -> 0 <= limit ->
  outZ (n + 4 + zlen payload) (run (dec_ustr limit utf8) (enc_i 4 L ++ payload)) =
  if L <? -1 then [-1]
  else if limit <? L then [-1]
  else if L =? -1 then [0; n + 4]
  else if (L <=? zlen payload) && (negb utf8 || utf8_valid (firstn (Z.to_nat L) payload))
       then [0; n + 4 + L] else [-1].
Proof.
  intros HL Hlim. rewrite ustr_length_check by exact HL.
  assert (HLr : -2147483648 <= L < 2147483648) by (unfold in_i in HL; cbn in HL; lia).
  destruct (Z.eqb_spec L (-1)).
  - subst L. destruct (Z.ltb_spec limit (-1)); [lia|]. change (-1 <? -1) with false. cbv iota.
    cbn [outZ]. f_equal. f_equal. lia.
  - destruct (Z.ltb_spec L (-1)); [reflexivity|]. destruct (Z.ltb_spec limit L); [reflexivity|].
    rewrite run_bind. unfold run at 1, take.
    destruct (Nat.ltb_spec (length payload) (Z.to_nat L)); cbn [fst].
    + destruct (Z.leb_spec L (zlen payload)); [unfold zlen in *; lia|]. reflexivity.
    + destruct (Z.leb_spec L (zlen payload)); [|unfold zlen in *; lia]. cbn [andb].
      destruct utf8; cbn [andb negb orb].
      * destruct (utf8_valid (firstn (Z.to_nat L) payload)); cbn [negb]; [rewrite run_ret|rewrite run_fail]; cbn [outZ]; [|reflexivity].
        f_equal. f_equal. unfold zlen. rewrite skipn_length. lia.
      * rewrite run_ret. cbn [outZ]. f_equal. f_equal. unfold zlen. rewrite skipn_length. lia.
Qed.

Definition pre_bad (s : ctxspec) (o : opts) : bool := (max_depth o <? cx_depth s) || (max_arr o <? cx_arr s).

Lemma zlen_clen ctx L o payload :
  zlen (case_bytes (CLen ctx L o payload)) = zlen (cx_prefix (ctx_spec ctx)) + 4 + zlen payload.
Proof. cbn [case_bytes]. unfold zlen. rewrite !app_length, enc_i_length. lia. Qed.

Lemma list_eqb_true a b : a = b -> list_eqb a b = true.
Proof. intros ->. apply list_eqb_refl. Qed.

Lemma str_oracle ctx L o payload (utf8 : bool) :
  let s := ctx_spec ctx in
  valid (CLen ctx L o payload) ->
  cx_empty_ok s = false -> (ctx =? 7) = false -> cx_item s = 1 ->
  (cx_lim s = LStr /\ utf8 = true \/ cx_lim s = LBStr /\ utf8 = false) ->
  (pre_bad s o = false -> forall bs,
     same_shape (run (dec_ty (cx_ty s) o (depth0 o)) (cx_prefix s ++ bs))
                (run (dec_ustr (limit_of o (cx_lim s)) utf8) bs)) ->
  (pre_bad s o = true -> forall bs, rejected (run (dec_ty (cx_ty s) o (depth0 o)) (cx_prefix s ++ bs))) ->
  oracle (CLen ctx L o payload) (C03.Model.run (CLen ctx L o payload)) = true.
Proof.
  intros s (Hctx & HL & Hp & Hpay & Hs & Hb & Ha) He H7 Hitem Hlim Hok Hbad.
  rewrite run_clen, zlen_clen. cbn [case_bytes]. fold s. unfold oracle. fold s.
  fold (pre_bad s o). destruct (pre_bad s o) eqn:Hpre.
  - rewrite (outZ_rejected _ _ (Hbad eq_refl _)). reflexivity.
  - rewrite (outZ_shape _ _ _ (Hok eq_refl _)). rewrite He, H7. cbn [andb].
    assert (Hlim0 : 0 <= limit_of o (cx_lim s)) by (destruct (cx_lim s); cbn; assumption).
    rewrite ustr_outZ by assumption.
    destruct (L <? -1) eqn:E1; [reflexivity|]. destruct (limit_of o (cx_lim s) <? L) eqn:E2; [reflexivity|].
    apply Z.ltb_ge in E1. unfold payload_ok. fold s. rewrite Hitem.
    destruct (Z.eqb_spec L (-1)).
    + subst L. change (Z.max 0 (-1) * 1) with 0. change (Z.to_nat 0) with 0%nat. cbn [firstn].
      assert (H0 : (0 <=? zlen payload) = true) by (apply Z.leb_le; unfold zlen; lia). rewrite H0.
      destruct Hlim as [[-> _]|[-> _]]; cbn [andb utf8_valid]; apply list_eqb_true; f_equal; f_equal; lia.
    + replace (Z.max 0 L * 1) with L by lia.
      destruct Hlim as [[-> ->]|[-> ->]]; cbn [negb orb].
      * destruct ((L <=? zlen payload) && utf8_valid (firstn (Z.to_nat L) payload)); [|reflexivity].
        apply list_eqb_true. reflexivity.
      * rewrite andb_true_r. destruct (L <=? zlen payload); [|reflexivity]. apply list_eqb_true. reflexivity.
Qed.

Lemma depth0_S o : 1 <= max_depth o -> exists d, depth0 o = S d.
Proof. intros H. unfold depth0. exists (Z.to_nat (max_depth o - 1)). lia. Qed.
Lemma depth0_SS o : 2 <= max_depth o -> exists d, depth0 o = S (S d).
Proof. intros H. unfold depth0. exists (Z.to_nat (max_depth o - 2)). lia. Qed.
Lemma depth0_O o : max_depth o < 1 -> depth0 o = O.
Proof. intros H. unfold depth0. lia. Qed.

Ltac valid_facts Hv :=
  let Hctx := fresh "Hctx" in let HL := fresh "HL" in let Hp := fresh "Hp" in let Hpay := fresh "Hpay" in
  let Hs := fresh "Hs" in let Hb := fresh "Hb" in let Ha := fresh "Ha" in
  pose proof Hv as (Hctx & HL & Hp & Hpay & Hs & Hb & Ha);
  let Hd := fresh "Hd" in assert (Hd : 0 <= max_depth _) by apply Hp.

Ltac spec_red :=
  repeat match goal with
  | |- context [cx_depth (ctx_spec ?c)] => let v := eval vm_compute in (cx_depth (ctx_spec c)) in change (cx_depth (ctx_spec c)) with v
  | |- context [cx_arr (ctx_spec ?c)] => let v := eval vm_compute in (cx_arr (ctx_spec c)) in change (cx_arr (ctx_spec c)) with v
  end.

(* depth 0, no enclosing array *)
Ltac str_A ctx utf8 lem side :=
  intros L o payload Hv; valid_facts Hv;
  apply (str_oracle ctx L o payload utf8 Hv); try reflexivity;
  [ side; split; reflexivity
  | intros _ bs; apply lem
  | unfold pre_bad; spec_red; intros Hpre; exfalso;
    apply orb_true_iff in Hpre; destruct Hpre as [Hpre|Hpre]; apply Z.ltb_lt in Hpre; lia ].

Lemma oracle_ctx1 : forall L o payload, valid (CLen 1 L o payload) -> oracle (CLen 1 L o payload) (C03.Model.run (CLen 1 L o payload)) = true.
Proof. str_A 1 true ctx1 ltac:(left). Qed.
Lemma oracle_ctx2 : forall L o payload, valid (CLen 2 L o payload) -> oracle (CLen 2 L o payload) (C03.Model.run (CLen 2 L o payload)) = true.
Proof. str_A 2 false ctx2 ltac:(right). Qed.
Lemma oracle_ctx3 : forall L o payload, valid (CLen 3 L o payload) -> oracle (CLen 3 L o payload) (C03.Model.run (CLen 3 L o payload)) = true.
Proof. str_A 3 true ctx3 ltac:(left). Qed.
Lemma oracle_ctx4 : forall L o payload, valid (CLen 4 L o payload) -> oracle (CLen 4 L o payload) (C03.Model.run (CLen 4 L o payload)) = true.
Proof. str_A 4 false ctx4 ltac:(right). Qed.
Lemma oracle_ctx9 : forall L o payload, valid (CLen 9 L o payload) -> oracle (CLen 9 L o payload) (C03.Model.run (CLen 9 L o payload)) = true.
Proof. str_A 9 true ctx9 ltac:(left). Qed.
Lemma oracle_ctx19 : forall L o payload, valid (CLen 19 L o payload) -> oracle (CLen 19 L o payload) (C03.Model.run (CLen 19 L o payload)) = true.
Proof. str_A 19 false ctx19 ltac:(right). Qed.
Lemma oracle_ctx13 : forall L o payload, valid (CLen 13 L o payload) -> oracle (CLen 13 L o payload) (C03.Model.run (CLen 13 L o payload)) = true.
Proof. str_A 13 true ctx13 ltac:(left). Qed.
Lemma oracle_ctx14 : forall L o payload, valid (CLen 14 L o payload) -> oracle (CLen 14 L o payload) (C03.Model.run (CLen 14 L o payload)) = true.
Proof. str_A 14 true ctx14 ltac:(left). Qed.
Lemma oracle_ctx16 : forall L o payload, valid (CLen 16 L o payload) -> oracle (CLen 16 L o payload) (C03.Model.run (CLen 16 L o payload)) = true.
Proof. str_A 16 true ctx16 ltac:(left). Qed.

Lemma oracle_ctx21 : forall L o payload, valid (CLen 21 L o payload) -> oracle (CLen 21 L o payload) (C03.Model.run (CLen 21 L o payload)) = true.
Proof. str_A 21 true ctx21 ltac:(left). Qed.
Lemma oracle_ctx22 : forall L o payload, valid (CLen 22 L o payload) -> oracle (CLen 22 L o payload) (C03.Model.run (CLen 22 L o payload)) = true.
Proof. str_A 22 true ctx22 ltac:(left). Qed.
Lemma oracle_ctx23 : forall L o payload, valid (CLen 23 L o payload) -> oracle (CLen 23 L o payload) (C03.Model.run (CLen 23 L o payload)) = true.
Proof. str_A 23 true ctx23 ltac:(left). Qed.

(* one depth lock needed *)
Ltac str_B ctx utf8 lem lembad side :=
  intros L o payload Hv; valid_facts Hv;
  apply (str_oracle ctx L o payload utf8 Hv); try reflexivity;
  [ side; split; reflexivity
  | unfold pre_bad; spec_red; intros Hpre bs;
    apply orb_false_iff in Hpre; destruct Hpre as [Hpre _]; apply Z.ltb_ge in Hpre;
    destruct (depth0_S o Hpre) as [d ->]; apply lem
  | unfold pre_bad; spec_red; intros Hpre bs;
    apply orb_true_iff in Hpre; destruct Hpre as [Hpre|Hpre]; apply Z.ltb_lt in Hpre; [|lia];
    rewrite (depth0_O o Hpre); apply lembad ].

Lemma oracle_ctx10 : forall L o payload, valid (CLen 10 L o payload) -> oracle (CLen 10 L o payload) (C03.Model.run (CLen 10 L o payload)) = true.
Proof. str_B 10 true ctx10 ctx10_bad ltac:(left). Qed.
Lemma oracle_ctx11 : forall L o payload, valid (CLen 11 L o payload) -> oracle (CLen 11 L o payload) (C03.Model.run (CLen 11 L o payload)) = true.
Proof. str_B 11 true ctx11 ctx11_bad ltac:(left). Qed.
Lemma oracle_ctx12 : forall L o payload, valid (CLen 12 L o payload) -> oracle (CLen 12 L o payload) (C03.Model.run (CLen 12 L o payload)) = true.
Proof. str_B 12 false ctx12 ctx12_bad ltac:(right). Qed.
Lemma oracle_ctx15 : forall L o payload, valid (CLen 15 L o payload) -> oracle (CLen 15 L o payload) (C03.Model.run (CLen 15 L o payload)) = true.
Proof. str_B 15 true ctx15 ctx15_bad ltac:(left). Qed.

(* inside an array of one element *)
Ltac str_C ctx utf8 lem lembad side :=
  intros L o payload Hv; valid_facts Hv;
  apply (str_oracle ctx L o payload utf8 Hv); try reflexivity;
  [ side; split; reflexivity
  | unfold pre_bad; spec_red; intros Hpre bs;
    apply orb_false_iff in Hpre; destruct Hpre as [_ Hpre]; apply lem; exact Hpre
  | unfold pre_bad; spec_red; intros Hpre bs;
    apply orb_true_iff in Hpre; destruct Hpre as [Hpre|Hpre]; [apply Z.ltb_lt in Hpre; lia|];
    apply lembad; exact Hpre ].
Lemma oracle_ctx8 : forall L o payload, valid (CLen 8 L o payload) -> oracle (CLen 8 L o payload) (C03.Model.run (CLen 8 L o payload)) = true.
Proof. str_C 8 true ctx8 ctx8_bad ltac:(left). Qed.
Lemma oracle_ctx17 : forall L o payload, valid (CLen 17 L o payload) -> oracle (CLen 17 L o payload) (C03.Model.run (CLen 17 L o payload)) = true.
Proof. str_C 17 true ctx17 ctx17_bad ltac:(left). Qed.

Lemma oracle_ctx18 : forall L o payload, valid (CLen 18 L o payload) -> oracle (CLen 18 L o payload) (C03.Model.run (CLen 18 L o payload)) = true.
Proof.
  intros L o payload Hv; valid_facts Hv.
  apply (str_oracle 18 L o payload false Hv); try reflexivity.
  - right; split; reflexivity.
  - unfold pre_bad; spec_red; intros Hpre bs.
    apply orb_false_iff in Hpre. destruct Hpre as [H1 H2]. apply Z.ltb_ge in H1.
    destruct (depth0_SS o H1) as [d ->]. apply ctx18. exact H2.
  - unfold pre_bad; spec_red; intros Hpre bs. apply ctx18_bad.
    apply orb_true_iff in Hpre. destruct Hpre as [Hpre|Hpre]; [left|right; exact Hpre].
    apply Z.ltb_lt in Hpre. unfold depth0. lia.
Qed.

(* ---- array contexts ------------------------------------------------------------------------------------------ *)
Lemma list_eqb_eq a : forall b, list_eqb a b = true -> a = b.
Proof.
  induction a as [|x a IH]; intros [|y b] H; cbn in H; try discriminate; [reflexivity|].
  apply andb_true_iff in H. destruct H as [H1 H2]. apply Z.eqb_eq in H1. f_equal; auto.
Qed.

(* an element decoder that consumes exactly four bytes, whatever they are *)
Lemma dec_n_four {A} (m : M A) :
  (forall a b c d rest, exists v, run m (a :: b :: c :: d :: rest) = Ok (v, rest)) ->
  forall n bs, (4 * n <= length bs)%nat -> exists vs, run (dec_n n m) bs = Ok (vs, skipn (4 * n) bs).
Proof.
  intros Hm. induction n as [|n IH]; intros bs Hlen.
  - exists []. reflexivity.
  - destruct bs as [|a [|b [|c [|d bs]]]]; cbn [length] in Hlen; try lia.
    destruct (Hm a b c d bs) as [v Hv]. destruct (IH bs ltac:(lia)) as [vs Hvs].
    exists (v :: vs). cbn [dec_n]. rewrite run_bind, Hv, run_bind, Hvs, run_ret.
    replace (4 * S n)%nat with (S (S (S (S (4 * n))))) by lia. reflexivity.
Qed.

Lemma E5_four o d a b c e rest : exists v, run (dec_ty (TS 6) o d) (a :: b :: c :: e :: rest) = Ok (v, rest).
Proof.
  eexists. cbn [dec_ty]. change (dec_scalar o d 6) with (z <- read_i 4 ;; ret (SI32 z)).
  rewrite run_bind_omap, run_bind_omap, run_i4. reflexivity.
Qed.
Lemma E6_four o d a b c e rest : exists v, run (dec_value o d 6) (a :: b :: c :: e :: rest) = Ok (v, rest).
Proof.
  eexists. change (dec_value o d 6) with (s <- (z <- read_i 4 ;; ret (SI32 z)) ;; ret (VS s)).
  rewrite run_bind_omap, run_bind_omap, run_i4. reflexivity.
Qed.

Lemma in_i4_range L : in_i 4 L -> -2147483648 <= L < 2147483648.
Proof. unfold in_i. cbn. lia. Qed.

Lemma skipn_zlen_le {A} n (l : list A) : (n <= length l)%nat -> zlen l - zlen (skipn n l) = Z.of_nat n.
Proof. intros H. unfold zlen. rewrite skipn_length. lia. Qed.

Lemma spec5 : ctx_spec 5 = mk_ctx [] (TArr (TS 6)) LArr 4 0 0 false. Proof. reflexivity. Qed.
Lemma spec6 : ctx_spec 6 = mk_ctx [134] TVar LArr 4 0 0 true. Proof. reflexivity. Qed.
Lemma spec7 : ctx_spec 7 = mk_ctx [198; 1; 0; 0; 0; 7; 0; 0; 0] TVar LArr 4 0 1 false. Proof. reflexivity. Qed.
Lemma spec20 : ctx_spec 20 = mk_ctx [] (TArr TVar) LArr 1 0 0 false. Proof. reflexivity. Qed.
Ltac specs := cbn [cx_prefix cx_ty cx_lim cx_item cx_depth cx_arr cx_empty_ok].

(* the last branch of the oracle: anything but a panic *)
Lemma not_panic_ok (out : list Z) : out <> [-2] -> match out with [-2] => false | _ => true end = true.
Proof.
  intros H. destruct out as [|z [|z2 l]]; try reflexivity.
  destruct z as [|q|q]; try reflexivity. destruct q as [q|q|]; try reflexivity. destruct q; try reflexivity.
  - exfalso. apply H. reflexivity.
  - destruct z as [|q|q]; try reflexivity. destruct q as [q|q|]; try reflexivity. destruct q; reflexivity.
Qed.

Lemma oracle_ctx5 : forall L o payload, valid (CLen 5 L o payload) -> oracle (CLen 5 L o payload) (C03.Model.run (CLen 5 L o payload)) = true.
Proof.
  intros L o payload Hv. valid_facts Hv. pose proof (in_i4_range L HL) as HLr.
  pose proof (clen_no_panic 5 L o payload (proj1 Hp) Hpay) as Hnp.
  unfold oracle, payload_ok. rewrite spec5. specs.
  destruct (Z.ltb_spec (max_depth o) 0); [lia|]. destruct (Z.ltb_spec (max_arr o) 0); [lia|].
  cbn [orb andb limit_of]. change (5 =? 7) with false. change (5 =? 5) with true. cbn [andb]. cbv iota.
  rewrite andb_true_r.
  destruct (Z.ltb_spec L (-1)).
  { rewrite run_clen, spec5. specs. cbn [case_bytes]. rewrite spec5. specs. cbn [app dec_ty].
    rewrite run_bind_omap, array_negative by assumption. reflexivity. }
  destruct (Z.ltb_spec (max_arr o) L).
  { rewrite run_clen, spec5. specs. cbn [case_bytes]. rewrite spec5. specs. cbn [app dec_ty].
    rewrite run_bind_omap, array_over by assumption. reflexivity. }
  destruct (Z.leb_spec (Z.max 0 L * 4) (zlen payload)); [|apply not_panic_ok, Hnp].
  rewrite run_clen, zlen_clen, spec5. specs. cbn [case_bytes]. rewrite spec5. specs. cbn [app dec_ty].
  rewrite run_bind_omap. change (esize (TS 6)) with 4. rewrite array_length_check by exact HL.
  destruct (Z.eqb_spec L (-1)).
  { subst L. cbn [omap outZ]. apply list_eqb_true. f_equal. f_equal. unfold zlen. cbn [length]. lia. }
  destruct (Z.ltb_spec L (-1)); [lia|]. destruct (Z.ltb_spec (max_arr o) L); [lia|].
  destruct (dec_n_four (dec_ty (TS 6) o (depth0 o)) (E5_four o (depth0 o)) (Z.to_nat L) payload) as [vs Hvs];
    [unfold zlen in *; lia|].
  cbn [dec_ty] in Hvs. rewrite run_bind, Hvs, run_ret. cbn [omap outZ]. apply list_eqb_true. f_equal. f_equal.
  assert (Hsk := skipn_zlen_le (4 * Z.to_nat L) payload ltac:(unfold zlen in *; lia)).
  cbn [zlen length] in *. unfold zlen in *. cbn [length]. lia.
Qed.

Lemma E20_zero o d rest : run (dec_ty TVar o d) (0 :: rest) = Ok (UV VEmpty, rest).
Proof. cbn [dec_ty]. ev. unfold dec_value. ev. reflexivity. Qed.
Lemma dec_n_zeros o d : forall n bs, (n <= length bs)%nat -> firstn n bs = repeat 0 n ->
  exists vs, run (dec_n n (dec_ty TVar o d)) bs = Ok (vs, skipn n bs).
Proof.
  induction n as [|n IH]; intros bs Hl Hf; [exists []; reflexivity|].
  destruct bs as [|x bs]; [cbn in Hl; lia|]. cbn [firstn repeat] in Hf. inversion Hf; subst.
  destruct (IH bs ltac:(cbn in Hl; lia) H1) as [vs Hvs].
  exists (UV VEmpty :: vs). cbn [dec_n]. rewrite run_bind, E20_zero, run_bind, Hvs, run_ret. reflexivity.
Qed.

Lemma oracle_ctx20 : forall L o payload, valid (CLen 20 L o payload) -> oracle (CLen 20 L o payload) (C03.Model.run (CLen 20 L o payload)) = true.
Proof.
  intros L o payload Hv. valid_facts Hv. pose proof (in_i4_range L HL) as HLr.
  pose proof (clen_no_panic 20 L o payload (proj1 Hp) Hpay) as Hnp.
  unfold oracle, payload_ok. rewrite spec20. specs.
  destruct (Z.ltb_spec (max_depth o) 0); [lia|]. destruct (Z.ltb_spec (max_arr o) 0); [lia|].
  cbn [orb andb limit_of]. change (20 =? 7) with false. change (20 =? 5) with false. change (20 =? 6) with false.
  cbn [andb]. cbv iota.
  destruct (Z.ltb_spec L (-1)).
  { rewrite run_clen, spec20. specs. cbn [case_bytes]. rewrite spec20. specs. cbn [app dec_ty].
    rewrite run_bind_omap, array_negative by assumption. reflexivity. }
  destruct (Z.ltb_spec (max_arr o) L).
  { rewrite run_clen, spec20. specs. cbn [case_bytes]. rewrite spec20. specs. cbn [app dec_ty].
    rewrite run_bind_omap, array_over by assumption. reflexivity. }
  destruct ((Z.max 0 L * 1 <=? zlen payload) &&
            list_eqb (firstn (Z.to_nat (Z.max 0 L * 1)) payload) (repeat 0 (Z.to_nat (Z.max 0 L * 1)))) eqn:Hpk;
    [|apply not_panic_ok, Hnp].
  apply andb_true_iff in Hpk. destruct Hpk as [Hle Heq]. apply Z.leb_le in Hle. apply list_eqb_eq in Heq.
  rewrite run_clen, zlen_clen, spec20. specs. cbn [case_bytes]. rewrite spec20. specs. cbn [app].
  change (dec_ty (TArr TVar) o (depth0 o)) with
    (xs <- dec_array o (esize TVar) (dec_ty TVar o (depth0 o)) ;; ret (UA xs)).
  rewrite run_bind_omap, array_length_check by exact HL.
  destruct (Z.eqb_spec L (-1)).
  { subst L. cbn [omap outZ]. apply list_eqb_true. f_equal. f_equal. unfold zlen. cbn [length]. lia. }
  destruct (Z.ltb_spec L (-1)); [lia|]. destruct (Z.ltb_spec (max_arr o) L); [lia|].
  replace (Z.max 0 L * 1) with L in * by lia.
  destruct (dec_n_zeros o (depth0 o) (Z.to_nat L) payload ltac:(unfold zlen in *; lia) Heq) as [vs Hvs].
  rewrite run_bind, Hvs, run_ret. cbn [omap outZ]. apply list_eqb_true. f_equal. f_equal.
  assert (Hsk := skipn_zlen_le (Z.to_nat L) payload ltac:(unfold zlen in *; lia)).
  unfold zlen in *. cbn [length]. lia.
Qed.

Lemma oracle_ctx6 : forall L o payload, valid (CLen 6 L o payload) -> oracle (CLen 6 L o payload) (C03.Model.run (CLen 6 L o payload)) = true.
Proof.
  intros L o payload Hv. valid_facts Hv. pose proof (in_i4_range L HL) as HLr.
  pose proof (clen_no_panic 6 L o payload (proj1 Hp) Hpay) as Hnp.
  unfold oracle, payload_ok. rewrite spec6. specs.
  destruct (Z.ltb_spec (max_depth o) 0); [lia|]. destruct (Z.ltb_spec (max_arr o) 0); [lia|].
  cbn [orb andb limit_of]. change (6 =? 7) with false. change (6 =? 5) with false. change (6 =? 6) with true.
  cbn [andb]. cbv iota. rewrite andb_true_r.
  assert (Hrun : C03.Model.run (CLen 6 L o payload) =
    outZ (1 + 4 + zlen payload)
      (if L <? -1 then Err ENeg
       else if L <=? 0 then Ok (UV (VArray 6 [] (Some [])), payload)
       else if max_arr o <? L then Err ELimit
       else omap (fun vals => UV (VArray 6 vals None)) (run (dec_n (Z.to_nat L) (dec_value o (depth0 o) 6)) payload))).
  { rewrite run_clen, zlen_clen, spec6. specs. cbn [case_bytes]. rewrite spec6. specs. cbn [app].
    change (zlen [134]) with 1. f_equal.
    cbn [dec_ty]. rewrite run_bind_omap, dec_variant_eq. cbv zeta. rewrite run_bind, run_u1.
    change (134 mod 64) with 6. change (Z.testbit 134 7) with true. change (Z.testbit 134 6) with false. cbv iota.
    rewrite run_bind, run_read_i by (try lia; exact HL).
    destruct (L <? -1); [reflexivity|]. destruct (L <=? 0); [reflexivity|].
    destruct (max_arr o <? L); [reflexivity|].
    rewrite run_bind, run_alloc, run_bind.
    destruct (run (dec_n (Z.to_nat L) (dec_value o (depth0 o) 6)) payload) as [[vals r]|e|p]; reflexivity. }
  rewrite Hrun.
  destruct (Z.leb_spec (-1) L); cbn [andb].
  - destruct (Z.leb_spec L 0).
    + destruct (Z.ltb_spec L (-1)); [lia|]. cbn [outZ]. apply list_eqb_true. f_equal. f_equal. unfold zlen. cbn [length]. lia.
    + destruct (Z.ltb_spec L (-1)); [lia|]. destruct (Z.ltb_spec (max_arr o) L); [reflexivity|].
      destruct (Z.leb_spec (Z.max 0 L * 4) (zlen payload)); [|rewrite <- Hrun; apply not_panic_ok, Hnp].
      destruct (dec_n_four (dec_value o (depth0 o) 6) (E6_four o (depth0 o)) (Z.to_nat L) payload) as [vs Hvs];
        [unfold zlen in *; lia|].
      rewrite Hvs. cbn [omap outZ]. apply list_eqb_true. f_equal. f_equal.
      assert (Hsk := skipn_zlen_le (4 * Z.to_nat L) payload ltac:(unfold zlen in *; lia)).
      unfold zlen in *. cbn [length]. lia.
  - destruct (Z.ltb_spec L (-1)); [|lia]. reflexivity.
Qed.

(* context 7: the dimension list of a one-element Int32 array *)
Definition dims_tail (dims : option (list Z)) : M variant :=
  match dims with
  | Some ds =>
      if existsb (fun x : Z => x =? 0) ds then fail EInvalid
      else match u32_product ds with
           | Some p => if negb (p =? 1) then fail EInvalid else ret (VArray 6 [VS (SI32 7)] (Some ds))
           | None => fail EInvalid
           end
  | None => fail EInvalid
  end.

Local Opaque dec_array.
Lemma ctx7_eval o d bs : (max_arr o <? 1) = false ->
  run (dec_ty TVar o d) (198 :: 1 :: 0 :: 0 :: 0 :: 7 :: 0 :: 0 :: 0 :: bs) =
  omap UV (run (dims <- dec_array o 4 (read_u 4) ;; dims_tail dims) bs).
Proof.
  intros Ha. cbn [dec_ty]. rewrite run_bind_omap, dec_variant_eq. cbv zeta.
  repeat (timeout 20 ev1). rewrite Ha. repeat (timeout 20 ev1). change (Z.to_nat 1) with 1%nat. cbn [dec_n].
  unfold dec_value, dec_scalar. repeat (timeout 20 ev1). reflexivity.
Qed.
Lemma ctx7_bad o d bs : (max_arr o <? 1) = true ->
  rejected (run (dec_ty TVar o d) (198 :: 1 :: 0 :: 0 :: 0 :: 7 :: 0 :: 0 :: 0 :: bs)).
Proof.
  intros Ha. cbn [dec_ty]. rewrite run_bind_omap, dec_variant_eq. cbv zeta.
  repeat (timeout 20 ev1). rewrite Ha. repeat (timeout 20 ev1). eexists; reflexivity.
Qed.
Local Transparent dec_array.

Lemma dec_n_ones : forall n bs, (4 * n <= length bs)%nat ->
  firstn (4 * n) bs = concat (repeat [1; 0; 0; 0] n) ->
  run (dec_n n (read_u 4)) bs = Ok (repeat 1 n, skipn (4 * n) bs).
Proof.
  induction n as [|n IH]; intros bs Hl Hf; [reflexivity|].
  replace (4 * S n)%nat with (S (S (S (S (4 * n))))) in * by lia.
  destruct bs as [|a [|b [|c [|e bs]]]]; cbn [length] in Hl; try lia.
  cbn [firstn repeat concat app] in Hf. inversion Hf; subst.
  cbn [dec_n]. rewrite run_bind.
  change (1 :: 0 :: 0 :: 0 :: bs) with ([1; 0; 0; 0] ++ bs).
  unfold read_u at 1. rewrite run_bind, (run_take_n 4) by reflexivity. rewrite run_ret.
  rewrite run_bind, IH by (try lia; assumption). rewrite run_ret. reflexivity.
Qed.
Lemma existsb_ones n : existsb (fun x : Z => x =? 0) (repeat 1 n) = false.
Proof. induction n; cbn; auto. Qed.
Lemma u32_product_ones n : u32_product (repeat 1 n) = Some 1.
Proof. unfold u32_product. induction n; cbn [repeat fold_left]; [reflexivity|]. exact IHn. Qed.

Lemma oracle_ctx7 : forall L o payload, valid (CLen 7 L o payload) -> oracle (CLen 7 L o payload) (C03.Model.run (CLen 7 L o payload)) = true.
Proof.
  intros L o payload Hv. valid_facts Hv. pose proof (in_i4_range L HL) as HLr.
  pose proof (clen_no_panic 7 L o payload (proj1 Hp) Hpay) as Hnp.
  unfold oracle, payload_ok. rewrite spec7. specs.
  destruct (Z.ltb_spec (max_depth o) 0); [lia|]. cbn [orb limit_of andb]. change (7 =? 7) with true. cbn [andb]. cbv iota.
  assert (Hbytes : C03.Model.run (CLen 7 L o payload) =
     outZ (9 + 4 + zlen payload)
          (run (dec_ty TVar o (depth0 o)) (198 :: 1 :: 0 :: 0 :: 0 :: 7 :: 0 :: 0 :: 0 :: enc_i 4 L ++ payload))).
  { rewrite run_clen, zlen_clen, spec7. specs. cbn [case_bytes]. rewrite spec7. specs. reflexivity. }
  destruct (max_arr o <? 1) eqn:Harr.
  { rewrite Hbytes, (outZ_rejected _ _ (ctx7_bad o _ _ Harr)). reflexivity. }
  destruct (Z.ltb_spec L (-1)).
  { rewrite Hbytes, ctx7_eval by exact Harr. rewrite run_bind, array_negative by assumption. reflexivity. }
  destruct (Z.ltb_spec (max_arr o) L).
  { rewrite Hbytes, ctx7_eval by exact Harr. rewrite run_bind, array_over by assumption. reflexivity. }
  destruct (Z.eqb_spec L (-1)).
  { rewrite Hbytes, ctx7_eval by exact Harr. rewrite run_bind, array_length_check by exact HL. subst L.
    change (-1 =? -1) with true. cbv iota. cbn [dims_tail]. rewrite run_fail. reflexivity. }
  replace (Z.max 0 L) with L by lia.
  destruct ((L * 4 <=? zlen payload) &&
            list_eqb (firstn (Z.to_nat (L * 4)) payload) (concat (repeat [1; 0; 0; 0] (Z.to_nat L)))) eqn:Hpk;
    [|apply not_panic_ok, Hnp].
  apply andb_true_iff in Hpk. destruct Hpk as [Hle Heq]. apply Z.leb_le in Hle. apply list_eqb_eq in Heq.
  replace (Z.to_nat (L * 4)) with (4 * Z.to_nat L)%nat in Heq by lia.
  rewrite Hbytes, ctx7_eval by exact Harr. rewrite run_bind, array_length_check by exact HL.
  destruct (Z.eqb_spec L (-1)); [lia|]. destruct (Z.ltb_spec L (-1)); [lia|]. destruct (Z.ltb_spec (max_arr o) L); [lia|].
  rewrite run_bind, (dec_n_ones (Z.to_nat L) payload) by (try assumption; unfold zlen in *; lia).
  rewrite run_ret. cbn [dims_tail]. rewrite existsb_ones, u32_product_ones. cbn [Z.eqb Pos.eqb negb].
  rewrite run_ret. cbn [omap outZ]. apply list_eqb_true. f_equal. f_equal.
  assert (Hsk := skipn_zlen_le (4 * Z.to_nat L) payload ltac:(unfold zlen in *; lia)).
  unfold zlen in *. cbn [length]. lia.
Qed.

(* ---- Variant arrays of every element type, at every nesting ----------------------------------------------- *)
Lemma varr_mask_facts ety (b : bool) : 0 <= ety < 64 ->
  is_byte (varr_mask ety b) /\ Z.testbit (varr_mask ety b) 7 = true /\ varr_mask ety b mod 64 = ety.
Proof.
  intros H. assert (Hc : exists n, (n < 64)%nat /\ ety = Z.of_nat n) by (exists (Z.to_nat ety); lia).
  destruct Hc as (n & Hn & ->). unfold varr_mask.
  do 64 (destruct n as [|n]; [destruct b; vm_compute; repeat split; congruence|]). lia.
Qed.

Section VArrHeader.
  Variables (o : opts) (d : nat) (m L : Z) (payload : bytes).
  Hypothesis Hm : is_byte m.
  Hypothesis Hbit : Z.testbit m 7 = true.
  Hypothesis HL : in_i 4 L.

  Lemma varr_neg : L < -1 -> run (dec_variant o d) (m :: enc_i 4 L ++ payload) = Err ENeg.
  Proof.
    intros H. rewrite dec_variant_eq. cbv zeta. rewrite run_bind, run_read_byte by exact Hm. rewrite Hbit.
    rewrite run_bind, run_read_i by (try lia; exact HL). destruct (Z.ltb_spec L (-1)); [reflexivity|lia].
  Qed.
  Lemma varr_empty : -1 <= L <= 0 ->
    run (dec_variant o d) (m :: enc_i 4 L ++ payload) =
    if known_ty (m mod 64) then Ok (VArray (m mod 64) [] (Some []), payload) else Err EInvalid.
  Proof.
    intros H. rewrite dec_variant_eq. cbv zeta. rewrite run_bind, run_read_byte by exact Hm. rewrite Hbit.
    rewrite run_bind, run_read_i by (try lia; exact HL). destruct (Z.ltb_spec L (-1)); [lia|].
    destruct (Z.leb_spec L 0); [|lia]. destruct (known_ty (m mod 64)); reflexivity.
  Qed.
  (* the limit of a Variant array is max_array_length, for every element type, whatever follows and
     whatever the string limits are *)
  Lemma varr_over : 0 < L -> max_arr o < L -> run (dec_variant o d) (m :: enc_i 4 L ++ payload) = Err ELimit.
  Proof.
    intros H0 H. rewrite dec_variant_eq. cbv zeta. rewrite run_bind, run_read_byte by exact Hm. rewrite Hbit.
    rewrite run_bind, run_read_i by (try lia; exact HL). destruct (Z.ltb_spec L (-1)); [lia|].
    destruct (Z.leb_spec L 0); [lia|]. destruct (Z.ltb_spec (max_arr o) L); [reflexivity|lia].
  Qed.
End VArrHeader.

(* a well-formed non-empty Variant array whose elements and dimension list are within the limits is
   accepted iff its length is within max_array_length *)
Lemma varr_accept_iff o d ty vals dims rest : offset_ns o = 0 -> wf_variant (VArray ty vals dims) -> vals <> [] ->
  chk_list (chk_variant o d) vals = None ->
  (match dims with Some ds => Z.of_nat (length ds) <= max_arr o | None => True end) ->
  run (dec_variant o d) (enc_variant (VArray ty vals dims) ++ rest) =
  if Z.of_nat (length vals) <=? max_arr o then Ok (norm_variant (VArray ty vals dims), rest) else Err ELimit.
Proof.
  intros Ho Hw Hne Hel Hd. unfold enc_variant. rewrite (proj2 (variant_law o Ho _)) by exact Hw.
  destruct vals as [|x xs]; [contradiction|]. set (vals := x :: xs) in *.
  assert (E : chk_variant o d (VArray ty vals dims) =
                if max_arr o <? Z.of_nat (length vals) then Some ELimit
                else seq_chk (chk_list (chk_variant o d) vals)
                       (match dims with
                        | Some ds => if max_arr o <? Z.of_nat (length ds) then Some ELimit else None
                        | None => None end)).
  { subst vals. cbn [chk_variant]. rewrite <- chk_first_list. reflexivity. }
  rewrite E, Hel. cbn [seq_chk].
  destruct (Z.ltb_spec (max_arr o) (Z.of_nat (length vals))); destruct (Z.leb_spec (Z.of_nat (length vals)) (max_arr o));
    try lia; [reflexivity|].
  destruct dims as [ds|]; [|reflexivity]. destruct (Z.ltb_spec (max_arr o) (Z.of_nat (length ds))); [lia|reflexivity].
Qed.

Lemma run_u4 a b c e rest : run (read_u 4) (a :: b :: c :: e :: rest) = Ok (a + 256 * (b + 256 * (c + 256 * e)), rest).
Proof.
  unfold read_u. rewrite run_bind. change (a :: b :: c :: e :: rest) with ([a; b; c; e] ++ rest).
  rewrite (run_take_n 4) by reflexivity. rewrite run_ret. cbn [le_dec]. f_equal. f_equal. lia.
Qed.

(* the nestings: after the prefix the decoder is Variant::decode, and nothing is read after it *)
Ltac ev0 :=
  first
  [ rewrite run_bind_omap | rewrite run_bind
  | rewrite run_ret | rewrite run_fail | rewrite run_bump | rewrite run_alloc | rewrite run_lock
  | rewrite run_u1 | rewrite run_u2 | rewrite run_u4 | rewrite run_i4
  | progress compute_closed
  | progress cbn [app dec_opt is_some fst snd negb andb orb omap] ].
Ltac fin0 := match goal with |- same_shape _ (Codec.run ?m ?bs) =>
  destruct (Codec.run m bs) as [[?x ?r]|?e|?p]; cbn [omap]; repeat (timeout 20 ev0); cbn [omap same_shape]; auto end.

Local Opaque dec_variant.
Lemma nest0 o d bs : same_shape (run (dec_ty TVar o d) bs) (run (dec_variant o d) bs).
Proof. cbn [dec_ty]. rewrite run_bind_omap. fin0. Qed.
Lemma nest1 o d bs : same_shape (run (dec_ty TDV o (S d)) (1 :: bs)) (run (dec_variant o d) bs).
Proof.
  cbn [dec_ty]. rewrite run_bind_omap. unfold dec_dv. rewrite run_lock. cbv iota. unfold dec_dv_fields.
  repeat (timeout 20 ev0). fin0.
Qed.
Lemma nest1_bad o bs : rejected (run (dec_ty TDV o O) (1 :: bs)).
Proof. cbn [dec_ty]. rewrite run_bind_omap. unfold dec_dv. rewrite run_lock. eexists; reflexivity. Qed.
Lemma nest4 o d bs :
  same_shape (run (dec_ty T_WriteValue o (S d)) (0 :: 0 :: 13 :: 0 :: 0 :: 0 :: 255 :: 255 :: 255 :: 255 :: 1 :: bs))
             (run (dec_variant o d) bs).
Proof.
  unfold T_WriteValue. cbn [dec_ty]. unfold dec_scalar. repeat (timeout 20 ev0).
  unfold dec_nodeid. repeat (timeout 20 ev0). unfold dec_nodeid_body. repeat (timeout 20 ev0).
  unfold dec_str, dec_ustr. repeat (timeout 20 ev0).
  unfold dec_dv. rewrite run_lock. cbv iota. unfold dec_dv_fields. repeat (timeout 20 ev0). fin0.
Qed.
Lemma nest4_bad o bs :
  rejected (run (dec_ty T_WriteValue o O) (0 :: 0 :: 13 :: 0 :: 0 :: 0 :: 255 :: 255 :: 255 :: 255 :: 1 :: bs)).
Proof.
  unfold T_WriteValue. cbn [dec_ty]. unfold dec_scalar. repeat (timeout 20 ev0).
  unfold dec_nodeid. repeat (timeout 20 ev0). unfold dec_nodeid_body. repeat (timeout 20 ev0).
  unfold dec_str, dec_ustr. repeat (timeout 20 ev0).
  unfold dec_dv. rewrite run_lock. repeat (timeout 20 ev0). eexists; reflexivity.
Qed.
Local Transparent dec_variant.

(* the two nestings that start inside a Variant: unfold the outer Variant::decode only *)
Lemma nest2 o d bs : same_shape (run (dec_ty TVar o (S d)) (24 :: bs)) (run (dec_variant o d) bs).
Proof.
  cbn [dec_ty]. rewrite run_bind_omap, dec_variant_eq. cbv zeta. rewrite run_bind, run_u1.
  change (24 mod 64) with 24. change (Z.testbit 24 7) with false. change (Z.testbit 24 6) with false. cbv iota.
  unfold dec_value. change (24 =? 0) with false. change (24 =? 24) with true. cbv iota.
  rewrite run_bump, run_bind_omap.
  destruct (run (dec_variant o d) bs) as [[x r]|e|p]; cbn [omap same_shape]; auto.
Qed.
Lemma nest2_bad o bs : rejected (run (dec_ty TVar o O) (24 :: bs)).
Proof.
  cbn [dec_ty]. rewrite run_bind_omap, dec_variant_eq. cbv zeta. rewrite run_bind, run_u1.
  change (24 mod 64) with 24. change (Z.testbit 24 7) with false. change (Z.testbit 24 6) with false. cbv iota.
  unfold dec_value. change (24 =? 0) with false. change (24 =? 24) with true. cbv iota.
  rewrite run_fail. eexists; reflexivity.
Qed.
Lemma nest3 o d bs : same_shape (run (dec_ty TVar o (S d)) (23 :: 1 :: bs)) (run (dec_variant o d) bs).
Proof.
  cbn [dec_ty]. rewrite run_bind_omap, dec_variant_eq. cbv zeta. rewrite run_bind, run_u1.
  change (23 mod 64) with 23. change (Z.testbit 23 7) with false. change (Z.testbit 23 6) with false. cbv iota.
  unfold dec_value. change (23 =? 0) with false. change (23 =? 24) with false. change (23 =? 23) with true. cbv iota.
  rewrite run_bump, run_bind_omap. unfold dec_dv_fields. rewrite run_bind, run_u1.
  change (Z.testbit 1 0) with true. change (Z.testbit 1 1) with false. change (Z.testbit 1 2) with false.
  change (Z.testbit 1 3) with false. change (Z.testbit 1 4) with false. change (Z.testbit 1 5) with false.
  cbn [dec_opt]. rewrite run_bind, run_bind_omap.
  destruct (run (dec_variant o d) bs) as [[x r]|e|p]; cbn [omap]; [|cbn [same_shape]; auto..].
  repeat (rewrite run_bind, run_ret). rewrite run_ret. cbn [omap same_shape]. reflexivity.
Qed.
Lemma nest3_bad o bs : rejected (run (dec_ty TVar o O) (23 :: 1 :: bs)).
Proof.
  cbn [dec_ty]. rewrite run_bind_omap, dec_variant_eq. cbv zeta. rewrite run_bind, run_u1.
  change (23 mod 64) with 23. change (Z.testbit 23 7) with false. change (Z.testbit 23 6) with false. cbv iota.
  unfold dec_value. change (23 =? 0) with false. change (23 =? 24) with false. change (23 =? 23) with true. cbv iota.
  rewrite run_fail. eexists; reflexivity.
Qed.

Lemma varr_out o d n ety b L payload : 0 <= ety < 64 -> in_i 4 L ->
  let r := run (dec_variant o d) (varr_mask ety b :: enc_i 4 L ++ payload) in
  (L < -1 -> outZ n r = [-1]) /\
  (-1 <= L <= 0 -> outZ n r = if known_ty ety then [0; n - zlen payload] else [-1]) /\
  (0 < L -> max_arr o < L -> outZ n r = [-1]).
Proof.
  intros He HL. destruct (varr_mask_facts ety b He) as (Hm & Hbit & Hmod). cbv zeta. repeat split; intros.
  - rewrite varr_neg by assumption. reflexivity.
  - rewrite varr_empty by assumption. rewrite Hmod. destruct (known_ty ety); reflexivity.
  - rewrite varr_over by assumption. reflexivity.
Qed.

Lemma nest_ty_sane nest : ty_sane (snd (fst (nest_spec nest))).
Proof.
  unfold nest_spec. repeat match goal with |- context [if ?c then _ else _] => destruct c end; cbn [fst snd]; try exact I.
  pose proof all_structs_sane as H. rewrite Forall_forall in H. apply H. vm_compute. auto 400.
Qed.

Lemma varr_no_panic nest ety b L o payload : 0 <= nest <= 4 -> 0 <= ety < 64 -> offset_ns o = 0 -> Forall is_byte payload ->
  C03.Model.run (CVArr nest ety b L o payload) <> [-2].
Proof.
  intros Hn He Ho Hp.
  change (C03.Model.run (CVArr nest ety b L o payload)) with
    (outZ (zlen (case_bytes (CVArr nest ety b L o payload)))
       (run (dec_ty (snd (fst (nest_spec nest))) o (depth0 o)) (case_bytes (CVArr nest ety b L o payload)))).
  assert (Hb : byte_list (case_bytes (CVArr nest ety b L o payload))).
  { cbn [case_bytes]. apply Forall_app. split.
    - unfold nest_spec. repeat match goal with |- context [if ?c then _ else _] => destruct c end;
        cbn [fst]; repeat constructor; unfold is_byte; lia.
    - apply Forall_app. split; [repeat constructor; apply (varr_mask_facts ety b He)|].
      apply Forall_app. split; [apply enc_i_bytes|exact Hp]. }
  pose proof (decoded_wf_run o (depth0 o) _ _ Ho (nest_ty_sane nest) Hb) as H.
  destruct (run (dec_ty (snd (fst (nest_spec nest))) o (depth0 o)) (case_bytes (CVArr nest ety b L o payload))) as [[v r]|e|p];
    cbn [outZ]; [discriminate|discriminate|contradiction].
Qed.

Lemma oracle_varr nest ety b L o payload : valid (CVArr nest ety b L o payload) ->
  oracle (CVArr nest ety b L o payload) (C03.Model.run (CVArr nest ety b L o payload)) = true.
Proof.
  intros Hv. pose proof Hv as (Hn & He & HL & Hp & Hpay). pose proof Hp as (Ho & Hd & _).
  pose proof (in_i4_range L HL) as HLr.
  pose proof (varr_no_panic nest ety b L o payload Hn He Ho Hpay) as Hnp.
  (* the run as the outcome of Variant::decode at the length field, or a rejection for lack of depth *)
  set (pre := fst (fst (nest_spec nest))). set (need := snd (nest_spec nest)).
  assert (Hrun : (max_depth o <? need = true -> C03.Model.run (CVArr nest ety b L o payload) = [-1]) /\
                 (max_depth o <? need = false -> exists d,
                    C03.Model.run (CVArr nest ety b L o payload) =
                    outZ (zlen pre + 5 + zlen payload)
                         (run (dec_variant o d) (varr_mask ety b :: enc_i 4 L ++ payload)))).
  { assert (Hz : zlen (case_bytes (CVArr nest ety b L o payload)) = zlen pre + 5 + zlen payload).
    { cbn [case_bytes]. fold pre. unfold zlen. rewrite !app_length, enc_i_length. cbn [length]. lia. }
    assert (Hc : nest = 0 \/ nest = 1 \/ nest = 2 \/ nest = 3 \/ nest = 4) by lia.
    change (C03.Model.run (CVArr nest ety b L o payload)) with
      (outZ (zlen (case_bytes (CVArr nest ety b L o payload)))
         (run (dec_ty (snd (fst (nest_spec nest))) o (depth0 o)) (case_bytes (CVArr nest ety b L o payload)))).
    rewrite Hz. cbn [case_bytes]. subst pre need.
    destruct Hc as [-> | [-> | [-> | [-> | ->]]]]; cbn [nest_spec Z.eqb Pos.eqb fst snd app]; split; intros Hdep.
    - apply Z.ltb_lt in Hdep. lia.
    - exists (depth0 o). apply outZ_shape, nest0.
    - apply Z.ltb_lt in Hdep. rewrite (depth0_O o) by lia. apply outZ_rejected, nest1_bad.
    - apply Z.ltb_ge in Hdep. destruct (depth0_S o Hdep) as [d ->]. exists d. apply outZ_shape, nest1.
    - apply Z.ltb_lt in Hdep. rewrite (depth0_O o) by lia. apply outZ_rejected, nest2_bad.
    - apply Z.ltb_ge in Hdep. destruct (depth0_S o Hdep) as [d ->]. exists d. apply outZ_shape, nest2.
    - apply Z.ltb_lt in Hdep. rewrite (depth0_O o) by lia. apply outZ_rejected, nest3_bad.
    - apply Z.ltb_ge in Hdep. destruct (depth0_S o Hdep) as [d ->]. exists d. apply outZ_shape, nest3.
    - apply Z.ltb_lt in Hdep. rewrite (depth0_O o) by lia. apply outZ_rejected, nest4_bad.
    - apply Z.ltb_ge in Hdep. destruct (depth0_S o Hdep) as [d ->]. exists d. apply outZ_shape, nest4. }
  destruct Hrun as [Hbad Hok]. unfold oracle. fold pre need.
  destruct (max_depth o <? need) eqn:Hdep; [rewrite (Hbad eq_refl); reflexivity|].
  destruct (Hok eq_refl) as [d Hr].
  destruct (varr_out o d (zlen pre + 5 + zlen payload) ety b L payload He HL) as (H1 & H2 & H3).
  destruct (Z.ltb_spec L (-1)); [rewrite Hr, H1 by lia; reflexivity|].
  destruct (Z.leb_spec L 0).
  { rewrite Hr, H2 by lia. destruct (known_ty ety); [|reflexivity]. apply list_eqb_true. f_equal. f_equal. lia. }
  destruct (Z.ltb_spec (max_arr o) L); [rewrite Hr, H3 by lia; reflexivity|].
  apply not_panic_ok, Hnp.
Qed.

(* ---- the oracle holds on the model, for every case ------------------------------------------------------------ *)
Theorem oracle_holds c : valid c -> known c = 0 -> oracle c (C03.Model.run c) = true.
Proof.
  intros Hv _. destruct c as [t v o|ctx L o payload|o size body|nest ety b L o payload].
  - destruct Hv as [Hw Hpl]. apply oracle_val_case; assumption.
  - assert (Hc : ctx = 1 \/ ctx = 2 \/ ctx = 3 \/ ctx = 4 \/ ctx = 5 \/ ctx = 6 \/ ctx = 7 \/ ctx = 8 \/ ctx = 9 \/ ctx = 10
                 \/ ctx = 11 \/ ctx = 12 \/ ctx = 13 \/ ctx = 14 \/ ctx = 15 \/ ctx = 16 \/ ctx = 17 \/ ctx = 18
                 \/ ctx = 19 \/ ctx = 20 \/ ctx = 21 \/ ctx = 22 \/ ctx = 23) by (destruct Hv as [Hctx _]; lia).
    repeat (destruct Hc as [->|Hc]); [..|subst ctx].
    + apply oracle_ctx1, Hv. + apply oracle_ctx2, Hv. + apply oracle_ctx3, Hv. + apply oracle_ctx4, Hv.
    + apply oracle_ctx5, Hv. + apply oracle_ctx6, Hv. + apply oracle_ctx7, Hv. + apply oracle_ctx8, Hv.
    + apply oracle_ctx9, Hv. + apply oracle_ctx10, Hv. + apply oracle_ctx11, Hv. + apply oracle_ctx12, Hv.
    + apply oracle_ctx13, Hv. + apply oracle_ctx14, Hv. + apply oracle_ctx15, Hv. + apply oracle_ctx16, Hv.
    + apply oracle_ctx17, Hv. + apply oracle_ctx18, Hv. + apply oracle_ctx19, Hv. + apply oracle_ctx20, Hv.
    + apply oracle_ctx21, Hv. + apply oracle_ctx22, Hv. + apply oracle_ctx23, Hv.
  - destruct Hv as (Hs & _ & Hm). apply oracle_chunk_case; assumption.
  - apply oracle_varr, Hv.
Qed.

Example oracle_example :
  valid (CLen 18 5 (mk_opts 65535 5 3 327675 10 0) [1; 2; 3; 4; 5; 9]) /\
  valid (CVArr 4 3 true 4 (mk_opts 7 9 3 327675 10 0) [1; 2; 3; 4]).
Proof.
  split; cbn; unfold plain, in_i, is_byte; cbn; repeat split; try lia; repeat constructor; lia.
Qed.
