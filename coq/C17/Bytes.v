(* C17 — the byte-level code model (create / verify_data of Proofs.v: the signed data is
   DER(certificate) ++ nonce, the algorithm is the policy's) run with an IDEAL signature scheme on
   bytes, and the proof that it gives exactly the verdicts of the table model [all_match] the
   correspondence compares the implementation with. *)
From Coq Require Import List ZArith Bool Lia.
Import ListNotations.
From OV Require Import C17.Model C17.Proofs.
Open Scope Z_scope.

(* ideal scheme: keys are numbers, the public key of k is k, a signature is the algorithm, the
   key, the length of the data and the data themselves; only the untouched signature verifies *)
Definition alg_tag (a : alg) : Z := match a with RsaSha1 => 1 | RsaSha256 => 2 | PssSha256 => 3 end.
Definition ideal_sign (a : alg) (k : Z) (d : list Z) : list Z := alg_tag a :: k :: Z.of_nat (length d) :: d.
Definition ideal_verify (a : alg) (pk : Z) (d s : list Z) : bool := list_eqb s (ideal_sign a pk d).

(* the bytes of a certificate as far as the case carries them: the DER header, then the identity,
   then filler up to the DER length *)
Definition cert_bytes (x : cert) : list Z :=
  c_hdr x ++ c_id x :: repeat 0 (Z.to_nat (c_len x) - length (c_hdr x) - 1).

(* what the harness does to the signature *)
Definition mutate (m : sigmut) (s : list Z) : list Z :=
  match m with
  | SigIntact => s
  | SigFlipped => match s with b :: s' => (b + 128) :: s' | [] => [] end
  | SigTruncated => removelast s
  | SigExtended => s ++ [0]
  | SigEmpty => []
  end.

Definition run_bytes (c : case) : list Z :=
  let s := create Z ideal_sign (p_sign c) (signer_key c) (cert_bytes (signed_cert c)) (signed_nonce c) in
  [if verify_data Z ideal_verify (p_verify c) (mutate (mut c) s) (c_key (verify_cert c))
        (cert_bytes (checked_cert c)) (checked_nonce c) then 0 else 1].

(* the certificates of a case are real ones: well-formed DER with room for the identity, and the
   same identity means the same certificate *)
Definition cert_ok (x : cert) : Prop :=
  der_wf (cert_bytes x) = true.
Definition coherent (c : case) : Prop :=
  cert_ok (signed_cert c) /\ cert_ok (checked_cert c) /\
  (c_id (signed_cert c) = c_id (checked_cert c) -> signed_cert c = checked_cert c) /\
  length (c_hdr (signed_cert c)) = length (c_hdr (checked_cert c)).

Lemma list_eqb_refl l : list_eqb l l = true.
Proof. induction l as [|x l IH]; cbn; [reflexivity|]. rewrite Z.eqb_refl. exact IH. Qed.
Lemma list_eqb_true a : forall b, list_eqb a b = true -> a = b.
Proof.
  induction a as [|x a IH]; intros [|y b] H; cbn in H; try discriminate; [reflexivity|].
  apply andb_true_iff in H as [H1 H2]. apply Z.eqb_eq in H1. f_equal; [exact H1 | apply IH; exact H2].
Qed.
Lemma list_eqb_false a b : a <> b -> list_eqb a b = false.
Proof. intro H. destruct (list_eqb a b) eqn:E; [|reflexivity]. apply list_eqb_true in E. contradiction. Qed.

Lemma ideal_lawful a k d : ideal_verify a k d (ideal_sign a k d) = true.
Proof. apply list_eqb_refl. Qed.

Lemma alg_tag_inj a b : alg_tag a = alg_tag b -> a = b.
Proof. destruct a, b; cbn; intro H; try reflexivity; discriminate. Qed.
Lemma alg_eqb_true a b : alg_eqb a b = true <-> a = b.
Proof. destruct a, b; cbn; split; intro H; try reflexivity; discriminate. Qed.

Lemma app_eq_len {X} (a : list X) : forall c b d, length a = length c -> a ++ b = c ++ d -> a = c /\ b = d.
Proof.
  induction a as [|x a IH]; intros [|y c] b d Hl H; cbn in Hl; try discriminate.
  - split; [reflexivity | exact H].
  - cbn in H. injection H as H1 H2. destruct (IH c b d ltac:(lia) H2) as [E1 E2]. subst. split; reflexivity.
Qed.
Lemma cert_bytes_id x y : length (c_hdr x) = length (c_hdr y) -> cert_bytes x = cert_bytes y -> c_id x = c_id y.
Proof.
  intros Hl E. unfold cert_bytes in E. apply app_eq_len in E; [|exact Hl]. destruct E as [_ E]. injection E as E _. exact E.
Qed.

(* an intact signature is accepted exactly when algorithm, key and data are the signed ones *)
Lemma intact_iff a a' k k' d d' :
  ideal_verify a' k' d' (ideal_sign a k d) = true <-> a = a' /\ k = k' /\ d = d'.
Proof.
  unfold ideal_verify, ideal_sign. split.
  - intro H. apply list_eqb_true in H. inversion H as [[H1 H2 H3 H4]]. apply alg_tag_inj in H1. auto.
  - intros (-> & -> & ->). apply list_eqb_refl.
Qed.

Lemma removelast_length {X} (l : list X) : l <> [] -> S (length (removelast l)) = length l.
Proof.
  intro H. destruct (exists_last H) as [l' [x E]]. subst l. rewrite removelast_last, app_length. cbn. lia.
Qed.

(* a touched signature is never accepted, whatever is expected *)
Lemma touched_rejected m a a' k k' d d' : m <> SigIntact ->
  ideal_verify a' k' d' (mutate m (ideal_sign a k d)) = false.
Proof.
  intro Hm. unfold ideal_verify. apply list_eqb_false. unfold ideal_sign.
  destruct m; try contradiction; cbn [mutate].
  - intro E. apply (f_equal (fun l => hd 0 l)) in E. cbn [hd] in E. destruct a, a'; cbn in E; lia.
  - destruct d as [|x d0].
    + cbn. discriminate.
    + change (removelast (alg_tag a :: k :: Z.of_nat (length (x :: d0)) :: x :: d0))
        with (alg_tag a :: k :: Z.of_nat (length (x :: d0)) :: removelast (x :: d0)).
      intro E. set (d := x :: d0) in *.
      assert (E3 := f_equal (fun l => nth 2 l 0) E). assert (E4 := f_equal (fun l => length (skipn 3 l)) E).
      cbn [nth skipn] in E3, E4. apply Nat2Z.inj in E3.
      pose proof (removelast_length d ltac:(discriminate)) as Hl. lia.
  - cbn [app]. intro E.
    assert (E3 := f_equal (fun l => nth 2 l 0) E). assert (E4 := f_equal (fun l => length (skipn 3 l)) E).
    cbn [nth skipn] in E3, E4. apply Nat2Z.inj in E3. rewrite app_length in E4. cbn [length] in E4. lia.
  - discriminate.
Qed.

Lemma all_match_iff c : all_match c = true <->
  alg_of (p_sign c) = alg_of (p_verify c) /\ signer_key c = c_key (verify_cert c) /\
  c_id (signed_cert c) = c_id (checked_cert c) /\ signed_nonce c = checked_nonce c /\ mut c = SigIntact.
Proof.
  unfold all_match. rewrite !andb_true_iff, alg_eqb_true, !Z.eqb_eq. split.
  - intros ((((H1 & H2) & H3) & H4) & H5). apply list_eqb_true in H4.
    destruct (mut c); try discriminate. auto.
  - intros (H1 & H2 & H3 & H4 & H5). rewrite H4, H5, list_eqb_refl. auto.
Qed.

(* T: the code model with the ideal scheme gives the verdict of the table model, for every case
   with real certificates *)
Theorem run_bytes_eq c : coherent c -> run_bytes c = run c.
Proof.
  intros (Wa & Wb & Hid & Lh). unfold run_bytes, run, create, verify_data. f_equal.
  destruct (all_match c) eqn:Em.
  - apply all_match_iff in Em. destruct Em as (H1 & H2 & H3 & H4 & H5).
    rewrite H5. cbn [mutate]. rewrite (Hid H3), H1, H2, H4, ideal_lawful. reflexivity.
  - destruct (ideal_verify _ _ _ _) eqn:Ev; [|reflexivity]. exfalso.
    assert (Hm : mut c = SigIntact).
    { destruct (mut c) eqn:Hmut; try reflexivity; rewrite touched_rejected in Ev; discriminate. }
    rewrite Hm in Ev. cbn [mutate] in Ev. apply intact_iff in Ev. destruct Ev as (H1 & H2 & H3).
    apply concat_injective in H3; [|assumption|assumption]. destruct H3 as [H3 H4].
    assert (all_match c = true); [|congruence].
    apply all_match_iff. repeat split; try assumption. apply cert_bytes_id; assumption.
Qed.

(* the ideal scheme satisfies the one law the byte-level theorems assume *)
Theorem ideal_sign_verifies a k d : ideal_verify a k d (ideal_sign a k d) = true.
Proof. apply ideal_lawful. Qed.

Example coherent_example :
  let x := mk_cert 0 0 [48; 130; 0; 4; 48; 130] 8 in let y := mk_cert 1 1 [48; 130; 0; 4; 48; 130] 8 in
  let c := mk_case Basic256 Basic256 0 y [1; 2] x x [1; 2] SigIntact in
  coherent c /\ run_bytes c = [1] /\ run c = [1].
Proof. cbn. repeat split; try reflexivity; try discriminate. Qed.

