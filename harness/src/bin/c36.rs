//! C36: client acknowledgement bookkeeping.  Runs the REAL `Session::publish` (hook
//! `verif_publish`) on a session whose transport is replaced by an in-memory queue (hook
//! `verif_install_transport`): the harness plays the server, answering each PublishRequest with a
//! PublishResponse, a ServiceFault, an unexpected response, or a BadTimeout, in any interleaving.
#[path = "../util.rs"]
mod util;
use util::*;

use opcua::client::{ClientBuilder, Session};
use opcua::client::session::SessionInfo;
use opcua::client::session::services::subscriptions::service::VerifOutgoing;
use opcua::core::supported_message::SupportedMessage;
use opcua::types::*;
use std::sync::Arc;

#[derive(Clone, Debug)]
pub enum Op { Start, RespOk(u32, u32, u32), RespOkBad(u32, u32, u32, u8), RespErr(u32, u8) } // RespErr kind: 0 timeout, 1 service fault, 2 unexpected response, 3 closed
pub struct P;

fn enc(acks: &[(u32, u32)], out: &mut Vec<i128>) {
    out.push(acks.len() as i128);
    for (a, b) in acks { out.push(*a as i128); out.push(*b as i128); }
}

fn make_session() -> Arc<Session> {
    let mut client = ClientBuilder::new()
        .application_name("verif")
        .application_uri("urn:verif")
        .pki_dir("/tmp/verif-c36-pki")
        .create_sample_keypair(false)
        .trust_server_certs(true)
        .session_retry_limit(0)
        .client()
        .unwrap();
    let endpoint: EndpointDescription = ("opc.tcp://127.0.0.1:4855/", "None", MessageSecurityMode::None, UserTokenPolicy::anonymous()).into();
    let (session, _event_loop) = client.new_session_from_info(SessionInfo::from(endpoint)).unwrap();
    session
}

async fn settle() { for _ in 0..20 { tokio::task::yield_now().await; } }

async fn exec_async(ops: &[Op]) -> Vec<i128> {
    let session = make_session();
    let mut rx = session.verif_install_transport();
    let mut out = Vec::new();
    // in-flight requests, oldest first: (callback, join handle of the publish task)
    let mut inflight: Vec<(tokio::sync::oneshot::Sender<Result<SupportedMessage, StatusCode>>, tokio::task::JoinHandle<Result<bool, StatusCode>>)> = Vec::new();
    for op in ops {
        match op {
            Op::Start => {
                let s = session.clone();
                let h = tokio::spawn(async move { s.verif_publish().await });
                // the request arrives at the "server"
                let m: VerifOutgoing = match tokio::time::timeout(std::time::Duration::from_secs(5), rx.recv()).await {
                    Ok(Some(m)) => m,
                    _ => { out.push(-3); return out; }
                };
                let acks: Vec<(u32, u32)> = match &m.request {
                    SupportedMessage::PublishRequest(r) => r.subscription_acknowledgements.as_ref().map(|v| v.iter().map(|a| (a.subscription_id, a.sequence_number)).collect()).unwrap_or_default(),
                    _ => { out.push(-4); return out; }
                };
                enc(&acks, &mut out);
                inflight.push((m.callback.unwrap(), h));
            }
            Op::RespOk(k, sub, seq) | Op::RespOkBad(k, sub, seq, _) => {
                if !inflight.is_empty() {
                    let i = (*k as usize) % inflight.len();
                    let (cb, h) = inflight.remove(i);
                    let resp = PublishResponse {
                        response_header: match op {
                            // a typed PublishResponse whose header carries a Bad service result
                            Op::RespOkBad(_, _, _, st) => { let mut h = ResponseHeader::null(); h.service_result = [StatusCode::BadTooManyPublishRequests, StatusCode::BadNoSubscription, StatusCode::BadSequenceNumberUnknown, StatusCode::BadInternalError][*st as usize % 4]; h }
                            _ => ResponseHeader::null(),
                        },
                        subscription_id: *sub,
                        available_sequence_numbers: None,
                        more_notifications: false,
                        notification_message: NotificationMessage { sequence_number: *seq, publish_time: DateTime::null(), notification_data: None },
                        results: None,
                        diagnostic_infos: None,
                    };
                    let _ = cb.send(Ok(resp.into()));
                    let _ = h.await;
                }
                settle().await;
                enc(&session.verif_pending_acks(), &mut out);
            }
            Op::RespErr(k, kind) => {
                if !inflight.is_empty() {
                    let i = (*k as usize) % inflight.len();
                    let (cb, h) = inflight.remove(i);
                    match kind {
                        0 => { let _ = cb.send(Err(StatusCode::BadTimeout)); }
                        1 => { let _ = cb.send(Ok(ServiceFault::new(&RequestHeader::dummy(), StatusCode::BadTooManyPublishRequests).into())); }
                        2 => { let _ = cb.send(Ok(ReadResponse { response_header: ResponseHeader::null(), results: None, diagnostic_infos: None }.into())); }
                        _ => { drop(cb); }
                    }
                    let _ = h.await;
                }
                settle().await;
                enc(&session.verif_pending_acks(), &mut out);
            }
        }
    }
    out
}

impl Property for P {
    type Case = Vec<Op>;
    fn fixed(_tier: &str) -> Vec<Vec<Op>> {
        use Op::*;
        vec![
            vec![Start, RespOk(0, 1, 10), Start, RespOk(0, 1, 11), Start, RespOk(0, 1, 12)],
            vec![Start, RespOk(0, 1, 10), Start, RespErr(0, 0), Start, RespOk(0, 1, 11), Start],
            vec![Start, RespOk(0, 1, 10), Start, Start, RespErr(0, 0), RespOk(0, 1, 11), Start, RespOk(5, 2, 7)],
            vec![Start, RespOk(0, 1, 10), Start, RespErr(0, 1), Start, RespErr(0, 2), Start, RespErr(0, 3), Start, RespOk(0, 1, 11)],
            // the same number received twice (keep-alive carries the next sequence number)
            vec![Start, RespOk(0, 1, 5), Start, RespOk(0, 1, 5), Start, RespOk(0, 1, 6), Start],
            // PublishResponse with a Bad service result in its header, with acknowledgements in flight
            vec![Start, RespOk(0, 7, 1), Start, RespOkBad(0, 7, 2, 0), Start, RespOk(0, 7, 3), Start, RespOk(0, 7, 4)],
            vec![Start, RespOk(0, 1, 1), Start, RespOkBad(0, 1, 2, 1), Start, RespOkBad(0, 1, 3, 2), Start, RespErr(0, 0), Start],
            vec![RespOk(0, 1, 1), RespErr(0, 0), Start, Start, Start, RespOk(2, 1, 1), RespOk(1, 2, 1), RespErr(0, 0), Start, RespOk(0, 3, 3)],
        ]
    }
    fn gen(r: &mut Rng) -> Vec<Op> {
        let n = 2 + r.below(24);
        let mut ops = Vec::new();
        let mut infl = 0u32;
        let mut seq = [1u32; 3];
        for _ in 0..n {
            let c = r.below(10);
            if infl == 0 && c < 9 || c < 4 && infl < 5 {
                ops.push(Op::Start); infl += 1;
            } else if c < 8 {
                let sub = r.below(3) as u32;
                // mostly fresh increasing numbers, sometimes a repeat (keep-alive)
                if !r.chance(1, 6) { seq[sub as usize] += 1; }
                if r.chance(1, 5) { ops.push(Op::RespOkBad(r.below(4) as u32, sub + 1, seq[sub as usize], r.below(4) as u8)); }
                else { ops.push(Op::RespOk(r.below(4) as u32, sub + 1, seq[sub as usize])); }
                infl = infl.saturating_sub(1);
            } else {
                ops.push(Op::RespErr(r.below(4) as u32, r.below(4) as u8)); infl = infl.saturating_sub(1);
            }
        }
        ops
    }
    fn exec(c: &Vec<Op>) -> Out {
        let rt = tokio::runtime::Builder::new_current_thread().enable_all().build().unwrap();
        let ops = c.clone();
        let out = match guarded(|| rt.block_on(exec_async(&ops))) { Ok(o) => o, Err(_) => vec![-2] };
        let fails = c.iter().filter(|o| matches!(o, Op::RespErr(..))).count();
        let maxin = { let mut m = 0i32; let mut cur = 0i32; for o in c { match o { Op::Start => { cur += 1; m = m.max(cur); } _ => { cur = (cur - 1).max(0); } } } m };
        let badh = c.iter().any(|o| matches!(o, Op::RespOkBad(..)));
        let tag = format!("{}-{}{}", if fails == 0 { "nofail" } else { "fail" }, if maxin > 1 { "concurrent" } else { "sequential" }, if badh { "-badheader" } else { "" });
        let term = coq_list(c, |o| match o {
            Op::Start => "Start".to_string(),
            Op::RespOk(k, s, q) => format!("RespOk {} {} {}", k, s, q),
            Op::RespOkBad(k, s, q, _) => format!("RespOkBad {} {} {}", k, s, q),
            Op::RespErr(k, _) => format!("RespErr {}", k),
        });
        Out { tag, term, out }
    }
}
fn main() { run_main::<P>() }
