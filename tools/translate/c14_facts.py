#!/usr/bin/env python3
"""C14 translator: structural facts about token renewal in the current source, emitted as booleans
into coq/Gen/C14Facts.v.  The model of C14 (one key slot per direction, server switches keys when it
processes the renew request, client when it receives the response, no token id check on receipt)
is only faithful while these hold; Props/C14.v requires all of them to be true."""
import os, re, sys
REPO = os.environ.get("VERIF_REPO", "/repo")
V = os.path.dirname(os.path.dirname(os.path.dirname(os.path.abspath(__file__))))
def rd(p): return open(os.path.join(REPO, "lib/src", p)).read()
def body_of(src, fn):
    m = re.search(r"fn %s\b[^{]*\{" % fn, src)
    if not m: return ""
    i = m.end(); d = 1
    while d and i < len(src):
        d += {"{": 1, "}": -1}.get(src[i], 0); i += 1
    return src[m.end():i - 1]
def in_order(text, names):
    pos = 0
    for n in names:
        i = text.find(n, pos)
        if i < 0: return False
        pos = i + len(n)
    return True
sc = rd("core/comms/secure_channel.rs")
struct = sc[sc.find("pub struct SecureChannel"):sc.find("impl SecureChannel")]
key_fields = re.findall(r"^\s*(\w*keys\w*)\s*:", struct, re.M)
single = sorted(key_fields) == ["local_keys", "remote_keys"]
svc = body_of(rd("server/comms/secure_channel_service.rs"), "open_secure_channel")
server_sw = in_order(svc, ["set_token_id", "set_remote_nonce_from_byte_string", "create_random_nonce", "derive_keys"])
cst = body_of(rd("client/transport/state.rs"), "end_issue_or_renew_secure_channel")
client_sw = in_order(cst, ["set_security_token", "set_remote_nonce_from_byte_string", "derive_keys"])
# receive path: symmetric verification never compares the token id of the incoming security header
vr = body_of(sc, "verify_and_remove_security_forensic")
no_tok = "token_id" not in vr
# client: a request that finds the token due either performs the renewal itself or waits until the renewal
# in progress has completed (the renewal lock is awaited between the check and queuing the request, and is
# held from the renew request until the response has been applied)
snd = body_of(rd("client/transport/channel.rs"), "send")
due_waits = in_order(snd, ["should_renew_security_token", "issue_channel_lock.lock().await", "should_renew_security_token",
                           "begin_issue_or_renew_secure_channel", ".send().await", "end_issue_or_renew_secure_channel",
                           "drop(guard)", "Request::new"]) and "try_lock" not in snd
# client: the renew request installs its fresh nonce in the channel (the keys the client derives when the
# response arrives are built from it), and the switch (token, server nonce, keys) happens inside ONE write
# lock of the channel, in end_issue_or_renew_secure_channel only
cbg = body_of(rd("client/transport/state.rs"), "begin_issue_or_renew_secure_channel")
begin_nonce = in_order(cbg, ["trace_write_lock!(self.secure_channel)", "random_nonce()", "set_local_nonce(client_nonce", "client_nonce,"]) \
    and "derive_keys" not in cbg and "set_security_token" not in cbg
wl = cst.find("trace_write_lock!(self.secure_channel)")
client_atomic = wl >= 0 and cst.count("trace_write_lock!(self.secure_channel)") == 1 and \
    in_order(cst[wl:], ["set_security_token", "set_remote_nonce_from_byte_string(&response.server_nonce)", "derive_keys"]) \
    and "derive_keys" not in cst[:wl]
# server: a renewal derives the keys from the nonce of THIS request and a fresh server nonce which is the one
# returned in the response; a renewal with the previous nonce is refused; the transport calls the service under
# the write lock of the channel
server_nonces = in_order(svc, ["BadNonceInvalid", "set_remote_nonce_from_byte_string(&request.client_nonce)",
                               "create_random_nonce()", "derive_keys()", "server_nonce: secure_channel.local_nonce_as_byte_string()"]) \
    and svc.count("derive_keys") == 1
tcp = rd("server/comms/tcp_transport.rs")
posc = body_of(tcp, "process_open_secure_channel")
server_locked = in_order(posc, ["trace_write_lock!(self.secure_channel)", "open_secure_channel("])
# where messages are secured: the server's writer task secures a response when it takes it from its queue
# (send_message only queues); the client's send buffer secures a chunk when the transport task encodes it
# (Request::send only queues) -- the two windows the known classes live in
wl_task = body_of(tcp, "spawn_writing_loop_task")
mw = body_of(rd("core/comms/message_writer.rs"), "write")
server_late = in_order(wl_task, ["receiver.recv().await", "trace_read_lock!(write_state.secure_channel)", "send_buffer.write("]) \
    and in_order(mw, ["Chunker::encode", "apply_security"]) and "apply_security" not in body_of(tcp, "send_message")
buf = rd("client/transport/buffer.rs")
req_send = body_of(rd("client/transport/state.rs"), "send")
client_late = "apply_security" in body_of(buf, "encode_next_chunk") and "apply_security" not in req_send and "Chunker" not in req_send
# the receive paths call the one verification routine (no second, token-aware path)
ccore = rd("client/transport/core.rs")
one_verify = ccore.count("verify_and_remove_security(") == 1 and tcp.count("verify_and_remove_security(") == 1 \
    and "verify_and_remove_security_forensic(src, None)" in sc
out = "(* GENERATED by tools/translate/c14_facts.py — do not edit *)\n"
for n, v in [("single_key_slot", single), ("server_switches_on_request", server_sw),
             ("client_switches_on_response", client_sw), ("no_token_id_check_on_receive", no_tok),
             ("due_request_waits_for_renewal", due_waits),
             ("renew_request_installs_client_nonce", begin_nonce), ("client_switch_is_one_locked_step", client_atomic),
             ("server_renew_uses_fresh_nonces", server_nonces), ("server_switch_under_channel_lock", server_locked),
             ("server_secures_when_written", server_late), ("client_secures_when_dequeued", client_late),
             ("single_verification_path", one_verify)]:
    out += "Definition %s : bool := %s.\n" % (n, "true" if v else "false")
path = os.path.join(V, "coq/Gen/C14Facts.v")
try: old = open(path).read()
except FileNotFoundError: old = None
if old != out: open(path, "w").write(out)
print("c14_facts:", single, server_sw, client_sw, no_tok, due_waits, begin_nonce, client_atomic, server_nonces, server_locked, server_late, client_late, one_verify)
