//! C19: only activated sessions on their own channel can use services.
//! Drives the REAL dispatcher (`MessageHandler::handle_message`, hook `VerifMessageHandler`) of one
//! connection with request histories: CreateSession, ActivateSession (good / bad credentials),
//! CloseSession, every service request the dispatcher knows (valid / stale / forged / null
//! tokens), secure channel id changes and elapsed time (the sessions' last-request timestamps are
//! back-dated).  Responses are captured by an in-memory `MessageSender`.
//! Observation per operation: response class + digest of the observable state (the written
//! variable, and per live session: token, activated, terminate flag, channel id, subscriptions).
#[path = "../util.rs"]
mod util;
use util::*;

use opcua::core::comms::secure_channel::{Role, SecureChannel};
use opcua::core::supported_message::SupportedMessage;
use opcua::crypto::CertificateStore;
use opcua::server::address_space::AddressSpace;
use opcua::server::comms::tcp_transport::{MessageSender, VerifResponses};
use opcua::server::prelude::*;
use opcua::server::services::message_handler::VerifMessageHandler;
use opcua::server::session::SessionManager;
use opcua::server::state::ServerState;
use opcua::sync::RwLock;
use std::io::Cursor;
use std::sync::atomic::{AtomicU32, Ordering};
use std::sync::Arc;

#[derive(Clone, Copy, Debug, PartialEq)]
pub enum Tok { T(u32), Forged, Null }

#[derive(Clone, Debug)]
pub enum Op {
    Create { timeout: i64, ok: bool },
    Activate { tok: Tok, cred: u8 }, // 0 anonymous, 1 user+password, 2 wrong password, 3 unknown policy
    Close { tok: Tok },
    Service { tok: Tok, svc: usize, arg: u32 },
    Channel(u32),
    Elapse(i64),
}

/// Service requests, by the name of their `SupportedMessage` variant without the `Request` suffix.
/// The same names are the constructors of `svc` in coq/C19/Model.v and the keys of the generated
/// dispatch table coq/Gen/C19Dispatch.v.
pub const SVC: [&str; 37] = [
    "Read", "Write", "CreateSubscription", "Browse", "Publish", "Cancel",
    "AddNodes", "AddReferences", "DeleteNodes", "DeleteReferences", "BrowseNext",
    "TranslateBrowsePathsToNodeIds", "RegisterNodes", "UnregisterNodes", "QueryFirst", "QueryNext",
    "HistoryRead", "HistoryUpdate", "Call", "CreateMonitoredItems", "ModifyMonitoredItems",
    "SetMonitoringMode", "SetTriggering", "DeleteMonitoredItems", "ModifySubscription",
    "SetPublishingMode", "DeleteSubscriptions", "TransferSubscriptions", "Republish",
    "GetEndpoints", "FindServers", "RegisterServer", "RegisterServer2",
    // session services, sent as plain "service" requests with whatever token (their own ops are
    // Create / Activate / Close; these entries are not generated, they keep the list complete)
    "CreateSession", "ActivateSession", "CloseSession", "Unused",
];
const N_GEN_SVC: usize = 33;

pub struct P;

struct World {
    server_state: Arc<RwLock<ServerState>>,
    address_space: Arc<RwLock<AddressSpace>>,
    certificate_store: Arc<RwLock<CertificateStore>>,
    ns: u16,
    _server: Server,
}

thread_local! {
    static WORLD: World = make_world();
}
static CASE_NO: AtomicU32 = AtomicU32::new(0);

fn make_world() -> World {
    let dir = format!("/tmp/verif-c19-pki-{}", std::process::id());
    let server = ServerBuilder::new_sample().pki_dir(dir).server().expect("sample server");
    let server_state = server.server_state();
    let address_space = server.address_space();
    let certificate_store = server.certificate_store();
    let ns = { address_space.write().register_namespace("urn:verif-c19").unwrap() };
    World { server_state, address_space, certificate_store, ns, _server: server }
}

const ENDPOINT: &str = "opc.tcp://localhost:4855/";

fn hdr(tok: &NodeId) -> RequestHeader { RequestHeader::new(tok, &DateTime::now(), 1) }

/// A request of type `T` whose body is all zero bytes after the header: null ids, empty arrays,
/// zero numbers ("nothing to do" for every service).
fn zero_req<T: BinaryEncoder<T>>(tok: &NodeId) -> T {
    let mut bytes = Vec::new();
    hdr(tok).encode(&mut bytes).unwrap();
    bytes.extend(std::iter::repeat(0u8).take(512));
    T::decode(&mut Cursor::new(bytes), &DecodingOptions::default()).expect("zero request decodes")
}

fn service_request(svc: usize, tok: &NodeId, arg: u32, var: &NodeId) -> SupportedMessage {
    match SVC[svc] {
        "Read" => ReadRequest {
            request_header: hdr(tok), max_age: 0.0, timestamps_to_return: TimestampsToReturn::Both,
            nodes_to_read: Some(vec![ReadValueId::from(var.clone())]),
        }.into(),
        "Write" => WriteRequest {
            request_header: hdr(tok),
            nodes_to_write: Some(vec![WriteValue {
                node_id: var.clone(), attribute_id: AttributeId::Value as u32, index_range: UAString::null(),
                value: DataValue::value_only(Variant::from(arg)),
            }]),
        }.into(),
        "CreateSubscription" => CreateSubscriptionRequest {
            request_header: hdr(tok), requested_publishing_interval: 100.0, requested_lifetime_count: 100,
            requested_max_keep_alive_count: 10, max_notifications_per_publish: 5, publishing_enabled: true, priority: 0,
        }.into(),
        "Browse" => BrowseRequest {
            request_header: hdr(tok),
            view: ViewDescription { view_id: NodeId::null(), timestamp: DateTime::null(), view_version: 0 },
            requested_max_references_per_node: 2,
            nodes_to_browse: Some(vec![BrowseDescription {
                node_id: ObjectId::ObjectsFolder.into(), browse_direction: BrowseDirection::Forward,
                reference_type_id: NodeId::null(), include_subtypes: true, node_class_mask: 0, result_mask: 0x3f,
            }]),
        }.into(),
        "Publish" => PublishRequest { request_header: hdr(tok), subscription_acknowledgements: None }.into(),
        "Cancel" => zero_req::<CancelRequest>(tok).into(),
        "AddNodes" => zero_req::<AddNodesRequest>(tok).into(),
        "AddReferences" => zero_req::<AddReferencesRequest>(tok).into(),
        "DeleteNodes" => zero_req::<DeleteNodesRequest>(tok).into(),
        "DeleteReferences" => zero_req::<DeleteReferencesRequest>(tok).into(),
        "BrowseNext" => zero_req::<BrowseNextRequest>(tok).into(),
        "TranslateBrowsePathsToNodeIds" => zero_req::<TranslateBrowsePathsToNodeIdsRequest>(tok).into(),
        "RegisterNodes" => zero_req::<RegisterNodesRequest>(tok).into(),
        "UnregisterNodes" => zero_req::<UnregisterNodesRequest>(tok).into(),
        "QueryFirst" => zero_req::<QueryFirstRequest>(tok).into(),
        "QueryNext" => zero_req::<QueryNextRequest>(tok).into(),
        "HistoryRead" => zero_req::<HistoryReadRequest>(tok).into(),
        "HistoryUpdate" => zero_req::<HistoryUpdateRequest>(tok).into(),
        "Call" => zero_req::<CallRequest>(tok).into(),
        "CreateMonitoredItems" => zero_req::<CreateMonitoredItemsRequest>(tok).into(),
        "ModifyMonitoredItems" => zero_req::<ModifyMonitoredItemsRequest>(tok).into(),
        "SetMonitoringMode" => zero_req::<SetMonitoringModeRequest>(tok).into(),
        "SetTriggering" => zero_req::<SetTriggeringRequest>(tok).into(),
        "DeleteMonitoredItems" => zero_req::<DeleteMonitoredItemsRequest>(tok).into(),
        "ModifySubscription" => zero_req::<ModifySubscriptionRequest>(tok).into(),
        "SetPublishingMode" => zero_req::<SetPublishingModeRequest>(tok).into(),
        "DeleteSubscriptions" => zero_req::<DeleteSubscriptionsRequest>(tok).into(),
        "TransferSubscriptions" => zero_req::<TransferSubscriptionsRequest>(tok).into(),
        "Republish" => zero_req::<RepublishRequest>(tok).into(),
        "GetEndpoints" => GetEndpointsRequest {
            request_header: hdr(tok), endpoint_url: UAString::from(ENDPOINT), locale_ids: None, profile_uris: None,
        }.into(),
        "FindServers" => FindServersRequest {
            request_header: hdr(tok), endpoint_url: UAString::from(ENDPOINT), locale_ids: None, server_uris: None,
        }.into(),
        "RegisterServer" => zero_req::<RegisterServerRequest>(tok).into(),
        "RegisterServer2" => zero_req::<RegisterServer2Request>(tok).into(),
        other => panic!("no request for service {}", other),
    }
}

fn identity(cred: u8) -> ExtensionObject {
    match cred {
        0 => ExtensionObject::from_encodable(
            ObjectId::AnonymousIdentityToken_Encoding_DefaultBinary,
            &AnonymousIdentityToken { policy_id: UAString::from("anonymous") }),
        1 | 2 => ExtensionObject::from_encodable(
            ObjectId::UserNameIdentityToken_Encoding_DefaultBinary,
            &UserNameIdentityToken {
                policy_id: UAString::from("userpass_none"), user_name: UAString::from("sample1"),
                password: ByteString::from(if cred == 1 { "sample1pwd".as_bytes() } else { "wrong".as_bytes() }),
                encryption_algorithm: UAString::null(),
            }),
        _ => ExtensionObject::from_encodable(
            ObjectId::AnonymousIdentityToken_Encoding_DefaultBinary,
            &AnonymousIdentityToken { policy_id: UAString::from("no-such-policy") }),
    }
}

/// 0 = a response that is not a fault (or none: asynchronous publish), 1 = ServiceFault
/// BadSessionIdInvalid, 2 = ServiceFault BadSessionNotActivated, 3 = any other ServiceFault,
/// 5 = handle_message returned an error
fn class_of(resp: &Option<SupportedMessage>) -> i128 {
    match resp {
        Some(SupportedMessage::ServiceFault(f)) => {
            let s = f.response_header.service_result;
            if s == StatusCode::BadSessionIdInvalid { 1 } else if s == StatusCode::BadSessionNotActivated { 2 } else { 3 }
        }
        _ => 0,
    }
}

struct Conn {
    handler: VerifMessageHandler,
    sender: MessageSender,
    responses: VerifResponses,
    channel: Arc<RwLock<SecureChannel>>,
    sessions: Arc<RwLock<SessionManager>>,
    issued: Vec<(NodeId, NodeId)>, // (session id, authentication token) in order of creation
    var: NodeId,
    req_id: u32,
}

impl Conn {
    fn send(&mut self, m: SupportedMessage) -> (Option<SupportedMessage>, bool) {
        self.req_id += 1;
        let r = self.handler.handle_message(self.req_id, &m, &self.sender);
        let mut first = None;
        while let Some((_, msg)) = self.responses.verif_try_next() { if first.is_none() { first = Some(msg); } }
        (first, r.is_err())
    }
    fn token(&self, t: Tok, forged: &(NodeId, NodeId)) -> NodeId {
        match t {
            Tok::T(i) if i >= 1 && (i as usize) <= self.issued.len() => self.issued[i as usize - 1].1.clone(),
            Tok::T(_) => forged.1.clone(),
            Tok::Forged => forged.0.clone(),
            Tok::Null => NodeId::null(),
        }
    }
    fn digest(&self, w: &World, out: &mut Vec<i128>) {
        let v = { w.address_space.read().get_variable_value(self.var.clone()) };
        out.push(match v { Ok(DataValue { value: Some(Variant::UInt32(x)), .. }) => x as i128, _ => -1 });
        let sm = self.sessions.read();
        let mut rows = Vec::new();
        for (i, (sid, tok)) in self.issued.iter().enumerate() {
            if let Some(s) = sm.find_session_by_id(sid) {
                let s = s.read();
                let idx = (i + 1) as i128;
                rows.push(vec![
                    if s.authentication_token() == tok { idx } else { -idx },
                    s.is_activated() as i128 + 2 * s.is_session_terminated() as i128,
                    s.secure_channel_id() as i128,
                    s.verif_subscription_count() as i128,
                ]);
            }
        }
        // sessions the harness did not see being created would be a defect of their own
        out.push(if sm.len() == rows.len() { rows.len() as i128 } else { -(sm.len() as i128) });
        for r in rows { out.extend(r); }
    }
}

fn exec_ops(ops: &[Op]) -> Vec<i128> {
    WORLD.with(|w| {
        let n = CASE_NO.fetch_add(1, Ordering::Relaxed);
        let var = NodeId::new(w.ns, format!("c19-var-{}", n));
        {
            let mut a = w.address_space.write();
            VariableBuilder::new(&var, format!("c19-var-{}", n), "c19")
                .data_type(DataTypeId::UInt32).value(0u32).writable()
                .organized_by(ObjectId::ObjectsFolder).insert(&mut a);
        }
        let decoding_options = { let s = w.server_state.read(); let c = s.config.read(); c.decoding_options() };
        let channel = Arc::new(RwLock::new(SecureChannel::new(w.certificate_store.clone(), Role::Server, decoding_options)));
        channel.write().set_secure_channel_id(1);
        let sessions = Arc::new(RwLock::new(SessionManager::default()));
        let handler = VerifMessageHandler::new(channel.clone(), w.certificate_store.clone(), w.server_state.clone(), sessions.clone(), w.address_space.clone());
        let (sender, responses) = MessageSender::verif_in_memory();
        let mut c = Conn { handler, sender, responses, channel, sessions, issued: Vec::new(), var: var.clone(), req_id: 0 };
        // "Forged" is the token of an activated session of ANOTHER connection of the same server
        // (its own SessionManager and secure channel); tokens not yet issued are random bytes
        let (foreign, _other) = {
            let channel = Arc::new(RwLock::new(SecureChannel::new(w.certificate_store.clone(), Role::Server, { let s = w.server_state.read(); let c = s.config.read(); c.decoding_options() })));
            channel.write().set_secure_channel_id(1);
            let sessions = Arc::new(RwLock::new(SessionManager::default()));
            let handler = VerifMessageHandler::new(channel.clone(), w.certificate_store.clone(), w.server_state.clone(), sessions.clone(), w.address_space.clone());
            let (sender, responses) = MessageSender::verif_in_memory();
            let mut o = Conn { handler, sender, responses, channel, sessions, issued: Vec::new(), var: var.clone(), req_id: 0 };
            let req = CreateSessionRequest {
                request_header: hdr(&NodeId::null()), client_description: ApplicationDescription::default(), server_uri: UAString::null(),
                endpoint_url: UAString::from(ENDPOINT), session_name: UAString::from("other"), client_nonce: ByteString::null(),
                client_certificate: ByteString::null(), requested_session_timeout: 60000.0, max_response_message_size: 0,
            };
            let tok = match o.send(req.into()).0 { Some(SupportedMessage::CreateSessionResponse(r)) => r.authentication_token.clone(), _ => panic!("foreign session") };
            let act = ActivateSessionRequest {
                request_header: hdr(&tok), client_signature: SignatureData::null(), client_software_certificates: None, locale_ids: None,
                user_identity_token: identity(0), user_token_signature: SignatureData::null(),
            };
            match o.send(act.into()).0 { Some(SupportedMessage::ActivateSessionResponse(_)) => {}, _ => panic!("foreign activate") }
            (tok, o)
        };
        let unissued = NodeId::new(0, ByteString::from(vec![0xEEu8; 32]));
        let forged = (foreign, unissued);
        let mut out = Vec::new();
        for op in ops {
            let class = match op {
                Op::Create { timeout, ok } => {
                    let req = CreateSessionRequest {
                        request_header: hdr(&NodeId::null()),
                        client_description: ApplicationDescription::default(),
                        server_uri: UAString::null(),
                        endpoint_url: if *ok { UAString::from(ENDPOINT) } else { UAString::null() },
                        session_name: UAString::from("verif"),
                        client_nonce: ByteString::null(), client_certificate: ByteString::null(),
                        requested_session_timeout: *timeout as f64, max_response_message_size: 0,
                    };
                    let (resp, err) = c.send(req.into());
                    if let Some(SupportedMessage::CreateSessionResponse(r)) = &resp {
                        c.issued.push((r.session_id.clone(), r.authentication_token.clone()));
                    }
                    if err { 5 } else { class_of(&resp) }
                }
                Op::Activate { tok, cred } => {
                    let t = c.token(*tok, &forged);
                    let req = ActivateSessionRequest {
                        request_header: hdr(&t),
                        client_signature: SignatureData::null(), client_software_certificates: None, locale_ids: None,
                        user_identity_token: identity(*cred), user_token_signature: SignatureData::null(),
                    };
                    let (resp, err) = c.send(req.into());
                    if err { 5 } else { class_of(&resp) }
                }
                Op::Close { tok } => {
                    let t = c.token(*tok, &forged);
                    let (resp, err) = c.send(CloseSessionRequest { request_header: hdr(&t), delete_subscriptions: true }.into());
                    if err { 5 } else { class_of(&resp) }
                }
                Op::Service { tok, svc, arg } => {
                    let t = c.token(*tok, &forged);
                    let (resp, err) = c.send(service_request(*svc, &t, *arg, &var));
                    // "carried out" = anything but the guard's faults (a service may answer with a fault of its own)
                    if err { 5 } else { match class_of(&resp) { 3 => 0, k => k } }
                }
                Op::Channel(id) => { c.channel.write().set_secure_channel_id(*id); 0 }
                Op::Elapse(ms) => {
                    let sm = c.sessions.read();
                    for s in sm.sessions.values() {
                        let mut s = s.write();
                        let t = s.last_service_request_timestamp() - chrono::Duration::milliseconds(*ms);
                        s.set_last_service_request_timestamp(t);
                    }
                    0
                }
            };
            out.push(class);
            c.digest(w, &mut out);
        }
        // leave nothing of this case behind in the shared address space
        { let sm = c.sessions.clone(); sm.write().clear(w.address_space.clone()); }
        { let sm = _other.sessions.clone(); sm.write().clear(w.address_space.clone()); }
        { w.address_space.write().delete(&var, true); }
        out
    })
}

fn tok_term(t: &Tok) -> String {
    match t { Tok::T(i) => format!("(Tok {})", i), Tok::Forged => "Forged".into(), Tok::Null => "Null".into() }
}

fn gen_tok(r: &mut Rng, created: u32) -> Tok {
    match r.below(12) {
        0 => Tok::Forged,
        1 => Tok::Null,
        2 => Tok::T(created + 1 + r.below(2) as u32), // not issued yet
        _ => if created == 0 { Tok::T(1) } else { Tok::T(1 + r.below(created as u64) as u32) },
    }
}

/// elapsed amounts are 10000*j + 3000 ms and timeouts multiples of 10000 ms (at most 9 Elapse
/// operations per case), so no request is closer than a second to a time-out boundary: the real
/// clock keeps running underneath the back-dated timestamps
fn gen_ops(r: &mut Rng) -> Vec<Op> {
    let n = 4 + r.below(28);
    let mut ops = Vec::new();
    let mut created = 0u32;
    let mut elapses = 0;
    let eventful = r.chance(1, 2);
    for _ in 0..n {
        let c = r.below(100);
        if created == 0 && c < 70 || c < 10 {
            let timeout = match r.below(8) { 0 => 0, 1 => -10000, 2 => 70000 + 10000 * r.below(3) as i64, _ => 10000 * (1 + r.below(6) as i64) };
            let ok = !r.chance(1, 10);
            ops.push(Op::Create { timeout, ok });
            if ok && created < 5 { created += 1; } else if ok { created += 0; }
        } else if c < 28 {
            let cred = if r.chance(3, 4) { r.below(2) as u8 } else { 2 + r.below(2) as u8 };
            ops.push(Op::Activate { tok: gen_tok(r, created), cred });
        } else if c < 36 {
            ops.push(Op::Close { tok: gen_tok(r, created) });
        } else if c < 44 && eventful {
            ops.push(Op::Channel(1 + r.below(3) as u32));
        } else if c < 54 && eventful && elapses < 9 {
            elapses += 1;
            ops.push(Op::Elapse(10000 * r.below(4) as i64 + 3000));
        } else {
            let svc = match r.below(10) { 0 | 1 => 1, 2 => 2, 3 => 0, 4 => 4, _ => r.below(N_GEN_SVC as u64) as usize };
            ops.push(Op::Service { tok: gen_tok(r, created), svc, arg: 1 + r.below(1000) as u32 });
        }
    }
    ops
}

impl Property for P {
    type Case = Vec<Op>;
    fn fixed(tier: &str) -> Vec<Vec<Op>> {
        use Op::*;
        use Tok::*;
        let sv = |tok, svc, arg| Service { tok, svc, arg };
        let mut v = vec![
            // the plain life cycle: nothing before activation, everything after, nothing after close
            vec![Create { timeout: 30000, ok: true }, sv(T(1), 1, 7), Activate { tok: T(1), cred: 0 }, sv(T(1), 1, 8), sv(T(1), 2, 0),
                 sv(T(1), 0, 0), Close { tok: T(1) }, sv(T(1), 1, 9), Activate { tok: T(1), cred: 0 }, Close { tok: T(1) }],
            // forged, null and not yet issued tokens
            vec![sv(Null, 1, 5), sv(Forged, 1, 5), sv(T(1), 1, 5), Create { timeout: 30000, ok: true }, Activate { tok: T(1), cred: 1 },
                 sv(Null, 1, 6), sv(Forged, 2, 0), sv(T(2), 1, 6), sv(T(1), 1, 6)],
            // bad credentials: never activated; re-activation with bad credentials de-activates
            vec![Create { timeout: 30000, ok: true }, Activate { tok: T(1), cred: 2 }, sv(T(1), 1, 5), Activate { tok: T(1), cred: 3 }, sv(T(1), 1, 5),
                 Activate { tok: T(1), cred: 0 }, sv(T(1), 1, 6), Activate { tok: T(1), cred: 2 }, sv(T(1), 1, 7)],
            // channel change: requests on another channel are refused until the session is re-activated there
            vec![Create { timeout: 30000, ok: true }, Activate { tok: T(1), cred: 0 }, sv(T(1), 1, 5), Channel(2), sv(T(1), 1, 6), sv(T(1), 2, 0),
                 Activate { tok: T(1), cred: 0 }, sv(T(1), 1, 7), Channel(1), sv(T(1), 1, 8)],
            // a session created on one channel cannot be activated first on another one, nor closed there
            vec![Create { timeout: 30000, ok: true }, Channel(2), Activate { tok: T(1), cred: 0 }, sv(T(1), 1, 5), Close { tok: T(1) }, Channel(1),
                 Activate { tok: T(1), cred: 0 }, sv(T(1), 1, 6), Close { tok: T(1) }],
            // time-out: 20 s session, 13 s is fine, 23 s is not (and the session is marked for termination)
            vec![Create { timeout: 20000, ok: true }, Activate { tok: T(1), cred: 0 }, Elapse(13000), sv(T(1), 1, 5), Elapse(13000), sv(T(1), 1, 6),
                 Elapse(23000), sv(T(1), 1, 7), sv(T(1), 1, 8), Activate { tok: T(1), cred: 0 }, sv(T(1), 2, 0), Close { tok: T(1) }],
            // time-out 0 / negative / above the maximum (revised to 60 s)
            vec![Create { timeout: 0, ok: true }, Create { timeout: -10000, ok: true }, Create { timeout: 90000, ok: true },
                 Activate { tok: T(1), cred: 0 }, Activate { tok: T(2), cred: 0 }, Activate { tok: T(3), cred: 0 },
                 Elapse(53000), sv(T(1), 1, 1), sv(T(2), 1, 2), sv(T(3), 1, 3), Elapse(63000), sv(T(1), 1, 4), sv(T(2), 1, 5), sv(T(3), 1, 6)],
            // two sessions, each with its own token; the sixth session is refused
            vec![Create { timeout: 30000, ok: true }, Create { timeout: 30000, ok: true }, Activate { tok: T(2), cred: 0 }, sv(T(1), 1, 5), sv(T(2), 1, 6),
                 sv(T(2), 2, 0), Close { tok: T(2) }, sv(T(2), 1, 7), Activate { tok: T(1), cred: 1 }, sv(T(1), 1, 8),
                 Create { timeout: 1, ok: false }, Create { timeout: 30000, ok: true }, Create { timeout: 30000, ok: true }, Create { timeout: 30000, ok: true },
                 Create { timeout: 30000, ok: true }, Create { timeout: 30000, ok: true }, Create { timeout: 30000, ok: true }, sv(T(6), 1, 9)],
            // publish with and without a subscription, discovery without any session
            vec![sv(Null, 29, 0), sv(Forged, 30, 0), sv(Null, 31, 0), sv(Null, 32, 0), Create { timeout: 30000, ok: true }, sv(T(1), 4, 0),
                 Activate { tok: T(1), cred: 0 }, sv(T(1), 4, 0), sv(T(1), 2, 0), sv(T(1), 4, 0), sv(T(1), 4, 0), Channel(3), sv(T(1), 4, 0)],
        ];
        // every service the dispatcher knows: before activation, activated, on the wrong channel, timed out, closed
        let mut all = vec![Create { timeout: 30000, ok: true }];
        for s in 0..N_GEN_SVC { all.push(sv(T(1), s, 11)); }
        v.push(all);
        let mut all = vec![Create { timeout: 30000, ok: true }, Activate { tok: T(1), cred: 0 }];
        for s in 0..N_GEN_SVC { all.push(sv(T(1), s, 12)); }
        v.push(all);
        let mut all = vec![Create { timeout: 30000, ok: true }, Activate { tok: T(1), cred: 0 }, Channel(2)];
        for s in 0..N_GEN_SVC { all.push(sv(T(1), s, 13)); }
        v.push(all);
        let mut all = vec![Create { timeout: 30000, ok: true }, Activate { tok: T(1), cred: 0 }, Elapse(33000)];
        for s in 0..N_GEN_SVC { all.push(sv(T(1), s, 14)); }
        v.push(all);
        let mut all = vec![Create { timeout: 30000, ok: true }, Activate { tok: T(1), cred: 0 }, Close { tok: T(1) }];
        for s in 0..N_GEN_SVC { all.push(sv(T(1), s, 15)); all.push(sv(Null, s, 16)); }
        v.push(all);
        if tier == "thorough" {
            // every service x every reason for refusal, with a second healthy session alongside
            for s in 0..N_GEN_SVC {
                v.push(vec![Create { timeout: 30000, ok: true }, Create { timeout: 20000, ok: true }, Activate { tok: T(2), cred: 0 },
                    sv(T(1), s, 1), sv(T(2), s, 2), sv(Forged, s, 3), sv(Null, s, 4), Channel(2), sv(T(2), s, 5), Channel(1), Elapse(23000), sv(T(2), s, 6),
                    Activate { tok: T(1), cred: 0 }, sv(T(1), s, 7), Close { tok: T(1) }, sv(T(1), s, 8)]);
            }
        }
        v
    }
    fn gen(r: &mut Rng) -> Vec<Op> { gen_ops(r) }
    fn exec(c: &Vec<Op>) -> Out {
        let ops = c.clone();
        let out = match guarded(|| exec_ops(&ops)) { Ok(o) => o, Err(_) => vec![-2] };
        let has = |f: &dyn Fn(&Op) -> bool| c.iter().any(|o| f(o));
        let mut tag = String::new();
        if !has(&|o| matches!(o, Op::Service { .. })) { tag.push_str("trivial-noservice"); } else {
            tag.push_str(if out.iter().step_by(1).count() > 0 && c.iter().any(|o| matches!(o, Op::Activate { cred, .. } if *cred < 2)) { "act" } else { "noact" });
            if has(&|o| matches!(o, Op::Close { .. })) { tag.push_str("-close"); }
            if has(&|o| matches!(o, Op::Channel(_))) { tag.push_str("-chan"); }
            if has(&|o| matches!(o, Op::Elapse(_))) { tag.push_str("-time"); }
            if has(&|o| matches!(o, Op::Service { tok, .. } if *tok == Tok::Forged || *tok == Tok::Null)) { tag.push_str("-badtok"); }
        }
        let term = coq_list(c, |o| match o {
            Op::Create { timeout, ok } => format!("Create {} {}", z(*timeout as i128), coq_bool(*ok)),
            Op::Activate { tok, cred } => format!("Activate {} {}", tok_term(tok), cred),
            Op::Close { tok } => format!("Close {}", tok_term(tok)),
            Op::Service { tok, svc, arg } => format!("Service {} {} {}", tok_term(tok), SVC[*svc], arg),
            Op::Channel(id) => format!("Channel {}", id),
            Op::Elapse(ms) => format!("Elapse {}", z(*ms as i128)),
        });
        Out { tag, term, out }
    }
}
fn main() {
    run_main::<P>();
    let _ = std::fs::remove_dir_all(format!("/tmp/verif-c19-pki-{}", std::process::id()));
}
