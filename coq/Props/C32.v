(* C32 — attribute reads and writes obey access rights and never crash.  Statements only.
   Model: coq/C32/Model.v ([read false] / [write] = the code as committed); proofs: coq/C32/Proofs.v. *)
From Coq Require Import List ZArith.
From OV Require Import C32.Model C32.Proofs.
Import ListNotations.
Open Scope Z_scope.

(* A Write that reports Good is a write to the variable and either
   - of its Value attribute: the user access level (as it is at that moment) has CURRENT_WRITE, the
     value's type is compatible with the variable's data type (subtype, or a byte string into a
     byte array), and the stored value afterwards is the one the specification [spec_written]
     prescribes (whole value, or the array with the indexed elements replaced), nothing else changes;
   - or of another attribute: the write mask has that attribute's bit, no index range is given, and
     the effect is [set_attr] (e.g. a new user access level).
   For every data type hierarchy, variable, node, attribute id, index range string and value. *)
Theorem C32_write_good : forall subs x node attr range v x',
  write subs x node attr range v = Ok (0, x') ->
  node = 1 /\
  ((attr = 13 /\ user_can_write x = true /\
    exists r w, parse_range (range_str range) = Some r /\ v = Some w /\ type_compatible subs x w = true /\
                spec_written x (v_value x) r w = Some (v_value x') /\ x' = with_value x (v_value x')) \/
   (attr <> 13 /\ mask_allows x attr = true /\ range = None /\
    exists w, v = Some w /\ set_attr x attr w = (0, x'))).
Proof. exact write_good. Qed.
Print Assumptions C32_write_good.

(* Access rights can change during a history: a successful write of the UserAccessLevel attribute
   decides the following value reads and writes. *)
Theorem C32_access_level_write_effective : forall subs x n x',
  write subs x 1 18 None (Some (VNum 3 n)) = Ok (0, x') ->
  mask_allows x 18 = true /\ user_can_read x' = Z.testbit n 0 /\ user_can_write x' = Z.testbit n 1 /\ v_value x' = v_value x.
Proof. exact ual_write_effective. Qed.
Print Assumptions C32_access_level_write_effective.

(* A Write that reports anything else leaves the variable exactly as it was. *)
Theorem C32_rejected_write_changes_nothing : forall subs x node attr range v st x',
  write subs x node attr range v = Ok (st, x') -> st <> 0 -> x' = x.
Proof. exact write_rejected_unchanged. Qed.
Print Assumptions C32_rejected_write_changes_nothing.

(* Read after write, whole value. *)
Theorem C32_read_after_write_whole : forall subs x range w x' range2 enc,
  write subs x 1 13 range (Some w) = Ok (0, x') ->
  parse_range (range_str range) = Some NNone ->
  user_can_read x = true -> enc_supported enc = true -> parse_range (range_str range2) = Some NNone ->
  read false x' 1 13 range2 enc = Ok (mk_rres 0 (Some (stored x w))).
Proof. exact read_after_write_whole. Qed.
Print Assumptions C32_read_after_write_whole.

(* Read after write through an index range lo:hi. *)
Theorem C32_read_after_write_range : forall subs x range lo hi ot src t vs x' enc,
  write subs x 1 13 range (Some (VArr ot src)) = Ok (0, x') ->
  parse_range (range_str range) = Some (NRange lo hi) -> v_value x = VArr t vs ->
  user_can_read x = true -> enc_supported enc = true ->
  exists l, read false x' 1 13 range enc = Ok (mk_rres 0 (Some (VArr t l))) /\
            forall k e, (k < length src)%nat -> lo + Z.of_nat k <= hi -> lo + Z.of_nat k < len vs ->
                        nth_error src k = Some e -> nth_error l k = Some e.
Proof. exact read_after_write_range. Qed.
Print Assumptions C32_read_after_write_range.

(* A Good read of a value comes from the variable, needs CURRENT_READ in the user access level and
   returns the part of the stored value the index range designates. *)
Theorem C32_read_good_value : forall x node range enc rr,
  read false x node 13 range enc = Ok rr -> rr_status rr = 0 ->
  node = 1 /\ user_can_read x = true /\
  exists r, parse_range (range_str range) = Some r /\ spec_read (v_value x) r = rr_value rr /\ rr_value rr <> None.
Proof. exact read_good_value. Qed.
Print Assumptions C32_read_good_value.

(* Totality: every combination of node, attribute id, index range string (any bytes), data
   encoding and value yields a status; none of the slicing / unwrap / panic! sites is reached. *)
Theorem C32_read_total : forall x node attr range enc,
  exists rr, read false x node attr range enc = Ok rr /\ 0 <= rr_status rr.
Proof. exact read_total. Qed.
Print Assumptions C32_read_total.
Theorem C32_write_total : forall subs x node attr range v,
  exists st x', write subs x node attr range v = Ok (st, x') /\ 0 <= st.
Proof. exact write_total. Qed.
Print Assumptions C32_write_total.

(* The copy loop of Variant::set_range_of is the closed form: element k becomes src[k - lo] exactly
   when lo <= k <= hi and k - lo < |src|. *)
Theorem C32_overwrite_spec : forall dst src lo hi, overwrite dst 0 src lo hi = spec_overwrite dst src lo hi.
Proof. exact overwrite_spec. Qed.
Print Assumptions C32_overwrite_spec.

(* Histories: for every sequence of reads and writes the property, replayed by the oracle against
   its own record of the last successfully written value, holds on the model's output. *)
Theorem C32_history : forall ops subs x, oracle_ops subs x ops (run_ops false subs x ops) = true.
Proof. exact oracle_ops_ok. Qed.
Print Assumptions C32_history.

Theorem C32_oracle : forall c, valid c -> known c = 0 -> oracle c (run c) = true.
Proof. exact oracle_holds. Qed.
Print Assumptions C32_oracle.

(* Before "fix: UAString::substring panicked on a range that splits a UTF-8 character". *)
Theorem C32_legacy_refuted : exists c, valid c /\ In (-2) (run_with true c) /\ oracle c (run_with true c) = false.
Proof. exact legacy_refuted. Qed.
Print Assumptions C32_legacy_refuted.
