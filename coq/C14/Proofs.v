From Coq Require Import List ZArith Bool Lia.
Import ListNotations.
From OV Require Import C14.Model.
Open Scope Z_scope.

(* number of renewals (OPN frames / responses) in a queue *)
Fixpoint nopn (l : list frame) : Z := match l with [] => 0 | FOpn :: r => 1 + nopn r | FMsg _ :: r => nopn r | FBad :: r => nopn r end.
Fixpoint nropn (l : list resp) : Z := match l with [] => 0 | ROpn :: r => 1 + nropn r | RMsg :: r => nropn r end.

(* every symmetric frame on a link carries the epoch its receiver will have when it reaches it:
   the receiver's epoch now plus the renewals ahead of the frame *)
Fixpoint link_ok (e : Z) (l : list frame) : Prop :=
  match l with
  | [] => True
  | FMsg m :: r => m = e /\ link_ok e r
  | FOpn :: r => link_ok (e + 1) r
  | FBad :: r => link_ok e r
  end.

Lemma nopn_app a b : nopn (a ++ b) = nopn a + nopn b.
Proof. induction a as [|[m| |] a IH]; cbn [nopn app]; lia. Qed.
Lemma nropn_app a b : nropn (a ++ b) = nropn a + nropn b.
Proof. induction a as [|[|] a IH]; cbn [nropn app]; lia. Qed.
Lemma nopn_nonneg l : 0 <= nopn l. Proof. induction l as [|[m| |] l IH]; cbn [nopn]; lia. Qed.
Lemma nropn_nonneg l : 0 <= nropn l. Proof. induction l as [|[|] l IH]; cbn [nropn]; lia. Qed.

Lemma link_ok_app e a b : link_ok e (a ++ b) <-> link_ok e a /\ link_ok (e + nopn a) b.
Proof.
  revert e. induction a as [|[m| |] a IH]; intro e; cbn [app link_ok nopn].
  - rewrite Z.add_0_r. tauto.
  - rewrite IH. tauto.
  - rewrite IH. replace (e + 1 + nopn a) with (e + (1 + nopn a)) by lia. tauto.
  - rewrite IH. tauto.
Qed.

Lemma has_ropn_false l : has_ropn l = false -> nropn l = 0.
Proof. induction l as [|[|] l IH]; cbn; intro H; try discriminate; auto. Qed.

Definition Inv (s : st) : Prop :=
  link_ok (se s) (c2s s) /\ link_ok (ce s) (s2c s) /\
  se s = ce s + nropn (sq s) + nopn (s2c s) /\
  nopn (c2s s) + nropn (sq s) + nopn (s2c s) = (if renewing s then 1 else 0).

Lemma inv_init : Inv init.
Proof. unfold Inv, init; cbn. repeat split. Qed.

Local Arguments Z.add : simpl never.
Local Arguments Z.eqb : simpl never.

Ltac fin :=
  repeat match goal with
         | |- _ /\ _ => split
         | |- True => exact I
         | |- link_ok _ (_ ++ _) => apply link_ok_app
         | H : _ /\ _ |- _ => destruct H
         end;
  cbn [link_ok nopn nropn] in *; rewrite ?nopn_app, ?nropn_app in *; cbn [link_ok nopn nropn] in *;
  try assumption; try lia.

(* outside the known classes a step preserves the invariant and rejects nothing *)
Lemma step_ok s o : Inv s -> racy s o = 0 -> Inv (fst (step s o)) /\ snd (step s o) <> 0 /\ snd (step s o) < 6.
Proof.
  destruct s as [ce0 se0 rn l1 q l2]. unfold Inv. cbn [ce se renewing c2s sq s2c].
  intros (H1 & H2 & H3 & H4) Hr.
  pose proof (nopn_nonneg l1). pose proof (nropn_nonneg q). pose proof (nopn_nonneg l2).
  destruct o; cbn [step racy ce se renewing c2s sq s2c] in *.
  - (* CSend *) destruct rn; [discriminate|]. cbn [fst snd ce se renewing c2s sq s2c]. fin.
  - (* CRenew *) destruct rn; cbn [fst snd ce se renewing c2s sq s2c]; fin.
  - (* SRecv *) destruct l1 as [|[m| |] r]; cbn [fst snd ce se renewing c2s sq s2c].
    + fin.
    + cbn [link_ok] in H1. destruct H1 as [Hm H1]. subst m. rewrite Z.eqb_refl.
      cbn [fst snd ce se renewing c2s sq s2c]. fin.
    + fin.
    + fin.
  - (* SWrite *) destruct q as [|[|] r]; cbn [fst snd ce se renewing c2s sq s2c].
    + fin.
    + destruct (has_ropn r) eqn:Hh; [discriminate|]. apply has_ropn_false in Hh. fin.
    + fin.
  - (* CRecv *) destruct l2 as [|[m| |] r]; cbn [fst snd ce se renewing c2s sq s2c].
    + fin.
    + cbn [link_ok] in H2. destruct H2 as [Hm H2]. subst m. rewrite Z.eqb_refl. fin.
    + pose proof (nopn_nonneg r). destruct rn; fin.
    + fin.
  - (* CForge *) cbn [fst snd ce se renewing c2s sq s2c]. fin.
  - (* SForge *) cbn [fst snd ce se renewing c2s sq s2c]. fin.
Qed.

Lemma run_from_ok c : forall s, Inv s -> known_from s c = 0 ->
  (forall x, In x (run_from s c) -> x <> 0 /\ x < 6) /\ length (run_from s c) = length c.
Proof.
  induction c as [|o c IH]; intros s Hs Hk; [split; [intros x []|reflexivity]|].
  cbn [known_from] in Hk. destruct (racy s o =? 0) eqn:Hr; [|apply Z.eqb_neq in Hr; lia].
  apply Z.eqb_eq in Hr. destruct (step_ok s o Hs Hr) as (Hi & Hx & Hx6).
  cbn [run_from]. destruct (step s o) as [s' x] eqn:E. cbn [fst snd] in *.
  destruct (IH s' Hi Hk) as [Hn Hl]. split.
  - intros y [H0|H0]; [subst y; split; assumption | exact (Hn y H0)].
  - cbn [length]. rewrite Hl. reflexivity.
Qed.

(* the positive theorem: outside the two known schedules (in particular for every quiescent
   renewal) no correctly secured message is ever rejected, for operation sequences of any length
   and any number of renewals *)
Theorem no_reject_outside_known c : known c = 0 -> ~ In 0 (run c) /\ length (run c) = length c.
Proof.
  intro Hk. destruct (run_from_ok c init inv_init Hk) as [Hn Hl]. split; [|exact Hl].
  intro H0. destruct (Hn 0 H0) as [Hne _]. congruence.
Qed.

(* the second sentence of the property, in the model: a frame secured under keys of a token the
   receiver never issued is never accepted -- on EVERY schedule, racy or not, any number of renewals *)
Lemma step_not_6 s o : snd (step s o) <> 6.
Proof.
  destruct o; cbn [step].
  - cbn; lia.
  - destruct (renewing s); cbn; lia.
  - destruct (c2s s) as [|[m| |] r]; [cbn; lia| |cbn; lia|cbn; lia]. destruct (m =? se s); cbn; lia.
  - destruct (sq s) as [|[|] r]; cbn; lia.
  - destruct (s2c s) as [|[m| |] r]; [cbn; lia| |cbn; lia|cbn; lia]. cbn [snd]. destruct (m =? ce s); lia.
  - cbn; lia.
  - cbn; lia.
Qed.

Theorem forged_never_accepted c : ~ In 6 (run c).
Proof.
  unfold run. generalize init. induction c as [|o c IH]; intros s; [intros []|].
  cbn [run_from]. pose proof (step_not_6 s o) as H6. destruct (step s o) as [s' x]. cbn [snd] in H6.
  intros [H|H]; [congruence | exact (IH s' H)].
Qed.

(* a quiescent renewal -- nothing on the links, nothing queued, no renewal outstanding -- always
   succeeds and leaves both endpoints on the same, next, token with the links empty again: the
   channel is as healthy as before, from ANY such state (hence after any number of renewals) *)
Theorem quiescent_renewal_resyncs s :
  ce s = se s -> renewing s = false -> c2s s = [] -> sq s = [] -> s2c s = [] ->
  let s1 := fst (step s CRenew) in let s2 := fst (step s1 SRecv) in
  let s3 := fst (step s2 SWrite) in let s4 := fst (step s3 CRecv) in
  run_from s [CRenew; SRecv; SWrite; CRecv] = [4; 2; 4; 2] /\
  ce s4 = ce s + 1 /\ se s4 = ce s4 /\ renewing s4 = false /\ c2s s4 = [] /\ sq s4 = [] /\ s2c s4 = [].
Proof.
  destruct s as [ce0 se0 rn l1 q l2]. cbn [ce se renewing c2s sq s2c].
  intros -> -> -> -> ->. cbn. repeat split.
Qed.

(* after a rejection-free history in which every renewal has completed and the links have drained,
   both endpoints hold the same token: nothing is left that could be rejected later *)
Theorem drained_means_in_sync c :
  let s := fold_left (fun s o => fst (step s o)) c init in
  known c = 0 -> c2s s = [] -> sq s = [] -> s2c s = [] -> ce s = se s /\ renewing s = false.
Proof.
  cbv zeta. unfold known.
  assert (G : forall s0, Inv s0 -> known_from s0 c = 0 -> Inv (fold_left (fun s o => fst (step s o)) c s0)).
  { induction c as [|o c IH]; intros s0 Hs Hk; [exact Hs|].
    cbn [known_from] in Hk. destruct (racy s0 o =? 0) eqn:Hr; [|apply Z.eqb_neq in Hr; lia].
    apply Z.eqb_eq in Hr. cbn [fold_left]. apply IH; [apply (step_ok s0 o Hs Hr) | exact Hk]. }
  intros Hk H1 H2 H3. specialize (G init inv_init Hk).
  destruct G as (_ & _ & G3 & G4). rewrite H1, H2, H3 in *. cbn [nopn nropn] in *.
  split; [lia|]. destruct (renewing _); [lia | reflexivity].
Qed.

Theorem oracle_holds c : known c = 0 -> oracle c (run c) = true.
Proof.
  intro Hk. destruct (run_from_ok c init inv_init Hk) as [Hn Hl]. unfold oracle. fold (run c) in *.
  rewrite Hl, Nat.eqb_refl. cbn [andb]. apply forallb_forall. intros x Hx.
  destruct (Hn x Hx) as [Hne H6].
  destruct (Z.eqb_spec x 0); [contradiction|]. cbn [negb andb]. apply Z.ltb_lt. exact H6.
Qed.

(* the refutations: each known class contains a schedule on which a correctly secured message is
   rejected *)
Theorem known_1_refuted : exists c, known c = 1 /\ oracle c (run c) = false.
Proof. exists [CRenew; CSend; SRecv; SRecv]. split; reflexivity. Qed.

Theorem known_2_refuted : exists c, known c = 2 /\ oracle c (run c) = false.
Proof. exists [CSend; SRecv; CRenew; SRecv; SWrite; CRecv]. split; reflexivity. Qed.

Example quiescent_renewal_ok :
  known [CSend; SRecv; SWrite; CRecv; CRenew; SRecv; SWrite; CRecv; CSend; SRecv; SWrite; CRecv] = 0 /\
  run [CSend; SRecv; SWrite; CRecv; CRenew; SRecv; SWrite; CRecv; CSend; SRecv; SWrite; CRecv] = [4; 1; 4; 1; 4; 2; 4; 2; 4; 1; 4; 1].
Proof. split; reflexivity. Qed.

(* ---------- the known classes are exact, not over-approximations ---------- *)
(* the server takes the next n frames from the client->server link *)
Fixpoint srecv_n (n : nat) (s : st) : st :=
  match n with O => s | S n' => srecv_n n' (fst (step s SRecv)) end.
(* the client takes the next n frames from the server->client link *)
Fixpoint crecv_n (n : nat) (s : st) : st :=
  match n with O => s | S n' => crecv_n n' (fst (step s CRecv)) end.

Lemma srecv_step s f r : c2s s = f :: r ->
  c2s (fst (step s SRecv)) = r /\ se (fst (step s SRecv)) = se s + nopn [f] /\
  ce (fst (step s SRecv)) = ce s.
Proof.
  intro H. cbn [step]. rewrite H. destruct f as [m| |]; [destruct (m =? se s)| |]; cbn; repeat split; lia.
Qed.

Lemma srecv_n_through l : forall s r, c2s s = l ++ r ->
  c2s (srecv_n (length l) s) = r /\ se (srecv_n (length l) s) = se s + nopn l /\
  ce (srecv_n (length l) s) = ce s.
Proof.
  induction l as [|f l IH]; intros s r H; cbn [length srecv_n app nopn] in *.
  - repeat split; [exact H | lia].
  - destruct (srecv_step s f (l ++ r) H) as (H1 & H2 & H3).
    destruct (IH _ r H1) as (G1 & G2 & G3). repeat split; [exact G1 | | congruence].
    rewrite G2, H2. cbn [nopn]. destruct f; lia.
Qed.

(* class 1 is exact: after any history outside the known classes, if the client secures a request
   while its renew request is outstanding, the server -- whatever else happens on the other link --
   holds the NEXT token when that request reaches it, and rejects it *)
Theorem class1_always_rejected s : Inv s -> renewing s = true ->
  let s1 := fst (step s CSend) in
  let s2 := srecv_n (length (c2s s)) s1 in
  se s2 = ce s + 1 /\ snd (step s2 SRecv) = 0.
Proof.
  intros (H1 & H2 & H3 & H4) Hr. cbv zeta. rewrite Hr in H4.
  assert (E : c2s (fst (step s CSend)) = c2s s ++ [FMsg (ce s)]) by reflexivity.
  destruct (srecv_n_through (c2s s) _ _ E) as (G1 & G2 & G3).
  assert (Hse : se (srecv_n (length (c2s s)) (fst (step s CSend))) = ce s + 1).
  { rewrite G2. cbn [step fst se]. lia. }
  split; [exact Hse|].
  remember (srecv_n (length (c2s s)) (fst (step s CSend))) as s2 eqn:Es2. clear Es2.
  cbn [step]. rewrite G1, Hse.
  destruct (Z.eqb_spec (ce s) (ce s + 1)); [lia | reflexivity].
Qed.

Lemma crecv_step s f r : s2c s = f :: r ->
  s2c (fst (step s CRecv)) = r /\ ce (fst (step s CRecv)) = ce s + nopn [f].
Proof.
  intro H. cbn [step]. rewrite H. destruct f as [m| |]; cbn; repeat split; lia.
Qed.

Lemma crecv_n_through l : forall s r, s2c s = l ++ r ->
  s2c (crecv_n (length l) s) = r /\ ce (crecv_n (length l) s) = ce s + nopn l.
Proof.
  induction l as [|f l IH]; intros s r H; cbn [length crecv_n app nopn] in *.
  - split; [exact H | lia].
  - destruct (crecv_step s f (l ++ r) H) as (H1 & H2).
    destruct (IH _ r H1) as (G1 & G2). split; [exact G1|].
    rewrite G2, H2. cbn [nopn]. destruct f; lia.
Qed.

(* class 2 is exact: if the server writes a response that is queued ahead of a renew response,
   the client still holds the previous token when that response reaches it, and rejects it *)
Theorem class2_always_rejected s r : Inv s -> sq s = RMsg :: r -> has_ropn r = true ->
  let s1 := fst (step s SWrite) in
  let s2 := crecv_n (length (s2c s)) s1 in
  ce s2 < se s /\ snd (step s2 CRecv) = 0.
Proof.
  intros (H1 & H2 & H3 & H4) Hq Hh. cbv zeta.
  assert (Hn : 1 <= nropn r).
  { clear -Hh. induction r as [|[|] r IH]; cbn in *; [discriminate| |]; pose proof (nropn_nonneg r); try lia. apply IH. exact Hh. }
  assert (E : s2c (fst (step s SWrite)) = s2c s ++ [FMsg (se s)]) by (cbn [step]; rewrite Hq; reflexivity).
  assert (Ece : ce (fst (step s SWrite)) = ce s) by (cbn [step]; rewrite Hq; reflexivity).
  destruct (crecv_n_through (s2c s) _ _ E) as (G1 & G2).
  rewrite Hq in H3. cbn [nropn] in H3.
  assert (Hlt : ce (crecv_n (length (s2c s)) (fst (step s SWrite))) < se s) by (rewrite G2, Ece; lia).
  split; [exact Hlt|].
  remember (crecv_n (length (s2c s)) (fst (step s SWrite))) as s2 eqn:Es2. clear Es2.
  cbn [step]. rewrite G1.
  destruct (Z.eqb_spec (se s) (ce s2)); [lia | reflexivity].
Qed.

Definition after (c : case) : st := fold_left (fun s o => fst (step s o)) c init.

Lemma inv_after c : known c = 0 -> Inv (after c).
Proof.
  unfold known, after.
  assert (G : forall s0, Inv s0 -> known_from s0 c = 0 -> Inv (fold_left (fun s o => fst (step s o)) c s0)).
  { induction c as [|o c IH]; intros s0 Hs Hk; [exact Hs|].
    cbn [known_from] in Hk. destruct (racy s0 o =? 0) eqn:Hr; [|apply Z.eqb_neq in Hr; lia].
    apply Z.eqb_eq in Hr. cbn [fold_left]. apply IH; [apply (step_ok s0 o Hs Hr) | exact Hk]. }
  intro Hk. exact (G init inv_init Hk).
Qed.

Theorem class1_exact c : known c = 0 -> renewing (after c) = true ->
  let s := after c in
  let s2 := srecv_n (length (c2s s)) (fst (step s CSend)) in
  racy s CSend = 1 /\ se s2 = ce s + 1 /\ snd (step s2 SRecv) = 0.
Proof.
  intros Hk Hr. cbv zeta. split; [cbn [racy]; rewrite Hr; reflexivity|].
  exact (class1_always_rejected (after c) (inv_after c Hk) Hr).
Qed.

Theorem class2_exact c r : known c = 0 -> sq (after c) = RMsg :: r -> has_ropn r = true ->
  let s := after c in
  let s2 := crecv_n (length (s2c s)) (fst (step s SWrite)) in
  racy s SWrite = 2 /\ ce s2 < se s /\ snd (step s2 CRecv) = 0.
Proof.
  intros Hk Hq Hh. cbv zeta. split; [cbn [racy]; rewrite Hq, Hh; reflexivity|].
  exact (class2_always_rejected (after c) r (inv_after c Hk) Hq Hh).
Qed.

Example class1_exact_nonvacuous :
  known [CSend; SRecv; CRenew] = 0 /\ renewing (after [CSend; SRecv; CRenew]) = true.
Proof. split; reflexivity. Qed.
Example class2_exact_nonvacuous :
  known [CSend; SRecv; CRenew; SRecv] = 0 /\ sq (after [CSend; SRecv; CRenew; SRecv]) = [RMsg; ROpn].
Proof. split; reflexivity. Qed.
