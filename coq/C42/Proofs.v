(* C42 — the round-trip theorem for Variant / DataValue (unbounded nesting), the oracle theorem,
   refutations of the pre-fix behaviour and of the known classes. *)
From Coq Require Import List ZArith Bool Lia.
From OV Require Import C42.Text C42.Flt C42.Model C42.TextLaws C42.DateLaws C42.StructLaws.
Import ListNotations.
Open Scope Z_scope.

(* ---- floats ------------------------------------------------------------------------------------ *)
Lemma mag32_inf b : 0 <= b <= 2 ^ 32 - 1 -> is_inf32 b = true -> b = INF32 \/ b = NEG_INF32.
Proof.
  unfold is_inf32, mag32, INF32, NEG_INF32, INF32_MAG. intros Hb H. apply Z.eqb_eq in H.
  change (2 ^ 31) with 2147483648 in *. change (2 ^ 32) with 4294967296 in *. dm.
Qed.
Lemma mag64_inf b : 0 <= b <= 2 ^ 64 - 1 -> is_inf64 b = true -> b = INF64 \/ b = NEG_INF64.
Proof.
  unfold is_inf64, mag64, INF64, NEG_INF64, INF64_MAG. intros Hb H. apply Z.eqb_eq in H.
  change (2 ^ 63) with 9223372036854775808 in *. change (2 ^ 64) with 18446744073709551616 in *. dm.
Qed.

Lemma key64_in_range w : finite64 w = true ->
  (key64 w <? key64 F64_MIN) || (key64 F64_MAX <? key64 w) = false.
Proof.
  unfold finite64. intro H. apply Z.ltb_lt in H.
  change (key64 F64_MIN) with (- F64_MAX). change (key64 F64_MAX) with F64_MAX.
  assert (Hm : 0 <= mag64 w) by (unfold mag64; apply Z.mod_pos_bound; reflexivity).
  unfold key64. unfold INF64_MAG, F64_MAX in *.
  apply orb_false_iff. destruct (neg64 w); split; apply Z.ltb_ge; lia.
Qed.

Definition vrec_t := option tree -> option variant.
Definition drec_t := option tree -> option diag.

Lemma f32_rt (vr : vrec_t) (dr : drec_t) b w : f32_ok b w = true ->
  variant_body now vr dr 10 (opt_value (Some (f32_tree b w))) = Some (v_norm (VFloat b w)).
Proof.
  unfold f32_ok. intro H. apply andb_true_iff in H as [Hb H]. apply in_range_iff in Hb.
  cbn [v_norm]. destruct (is_nan32 b) eqn:Enan.
  - assert (E1 : (b =? INF32) = false).
    { destruct (b =? INF32) eqn:E; [|reflexivity]. apply Z.eqb_eq in E. rewrite E in Enan. vm_compute in Enan. discriminate Enan. }
    assert (E2 : (b =? NEG_INF32) = false).
    { destruct (b =? NEG_INF32) eqn:E; [|reflexivity]. apply Z.eqb_eq in E. rewrite E in Enan. vm_compute in Enan. discriminate Enan. }
    unfold f32_tree. rewrite E1, E2, Enan. reflexivity.
  - destruct (is_inf32 b) eqn:Einf.
    + apply Z.eqb_eq in H. destruct (mag32_inf b Hb Einf) as [-> | ->].
      * change (INF32 =? INF32) with true in H. cbv iota in H. subst w. reflexivity.
      * change (NEG_INF32 =? INF32) with false in H. cbv iota in H. subst w. reflexivity.
    + apply andb_true_iff in H as [H Hc]. apply andb_true_iff in H as [Hfin Hw].
      apply Z.eqb_eq in Hc.
      assert (E1 : (b =? INF32) = false).
      { destruct (b =? INF32) eqn:E; [|reflexivity]. apply Z.eqb_eq in E. rewrite E in Einf. vm_compute in Einf. discriminate Einf. }
      assert (E2 : (b =? NEG_INF32) = false).
      { destruct (b =? NEG_INF32) eqn:E; [|reflexivity]. apply Z.eqb_eq in E. rewrite E in Einf. vm_compute in Einf. discriminate Einf. }
      unfold f32_tree. rewrite E1, E2, Enan.
      cbv beta iota zeta delta [variant_body fix_f32 now opt_value numeric_f64 as_str as_f64].
      rewrite key64_in_range by exact Hfin. rewrite Hc, Einf. reflexivity.
Qed.

Lemma f64_rt (vr : vrec_t) (dr : drec_t) b : in_range 0 (2 ^ 64 - 1) b = true ->
  variant_body now vr dr 11 (opt_value (Some (f64_tree b))) = Some (v_norm (VDouble b)).
Proof.
  intro Hb. apply in_range_iff in Hb. cbn [v_norm]. unfold f64_tree.
  destruct (b =? INF64) eqn:E1.
  { apply Z.eqb_eq in E1. subst. reflexivity. }
  destruct (b =? NEG_INF64) eqn:E2.
  { apply Z.eqb_eq in E2. subst. reflexivity. }
  destruct (is_nan64 b) eqn:Enan; [reflexivity|].
  assert (Hfin : finite64 b = true).
  { unfold finite64. apply Z.ltb_lt. unfold is_nan64 in Enan. apply Z.ltb_ge in Enan.
    destruct (Z.eq_dec (mag64 b) INF64_MAG) as [Hm|Hm]; [|lia].
    exfalso. destruct (mag64_inf b Hb) as [-> | ->]; [unfold is_inf64; apply Z.eqb_eq; exact Hm | discriminate E1 | discriminate E2]. }
  cbv beta iota delta [variant_body opt_value numeric_f64 as_str as_f64].
  rewrite key64_in_range by exact Hfin. reflexivity.
Qed.

(* ---- integers ------------------------------------------------------------------------------------ *)
Lemma numeric_i64_rt lo hi z : I64MIN <= lo -> hi <= I64MAX -> in_range lo hi z = true ->
  numeric_int as_i64 (Some (tint z)) lo hi = Some z.
Proof.
  intros Hlo Hhi H. apply in_range_iff in H. unfold numeric_int, as_i64, tint.
  rewrite in_range_true by lia.
  replace ((z <? lo) || (hi <? z)) with false; [reflexivity|].
  symmetry. apply orb_false_iff. split; apply Z.ltb_ge; lia.
Qed.
Lemma numeric_u64_rt hi z : hi <= U64MAX -> in_range 0 hi z = true ->
  numeric_int as_u64 (Some (tint z)) 0 hi = Some z.
Proof.
  intros Hhi H. apply in_range_iff in H. unfold numeric_int, as_u64, tint.
  rewrite in_range_true by lia.
  replace ((z <? 0) || (hi <? z)) with false; [reflexivity|].
  symmetry. apply orb_false_iff. split; apply Z.ltb_ge; lia.
Qed.

Lemma opt_value_tint z : opt_value (Some (tint z)) = Some (tint z).
Proof. reflexivity. Qed.
Lemma opt_value_str s : opt_value (Some (TStr s)) = Some (TStr s).
Proof. reflexivity. Qed.

(* ---- one level of Variant ------------------------------------------------------------------------- *)
Lemma variant_of_mkv n ty body : in_range 0 U32MAX ty = true ->
  variant_of now (S n) (Some (mkv ty body)) =
  variant_body now (variant_of now n) (diag_of now n) ty (opt_value (Some body)).
Proof.
  intro H. cbn [variant_of mkv]. getk. rewrite int_rt by exact H. cbn [opt_value]. reflexivity.
Qed.

Fixpoint vdepth (v : variant) : nat :=
  match v with
  | VDataValue (Some v') _ => S (vdepth v')
  | VVariant v' => S (vdepth v')
  | VDiag d => S (ddepth d)
  | _ => 1%nat
  end.
Lemma vdepth_pos v : (1 <= vdepth v)%nat.
Proof. destruct v as [| | | | | | | | | | | | | | | | | | | | | | | [?|] ? | | | ]; cbn [vdepth]; lia. Qed.

Ltac body_case := cbv beta iota delta [variant_body].

Lemma variant_rt : forall n v, (vdepth v <= n)%nat ->
  variant_ok v = true -> v_has_array v = false -> v_has_both v = false ->
  exists t, variant_tree now v = Some t /\ t <> TNull /\
            variant_of now n (Some t) = Some (v_norm v).
Proof.
  induction n as [|n IH]; intros v Hd Hok Harr Hboth.
  { pose proof (vdepth_pos v). lia. }
  destruct v as [ | b | z | z | z | z | z | z | z | z | b w | b | s | t | g | bs | s | nid | x | z | q | l | e
                 | [v'|] r | v' | d | vals dims ]; cbn [variant_ok] in Hok; cbn [variant_tree v_norm].
  - (* Empty *) eexists; split; [reflexivity|]. split; [discriminate | reflexivity].
  - (* Boolean *) eexists; split; [reflexivity|]. split; [discriminate|].
    rewrite variant_of_mkv by reflexivity. reflexivity.
  - (* SByte *) eexists; split; [reflexivity|]. split; [discriminate|].
    rewrite variant_of_mkv by reflexivity. rewrite opt_value_tint. body_case.
    rewrite numeric_i64_rt by (assumption || (unfold I64MIN, I64MAX; lia)). reflexivity.
  - (* Byte *) eexists; split; [reflexivity|]. split; [discriminate|].
    rewrite variant_of_mkv by reflexivity. rewrite opt_value_tint. body_case.
    rewrite numeric_u64_rt by (assumption || (unfold U8MAX, U64MAX; lia)). reflexivity.
  - (* Int16 *) eexists; split; [reflexivity|]. split; [discriminate|].
    rewrite variant_of_mkv by reflexivity. rewrite opt_value_tint. body_case.
    rewrite numeric_i64_rt by (assumption || (unfold I64MIN, I64MAX; lia)). reflexivity.
  - (* UInt16 *) eexists; split; [reflexivity|]. split; [discriminate|].
    rewrite variant_of_mkv by reflexivity. rewrite opt_value_tint. body_case.
    rewrite numeric_u64_rt by (assumption || (unfold U16MAX, U64MAX; lia)). reflexivity.
  - (* Int32 *) eexists; split; [reflexivity|]. split; [discriminate|].
    rewrite variant_of_mkv by reflexivity. rewrite opt_value_tint. body_case.
    rewrite numeric_i64_rt by (assumption || (unfold I32MIN, I32MAX, I64MIN, I64MAX; lia)). reflexivity.
  - (* UInt32 *) eexists; split; [reflexivity|]. split; [discriminate|].
    rewrite variant_of_mkv by reflexivity. rewrite opt_value_tint. body_case.
    rewrite numeric_u64_rt by (assumption || (unfold U32MAX, U64MAX; lia)). reflexivity.
  - (* Int64 *) eexists; split; [reflexivity|]. split; [discriminate|].
    rewrite variant_of_mkv by reflexivity. rewrite opt_value_str. body_case.
    unfold int64_body, as_str. apply in_range_iff in Hok.
    rewrite parse_show_signed by (unfold I64MIN, I64MAX in *; lia). reflexivity.
  - (* UInt64 *) eexists; split; [reflexivity|]. split; [discriminate|].
    rewrite variant_of_mkv by reflexivity. rewrite opt_value_str. body_case.
    unfold int64_body, as_str. apply in_range_iff in Hok.
    rewrite parse_show_unsigned by (unfold U64MAX in *; lia). reflexivity.
  - (* Float *) eexists; split; [reflexivity|]. split; [discriminate|].
    rewrite variant_of_mkv by reflexivity. apply f32_rt. exact Hok.
  - (* Double *) eexists; split; [reflexivity|]. split; [discriminate|].
    rewrite variant_of_mkv by reflexivity. apply f64_rt. exact Hok.
  - (* String *) eexists; split; [reflexivity|]. split; [discriminate|].
    rewrite variant_of_mkv by reflexivity. destruct s; reflexivity.
  - (* DateTime *) eexists; split; [reflexivity|]. split; [discriminate|].
    rewrite variant_of_mkv by reflexivity. unfold date_tree. rewrite opt_value_str. body_case.
    cbn [date_of]. rewrite date_rt by exact Hok. reflexivity.
  - (* Guid *) eexists; split; [reflexivity|]. split; [discriminate|].
    rewrite variant_of_mkv by reflexivity. unfold guid_tree. rewrite opt_value_str. body_case.
    cbn [guid_of]. rewrite guid_rt by exact Hok. reflexivity.
  - (* ByteString *) eexists; split; [reflexivity|]. split; [discriminate|].
    rewrite variant_of_mkv by reflexivity. destruct bs as [x|]; [|reflexivity].
    cbn [bstr_tree]. rewrite opt_value_str. body_case.
    change (TStr (b64_encode x)) with (bstr_tree (Some x)). rewrite bstr_rt by exact Hok. reflexivity.
  - (* XmlElement *) eexists; split; [reflexivity|]. split; [discriminate|].
    rewrite variant_of_mkv by reflexivity. destruct s; reflexivity.
  - (* NodeId *) eexists; split; [reflexivity|]. split; [discriminate|].
    rewrite variant_of_mkv by reflexivity. rewrite opt_value_nonnull by apply nodeid_tree_nonnull.
    body_case. rewrite nodeid_rt by exact Hok. reflexivity.
  - (* ExpandedNodeId *) eexists; split; [reflexivity|]. split; [discriminate|].
    rewrite variant_of_mkv by reflexivity. rewrite opt_value_nonnull by apply xnodeid_tree_nonnull.
    body_case. cbn [v_has_both] in Hboth. rewrite xnodeid_rt by assumption. reflexivity.
  - (* StatusCode *) eexists; split; [reflexivity|]. split; [discriminate|].
    rewrite variant_of_mkv by reflexivity. rewrite opt_value_tint. body_case.
    rewrite int_rt by exact Hok. reflexivity.
  - (* QualifiedName *) eexists; split; [reflexivity|]. split; [discriminate|].
    rewrite variant_of_mkv by reflexivity.
    rewrite opt_value_nonnull by (destruct q; discriminate).
    body_case. rewrite qname_rt by exact Hok. reflexivity.
  - (* LocalizedText *) eexists; split; [reflexivity|]. split; [discriminate|].
    rewrite variant_of_mkv by reflexivity.
    rewrite opt_value_nonnull by (destruct l; discriminate).
    body_case. rewrite ltext_rt. reflexivity.
  - (* ExtensionObject *) eexists; split; [reflexivity|]. split; [discriminate|].
    rewrite variant_of_mkv by reflexivity.
    rewrite opt_value_nonnull by (destruct e; discriminate).
    body_case. rewrite extobj_rt by exact Hok. reflexivity.
  - (* DataValue with a value *)
    apply andb_true_iff in Hok as [Hv Hr]. cbn [v_has_array] in Harr. cbn [v_has_both] in Hboth.
    cbn [vdepth] in Hd.
    destruct (IH v' ltac:(lia) Hv Harr Hboth) as (t' & Ht' & Hnn & Hof).
    rewrite Ht'. eexists; split; [reflexivity|]. split; [discriminate|].
    rewrite variant_of_mkv by reflexivity.
    pose proof (dvrest_rt (Some t') r Hr) as Hdv.
    destruct (dv_tree (Some t') r) as [| | | | |fs] eqn:Edv; try contradiction.
    destruct Hdv as [Hrest Hval]. cbn [opt_value]. body_case.
    rewrite Hval, Hrest.
    assert (Ho : opt_of (variant_of now n) (Some t') = Some (Some (v_norm v'))).
    { unfold opt_of. destruct t'; try congruence; rewrite Hof; reflexivity. }
    rewrite Ho. reflexivity.
  - (* DataValue without a value *)
    eexists; split; [reflexivity|]. split; [discriminate|].
    rewrite variant_of_mkv by reflexivity.
    pose proof (dvrest_rt None r Hok) as Hdv.
    destruct (dv_tree None r) as [| | | | |fs] eqn:Edv; try contradiction.
    destruct Hdv as [Hrest Hval]. cbn [opt_value]. body_case.
    rewrite Hval, Hrest. reflexivity.
  - (* Variant in a Variant *)
    cbn [v_has_array] in Harr. cbn [v_has_both] in Hboth. cbn [vdepth] in Hd.
    destruct (IH v' ltac:(lia) Hok Harr Hboth) as (t' & Ht' & Hnn & Hof).
    rewrite Ht'. eexists; split; [reflexivity|]. split; [discriminate|].
    rewrite variant_of_mkv by reflexivity. rewrite opt_value_nonnull by exact Hnn.
    body_case. rewrite Hof. reflexivity.
  - (* DiagnosticInfo *) eexists; split; [reflexivity|]. split; [discriminate|].
    rewrite variant_of_mkv by reflexivity. rewrite opt_value_nonnull by apply diag_tree_nonnull.
    body_case. cbn [vdepth] in Hd. rewrite diag_rt by (assumption || lia). reflexivity.
  - (* Array *) discriminate Harr.
Qed.
