(* C39 — the value domain of event filter operands and what C39 needs of implicit conversion
   (lib/src/types/variant.rs `Variant::convert`, variant_type_id.rs `precedence`).

   Only the scalar types an operand comparison can meet are modelled: Empty (null), Boolean, the
   eight integer types, Float/Double (bit patterns, Flocq binary32/64), String (code points),
   StatusCode and three "opaque" types that convert to nothing (Guid, DateTime, ByteString).
   NodeId / ExpandedNodeId / LocalizedText / QualifiedName / arrays are not in the domain
   (C06 owns the conversion table; here it is transcribed arm for arm for the modelled types).
   No proofs in this file. *)
From Coq Require Import List ZArith Bool Lia.
From Flocq Require Import Core.Core IEEE754.Binary IEEE754.Bits.
Import ListNotations.
Open Scope Z_scope.

Inductive ity := SByte | Byte | Int16 | UInt16 | Int32 | UInt32 | Int64 | UInt64.

Definition ity_code (t : ity) : Z :=
  match t with SByte => 0 | Byte => 1 | Int16 => 2 | UInt16 => 3 | Int32 => 4 | UInt32 => 5 | Int64 => 6 | UInt64 => 7 end.
Definition ity_eqb (a b : ity) : bool := ity_code a =? ity_code b.

Definition ity_lo (t : ity) : Z :=
  match t with SByte => -128 | Int16 => -32768 | Int32 => -2147483648 | Int64 => -9223372036854775808 | _ => 0 end.
Definition ity_hi (t : ity) : Z :=
  match t with
  | SByte => 127 | Byte => 255 | Int16 => 32767 | UInt16 => 65535 | Int32 => 2147483647 | UInt32 => 4294967295
  | Int64 => 9223372036854775807 | UInt64 => 18446744073709551615
  end.
Definition ity_signed (t : ity) : bool := match t with SByte | Int16 | Int32 | Int64 => true | _ => false end.
Definition in_range (t : ity) (z : Z) : bool := (ity_lo t <=? z) && (z <=? ity_hi t).

(* strings are lists of Unicode scalar values; opaque kinds: 0 Guid, 1 DateTime, 2 ByteString *)
Inductive value :=
| VEmpty
| VBool (b : bool)
| VInt (t : ity) (z : Z)
| VFloat (bits : Z)
| VDouble (bits : Z)
| VStr (s : list Z)
| VStatus (c : Z)
| VOpaque (kind id : Z)
| VPoison.   (* a conversion result this model does not compute (String -> Float/Double outside
               the short decimal forms); never a value of a case *)

Inductive tyid := TEmpty | TBool | TInt (t : ity) | TFloat | TDouble | TString | TStatus | TOpaque (kind : Z).

Definition type_id (v : value) : tyid :=
  match v with
  | VEmpty | VPoison => TEmpty
  | VBool _ => TBool
  | VInt t _ => TInt t
  | VFloat _ => TFloat
  | VDouble _ => TDouble
  | VStr _ => TString
  | VStatus _ => TStatus
  | VOpaque k _ => TOpaque k
  end.

Definition tyid_eqb (a b : tyid) : bool :=
  match a, b with
  | TEmpty, TEmpty | TBool, TBool | TFloat, TFloat | TDouble, TDouble | TString, TString | TStatus, TStatus => true
  | TInt s, TInt t => ity_eqb s t
  | TOpaque k, TOpaque l => k =? l
  | _, _ => false
  end.

(* VariantTypeId::precedence (Part 4 table 119); smaller number = higher precedence *)
Definition precedence (t : tyid) : Z :=
  match t with
  | TDouble => 1 | TFloat => 2
  | TInt Int64 => 3 | TInt UInt64 => 4 | TInt Int32 => 5 | TInt UInt32 => 6
  | TStatus => 7
  | TInt Int16 => 8 | TInt UInt16 => 9 | TInt SByte => 10 | TInt Byte => 11
  | TBool => 12
  | TOpaque 0 => 13        (* Guid *)
  | TString => 14
  | _ => 100               (* DateTime, ByteString, Empty, ... *)
  end.

(* ---- floats ---------------------------------------------------------------------------- *)
Definition f64 := binary64.
Definition f32 := binary32.
Definition f64_of_bits (z : Z) : f64 := b64_of_bits z.
Definition f32_of_bits (z : Z) : f32 := b32_of_bits z.
(* `i as f64`, `i as f32`: round to nearest even *)
Definition f64_of_Z (v : Z) : f64 := binary_normalize 53 1024 eq_refl eq_refl BinarySingleNaN.mode_NE v 0 false.
Definition f32_of_Z (v : Z) : f32 := binary_normalize 24 128 eq_refl eq_refl BinarySingleNaN.mode_NE v 0 false.
Definition f64_nan_bits : Z := 9221120237041090560.   (* 0x7FF8_0000_0000_0000 *)
(* `f as f64` for an f32: exact *)
Definition f64_of_f32 (x : f32) : f64 :=
  match x with
  | B754_zero _ _ s => B754_zero 53 1024 s
  | B754_infinity _ _ s => B754_infinity 53 1024 s
  | B754_nan _ _ _ _ _ => f64_of_bits f64_nan_bits
  | B754_finite _ _ s m e _ =>
      binary_normalize 53 1024 eq_refl eq_refl BinarySingleNaN.mode_NE (cond_Zopp s (Zpos m)) e s
  end.
Definition dbits (x : f64) : Z := bits_of_b64 x.
Definition fbits (x : f32) : Z := bits_of_b32 x.
Definition dcmp (a b : Z) : option comparison := Bcompare 53 1024 (f64_of_bits a) (f64_of_bits b).
Definition fcmp (a b : Z) : option comparison := Bcompare 24 128 (f32_of_bits a) (f32_of_bits b).

(* ---- Rust `from_str` for the integer types ----------------------------------------------- *)
Definition is_digit (c : Z) : bool := (48 <=? c) && (c <=? 57).
Fixpoint digits_val (acc : Z) (s : list Z) : option Z :=
  match s with
  | [] => Some acc
  | c :: s' => if is_digit c then digits_val (acc * 10 + (c - 48)) s' else None
  end.
(* core::num `from_str_radix(.., 10)`: empty -> Err; a lone sign -> Err; '+' always allowed, '-'
   only for signed types; then digits only; out of range -> Err *)
Definition parse_int (t : ity) (s : list Z) : option Z :=
  let checked (r : option Z) := match r with Some z => if in_range t z then Some z else None | None => None end in
  match s with
  | [] => None
  | [c] => if is_digit c then Some (c - 48) else None
  | 43 :: rest => checked (digits_val 0 rest)
  | 45 :: rest => if ity_signed t then checked (option_map Z.opp (digits_val 0 rest))
                  else None
  | _ => checked (digits_val 0 s)
  end.

(* ---- String -> Float/Double ------------------------------------------------------------------
   `f64::from_str` / `f32::from_str` (core::num::dec2flt): [sign] then inf | infinity | nan (any
   case) or digits [. digits] [e|E [sign] digits] with at least one digit before the exponent;
   the result is the correctly rounded value.  The rounding is computed exactly: for N * 10^x
   with x < 0 the quotient N * 2^s / 10^-x is taken with more than 64 bits, its inexactness kept
   in the last bit (round to odd), and rounded once more to nearest even by Flocq's
   binary_normalize.  Exponents beyond +-400 and mantissas above 2^1400: VPoison (not modelled). *)
Fixpoint take_digits (s : list Z) : list Z * list Z :=
  match s with
  | c :: r => if is_digit c then let '(d, t) := take_digits r in (c :: d, t) else ([], s)
  | [] => ([], [])
  end.
Definition strip_sign (s : list Z) : bool * list Z :=
  match s with 43 :: r => (false, r) | 45 :: r => (true, r) | _ => (false, s) end.
Definition lower (c : Z) : Z := if (65 <=? c) && (c <=? 90) then c + 32 else c.
Fixpoint str_eqb (a b : list Z) : bool :=
  match a, b with
  | [], [] => true
  | x :: a', y :: b' => (x =? y) && str_eqb a' b'
  | _, _ => false
  end.
Definition digits_num (d : list Z) : Z := match digits_val 0 d with Some n => n | None => 0 end.

Inductive flit := FLErr | FLInf (neg : bool) | FLNan | FLDec (neg : bool) (n x : Z).
Definition float_lit (s : list Z) : flit :=
  let '(neg, body) := strip_sign s in
  match body with
  | [] => FLErr
  | _ =>
    let lb := map lower body in
    if str_eqb lb [105; 110; 102] || str_eqb lb [105; 110; 102; 105; 110; 105; 116; 121] then FLInf neg
    else if str_eqb lb [110; 97; 110] then FLNan
    else
      let '(ip, r1) := take_digits body in
      let '(fp, r2) := match r1 with 46 :: r => take_digits r | _ => ([], r1) end in
      match ip ++ fp with
      | [] => FLErr
      | ds =>
          let n := digits_num ds in
          let x0 := - Z.of_nat (length fp) in
          match r2 with
          | [] => FLDec neg n x0
          | e :: r3 =>
              if (e =? 101) || (e =? 69) then
                let '(eneg, r4) := strip_sign r3 in
                let '(ed, r5) := take_digits r4 in
                match ed, r5 with
                | _ :: _, [] => FLDec neg n (x0 + (if eneg then - digits_num ed else digits_num ed))
                | _, _ => FLErr
                end
              else FLErr
          end
      end
  end.

Definition f64_inf_bits (neg : bool) : Z := if neg then 18442240474082181120 else 9218868437227405312.
Definition f32_inf_bits (neg : bool) : Z := if neg then 4286578688 else 2139095040.
Definition f32_nan_bits : Z := 2143289344.

(* mantissa and binary exponent of N * 10^x, inexactness folded into the last bit *)
Definition dec_scaled (n x : Z) : Z * Z :=
  if 0 <=? x then (n * 10 ^ x, 0)
  else
    let d := 10 ^ (- x) in
    let s := Z.max 0 (64 + Z.log2 d - Z.log2 n) + 2 in
    let q := (n * 2 ^ s) / d in
    let r := (n * 2 ^ s) mod d in
    (2 * q + (if r =? 0 then 0 else 1), - s - 1).
Definition dec_in_model (n x : Z) : bool := (-400 <=? x) && (x <=? 400) && (n <? 2 ^ 1400).

Definition str_to_double (s : list Z) : value :=
  match float_lit s with
  | FLErr => VEmpty
  | FLInf neg => VDouble (f64_inf_bits neg)
  | FLNan => VDouble f64_nan_bits
  | FLDec neg n x =>
      if n =? 0 then VDouble (if neg then 9223372036854775808 else 0)
      else if dec_in_model n x then
        let '(m, e) := dec_scaled n x in
        let v := binary_normalize 53 1024 eq_refl eq_refl BinarySingleNaN.mode_NE m e false in
        VDouble (dbits (if neg then b64_opp v else v))
      else VPoison
  end.
Definition str_to_float (s : list Z) : value :=
  match float_lit s with
  | FLErr => VEmpty
  | FLInf neg => VFloat (f32_inf_bits neg)
  | FLNan => VFloat f32_nan_bits
  | FLDec neg n x =>
      if n =? 0 then VFloat (if neg then 2147483648 else 0)
      else if dec_in_model n x then
        let '(m, e) := dec_scaled n x in
        let v := binary_normalize 24 128 eq_refl eq_refl BinarySingleNaN.mode_NE m e false in
        VFloat (fbits (if neg then b32_opp v else v))
      else VPoison
  end.

Definition str_true : list Z := [116; 114; 117; 101].
Definition str_false : list Z := [102; 97; 108; 115; 101].

(* ---- Variant::convert (implicit conversion), arm for arm ----------------------------------- *)
(* the integer -> integer arms that exist in the source; the value moves over iff it fits
   (widening arms always fit; `try_from` / `if v < 0` arms are exactly the range test) *)
Definition int_arm (src dst : ity) : bool :=
  match src, dst with
  | Byte, (Int16 | Int32 | Int64 | SByte | UInt16 | UInt32 | UInt64) => true
  | Int16, (Int32 | Int64 | UInt32 | UInt64) => true
  | Int32, (Int64 | UInt64) => true
  | SByte, (Int16 | Int32 | Int64 | UInt16 | UInt32 | UInt64) => true
  | UInt16, (Int16 | Int32 | Int64 | UInt32 | UInt64) => true
  | UInt32, (Int32 | Int64 | UInt64) => true
  | UInt64, Int64 => true
  | _, _ => false
  end.

Definition wrap_i32 (z : Z) : Z := if z <? 2147483648 then z else z - 4294967296.

Definition convert (v : value) (target : tyid) : value :=
  if tyid_eqb (type_id v) target then v else
  match v with
  | VBool b =>
      let n := if b then 1 else 0 in
      match target with
      | TInt t => VInt t n
      | TDouble => VDouble (dbits (f64_of_Z n))
      | TFloat => VFloat (fbits (f32_of_Z n))
      | _ => VEmpty
      end
  | VInt s z =>
      match target with
      | TDouble => VDouble (dbits (f64_of_Z z))
      | TFloat => VFloat (fbits (f32_of_Z z))
      | TInt d => if int_arm s d && in_range d z then VInt d z else VEmpty
      | TStatus => match s with UInt16 => VStatus (z * 65536) | _ => VEmpty end
      | _ => VEmpty
      end
  | VFloat b => match target with TDouble => VDouble (dbits (f64_of_f32 (f32_of_bits b))) | _ => VEmpty end
  | VStatus c =>
      match target with
      | TInt Int32 => VInt Int32 (wrap_i32 c)
      | TInt Int64 => VInt Int64 c
      | TInt UInt32 => VInt UInt32 c
      | TInt UInt64 => VInt UInt64 c
      | _ => VEmpty
      end
  | VStr s =>
      match s with
      | [] => VEmpty
      | _ =>
        match target with
        | TBool => if str_eqb s str_true || str_eqb s [49] then VBool true
                   else if str_eqb s str_false || str_eqb s [48] then VBool false else VEmpty
        | TInt t => match parse_int t s with Some z => VInt t z | None => VEmpty end
        | TDouble => str_to_double s
        | TFloat => str_to_float s
        | _ => VEmpty          (* Guid / NodeId targets: a string of the harness alphabet parses to neither; see Model.v *)
        end
      end
  | _ => VEmpty
  end.

(* derived PartialEq on the types that are compared with == *)
Definition value_eqb (a b : value) : bool :=
  match a, b with
  | VEmpty, VEmpty => true
  | VBool x, VBool y => Bool.eqb x y
  | VInt s x, VInt t y => ity_eqb s t && (x =? y)
  | VStr x, VStr y => str_eqb x y
  | VStatus x, VStatus y => x =? y
  | VOpaque k x, VOpaque l y => (k =? l) && (x =? y)
  | _, _ => false
  end.
