//! C12: sequence numbers increase by one per chunk and replays are rejected.
//!
//! Sender side: the REAL client `SendBuffer` (`next_request_id` + `write`, then drained through
//! `encode_next_chunk` / `read_into_async` as `TcpTransport::poll_inner` does) and the REAL server
//! `MessageWriter` (`write` + `bytes_to_write`); the sequence headers are read back from the bytes
//! that would go on the wire.  Receiver side: the REAL sequence check of both transports,
//! `TransportState::turn_received_chunks_into_message` (client, hook `VerifTransport`) and
//! `TcpTransport::turn_received_chunks_into_message` (server, `Server::new_transport` + hook), i.e.
//! `Chunker::validate_chunks` under each transport's `last_received_sequence_number`, fed with the
//! emitted chunks in order, reordered, duplicated, replayed, spliced across messages, and with
//! forged chunks carrying arbitrary sequence number / request id / channel id.
#[path = "../util.rs"]
mod util;
use util::*;

use opcua::client::transport::buffer::SendBuffer;
use opcua::core::comms::message_chunk::{MessageChunk, MessageChunkType, MessageIsFinalType};
use opcua::core::comms::message_writer::MessageWriter;
use opcua::core::comms::secure_channel::{Role, SecureChannel};
use opcua::crypto::CertificateStore;
use opcua::core::supported_message::SupportedMessage;
use opcua::types::*;
use opcua::client::transport::core::VerifTransport;
use opcua::server::prelude::{Server, ServerBuilder};
use opcua::sync::RwLock;
use std::sync::Arc;

thread_local! {
    static SERVER: Server = ServerBuilder::new_anonymous("verif-c12")
        .pki_dir("/tmp/verif-c12-pki")
        .create_sample_keypair(false)
        .server()
        .unwrap();
}

const U32MAX: i128 = 0xFFFF_FFFF;
const BUF: usize = 8196; // MIN_CHUNK_SIZE: the smallest send buffer the stack allows

#[derive(Clone, Debug)]
pub enum Ref { Sent(u32, u32), Forged(u32, u32, u32) } // (message, chunk) | (seq, request id, channel id)
#[derive(Clone, Debug)]
pub enum Op {
    CSend(u32),      // client: next_request_id + SendBuffer::write of a message that needs n chunks
    SSend(u32, u32), // server: MessageWriter::write(request id, message); second field 1: a message of twice the chunk body room (two chunks since the writer chunks with its negotiated buffer size)
    Recv(Vec<Ref>),  // present these chunks as one message to the receiver
}
#[derive(Clone, Debug)]
pub struct Case {
    id0: u32, cseq0: u32, sseq0: u32, maxchunks: u32, // sender counters at the start, chunk count limit (0 = none)
    schan: u32, rchan: u32, last0: u32,               // sender's / receiver's channel id, receiver's high-water mark
    ops: Vec<Op>,
}
pub struct P;

fn channel(id: u32) -> SecureChannel {
    let store = Arc::new(RwLock::new(CertificateStore::new(std::path::Path::new("/tmp/verif-c12-pki"))));
    let mut c = SecureChannel::new(store, Role::Client, DecodingOptions::default());
    c.set_secure_channel_id(id);
    c
}

/// a request whose encoding (with its node id) is exactly `total` bytes, if `total` is large enough
fn message_of_size(total: usize, handle: u32) -> SupportedMessage {
    let mk = |s: UAString| -> SupportedMessage {
        ReadRequest {
            request_header: RequestHeader { request_handle: handle, audit_entry_id: s, ..RequestHeader::dummy() },
            max_age: 0.0,
            timestamps_to_return: TimestampsToReturn::Neither,
            nodes_to_read: None,
        }.into()
    };
    let base = { let m = mk(UAString::from("")); m.byte_len() + m.node_id().byte_len() };
    let pad = total.saturating_sub(base);
    mk(UAString::from("x".repeat(pad)))
}
fn base_size() -> usize { let m = message_of_size(0, 0); m.byte_len() + m.node_id().byte_len() }
fn body_per_chunk(ch: &SecureChannel) -> usize {
    MessageChunk::body_size_from_message_size(MessageChunkType::Message, ch, BUF).unwrap()
}
/// total size for a message of n chunks: the last chunk full when `full`, else nearly empty
fn size_for_chunks(n: u32, ch: &SecureChannel, full: bool) -> usize {
    let b = body_per_chunk(ch);
    let n = n.max(1) as usize;
    if full { n * b } else if n == 1 { base_size() } else { (n - 1) * b + 1 }
}

/// split a byte stream into chunks by the message size field of each chunk header
fn split_chunks(bytes: &[u8]) -> Vec<MessageChunk> {
    let mut out = Vec::new();
    let mut p = 0usize;
    while p + 8 <= bytes.len() {
        let sz = u32::from_le_bytes([bytes[p + 4], bytes[p + 5], bytes[p + 6], bytes[p + 7]]) as usize;
        if sz < 12 || p + sz > bytes.len() { break; }
        out.push(MessageChunk { data: bytes[p..p + sz].to_vec() });
        p += sz;
    }
    out
}

fn header(c: &MessageChunk, ch: &SecureChannel) -> (u32, u32, u32) {
    let i = c.chunk_info(ch).unwrap();
    (i.sequence_header.sequence_number, i.sequence_header.request_id, i.message_header.secure_channel_id)
}

fn code(s: StatusCode) -> i128 {
    if s == StatusCode::BadSequenceNumberInvalid { 1 }
    else if s == StatusCode::BadSecureChannelIdInvalid { 2 }
    else if s == StatusCode::BadSecurityChecksFailed { 3 }
    else { 0 } // a decoder status: the sequence check had accepted
}

fn exec_inner(c: &Case, out: &mut Vec<i128>) {
    let rt = tokio::runtime::Builder::new_current_thread().build().unwrap();
    let sch = channel(c.schan);
    let mut sb = SendBuffer::new(BUF, 0, c.maxchunks as usize);
    sb.verif_set_counters(c.id0, c.cseq0);
    let mut mw = MessageWriter::new(BUF, 0, c.maxchunks as usize);
    mw.verif_set_last_sent_sequence_number(c.sseq0);
    let mut sent: Vec<Vec<MessageChunk>> = Vec::new();
    let mut client = VerifTransport::new(Arc::new(RwLock::new(channel(c.rchan))), 0, 8, 8);
    client.set_last_received_sequence_number(c.last0);
    let mut server = SERVER.with(|s| s.new_transport());
    server.verif_secure_channel().write().set_secure_channel_id(c.rchan);
    server.verif_set_last_received_sequence_number(c.last0);
    let mut nmsg = 0u32;
    let (mut c_alive, mut s_alive) = (true, true); // a failed write closes the connection: that sender sends nothing more
    for op in &c.ops {
        match op {
            Op::CSend(n) => {
                if !c_alive { out.push(2); continue; }
                nmsg += 1;
                let msg = message_of_size(size_for_chunks(*n, &sch, nmsg % 2 == 0), nmsg);
                // as TransportState::wait_for_outgoing_message + TcpTransport::poll_inner do
                let r = guarded(|| { let id = sb.next_request_id(); (id, sb.write(id, msg, &sch)) });
                match r {
                    Err(_) => { out.push(-2); return; }
                    Ok((id, Err(_))) => { out.extend([1, id as i128, 0]); c_alive = false; }
                    Ok((id, Ok(_))) => {
                        let mut wire: Vec<u8> = Vec::new();
                        let flushed = guarded(|| rt.block_on(async {
                            loop {
                                if sb.should_encode_chunks() { sb.encode_next_chunk(&sch).unwrap(); }
                                if !sb.can_read() { break; }
                                sb.read_into_async(&mut wire).await.unwrap();
                            }
                        }));
                        if flushed.is_err() { out.push(-2); return; }
                        let chunks = split_chunks(&wire);
                        out.extend([0, id as i128, chunks.len() as i128]);
                        for ch in &chunks {
                            let (s, r, cid) = header(ch, &sch);
                            if cid != c.schan { out.push(-5); }
                            out.push(s as i128); out.push(r as i128);
                        }
                        sent.push(chunks);
                    }
                }
            }
            Op::SSend(rid, big) => {
                if !s_alive { out.push(2); continue; }
                nmsg += 1;
                let msg = message_of_size(if *big == 1 { 2 * body_per_chunk(&sch) } else if nmsg % 2 == 0 { base_size() } else { body_per_chunk(&sch) }, nmsg);
                let r = guarded(|| mw.write(*rid, msg, &sch));
                match r {
                    Err(_) => { out.push(-2); return; }
                    Ok(Err(_)) => { out.extend([1, *rid as i128, 0]); s_alive = false; }
                    Ok(Ok(id)) => {
                        let chunks = split_chunks(&mw.bytes_to_write());
                        out.extend([0, id as i128, chunks.len() as i128]);
                        for ch in &chunks {
                            let (s, r, cid) = header(ch, &sch);
                            if cid != c.schan { out.push(-5); }
                            out.push(s as i128); out.push(r as i128);
                        }
                        sent.push(chunks);
                    }
                }
            }
            Op::Recv(refs) => {
                let mut chunks: Vec<MessageChunk> = Vec::new();
                for r in refs {
                    match r {
                        Ref::Sent(m, k) => {
                            if let Some(ch) = sent.get(*m as usize).and_then(|v| v.get(*k as usize)) { chunks.push(MessageChunk { data: ch.data.clone() }); }
                        }
                        Ref::Forged(s, rid, cid) => {
                            let fch = channel(*cid);
                            chunks.push(MessageChunk::new(*s, *rid, MessageChunkType::Message, MessageIsFinalType::Final, &fch, &[1, 2, 3]).unwrap());
                        }
                    }
                }
                if chunks.is_empty() { out.extend([-1, -1, -1, -1]); continue; }
                // the client's receiver (TransportState::turn_received_chunks_into_message)
                let before = client.last_received_sequence_number();
                match guarded(|| client.turn_received_chunks_into_message(&chunks)) {
                    Err(_) => { out.push(-2); return; }
                    Ok(r) => { out.extend(verdict(r, before, client.last_received_sequence_number())); }
                }
                // the server's receiver (TcpTransport::turn_received_chunks_into_message)
                let before = server.verif_last_received_sequence_number();
                match guarded(|| server.verif_turn_received_chunks_into_message(&chunks)) {
                    Err(_) => { out.push(-2); return; }
                    Ok(r) => { out.extend(verdict(r, before, server.verif_last_received_sequence_number())); }
                }
            }
        }
    }
}

/// [code; high-water mark afterwards]: 0 the sequence check accepted the message (whatever the
/// decoder then makes of the body), 1..3 the status with which validate_chunks rejected it.
/// -7: the status and the movement of the high-water mark contradict each other.
fn verdict(r: Result<SupportedMessage, StatusCode>, before: u32, after: u32) -> [i128; 2] {
    let c = match r { Ok(_) => 0, Err(s) => code(s) };
    if (c == 0) != (after != before) { return [-7, after as i128]; }
    [c, after as i128]
}

fn term(c: &Case) -> String {
    let ops = coq_list(&c.ops, |o| match o {
        Op::CSend(n) => format!("CSend {}", n),
        Op::SSend(r, b) => format!("SSend {} {}", r, b),
        Op::Recv(l) => format!("Recv {}", coq_list(l, |r| match r {
            Ref::Sent(m, k) => format!("Sent {} {}", m, k),
            Ref::Forged(s, r, c) => format!("Forged {} {} {}", s, r, c),
        })),
    });
    format!("mk_case {} {} {} {} {} {} {} {}", c.id0, c.cseq0, c.sseq0, c.maxchunks, c.schan, c.rchan, c.last0, ops)
}

fn base(ops: Vec<Op>) -> Case { Case { id0: 1000, cseq0: 0, sseq0: 0, maxchunks: 0, schan: 7, rchan: 7, last0: 0, ops } }

impl Property for P {
    type Case = Case;
    fn fixed(_tier: &str) -> Vec<Case> {
        use Op::*; use Ref::*;
        let m = |i: u32, n: u32| -> Vec<Ref> { (0..n).map(|k| Sent(i, k)).collect() };
        let mx = U32MAX as u32;
        vec![
            // in-order delivery of 1..8 chunk messages
            base(vec![CSend(1), Recv(m(0, 1)), CSend(3), Recv(m(1, 3)), CSend(8), Recv(m(2, 8)), CSend(2), Recv(m(3, 2))]),
            // replay of an accepted message, immediately and later
            base(vec![CSend(2), Recv(m(0, 2)), Recv(m(0, 2)), CSend(1), Recv(m(1, 1)), Recv(m(0, 2)), Recv(m(1, 1))]),
            // reordered, duplicated, truncated, spliced
            base(vec![CSend(3), CSend(3), Recv(vec![Sent(0, 1), Sent(0, 0), Sent(0, 2)]), Recv(vec![Sent(0, 0), Sent(0, 0), Sent(0, 1)]),
                      Recv(vec![Sent(0, 0), Sent(0, 1), Sent(1, 0)]), Recv(vec![Sent(0, 1), Sent(0, 2)]), Recv(m(1, 3)), Recv(m(0, 3))]),
            // gap between messages is accepted (first only has to be greater), then the skipped one is late
            base(vec![CSend(1), CSend(1), CSend(1), Recv(m(2, 1)), Recv(m(1, 1)), Recv(m(0, 1))]),
            // channel id: receiver without an id accepts any; with an id only its own
            Case { rchan: 0, ..base(vec![CSend(2), Recv(m(0, 2)), Recv(vec![Forged(9, 5, 99)])]) },
            Case { rchan: 8, ..base(vec![CSend(2), Recv(m(0, 2)), Recv(vec![Forged(9, 5, 8)]), Recv(vec![Forged(10, 5, 8), Forged(11, 5, 7)])]) },
            // request id must be one per message
            base(vec![Recv(vec![Forged(1, 5, 7), Forged(2, 6, 7)]), Recv(vec![Forged(1, 5, 7), Forged(2, 5, 7)])]),
            // server writer: sequence continues; mixed with client sends
            base(vec![SSend(1001, 0), SSend(1002, 0), CSend(2), SSend(1003, 0), Recv(m(0, 1)), Recv(m(1, 1)), Recv(m(3, 1)), Recv(m(2, 2))]),
            // a response that does not fit one chunk of the writer's buffer size: written as two chunks
            base(vec![SSend(1001, 0), SSend(1002, 1), SSend(1003, 0), CSend(1), Recv(m(0, 1)), Recv(m(1, 1))]),
            // chunk count limit: the request id is consumed, no sequence number is
            Case { maxchunks: 2, ..base(vec![CSend(2), CSend(3), CSend(1), SSend(7, 0), Recv(m(0, 2)), Recv(m(1, 1))]) },
            // sender counters at the u32 boundary: the last representable numbers, then the overflow
            Case { cseq0: mx - 3, ..base(vec![CSend(2), CSend(1), CSend(1)]) },
            Case { cseq0: mx - 2, ..base(vec![CSend(3)]) },
            Case { cseq0: mx - 2, ..base(vec![CSend(4)]) },
            Case { id0: mx - 1, ..base(vec![CSend(1), CSend(1)]) },
            Case { sseq0: mx - 1, ..base(vec![SSend(5, 0), SSend(6, 0)]) },
            // receiver at the u32 boundary (witnesses of the overflow defect): a chunk numbered
            // u32::MAX; a message that would have to wrap; a high-water mark of u32::MAX
            Case { last0: 10, ..base(vec![Recv(vec![Forged(mx, 5, 7)])]) },
            Case { last0: 10, ..base(vec![Recv(vec![Forged(mx - 1, 5, 7), Forged(mx, 5, 7)]), Recv(vec![Forged(mx - 1, 5, 7), Forged(mx, 5, 7)])]) },
            Case { last0: 10, ..base(vec![Recv(vec![Forged(mx, 5, 7), Forged(0, 5, 7)])]) },
            Case { last0: mx, ..base(vec![Recv(vec![Forged(mx, 5, 7)]), Recv(vec![Forged(0, 5, 7)]), Recv(vec![Forged(5, 5, 7)])]) },
            Case { last0: mx - 1, ..base(vec![Recv(vec![Forged(mx, 5, 7)]), Recv(vec![Forged(mx, 5, 7)]), Recv(vec![Forged(1, 5, 7)])]) },
            // nothing to present
            base(vec![Recv(vec![Sent(0, 0)]), CSend(1), Recv(vec![Sent(0, 1), Sent(1, 0)])]),
        ]
    }
    fn gen(r: &mut Rng) -> Case {
        let mx = U32MAX as u32;
        let mut c = base(vec![]);
        let boundary = r.chance(1, 8);
        if boundary {
            c.cseq0 = mx - r.below(12) as u32;
            c.sseq0 = mx - r.below(4) as u32;
            if r.chance(1, 3) { c.id0 = mx - r.below(3) as u32; }
            c.last0 = if r.chance(1, 2) { c.cseq0.saturating_sub(r.below(3) as u32) } else { mx - r.below(3) as u32 };
        } else if r.chance(1, 3) {
            c.cseq0 = r.below(1000) as u32; c.sseq0 = r.below(1000) as u32; c.last0 = c.cseq0.min(c.sseq0);
        }
        if r.chance(1, 5) { c.maxchunks = 1 + r.below(5) as u32; }
        if r.chance(1, 6) { c.rchan = if r.chance(1, 2) { 0 } else { 8 }; }
        let nops = 3 + r.below(10);
        let mut counts: Vec<u32> = Vec::new(); // chunk counts of the successfully sent messages (as expected)
        let mut delivered = 0usize;
        let (mut c_alive, mut s_alive) = (true, true);
        for _ in 0..nops {
            let k = r.below(10);
            if counts.is_empty() || k < 3 {
                if r.chance(1, 4) {
                    let big = r.chance(1, 12);
                    c.ops.push(Op::SSend(1001 + counts.len() as u32, big as u32));
                    if s_alive && !big { counts.push(1); }
                    if big { s_alive = false; }
                } else {
                    let n = if r.chance(1, 2) { 1 } else { 1 + r.below(8) as u32 };
                    c.ops.push(Op::CSend(n));
                    if c_alive && (c.maxchunks == 0 || n <= c.maxchunks) { counts.push(n); } else { c_alive = false; }
                }
            } else {
                let full = |m: usize, counts: &Vec<u32>| -> Vec<Ref> { (0..counts[m]).map(|k| Ref::Sent(m as u32, k)).collect() };
                let kind = r.below(12);
                let any = r.below(counts.len() as u64) as usize;
                let l: Vec<Ref> = match kind {
                    // the next undelivered message in order
                    0..=3 => { let m = delivered.min(counts.len() - 1); delivered = m + 1; full(m, &counts) }
                    // replay of an earlier one
                    4 | 5 => full(r.below(delivered.max(1) as u64) as usize % counts.len(), &counts),
                    // any message whole (gap or late)
                    6 => full(any, &counts),
                    // reorder two chunks
                    7 => { let mut l = full(any, &counts); if l.len() > 1 { let i = r.below(l.len() as u64 - 1) as usize; l.swap(i, i + 1); } else { l.push(l[0].clone()); } l }
                    // duplicate or drop a chunk
                    8 => { let mut l = full(any, &counts); let i = r.below(l.len() as u64) as usize; if r.chance(1, 2) { let x = l[i].clone(); l.insert(i, x); } else if l.len() > 1 { l.remove(i); } l }
                    // splice two messages
                    9 => { let a = any; let b = r.below(counts.len() as u64) as usize; let mut l = full(a, &counts); let cut = r.below(l.len() as u64 + 1) as usize; l.truncate(cut); let lb = full(b, &counts); let from = r.below(lb.len() as u64) as usize; l.extend(lb[from..].iter().cloned()); l }
                    // forged chunks around the high-water mark
                    10 => {
                        let n = 1 + r.below(3) as u32;
                        let start = if boundary { mx - r.below(4) as u32 } else { r.below(30) as u32 };
                        let rid = 5; let cid = if r.chance(1, 5) { 9 } else { c.schan };
                        (0..n).map(|i| Ref::Forged(start.wrapping_add(i), if r.chance(1, 8) { rid + 1 } else { rid }, if r.chance(1, 10) { cid + 1 } else { cid })).collect()
                    }
                    // a real message with one forged chunk appended or substituted
                    _ => { let mut l = full(any, &counts); let f = Ref::Forged(r.below(40) as u32, 1001 + r.below(3) as u32, c.schan); if r.chance(1, 2) { l.push(f); } else { let i = r.below(l.len() as u64) as usize; l[i] = f; } l }
                };
                c.ops.push(Op::Recv(l));
            }
        }
        c
    }
    fn exec(c: &Case) -> Out {
        let mut out = Vec::new();
        if guarded(|| exec_inner(c, &mut out)).is_err() { out.push(-2); }
        let mx = U32MAX as u32;
        let boundary = c.cseq0 > mx - 64 || c.sseq0 > mx - 64 || c.last0 > mx - 64 || c.id0 > mx - 64
            || c.ops.iter().any(|o| matches!(o, Op::Recv(l) if l.iter().any(|r| matches!(r, Ref::Forged(s, _, _) if *s > mx - 64))));
        let recvs = c.ops.iter().filter(|o| matches!(o, Op::Recv(_))).count();
        let tag = format!("{}-{}", if boundary { "u32boundary" } else { "plain" }, if recvs == 0 { "sendonly" } else { "sendrecv" });
        Out { tag, term: term(c), out }
    }
}
fn main() { run_main::<P>() }
