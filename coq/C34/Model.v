(* C34 — node management results describe what actually happened
   (lib/src/server/services/node_management.rs, AddressSpace::{insert,delete,...}).

   The address space is modelled abstractly: a list of nodes (id, class, browse name), a list of
   reference triples (source, reference type, target) in insertion order (the per-source order
   of the real `references_map` vectors is the order of this list), and the global counter
   behind `NodeId::next_numeric`.  Node ids are numeric: `namespace * 2^32 + value`, 0 = null.
   Browse names are (namespace, code): code 0 = null string, 1 = "", k >= 2 an ordinary name
   without reserved characters.  The reference index (`referenced_by_map`) is assumed
   consistent with the forward map (that is C28).

   The model is parametrised by a record of switches, one per repair made to the code; all
   switches on = the code as committed ([fixed_cfg]); [Legacy] turns one off at a time. *)
From Coq Require Import List ZArith Bool Lia.
From OV Require Import Gen.C34RefTypes.
Import ListNotations.
Open Scope Z_scope.

Definition U32 : Z := 2 ^ 32.
Definition U64 : Z := 2 ^ 64.
Definition U32MAX : Z := 2 ^ 32 - 1.
Definition MAX_ITEMS : Z := 100.   (* constants::MAX_NODES_PER_NODE_MANAGEMENT *)

Record node := mk_node { n_id : Z; n_class : Z; n_bns : Z; n_bname : Z }.
Definition ref := (Z * Z * Z)%type.   (* source, reference type, target *)
Record st := mk_st { nodes : list node; refs : list ref; ctr : Z }.

Record cfg := mk_cfg {
  f_bname : bool;     (* fix: AddNodes panicked on a browse name in a non-zero namespace *)
  f_alloc : bool;     (* fix: server-assigned node ids could collide with existing nodes *)
  f_dir : bool;       (* fix: AddNodes created the parent reference in the wrong direction *)
  f_psrv : bool;      (* fix: AddNodes accepted a parent node on another server *)
  f_delchild : bool;  (* fix: DeleteNodes of an unknown node deleted other nodes ... *)
  f_nsguard : bool;   (* fix: AddNodes panicked on a requested node id in an unregistered namespace *)
  f_selfref : bool;   (* fix: AddReferences panicked on a reference from a node to itself *)
  f_dims : bool;      (* fix: AddNodes panicked on variable attributes with null array dimensions *)
  f_nsname : bool     (* fix: AddNodes rejected every browse name in a non-zero namespace *)
}.
Definition fixed_cfg : cfg := mk_cfg true true true true true true true true true.

(* ---- request items -------------------------------------------------------------------- *)
Record an_item := AN {
  a_parent : Z; a_parent_srv : Z; a_reftype : Z; a_req : Z; a_req_srv : Z;
  a_bns : Z; a_bname : Z; a_class : Z;
  a_attr : Z;         (* class whose attribute structure is supplied; 3 = some other object id; 0 = none *)
  a_attr_ok : bool;   (* every mandatory attribute is specified *)
  a_dims_null : bool; (* ArrayDimensions specified with a null array *)
  a_typedef : Z }.
Record ar_item := AR { r_src : Z; r_reftype : Z; r_fwd : bool; r_uri_null : bool; r_tgt : Z; r_tgt_srv : Z; r_tclass : Z }.
Record dn_item := DN { d_id : Z; d_dtr : bool }.
Record dr_item := DR { x_src : Z; x_reftype : Z; x_fwd : bool; x_tgt : Z; x_tgt_srv : Z; x_bidir : bool }.
Inductive request :=
| RAddNodes (l : list an_item)
| RAddRefs (l : list ar_item)
| RDelNodes (l : list dn_item)
| RDelRefs (l : list dr_item).

(* ---- address space primitives --------------------------------------------------------- *)
Definition node_exists (ns : list node) (id : Z) : bool := existsb (fun n => n_id n =? id) ns.
Definition find_node (ns : list node) (id : Z) : option node := find (fun n => n_id n =? id) ns.
Definition remove_node (ns : list node) (id : Z) : list node := filter (fun n => negb (n_id n =? id)) ns.

Definition ref_eqb (a b : ref) : bool :=
  let '(s1, t1, d1) := a in let '(s2, t2, d2) := b in (s1 =? s2) && (t1 =? t2) && (d1 =? d2).
Definition has_ref (rs : list ref) (r : ref) : bool := existsb (ref_eqb r) rs.
(* References::insert_reference after its self-reference test: duplicates are skipped *)
Definition insert_ref (rs : list ref) (r : ref) : list ref := if has_ref rs r then rs else rs ++ [r].
Definition delete_ref (rs : list ref) (r : ref) : list ref := filter (fun x => negb (ref_eqb r x)) rs.
Definition touches (id : Z) (r : ref) : bool := let '(s, _, d) := r in (s =? id) || (d =? id).
(* References::delete_node_references: every reference from or to the node *)
Definition delete_node_refs (rs : list ref) (id : Z) : list ref * bool :=
  (filter (fun r => negb (touches id r)) rs, existsb (touches id) rs).

(* References::reference_type_matches with include_subtypes: is [target] reachable from [cur]
   along HasSubtype references (depth bounded by the number of references; the real stack search
   terminates exactly when no cycle is reachable, and then computes reachability) *)
(* (if-then-else, not &&/||: vm_compute is strict and would explore every branch) *)
Fixpoint subtype_reach (fuel : nat) (rs : list ref) (cur target : Z) : bool :=
  if cur =? target then true else
  match fuel with
  | O => false
  | S f => existsb (fun r => let '(s, t, d) := r in
                             if s =? cur then if t =? HasSubtype then subtype_reach f rs d target else false else false) rs
  end.
Definition type_matches (rs : list ref) (ty sub : Z) : bool := subtype_reach (length rs) rs ty sub.

(* find_references(node, Some((ty, true))) -> targets, in the order of the node's vector *)
Definition targets_of (rs : list ref) (id ty : Z) : list Z :=
  map (fun r => snd r) (filter (fun r => let '(s, t, _) := r in if s =? id then type_matches rs ty t else false) rs).

Definition is_class (c : Z) : bool := existsb (Z.eqb c) [1; 2; 4; 8; 16; 32; 64; 128].
Definition is_reftype (t : Z) : bool := existsb (Z.eqb t) reference_type_ids.
Definition ns_of (id : Z) : Z := id / U32.

(* AddressSpace::is_valid_type_definition *)
Definition valid_typedef (ns : list node) (class typedef : Z) : bool :=
  if class =? 1 then negb (typedef =? 0) && match find_node ns typedef with Some n => n_class n =? 8 | None => false end
  else if class =? 2 then negb (typedef =? 0) && match find_node ns typedef with Some n => n_class n =? 16 | None => false end
  else typedef =? 0.

(* the duplicate browse name test: find_nodes_relative_path(parent, [HierarchicalReferences and
   subtypes, forward, target name = the browse name]) is Ok and non-empty.  The path element is
   built directly from the qualified name, so the name's namespace and any reserved character of
   the relative path text syntax in it are immaterial: a name is its (namespace, code). *)
Definition dup_name (s : st) (parent bns bname : Z) : bool :=
  if node_exists (nodes s) parent then
    existsb (fun d => match find_node (nodes s) d with
                      | Some n => (n_bns n =? bns) && (n_bname n =? bname)
                      | None => false end)
            (targets_of (refs s) parent HierarchicalReferences)
  else false.

(* NodeId::next_numeric(1): namespace 1, value = counter as u32; the counter is a usize *)
Definition id_of_ctr (c : Z) : Z := U32 + c mod U32.
Definition next_ctr (c : Z) : Z := (c + 1) mod U64.
(* the loop `while node_exists(id) { id = next_numeric() }`; it ends within |nodes|+1 draws *)
Fixpoint alloc (fuel : nat) (ns : list node) (c : Z) : Z * Z :=
  let id := id_of_ctr c in
  match fuel with
  | O => (id, next_ctr c)
  | S f => if node_exists ns id then alloc f ns (next_ctr c) else (id, next_ctr c)
  end.

(* ---- the four item operations ---------------------------------------------------------- *)
(* status: 0 Good, 1 BadUserAccessDenied, 2 BadNodeIdRejected, 3 BadNodeClassInvalid,
   4 BadNodeIdExists, 5 BadBrowseNameInvalid, 6 BadBrowseNameDuplicated, 7 BadReferenceTypeIdInvalid,
   8 BadTypeDefinitionInvalid, 9 BadParentNodeIdInvalid, 10 BadNodeAttributesInvalid,
   11 BadServerUriInvalid, 12 BadReferenceLocalOnly, 13 BadSourceNodeIdInvalid,
   14 BadTargetNodeIdInvalid, 15 BadDuplicateReferenceNotAllowed, 16 BadNodeIdUnknown,
   17 BadInvalidSelfReference; -2 = the Rust code panics *)
Record res := mk_res { r_status : Z; r_id : Z; r_st : st }.
Definition PANIC : Z := -2.

Definition add_node (f : cfg) (nslen : Z) (can : bool) (s : st) (i : an_item) : res :=
  let bad c := mk_res c 0 s in
  if negb can then bad 1
  else if negb (a_req_srv i =? 0) then bad 2
  else if f_nsguard f && (nslen <? ns_of (a_req i)) then bad 2
  else if negb (is_class (a_class i)) then bad 3
  else if negb (a_req i =? 0) && node_exists (nodes s) (a_req i) then bad 4
  else if a_bname i <? 2 then bad 5
  else if negb (f_nsname f) && negb (a_bns i =? 0) then
    (* before the path element was built directly, the name went through relative path text:
       "ns:name" is not a relative path (BadBrowseNameInvalid; `.unwrap()` before the first fix) *)
    (if f_bname f then bad 5 else mk_res PANIC 0 s)
  else if dup_name s (a_parent i) (a_bns i) (a_bname i) then bad 6
  else if negb (is_reftype (a_reftype i)) then bad 7
  else
    let '(nid, c') :=
      if a_req i =? 0 then
        (if f_alloc f then alloc (length (nodes s)) (nodes s) (ctr s)
         else (id_of_ctr (ctr s), next_ctr (ctr s)))
      else (a_req i, ctr s) in
    let s1 := mk_st (nodes s) (refs s) c' in
    let bad1 c := mk_res c 0 s1 in
    if negb (valid_typedef (nodes s) (a_class i) (a_typedef i)) then bad1 8
    else if (if f_psrv f then negb (a_parent_srv i =? 0) else a_parent_srv i =? U32MAX)
            || negb (node_exists (nodes s) (a_parent i)) then bad1 9
    else if negb (a_attr i =? a_class i) || negb (a_attr_ok i) then bad1 10
    else if negb (f_dims f) && a_dims_null i && ((a_class i =? 2) || (a_class i =? 16)) then mk_res PANIC 0 s1
    else
      (* AddressSpace::insert: assert_namespace, then node_map.insert, then the reference *)
      if nslen <? ns_of nid then mk_res PANIC 0 s1
      else
        let already := node_exists (nodes s) nid in
        let nodes' := if already then nodes s else nodes s ++ [mk_node nid (a_class i) (a_bns i) (a_bname i)] in
        let '(src, dst) := if f_dir f then (a_parent i, nid) else (nid, a_parent i) in
        if negb already && (src =? dst) then mk_res PANIC 0 (mk_st nodes' (refs s) c')
        else
          let refs1 := if already then refs s else insert_ref (refs s) (src, a_reftype i, dst) in
          (* set_node_type for objects and variables *)
          if (a_class i =? 1) || (a_class i =? 2) then
            if nid =? a_typedef i then mk_res PANIC 0 (mk_st nodes' refs1 c')
            else mk_res 0 nid (mk_st nodes' (insert_ref refs1 (nid, HasTypeDefinition, a_typedef i)) c')
          else mk_res 0 nid (mk_st nodes' refs1 c').

Definition add_reference (f : cfg) (can : bool) (s : st) (i : ar_item) : res :=
  let bad c := mk_res c 0 s in
  if negb can then bad 1
  else if negb (r_uri_null i) then bad 11
  else if negb (r_tgt_srv i =? 0) then bad 12
  else if negb (node_exists (nodes s) (r_src i)) then bad 13
  else if negb (node_exists (nodes s) (r_tgt i)) then bad 14
  else if negb (is_class (r_tclass i)) then bad 3
  else if match find_node (nodes s) (r_tgt i) with Some n => negb (n_class n =? r_tclass i) | None => false end then bad 3
  else if f_selfref f && (r_src i =? r_tgt i) then bad 17
  else if negb (is_reftype (r_reftype i)) then bad 7
  else if has_ref (refs s) (r_src i, r_reftype i, r_tgt i) then bad 15
  else
    let '(a, b) := if r_fwd i then (r_src i, r_tgt i) else (r_tgt i, r_src i) in
    if a =? b then mk_res PANIC 0 s
    else mk_res 0 0 (mk_st (nodes s) (insert_ref (refs s) (a, r_reftype i, b)) (ctr s)).

(* AddressSpace::delete; every nested call is on a node that exists and removes it first, so the
   depth is bounded by the number of nodes *)
Fixpoint delete (f : cfg) (fuel : nat) (ns : list node) (rs : list ref) (id : Z) (dtr : bool)
  : bool * (list node * list ref) :=
  match fuel with
  | O => (false, (ns, rs))
  | S fu =>
      let existed := node_exists ns id in
      let children := if existed || negb (f_delchild f) then targets_of rs id Aggregates else [] in
      let ns1 := remove_node ns id in
      let '(rs1, rr) := if dtr then delete_node_refs rs id else (rs, false) in
      (existed || rr,
       fold_left (fun (acc : list node * list ref) ch =>
                    if node_exists (fst acc) ch then snd (delete f fu (fst acc) (snd acc) ch dtr) else acc)
                 children (ns1, rs1))
  end.

Definition delete_node (f : cfg) (can : bool) (s : st) (i : dn_item) : res :=
  if negb can then mk_res 1 0 s
  else
    let '(ok, (ns', rs')) := delete f (S (length (nodes s))) (nodes s) (refs s) (d_id i) (d_dtr i) in
    if ok then mk_res 0 0 (mk_st ns' rs' (ctr s)) else mk_res 16 0 (mk_st ns' rs' (ctr s)).

Definition delete_reference (can : bool) (s : st) (i : dr_item) : res :=
  let bad c := mk_res c 0 s in
  if negb can then bad 1
  else if negb (x_tgt_srv i =? 0) then bad 12
  else if (x_src i =? 0) || negb (node_exists (nodes s) (x_src i)) then bad 13
  else if (x_tgt i =? 0) || negb (node_exists (nodes s) (x_tgt i)) then bad 14
  else if negb (is_reftype (x_reftype i)) then bad 7
  else
    let fw := (x_src i, x_reftype i, x_tgt i) in
    let bw := (x_tgt i, x_reftype i, x_src i) in
    let rs' := if x_bidir i then delete_ref (delete_ref (refs s) fw) bw
               else if x_fwd i then delete_ref (refs s) fw else delete_ref (refs s) bw in
    mk_res 0 0 (mk_st (nodes s) rs' (ctr s)).

(* ---- canonical digest of the address space --------------------------------------------- *)
Fixpoint insert_by {A} (le : A -> A -> bool) (x : A) (l : list A) : list A :=
  match l with
  | [] => [x]
  | y :: l' => if le x y then x :: l else y :: insert_by le x l'
  end.
Definition isort {A} (le : A -> A -> bool) (l : list A) : list A := fold_right (insert_by le) [] l.
Definition node_le (a b : node) : bool := n_id a <=? n_id b.
Definition ref_le (a b : ref) : bool :=
  let '(s1, t1, d1) := a in let '(s2, t2, d2) := b in
  (s1 <? s2) || ((s1 =? s2) && ((t1 <? t2) || ((t1 =? t2) && (d1 <=? d2)))).
Definition node4 (n : node) : list Z := [n_id n; n_class n; n_bns n; n_bname n].
Definition ref3 (r : ref) : list Z := let '(s, t, d) := r in [s; t; d].
Definition digest_of (ns : list node) (rs : list ref) : list Z :=
  Z.of_nat (length ns) :: flat_map node4 ns ++ Z.of_nat (length rs) :: flat_map ref3 rs.
Definition digest (s : st) : list Z := digest_of (isort node_le (nodes s)) (isort ref_le (refs s)).

Fixpoint list_eqb (a b : list Z) : bool :=
  match a, b with
  | [], [] => true
  | x :: a', y :: b' => (x =? y) && list_eqb a' b'
  | _, _ => false
  end.

(* change flag and digest relative to the last digest that was output *)
Definition emit (last d : list Z) : list Z * list Z :=
  if list_eqb d last then ([0], last) else (1 :: d, d).

(* ---- requests --------------------------------------------------------------------------- *)
(* the items of one request in order; None = an item panicked (the response is lost) *)
Fixpoint items_loop {I} (step : st -> I -> res) (s : st) (items : list I) (acc : list Z)
  : option (list Z) * st :=
  match items with
  | [] => (Some acc, s)
  | i :: rest =>
      let r := step s i in
      if r_status r =? PANIC then (None, r_st r)
      else items_loop step (r_st r) rest
             (acc ++ [r_status r; r_id r] ++ match rest with [] => [] | _ => [2] end)
  end.

Definition run_items {I} (step : st -> I -> res) (s : st) (last : list Z) (items : list I)
  : list Z * st * list Z :=
  match items with
  | [] => ([-10], s, last)
  | _ =>
      if MAX_ITEMS <? Z.of_nat (length items) then ([-11], s, last)
      else
        let '(o, s') := items_loop step s items [] in
        let '(e, last') := emit last (digest s') in
        (match o with Some acc => acc ++ e | None => PANIC :: e end, s', last')
  end.

Definition run_req (f : cfg) (nslen : Z) (can : bool) (s : st) (last : list Z) (q : request) :=
  match q with
  | RAddNodes l => run_items (add_node f nslen can) s last l
  | RAddRefs l => run_items (add_reference f can) s last l
  | RDelNodes l => run_items (delete_node f can) s last l
  | RDelRefs l => run_items (delete_reference can) s last l
  end.

Fixpoint run_reqs (f : cfg) (nslen : Z) (can : bool) (s : st) (last : list Z) (qs : list request) : list Z :=
  match qs with
  | [] => []
  | q :: qs' => let '(o, s', last') := run_req f nslen can s last q in o ++ run_reqs f nslen can s' last' qs'
  end.

(* ---- correspondence interface ----------------------------------------------------------- *)
Record case := mk_case {
  c_nslen : Z; c_can : bool; c_ctr : Z; c_nodes : list node; c_refs : list ref; c_reqs : list request }.

Definition init_state (c : case) : st := mk_st (c_nodes c) (c_refs c) (c_ctr c).
Definition run_with (f : cfg) (c : case) : list Z :=
  run_reqs f (c_nslen c) (c_can c) (init_state c) (digest (init_state c)) (c_reqs c).
Definition run (c : case) : list Z := run_with fixed_cfg c.

(* ---- the property, on an observed output ------------------------------------------------ *)
(* what the oracle knows of an address space: node ids and reference triples *)
Record dg := mk_dg { g_nodes : list Z; g_refs : list ref }.

Fixpoint take_nodes (n : nat) (l : list Z) : option (list Z * list Z) :=
  match n with
  | O => Some ([], l)
  | S n' => match l with
            | id :: _ :: _ :: _ :: l' =>
                match take_nodes n' l' with Some (ids, r) => Some (id :: ids, r) | None => None end
            | _ => None
            end
  end.
Fixpoint take_refs (n : nat) (l : list Z) : option (list ref * list Z) :=
  match n with
  | O => Some ([], l)
  | S n' => match l with
            | s :: t :: d :: l' =>
                match take_refs n' l' with Some (rs, r) => Some ((s, t, d) :: rs, r) | None => None end
            | _ => None
            end
  end.
Definition parse_digest (l : list Z) : option (dg * list Z) :=
  match l with
  | n :: l1 =>
      if n <? 0 then None else
      match take_nodes (Z.to_nat n) l1 with
      | Some (ids, m :: l2) =>
          if m <? 0 then None else
          match take_refs (Z.to_nat m) l2 with
          | Some (rs, rest) => Some (mk_dg ids rs, rest)
          | None => None
          end
      | _ => None
      end
  | [] => None
  end.

(* the part of an item the property speaks about *)
Inductive view := VAdd (parent psrv reftype req bname : Z) | VOther.
Definition views (q : request) : list view :=
  match q with
  | RAddNodes l => map (fun i => VAdd (a_parent i) (a_parent_srv i) (a_reftype i) (a_req i) (a_bname i)) l
  | RAddRefs l => map (fun _ => VOther) l
  | RDelNodes l => map (fun _ => VOther) l
  | RDelRefs l => map (fun _ => VOther) l
  end.

Definition mem (x : Z) (l : list Z) : bool := existsb (Z.eqb x) l.

(* one item: [prev] = the address space before the item, [cur] = after it, when observed.
   - a Bad status: the address space did not change, no id is returned; and (beyond the letter of
     the statement, after its title: the result describes what happened) BadBrowseNameInvalid is
     only reported for a browse name that is null or empty;
   - AddNodes Good: the returned id is not null, is the requested one if one was requested, did
     not exist before (so a server-assigned id is fresh), exists afterwards, and the given
     parent (a node of this server) references it with the given reference type. *)
Definition item_ok (v : view) (status id flag : Z) (prev cur : option dg) : bool :=
  if status =? 0 then
    match v with
    | VAdd parent psrv reftype req _ =>
        (* a parent on another server is not a node of this address space *)
        (psrv =? 0) && negb (id =? 0) && ((req =? 0) || (id =? req)) &&
        match prev, cur with
        | Some p, Some q =>
            negb (mem id (g_nodes p)) && mem id (g_nodes q) && has_ref (g_refs q) (parent, reftype, id)
        | _, _ => true
        end
    | VOther => true
    end
  else
    match prev with Some _ => negb (flag =? 1) | None => true end &&
    match v with
    | VAdd _ _ _ _ bname => (id =? 0) && (negb (status =? 5) || (bname <? 2))
    | VOther => true
    end.

(* the items of one request against the output; [last] = the last address space observed *)
Fixpoint oracle_items (vs : list view) (prev : option dg) (last : dg) (out : list Z)
  : option (option dg * dg * list Z) :=
  match vs with
  | [] => Some (prev, last, out)
  | v :: vs' =>
      match out with
      | status :: id :: flag :: out1 =>
          if status <? 0 then None   (* a panic: no result for the request *)
          else
            let step cur last' out2 :=
              if item_ok v status id flag prev cur then oracle_items vs' cur last' out2 else None in
            if flag =? 0 then step (Some last) last out1
            else if flag =? 1 then
              match parse_digest out1 with
              | Some (d, out2) => step (Some d) d out2
              | None => None
              end
            else if flag =? 2 then step None last out1
            else None
      | _ => None
      end
  end.

Fixpoint oracle_reqs (qs : list request) (last : dg) (out : list Z) : bool :=
  match qs with
  | [] => match out with [] => true | _ => false end
  | q :: qs' =>
      let vs := views q in
      match vs with
      | [] => match out with x :: out' => (x =? -10) && oracle_reqs qs' last out' | [] => false end
      | _ =>
          if MAX_ITEMS <? Z.of_nat (length vs) then
            match out with x :: out' => (x =? -11) && oracle_reqs qs' last out' | [] => false end
          else
            match oracle_items vs (Some last) last out with
            | Some (_, last', out') => oracle_reqs qs' last' out'
            | None => false
            end
      end
  end.

Definition dg_of (s : st) : dg := mk_dg (map n_id (nodes s)) (refs s).
Definition oracle (c : case) (out : list Z) : bool := oracle_reqs (c_reqs c) (dg_of (init_state c)) out.

Definition known (c : case) : Z := 0.

Fixpoint count_items (qs : list request) : nat :=
  match qs with [] => O | q :: qs' => (length (views q) + count_items qs')%nat end.

(* the namespace table is never empty, the counter is a usize, and the address space stays
   smaller than the u32 range of the allocator *)
Definition valid (c : case) : Prop :=
  1 <= c_nslen c /\ 0 <= c_ctr c < U64 /\
  Z.of_nat (length (c_nodes c) + count_items (c_reqs c)) < U32.

(* the code before each repair *)
Module Legacy.
  Definition no_bname := mk_cfg false true true true true true true true false. (* that code also predates f_nsname *)
  Definition no_alloc := mk_cfg true false true true true true true true true.
  Definition no_dir := mk_cfg true true false true true true true true true.
  Definition no_psrv := mk_cfg true true true false true true true true true.
  Definition no_delchild := mk_cfg true true true true false true true true true.
  Definition no_nsguard := mk_cfg true true true true true false true true true.
  Definition no_selfref := mk_cfg true true true true true true false true true.
  Definition no_dims := mk_cfg true true true true true true true false true.
  (* names in a non-zero namespace went through relative path text and were all rejected; only
     ordinary names are modelled for this legacy code (reserved characters are not) *)
  Definition no_nsname := mk_cfg true true true true true true true true false.
End Legacy.
