From Coq Require Import List ZArith Bool Arith Lia.
Import ListNotations.
From OV Require Import C16.Model.
Open Scope Z_scope.

(* ================= lists, slices, little-endian ================= *)
Lemma list_eqb_eq a : forall b, list_eqb a b = true <-> a = b.
Proof.
  induction a as [|x a IH]; intros [|y b]; cbn; split; intro H; try congruence; try reflexivity.
  - apply andb_true_iff in H as [H1 H2]. apply Z.eqb_eq in H1. apply IH in H2. congruence.
  - inversion H; subst. rewrite Z.eqb_refl. cbn. apply IH. reflexivity.
Qed.
Lemma list_eqb_refl a : list_eqb a a = true.
Proof. apply list_eqb_eq. reflexivity. Qed.
Lemma list_eqb_neq a b : a <> b -> list_eqb a b = false.
Proof. intro H. destruct (list_eqb a b) eqn:E; [|reflexivity]. apply list_eqb_eq in E. contradiction. Qed.

Lemma slice_app_mid (pre b post : list Z) :
  slice (pre ++ b ++ post) (length pre) (length pre + length b) = Some b.
Proof.
  unfold slice. rewrite !app_length.
  destruct (Nat.leb_spec (length pre) (length pre + length b)); [|lia].
  destruct (Nat.leb_spec (length pre + length b) (length pre + (length b + length post))); [|lia].
  cbn [andb]. f_equal.
  rewrite skipn_app, skipn_all, Nat.sub_diag. cbn [skipn app].
  replace (length pre + length b - length pre)%nat with (length b) by lia.
  rewrite firstn_app, firstn_all, Nat.sub_diag. cbn [firstn]. apply app_nil_r.
Qed.

Lemma length_le32 v : length (le32 v) = 4%nat.
Proof. reflexivity. Qed.

Lemma rd32_le32 v : 0 <= v < 2 ^ 32 -> rd32 (le32 v) = v.
Proof.
  intro H. unfold le32, rd32.
  change (2 ^ 32) with 4294967296 in H.
  pose proof (Z.div_mod v 256 ltac:(lia)). pose proof (Z.mod_pos_bound v 256 ltac:(lia)).
  pose proof (Z.div_mod (v / 256) 256 ltac:(lia)). pose proof (Z.mod_pos_bound (v / 256) 256 ltac:(lia)).
  pose proof (Z.div_mod (v / 65536) 256 ltac:(lia)). pose proof (Z.mod_pos_bound (v / 65536) 256 ltac:(lia)).
  assert (E1 : v / 65536 = v / 256 / 256) by (rewrite Z.div_div by lia; reflexivity).
  assert (E2 : v / 16777216 = v / 65536 / 256) by (rewrite Z.div_div by lia; reflexivity).
  assert (E3 : (v / 16777216) mod 256 = v / 16777216).
  { apply Z.mod_small. split; [apply Z.div_pos; lia | apply Z.div_lt_upper_bound; lia]. }
  rewrite E3. rewrite E2 in *. rewrite E1 in *. lia.
Qed.

(* ================= block counting ================= *)
Lemma block_count_0 b : (0 < b)%nat -> block_count 0 b = 0%nat.
Proof.
  intro H. unfold block_count. rewrite Nat.mod_0_l by lia. cbn. apply Nat.div_0_l. lia.
Qed.

Lemma block_count_step n b : (0 < b)%nat -> (0 < n)%nat ->
  block_count n b = S (block_count (n - Nat.min b n) b).
Proof.
  intros Hb Hn. destruct (Nat.le_gt_cases n b) as [Hle|Hgt].
  - rewrite Nat.min_r by lia. rewrite Nat.sub_diag, block_count_0 by lia.
    unfold block_count. destruct (Nat.eq_dec n b) as [->|Hne].
    + rewrite Nat.mod_same by lia. cbn. apply Nat.div_same. lia.
    + rewrite Nat.mod_small by lia. destruct (Nat.eqb_spec n 0); [lia|].
      rewrite Nat.div_small by lia. reflexivity.
  - rewrite Nat.min_l by lia. unfold block_count.
    assert (Em : (n mod b = (n - b) mod b)%nat).
    { replace n with ((n - b) + 1 * b)%nat at 1 by lia. apply Nat.mod_add. lia. }
    assert (Ed : (n / b = (n - b) / b + 1)%nat).
    { replace n with ((n - b) + 1 * b)%nat at 1 by lia. apply Nat.div_add. lia. }
    rewrite Em, Ed. destruct ((n - b) mod b =? 0)%nat; lia.
Qed.

Lemma block_count_Z n b : (0 < b)%nat ->
  Z.of_nat (block_count n b) = (Z.of_nat n + Z.of_nat b - 1) / Z.of_nat b.
Proof.
  intro Hb. unfold block_count.
  pose proof (Nat.div_mod n b ltac:(lia)) as E. pose proof (Nat.mod_upper_bound n b ltac:(lia)) as Hr.
  set (q := (n / b)%nat) in *. set (r := (n mod b)%nat) in *.
  destruct (Nat.eqb_spec r 0) as [Hz|Hnz].
  - apply Z.div_unique_pos with (r := Z.of_nat b - 1); [lia|]. nia.
  - apply Z.div_unique_pos with (r := Z.of_nat r - 1); [lia|]. nia.
Qed.

(* ================= the tail of legacy_password_decrypt = the reference parser ================= *)
Lemma is_suffix_len s l : is_suffix s l = true -> (length s <= length l)%nat.
Proof. unfold is_suffix. intro H. apply andb_true_iff in H as [H _]. apply Nat.leb_le in H. exact H. Qed.

Lemma parse_plain_ref plain dst_len nonce : (length plain <= dst_len)%nat ->
  parse_plain true plain dst_len nonce =
  match ref_parse plain nonce with Some pw => Ok pw | None => Err end.
Proof.
  intro Hlen. unfold parse_plain, ref_parse.
  set (L := length plain) in *. set (dst := plain ++ repeat 0 (dst_len - L)).
  assert (Hdst : length dst = dst_len) by (unfold dst; rewrite app_length, repeat_length; lia).
  rewrite Hdst. cbn [andb].
  destruct (Nat.ltb_spec dst_len 4) as [Hs|Hs].
  { destruct (Nat.leb_spec 4 L); [lia|]. reflexivity. }
  destruct (Nat.leb_spec 4 L) as [H4|H4]; cbn [andb].
  2:{ (* fewer than 4 decrypted bytes: the length check or the guard rejects *)
      destruct (negb (rd32 (firstn 4 dst) + 4 =? Z.of_nat L) || (rd32 (firstn 4 dst) <? Z.of_nat (length nonce))) eqn:E; [reflexivity|].
      apply orb_false_iff in E as [E1 E2]. apply negb_false_iff in E1. apply Z.eqb_eq in E1. apply Z.ltb_ge in E2. lia. }
  assert (Hf : firstn 4 dst = firstn 4 plain).
  { unfold dst. rewrite firstn_app. replace (4 - length plain)%nat with 0%nat by (fold L; lia). cbn [firstn]. apply app_nil_r. }
  rewrite Hf. set (psz := rd32 (firstn 4 plain)).
  set (body := skipn 4 plain).
  assert (Hb : length body = (L - 4)%nat) by (unfold body; rewrite skipn_length; reflexivity).
  destruct (psz =? Z.of_nat (length body)) eqn:Ep; cbn [andb].
  2:{ apply Z.eqb_neq in Ep. destruct (psz + 4 =? Z.of_nat L) eqn:E; [apply Z.eqb_eq in E; lia|]. reflexivity. }
  apply Z.eqb_eq in Ep.
  assert (E1 : (psz + 4 =? Z.of_nat L) = true) by (apply Z.eqb_eq; lia). rewrite E1. cbn [negb orb].
  unfold is_suffix.
  destruct (Nat.leb_spec (length nonce) (length body)) as [Hn|Hn]; cbn [andb].
  2:{ assert (E2 : (psz <? Z.of_nat (length nonce)) = true) by (apply Z.ltb_lt; lia). rewrite E2. reflexivity. }
  assert (E2 : (psz <? Z.of_nat (length nonce)) = false) by (apply Z.ltb_ge; lia). rewrite E2.
  destruct (Nat.ltb_spec L (length nonce)); [lia|].
  (* plain = header ++ front ++ back *)
  set (front := firstn (length body - length nonce) body).
  set (back := skipn (length body - length nonce) body).
  assert (Hfront : length front = (length body - length nonce)%nat) by (unfold front; rewrite firstn_length; lia).
  assert (Hback : length back = length nonce) by (unfold back; rewrite skipn_length; lia).
  assert (Hplain : plain = firstn 4 plain ++ front ++ back).
  { unfold front, back. rewrite firstn_skipn. unfold body. symmetry. apply firstn_skipn. }
  assert (Hh : length (firstn 4 plain) = 4%nat) by (rewrite firstn_length; fold L; lia).
  assert (S1 : slice dst (L - length nonce) (L - length nonce + length nonce) = Some back).
  { unfold dst. rewrite Hplain at 1.
    replace ((firstn 4 plain ++ front ++ back) ++ repeat 0 (dst_len - L))
      with ((firstn 4 plain ++ front) ++ back ++ repeat 0 (dst_len - L)) by (rewrite <- !app_assoc; reflexivity).
    replace (L - length nonce)%nat with (length (firstn 4 plain ++ front)) by (rewrite app_length; lia).
    rewrite <- Hback. apply slice_app_mid. }
  rewrite S1.
  destruct (list_eqb back nonce); cbn [negb]; [|reflexivity].
  assert (S2 : slice dst 4 (L - length nonce) = Some front).
  { unfold dst. rewrite Hplain at 1.
    replace ((firstn 4 plain ++ front ++ back) ++ repeat 0 (dst_len - L))
      with (firstn 4 plain ++ front ++ (back ++ repeat 0 (dst_len - L))) by (rewrite <- !app_assoc; reflexivity).
    pose proof (slice_app_mid (firstn 4 plain) front (back ++ repeat 0 (dst_len - L))) as S.
    rewrite Hh in S. replace (L - length nonce)%nat with (4 + length front)%nat by lia. exact S. }
  rewrite S2. fold front. destruct (utf8_valid front); reflexivity.
Qed.

Lemma parse_plain_total plain dst_len nonce : (length plain <= dst_len)%nat ->
  parse_plain true plain dst_len nonce <> Panic.
Proof. intro H. rewrite parse_plain_ref by exact H. destruct (ref_parse plain nonce); discriminate. Qed.

(* the reference parser on a plain text that has the layout  length ++ body *)
Lemma ref_parse_layout body nonce : Z.of_nat (length body) < 2 ^ 32 ->
  ref_parse (le32 (Z.of_nat (length body)) ++ body) nonce =
  if is_suffix nonce body then
    (if utf8_valid (firstn (length body - length nonce) body) then Some (firstn (length body - length nonce) body) else None)
  else None.
Proof.
  intro Hb. unfold ref_parse.
  change (skipn 4 (le32 (Z.of_nat (length body)) ++ body)) with body.
  change (firstn 4 (le32 (Z.of_nat (length body)) ++ body)) with (le32 (Z.of_nat (length body))).
  rewrite rd32_le32 by lia. rewrite app_length, length_le32. cbn [Nat.leb plus andb].
  rewrite Z.eqb_refl. cbn [andb]. reflexivity.
Qed.

(* ================= the block loops, relative to the RSA oracle ================= *)
Lemma length_concat_blocks (k : nat) (blocks : list (list Z)) :
  Forall (fun c => length c = k) blocks -> length (concat blocks) = (k * length blocks)%nat.
Proof.
  induction 1 as [|c r Hc _ IH]; cbn [concat length]; [lia|]. rewrite app_length, IH, Hc. lia.
Qed.

Lemma split_blocks (k : nat) : forall n (src : list Z), length src = (n * k)%nat ->
  exists blocks, src = concat blocks /\ Forall (fun c => length c = k) blocks /\ length blocks = n.
Proof.
  induction n as [|n IH]; intros src H.
  - exists []. destruct src; [auto | discriminate].
  - destruct (IH (skipn k src)) as [bs [E [F L]]]; [rewrite skipn_length; lia|].
    exists (firstn k src :: bs). cbn [concat length]. rewrite <- E, firstn_skipn.
    repeat split; [|lia]. constructor; [rewrite firstn_length; lia | exact F].
Qed.

Section Rsa.
  Variable R : Type.
  Variable k : nat.
  Variable enc : padding -> R -> list Z -> option (list Z).
  Variable dec : padding -> list Z -> option (list Z).

  (* the only facts assumed of the RSA primitive:
     - a non-empty block of at most  k - overhead  bytes encrypts to k bytes that decrypt to it
       (whatever randomness the padding uses);
     - a decrypted block is never longer than the key *)
  Definition enc_dec_law : Prop := forall p r b, (0 < length b <= k - overhead p)%nat ->
    exists c, enc p r b = Some c /\ length c = k /\ dec p c = Some b.
  Definition dec_len_law : Prop := forall p c b, dec p c = Some b -> (length b <= k)%nat.

  (* all blocks decrypted and concatenated; None if one of them fails *)
  Fixpoint dec_blocks (p : padding) (blocks : list (list Z)) : option (list Z) :=
    match blocks with
    | [] => Some []
    | c :: r => match dec p c with
                | None => None
                | Some b => match dec_blocks p r with Some pl => Some (b ++ pl) | None => None end
                end
    end.

  Lemma dec_blocks_len p blocks pl : dec_len_law -> dec_blocks p blocks = Some pl ->
    (length pl <= k * length blocks)%nat.
  Proof.
    intro Hl. revert pl. induction blocks as [|c r IH]; intros pl H; cbn [dec_blocks] in H.
    - inversion H. cbn. lia.
    - destruct (dec p c) as [b|] eqn:D; [|discriminate].
      destruct (dec_blocks p r) as [pl'|]; [|discriminate]. inversion H; subst.
      rewrite app_length. cbn [length]. specialize (IH pl' eq_refl). apply Hl in D. lia.
  Qed.

  Lemma dec_loop_blocks p : dec_len_law -> (0 < k)%nat ->
    forall blocks fuel pre acc dst_len,
    Forall (fun c => length c = k) blocks ->
    (length blocks < fuel)%nat -> (length acc <= length pre)%nat ->
    (length pre + k * length blocks <= dst_len)%nat ->
    dec_loop k dec fuel p (pre ++ concat blocks) dst_len (length pre) acc =
    match dec_blocks p blocks with Some pl => Ok (acc ++ pl) | None => Err end.
  Proof.
    intros Hl Hk. induction blocks as [|c r IH]; intros fuel pre acc dst_len HF Hfuel Hacc Hdst.
    - destruct fuel; [cbn in Hfuel; lia|]. cbn [dec_loop concat dec_blocks].
      rewrite app_nil_r. rewrite Nat.leb_refl. rewrite app_nil_r. reflexivity.
    - destruct fuel; [cbn in Hfuel; lia|]. inversion HF as [|? ? Hc HF']; subst.
      cbn [dec_loop concat dec_blocks]. cbn [length] in Hfuel, Hdst.
      destruct (Nat.leb_spec (length (pre ++ c ++ concat r)) (length pre)) as [Hle|_].
      { rewrite !app_length in Hle. lia. }
      pose proof (slice_app_mid pre c (concat r)) as S. rewrite Hc in S. rewrite S. clear S.
      destruct (Nat.ltb_spec dst_len (length acc + k)); [lia|].
      destruct (dec p c) as [b|] eqn:D; [|reflexivity].
      replace (pre ++ c ++ concat r) with ((pre ++ c) ++ concat r) by (rewrite app_assoc; reflexivity).
      replace (length pre + k)%nat with (length (pre ++ c)) by (rewrite app_length, Hc; reflexivity).
      rewrite IH; [| exact HF' | lia | rewrite !app_length; apply Hl in D; lia | rewrite app_length; lia].
      destruct (dec_blocks p r); [rewrite app_assoc; reflexivity | reflexivity].
  Qed.

  Lemma private_decrypt_blocks p blocks : dec_len_law -> (0 < k)%nat ->
    Forall (fun c => length c = k) blocks ->
    private_decrypt k dec p (concat blocks) (length (concat blocks)) =
    match dec_blocks p blocks with Some pl => Ok pl | None => Err end.
  Proof.
    intros Hl Hk HF. unfold private_decrypt. rewrite (length_concat_blocks k blocks HF).
    destruct (Nat.eqb_spec k 0); [lia|].
    rewrite Nat.mul_comm, Nat.mod_mul by lia. cbn [Nat.eqb negb orb]. rewrite Nat.ltb_irrefl.
    pose proof (dec_loop_blocks p Hl Hk blocks (S (length blocks * k)) [] [] (length blocks * k)%nat HF) as H.
    cbn [app length] in H. rewrite H; [reflexivity | nia | lia | lia].
  Qed.

  (* ---- every byte string: Ok or Err, never a panic ---- *)
  Theorem private_decrypt_total p src : dec_len_law ->
    private_decrypt k dec p src (length src) <> Panic /\
    (forall pl, private_decrypt k dec p src (length src) = Ok pl -> (length pl <= length src)%nat).
  Proof.
    intro Hl. destruct (Nat.eq_dec k 0) as [Hk|Hk].
    { unfold private_decrypt. destruct (Nat.eqb_spec k 0); [|contradiction]. cbn [orb].
      split; [discriminate | intros; discriminate]. }
    destruct (Nat.eq_dec (length src mod k) 0) as [Hm|Hm].
    2:{ unfold private_decrypt. destruct (Nat.eqb_spec (length src mod k) 0); [contradiction|].
        rewrite orb_true_r. cbn [orb]. split; [discriminate | intros; discriminate]. }
    apply Nat.div_exact in Hm; [|exact Hk].
    destruct (split_blocks k (length src / k) src) as [blocks [E [HF HL]]]; [lia|].
    subst src. rewrite private_decrypt_blocks; [| exact Hl | lia | exact HF].
    destruct (dec_blocks p blocks) as [pl|] eqn:D.
    - split; [discriminate|]. intros pl' H. inversion H; subst pl'.
      rewrite (length_concat_blocks k blocks HF). apply (dec_blocks_len p); assumption.
    - split; [discriminate | intros; discriminate].
  Qed.

  Theorem password_decrypt_total p secret nonce : dec_len_law ->
    password_decrypt k dec p secret nonce <> Panic.
  Proof.
    intro Hl. unfold password_decrypt. destruct secret as [src|]; [|discriminate].
    destruct (private_decrypt_total p src Hl) as [Hn Hlen].
    destruct (private_decrypt k dec p src (length src)) as [plain| |]; [|discriminate|contradiction].
    apply parse_plain_total. apply Hlen. reflexivity.
  Qed.

  Theorem decrypt_token_total a secret nonce : dec_len_law ->
    decrypt_token k dec a secret nonce <> Panic.
  Proof.
    intro Hl. unfold decrypt_token. destruct (padding_of_alg a); [apply password_decrypt_total; exact Hl | discriminate].
  Qed.

  (* ---- encryption: the block loop produces whole blocks that decrypt to the plain text ---- *)
  Lemma enc_loop_ok p rs b : enc_dec_law -> (0 < b)%nat -> b = (k - overhead p)%nat ->
    forall fuel pre rest acc blk dst_len,
    (length rest < fuel)%nat ->
    ((length (pre ++ rest) < b)%nat -> pre = [] \/ rest = []) ->
    (length acc + k * block_count (length rest) b <= dst_len)%nat ->
    exists cbs,
      enc_loop R k enc fuel p rs b (pre ++ rest) dst_len (length pre) acc blk = Ok (acc ++ concat cbs) /\
      Forall (fun c => length c = k) cbs /\ dec_blocks p cbs = Some rest /\
      length cbs = block_count (length rest) b.
  Proof.
    intros Hlaw Hb Eb. induction fuel as [|f IH]; intros pre rest acc blk dst_len Hfuel Hinv Hdst; [lia|].
    cbn [enc_loop]. cbv zeta.
    destruct (Nat.eq_dec (length rest) 0) as [Hz|Hnz].
    { destruct rest; [|discriminate]. rewrite app_nil_r, Nat.leb_refl. exists [].
      cbn [concat dec_blocks length]. rewrite app_nil_r, block_count_0 by lia. repeat split; constructor. }
    assert (Hsrc : length (pre ++ rest) = (length pre + length rest)%nat) by apply app_length.
    destruct (Nat.leb_spec (length (pre ++ rest)) (length pre)); [lia|].
    set (m := Nat.min b (length rest)).
    assert (Hbytes : (if (length (pre ++ rest) <? b)%nat then length (pre ++ rest)
                      else if (length (pre ++ rest) - length pre <? b)%nat
                           then (length (pre ++ rest) - length pre)%nat else b) = m).
    { destruct (Nat.ltb_spec (length (pre ++ rest)) b) as [Hlt|Hge].
      - destruct (Hinv Hlt) as [Hp|Hr]; [|subst rest; cbn in Hnz; lia].
        subst pre. cbn [app length] in *. unfold m. lia.
      - destruct (Nat.ltb_spec (length (pre ++ rest) - length pre) b); unfold m; lia. }
    rewrite Hbytes.
    set (chunk := firstn m rest). set (rest' := skipn m rest).
    assert (Hm : (0 < m <= b)%nat /\ (m <= length rest)%nat) by (unfold m; lia).
    assert (Hchunk : length chunk = m) by (unfold chunk; rewrite firstn_length; lia).
    assert (Hrest' : length rest' = (length rest - m)%nat) by (unfold rest'; apply skipn_length).
    assert (Erest : rest = chunk ++ rest') by (unfold chunk, rest'; symmetry; apply firstn_skipn).
    pose proof (slice_app_mid pre chunk rest') as S. rewrite Hchunk in S. rewrite <- Erest in S. rewrite S. clear S.
    pose proof (block_count_step (length rest) b Hb ltac:(lia)) as Hbc. fold m in Hbc.
    rewrite Hbc, Nat.mul_succ_r in Hdst.
    destruct (Nat.ltb_spec dst_len (length acc + k)); [lia|].
    destruct (Hlaw p (rs blk) chunk ltac:(lia)) as [c [Hc [Hlc Hdc]]]. rewrite Hc.
    specialize (IH (pre ++ chunk) rest' (acc ++ c) (S blk) dst_len).
    rewrite (app_length pre chunk), Hchunk in IH.
    replace ((pre ++ chunk) ++ rest') with (pre ++ rest) in IH by (rewrite <- app_assoc, <- Erest; reflexivity).
    destruct IH as [cbs [E [HF [HD HL]]]].
    - lia.
    - intro Hlt. right. apply length_zero_iff_nil. lia.
    - rewrite app_length, Hlc, Hrest'. lia.
    - exists (c :: cbs). cbn [concat dec_blocks length]. rewrite E, Hdc, HD, HL, Hbc, Hrest', <- Erest.
      repeat split; [rewrite <- app_assoc; reflexivity | constructor; assumption].
  Qed.

  Lemma password_encrypt_ok p rs pw nonce : enc_dec_law -> (overhead p < k)%nat ->
    Z.of_nat (length (pw ++ nonce)) < 2 ^ 32 ->
    exists cbs, password_encrypt R k enc p rs pw nonce = Ok (concat cbs) /\
      Forall (fun c => length c = k) cbs /\
      dec_blocks p cbs = Some (le32 (Z.of_nat (length (pw ++ nonce))) ++ pw ++ nonce) /\
      length cbs = block_count (4 + length pw + length nonce) (k - overhead p).
  Proof.
    intros Hlaw Hk Hsz. unfold password_encrypt, cipher_text_size, public_encrypt, pbs. cbv zeta.
    destruct (Nat.ltb_spec k (overhead p)); [lia|].
    destruct (Nat.eqb_spec (k - overhead p) 0); [lia|].
    replace (4 + length pw + length nonce - 4)%nat with (length (pw ++ nonce)) by (rewrite app_length; lia).
    rewrite Z.mod_small by lia.
    set (src := le32 (Z.of_nat (length (pw ++ nonce))) ++ pw ++ nonce).
    assert (Hlen : length src = (4 + length pw + length nonce)%nat).
    { unfold src. rewrite app_length, length_le32, app_length. lia. }
    destruct (enc_loop_ok p rs (k - overhead p)%nat Hlaw ltac:(lia) eq_refl (S (length src)) [] src [] 0%nat
                (block_count (4 + length pw + length nonce) (k - overhead p) * k)%nat)
      as [cbs [E [HF [HD HL]]]].
    - lia.
    - intros _. left. reflexivity.
    - rewrite Hlen. cbn [length]. lia.
    - cbn [app length] in E. rewrite E. exists cbs.
      rewrite (length_concat_blocks k cbs HF), HL, Hlen.
      destruct (Nat.eqb_spec (k * block_count (4 + length pw + length nonce) (k - overhead p))
                             (block_count (4 + length pw + length nonce) (k - overhead p) * k)); [|lia].
      repeat split; try assumption; try (rewrite HL, Hlen; reflexivity).
  Qed.

  (* ---- the main statement: what decrypting an encrypted password with any nonce gives ---- *)
  Definition expected (pw nonce nonce' : list Z) : outcome (list Z) :=
    if is_suffix nonce' (pw ++ nonce) then
      (if utf8_valid (firstn (length (pw ++ nonce) - length nonce') (pw ++ nonce))
       then Ok (firstn (length (pw ++ nonce) - length nonce') (pw ++ nonce)) else Err)
    else Err.

  Theorem decrypt_encrypt p rs pw nonce nonce' : enc_dec_law -> dec_len_law -> (overhead p < k)%nat ->
    Z.of_nat (length (pw ++ nonce)) < 2 ^ 32 ->
    exists ct, password_encrypt R k enc p rs pw nonce = Ok ct /\
      length ct = (block_count (4 + length pw + length nonce) (k - overhead p) * k)%nat /\
      password_decrypt k dec p (Some ct) nonce' = expected pw nonce nonce'.
  Proof.
    intros Hlaw Hl Hk Hsz. destruct (password_encrypt_ok p rs pw nonce Hlaw Hk Hsz) as [cbs [E [HF [HD HL]]]].
    exists (concat cbs). split; [exact E|]. split; [rewrite (length_concat_blocks k cbs HF), HL; lia|].
    unfold password_decrypt. rewrite private_decrypt_blocks; [| exact Hl | lia | exact HF]. rewrite HD.
    rewrite parse_plain_ref.
    - rewrite ref_parse_layout by exact Hsz. unfold expected.
      destruct (is_suffix nonce' (pw ++ nonce)); [|reflexivity].
      destruct (utf8_valid _); reflexivity.
    - rewrite (length_concat_blocks k cbs HF). apply (dec_blocks_len p); assumption.
  Qed.
End Rsa.

(* ================= consequences ================= *)
Lemma suffix_self (pw nonce : list Z) :
  is_suffix nonce (pw ++ nonce) = true /\ firstn (length (pw ++ nonce) - length nonce) (pw ++ nonce) = pw.
Proof.
  unfold is_suffix. rewrite app_length.
  replace (length pw + length nonce - length nonce)%nat with (length pw) by lia.
  destruct (Nat.leb_spec (length nonce) (length pw + length nonce)); [|lia]. cbn [andb].
  rewrite skipn_app, skipn_all, Nat.sub_diag. cbn [skipn app]. rewrite list_eqb_refl.
  split; [reflexivity|]. rewrite firstn_app, firstn_all, Nat.sub_diag. cbn [firstn]. apply app_nil_r.
Qed.

Lemma suffix_same_length (pw nonce nonce' : list Z) : length nonce' = length nonce ->
  is_suffix nonce' (pw ++ nonce) = list_eqb nonce nonce'.
Proof.
  intro H. unfold is_suffix. rewrite app_length, H.
  replace (length pw + length nonce - length nonce)%nat with (length pw) by lia.
  destruct (Nat.leb_spec (length nonce) (length pw + length nonce)); [|lia]. cbn [andb].
  rewrite skipn_app, skipn_all, Nat.sub_diag. cbn [skipn app]. reflexivity.
Qed.

Lemma expected_same pw nonce : utf8_valid pw = true -> expected pw nonce nonce = Ok pw.
Proof.
  intro H. unfold expected. destruct (suffix_self pw nonce) as [E1 E2]. rewrite E1, E2, H. reflexivity.
Qed.

Lemma expected_other_same_length pw nonce nonce' :
  length nonce' = length nonce -> nonce' <> nonce -> expected pw nonce nonce' = Err.
Proof.
  intros Hl Hne. unfold expected. rewrite suffix_same_length by exact Hl.
  rewrite list_eqb_neq; [reflexivity | congruence].
Qed.

(* decrypting with another nonce "succeeds" exactly on the known class *)
Lemma expected_other pw nonce nonce' : list_eqb nonce nonce' = false ->
  (exists pw', expected pw nonce nonce' = Ok pw') <-> suffix_class pw nonce nonce' = true.
Proof.
  intro Hne. unfold expected, suffix_class. rewrite Hne. cbn [negb andb]. rewrite app_length.
  destruct (is_suffix nonce' (pw ++ nonce)); cbn [andb]; [|split; [intros [? H]; discriminate | discriminate]].
  destruct (utf8_valid _); split; try discriminate; try (intros [? H]; discriminate); eauto.
Qed.

(* ================= the toy cipher of the correspondence model is lawful ================= *)
Lemma overhead_bounds p : (11 <= overhead p <= 66)%nat.
Proof. destruct p; cbn; lia. Qed.

Lemma toy_block_length k p pl : (length pl + 3 <= k)%nat -> length (toy_block k p pl) = k.
Proof. intro H. unfold toy_block. cbn [app length]. rewrite app_length, repeat_length. lia. Qed.

Lemma toy_dec_block k p pl : (length pl <= k - overhead p)%nat -> (overhead p <= k)%nat ->
  toy_dec k p (toy_block k p pl) = Some pl.
Proof.
  intros H Hk. pose proof (overhead_bounds p) as Ho.
  pose proof (toy_block_length k p pl ltac:(lia)) as HL. unfold toy_dec. rewrite HL.
  unfold toy_block. cbn [app]. rewrite Nat.eqb_refl, Z.eqb_refl. cbn [andb].
  assert (E : Z.of_nat (length pl) / 256 * 256 + Z.of_nat (length pl) mod 256 = Z.of_nat (length pl)).
  { pose proof (Z.div_mod (Z.of_nat (length pl)) 256 ltac:(lia)). lia. }
  rewrite E, Nat2Z.id. destruct (Nat.leb_spec (length pl) (k - overhead p)); [|lia].
  f_equal. rewrite firstn_app, firstn_all, Nat.sub_diag. cbn [firstn]. apply app_nil_r.
Qed.

Lemma toy_dec_bad k p : toy_dec k p (bad_block k) = None.
Proof.
  unfold bad_block. destruct k as [|[|[|k]]]; cbn [repeat toy_dec]; try reflexivity.
  destruct p; cbn [tag Z.eqb]; rewrite andb_false_r; reflexivity.
Qed.

Lemma toy_enc_dec_law k : enc_dec_law unit k (toy_enc k) (toy_dec k).
Proof.
  intros p r b H. pose proof (overhead_bounds p) as Ho. unfold toy_enc.
  destruct (Nat.leb_spec (length b) (k - overhead p)); [|lia].
  exists (toy_block k p b). split; [reflexivity|]. split.
  - apply toy_block_length. lia.
  - apply toy_dec_block; lia.
Qed.

Lemma toy_dec_len_law k : dec_len_law k (toy_dec k).
Proof.
  intros p c b H. unfold toy_dec in H. destruct c as [|t [|h [|l rest]]]; try discriminate.
  destruct (_ && _ && _) eqn:E; [|discriminate]. inversion H; subst b.
  apply andb_true_iff in E as [_ E]. apply Nat.leb_le in E. rewrite firstn_length. lia.
Qed.

(* ================= the correspondence model satisfies the oracle ================= *)
Lemma padding_of_alg_of pol : padding_of_alg (alg_of pol) = Some (padding_of pol).
Proof. destruct pol; reflexivity. Qed.

Lemma run_roundtrip kz pol pw n n' :
  66 < kz -> Z.of_nat (length (pw ++ n)) < 2 ^ 32 ->
  run (RoundTrip kz pol pw n n') =
  Z.of_nat (block_count (4 + length pw + length n) (Z.to_nat kz - overhead (padding_of pol)) * Z.to_nat kz)
  :: encode (expected pw n n').
Proof.
  intros Hk Hsz. cbn [run]. pose proof (overhead_bounds (padding_of pol)) as Ho.
  destruct (decrypt_encrypt unit (Z.to_nat kz) (toy_enc (Z.to_nat kz)) (toy_dec (Z.to_nat kz)) (padding_of pol)
              (fun _ => tt) pw n n' (toy_enc_dec_law _) (toy_dec_len_law _) ltac:(lia) Hsz) as [ct [E [HL HD]]].
  rewrite E. unfold decrypt_token. rewrite padding_of_alg_of, HD, HL. reflexivity.
Qed.

(* ================= the server: authenticate_username_identity_token ================= *)
Section Auth.
  Variable R : Type.
  Variable k : nat.
  Variable enc : padding -> R -> list Z -> option (list Z).
  Variable dec : padding -> list Z -> option (list Z).
  (* what the server answers to a password [pw] encrypted for the nonce [nonce] when the session's
     nonce is [nonce']: the comparison of the configured password with [expected] *)
  Definition auth_expected (stored : option (list Z)) (pw nonce nonce' : list Z) : outcome unit :=
    match expected pw nonce nonce' with
    | Ok pw' => match stored with Some s => if list_eqb s pw' then Ok tt else Err | None => Err end
    | Err => Err
    | Panic => Panic
    end.
  Theorem authenticate_encrypt pol rs pw nonce nonce' stored :
    enc_dec_law R k enc dec -> dec_len_law k dec -> (overhead (padding_of pol) < k)%nat ->
    Z.of_nat (length (pw ++ nonce)) < 2 ^ 32 ->
    exists ct, password_encrypt R k enc (padding_of pol) rs pw nonce = Ok ct /\
      authenticate k dec (alg_of pol) (Some ct) nonce' stored = auth_expected stored pw nonce nonce'.
  Proof.
    intros He Hd Hk Hs.
    destruct (decrypt_encrypt R k enc dec (padding_of pol) rs pw nonce nonce' He Hd Hk Hs) as [ct [E [_ D]]].
    exists ct. split; [exact E|]. unfold authenticate, auth_expected, decrypt_token.
    rewrite padding_of_alg_of, D. reflexivity.
  Qed.

  (* the session's own nonce: activated iff the user exists and the password is the configured one *)
  Theorem authenticate_same_nonce pol rs pw nonce stored :
    enc_dec_law R k enc dec -> dec_len_law k dec -> (overhead (padding_of pol) < k)%nat ->
    Z.of_nat (length (pw ++ nonce)) < 2 ^ 32 -> utf8_valid pw = true ->
    exists ct, password_encrypt R k enc (padding_of pol) rs pw nonce = Ok ct /\
      (authenticate k dec (alg_of pol) (Some ct) nonce stored = Ok tt <-> stored = Some pw) /\
      authenticate k dec (alg_of pol) (Some ct) nonce stored <> Panic.
  Proof.
    intros He Hd Hk Hs Hu.
    destruct (authenticate_encrypt pol rs pw nonce nonce stored He Hd Hk Hs) as [ct [E A]].
    exists ct. split; [exact E|]. rewrite A. unfold auth_expected. rewrite expected_same by exact Hu.
    destruct stored as [s|].
    - destruct (list_eqb s pw) eqn:Es.
      + apply list_eqb_eq in Es. subst s. split; [split; reflexivity | discriminate].
      + split; [|discriminate]. split; [discriminate|]. intro H. inversion H; subst.
        rewrite list_eqb_refl in Es. discriminate.
    - split; [split; discriminate | discriminate].
  Qed.

  (* another nonce of the same length (every nonce the server hands out has one length): refused,
     whatever the user and the configured password are - an empty configured password included *)
  Theorem authenticate_other_nonce pol rs pw nonce nonce' stored :
    enc_dec_law R k enc dec -> dec_len_law k dec -> (overhead (padding_of pol) < k)%nat ->
    Z.of_nat (length (pw ++ nonce)) < 2 ^ 32 -> length nonce' = length nonce -> nonce' <> nonce ->
    exists ct, password_encrypt R k enc (padding_of pol) rs pw nonce = Ok ct /\
      authenticate k dec (alg_of pol) (Some ct) nonce' stored = Err.
  Proof.
    intros He Hd Hk Hs Hl Hn.
    destruct (authenticate_encrypt pol rs pw nonce nonce' stored He Hd Hk Hs) as [ct [E A]].
    exists ct. split; [exact E|]. rewrite A. unfold auth_expected.
    rewrite expected_other_same_length by assumption. reflexivity.
  Qed.

  (* any token password bytes at all: Ok or Err *)
  Theorem authenticate_total a secret nonce stored : dec_len_law k dec ->
    authenticate k dec a secret nonce stored <> Panic.
  Proof.
    intro Hd. unfold authenticate. pose proof (decrypt_token_total k dec a secret nonce Hd) as H.
    destruct (decrypt_token k dec a secret nonce); [|discriminate|contradiction].
    destruct stored as [s|]; [destruct (list_eqb s a0)|]; discriminate.
  Qed.
End Auth.

Lemma run_auth kz pol stored pw n n' :
  66 < kz -> Z.of_nat (length (pw ++ n)) < 2 ^ 32 ->
  run (Auth kz pol stored pw n n') =
  [match expected pw n n' with
   | Ok pw' => match stored with Some s => if list_eqb s pw' then 0 else 1 | None => 1 end
   | Err => 1 | Panic => -2 end].
Proof.
  intros Hk Hsz. cbn [run]. pose proof (overhead_bounds (padding_of pol)) as Ho.
  destruct (authenticate_encrypt unit (Z.to_nat kz) (toy_enc (Z.to_nat kz)) (toy_dec (Z.to_nat kz)) pol
              (fun _ => tt) pw n n' stored (toy_enc_dec_law _) (toy_dec_len_law _) ltac:(lia) Hsz) as [ct [E A]].
  rewrite E, A. unfold auth_expected.
  destruct (expected pw n n') as [pw'| |]; [|reflexivity|reflexivity].
  destruct stored as [s|]; [destruct (list_eqb s pw')|]; reflexivity.
Qed.

Definition blk (k : nat) (p : padding) (o : option (list Z)) : list Z :=
  match o with Some pl => toy_block k p pl | None => bad_block k end.

Lemma blk_length k p tr : (66 < k)%nat -> forallb (tr_ok k p) tr = true ->
  Forall (fun c => length c = k) (map (blk k p) tr).
Proof.
  intros Hk H. pose proof (overhead_bounds p) as Ho. induction tr as [|o tr IH]; cbn [map]; constructor.
  - cbn [forallb] in H. apply andb_true_iff in H as [H _]. destruct o as [pl|]; cbn [blk tr_ok] in *.
    + apply Nat.leb_le in H. apply toy_block_length. lia.
    + apply repeat_length.
  - apply IH. cbn [forallb] in H. apply andb_true_iff in H as [_ H]. exact H.
Qed.

Lemma dec_blocks_tr k p tr T : (66 < k)%nat -> forallb (tr_ok k p) tr = true ->
  dec_blocks (toy_dec k) p (map (blk k p) tr ++ T) =
  match all_plain tr with
  | Some plain => match dec_blocks (toy_dec k) p T with Some t => Some (plain ++ t) | None => None end
  | None => None
  end.
Proof.
  intros Hk H. pose proof (overhead_bounds p) as Ho. induction tr as [|o tr IH]; cbn [map app all_plain].
  - destruct (dec_blocks (toy_dec k) p T); reflexivity.
  - cbn [forallb] in H. apply andb_true_iff in H as [H1 H2]. cbn [dec_blocks].
    destruct o as [pl|]; cbn [blk tr_ok] in *.
    + apply Nat.leb_le in H1. rewrite toy_dec_block by lia. rewrite IH by exact H2.
      destruct (all_plain tr); [|reflexivity].
      destruct (dec_blocks (toy_dec k) p T); [rewrite app_assoc; reflexivity | reflexivity].
    + rewrite toy_dec_bad. reflexivity.
Qed.

Lemma synth_eq k p cl tr :
  synth k p cl tr = concat (map (blk k p) tr) ++ repeat 0 (cl - length (concat (map (blk k p) tr))).
Proof. reflexivity. Qed.

Lemma run_crafted kz p null clen tr n' : valid (Crafted kz p null clen tr n') = true ->
  run (Crafted kz p null clen tr n') =
  match (if null || negb (clen mod kz =? 0) then None
         else match all_plain tr with Some plain => ref_parse plain n' | None => None end) with
  | Some pw => 0 :: pw
  | None => [1]
  end.
Proof.
  intro Hv. cbn [valid] in Hv.
  apply andb_true_iff in Hv as [Hv Hcomplete]. apply andb_true_iff in Hv as [Hv Hcover].
  apply andb_true_iff in Hv as [Hv Htr]. apply andb_true_iff in Hv as [Hk Hclen].
  apply Z.ltb_lt in Hk. apply Z.leb_le in Hclen. apply Z.leb_le in Hcover.
  cbn [run]. destruct null; cbn [orb]; [reflexivity|].
  set (k := Z.to_nat kz) in *. set (cl := Z.to_nat clen).
  assert (Hkk : (66 < k)%nat) by (unfold k; lia).
  pose proof (blk_length k p tr Hkk Htr) as HF.
  pose proof (length_concat_blocks k _ HF) as Hbody. rewrite map_length in Hbody.
  assert (Hsl : length (synth k p cl tr) = cl).
  { rewrite synth_eq, app_length, repeat_length, Hbody. unfold cl, k. nia. }
  assert (Emod : Z.of_nat (cl mod k) = clen mod kz).
  { rewrite Nat2Z.inj_mod. unfold cl, k. rewrite !Z2Nat.id by lia. reflexivity. }
  unfold password_decrypt.
  destruct (clen mod kz =? 0) eqn:Em; cbn [negb].
  2:{ apply Z.eqb_neq in Em. unfold private_decrypt. rewrite Hsl.
      destruct (Nat.eqb_spec (cl mod k) 0) as [E0|E0]; [rewrite E0 in Emod; cbn in Emod; lia|].
      rewrite orb_true_r. reflexivity. }
  apply Z.eqb_eq in Em.
  assert (Hm : (cl mod k = 0)%nat) by lia.
  apply Nat.div_exact in Hm; [|lia]. set (m := (cl / k)%nat) in *.
  (* the zero tail of the synthetic cipher text is a whole number of blocks *)
  destruct (split_blocks k (m - length tr) (repeat 0 (cl - length (concat (map (blk k p) tr))))) as [T [ET [HFT HLT]]].
  { rewrite repeat_length, Hbody. unfold cl, k in *. nia. }
  assert (Esynth : synth k p cl tr = concat (map (blk k p) tr ++ T)).
  { rewrite synth_eq, concat_app, <- ET. reflexivity. }
  assert (HFall : Forall (fun c => length c = k) (map (blk k p) tr ++ T)) by (apply Forall_app; split; assumption).
  rewrite Esynth.
  rewrite (private_decrypt_blocks k (toy_dec k) p _ (toy_dec_len_law k) ltac:(lia) HFall).
  rewrite dec_blocks_tr by assumption.
  destruct (all_plain tr) as [plain|] eqn:Ea; [|reflexivity].
  (* complete transcript: it covers every block, so there is no tail *)
  apply Z.eqb_eq in Hcomplete.
  assert (Hmt : length tr = m).
  { assert (clen / kz = Z.of_nat m).
    { unfold m. rewrite Nat2Z.inj_div. unfold cl, k. rewrite !Z2Nat.id by lia. reflexivity. }
    lia. }
  destruct T as [|? ?]; [|cbn [length] in HLT; lia]. cbn [dec_blocks]. rewrite app_nil_r.
  rewrite <- Esynth, Hsl. rewrite parse_plain_ref.
  - destruct (ref_parse plain n'); reflexivity.
  - assert (Hd : dec_blocks (toy_dec k) p (map (blk k p) tr ++ []) = Some (plain ++ [])).
    { rewrite dec_blocks_tr by assumption. rewrite Ea. reflexivity. }
    apply (dec_blocks_len k (toy_dec k) p) in Hd; [|apply toy_dec_len_law].
    rewrite !app_nil_r in Hd. rewrite map_length in Hd. unfold cl, k in *. nia.
Qed.

Theorem oracle_holds c : valid c = true -> known c = 0 -> oracle c (run c) = true.
Proof.
  destruct c as [kz pol pw n n'|kz p null clen tr n'|uri null bytes n'|kz pol stored pw n n']; intros Hv Hk.
  - cbn [valid] in Hv. apply andb_true_iff in Hv as [Hv Hsz]. apply andb_true_iff in Hv as [Hkz Hutf].
    apply Z.ltb_lt in Hkz. apply Z.ltb_lt in Hsz.
    assert (Hsz' : Z.of_nat (length (pw ++ n)) < 2 ^ 32) by (rewrite app_length; lia).
    rewrite run_roundtrip by assumption. cbn [oracle].
    pose proof (overhead_bounds (padding_of pol)) as Ho.
    apply andb_true_iff. split.
    + apply Z.eqb_eq. rewrite Nat2Z.inj_mul, block_count_Z by lia.
      rewrite Nat2Z.inj_sub by lia. rewrite Z2Nat.id by lia.
      f_equal. f_equal. lia.
    + cbn [known] in Hk. destruct (list_eqb n n') eqn:En.
      * apply list_eqb_eq in En. subst n'. rewrite expected_same by exact Hutf. cbn [encode]. apply list_eqb_refl.
      * destruct (suffix_class pw n n') eqn:Hc; [discriminate|].
        destruct (expected pw n n') as [pw'| |] eqn:Ee.
        -- assert (Hex : exists pw', expected pw n n' = Ok pw') by eauto.
           apply expected_other in Hex; [congruence | exact En].
        -- reflexivity.
        -- exfalso. revert Ee. unfold expected. destruct (is_suffix _ _); [destruct (utf8_valid (firstn _ _))|]; discriminate.
  - rewrite run_crafted by exact Hv. cbn [oracle]. apply list_eqb_refl.
  - cbn [run oracle]. unfold decrypt_token_other, plaintext_password.
    destruct ((uri =? 0) || (uri =? 1)); [|reflexivity].
    destruct null; cbn [utf8_valid encode].
    + reflexivity.
    + destruct (utf8_valid bytes) eqn:E; cbn [encode]; [|reflexivity].
      cbn [list_eqb]. rewrite Z.eqb_refl, list_eqb_refl. cbn. destruct bytes; reflexivity.
  - cbn [valid] in Hv. apply andb_true_iff in Hv as [Hv Hsz]. apply andb_true_iff in Hv as [Hkz Hutf].
    apply Z.ltb_lt in Hkz. apply Z.ltb_lt in Hsz.
    assert (Hsz' : Z.of_nat (length (pw ++ n)) < 2 ^ 32) by (rewrite app_length; lia).
    rewrite run_auth by assumption. cbn [oracle known] in *.
    destruct (list_eqb n n') eqn:En.
    + apply list_eqb_eq in En. subst n'. rewrite expected_same by exact Hutf. cbn [andb].
      destruct stored as [s|]; [destruct (list_eqb s pw)|]; reflexivity.
    + cbn [andb]. destruct (suffix_class pw n n') eqn:Hc; [discriminate|].
      destruct (expected pw n n') as [pw'| |] eqn:Ee.
      * assert (Hex : exists pw', expected pw n n' = Ok pw') by eauto.
        apply expected_other in Hex; [congruence | exact En].
      * reflexivity.
      * exfalso. revert Ee. unfold expected. destruct (is_suffix _ _); [destruct (utf8_valid (firstn _ _))|]; discriminate.
Qed.

(* the token level is total for EVERY algorithm string: the three RSA URIs ([decrypt_token_total]),
   a null or empty one (plain text) and any other *)
Theorem decrypt_token_other_total uri secret : decrypt_token_other uri secret <> Panic.
Proof.
  unfold decrypt_token_other, plaintext_password.
  destruct ((uri =? 0) || (uri =? 1)); [|discriminate].
  destruct (utf8_valid _); discriminate.
Qed.

(* ================= the code before the fixes, and the known class ================= *)
(* fix 6c0db8b8: a 100 byte "cipher text" under a 1024 bit key panics in the block loop *)
Theorem legacy_block_loop_refuted :
  Legacy.password_decrypt 128 (toy_dec 128) false Pkcs1 (Some (repeat 7 100)) [] = Panic /\
  password_decrypt 128 (toy_dec 128) Pkcs1 (Some (repeat 7 100)) [] = Err.
Proof. vm_compute. split; reflexivity. Qed.

(* fix 72720213: a well-encrypted plain text (length prefix 3, "abc") shorter than the 32 byte nonce *)
Theorem legacy_short_plain_refuted :
  let secret := Some (toy_block 128 Pkcs1 (le32 3 ++ [97; 98; 99])) in
  let nonce := repeat 5 32 in
  Legacy.password_decrypt 128 (toy_dec 128) true Pkcs1 secret nonce = Panic /\
  password_decrypt 128 (toy_dec 128) Pkcs1 secret nonce = Err.
Proof. vm_compute. split; reflexivity. Qed.

(* fix e300a6dc: the token of two policies named another algorithm than the padding it was encrypted with *)
Theorem legacy_algorithm_refuted :
  padding_of_alg (Legacy.alg_of Aes128Sha256RsaOaep) <> Some (padding_of Aes128Sha256RsaOaep) /\
  padding_of_alg (Legacy.alg_of Aes256Sha256RsaPss) <> Some (padding_of Aes256Sha256RsaPss) /\
  (forall pol, padding_of_alg (alg_of pol) = Some (padding_of pol)) /\
  exists ct, password_encrypt unit 128 (toy_enc 128) (padding_of Aes256Sha256RsaPss) (fun _ => tt) [112; 119] [1; 2; 3] = Ok ct /\
             decrypt_token 128 (toy_dec 128) (Legacy.alg_of Aes256Sha256RsaPss) (Some ct) [1; 2; 3] = Err.
Proof.
  split; [discriminate|]. split; [discriminate|]. split; [exact padding_of_alg_of|].
  eexists. split; vm_compute; reflexivity.
Qed.

Definition known_witness : case := RoundTrip 128 Basic256Sha256 [112; 119] [97; 98; 99; 100] [99; 100].
Theorem known_1_refuted :
  valid known_witness = true /\ known known_witness = 1 /\ oracle known_witness (run known_witness) = false /\
  run known_witness = [128; 0; 112; 119; 97; 98].
Proof. vm_compute. repeat split; reflexivity. Qed.
