(* C24 — monitored item notification queue (lib/src/server/subscriptions/monitored_item.rs).

   Model of `MonitoredItem::{new, enqueue_notification_message, modify, all_notifications}` and
   `sanitize_queue_size` as committed in the repository (after
   "fix: shrinking a monitored item queue computed queue_size - len and underflowed" and
   "fix: a configured maximum queue size of 0 revised queue sizes to 0 and the queue grew
   without bound").
   The `VecDeque<Notification>` is a list, oldest first; an entry is its payload and whether the
   OVERFLOW info bit (0x80) was or-ed into its status.  usize/u32 are Z.  Rust panic sites
   (usize subtraction with overflow checks, `drain` past the end) are explicit [Panic] outcomes;
   in the repaired code none is reachable (theorem), in [Legacy] one is. *)
From Coq Require Import List ZArith Bool Lia.
Import ListNotations.
Open Scope Z_scope.

Definition U32MAX : Z := 2 ^ 32 - 1.
Definition OVERFLOW : Z := 128.

Inductive outcome (T : Type) := Done (t : T) | Panic.
Arguments Done {T} t.
Arguments Panic {T}.

Definition len {X} (l : list X) : Z := Z.of_nat (length l).

(* sanitize_queue_size (after "fix: a configured maximum queue size of 0 revised queue sizes to 0
   and the queue grew without bound": never below 1) *)
Definition sanitize_queue_size (mx r : Z) : Z :=
  if (r =? 0) || (r =? 1) then 1 else if mx <? r then Z.max 1 mx else r.

Section Queue.
  Context {A : Type}.

  Record st := mk_st { size : Z; disc : bool; q : list (A * bool); ovf : bool }.

  (* MonitoredItem::new: empty queue, revised size *)
  Definition create (mx r : Z) (d : bool) : st :=
    {| size := sanitize_queue_size mx r; disc := d; q := []; ovf := false |}.

  (* enqueue_notification_message: pop_front / pop_back on the full queue, or the overflow bit into
     the NEW entry when something was removed and the size is above 1, push_back *)
  Definition enqueue (s : st) (a : A) : st :=
    let full := len (q s) =? size s in
    let q1 := if full then (if disc s then tl (q s) else removelast (q s)) else q s in
    let overflow := full && (1 <? size s) in
    {| size := size s; disc := disc s; q := q1 ++ [(a, overflow)];
       ovf := if overflow then true else ovf s |}.

  (* VecDeque::drain(0..d): panics when d exceeds the length *)
  Definition drain_front (d : Z) (l : list (A * bool)) : outcome (list (A * bool)) :=
    if len l <? d then Panic else Done (skipn (Z.to_nat d) l).

  (* modify: filter kinds 0 none, 1 data change filter with absolute deadband, 2 an extension
     object that is not a filter (from_filter fails, `?` returns before anything is assigned),
     3 percent deadband (decodes; refused by validate_filter at the very end, after the resize).
     Result: new state and 0 = Ok / 1 = Err. *)
  Definition modify (mx : Z) (s : st) (r : Z) (d : bool) (filt : Z) : outcome (st * Z) :=
    if filt =? 2 then Done (s, 1)
    else
      let sz := sanitize_queue_size mx r in
      let res := if filt =? 3 then 1 else 0 in
      if sz <? len (q s) then
        (* let discard = len - queue_size;  drain(0..discard) *)
        let discard := len (q s) - sz in
        if discard <? 0 then Panic
        else match drain_front discard (q s) with
             | Panic => Panic
             | Done q' => Done ({| size := sz; disc := d; q := q'; ovf := ovf s |}, res)
             end
      else Done ({| size := sz; disc := d; q := q s; ovf := ovf s |}, res).

  (* all_notifications *)
  Definition drain (s : st) : st * option (list (A * bool)) :=
    match q s with
    | [] => (s, None)
    | l => ({| size := size s; disc := disc s; q := []; ovf := false |}, Some l)
    end.

  (* ---- the specification, in closed forms over lists ------------------------------------- *)
  Definition lastn (n : nat) (l : list (A * bool)) : list (A * bool) := skipn (length l - n) l.

  (* a sample arrives: something is discarded exactly when the queue already holds `size` entries;
     the new entry carries the overflow bit exactly then and when size > 1; discard-oldest keeps the
     newest `size` entries, otherwise the newest slot is replaced *)
  Definition spec_enqueue (s : st) (a : A) : st :=
    let discarded := size s <=? len (q s) in
    let bit := discarded && (1 <? size s) in
    {| size := size s; disc := disc s;
       q := if disc s then lastn (Z.to_nat (size s)) (q s ++ [(a, bit)])
            else firstn (Z.to_nat (size s) - 1) (q s) ++ [(a, bit)];
       ovf := ovf s || bit |}.

  (* a modify request that is not refused outright: revised size and policy, the most recent
     entries that fit *)
  Definition spec_modify (mx : Z) (s : st) (r : Z) (d : bool) (filt : Z) : st * Z :=
    if filt =? 2 then (s, 1)
    else let sz := Z.max 1 (Z.min mx r) in
         ({| size := sz; disc := d; q := lastn (Z.to_nat sz) (q s); ovf := ovf s |},
          if filt =? 3 then 1 else 0).
End Queue.
Arguments st A : clear implicits.

(* the code before the fix: `queue_size - len` under `len > queue_size` always underflows
   (a panic with overflow checks, as the harness builds; a wrapped range and a panic inside
   `drain` without them) *)
Module Legacy.
  (* before the maximum-of-0 fix *)
  Definition sanitize_queue_size (mx r : Z) : Z :=
    if (r =? 0) || (r =? 1) then 1 else if mx <? r then mx else r.
  Definition create {A} (mx r : Z) (d : bool) : st A :=
    {| size := sanitize_queue_size mx r; disc := d; q := []; ovf := false |}.

  Definition modify {A} (mx : Z) (s : st A) (r : Z) (d : bool) (filt : Z) : outcome (st A * Z) :=
    if filt =? 2 then Done (s, 1)
    else
      let sz := sanitize_queue_size mx r in
      let res := if filt =? 3 then 1 else 0 in
      if sz <? len (q s) then
        let discard := sz - len (q s) in
        if discard <? 0 then Panic
        else match drain_front discard (q s) with
             | Panic => Panic
             | Done q' => Done ({| size := sz; disc := d; q := q'; ovf := ovf s |}, res)
             end
      else Done ({| size := sz; disc := d; q := q s; ovf := ovf s |}, res).
End Legacy.

(* ---- correspondence interface -------------------------------------------------------------- *)
Inductive op := Enq (v : Z) | Modify (r : Z) (d : bool) (filt : Z) | Drain.

(* server maximum queue size, requested size and policy at creation, operations *)
Record case := mk_case { c_max : Z; c_size0 : Z; c_disc0 : bool; c_ops : list op }.

Definition b2z (b : bool) : Z := if b then 1 else 0.
Fixpoint entries (l : list (Z * bool)) : list Z :=
  match l with [] => [] | (v, b) :: l' => v :: (if b then OVERFLOW else 0) :: entries l' end.
Definition snapshot (s : st Z) : list Z :=
  size s :: b2z (disc s) :: b2z (ovf s) :: len (q s) :: entries (q s).

(* output: snapshot after creation, then per operation its result (0; 0/1; -1 or the drained
   entries) followed by the snapshot; -2 ends the list at a panic *)
Fixpoint go (mx : Z) (ops : list op) (s : st Z) : list Z :=
  match ops with
  | [] => []
  | Enq v :: ops' => let s' := enqueue s v in 0 :: snapshot s' ++ go mx ops' s'
  | Modify r d f :: ops' =>
      match modify mx s r d f with
      | Panic => [-2]
      | Done (s', res) => res :: snapshot s' ++ go mx ops' s'
      end
  | Drain :: ops' =>
      match drain s with
      | (s', None) => -1 :: snapshot s' ++ go mx ops' s'
      | (s', Some l) => len l :: entries l ++ snapshot s' ++ go mx ops' s'
      end
  end.

Definition init (c : case) : st Z := create (c_max c) (c_size0 c) (c_disc0 c).
Definition run (c : case) : list Z := snapshot (init c) ++ go (c_max c) (c_ops c) (init c).

Fixpoint legacy_go (mx : Z) (ops : list op) (s : st Z) : list Z :=
  match ops with
  | [] => []
  | Enq v :: ops' => let s' := enqueue s v in 0 :: snapshot s' ++ legacy_go mx ops' s'
  | Modify r d f :: ops' =>
      match Legacy.modify mx s r d f with
      | Panic => [-2]
      | Done (s', res) => res :: snapshot s' ++ legacy_go mx ops' s'
      end
  | Drain :: ops' =>
      match drain s with
      | (s', None) => -1 :: snapshot s' ++ legacy_go mx ops' s'
      | (s', Some l) => len l :: entries l ++ snapshot s' ++ legacy_go mx ops' s'
      end
  end.
Definition legacy_run (c : case) : list Z :=
  snapshot (init c) ++ legacy_go (c_max c) (c_ops c) (init c).

(* the reference evaluator of the property *)
Fixpoint spec_go (mx : Z) (ops : list op) (s : st Z) : list Z :=
  match ops with
  | [] => []
  | Enq v :: ops' => let s' := spec_enqueue s v in 0 :: snapshot s' ++ spec_go mx ops' s'
  | Modify r d f :: ops' =>
      let '(s', res) := spec_modify mx s r d f in res :: snapshot s' ++ spec_go mx ops' s'
  | Drain :: ops' =>
      match q s with
      | [] => -1 :: snapshot s ++ spec_go mx ops' s
      | l => let s' := {| size := size s; disc := disc s; q := []; ovf := false |} in
             len l :: entries l ++ snapshot s' ++ spec_go mx ops' s'
      end
  end.
Definition spec_init (c : case) : st Z :=
  {| size := Z.max 1 (Z.min (c_max c) (c_size0 c)); disc := c_disc0 c; q := []; ovf := false |}.
Definition spec (c : case) : list Z := snapshot (spec_init c) ++ spec_go (c_max c) (c_ops c) (spec_init c).

Fixpoint list_eqb (a b : list Z) : bool :=
  match a, b with
  | [], [] => true
  | x :: a', y :: b' => (x =? y) && list_eqb a' b'
  | _, _ => false
  end.

Definition oracle (c : case) (out : list Z) : bool := list_eqb out (spec c).

Definition known (c : case) : Z := 0.

Definition op_ok (o : op) : Prop :=
  match o with
  | Enq v => 0 <= v <= U32MAX
  | Modify r _ f => 0 <= r <= U32MAX /\ 0 <= f <= 3
  | Drain => True
  end.

(* any server maximum (usize, including 0), u32 requests *)
Definition valid (c : case) : Prop :=
  0 <= c_max c /\ 0 <= c_size0 c <= U32MAX /\ Forall op_ok (c_ops c).
