(* C09 — statements only (in progress) *)
From Coq Require Import List ZArith.
From OV Require Import C07.Chan C09.Total C09.Model C09.Proofs.
Open Scope Z_scope.

Theorem C09_recv_total : forall (P : prims) (fx : fixes), guarded_fixes fx ->
  (forall c k ks, p_cert_key P c = Some (k, ks) -> 0 < ks < len c) ->
  (forall k p blk pt, p_rsa_dec P k p blk = Some pt -> len pt <= len blk) ->
  (forall k c, len (p_aes_dec P k c) = len c) ->
  forall r src, total (fst (recv P fx r src)).
Proof. exact recv_total. Qed.
Print Assumptions C09_recv_total.
