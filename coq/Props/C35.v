(* C35 — Every client request completes exactly once.  Statements only.

   Schedules: any list of Submit (Request::send / send_no_response, any timeout), Pump (one turn of
   wait_for_outgoing_message + SendBuffer::write), Chunk (a response chunk: any request id known,
   unknown or already completed, any sequence number, intermediate / final / abort, any body),
   AckMsg / ErrMsg (other messages from the server), Advance (time passes unnoticed by the transport),
   Close, Scan (one call of next_timeout), Sleep lim (next_timeout, then the transport sleeps until the
   wake-up instant it returned - if 0 <= lim, something else ends the sleep after lim units if earlier).
   [exec dec mi mp init ops]: the state after the schedule, for ANY decoder [dec] of merged chunks and
   any limits max_inflight [mi], max_pending_incoming [mp].  [submitted]: labels of the requests that
   have a callback; [done]: the log of all completions (label, 0, response marker | label, 1, status);
   [open]: labels still queued or pending. *)
From Coq Require Import List ZArith Permutation Lia.
Import ListNotations.
From OV Require Import C35.Model C35.Proofs.
Open Scope Z_scope.

(* The ledger: at any point of any schedule every submitted request is in exactly one place -
   completed, pending or queued (as multisets, and no label is submitted twice). *)
Theorem C35_ledger : forall dec mi mp ops,
  let s := exec dec mi mp init ops in
  (forall k, count_occ Z.eq_dec (submitted s) k =
             (count_occ Z.eq_dec (done_ks s) k + count_occ Z.eq_dec (open s) k)%nat) /\
  NoDup (submitted s).
Proof. intros dec mi mp ops s. destruct (reach_inv dec mi mp ops) as [A _ B _]. split; assumption. Qed.
Print Assumptions C35_ledger.

(* No request ever completes twice, and only submitted requests complete. *)
Theorem C35_at_most_once : forall dec mi mp ops k,
  (count_occ Z.eq_dec (done_ks (exec dec mi mp init ops)) k <= 1)%nat /\
  (In k (done_ks (exec dec mi mp init ops)) -> In k (submitted (exec dec mi mp init ops))).
Proof. intros. split; [apply at_most_once|apply only_submitted]. Qed.
Print Assumptions C35_at_most_once.

(* Once the transport has closed (Close, a socket error, a protocol error, an undecodable response,
   a failed write), every submitted request has completed exactly once ... *)
Theorem C35_exactly_once : forall dec mi mp ops,
  closed (exec dec mi mp init ops) = true ->
  Permutation (submitted (exec dec mi mp init ops)) (done_ks (exec dec mi mp init ops)) /\
  forall k, In k (submitted (exec dec mi mp init ops)) ->
            count_occ Z.eq_dec (done_ks (exec dec mi mp init ops)) k = 1%nat.
Proof.
  intros dec mi mp ops Hc. split; [apply permutation_after_close; exact Hc|].
  intros k. apply exactly_once_after_close. exact Hc.
Qed.
Print Assumptions C35_exactly_once.

(* ... and a request submitted after that completes at once, with BadConnectionClosed. *)
Theorem C35_submit_after_close : forall dec mi mp s t kind,
  closed s = true -> kind <> 1 -> snd (step dec mi mp s (Submit t kind)) = [(next_k s, 1, 1)].
Proof. exact submit_after_close. Qed.
Print Assumptions C35_submit_after_close.

(* A response is delivered only by a chunk operation, to the request pending under the request id
   of that chunk, and it is decoded from chunks that all carry that request id. *)
Theorem C35_no_cross_delivery : forall dec mi mp ops o k m,
  let s := exec dec mi mp init ops in
  In (k, 0, m) (snd (step dec mi mp s o)) ->
  exists rid sq kind mid part n e,
    o = Chunk rid sq kind mid part n /\ find rid (pending s) = Some e /\ e_k e = k /\
    let cs := merge (e_chunks e ++ [mk_chunk rid sq kind mid part n]) in
    dec cs = inl m /\ Forall (fun c => k_rid c = rid) cs.
Proof.
  intros dec mi mp ops o k m s. apply response_provenance. apply exec_inv2. apply inv2_init.
Qed.
Print Assumptions C35_no_cross_delivery.

(* Chunks for a request id that is not pending are ignored: nothing changes, nothing completes. *)
Theorem C35_unknown_ignored : forall dec mi mp s rid sq kind mid part n,
  find rid (pending s) = None -> step dec mi mp s (Chunk rid sq kind mid part n) = (s, -1, []).
Proof. exact unknown_ignored. Qed.
Print Assumptions C35_unknown_ignored.

(* Once the request filed under an id has completed - by its response, BadTimeout, an abort, a
   close - every later chunk carrying that id is ignored, for ever (request ids are never reused). *)
Theorem C35_completed_ids_ignored : forall dec mi mp ops1 o ops2 rid e t v,
  let s := exec dec mi mp init ops1 in
  In (rid, e) (pending s) -> In (e_k e, t, v) (snd (step dec mi mp s o)) ->
  let s2 := exec dec mi mp (fst (fst (step dec mi mp s o))) ops2 in
  forall sq kind mid part n, step dec mi mp s2 (Chunk rid sq kind mid part n) = (s2, -1, []).
Proof. exact completed_ids_ignored. Qed.
Print Assumptions C35_completed_ids_ignored.

(* The reaper (next_timeout, at every turn of wait_for_outgoing_message) completes with BadTimeout
   exactly the pending requests whose deadline has passed, never one whose deadline has not. *)
Theorem C35_timeout_iff_deadline : forall dec mi mp s k,
  closed s = false ->
  (In (k, 1, 2) (snd (step dec mi mp s Pump)) <-> In (k, 1, 2) (timeouts (now s) (pending s))) /\
  (In (k, 1, 2) (timeouts (now s) (pending s)) <->
   exists rid e, In (rid, e) (pending s) /\ e_k e = k /\ e_deadline e <= now s).
Proof. intros dec mi mp s k Hc. split; [apply pump_timeouts; exact Hc|apply timeout_iff_deadline]. Qed.
Print Assumptions C35_timeout_iff_deadline.

(* ---- the wake-up instant ------------------------------------------------------------------------ *)
(* What next_timeout returns (the instant wait_for_outgoing_message sleeps until) when it is called at
   [nw] with the requests [p] pending: an instant after [nw] that is not after the deadline of any
   request that stays pending - so no deadline can pass while the transport sleeps - and that is the
   deadline of one of them; None exactly when no request stays pending. *)
Theorem C35_wakeup_is_earliest_deadline : forall nw p,
  match next_wake (alive nw p) with
  | Some w => nw < w /\
              (forall rid e, In (rid, e) p -> nw < e_deadline e -> w <= e_deadline e) /\
              (exists rid e, In (rid, e) p /\ nw < e_deadline e /\ e_deadline e = w)
  | None => forall rid e, In (rid, e) p -> e_deadline e <= nw
  end.
Proof.
  intros nw p. pose proof (next_wake_alive nw p) as H. destruct (next_wake (alive nw p)) as [w|].
  - destruct H as (Hlt & Hall & ([rid e] & Hx & Hd)). split; [exact Hlt|]. split.
    + intros r e0 Hin Hn. rewrite Forall_forall in Hall. apply (Hall (r, e0)). apply alive_in. split; [exact Hin|exact Hn].
    + apply alive_in in Hx as [Hx Hn]. exists rid, e. repeat split; assumption.
  - intros rid e Hin. destruct (Z.le_gt_cases (e_deadline e) nw) as [Hle|Hgt]; [exact Hle|].
    assert (Hx : In (rid, e) (alive nw p)) by (apply alive_in; split; [exact Hin|exact Hgt]). rewrite H in Hx. destruct Hx.
Qed.
Print Assumptions C35_wakeup_is_earliest_deadline.

(* Scan and Sleep are that call: the pending requests afterwards are those whose deadline has not
   passed, the wake-up shown is [next_wake] of them (as the distance from now, -1 for None), and a
   sleep ends at the wake-up (lim < 0), or lim units later if that is earlier. *)
Theorem C35_scan_returns_wakeup : forall dec mi mp s o,
  closed s = false -> (o = Scan \/ exists lim, o = Sleep lim) ->
  let s' := fst (fst (step dec mi mp s o)) in
  let w := next_wake (alive (now s) (pending s)) in
  pending s' = alive (now s) (pending s) /\
  stepw dec mi mp s o = (step dec mi mp s o, match w with Some w => w - now s | None => -1 end) /\
  now s' = match o with Sleep lim => sleep_to (now s) lim w | _ => now s end /\
  (o = Sleep (-1) -> forall t, w = Some t -> now s' = t).
Proof.
  intros dec mi mp s o Hc Ho. destruct Ho as [->|[lim ->]]; cbv zeta; unfold stepw; cbn [step wake]; rewrite Hc;
    cbn [fst scanned pending now]; repeat split; try reflexivity.
  - intros H; discriminate H.
  - intros H t Ht. injection H as ->. rewrite Ht. reflexivity.
Qed.
Print Assumptions C35_scan_returns_wakeup.

(* ---- a transport that sleeps only until the wake-ups it was given ----------------------------------- *)
(* Histories in which time passes only inside Sleep (no Advance of a positive amount): by induction
   over the history, at every point no pending request's deadline has passed - the clock stands at or
   before every pending deadline - and the clock never goes back. *)
Theorem C35_no_deadline_passes_asleep : forall dec mi mp ops,
  Forall timely ops ->
  let s := exec dec mi mp init ops in
  (forall rid e, In (rid, e) (pending s) -> now s <= e_deadline e) /\
  (forall o, now s <= now (fst (fst (step dec mi mp s o)))).
Proof.
  intros dec mi mp ops Ht s. split.
  - intros rid e Hin. pose proof (exec_due dec mi mp ops init Ht due_init) as HD. unfold Due in HD.
    rewrite Forall_forall in HD. exact (HD _ Hin).
  - intros o. apply step_now_mono.
Qed.
Print Assumptions C35_no_deadline_passes_asleep.

(* In such a history every submitted request is, at every point, completed exactly once or open exactly
   once - queued, or pending with its deadline not passed; an operation that scans (Pump, Scan, Sleep)
   completes with BadTimeout exactly the pending requests whose deadline is that very instant - none
   earlier, and none is left for later: BadTimeout comes at the first scan at or after the deadline,
   which is a scan AT the deadline; a response is delivered only by a chunk carrying the request id the
   request is pending under, decoded from chunks that all carry it, and only while the deadline of
   that request has not passed. *)
Theorem C35_sleeping_transport_exactly_once : forall dec mi mp ops,
  Forall timely ops ->
  let s := exec dec mi mp init ops in
  (forall k, In k (submitted s) ->
     (count_occ Z.eq_dec (done_ks s) k = 1 /\ count_occ Z.eq_dec (open s) k = 0)%nat \/
     ((count_occ Z.eq_dec (done_ks s) k = 0 /\ count_occ Z.eq_dec (open s) k = 1)%nat /\
      (In k (q_ks (queue s)) \/ exists rid e, In (rid, e) (pending s) /\ e_k e = k /\ now s <= e_deadline e))) /\
  (forall o k, closed s = false -> scans o ->
     (In (k, 1, 2) (snd (step dec mi mp s o)) <->
      exists rid e, In (rid, e) (pending s) /\ e_k e = k /\ e_deadline e = now s)) /\
  (forall o rid e, closed s = false -> scans o -> In (rid, e) (pending s) -> e_deadline e <= now s ->
     In (e_k e, 1, 2) (snd (step dec mi mp s o)) /\
     forall ops2 sq kind mid part n,
       let s2 := exec dec mi mp (fst (fst (step dec mi mp s o))) ops2 in
       step dec mi mp s2 (Chunk rid sq kind mid part n) = (s2, -1, [])) /\
  (forall o k m, In (k, 0, m) (snd (step dec mi mp s o)) ->
     exists rid sq kind mid part n e,
       o = Chunk rid sq kind mid part n /\ find rid (pending s) = Some e /\ e_k e = k /\ now s <= e_deadline e /\
       let cs := merge (e_chunks e ++ [mk_chunk rid sq kind mid part n]) in
       dec cs = inl m /\ Forall (fun c => k_rid c = rid) cs).
Proof.
  intros dec mi mp ops Ht s.
  pose proof (exec_due dec mi mp ops init Ht due_init) as HD. fold s in HD.
  pose proof (exec_inv2 dec mi mp ops init inv2_init) as HJ. fold s in HJ.
  split; [|split; [|split]].
  - intros k. apply timely_ledger. exact Ht.
  - intros o k Hc Ho. apply timeout_on_time; assumption.
  - intros o rid e Hc Ho Hin Hd.
    assert (Hev : In (e_k e, 1, 2) (snd (step dec mi mp s o))).
    { apply (timeout_on_time dec mi mp s o (e_k e) HD Hc Ho). exists rid, e. repeat split; auto.
      unfold Due in HD. rewrite Forall_forall in HD. specialize (HD _ Hin). cbn in HD. lia. }
    split; [exact Hev|]. intros ops2 sq kind mid part n.
    exact (completed_ids_ignored dec mi mp ops o ops2 rid e 1 2 Hin Hev sq kind mid part n).
  - intros o k m Hin.
    destruct (response_in_time dec mi mp s o k m HJ HD Hin) as (rid & sq & kind & mid & part & n & e & Ho & Hf & Hk & Hd).
    destruct (response_provenance dec mi mp s o k m HJ Hin) as (rid' & sq' & kind' & mid' & part' & n' & e' & Ho' & Hf' & Hk' & Hdec).
    rewrite Ho in Ho'. injection Ho' as <- <- <- <- <- <-. rewrite Hf in Hf'. injection Hf' as <-.
    exists rid, sq, kind, mid, part, n, e. repeat split; try assumption; apply Hdec.
Qed.
Print Assumptions C35_sleeping_transport_exactly_once.

(* Liveness of the idle transport: from any state, with no response and no submission, a transport
   that keeps sleeping until the wake-up it is given has completed every pending request after at most
   one wake-up per pending request and one more scan (each with BadTimeout at its deadline, by the
   theorem above); the queue and the set of submitted requests are untouched. *)
Theorem C35_idle_transport_drains : forall dec mi mp s,
  closed s = false ->
  let s' := exec dec mi mp s (repeat (Sleep (-1)) (S (length (pending s)))) in
  pending s' = [] /\ closed s' = false /\ queue s' = queue s /\ submitted s' = submitted s.
Proof. exact idle_drains. Qed.
Print Assumptions C35_idle_transport_drains.

(* The executable oracle applied to the implementation's observations holds on the model for every
   schedule (no validity hypothesis: every operation list is a schedule). *)
Theorem C35_oracle : forall c, valid c -> known c = 0 -> oracle c (run c) = true.
Proof. exact oracle_holds. Qed.
Print Assumptions C35_oracle.

(* The code before the fix: merging a response whose last chunk is numbered u32::MAX panicked. *)
Theorem C35_legacy_refuted :
  Legacy.merge [mk_chunk 1001 4294967294 0 70 0 2; mk_chunk 1001 4294967295 1 70 1 2] = None /\
  merge [mk_chunk 1001 4294967294 0 70 0 2; mk_chunk 1001 4294967295 1 70 1 2]
  = [mk_chunk 1001 4294967294 0 70 0 2; mk_chunk 1001 4294967295 1 70 1 2].
Proof. exact legacy_merge_panics. Qed.
Print Assumptions C35_legacy_refuted.

(* --- the hypotheses are satisfiable by a non-trivial schedule --------------------------------- *)
Definition ex_ops : list op :=
  [Submit 1 0; Submit 9 0; Submit 9 0; Pump; Pump; Pump; Chunk 1002 1 0 71 0 2; Advance 1; Pump;
   Chunk 1001 3 1 70 0 1; Chunk 1002 2 1 71 1 2; Submit 9 0; Close 0].

Example ex_run : run (mk_case 8 5 ex_ops) =
  [0; 0;  0; 0;  0; 0;  1001; 0; 0;  1002; 0; 0;  1003; 0; 0;  0; 0;  0; 0;  -1; 1; 0; 1; 2; 0;
   0; 0;  1; 1; 0; 71; 0;  0; 0;  2; 2; 1; 1; 3; 1; 1; 1].
Proof. vm_compute. reflexivity. Qed.

Example ex_closed :
  let s := exec decode_parts 8 5 init ex_ops in
  closed s = true /\ submitted s = [0; 1; 2; 3] /\ done s = [(0, 1, 2); (1, 0, 71); (2, 1, 1); (3, 1, 1)].
Proof. vm_compute. repeat split. Qed.

Example ex_pending_and_completing :
  let s := exec decode_parts 8 5 init (firstn 8 ex_ops) in
  exists e, In (1001, e) (pending s) /\ In (e_k e, 1, 2) (snd (step decode_parts 8 5 s Pump)).
Proof. eexists. split; [vm_compute; left; reflexivity|vm_compute; left; reflexivity]. Qed.

(* a Publish-like request (9) and a Read-like one (2) on an idle transport that sleeps until its wake-ups *)
Definition ex_sleep : list op :=
  [Submit 9 0; Submit 2 0; Submit 5 0; Pump; Pump; Pump; Sleep (-1); Scan; Chunk 1002 1 1 70 0 1; Chunk 1001 2 1 71 0 1; Sleep (-1); Sleep (-1)].

Example ex_sleep_timely : Forall timely ex_sleep.
Proof. repeat constructor. Qed.

Example ex_sleep_run : run (mk_case 8 5 ex_sleep) =
  [0; 0;  0; 0;  0; 0;  1001; 0; 0;  1002; 0; 0;  1003; 0; 0;  0; 2; 0;  1; 1; 1; 2; 3; 0;  0; 0;  1; 0; 0; 71; 0;
   0; 3; 0;  1; 2; 1; 2; -1; 0].
Proof. vm_compute. reflexivity. Qed.

Example ex_wake : next_wake (alive 0 [(1001, mk_entry 0 9 []); (1002, mk_entry 1 2 []); (1003, mk_entry 2 5 []); (1004, mk_entry 3 0 [])]) = Some 2.
Proof. vm_compute. reflexivity. Qed.

Example ex_drain :
  let s := exec decode_parts 8 5 init (firstn 6 ex_sleep) in
  length (pending s) = 3%nat /\ closed s = false /\
  done (exec decode_parts 8 5 s (repeat (Sleep (-1)) 4)) = [(1, 1, 2); (2, 1, 2); (0, 1, 2)].
Proof. vm_compute. repeat split. Qed.
