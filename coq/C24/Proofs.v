From Coq Require Import List ZArith Bool Lia.
Import ListNotations.
From OV Require Import C24.Model.
Open Scope Z_scope.

Lemma list_eqb_refl l : list_eqb l l = true.
Proof. induction l as [|x l IH]; cbn; [reflexivity|]. rewrite Z.eqb_refl. exact IH. Qed.

Lemma list_eqb_eq a : forall b, list_eqb a b = true -> a = b.
Proof.
  induction a as [|x a IH]; intros [|y b] H; cbn in H; try discriminate; [reflexivity|].
  apply andb_true_iff in H as [H1 H2]. apply Z.eqb_eq in H1. f_equal; auto.
Qed.

Lemma len_nonneg {X} (l : list X) : 0 <= len l.
Proof. unfold len. lia. Qed.

Lemma len_app {X} (a b : list X) : len (a ++ b) = len a + len b.
Proof. unfold len. rewrite app_length. lia. Qed.

(* sanitize_queue_size is the clamp into [1, max] *)
Lemma sanitize_clamp mx r : 0 <= r -> sanitize_queue_size mx r = Z.max 1 (Z.min mx r).
Proof.
  intros Hr. unfold sanitize_queue_size.
  destruct (Z.eqb_spec r 0); [cbn; lia|].
  destruct (Z.eqb_spec r 1); [cbn; lia|]. cbn [orb].
  destruct (Z.ltb_spec mx r); lia.
Qed.

Lemma sanitize_bounds mx r : 0 <= r -> 1 <= sanitize_queue_size mx r <= Z.max 1 mx.
Proof. intros Hr. rewrite sanitize_clamp by assumption. lia. Qed.

Section Generic.
  Context {A : Type}.
  Notation st := (st A).

  (* the queue invariant: the revised size is within [1, max(1, server maximum)] and the queue
     never exceeds it *)
  Definition inv (mx : Z) (s : st) : Prop := 1 <= size s <= Z.max 1 mx /\ len (q s) <= size s.

  Lemma removelast_firstn_pred (l : list (A * bool)) : removelast l = firstn (pred (length l)) l.
  Proof.
    destruct l as [|x l] using rev_ind; [reflexivity|].
    rewrite removelast_last, app_length. cbn [length].
    replace (pred (length l + 1)) with (length l) by lia.
    rewrite firstn_app, firstn_all, Nat.sub_diag. cbn. rewrite app_nil_r. reflexivity.
  Qed.

  Lemma length_tl (l : list (A * bool)) : length (tl l) = pred (length l).
  Proof. destruct l; reflexivity. Qed.

  Lemma length_removelast (l : list (A * bool)) : length (removelast l) = pred (length l).
  Proof. rewrite removelast_firstn_pred, firstn_length. lia. Qed.

  Lemma lastn_all n (l : list (A * bool)) : (length l <= n)%nat -> lastn n l = l.
  Proof. intros H. unfold lastn. replace (length l - n)%nat with O by lia. reflexivity. Qed.

  Lemma lastn_length n (l : list (A * bool)) : length (lastn n l) = Nat.min n (length l).
  Proof. unfold lastn. rewrite skipn_length. lia. Qed.

  (* enqueue, as written in the code, is the closed-form specification *)
  Lemma enqueue_spec mx s a : inv mx s -> enqueue s a = spec_enqueue s a.
  Proof.
    intros [[H1 Hm] Hl]. unfold enqueue, spec_enqueue, len in *.
    destruct s as [sz d qq o]; cbn [size disc q ovf] in *.
    destruct (Z.eqb_spec (Z.of_nat (length qq)) sz) as [Hf|Hf].
    - (* full *)
      replace (sz <=? Z.of_nat (length qq)) with true by (symmetry; apply Z.leb_le; lia).
      cbn [andb]. f_equal.
      + destruct d.
        * unfold lastn. rewrite app_length. cbn [length].
          replace (length qq + 1 - Z.to_nat sz)%nat with 1%nat by lia.
          destruct qq as [|x qq]; [cbn in Hf; lia|]. reflexivity.
        * rewrite removelast_firstn_pred. do 2 f_equal. lia.
      + destruct (1 <? sz), o; reflexivity.
    - replace (sz <=? Z.of_nat (length qq)) with false by (symmetry; apply Z.leb_gt; lia).
      cbn [andb]. f_equal.
      + destruct d.
        * rewrite lastn_all; [reflexivity|]. rewrite app_length. cbn [length]. lia.
        * rewrite firstn_all2 by lia. reflexivity.
      + destruct o; reflexivity.
  Qed.

  Lemma enqueue_inv mx s a : inv mx s -> inv mx (enqueue s a).
  Proof.
    intros [[H1 Hm] Hl]. unfold inv, enqueue, len in *.
    destruct s as [sz d qq o]; cbn [size disc q ovf] in *.
    split; [lia|]. rewrite app_length. cbn [length].
    destruct (Z.eqb_spec (Z.of_nat (length qq)) sz) as [Hf|Hf]; [|lia].
    destruct d; [rewrite length_tl | rewrite length_removelast]; lia.
  Qed.

  Lemma modify_spec mx s r d f : 0 <= r -> inv mx s ->
    modify mx s r d f = Done (spec_modify mx s r d f).
  Proof.
    intros Hr [[H1 Hm] Hl]. unfold modify, spec_modify.
    destruct (f =? 2); [reflexivity|].
    rewrite sanitize_clamp by assumption. set (sz := Z.max 1 (Z.min mx r)).
    assert (Hsz : 1 <= sz) by (unfold sz; lia).
    unfold len in *. destruct (Z.ltb_spec sz (Z.of_nat (length (q s)))) as [Hs|Hs].
    - replace (Z.of_nat (length (q s)) - sz <? 0) with false by (symmetry; apply Z.ltb_ge; lia).
      unfold drain_front, len.
      replace (Z.of_nat (length (q s)) <? Z.of_nat (length (q s)) - sz) with false
        by (symmetry; apply Z.ltb_ge; lia).
      unfold lastn. do 4 f_equal. lia.
    - rewrite lastn_all by lia. reflexivity.
  Qed.

  Lemma spec_modify_inv mx s r d f : inv mx s -> inv mx (fst (spec_modify mx s r d f)).
  Proof.
    intros Hi. unfold spec_modify. destruct (f =? 2); [exact Hi|].
    unfold inv, len; cbn [fst size q]. rewrite lastn_length. lia.
  Qed.

  Lemma drain_inv mx s : inv mx s -> inv mx (fst (drain s)).
  Proof.
    intros Hi. unfold drain. destruct (q s) eqn:E; [exact Hi|].
    destruct Hi as [H1 _]. unfold inv, len; cbn. lia.
  Qed.

  (* ---- arbitrary histories --------------------------------------------------------------- *)
  Inductive gop := GEnq (a : A) | GModify (r : Z) (d : bool) (f : Z) | GDrain.

  Definition gop_ok (o : gop) : Prop :=
    match o with GModify r _ _ => 0 <= r | _ => True end.

  Definition step (mx : Z) (s : st) (o : gop) : outcome st :=
    match o with
    | GEnq a => Done (enqueue s a)
    | GModify r d f => match modify mx s r d f with Done (s', _) => Done s' | Panic => Panic end
    | GDrain => Done (fst (drain s))
    end.

  Fixpoint steps (mx : Z) (s : st) (ops : list gop) : outcome st :=
    match ops with
    | [] => Done s
    | o :: ops' => match step mx s o with Done s' => steps mx s' ops' | Panic => Panic end
    end.

  Lemma step_inv mx s o : gop_ok o -> inv mx s ->
    exists s', step mx s o = Done s' /\ inv mx s'.
  Proof.
    intros Ho Hi. destruct o as [a|r d f|]; cbn [step].
    - eexists; split; [reflexivity|]. apply enqueue_inv. exact Hi.
    - cbn in Ho. rewrite modify_spec by assumption.
      pose proof (spec_modify_inv mx s r d f Hi) as H.
      destruct (spec_modify mx s r d f) as [s' res]. eexists; split; [reflexivity|exact H].
    - eexists; split; [reflexivity|]. apply drain_inv. exact Hi.
  Qed.

  (* for every history of samples, modify requests and drains: no panic, and the invariant holds
     in the state reached *)
  Theorem steps_inv mx ops : Forall gop_ok ops -> forall s, inv mx s ->
    exists s', steps mx s ops = Done s' /\ inv mx s'.
  Proof.
    intros Hops. induction Hops as [|o ops Ho _ IH]; intros s Hi; cbn [steps].
    - eexists; split; [reflexivity|exact Hi].
    - destruct (step_inv mx s o Ho Hi) as (s1 & E & Hi1). rewrite E. apply IH. exact Hi1.
  Qed.

  Lemma create_inv mx r d : 0 <= r -> inv mx (create (A:=A) mx r d).
  Proof.
    intros Hr. unfold inv, create, len; cbn. pose proof (sanitize_bounds mx r Hr). lia.
  Qed.

  (* ---- sample order ------------------------------------------------------------------------ *)
  Inductive subseq {X} : list X -> list X -> Prop :=
  | sub_nil : subseq [] []
  | sub_skip x l1 l2 : subseq l1 l2 -> subseq l1 (x :: l2)
  | sub_take x l1 l2 : subseq l1 l2 -> subseq (x :: l1) (x :: l2).

  Lemma subseq_refl {X} (l : list X) : subseq l l.
  Proof. induction l; constructor; assumption. Qed.

  Lemma subseq_nil {X} (l : list X) : subseq [] l.
  Proof. induction l; constructor; assumption. Qed.

  Lemma subseq_trans {X} (a b c : list X) : subseq a b -> subseq b c -> subseq a c.
  Proof.
    intros Hab Hbc. revert a Hab. induction Hbc as [|x l1 l2 H IH|x l1 l2 H IH]; intros a Hab.
    - exact Hab.
    - constructor. apply IH. exact Hab.
    - inversion Hab; subst.
      + apply sub_skip. apply IH. assumption.
      + apply sub_take. apply IH. assumption.
  Qed.

  Lemma subseq_app {X} (a b c d : list X) : subseq a b -> subseq c d -> subseq (a ++ c) (b ++ d).
  Proof. intros H1 H2. induction H1; cbn; [exact H2 | constructor; assumption ..]. Qed.

  Lemma subseq_skipn {X} n (l : list X) : subseq (skipn n l) l.
  Proof.
    revert l. induction n as [|n IH]; intros l; [apply subseq_refl|].
    destruct l as [|x l]; [constructor|]. cbn. constructor. apply IH.
  Qed.

  Lemma subseq_firstn {X} n (l : list X) : subseq (firstn n l) l.
  Proof.
    revert l. induction n as [|n IH]; intros l; [apply subseq_nil|].
    destruct l as [|x l]; [constructor|]. cbn. apply sub_take. apply IH.
  Qed.

  Definition vals (l : list (A * bool)) : list A := map fst l.

  Definition sampled (ops : list gop) : list A :=
    flat_map (fun o => match o with GEnq a => [a] | _ => [] end) ops.

  Lemma vals_skipn n l : vals (skipn n l) = skipn n (vals l).
  Proof. unfold vals. revert l. induction n; intros [|x l]; cbn; auto. Qed.

  Lemma vals_firstn n l : vals (firstn n l) = firstn n (vals l).
  Proof. unfold vals. revert l. induction n; intros [|x l]; cbn; f_equal; auto. Qed.

  Lemma vals_app l1 l2 : vals (l1 ++ l2) = vals l1 ++ vals l2.
  Proof. unfold vals. apply map_app. Qed.

  Lemma step_order mx s o s' : gop_ok o -> inv mx s -> step mx s o = Done s' ->
    subseq (vals (q s')) (vals (q s) ++ sampled [o]).
  Proof.
    intros Ho Hi E. destruct o as [a|r d f|]; cbn [step] in E.
    - injection E as <-. rewrite (enqueue_spec mx) by exact Hi. unfold spec_enqueue; cbn [q sampled flat_map].
      rewrite app_nil_r. destruct (disc s).
      + unfold lastn. rewrite vals_skipn, vals_app. apply subseq_skipn.
      + rewrite vals_app. apply subseq_app; [|apply subseq_refl].
        rewrite vals_firstn. apply subseq_firstn.
    - cbn in Ho. rewrite modify_spec in E by assumption. cbn [sampled flat_map]. rewrite app_nil_r.
      unfold spec_modify in E. destruct (f =? 2); injection E as <-; [apply subseq_refl|].
      cbn [q]. unfold lastn. rewrite vals_skipn. apply subseq_skipn.
    - injection E as <-. cbn [sampled flat_map]. rewrite app_nil_r. unfold drain.
      destruct (q s) eqn:Eq; cbn [fst q]; [rewrite Eq; apply subseq_refl|]. apply subseq_nil.
  Qed.

  Lemma sampled_cons o ops : sampled (o :: ops) = sampled [o] ++ sampled ops.
  Proof. unfold sampled. cbn. rewrite app_nil_r. reflexivity. Qed.

  (* sample order is preserved: what the queue holds, oldest to newest, is a subsequence of what
     it held before followed by the samples of the history, in their order *)
  Theorem steps_order mx ops : Forall gop_ok ops -> forall s s', inv mx s ->
    steps mx s ops = Done s' -> subseq (vals (q s')) (vals (q s) ++ sampled ops).
  Proof.
    intros Hops. induction Hops as [|o ops Ho _ IH]; intros s s' Hi E; cbn [steps] in E.
    - injection E as <-. cbn. rewrite app_nil_r. apply subseq_refl.
    - destruct (step_inv mx s o Ho Hi) as (s1 & E1 & Hi1). rewrite E1 in E.
      rewrite sampled_cons, app_assoc.
      eapply subseq_trans; [apply (IH s1 s' Hi1 E)|].
      apply subseq_app; [|apply subseq_refl]. eapply step_order; eassumption.
  Qed.

  (* the newest sample is always in the queue, in the last slot *)
  Theorem enqueue_keeps_newest (s : st) (a : A) : exists l b, q (enqueue s a) = l ++ [(a, b)].
  Proof. unfold enqueue; cbn [q]. eauto. Qed.

  (* what a sample does to a queue of size `size s` (the clauses of the statement) *)
  Theorem enqueue_law mx s a : inv mx s ->
    let discarded := size s <=? len (q s) in
    let bit := discarded && (1 <? size s) in
    q (enqueue s a) = (if disc s then lastn (Z.to_nat (size s)) (q s ++ [(a, bit)])
                       else firstn (Z.to_nat (size s) - 1) (q s) ++ [(a, bit)]) /\
    len (q (enqueue s a)) = (if discarded then len (q s) else len (q s) + 1) /\
    len (q (enqueue s a)) <= size s.
  Proof.
    intros Hi. pose proof (enqueue_inv mx s a Hi) as [_ Hl].
    cbn zeta. split; [|split].
    - rewrite (enqueue_spec mx) by exact Hi. reflexivity.
    - destruct Hi as [[H1 Hm] Hq]. unfold enqueue, len in *; cbn [q]. rewrite app_length. cbn [length].
      destruct (Z.eqb_spec (Z.of_nat (length (q s))) (size s)) as [Hf|Hf].
      + replace (size s <=? Z.of_nat (length (q s))) with true by (symmetry; apply Z.leb_le; lia).
        destruct (disc s); [rewrite length_tl | rewrite length_removelast]; lia.
      + replace (size s <=? Z.of_nat (length (q s))) with false by (symmetry; apply Z.leb_gt; lia).
        lia.
    - exact Hl.
  Qed.

  (* what an accepted or late-refused modify request does: the most recent entries that fit *)
  Theorem modify_law mx s r d f : 0 <= r -> inv mx s -> f <> 2 ->
    exists s' res, modify mx s r d f = Done (s', res) /\
      size s' = Z.max 1 (Z.min mx r) /\ disc s' = d /\
      q s' = lastn (Z.to_nat (size s')) (q s) /\
      len (q s') = Z.min (len (q s)) (size s').
  Proof.
    intros Hr Hi Hf. rewrite modify_spec by assumption. unfold spec_modify.
    destruct (Z.eqb_spec f 2); [contradiction|].
    do 2 eexists. split; [reflexivity|]. cbn [size disc q]. repeat split.
    unfold len. rewrite lastn_length. lia.
  Qed.
End Generic.

(* ---- the correspondence model against the reference evaluator ----------------------------- *)
Lemma go_spec mx ops : Forall op_ok ops -> forall s, inv mx s ->
  go mx ops s = spec_go mx ops s.
Proof.
  intros Hops. induction Hops as [|o ops Ho _ IH]; intros s Hi; [reflexivity|].
  destruct o as [v|r d f|]; cbn [go spec_go].
  - rewrite <- (enqueue_spec mx) by exact Hi. cbn zeta. rewrite IH by (apply enqueue_inv; exact Hi).
    reflexivity.
  - cbn in Ho. destruct Ho as [[Hr _] _]. rewrite modify_spec by assumption.
    pose proof (spec_modify_inv mx s r d f Hi) as Hi'.
    destruct (spec_modify mx s r d f) as [s' res]. cbn [fst] in Hi'. rewrite IH by exact Hi'. reflexivity.
  - unfold drain. destruct (q s) eqn:E.
    + rewrite IH by exact Hi. reflexivity.
    + rewrite IH; [reflexivity|]. destruct Hi as [H1 _]. unfold inv, len; cbn. lia.
Qed.

Lemma init_spec c : valid c -> init c = spec_init c.
Proof.
  intros (Hm & Hs & _). unfold init, spec_init, create. rewrite sanitize_clamp by lia. reflexivity.
Qed.

Theorem run_eq_spec c : valid c -> run c = spec c.
Proof.
  intros Hv. pose proof Hv as (Hm & Hs & Ho). unfold run, spec.
  rewrite <- (init_spec c Hv). f_equal. apply go_spec; [exact Ho |].
  apply create_inv; lia.
Qed.

Theorem oracle_holds c : valid c -> known c = 0 -> oracle c (run c) = true.
Proof. intros Hv _. unfold oracle. rewrite run_eq_spec by exact Hv. apply list_eqb_refl. Qed.

(* the modelled panic marker never appears: `go` only emits -2 from a Panic outcome *)
Definition to_gop (o : op) : gop (A:=Z) :=
  match o with Enq v => GEnq v | Modify r d f => GModify r d f | Drain => GDrain end.

Lemma op_ok_gop o : op_ok o -> gop_ok (to_gop o).
Proof. destruct o; cbn; tauto. Qed.

(* state reached by the correspondence model = state reached by [steps] *)
Theorem run_no_panic c : valid c ->
  exists s', steps (c_max c) (init c) (map to_gop (c_ops c)) = Done s' /\ inv (c_max c) s'.
Proof.
  intros (Hm & Hs & Ho). apply steps_inv; [ | apply create_inv; lia].
  apply Forall_forall. intros g Hg. apply in_map_iff in Hg as (o & <- & Hin).
  apply op_ok_gop. rewrite Forall_forall in Ho. auto.
Qed.

(* the pinned code before the fix: shrinking a queue that holds entries panics *)
Theorem legacy_refuted :
  exists c, valid c /\ In (-2) (legacy_run c) /\ oracle c (legacy_run c) = false.
Proof.
  exists (mk_case 10 5 true [Enq 1; Enq 2; Enq 3; Modify 2 true 0; Drain]).
  split; [|split].
  - unfold valid, U32MAX; cbn. repeat split; try lia. repeat constructor; cbn; lia.
  - vm_compute. tauto.
  - vm_compute. reflexivity.
Qed.

(* before the maximum-of-0 fix: with a configured maximum of 0 the revised size is 0 and the queue
   exceeds it at once (and grows by one entry per sample) *)
Theorem legacy_max0_refuted :
  let s := Legacy.create (A:=Z) 0 5 true in
  size s = 0 /\ len (q (enqueue (enqueue (enqueue s 1) 2) 3)) = 3.
Proof. vm_compute. split; reflexivity. Qed.

Example valid_max0 : valid (mk_case 0 5 true [Enq 1; Enq 2; Modify 3 false 0; Enq 3]).
Proof. unfold valid, U32MAX; cbn. repeat split; try lia. repeat constructor; cbn; lia. Qed.
Example run_max0 : run (mk_case 0 5 true [Enq 1; Enq 2]) = [1;1;0;0] ++ [0; 1;1;0;1; 1;0] ++ [0; 1;1;0;1; 2;0].
Proof. vm_compute. reflexivity. Qed.

Example valid_example : valid (mk_case 10 3 true [Enq 1; Enq 2; Enq 3; Enq 4; Modify 2 false 0; Enq 5; Drain]).
Proof. unfold valid, U32MAX; cbn. repeat split; try lia. repeat constructor; cbn; lia. Qed.
Example run_example :
  run (mk_case 10 3 true [Enq 1; Enq 2; Enq 3; Enq 4; Modify 2 false 0; Enq 5; Drain]) =
  [3;1;0;0] ++ [0; 3;1;0;1; 1;0] ++ [0; 3;1;0;2; 1;0;2;0] ++ [0; 3;1;0;3; 1;0;2;0;3;0]
  ++ [0; 3;1;1;3; 2;0;3;0;4;128] ++ [0; 2;0;1;2; 3;0;4;128] ++ [0; 2;0;1;2; 3;0;5;128]
  ++ [2; 3;0;5;128; 2;0;0;0].
Proof. vm_compute. reflexivity. Qed.
