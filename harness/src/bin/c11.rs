//! C11: framing is independent of how the byte stream is segmented.
//! Part A feeds a real `TcpCodec` (tokio_util `Decoder`) with `BytesMut` segments, once segment by
//! segment and once with the whole stream, and cross-checks the segmented run against a real
//! `FramedRead` over an `AsyncRead` that hands out the same segments.
//! Part B drives the real client `SendBuffer` the way `client/transport/tcp.rs::poll` does, with a
//! writer that accepts k bytes per call.
#[path = "../util.rs"]
mod util;
use util::*;

use bytes::BytesMut;
use futures::StreamExt;
use opcua::client::transport::buffer::SendBuffer;
use opcua::core::comms::chunker::Chunker;
use opcua::core::comms::secure_channel::SecureChannel;
use opcua::core::comms::tcp_codec::{Message, TcpCodec};
use opcua::core::supported_message::SupportedMessage;
use opcua::types::*;
use std::pin::Pin;
use std::task::{Context, Poll};
use tokio_util::codec::{Decoder, FramedRead};

pub enum Msg { Close(u32), Read(u32, Vec<(u16, u32)>), Big(u32) }
pub enum Case {
    Codec { mms: usize, msl: usize, segs: Vec<Vec<u8>>, kind: String },
    CodecAll { mms: usize, msl: usize, stream: Vec<u8> },
    Send { max_chunks: usize, msgs: Vec<Msg>, ks: Vec<usize> },
}
pub struct P;

// ---------------------------------------------------------------------------------------------
// Part A

fn opts(mms: usize, msl: usize) -> DecodingOptions {
    DecodingOptions { max_message_size: mms, max_string_length: msl, ..Default::default() }
}
fn ua_string(s: &UAString, out: &mut Vec<i128>) {
    match s.value() {
        None => out.push(-1),
        Some(v) => { out.push(v.len() as i128); out.extend(v.as_bytes().iter().map(|b| *b as i128)); }
    }
}
fn render(m: &Message, out: &mut Vec<i128>) {
    out.push(-20);
    match m {
        Message::Hello(h) => {
            out.extend([1, h.message_header.message_size as i128, h.protocol_version as i128, h.receive_buffer_size as i128,
                        h.send_buffer_size as i128, h.max_message_size as i128, h.max_chunk_count as i128]);
            ua_string(&h.endpoint_url, out);
        }
        Message::Acknowledge(a) => out.extend([2, a.message_header.message_size as i128, a.protocol_version as i128,
                        a.receive_buffer_size as i128, a.send_buffer_size as i128, a.max_message_size as i128, a.max_chunk_count as i128]),
        Message::Error(e) => { out.extend([3, e.message_header.message_size as i128, e.error as i128]); ua_string(&e.reason, out); }
        Message::Chunk(c) => { out.push(4); out.extend(c.data.iter().map(|b| *b as i128)); }
    }
}
fn err_class(e: &std::io::Error) -> i128 {
    let s = e.to_string();
    let of = |c: StatusCode| std::io::Error::from(c).to_string();
    if s == of(StatusCode::BadTcpMessageTooLarge) { -10 }
    else if s == of(StatusCode::BadDecodingError) { -11 }
    else if s == of(StatusCode::BadCommunicationError) { -12 }
    else { -13 }
}
/// what a framed reader does: append the segment, call decode until it wants more or fails
fn feed(mms: usize, msl: usize, segs: &[Vec<u8>]) -> Vec<i128> {
    let mut codec = TcpCodec::new(opts(mms, msl));
    let mut buf = BytesMut::new();
    let mut out = Vec::new();
    for seg in segs {
        buf.extend_from_slice(seg);
        loop {
            match guarded(|| codec.decode(&mut buf)) {
                Ok(Ok(Some(m))) => render(&m, &mut out),
                Ok(Ok(None)) => break,
                Ok(Err(e)) => { out.push(err_class(&e)); return out; }
                Err(_) => { out.push(-2); return out; }
            }
        }
    }
    out.push(-30);
    out.push(buf.len() as i128);
    out
}
struct SegReader { segs: Vec<Vec<u8>>, i: usize, off: usize }
impl tokio::io::AsyncRead for SegReader {
    fn poll_read(mut self: Pin<&mut Self>, _cx: &mut Context<'_>, buf: &mut tokio::io::ReadBuf<'_>) -> Poll<std::io::Result<()>> {
        while self.i < self.segs.len() && self.off >= self.segs[self.i].len() { self.i += 1; self.off = 0; }
        if self.i >= self.segs.len() { return Poll::Ready(Ok(())); } // EOF
        let (i, off) = (self.i, self.off);
        let n = std::cmp::min(buf.remaining(), self.segs[i].len() - off);
        buf.put_slice(&self.segs[i][off..off + n]);
        self.off += n;
        Poll::Ready(Ok(()))
    }
}
/// the same segments through tokio_util's FramedRead: frames, then the error class if the codec failed
fn framed(mms: usize, msl: usize, segs: &[Vec<u8>]) -> Vec<i128> {
    let mut fr = FramedRead::new(SegReader { segs: segs.to_vec(), i: 0, off: 0 }, TcpCodec::new(opts(mms, msl)));
    let mut out = Vec::new();
    futures::executor::block_on(async {
        while let Some(item) = fr.next().await {
            match item {
                Ok(m) => render(&m, &mut out),
                Err(e) => { let c = err_class(&e); if c != -13 { out.push(c); } break; } // -13: "bytes remaining on stream" at EOF
            }
        }
    });
    out
}

const TYPES: [&[u8; 3]; 6] = [b"HEL", b"ACK", b"ERR", b"MSG", b"OPN", b"CLO"];
fn header(t: &[u8], f: u8, size: u32) -> Vec<u8> { let mut v = t.to_vec(); v.push(f); v.extend(size.to_le_bytes()); v }
fn text(r: &mut Rng) -> (i32, Vec<u8>) {
    // (declared length, bytes present)
    match r.below(10) {
        0 => (-1, vec![]),
        1 => (0, vec![]),
        2 => { let b = "opc.tcp://h\u{e9}\u{4e16}\u{1f600}/".as_bytes().to_vec(); (b.len() as i32, b) }
        3 => { let n = 1 + r.below(6) as usize; let b = r.bytes(n); (n as i32, b) }           // mostly invalid UTF-8
        4 => { let b = vec![0xED, 0xA0 + r.below(2) as u8 * 0x1F, 0x80]; (3, b) }               // surrogate edge: ED A0 80 (bad) / ED BF 80 (bad)
        5 => (-2 - r.below(3) as i32, vec![]),
        6 => { let n = r.below(8) as usize; (n as i32 + 1 + r.below(4) as i32, vec![b'x'; n]) } // declares more than present
        _ => { let n = r.below(24) as usize; (n as i32, (0..n).map(|_| b'a' + r.below(26) as u8).collect()) }
    }
}
/// one frame's bytes; `bad` asks for a malformed one
fn frame(r: &mut Rng, mms: usize, bad: bool) -> Vec<u8> {
    let kind = r.below(6) as usize;
    let mut body: Vec<u8> = Vec::new();
    let u = |r: &mut Rng| -> u32 { match r.below(4) { 0 => 0, 1 => u32::MAX, 2 => 65536, _ => r.next() as u32 } };
    match kind {
        0 => { for _ in 0..5 { body.extend(u(r).to_le_bytes()); } let (n, b) = text(r); body.extend(n.to_le_bytes()); body.extend(b); }
        1 => { for _ in 0..5 { body.extend(u(r).to_le_bytes()); } }
        2 => { body.extend(u(r).to_le_bytes()); let (n, b) = text(r); body.extend(n.to_le_bytes()); body.extend(b); }
        _ => { let n = r.below(30) as usize; body.extend((r.below(3) as u32).to_le_bytes()); body.extend(r.bytes(n)); }
    }
    let fin = if kind >= 3 { *r.pick(&[b'F', b'F', b'C', b'A']) } else { b'F' };
    let size = 8 + body.len() as u32;
    let mut v = header(TYPES[kind], fin, size);
    v.extend(body);
    if bad {
        match r.below(9) {
            0 => { v[r.below(3) as usize] ^= 0x20; }                           // unknown type code
            1 => { v[3] = *r.pick(&[b'C', b'A', b'X', b'f', 0]); }             // final flag not allowed for the type
            2 => { let s = r.below(12) as u32; v[4..8].copy_from_slice(&s.to_le_bytes()); }           // size 0..11
            3 => { let s = size.saturating_sub(1 + r.below(6) as u32); v[4..8].copy_from_slice(&s.to_le_bytes()); } // cuts fields
            4 => { let s = size + 1 + r.below(20) as u32; v[4..8].copy_from_slice(&s.to_le_bytes()); } // swallows following bytes
            5 => { let s = if mms > 0 { mms as u32 + 1 + r.below(2) as u32 } else { u32::MAX }; v[4..8].copy_from_slice(&s.to_le_bytes()); }
            6 => { let s = *r.pick(&[u32::MAX, 0x8000_0000, 0x7FFF_FFFF, 1 << 24]); v[4..8].copy_from_slice(&s.to_le_bytes()); }
            7 => { if mms > 0 { let s = mms as u32; v[4..8].copy_from_slice(&s.to_le_bytes()); } }    // exactly the maximum
            _ => { let n = v.len(); v.truncate(1 + r.below(n as u64) as usize); }                     // truncated (only sensible last)
        }
    }
    v
}
fn cuts_to_segs(stream: &[u8], cuts: &[usize]) -> Vec<Vec<u8>> {
    // cuts: sorted positions in 1..len-1 (duplicates give empty segments)
    let mut segs = Vec::new();
    let mut at = 0;
    for &c in cuts { let c = c.min(stream.len()); segs.push(stream[at..c.max(at)].to_vec()); at = c.max(at); }
    segs.push(stream[at..].to_vec());
    segs
}
/// every segmentation of the stream into non-empty reads against the whole stream, in one case
fn exec_all(mms: usize, msl: usize, stream: &[u8]) -> Out {
    let whole = feed(mms, msl, &[stream.to_vec()]);
    let n = stream.len();
    let total: u64 = if n == 0 { 1 } else { 1u64 << (n - 1) };
    let mut ndiff = 0u64;
    let mut framed_bad = false;
    for mask in 0..total {
        let cuts: Vec<usize> = (1..n).filter(|i| mask >> (i - 1) & 1 == 1).collect();
        let segs = if n == 0 { vec![] } else { cuts_to_segs(stream, &cuts) };
        let a = feed(mms, msl, &segs);
        if a != whole { ndiff += 1; }
        let f = framed(mms, msl, &segs);
        let a_frames: &[i128] = if a.len() >= 2 && a[a.len() - 2] == -30 { &a[..a.len() - 2] } else { &a[..] };
        if f != a_frames { framed_bad = true; }
    }
    let mut out = whole.clone();
    out.extend([-7, total as i128, ndiff as i128]);
    if framed_bad { out.push(-99); }
    let status = match whole.last() { Some(-10) => "toolarge", Some(-11) => "decerr", Some(-12) => "commerr", _ => if whole[whole.len() - 1] > 0 { "residue" } else { "clean" } };
    let tag = format!("codec-allseg-n{}-{}frames-{}", n, whole.iter().filter(|x| **x == -20).count(), status);
    Out { tag, term: format!("(CodecAll {} {} {})", mms, msl, zbytes(stream)), out }
}
fn all_segmentations(mms: usize, msl: usize, stream: &[u8], kind: &str, v: &mut Vec<Case>) {
    let n = stream.len();
    for mask in 0u32..(1u32 << (n - 1)) {
        let cuts: Vec<usize> = (1..n).filter(|i| mask >> (i - 1) & 1 == 1).collect();
        v.push(Case::Codec { mms, msl, segs: cuts_to_segs(stream, &cuts), kind: kind.to_string() });
    }
}
fn hel(url: &str) -> Vec<u8> {
    let mut b = Vec::new();
    for x in [0u32, 65536, 65536, 0, 0] { b.extend(x.to_le_bytes()); }
    b.extend((url.len() as i32).to_le_bytes()); b.extend(url.as_bytes());
    let mut v = header(b"HEL", b'F', 8 + b.len() as u32); v.extend(b); v
}
fn chunk(t: &[u8; 3], f: u8, payload: &[u8]) -> Vec<u8> {
    let mut v = header(t, f, 12 + payload.len() as u32); v.extend(7u32.to_le_bytes()); v.extend(payload); v
}

// ---------------------------------------------------------------------------------------------
// Part B

fn message(m: &Msg) -> (u32, SupportedMessage) {
    match m {
        Msg::Close(h) => (*h, CloseSecureChannelRequest { request_header: RequestHeader::new(&NodeId::null(), &DateTime::null(), *h) }.into()),
        Msg::Read(h, nodes) => (*h, ReadRequest {
            request_header: RequestHeader::new(&NodeId::null(), &DateTime::null(), *h),
            max_age: 0.0, timestamps_to_return: TimestampsToReturn::Both,
            nodes_to_read: Some(nodes.iter().map(|(ns, i)| ReadValueId { node_id: NodeId::new(*ns, *i), attribute_id: 13, ..Default::default() }).collect()),
        }.into()),
        Msg::Big(h) => (*h, ReadRequest {
            request_header: RequestHeader::new(&NodeId::null(), &DateTime::null(), *h),
            max_age: 0.0, timestamps_to_return: TimestampsToReturn::Both,
            nodes_to_read: Some((0..700u32).map(|i| ReadValueId { node_id: NodeId::new(1, i), attribute_id: 13, ..Default::default() }).collect()),
        }.into()),
    }
}
struct KWriter { data: Vec<u8>, limit: usize }
impl tokio::io::AsyncWrite for KWriter {
    fn poll_write(mut self: Pin<&mut Self>, _cx: &mut Context<'_>, buf: &[u8]) -> Poll<std::io::Result<usize>> {
        let n = std::cmp::min(self.limit, buf.len());
        self.data.extend_from_slice(&buf[..n]);
        Poll::Ready(Ok(n))
    }
    fn poll_flush(self: Pin<&mut Self>, _cx: &mut Context<'_>) -> Poll<std::io::Result<()>> { Poll::Ready(Ok(())) }
    fn poll_shutdown(self: Pin<&mut Self>, _cx: &mut Context<'_>) -> Poll<std::io::Result<()>> { Poll::Ready(Ok(())) }
}
fn sc_err(e: StatusCode) -> i128 {
    if e == StatusCode::BadInvalidState { -40 } else if e == StatusCode::BadCommunicationError { -41 } else { -49 }
}
const SEND_BUFFER_SIZE: usize = 8196;
fn exec_send(max_chunks: usize, msgs: &[Msg], ks: &[usize]) -> Out {
    let sc = SecureChannel::new(
        std::sync::Arc::new(opcua::sync::RwLock::new(opcua::crypto::CertificateStore::new(std::path::Path::new("/nonexistent/pki")))),
        opcua::core::comms::secure_channel::Role::Client, DecodingOptions::default());
    // the secured chunks, computed independently of the SendBuffer by the same Chunker call
    let mut seq = 0u32;
    let mut expected: Vec<Vec<Vec<u8>>> = Vec::new();
    for m in msgs {
        let (h, sm) = message(m);
        let cs = Chunker::encode(seq + 1, h, 0, SEND_BUFFER_SIZE, &sc, &sm).expect("chunker");
        if !(max_chunks > 0 && cs.len() > max_chunks) { seq += cs.len() as u32; }
        expected.push(cs.into_iter().map(|c| c.data).collect());
    }
    let mut sb = SendBuffer::new(SEND_BUFFER_SIZE, 0, max_chunks);
    let mut w = KWriter { data: Vec::new(), limit: 0 };
    let mut ki = 0;
    let mut mi = 0;
    // client/transport/tcp.rs::poll: encode if the buffer is free, write if there is something to
    // write, otherwise take the next outgoing message
    let end: i128 = loop {
        if sb.should_encode_chunks() {
            if let Err(e) = sb.encode_next_chunk(&sc) { break sc_err(e); }
        }
        if sb.can_read() {
            if ki >= ks.len() { break -3; }
            w.limit = ks[ki];
            ki += 1;
            match guarded(|| futures::executor::block_on(sb.read_into_async(&mut w))) {
                Ok(Ok(())) => {}
                Ok(Err(_)) => break -48,
                Err(_) => break -2,
            }
        } else {
            if mi >= msgs.len() { break -1; }
            let (h, sm) = message(&msgs[mi]);
            mi += 1;
            if let Err(e) = sb.write(h, sm, &sc) { break sc_err(e); }
        }
    };
    let mut out: Vec<i128> = w.data.iter().map(|b| *b as i128).collect();
    out.push(end);
    let total: usize = expected.iter().flatten().map(|c| c.len()).sum();
    let nch: usize = expected.iter().map(|m| m.len()).sum();
    let tag = format!("send-{}msg-{}chunks-{}-{}", msgs.len(), nch,
        if ks.iter().all(|k| *k >= SEND_BUFFER_SIZE) { "fullwrites" } else if ks.iter().any(|k| *k == 0) { "partial+zero" } else { "partial" },
        match end { -1 => "complete", -3 => "writes-exhausted", _ => "refused" });
    let _ = total;
    let term = format!("(Send {} {} {})", max_chunks,
        coq_list(&expected, |m| coq_list(m, |c| zbytes(c))), zlist(ks.iter().map(|k| *k as i128)));
    Out { tag, term, out }
}

impl Property for P {
    type Case = Case;
    fn fixed(tier: &str) -> Vec<Case> {
        let mut v = Vec::new();
        let three: Vec<u8> = [hel("opc.tcp://localhost:4855/"), chunk(b"OPN", b'F', b"0123456789"), chunk(b"MSG", b'C', b"ab"), chunk(b"MSG", b'F', b""), chunk(b"CLO", b'F', b"zz")].concat();
        let codec = |mms, msl, segs: Vec<Vec<u8>>, kind: &str| Case::Codec { mms, msl, segs, kind: kind.to_string() };
        // whole, per byte, per frame
        v.push(codec(65536, 4096, vec![three.clone()], "whole"));
        v.push(codec(65536, 4096, three.iter().map(|b| vec![*b]).collect(), "bytes"));
        v.push(codec(0, 4096, cuts_to_segs(&three, &[57, 79, 93, 105]), "frames"));
        v.push(codec(0, 4096, cuts_to_segs(&three, &[8, 9, 56, 58, 58, 65]), "hdr-edges"));
        // declared size above the maximum: refused as soon as the header is in (before the fix: waited)
        let mut big = header(b"MSG", b'F', 65537); big.extend([0u8; 20]);
        v.push(codec(65536, 4096, vec![big.clone()], "toolarge"));
        v.push(codec(65536, 4096, cuts_to_segs(&big, &[4, 9]), "toolarge"));
        let mut hbig = header(b"HEL", b'F', u32::MAX); hbig.extend([1u8; 3]);
        v.push(codec(100, 4096, cuts_to_segs(&hbig, &[8]), "toolarge"));
        // exactly the maximum is accepted
        let ex = chunk(b"MSG", b'F', &[9u8; 52]);
        v.push(codec(64, 16, cuts_to_segs(&ex, &[1, 63]), "atmax"));
        // sizes below the header length, bad type, bad flag
        for s in [0u32, 4, 8, 9, 11] { let mut b = header(b"MSG", b'F', s); b.extend([5u8; 6]); v.push(codec(0, 16, cuts_to_segs(&b, &[3, 8, 9]), "smallsize")); }
        let mut b = header(b"HEL", b'C', 32); b.extend([0u8; 24]); v.push(codec(0, 16, cuts_to_segs(&b, &[10]), "badflag"));
        let mut b = header(b"XYZ", b'F', 12); b.extend([0u8; 4]); v.push(codec(0, 16, cuts_to_segs(&b, &[10]), "badtype"));
        // string limits and UTF-8
        v.push(codec(0, 5, vec![hel("123456")], "strlimit"));
        v.push(codec(0, 6, vec![hel("123456")], "strlimit"));
        let mut e = header(b"ERR", b'F', 8 + 4 + 4 + 3); e.extend(0x8001_0000u32.to_le_bytes()); e.extend(3i32.to_le_bytes()); e.extend([0xED, 0xA0, 0x80]);
        v.push(codec(0, 16, cuts_to_segs(&e, &[17]), "utf8"));
        // all one-cut segmentations of the five-frame stream
        for c in 1..three.len() { v.push(codec(65536, 4096, cuts_to_segs(&three, &[c]), "1cut")); }
        // all segmentations of short streams
        let mut s12 = chunk(b"MSG", b'F', b""); s12.extend(b"E");                       // 13 bytes
        // one case per segmentation (the model is evaluated on each): all of a 10-byte prefix in the quick
        // tier, of 12..14-byte streams in the thorough tier; the CodecAll cases below cover all
        // segmentations of 12..14 (thorough: 17) byte streams in one case each
        let n = if tier == "thorough" { 13 } else { 10 };
        all_segmentations(64, 16, &s12[..n], "all-seg", &mut v);
        if tier == "thorough" {
            let mut s14 = chunk(b"CLO", b'A', b""); s14.extend(b"HE");                   // 14 bytes: a frame and the start of the next
            all_segmentations(0, 16, &s14, "all-seg", &mut v);
            let mut sbad = header(b"OPN", b'F', 10); sbad.extend([1u8; 5]);              // 13 bytes: declared size 10 < chunk header
            all_segmentations(0, 16, &sbad, "all-seg", &mut v);
            let mut sbig = header(b"ACK", b'F', 65); sbig.extend([1u8; 4]);              // 12 bytes: over the maximum of 64
            all_segmentations(64, 16, &sbig, "all-seg", &mut v);
            for a in 1..three.len() { for b in a..three.len() { if (a + b) % 3 == 0 { v.push(codec(65536, 4096, cuts_to_segs(&three, &[a, b]), "2cut")); } } }
        }
        // every segmentation at once (one case each): a frame and the start of the next, a chunk with
        // one payload byte, a declared size below the chunk header, a size over the maximum, an
        // incomplete ERR, an ERR that ends inside its string, a bad type code
        let call = |mms, msl, stream: Vec<u8>| Case::CodecAll { mms, msl, stream };
        let mut s14 = chunk(b"CLO", b'A', b""); s14.extend(b"HE");
        v.push(call(0, 16, s14.clone()));
        let mut c13 = chunk(b"MSG", b'F', &[1]); c13.push(b'M');
        v.push(call(64, 16, c13));
        let mut sbad = header(b"OPN", b'F', 10); sbad.extend([1u8; 5]);
        v.push(call(0, 16, sbad.clone()));
        let mut sbig = header(b"ACK", b'F', 65); sbig.extend([1u8; 4]);
        v.push(call(64, 16, sbig.clone()));
        let mut e14 = header(b"ERR", b'F', 16); e14.extend([2u8; 6]);
        v.push(call(0, 16, e14));
        let mut e9 = header(b"ERR", b'F', 9); e9.extend([3u8; 5]);
        v.push(call(0, 16, e9));
        let mut x12 = header(b"XYZ", b'F', 12); x12.extend([0u8; 5]);
        v.push(call(0, 16, x12));
        if tier == "thorough" {
            // a complete ERR frame (null reason) and one byte more: 2^15 and 2^16 segmentations
            let mut e16 = header(b"ERR", b'F', 16); e16.extend(0x8001_0000u32.to_le_bytes()); e16.extend((-1i32).to_le_bytes());
            v.push(call(0, 16, e16.clone()));
            e16.push(b'H');
            v.push(call(64, 16, e16));
            let mut two = chunk(b"MSG", b'C', b""); two.extend(header(b"MSG", b'F', 12));   // a frame and most of the next: 20 bytes would be 2^19, keep 17
            two.truncate(17);
            v.push(call(0, 16, two));
        }
        // ---- SendBuffer
        let send = |mc, msgs, ks| Case::Send { max_chunks: mc, msgs, ks };
        v.push(send(5, vec![Msg::Close(1)], vec![100000]));
        v.push(send(5, vec![Msg::Close(1)], vec![1; 80]));
        v.push(send(5, vec![Msg::Close(1), Msg::Read(2, vec![(1, 1), (2, 70000)])], vec![10, 0, 50, 3, 0, 0, 1000, 2, 1000]));
        v.push(send(5, vec![Msg::Read(7, vec![]), Msg::Close(8)], vec![56, 1, 57]));     // runs out of writes
        v.push(send(0, vec![], vec![5]));
        v.push(send(5, vec![Msg::Close(1)], vec![]));
        // a real two-chunk message (chunk order matters) in half-buffer writes, as the unit test does
        v.push(send(5, vec![Msg::Big(2), Msg::Close(3)], vec![4098; 8]));
        if tier == "thorough" {
            // a real multi-chunk message in half-buffer writes (the unit test's single schedule) and odd sizes
            v.push(send(1, vec![Msg::Close(1), Msg::Big(2), Msg::Close(3)], vec![100000; 5])); // 2-chunk message over a limit of 1: refused
            v.push(send(0, vec![Msg::Close(1), Msg::Big(2)], vec![8195, 1, 1, 8196, 5000, 0, 5000]));
        }
        v
    }
    fn gen(r: &mut Rng) -> Case {
        if r.chance(1, 4) {
            let nm = 1 + r.below(4) as usize;
            let msgs: Vec<Msg> = (0..nm).map(|i| if r.chance(1, 3) { Msg::Close(i as u32 + 1) } else {
                let n = r.below(5) as usize;
                Msg::Read(r.next() as u32, (0..n).map(|_| (r.below(3) as u16, if r.chance(1, 2) { r.below(200) as u32 } else { r.next() as u32 })).collect())
            }).collect();
            let nk = r.below(40) as usize + if r.chance(1, 5) { 0 } else { 12 };
            let style = r.below(4);
            let ks: Vec<usize> = (0..nk).map(|_| match style {
                0 => 1 + r.below(3) as usize,
                1 => *r.pick(&[0usize, 1, 2, 7, 16, 50, 100, 8196, 100000]),
                2 => 40 + r.below(40) as usize,
                _ => if r.chance(1, 3) { 0 } else { r.below(120) as usize },
            }).collect();
            return Case::Send { max_chunks: *r.pick(&[0usize, 1, 5]), msgs, ks };
        }
        let mms = *r.pick(&[0usize, 64, 100, 65536]);
        let msl = *r.pick(&[0usize, 5, 16, 65535]);
        let nf = 1 + r.below(5) as usize;
        let malformed = r.chance(1, 3);
        let badat = r.below(nf as u64) as usize;
        let mut stream = Vec::new();
        let mut bounds = Vec::new();
        for i in 0..nf {
            stream.extend(frame(r, mms, malformed && i == badat));
            bounds.push(stream.len());
        }
        if r.chance(1, 6) { let n = stream.len(); stream.truncate(n - r.below(std::cmp::min(n, 12) as u64) as usize); }
        if stream.is_empty() { stream.push(b'M'); }
        if r.chance(1, 12) {
            // every segmentation of a short stream: a 12..13 byte chunk frame, sometimes damaged, and
            // the first bytes of what follows
            let t = *r.pick(&[b"MSG", b"OPN", b"CLO"]);
            let npl = r.below(2) as usize;
            let pl = r.bytes(npl);
            let mut st = chunk(t, *r.pick(&[b'F', b'C', b'A']), &pl);
            match r.below(8) {
                0 => { st[r.below(4) as usize] ^= 0x20; }
                1 => { let sz = r.below(16) as u32; st[4..8].copy_from_slice(&sz.to_le_bytes()); }
                2 => { let sz = if mms > 0 { mms as u32 + r.below(2) as u32 } else { u32::MAX }; st[4..8].copy_from_slice(&sz.to_le_bytes()); }
                _ => {}
            }
            let tail = [b"HELF".to_vec(), b"MSGF".to_vec(), r.bytes(4)].concat();
            let extra = r.below(3) as usize;
            let off = r.below(9) as usize;
            st.extend(&tail[off..off + extra]);
            st.truncate(14);
            return Case::CodecAll { mms, msl, stream: st };
        }
        let n = stream.len();
        let (kind, cuts): (&str, Vec<usize>) = match r.below(6) {
            0 => ("bytes", (1..n).collect()),
            1 => ("frames", bounds.iter().cloned().filter(|b| *b > 0 && *b < n).collect()),
            2 => ("near-frames", { let mut c: Vec<usize> = bounds.iter().map(|b| (*b as i64 + r.range(-2, 9)).clamp(0, n as i64) as usize).collect(); c.sort(); c }),
            3 => ("two", { let mut c = vec![r.below(n as u64 + 1) as usize, r.below(n as u64 + 1) as usize]; c.sort(); c }),
            4 => ("dense", (1..n).filter(|_| r.chance(1, 2)).collect()),
            _ => ("sparse", (1..n).filter(|_| r.chance(1, 9)).collect()),
        };
        Case::Codec { mms, msl, segs: cuts_to_segs(&stream, &cuts), kind: kind.to_string() }
    }
    fn exec(c: &Case) -> Out {
        match c {
            Case::Send { max_chunks, msgs, ks } => exec_send(*max_chunks, msgs, ks),
            Case::CodecAll { mms, msl, stream } => exec_all(*mms, *msl, stream),
            Case::Codec { mms, msl, segs, kind } => {
                let a = feed(*mms, *msl, segs);
                let whole: Vec<u8> = segs.concat();
                let b = feed(*mms, *msl, &[whole]);
                // the real FramedRead must deliver the same frames (and codec error) as the manual loop
                let f = framed(*mms, *msl, segs);
                let a_frames: &[i128] = if a.len() >= 2 && a[a.len() - 2] == -30 { &a[..a.len() - 2] } else { &a[..] };
                // SAME + the segmented result when feeding the whole stream gives the identical result,
                // else DIFF, segmented, separator, whole; -99 if the real FramedRead disagreed
                let mut out: Vec<i128> = vec![if a == b { -8 } else { -9 }];
                out.extend(a.iter());
                if f != a_frames { out.push(-99); }
                if a != b { out.push(-7); out.extend(b.iter()); }
                let nframes = b.iter().filter(|x| **x == -20).count();
                let status = match b.last() { Some(-10) => "toolarge", Some(-11) => "decerr", Some(-12) => "commerr", Some(-2) => "panic",
                    _ => if b.len() >= 2 && b[b.len() - 1] > 0 { "residue" } else { "clean" } };
                let tag = format!("codec-{}frames-{}-{}", nframes, status, kind);
                let term = format!("(Codec {} {} {})", mms, msl, coq_list(segs, |s| zbytes(s)));
                Out { tag, term, out }
            }
        }
    }
}
fn main() { run_main::<P>() }
