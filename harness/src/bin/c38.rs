//! C38: lock order.  (1) A live loopback server and the real client run a workload (session,
//! read, write, browse, subscription with monitored items, method calls, publish traffic,
//! disconnect) with the recorder hook in the trace_*lock! macros on; every observed
//! (held site -> acquired site) pair is mapped to lock classes with the site table the translator
//! wrote (.cache/c38_sites.json) and printed as a case.  (2) The recorded inversion is exhibited on
//! two real threads: the real Call service (ResendData) against a thread taking a session and
//! the address space in the order of the subscription timer task.
#[path = "../util.rs"]
mod util;
use util::*;
use opcua::client::{ClientBuilder, DataChangeCallback, IdentityToken};
use opcua::server::prelude::*;
use opcua::server::services::method::verif_call;
use opcua::server::session::{Session as ServerSession, SessionManager};
use opcua::sync::RwLock;
use std::collections::BTreeSet;
use std::sync::Arc;
use std::time::Duration;

pub enum Case { Edge(i128, i128, String), Demo(i128) }
pub struct P;

fn port() -> u16 { 42000 + (std::process::id() % 20000) as u16 }

fn new_server(port: u16) -> Server {
    let ids = vec![ANONYMOUS_USER_TOKEN_ID.to_string()];
    let server = ServerBuilder::new()
        .application_name("verif").application_uri("urn:verif")
        .discovery_urls(vec![format!("opc.tcp://127.0.0.1:{}/", port)])
        .create_sample_keypair(false).pki_dir(format!("/tmp/verif-c38-pki-{}", std::process::id()))
        .discovery_server_url(None).host_and_port("127.0.0.1", port)
        .endpoint("none", ServerEndpoint::new_none("/", &ids))
        .server().unwrap();
    {
        let address_space = server.address_space();
        let mut address_space = address_space.write();
        let folder = address_space.add_folder("Sample", "Sample", &NodeId::objects_folder_id()).unwrap();
        for i in 0..4 {
            let id = NodeId::new(2, format!("v{}", i));
            VariableBuilder::new(&id, format!("v{}", i), format!("v{}", i)).data_type(DataTypeId::Int32).value(0i32).writable().organized_by(&folder).insert(&mut address_space);
        }
    }
    server
}

async fn workload(port: u16) -> Result<(), StatusCode> {
    let mut client = ClientBuilder::new().application_name("verifc").application_uri("urn:verifc")
        .pki_dir(format!("/tmp/verif-c38-pkic-{}", std::process::id())).create_sample_keypair(false).trust_server_certs(true)
        .session_retry_limit(1).client().unwrap();
    let endpoint: EndpointDescription = (format!("opc.tcp://127.0.0.1:{}/", port).as_str(), "None", MessageSecurityMode::None, UserTokenPolicy::anonymous()).into();
    let (session, event_loop) = client.new_session_from_endpoint(endpoint, IdentityToken::Anonymous).await?;
    let handle = event_loop.spawn();
    session.wait_for_connection().await;
    let v0 = NodeId::new(2, "v0");
    let _ = session.read(&[v0.clone().into()], TimestampsToReturn::Both, 0.0).await?;
    let _ = session.write(&[WriteValue { node_id: v0.clone(), attribute_id: AttributeId::Value as u32, index_range: UAString::null(), value: Variant::Int32(1).into() }]).await?;
    let _ = session.browse(&[BrowseDescription { node_id: ObjectId::ObjectsFolder.into(), browse_direction: BrowseDirection::Forward,
        reference_type_id: ReferenceTypeId::HierarchicalReferences.into(), include_subtypes: true, node_class_mask: 0, result_mask: 0x3f }]).await?;
    let sub = session.create_subscription(Duration::from_millis(100), 30, 10, 0, 0, true, DataChangeCallback::new(|_, _| {})).await?;
    let items: Vec<MonitoredItemCreateRequest> = (0..3).map(|i| NodeId::new(2, format!("v{}", i)).into()).collect();
    let _ = session.create_monitored_items(sub, TimestampsToReturn::Both, items).await?;
    for k in 0..4 {
        let _ = session.write(&[WriteValue { node_id: v0.clone(), attribute_id: AttributeId::Value as u32, index_range: UAString::null(), value: Variant::Int32(10 + k).into() }]).await?;
        tokio::time::sleep(Duration::from_millis(150)).await;
    }
    let resend: NodeId = MethodId::Server_ResendData.into();
    let getmon: NodeId = MethodId::Server_GetMonitoredItems.into();
    let server_obj: NodeId = ObjectId::Server.into();
    let _ = session.call((server_obj.clone(), resend, Some(vec![Variant::UInt32(sub)]))).await;
    let _ = session.call((server_obj, getmon, Some(vec![Variant::UInt32(sub)]))).await;
    tokio::time::sleep(Duration::from_millis(250)).await;
    let _ = session.delete_subscription(sub).await;
    let _ = session.disconnect().await;
    let _ = tokio::time::timeout(Duration::from_secs(3), handle).await;
    // a second connection that opens a session with a subscription and then simply goes away (no CloseSession, the
    // socket is dropped): the server tears the connection down with the session still registered.  (This runs after
    // the first session has been closed: TcpTransport::finish clears the server-wide session manager, so the end of
    // ANY connection terminates the sessions of ALL connections -- see DESIGN.md 11.7.)
    {
        let endpoint2: EndpointDescription = (format!("opc.tcp://127.0.0.1:{}/", port).as_str(), "None", MessageSecurityMode::None, UserTokenPolicy::anonymous()).into();
        if let Ok((session2, event_loop2)) = client.new_session_from_endpoint(endpoint2, IdentityToken::Anonymous).await {
            let handle2 = event_loop2.spawn();
            let _ = tokio::time::timeout(Duration::from_secs(20), session2.wait_for_connection()).await;
            let _ = session2.read(&[v0.clone().into()], TimestampsToReturn::Both, 0.0).await;
            if let Ok(sub2) = session2.create_subscription(Duration::from_millis(100), 30, 10, 0, 0, true, DataChangeCallback::new(|_, _| {})).await {
                let items2: Vec<MonitoredItemCreateRequest> = vec![NodeId::new(2, "v1").into()];
                let _ = session2.create_monitored_items(sub2, TimestampsToReturn::Both, items2).await;
            }
            tokio::time::sleep(Duration::from_millis(200)).await;
            handle2.abort();
            drop(session2);
            tokio::time::sleep(Duration::from_millis(600)).await;
        }
    }
    Ok(())
}

fn observe() -> Vec<Case> {
    let port = port();
    let rt = tokio::runtime::Builder::new_multi_thread().worker_threads(4).enable_all().build().unwrap();
    let server = Arc::new(RwLock::new(new_server(port)));
    let s2 = server.clone();
    rt.spawn(async move { Server::new_server_task(s2).await; });
    // a busy machine must not be mistaken for a broken server: three patient attempts
    let mut ok = false;
    for _ in 0..3 {
        let r = rt.block_on(async {
            tokio::time::sleep(Duration::from_millis(400)).await;
            tokio::time::timeout(Duration::from_secs(120), workload(port)).await
        });
        if matches!(r, Ok(Ok(()))) { ok = true; break; }
        eprintln!("c38 workload attempt failed: {:?}", r);
    }
    { let mut s = server.write(); s.abort(); }
    rt.block_on(async { tokio::time::sleep(Duration::from_millis(1500)).await; });
    rt.shutdown_timeout(Duration::from_secs(2));
    // map sites to classes with the translator's table
    let table: serde_json::Value = serde_json::from_str(&std::fs::read_to_string(".cache/c38_sites.json").unwrap_or_else(|_| "{}".into())).unwrap_or_default();
    let class_of = |file: &str, line: u32| -> (i128, String) {
        let rel = file.rsplit("lib/src/").next().unwrap_or(file);
        let key = format!("{}:{}", rel, line);
        match table["sites"].get(&key).and_then(|c| c.as_str()) {
            Some(c) => (table["classes"][c].as_i64().unwrap_or(0) as i128, c.to_string()),
            None => (0, format!("unknown-site {}", key)),
        }
    };
    let mut set = BTreeSet::new();
    for ((_, f1, l1), (_, f2, l2)) in opcua::verif_locks::edges() {
        if !f1.contains("/server/") && !f1.contains("/core/") { continue; }       // client-side locks are not part of C38
        if !f2.contains("/server/") && !f2.contains("/core/") { continue; }
        let (a, an) = class_of(f1, l1); let (b, bn) = class_of(f2, l2);
        set.insert((a, b, format!("{}->{} [{}:{} -> {}:{}]", an, bn, f1.rsplit("lib/src/").next().unwrap_or(f1), l1, f2.rsplit("lib/src/").next().unwrap_or(f2), l2)));
    }
    let mut seen = BTreeSet::new();
    let mut v: Vec<Case> = set.into_iter().filter(|(a, b, _)| seen.insert((*a, *b))).map(|(a, b, n)| Case::Edge(a, b, n)).collect();
    if !ok { v.push(Case::Edge(-1, -1, "workload-failed".into())); }
    v
}

/// two real threads: the Call service (ResendData) vs. the lock order of the subscription timer task
fn demo() -> i128 {
    let server = new_server(port() + 1);
    let server_state = server.server_state();
    let address_space = server.address_space();
    let session = Arc::new(RwLock::new(ServerSession::new(server_state.clone())));
    let session_id = session.read().session_id().clone();
    let session_manager = Arc::new(RwLock::new(SessionManager::default()));
    session_manager.write().register_session(session.clone());
    let (tx, rx) = std::sync::mpsc::channel::<()>();
    // thread B: timer-task order: session (write) then address space (read)
    let guard = session.write();
    let (sst, sm, asp, sid) = (server_state.clone(), session_manager.clone(), address_space.clone(), session_id.clone());
    // thread A: the real Call service: address space (write), then ResendData locks the session
    let a = std::thread::spawn(move || {
        let request = CallRequest { request_header: RequestHeader::dummy(), methods_to_call: Some(vec![CallMethodRequest {
            object_id: ObjectId::Server.into(), method_id: MethodId::Server_ResendData.into(), input_arguments: Some(vec![Variant::UInt32(1)]) }]) };
        let _ = verif_call(sst, &sid, sm, asp, &request);
        let _ = tx.send(());
    });
    std::thread::sleep(Duration::from_millis(400));
    // A now holds the address space and waits for the session; B holds the session and asks for the address space
    let b_blocked = address_space.try_read_for(Duration::from_millis(600)).is_none();
    let a_blocked = rx.try_recv().is_err();
    drop(guard);
    let _ = a.join();
    (a_blocked && b_blocked) as i128
}

impl Property for P {
    type Case = Case;
    fn fixed(_tier: &str) -> Vec<Case> {
        let mut v = observe();
        v.push(Case::Demo(1));
        v
    }
    fn gen(_r: &mut Rng) -> Case { Case::Demo(0) }
    fn exec(c: &Case) -> Out {
        match c {
            Case::Edge(a, b, n) => Out { tag: format!("observed {}", n), term: format!("(Edge {} {})", z(*a), z(*b)), out: vec![1] },
            Case::Demo(1) => { let r = guarded(demo).unwrap_or(-2); Out { tag: "demo-two-threads".into(), term: "(Demo 1)".into(), out: vec![r] } }
            Case::Demo(k) => Out { tag: "trivial-demo".into(), term: format!("(Demo {})", k), out: vec![0] },
        }
    }
}
fn main() { run_main::<P>() }
