(* C02 — Decoding arbitrary bytes never panics, overflows the stack or over-allocates.  Statements only. *)
From Coq Require Import List ZArith.
Import ListNotations.
From OV Require Import C01.Codec C01.Builtins C01.Types C02.Model.
Open Scope Z_scope.

(* before "fix: DataValue and DiagnosticInfo decoding recursed without a depth check": 200 inner
   DiagnosticInfo masks are decoded 201 levels deep under the default options (max_depth 10) *)
Theorem C02_legacy_refuted :
  let o := mk_opts 65535 65535 1000 327675 10 0 in
  st_depth (snd (Legacy.dec_diag o 300 (repeat 64 200 ++ [0]))) = 201.
Proof. vm_compute. reflexivity. Qed.
Print Assumptions C02_legacy_refuted.
