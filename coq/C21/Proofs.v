From Coq Require Import List ZArith Bool Lia.
Import ListNotations.
From OV Require Import C21.SysLemmas C21.Model.
Open Scope Z_scope.

(* 0: the design-round history *)
Definition witness_drop : case :=
  mk_case 1 [OCreateSub 0 1000 3 30 true; OCreateItem 1 0 2 (-1) 10 true; OTick 0;
             OWrite 0 10; OTick 1000; OWrite 0 11; OTick 1000; OPublish 0 0 []; OPublish 0 0 []; OTick 1000].
Definition witness_expiry : case :=
  mk_case 1 [OCreateSub 0 1000 1 3 true; OCreateItem 1 0 2 (-1) 2 true; OTick 0;
             OWrite 0 10; OTick 1000; OWrite 0 11; OTick 1000; OWrite 0 12; OTick 1000; OWrite 0 13; OTick 1000].

Lemma legacy_refuted : oracle witness_drop (Legacy.run witness_drop) = false.
Proof. vm_compute. reflexivity. Qed.
Lemma legacy_expiry_refuted : oracle witness_expiry (LegacyExpiry.run witness_expiry) = false.
Proof. vm_compute. reflexivity. Qed.
Example witness_drop_ok : oracle witness_drop (run witness_drop) = true.
Proof. vm_compute. reflexivity. Qed.
Example witness_expiry_ok : oracle witness_expiry (run witness_expiry) = true.
Proof. vm_compute. reflexivity. Qed.
