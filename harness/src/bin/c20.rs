//! C20: session activation authenticates the user exactly as configured.
//! Histories of ActivateSession requests through the real SessionService (hooks
//! `verif_create_session` / `verif_activate_session`) on a real ServerState whose endpoints and
//! user tokens are replaced per case; real RSA for encrypted passwords, X.509 token signatures
//! and the client signature; replays re-send the very bytes of an earlier step.
#[path = "../util.rs"]
mod util;
use util::*;
use opcua::core::comms::secure_channel::{Role, SecureChannel};
use opcua::core::supported_message::SupportedMessage;
use opcua::crypto::{self, x509::X509Data, CertificateStore, PrivateKey, RsaPadding, SecurityPolicy, X509};
use opcua::server::address_space::AddressSpace;
use opcua::server::builder::ServerBuilder;
use opcua::server::config::{ServerEndpoint, ServerUserToken, ANONYMOUS_USER_TOKEN_ID};
use opcua::server::services::session::{verif_activate_session, verif_create_session};
use opcua::server::state::ServerState;
use opcua::sync::RwLock;
use opcua::types::*;
use std::collections::BTreeMap;
use std::sync::{Arc, OnceLock};

const SPOL: [(SecurityPolicy, &str); 6] = [(SecurityPolicy::None, "PNone"), (SecurityPolicy::Basic128Rsa15, "PBasic128Rsa15"), (SecurityPolicy::Basic256, "PBasic256"),
    (SecurityPolicy::Basic256Sha256, "PBasic256Sha256"), (SecurityPolicy::Aes128Sha256RsaOaep, "PAes128"), (SecurityPolicy::Aes256Sha256RsaPss, "PAes256")];
const MODES: [MessageSecurityMode; 4] = [MessageSecurityMode::Invalid, MessageSecurityMode::None, MessageSecurityMode::Sign, MessageSecurityMode::SignAndEncrypt];
const PATHS: [&str; 3] = ["/", "/a", "/b"];
const NAMES: [&str; 5] = ["alice", "Alice", "bob", "bob ", "ålice"];
const PWS: [&str; 5] = ["", "pw", "pw ", "PW", "pässwörd-水🔑"];
const PIDS: [(&str, &str); 6] = [("anonymous", "PidAnonymous"), ("userpass_none", "PidNone"), ("userpass_rsa_15", "PidRsa15"), ("userpass_rsa_oaep", "PidOaep"), ("x509", "PidX509"), ("other", "PidOther")];
const PADS: [(RsaPadding, &str); 3] = [(RsaPadding::Pkcs1, "Pkcs1"), (RsaPadding::OaepSha1, "OaepSha1"), (RsaPadding::OaepSha256, "OaepSha256")];
const ALGS: [(&str, &str); 4] = [("http://www.w3.org/2001/04/xmlenc#rsa-1_5", "AlgRsa15"), ("http://www.w3.org/2001/04/xmlenc#rsa-oaep", "AlgOaep"),
    ("http://opcfoundation.org/UA/security/rsa-oaep-sha2-256", "AlgOaepSha256"), ("http://example.org/rot13", "AlgOther")];
const NCERT: usize = 3;

struct World {
    server_state: Arc<RwLock<ServerState>>, certificate_store: Arc<RwLock<CertificateStore>>, address_space: Arc<RwLock<AddressSpace>>,
    server_cert: X509, client: (X509, PrivateKey), users: Vec<(X509, PrivateKey)>, dir: std::path::PathBuf,
}
fn ident(name: &str, bits: u32) -> (X509, PrivateKey) {
    X509::cert_and_pkey(&X509Data { key_size: bits, common_name: name.into(), organization: "o".into(), organizational_unit: "u".into(), country: "IE".into(),
        state: "D".into(), alt_host_names: vec![format!("urn:verif:{}", name), "localhost".into()], certificate_duration_days: 30 }).unwrap()
}
fn world() -> &'static World {
    static W: OnceLock<World> = OnceLock::new();
    W.get_or_init(|| {
        let dir = std::env::temp_dir().join(format!("verif-c20-pki-{}", std::process::id()));
        let any = [ANONYMOUS_USER_TOKEN_ID.to_string()];
        let server = ServerBuilder::new().application_name("verif").application_uri("urn:verif").product_uri("urn:verif").create_sample_keypair(true)
            .certificate_path("own/cert.der").private_key_path("private/private.pem").pki_dir(dir.clone()).host_and_port("localhost", 4855)
            .discovery_urls(vec!["opc.tcp://localhost:4855/".into()]).trust_client_certs()
            .endpoint("none", ServerEndpoint::new_none("/", &any)).server().unwrap();
        let server_state = server.server_state();
        let server_cert = server_state.read().server_certificate.clone().unwrap();
        let w = World { server_state, certificate_store: server.certificate_store(), address_space: server.address_space(), server_cert,
                        client: ident("client", 2048), users: (0..NCERT).map(|i| ident(&format!("usercert{}", i), 2048)).collect(), dir };
        std::mem::forget(server);
        w
    })
}

#[derive(Clone, Debug)] pub struct Ep { path: usize, pol: usize, mode: usize, pwpol: Option<usize>, ids: Vec<u8> }
#[derive(Clone, Debug)] pub struct User { id: u8, name: usize, pass: Option<usize>, x509: bool, thumb: Option<usize> }
#[derive(Clone, Debug)] pub enum PwForm { Plain(usize), PlainBadUtf8, EmptyAlg(usize), Enc { alg: usize, pad: usize, cur: bool, pw: usize } }
#[derive(Clone, Debug)] pub enum Tok { Null, Anon(usize), User { pid: usize, name: Option<usize>, form: PwForm },
    X509 { pid: usize, cert: usize, key: usize, sha1: bool, cur: bool, intact: bool }, BadCert(usize), Other }
#[derive(Clone, Debug)] pub enum Step { Fresh(Tok), Replay(usize) }
#[derive(Clone, Debug)] pub struct Case { eps: Vec<Ep>, users: Vec<User>, path: usize, pol: usize, mode: usize, steps: Vec<Step> }
pub struct P;

fn class(s: StatusCode) -> i128 {
    if s == StatusCode::Good { 0 } else if s == StatusCode::BadIdentityTokenInvalid { 1 } else if s == StatusCode::BadIdentityTokenRejected { 2 }
    else if s == StatusCode::BadUserAccessDenied { 3 } else if s == StatusCode::BadTcpEndpointUrlInvalid { 4 } else { 5 }
}
fn uid(i: u8) -> String { if i == 0 { ANONYMOUS_USER_TOKEN_ID.to_string() } else { format!("u{}", i) } }

fn install(c: &Case) {
    let w = world();
    let ss = w.server_state.read();
    let mut cfg = ss.config.write();
    cfg.endpoints = c.eps.iter().enumerate().map(|(i, e)| {
        let ids: Vec<String> = e.ids.iter().map(|i| uid(*i)).collect();
        let mut ep = ServerEndpoint::new(PATHS[e.path], SPOL[e.pol].0, MODES[e.mode], &ids);
        ep.password_security_policy = e.pwpol.map(|p| SPOL[p].0.to_string());
        (format!("e{}", i), ep)
    }).collect::<BTreeMap<_, _>>();
    cfg.user_tokens = c.users.iter().map(|u| (uid(u.id), ServerUserToken {
        user: NAMES[u.name].to_string(), pass: u.pass.map(|p| PWS[p].to_string()),
        x509: if u.x509 { Some("./users/none.der".to_string()) } else { None },
        thumbprint: u.thumb.map(|t| w.users[t].0.thumbprint()) })).collect();
}

fn build(t: &Tok, nonce: &ByteString, r: &mut Rng) -> (ExtensionObject, SignatureData) {
    let w = world();
    let other: Vec<u8> = { let l = if nonce.as_ref().is_empty() { 32 } else { nonce.as_ref().len() }; r.bytes(l) };
    let no_sig = SignatureData { algorithm: UAString::null(), signature: ByteString::null() };
    match t {
        Tok::Null => (ExtensionObject::null(), no_sig),
        Tok::Anon(pid) => (ExtensionObject::from_encodable(ObjectId::AnonymousIdentityToken_Encoding_DefaultBinary,
                               &AnonymousIdentityToken { policy_id: UAString::from(PIDS[*pid].0) }), no_sig),
        Tok::User { pid, name, form } => {
            let (password, encryption_algorithm) = match form {
                PwForm::Plain(pw) => (ByteString::from(PWS[*pw].as_bytes()), UAString::null()),
                PwForm::PlainBadUtf8 => (ByteString::from(&[0x70u8, 0xc3, 0x28]), UAString::null()),
                PwForm::EmptyAlg(pw) => (ByteString::from(PWS[*pw].as_bytes()), UAString::from("")),
                PwForm::Enc { alg, pad, cur, pw } => {
                    let n: &[u8] = if *cur { nonce.as_ref() } else { &other };
                    (crypto::legacy_password_encrypt(PWS[*pw], n, &w.server_cert, PADS[*pad].0).unwrap(), UAString::from(ALGS[*alg].0))
                }
            };
            let tok = UserNameIdentityToken { policy_id: UAString::from(PIDS[*pid].0), user_name: match name { Some(n) => UAString::from(NAMES[*n]), None => UAString::null() },
                                              password, encryption_algorithm };
            (ExtensionObject::from_encodable(ObjectId::UserNameIdentityToken_Encoding_DefaultBinary, &tok), no_sig)
        }
        Tok::X509 { pid, cert, key, sha1, cur, intact } => {
            let tok = X509IdentityToken { policy_id: UAString::from(PIDS[*pid].0), certificate_data: w.users[*cert].0.as_byte_string() };
            let n = if *cur { nonce.clone() } else { ByteString::from(&other) };
            let pol = if *sha1 { SecurityPolicy::Basic128Rsa15 } else { SecurityPolicy::Basic256Sha256 };
            let mut sd = crypto::create_signature_data(&w.users[*key].1, pol, &w.server_cert.as_byte_string(), &n).unwrap();
            if !*intact { let mut s = sd.signature.as_ref().to_vec(); let i = r.below(s.len() as u64) as usize; s[i] ^= 1 << r.below(8); sd.signature = ByteString::from(&s); }
            (ExtensionObject::from_encodable(ObjectId::X509IdentityToken_Encoding_DefaultBinary, &tok), sd)
        }
        Tok::BadCert(pid) => {
            let tok = X509IdentityToken { policy_id: UAString::from(PIDS[*pid].0), certificate_data: ByteString::from(&[0x30u8, 0x03, 1, 2, 3]) };
            (ExtensionObject::from_encodable(ObjectId::X509IdentityToken_Encoding_DefaultBinary, &tok), no_sig)
        }
        Tok::Other => (ExtensionObject::from_encodable(ObjectId::IssuedIdentityToken_Encoding_DefaultBinary,
                          &AnonymousIdentityToken { policy_id: UAString::from("anonymous") }), no_sig),
    }
}

fn tok_term(t: &Tok) -> String {
    match t {
        Tok::Null => "TNull".into(),
        Tok::Anon(p) => format!("(TAnon {})", PIDS[*p].1),
        Tok::User { pid, name, form } => format!("(TUser {} {} {})", PIDS[*pid].1, coq_opt(name, |n| n.to_string()), match form {
            PwForm::Plain(p) => format!("(Plain {})", p), PwForm::PlainBadUtf8 => "PlainBadUtf8".into(), PwForm::EmptyAlg(p) => format!("(EmptyAlg {})", p),
            PwForm::Enc { alg, pad, cur, pw } => format!("(Enc {} {} {} {})", ALGS[*alg].1, PADS[*pad].1, if *cur { "NCur" } else { "NOther" }, pw) }),
        Tok::X509 { pid, cert, key, sha1, cur, intact } => format!("(TX509 {} {} (Sig {} {} {} {}))", PIDS[*pid].1, cert, key, coq_bool(*sha1), if *cur { "NCur" } else { "NOther" }, coq_bool(*intact)),
        Tok::BadCert(p) => format!("(TBadCert {})", PIDS[*p].1),
        Tok::Other => "TOther".into(),
    }
}

fn gen_users(r: &mut Rng) -> Vec<User> {
    let n = 1 + r.below(5) as u8;
    (1..=n).map(|id| {
        if r.chance(1, 3) {
            User { id, name: r.below(3) as usize, pass: None, x509: true, thumb: if r.chance(1, 8) { None } else { Some(r.below(NCERT as u64) as usize) } }
        } else {
            // few names and passwords so that tokens sharing a user name occur
            User { id, name: r.below(4) as usize, pass: if r.chance(1, 8) { None } else { Some(r.below(4) as usize) }, x509: false, thumb: None }
        }
    }).collect()
}
fn gen_eps(r: &mut Rng, nusers: u8) -> Vec<Ep> {
    let n = 1 + r.below(3) as usize;
    (0..n).map(|_| {
        let pol = r.below(6) as usize;
        let mode = if pol == 0 { 1 } else { 2 + r.below(2) as usize };
        let mut ids: Vec<u8> = (0..=nusers + 1).filter(|_| r.chance(1, 2)).collect(); // nusers + 1: an id without a user token
        ids.sort(); // "ANONYMOUS" sorts before "u1".."u6": the BTreeSet iteration order
        Ep { path: r.below(2) as usize, pol, mode, pwpol: if r.chance(1, 3) { Some(r.below(6) as usize) } else { None }, ids }
    }).collect()
}
fn pid_for(e: &Ep) -> usize { match e.pwpol.unwrap_or(e.pol) { 0 => 1, 1 => 2, _ => 3 } }
fn gen_tok(r: &mut Rng, c: &Case) -> Tok {
    // the endpoint the session is on, if any: tokens are mostly right for it with one thing changed
    let ep = c.eps.iter().find(|e| e.path == c.path && e.pol == c.pol && e.mode == c.mode);
    let good_pid = ep.map(pid_for).unwrap_or(1);
    match r.below(12) {
        0 => Tok::Null,
        1 => Tok::Anon(if r.chance(1, 4) { r.below(6) as usize } else { 0 }),
        2 => if r.chance(1, 2) { Tok::Other } else { Tok::BadCert(4) },
        3..=8 => {
            let u = r.pick(&c.users).clone();
            let name = if r.chance(1, 12) { None } else if r.chance(1, 6) { Some(r.below(5) as usize) } else { Some(u.name) };
            let pw = if r.chance(1, 4) { r.below(5) as usize } else { u.pass.unwrap_or(0) };
            let pid = if r.chance(1, 8) { r.below(6) as usize } else { good_pid };
            let form = match r.below(10) {
                0..=2 => PwForm::Plain(pw),
                3 => if r.chance(1, 2) { PwForm::PlainBadUtf8 } else { PwForm::EmptyAlg(pw) },
                _ => { let pad = r.below(3) as usize; PwForm::Enc { alg: if r.chance(1, 6) { r.below(4) as usize } else { pad }, pad, cur: !r.chance(1, 6), pw } }
            };
            Tok::User { pid, name, form }
        }
        _ => {
            let cert = r.below(NCERT as u64) as usize;
            Tok::X509 { pid: if r.chance(1, 8) { r.below(6) as usize } else { 4 }, cert, key: if r.chance(1, 8) { r.below(NCERT as u64) as usize } else { cert },
                        sha1: !r.chance(1, 8), cur: !r.chance(1, 6), intact: !r.chance(1, 8) }
        }
    }
}

impl Property for P {
    type Case = Case;
    fn fixed(_tier: &str) -> Vec<Case> {
        let mut v = Vec::new();
        let users = vec![User { id: 1, name: 0, pass: Some(1), x509: false, thumb: None }, User { id: 2, name: 2, pass: None, x509: true, thumb: Some(0) },
                         User { id: 3, name: 0, pass: Some(3), x509: false, thumb: None }, User { id: 4, name: 3, pass: None, x509: false, thumb: None }];
        for pol in 0..6usize {
            let mode = if pol == 0 { 1 } else { 3 };
            let eps = vec![Ep { path: 0, pol, mode, pwpol: None, ids: vec![0, 1, 2, 3, 4] }, Ep { path: 1, pol, mode, pwpol: None, ids: vec![2] },
                           Ep { path: 0, pol: (pol + 1) % 6, mode: if (pol + 1) % 6 == 0 { 1 } else { 2 }, pwpol: Some(3), ids: vec![1] }];
            let pid = pid_for(&eps[0]);
            let pad = match pol { 1 => 0, 5 => 2, _ => 1 };
            let good = Tok::User { pid, name: Some(0), form: PwForm::Enc { alg: pad, pad, cur: true, pw: 1 } };
            // the same encrypted token three times: the second and third are replays for an earlier nonce
            v.push(Case { eps: eps.clone(), users: users.clone(), path: 0, pol, mode, steps: vec![Step::Fresh(good.clone()), Step::Replay(0), Step::Replay(0), Step::Fresh(good.clone())] });
            // X.509 token, then replayed
            let x = Tok::X509 { pid: 4, cert: 0, key: 0, sha1: true, cur: true, intact: true };
            v.push(Case { eps: eps.clone(), users: users.clone(), path: 0, pol, mode, steps: vec![Step::Fresh(x.clone()), Step::Replay(0), Step::Fresh(x.clone())] });
            // anonymous / plain / wrong password / shadowed second token of the same user name / empty-password user
            v.push(Case { eps: eps.clone(), users: users.clone(), path: 0, pol, mode, steps: vec![
                Step::Fresh(Tok::Null), Step::Fresh(Tok::Anon(0)), Step::Fresh(Tok::Anon(1)),
                Step::Fresh(Tok::User { pid, name: Some(0), form: PwForm::Plain(1) }), Step::Fresh(Tok::User { pid, name: Some(0), form: PwForm::Plain(2) }),
                Step::Fresh(Tok::User { pid, name: Some(0), form: PwForm::Plain(3) }), Step::Fresh(Tok::User { pid, name: Some(3), form: PwForm::Plain(0) }),
                Step::Fresh(Tok::User { pid, name: Some(3), form: PwForm::Plain(1) }), Step::Fresh(Tok::User { pid, name: Some(2), form: PwForm::Plain(0) }),
                Step::Fresh(Tok::User { pid, name: None, form: PwForm::Plain(1) }), Step::Fresh(Tok::User { pid: 5, name: Some(0), form: PwForm::Plain(1) })] });
            // endpoint that allows only the X.509 user
            v.push(Case { eps: eps.clone(), users: users.clone(), path: 1, pol, mode, steps: vec![
                Step::Fresh(Tok::Null), Step::Fresh(Tok::User { pid, name: Some(0), form: PwForm::Plain(1) }), Step::Fresh(x.clone()),
                Step::Fresh(Tok::X509 { pid: 4, cert: 1, key: 1, sha1: true, cur: true, intact: true }), Step::Fresh(Tok::X509 { pid: 4, cert: 0, key: 1, sha1: true, cur: true, intact: true }),
                Step::Fresh(Tok::X509 { pid: 4, cert: 0, key: 0, sha1: true, cur: true, intact: false }), Step::Fresh(Tok::X509 { pid: 4, cert: 0, key: 0, sha1: false, cur: true, intact: true })] });
            // a session whose channel matches no endpoint of that path
            v.push(Case { eps: eps.clone(), users: users.clone(), path: 1, pol: (pol + 2) % 6, mode: if (pol + 2) % 6 == 0 { 1 } else { 3 }, steps: vec![Step::Fresh(Tok::Null)] });
        }
        v
    }
    fn gen(r: &mut Rng) -> Case {
        let users = gen_users(r);
        let eps = gen_eps(r, users.len() as u8);
        // mostly a session on one of the endpoints
        let (path, pol, mode) = if r.chance(9, 10) { let e = r.pick(&eps); (e.path, e.pol, e.mode) } else { let p = r.below(6) as usize; (r.below(3) as usize, p, if p == 0 { 1 } else { 2 + r.below(2) as usize }) };
        let mut c = Case { eps, users, path, pol, mode, steps: vec![] };
        let n = 1 + r.below(6) as usize;
        for i in 0..n {
            let s = if i > 0 && r.chance(1, 3) { Step::Replay(r.below(i as u64) as usize) } else { Step::Fresh(gen_tok(r, &c)) };
            c.steps.push(s);
        }
        c
    }
    fn exec(c: &Case) -> Out {
        let w = world();
        let mut r = Rng::new(c.steps.len() as u64 * 7919 + c.pol as u64);
        let res = guarded(|| {
            install(c);
            let mut out: Vec<i128> = Vec::new();
            let mut ch = SecureChannel::new(w.certificate_store.clone(), Role::Server, DecodingOptions::default());
            ch.set_security_policy(SPOL[c.pol].0); ch.set_security_mode(MODES[c.mode]); ch.set_secure_channel_id(1);
            let ch = Arc::new(RwLock::new(ch));
            let url = format!("opc.tcp://localhost:4855{}", PATHS[c.path]);
            let creq = CreateSessionRequest { request_header: RequestHeader::dummy(),
                client_description: ApplicationDescription { application_uri: UAString::from("urn:verif:client"), product_uri: UAString::null(), application_name: LocalizedText::from("c"),
                    application_type: ApplicationType::Client, gateway_server_uri: UAString::null(), discovery_profile_uri: UAString::null(), discovery_urls: None },
                server_uri: UAString::null(), endpoint_url: UAString::from(url), session_name: UAString::from("s"), client_nonce: ByteString::from(r.bytes(32)),
                client_certificate: w.client.0.as_byte_string(), requested_session_timeout: 60000.0, max_response_message_size: 0 };
            let (session, resp) = verif_create_session(ch.clone(), w.certificate_store.clone(), w.server_state.clone(), w.address_space.clone(), &creq);
            let session = match session {
                Some(s) => Arc::new(RwLock::new(s)),
                None => { out.push(if let SupportedMessage::ServiceFault(f) = resp { -10 - class(f.response_header.service_result) } else { -19 }); return out; }
            };
            let mut seen: Vec<Option<Vec<u8>>> = Vec::new();
            let mut nid = |b: &ByteString| -> i128 { let k = b.value.clone(); match seen.iter().position(|x| *x == k) { Some(i) => i as i128, None => { seen.push(k); seen.len() as i128 - 1 } } };
            let n0 = session.read().session_nonce().clone();
            out.push(nid(&n0));
            let mut sent: Vec<(ExtensionObject, SignatureData)> = Vec::new();
            for s in &c.steps {
                let nonce = session.read().session_nonce().clone();
                let (tok, sig) = match s { Step::Fresh(t) => build(t, &nonce, &mut r), Step::Replay(j) => sent[*j].clone() };
                sent.push((tok.clone(), sig.clone()));
                let client_signature = if c.pol == 0 { SignatureData { algorithm: UAString::null(), signature: ByteString::null() } }
                    else { crypto::create_signature_data(&w.client.1, SPOL[c.pol].0, &w.server_cert.as_byte_string(), &nonce).unwrap() };
                let req = ActivateSessionRequest { request_header: RequestHeader::dummy(), client_signature, client_software_certificates: None, locale_ids: None,
                                                   user_identity_token: tok, user_token_signature: sig };
                let resp = verif_activate_session(ch.clone(), w.server_state.clone(), session.clone(), w.address_space.clone(), &req);
                out.push(match resp { SupportedMessage::ActivateSessionResponse(_) => 0, SupportedMessage::ServiceFault(f) => class(f.response_header.service_result), _ => 9 });
                let after = session.read().session_nonce().clone();
                out.push(nid(&after));
            }
            out
        });
        let out = match res { Ok(o) => o, Err(_) => vec![-2] };
        let accepted = out.iter().skip(1).step_by(2).filter(|x| **x == 0).count();
        let kinds: Vec<&str> = c.steps.iter().map(|s| match s { Step::Replay(_) => "R", Step::Fresh(Tok::Null) | Step::Fresh(Tok::Anon(_)) => "a",
            Step::Fresh(Tok::User { form: PwForm::Enc { .. }, .. }) => "e", Step::Fresh(Tok::User { .. }) => "p", Step::Fresh(Tok::X509 { .. }) => "x", _ => "o" }).collect();
        let tag = format!("{}-{}-acc{}", SPOL[c.pol].1, kinds.concat(), accepted.min(3));
        let term = format!("(mk_case {} {} {} {} {} {})",
            coq_list(&c.eps, |e| format!("(mk_ep {} {} {} {} {})", e.path, SPOL[e.pol].1, e.mode, coq_opt(&e.pwpol, |p| SPOL[*p].1.to_string()), zlist(e.ids.iter().map(|i| *i as i128)))),
            coq_list(&c.users, |u| format!("(mk_user {} {} {} {} {})", u.id, u.name, coq_opt(&u.pass, |p| p.to_string()), coq_bool(u.x509), coq_opt(&u.thumb, |t| t.to_string()))),
            c.path, SPOL[c.pol].1, c.mode,
            coq_list(&c.steps, |s| match s { Step::Fresh(t) => format!("(Fresh {})", tok_term(t)), Step::Replay(j) => format!("(Replay {})", j) }));
        Out { tag, term, out }
    }
}
fn main() { run_main::<P>(); if let Some(w) = Some(world()) { let _ = std::fs::remove_dir_all(&w.dir); } }
