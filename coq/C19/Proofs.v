From Coq Require Import List ZArith Bool String Lia.
Import ListNotations.
From OV Require Import Gen.C19Dispatch C19.Model.
Open Scope Z_scope.

Lemma dispatch_ok_holds : dispatch_ok = true.
Proof. vm_compute. reflexivity. Qed.
