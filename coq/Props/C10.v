(* C10 — stub while the correspondence is brought up *)
From Coq Require Import List ZArith.
Import ListNotations.
From OV Require Import C10.Model C10.Proofs.
Open Scope Z_scope.
Theorem C10_legacy_transport_refuted :
  oracle legacy_witness (render (Legacy.trace_transport (mk_lim 3 0) init (c_frames legacy_witness))) = false.
Proof. exact legacy_transport_refuted. Qed.
Print Assumptions C10_legacy_transport_refuted.
