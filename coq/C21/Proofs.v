(* C21 — the main theorems: every valid history runs without panic and is accepted by the
   reference evaluator; the two legacy behaviours are refuted. *)
From Coq Require Import List ZArith Bool Lia.
Import ListNotations.
From OV Require Import C21.SysLemmas C21.Model C21.SubTick C21.Round C21.Inv C21.Step.
Open Scope Z_scope.

Lemma step_all k y z opix o :
  Rel k y z -> 0 <= k -> 2 * k + 4 < U32MAX -> op_ok o = true -> step_goal k y z opix o.
Proof.
  intros HR Hk Hb Hok. destruct o.
  - apply step_write; assumption.
  - apply step_tick; assumption.
  - apply step_publish; assumption.
  - apply step_create_sub; assumption.
  - apply step_delete_sub; assumption.
  - apply step_create_item; assumption.
  - apply step_delete_item; assumption.
  - apply step_republish; assumption.
  - apply step_set_publishing; assumption.
Qed.

Lemma run_ops_rel : forall ops k y z,
  Rel k y z -> 0 <= k -> forallb op_ok ops = true -> 2 * (k + len ops) + 2 < U32MAX ->
  exists tr, run_ops y k ops = (tr, false) /\ spec_trace z k ops tr = true.
Proof.
  induction ops as [|o ops IH]; intros k y z HR Hk Hok Hb.
  - exists []. split; reflexivity.
  - cbn [forallb] in Hok. apply andb_true_iff in Hok as [Ho Hops].
    assert (Hlen : len (o :: ops) = len ops + 1) by (unfold len; cbn [length]; lia).
    assert (Hl0 : 0 <= len ops) by (unfold len; lia).
    destruct (step_all k y z k o HR Hk ltac:(lia) Ho) as (y1 & st & m & rs & z1 & E1 & E2 & HR1).
    destruct (IH (k + 1) y1 z1 HR1 ltac:(lia) Hops ltac:(lia)) as (tr & F1 & F2).
    exists (mk_opres st m rs (snapshot y1) :: tr). split.
    + unfold run_ops in *. cbn [run_ops_g]. unfold step in E1. rewrite E1, F1. reflexivity.
    + cbn [spec_trace]. rewrite E2. exact F2.
Qed.

Lemma init_rel c : Rel 0 (init c) (init_spec c).
Proof.
  unfold Rel, init, init_spec. cbn [z_now z_vars z_nextsub z_nextrid z_before y_now y_vars y_nextsub y_nextrid].
  split; [reflexivity|]. split; [reflexivity|]. split; [reflexivity|]. split; [reflexivity|]. split; [reflexivity|].
  split. { unfold reqs_ok. cbn. split; [reflexivity|]. split; [constructor | intros q []]. }
  split. { unfold subs_ok. cbn. split; [constructor|]. split; [intros s []|]. split; [reflexivity | lia]. }
  split. { intros _ s []. }
  intros _. cbn. split; [constructor | reflexivity].
Qed.

Theorem run_accepted c : valid c ->
  exists tr, run_ev c = (tr, false) /\ spec_trace (init_spec c) 0 (c_ops c) tr = true.
Proof.
  intros [Hok Hb]. unfold run_ev. apply (run_ops_rel (c_ops c) 0 (init c) (init_spec c) (init_rel c)); [lia | exact Hok | lia].
Qed.

Theorem oracle_holds c : valid c -> oracle c (run c) = true.
Proof.
  intros Hv. destruct (run_accepted c Hv) as (tr & E & H).
  unfold oracle, run. rewrite decode_enc, E. cbn [negb andb]. exact H.
Qed.

Theorem no_panic c : valid c -> snd (run_ev c) = false.
Proof. intros Hv. destruct (run_accepted c Hv) as (tr & E & _). rewrite E. reflexivity. Qed.

(* ------------------------------------------------------------------ witnesses *)
(* the design-round history, shortened: values written in cycles without a publish request *)
Definition witness_drop : case :=
  mk_case 1 [OCreateSub 0 1000 3 30 true; OCreateItem 1 0 2 (-1) 10 true; OTick 0;
             OWrite 0 10; OTick 1000; OWrite 0 11; OTick 1000; OPublish 0 0 []; OPublish 0 0 []; OTick 1000].
(* the lifetime (3 cycles) runs out in a cycle in which the item has a new value *)
Definition witness_expiry : case :=
  mk_case 1 [OCreateSub 0 1000 1 3 true; OCreateItem 1 0 2 (-1) 2 true; OTick 0;
             OWrite 0 10; OTick 1000; OWrite 0 11; OTick 1000; OWrite 0 12; OTick 1000; OWrite 0 13; OTick 1000].

Lemma witness_drop_valid : valid witness_drop.
Proof. split; [reflexivity | vm_compute; reflexivity]. Qed.
Lemma witness_expiry_valid : valid witness_expiry.
Proof. split; [reflexivity | vm_compute; reflexivity]. Qed.

Lemma legacy_refuted : oracle witness_drop (Legacy.run witness_drop) = false.
Proof. vm_compute. reflexivity. Qed.
Lemma legacy_expiry_refuted : oracle witness_expiry (LegacyExpiry.run witness_expiry) = false.
Proof. vm_compute. reflexivity. Qed.
Example witness_drop_ok : oracle witness_drop (run witness_drop) = true.
Proof. vm_compute. reflexivity. Qed.
Example witness_expiry_ok : oracle witness_expiry (run witness_expiry) = true.
Proof. vm_compute. reflexivity. Qed.
(* what the client sees in the repaired code for witness_drop: 10 and 11 arrive, in order *)
Example witness_drop_delivers :
  let tr := fst (run_ev witness_drop) in
  flat_map (fun r => flat_map (fun rs => match rs with RPub _ _ _ _ _ m => map (fun d => snd (fst d)) (m_data m) | _ => [] end) (o_resps r)) tr
  = [10; 11].
Proof. vm_compute. reflexivity. Qed.
