From Coq Require Import String Ascii List ZArith Bool Lia.
From OV Require Import Gen.C05Tables C05.Model.
Import ListNotations.
Open Scope Z_scope.

Lemma known_1_refuted : exists c, known c = 1 /\ oracle c (run c) = false.
Proof. exists (CPath [mk_el (mk_nid 3 (INum 77)) false true (mk_qn 0 (Some [97]))]). vm_compute. split; reflexivity. Qed.
