(* C18 — certificate trust verdicts follow the configured trust store
   (crypto/certificate_store.rs validate_or_reject_application_instance_cert,
    crypto/x509.rs is_time_valid / is_hostname_valid / is_application_uri_valid,
    crypto/security_policy.rs is_valid_keylength).

   The decision procedure over an abstract store: what is on disk is abstracted to
   "a file with the certificate's name exists in rejected/", "trusted/ has no such file / has a
   byte-identical one / has a different one", the two directories exist or not. *)
From Coq Require Import List ZArith Bool.
Import ListNotations.
Open Scope Z_scope.

Inductive policy := Basic128Rsa15 | Basic256 | Basic256Sha256 | Aes128Sha256RsaOaep | Aes256Sha256RsaPss.
Inductive tstate := TAbsent | TSame | TDiff.
Inductive tval := TimeValid | TimeNotYet | TimeExpired.
Inductive nm := NNone | NMatch | NMismatch.     (* expected name not given / equals the cert's / differs *)

Record scase := mk_case {
  rej_dir : bool; tru_dir : bool;               (* the directories exist *)
  in_rej : bool;                                (* rejected/ has a file with this certificate's name *)
  tru : tstate;
  trust_unknown : bool; skip_verify : bool; check_time : bool;
  pol : policy; key_bits : Z;
  tm : tval; host : nm; uri : nm
}.

(* status classes *)
Definition Good := 0.
Definition BadUnexpectedError := 1.
Definition BadSecurityChecksFailed := 2.
Definition BadCertificateUntrusted := 3.
Definition BadCertificateTimeInvalid := 4.
Definition BadCertificateHostNameInvalid := 5.
Definition BadCertificateUriInvalid := 6.

(* security_policy.rs: ASYMMETRIC_KEY_LENGTH per policy *)
Definition min_max (p : policy) : Z * Z :=
  match p with
  | Basic128Rsa15 | Basic256 => (1024, 2048)
  | _ => (2048, 4096)
  end.
Definition valid_keylength (p : policy) (bits : Z) : bool :=
  (fst (min_max p) <=? bits) && (bits <=? snd (min_max p)).

(* effects on the store *)
Record result := { status : Z; put_rejected : bool; put_trusted : bool }.

(* validate_application_instance_cert, branch for branch *)
Definition validate (c : scase) : result :=
  let r s pr pt := {| status := s; put_rejected := pr; put_trusted := pt |} in
  if negb (rej_dir c) then r BadUnexpectedError false false
  else if in_rej c then r BadSecurityChecksFailed false false
  else if negb (tru_dir c) then r BadUnexpectedError false false
  else
    match tru c, trust_unknown c with
    | TAbsent, false => r BadCertificateUntrusted true false
    | _, _ =>
        let stored := match tru c with TAbsent => true | _ => false end in
        (* after an unknown cert was stored into trusted/ the file on disk is the cert itself *)
        let same := match tru c with TDiff => false | _ => true end in
        if negb same then r BadUnexpectedError false stored
        else if negb (valid_keylength (pol c) (key_bits c)) then r BadSecurityChecksFailed false stored
        else if skip_verify c then r Good false stored
        else if check_time c && match tm c with TimeValid => false | _ => true end
             then r BadCertificateTimeInvalid false stored
        else if match host c with NMismatch => true | _ => false end
             then r BadCertificateHostNameInvalid false stored
        else if match uri c with NMismatch => true | _ => false end
             then r BadCertificateUriInvalid false stored
        else r Good false stored
    end.

(* validate_or_reject_application_instance_cert: a Bad result other than BadUnexpectedError /
   BadSecurityChecksFailed stores the certificate in rejected/ *)
Definition validate_or_reject (c : scase) : result :=
  let v := validate c in
  if (status v =? Good) || (status v =? BadUnexpectedError) || (status v =? BadSecurityChecksFailed)
  then v
  else {| status := status v; put_rejected := true; put_trusted := put_trusted v |}.

Definition b2z (b : bool) : Z := if b then 1 else 0.

(* observable: status class, "a file with the cert's name is in rejected/ afterwards",
   "… in trusted/ afterwards" *)
Definition run1 (c : scase) : list Z :=
  let v := validate_or_reject c in
  [status v;
   b2z (rej_dir c && (in_rej c || put_rejected v));
   b2z (tru_dir c && (match tru c with TAbsent => put_trusted v | _ => true end))].

(* ---- the property ---- *)
(* the statement's conjunction: accepted only if … *)
Definition spec_accept (c : scase) : bool :=
  rej_dir c && tru_dir c &&
  negb (in_rej c) &&
  match tru c with TSame => true | TAbsent => trust_unknown c | TDiff => false end &&
  valid_keylength (pol c) (key_bits c) &&
  (skip_verify c ||
   ((negb (check_time c) || match tm c with TimeValid => true | _ => false end) &&
    match host c with NMismatch => false | _ => true end &&
    match uri c with NMismatch => false | _ => true end)).

Definition oracle1 (c : scase) (out : list Z) : bool :=
  match out with
  | [st; rej_after; tru_after] =>
      (* accepted exactly under the configured conditions *)
      Bool.eqb (st =? Good) (spec_accept c) &&
      (* an unknown certificate that is not trusted is placed in the rejected store *)
      (if rej_dir c && tru_dir c && negb (in_rej c) && negb (trust_unknown c)
          && match tru c with TAbsent => true | _ => false end
       then rej_after =? 1 else true) &&
      (* an accepted certificate is never placed there *)
      (if st =? Good then rej_after =? 0 else true)
  | _ => false
  end.

(* ---- X509::is_time_valid: the validity period, in milliseconds since the epoch ----
   (the certificate's notBefore / notAfter are whole seconds; the clock has a sub-second part).
   Both ends of the period are inside it. *)
Definition time_class (nb na now : Z) : tval :=
  if now <? nb then TimeNotYet else if na <? now then TimeExpired else TimeValid.
Definition time_status (nb na now : Z) : Z :=
  match time_class nb na now with TimeValid => Good | _ => BadCertificateTimeInvalid end.

(* a case is a HISTORY on one CertificateStore instance: before every step the directories are put
   into the step's state (files added / removed / replaced, flags set through the setters); the
   verdict of a step must depend on that state only, not on what the instance has seen before.
   A step is a validation through the store, or a direct question "is this certificate, valid
   from nb to na, valid at the instant now" (the store asks it with the wall clock). *)
Inductive step := SVal (c : scase) | STime (nb na now : Z).
Definition case := list step.
Definition run_step (s : step) : list Z :=
  match s with SVal c => run1 c | STime nb na now => [time_status nb na now] end.
Definition run (c : case) : list Z := flat_map run_step c.
Definition oracle_step (s : step) (out : list Z) : bool :=
  match s with
  | SVal c => oracle1 c out
  | STime nb na now =>
      match out with [st] => Bool.eqb (st =? Good) ((nb <=? now) && (now <=? na)) | _ => false end
  end.
Definition width (s : step) : nat := match s with SVal _ => 3%nat | STime _ _ _ => 1%nat end.
Fixpoint oracle (c : case) (out : list Z) : bool :=
  match c with
  | [] => match out with [] => true | _ => false end
  | s :: c' => oracle_step s (firstn (width s) out) && oracle c' (skipn (width s) out)
  end.
Definition known (c : case) : Z := 0.
