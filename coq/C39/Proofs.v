(* C39 — the oracle theorem, the refutations of the pinned code (one per fix) and of the known
   finding, and the examples. *)
From Coq Require Import List ZArith Bool Lia.
From OV Require Import C39.Values C39.Like C39.Model C39.Safety C39.LikeProofs C39.RefProofs.
Import ListNotations.
Open Scope Z_scope.

Lemma list_Zeqb_refl : forall a, list_Zeqb a a = true.
Proof. induction a as [|x a IH]; cbn; [reflexivity|]. rewrite Z.eqb_refl, IH. reflexivity. Qed.

Lemma canon_no_crash : forall r : outcome, clean r -> canon r <> [-9] -> no_crash (canon r) = true.
Proof.
  intros r [Hp Hf] Hu. destruct r; cbn in *; try contradiction; try reflexivity.
  destruct a; try reflexivity.
Qed.

Lemma filter_oracle : forall f e,
  canon (evaluate_where_clause cfg_fixed f e) <> [-9] -> known_filter f e = 0 ->
  no_crash (canon (evaluate_where_clause cfg_fixed f e)) &&
  match reference f e with
  | Some v => list_Zeqb (canon (evaluate_where_clause cfg_fixed f e)) (canon_value v)
  | None => true
  end = true.
Proof.
  intros f e Hu Hk. rewrite (canon_no_crash _ (where_clause_clean f e) Hu). cbn [andb].
  destruct (reference f e) as [v|] eqn:Href; [|reflexivity].
  rewrite (reference_agrees f e v Href Hk). cbn [canon]. apply list_Zeqb_refl.
Qed.

Theorem oracle_holds : forall c, valid c -> known c = 0 -> oracle c (run c) = true.
Proof.
  intros c [_ Hu] Hk. destruct c as [f e | pat s | pat | n k].
  - unfold run, run_cfg, oracle in *. cbn [filter_of] in *. apply filter_oracle; assumption.
  - unfold oracle. cbn [known] in Hk.
    destruct (like_parse_checked pat) as [p|] eqn:Hp.
    + destruct (has_one p) eqn:Hone; [discriminate|].
      destruct (like_parse_checked_sound pat p Hp) as [Hwf Hpr]. subst pat.
      unfold run, run_cfg in *. cbn [fix_like cfg_fixed] in *.
      rewrite (like_fixed_text p Hwf) in *. rewrite (like_fixed_parse p Hwf Hone) in *.
      cbn [re_is_match]. rewrite (match_spec p Hone). cbn [no_crash]. cbn [Z.leb andb]. 
      change (0 <=? 1) with true. cbn [andb]. apply list_Zeqb_refl.
    + rewrite andb_true_r. unfold run, run_cfg in *. cbn [fix_like cfg_fixed] in *.
      destruct (like_to_regex_fixed pat); [|reflexivity].
      destruct (re_parse l); try reflexivity. contradiction.
  - unfold oracle. destruct (like_text_head pat) as [H | [t H]]; rewrite H; reflexivity.
  - unfold run, run_cfg, oracle in *. cbn [filter_of] in *. apply filter_oracle; assumption.
Qed.

(* ---- refutations: each fix is needed ----------------------------------------------------------- *)
Definition cfg_no_count : cfg := mk_cfg false true true true true true true.
Definition cfg_no_index : cfg := mk_cfg true false true true true true true.
Definition cfg_no_attr : cfg := mk_cfg true true false true true true true.
Definition cfg_no_conv : cfg := mk_cfg true true true false true true true.
Definition cfg_no_nan : cfg := mk_cfg true true true true false true true.
Definition cfg_no_eq : cfg := mk_cfg true true true true true false true.
Definition cfg_no_like : cfg := mk_cfg true true true true true true false.

Definition w_count : case := CFilter [] (Some [mk_el Equals (Some [OLit (VInt Int32 1)])]).
Definition w_between : case := CFilter [] (Some [mk_el Between (Some [OLit (VInt Int32 1); OLit (VInt Int32 0)])]).
Definition w_index : case := CFilter [] (Some [mk_el Not (Some [OElem 7])]).
Definition w_attr : case := CFilter [] (Some [mk_el IsNull (Some [OAttribute])]).
(* a number against a null event field, against a string that is no number, against a negative *)
Definition w_conv : case := CFilter [] (Some [mk_el Equals (Some [OLit (VInt Int32 1); OAttr 0])]).
Definition w_conv2 : case := CFilter [] (Some [mk_el Equals (Some [OLit (VInt Int32 1); OLit (VStr [97; 98; 99])])]).
Definition w_conv3 : case := CFilter [] (Some [mk_el BitwiseAnd (Some [OLit (VInt UInt64 5); OLit (VInt Int32 (-1))])]).
Definition w_nan : case :=
  CFilter [] (Some [mk_el GreaterThan (Some [OLit (VDouble 9221120237041090560); OLit (VDouble 4607182418800017408)])]).
Definition w_eq : case := CFilter [] (Some [mk_el Equals (Some [OLit (VStr [97; 98; 99]); OLit (VStr [97; 98; 99])])]).
(* the pattern \\% (an escaped backslash, then any run) against \abc *)
Definition w_like : case := CLike [92; 92; 37] [92; 97; 98; 99].
(* % against a string with a line feed *)
Definition w_like_nl : case := CLike [37] [97; 10; 98].

Lemma legacy_refuted_count : run_cfg cfg_no_count w_count = [-2] /\ run_cfg cfg_no_count w_between = [-2].
Proof. split; vm_compute; reflexivity. Qed.
Lemma legacy_refuted_index : run_cfg cfg_no_index w_index = [-2].
Proof. vm_compute; reflexivity. Qed.
Lemma legacy_refuted_attr : run_cfg cfg_no_attr w_attr = [-2].
Proof. vm_compute; reflexivity. Qed.
Lemma legacy_refuted_conv :
  run_cfg cfg_no_conv w_conv = [-2] /\ run_cfg cfg_no_conv w_conv2 = [-2] /\ run_cfg cfg_no_conv w_conv3 = [-2].
Proof. repeat split; vm_compute; reflexivity. Qed.
Lemma legacy_refuted_nan : known w_nan = 0 /\ oracle w_nan (run_cfg cfg_no_nan w_nan) = false.
Proof. split; vm_compute; reflexivity. Qed.
Lemma legacy_refuted_eq : known w_eq = 0 /\ oracle w_eq (run_cfg cfg_no_eq w_eq) = false.
Proof. split; vm_compute; reflexivity. Qed.
Lemma legacy_refuted_like :
  known w_like = 0 /\ oracle w_like (run_cfg cfg_no_like w_like) = false /\
  known w_like_nl = 0 /\ oracle w_like_nl (run_cfg cfg_no_like w_like_nl) = false.
Proof. repeat split; vm_compute; reflexivity. Qed.

(* the pinned code as a whole *)
Lemma legacy_refuted_all :
  Legacy.run w_count = [-2] /\ Legacy.run w_index = [-2] /\ Legacy.run w_attr = [-2] /\ Legacy.run w_conv = [-2] /\
  oracle w_nan (Legacy.run w_nan) = false /\ oracle w_eq (Legacy.run w_eq) = false /\
  oracle w_like (Legacy.run w_like) = false.
Proof. repeat split; vm_compute; reflexivity. Qed.

(* the pre-landed conversion fix, seen through Equals: Byte 200 = SByte -56, UInt64 max = Int64 -1 *)
Lemma legacy_refuted_wrap :
  Legacy.equals_wrapping (VInt Byte 200) (VInt SByte (-56)) = Some true /\
  ref_op Equals [VInt Byte 200; VInt SByte (-56)] = Some (VBool false) /\
  Legacy.equals_wrapping (VInt UInt64 18446744073709551615) (VInt Int64 (-1)) = Some true /\
  ref_op Equals [VInt UInt64 18446744073709551615; VInt Int64 (-1)] = Some (VBool false).
Proof. repeat split; vm_compute; reflexivity. Qed.

(* known finding 1 *)
Definition w_known1 : case := CLike [97; 95; 99] [97; 98; 99].
Definition w_known1_filter : case :=
  CFilter [VStr [97; 98; 99]] (Some [mk_el Like (Some [OAttr 0; OLit (VStr [97; 95; 99])])]).
Lemma known_1_refuted : exists c, valid c /\ known c = 1 /\ oracle c (run c) = false.
Proof. exists w_known1. repeat split; try (vm_compute; reflexivity). vm_compute. discriminate. Qed.
Lemma known_1_refuted_filter : valid w_known1_filter /\ known w_known1_filter = 1 /\ oracle w_known1_filter (run w_known1_filter) = false.
Proof. repeat split; try (vm_compute; reflexivity). vm_compute. discriminate. Qed.

(* the fixed code on the same witnesses *)
Lemma fixed_on_witnesses :
  run w_count = [0; 1] /\ run w_between = [0; 1] /\ run w_index = [0; 2] /\ run w_attr = [0; 2] /\
  run w_conv = [1; 0] /\ run w_conv2 = [1; 0] /\ run w_conv3 = [2] /\ run w_nan = [1; 0] /\ run w_eq = [1; 1] /\
  run w_like = [1; 1] /\ run w_like_nl = [1; 1].
Proof. repeat split; vm_compute; reflexivity. Qed.

(* ---- examples: the hypotheses of the theorems are satisfiable by non-trivial cases ------------- *)
(* (550 == "550") && (10.5 == "10.5"), the clause of the repository's own test *)
Definition ex_clause : case :=
  CFilter [] (Some [mk_el And (Some [OElem 1; OElem 2]);
                    mk_el Equals (Some [OLit (VInt Int32 550); OLit (VStr [53; 53; 48])]);
                    mk_el Equals (Some [OLit (VDouble 4622100592565682176); OLit (VStr [49; 48; 46; 53])])]).
Example ex_clause_ok : valid ex_clause /\ known ex_clause = 0 /\ reference [] (snd (filter_of ex_clause)) = Some (VBool true)
                       /\ run ex_clause = [1; 1].
Proof. repeat split; try (vm_compute; reflexivity). vm_compute. discriminate. Qed.

(* Th[ia][ts]% from Part 4 *)
Definition ex_pattern : list litem := [LChar 84; LChar 104; LSet false [(105, 105); (97, 97)]; LSet false [(116, 116); (115, 115)]; LMany].
Example ex_like_ok : like_wf ex_pattern = true /\ has_one ex_pattern = false /\
                     like_print ex_pattern = [84; 104; 91; 105; 97; 93; 91; 116; 115; 93; 37] /\
                     like_spec ex_pattern [84; 104; 97; 116; 32; 105; 115] = true /\
                     like_spec ex_pattern [84; 104; 101; 110] = false.
Proof. repeat split; vm_compute; reflexivity. Qed.

(* a malformed clause the server accepts: a loop through elements 0 and 1 *)
Definition ex_loop : case := CFilter [] (Some [mk_el Not (Some [OElem 1]); mk_el Not (Some [OElem 0])]).
Example ex_loop_ok : run ex_loop = [0; 2] /\ reference [] (snd (filter_of ex_loop)) = None.
Proof. split; vm_compute; reflexivity. Qed.

(* ---- observation (not part of the property text): evaluation work -------------------------------
   More than one path to an element is legal (Part 4), and every path re-evaluates the element: the
   evaluator does the work of the unfolded tree (evaluate_agrees follows it operand by operand).  For the
   chain And(1,1), And(2,2), ..., Not(false) the tree doubles with every element. *)
Fixpoint dag_from (i : Z) (n : nat) : list element :=
  match n with
  | O => []
  | S O => [mk_el Not (Some [OLit (VBool false)])]
  | S n' => mk_el And (Some [OElem (i + 1); OElem (i + 1)]) :: dag_from (i + 1) n'
  end.
Fixpoint tree_size (e : expr) : nat :=
  match e with
  | XOp _ args => S (fold_right (fun x acc => tree_size x + acc)%nat O args)
  | _ => 1%nat
  end.
Example dag_tree_doubles :
  option_map (fun e => Z.of_nat (tree_size e)) (unfold_clause (dag_from 0 8)) = Some 383 /\
  option_map (fun e => Z.of_nat (tree_size e)) (unfold_clause (dag_from 0 12)) = Some 6143 /\
  run (CFilter [] (Some (dag_from 0 12))) = [1; 1].
Proof. repeat split; vm_compute; reflexivity. Qed.
