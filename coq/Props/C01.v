(* C01 — Binary encoding round-trips every valid value exactly.  Statements only.

   codec_ok c says, for every well-formed value a of the codec c (wf: integer ranges, valid UTF-8,
   lengths below 2^31, array elements of the declared type, dimensions multiplying to the length,
   picoseconds only with their timestamp):
     blen c a = number of bytes enc c a writes, every one of them a byte, and for all options o with
     client_offset 0, every remaining depth d and every continuation rest,
       run (dec c o d) (enc c a ++ rest) = Ok (norm c a, rest)     if chk c o d a = None
                                        = Err e                   if chk c o d a = Some e
   where chk is the first length-limit or depth violation in decoding order (None exactly when every
   string / byte string / array length is within its limit and the nesting within the depth,
   theorem C01_within_limits) and norm is the documented normalisation (DateTime clamped to
   1601..9999, null/empty LocalizedText parts, dimensions of empty arrays). *)
From Coq Require Import List ZArith.
Import ListNotations.
From OV Require Import C01.Codec C01.CodecProofs C01.Builtins C01.VariantProofs C01.Types C01.TypesProofs
  C01.Model C01.Proofs C01.DecodedWf C01.Argument C01.ArgumentProofs Gen.C01ServiceTypes.
Open Scope Z_scope.

(* every built-in type (k = encoding mask 1..22, 25), Variant and DataValue *)
Theorem C01_builtins :
  (forall k, codec_ok (scalar_codec k)) /\ codec_ok variant_codec /\ codec_ok dv_codec.
Proof. split; [exact scalar_codec_ok|split; [exact variant_codec_ok|exact dv_codec_ok]]. Qed.
Print Assumptions C01_builtins.

(* every type built from them: arrays, field lists (generated structures), enumerations, flag sets,
   nested arbitrarily *)
Theorem C01_types : forall t, codec_ok (ty_codec t).
Proof. exact ty_codec_ok. Qed.
Print Assumptions C01_types.

(* every generated structure and enumeration of service_types/ (field lists produced by
   tools/translate/c01_service_types.py, which also checks that struct, byte_len, encode and decode
   list the same fields in the same order), and the request / response headers *)
Theorem C01_generated :
  Forall (fun t => codec_ok (ty_codec t)) Gen.C01ServiceTypes.all_structs /\
  Forall (fun t => codec_ok (ty_codec t)) Gen.C01ServiceTypes.all_enums /\
  length Gen.C01ServiceTypes.all_structs = 283%nat.
Proof.
  split; [|split]; [apply Forall_forall; intros t _; apply ty_codec_ok ..|reflexivity].
Qed.
Print Assumptions C01_generated.

(* the hand-written Argument structure (types/argument.rs, method argument descriptions): the same law;
   wf = what encode() accepts (a positive value_rank comes with exactly that many dimensions); for
   value_rank <= 0 the dimensions are not written and decode as the empty array (norm) *)
Theorem C01_argument : codec_ok arg_codec.
Proof. exact arg_codec_ok. Qed.
Print Assumptions C01_argument.

(* before "fix: Argument byte_len counted array dimensions ...": a scalar argument (value_rank -1) that
   carries one dimension, as decode accepts it from a peer, reported byte_len 21 but wrote 17 bytes *)
Theorem C01_argument_legacy_refuted :
  let a := Arg (Some []) (NId 255 (INum 223)) (-1) (Some [65536]) (SLText None None) in
  wf_arg a /\ LegacyArg.len_arg a = 21 /\ Z.of_nat (length (enc_arg a)) = 17 /\ len_arg a = 17.
Proof. exact legacy_arg_refuted. Qed.
Print Assumptions C01_argument_legacy_refuted.

(* the codec law is preserved by the generic combinators *)
Theorem C01_combinators :
  (forall A B (ca : codec A) (cb : codec B), codec_ok ca -> codec_ok cb -> codec_ok (c_pair ca cb)) /\
  (forall A esize (c : codec A), codec_ok c -> codec_ok (c_array esize c)) /\
  (forall A (cs : list (codec A)), Forall codec_ok cs -> codec_ok (c_struct cs)) /\
  (forall A B inj proj dflt (c : codec A), codec_ok c -> codec_ok (@c_map A B inj proj dflt c)) /\
  (forall A tag payload, (forall t c, payload t = Some c -> codec_ok c) -> codec_ok (@c_sum A tag payload)).
Proof.
  split; [|split; [|split; [|split]]]; intros.
  - apply c_pair_ok; assumption.
  - apply c_array_ok; assumption.
  - apply c_struct_ok; assumption.
  - apply c_map_ok; assumption.
  - apply c_sum_ok; assumption.
Qed.
Print Assumptions C01_combinators.

(* "no violation met while decoding" is exactly "every length within its limit and the nesting within
   the depth", a specification that does not mention decoding order *)
Theorem C01_within_limits : forall o d t v, lim_ok o ->
  (chk_ty t o d v = None <-> fits_ty t o d v = true).
Proof. intros o d t v Hl. rewrite <- (fits_chk_ty o d Hl t v). symmetry. apply is_none_true. Qed.
Print Assumptions C01_within_limits.

(* the round trip in one statement: a well-formed value within the limits, embedded in front of any
   bytes, decodes to its normal form and leaves exactly those bytes; byte_len is the bytes written *)
Theorem C01_roundtrip : forall t v o rest, wf_ty t v -> plain o -> fits_ty t o (depth0 o) v = true ->
  len_ty t v = zlen (enc_ty t v) /\
  Codec.run (dec_ty t o (depth0 o)) (enc_ty t v ++ rest) = Ok (norm_ty t v, rest).
Proof. exact roundtrip. Qed.
Print Assumptions C01_roundtrip.

Theorem C01_oracle : forall c, valid c -> known c = 0 -> oracle c (Model.run c) = true.
Proof. exact oracle_holds. Qed.
Print Assumptions C01_oracle.

(* Everything a decoder accepts from a byte string is a well-formed value (never a panic), so the law
   above applies to it; stated for every type descriptor whose enumeration widths are positive
   (ty_sane; all generated descriptors are: C01_generated_sane) *)
Theorem C01_decoded_wf : forall o d t bs, offset_ns o = 0 -> ty_sane t -> byte_list bs ->
  match Codec.run (dec_ty t o d) bs with
  | Ok (v, rest) => wf_ty t v /\ byte_list rest
  | Err _ => True
  | Panic _ => False
  end.
Proof. exact decoded_wf_run. Qed.
Print Assumptions C01_decoded_wf.

Theorem C01_generated_sane : Forall ty_sane Gen.C01ServiceTypes.all_structs.
Proof. exact all_structs_sane. Qed.
Print Assumptions C01_generated_sane.

(* hence: whatever bytes are accepted, re-encoding the decoded value and decoding again (embedded in
   front of any bytes) gives the value's normal form and consumes exactly the re-encoding *)
Theorem C01_accepted_bytes_roundtrip : forall t o bs v rest more, plain o -> ty_sane t -> byte_list bs ->
  Codec.run (dec_ty t o (depth0 o)) bs = Ok (v, rest) -> fits_ty t o (depth0 o) v = true ->
  Codec.run (dec_ty t o (depth0 o)) (enc_ty t v ++ more) = Ok (norm_ty t v, more).
Proof. exact accepted_bytes_roundtrip. Qed.
Print Assumptions C01_accepted_bytes_roundtrip.

(* the oracle on the model for the bytes cases, without the hypotheses on the decoded value that
   `valid` carries *)
Theorem C01_oracle_bytes : forall t o bs, plain o -> ty_sane t -> byte_list bs ->
  oracle (CBytes t o bs) (Model.run (CBytes t o bs)) = true.
Proof. exact oracle_bytes_holds. Qed.
Print Assumptions C01_oracle_bytes.

(* before "fix: empty variant arrays with dimensions ...": the empty Int32 array with dimensions
   Some [] was written as 9 bytes of which its own decoder consumes 5 *)
Theorem C01_legacy_refuted :
  let o := mk_opts 65535 65535 1000 327675 10 0 in
  let v := VArray 6 [] (Some []) in
  wf_variant v /\ length (Legacy.enc_variant v) = 9%nat /\
  exists v' rest', Codec.run (dec_variant o 10) (Legacy.enc_variant v) = Ok (v', rest') /\ length rest' = 4%nat.
Proof. exact legacy_refuted. Qed.
Print Assumptions C01_legacy_refuted.
