(* C17 — Signature data verifies exactly when made by the right key over the right data. *)
From Coq Require Import List ZArith Bool.
Import ListNotations.
From OV Require Import C17.Model C17.Proofs C17.Bytes.
Open Scope Z_scope.

Theorem C17_completeness : forall (key pubkey : Type) (pub : key -> pubkey)
  (sign : alg -> key -> list Z -> list Z) (verify : alg -> pubkey -> list Z -> list Z -> bool),
  (forall a k d, verify a (pub k) d (sign a k d) = true) ->
  forall p k cert nonce,
  verify_data pubkey verify p (create key sign p k cert nonce) (pub k) cert nonce = true.
Proof. exact completeness. Qed.
Print Assumptions C17_completeness.

Theorem C17_concat_injective : forall cert nonce cert' nonce',
  der_wf cert = true -> der_wf cert' = true ->
  cert ++ nonce = cert' ++ nonce' -> cert = cert' /\ nonce = nonce'.
Proof. exact concat_injective. Qed.
Print Assumptions C17_concat_injective.

Theorem C17_soundness_reduction : forall (key pubkey : Type) (pub : key -> pubkey)
  (verify : alg -> pubkey -> list Z -> list Z -> bool) p (k : key) cert nonce cert' nonce' signature,
  der_wf cert = true -> der_wf cert' = true -> (cert', nonce') <> (cert, nonce) ->
  verify_data pubkey verify p signature (pub k) cert' nonce' = true ->
  exists d, d <> cert ++ nonce /\ verify (alg_of p) (pub k) d signature = true.
Proof. intros key pubkey pub verify. exact (soundness_reduction key pubkey pub verify). Qed.
Print Assumptions C17_soundness_reduction.

(* The table model the implementation is compared with IS the code model: create / verify_data
   (signed data DER(certificate) ++ nonce, algorithm of the policy) run with an ideal signature
   scheme on bytes - which satisfies the law C17_completeness assumes - give, for every case with
   real certificates and every way the harness touches the signature, the verdict of [run]. *)
Theorem C17_code_model_is_table_model : forall c, coherent c -> run_bytes c = run c.
Proof. exact run_bytes_eq. Qed.
Print Assumptions C17_code_model_is_table_model.

Theorem C17_ideal_scheme_lawful : forall a k d, ideal_verify a k d (ideal_sign a k d) = true.
Proof. exact ideal_sign_verifies. Qed.
Print Assumptions C17_ideal_scheme_lawful.

(* under the ideal scheme a signature that was touched in any way (bit flip, truncation, extension,
   emptied) is refused whatever certificate, nonce, key and policy the verifier expects *)
Theorem C17_touched_signature_rejected : forall m a a' k k' d d', m <> SigIntact ->
  ideal_verify a' k' d' (mutate m (ideal_sign a k d)) = false.
Proof. exact touched_rejected. Qed.
Print Assumptions C17_touched_signature_rejected.

Theorem C17_oracle : forall c : case, valid c = true -> known c = 0 -> oracle c (run c) = true.
Proof. intros c Hv _. apply oracle_holds. exact Hv. Qed.
Print Assumptions C17_oracle.
