(* C06 — facts about the float operations of the model, from Flocq's specifications. *)
From Coq Require Import List ZArith Bool Lia Reals Lra.
From Flocq Require Import Core IEEE754.BinarySingleNaN.
From OV Require Import C06.Model C06.Spec.
Import ListNotations.
Open Scope Z_scope.

Lemma F2R_exp0 : forall m : Z, F2R (Float radix2 m 0) = IZR m.
Proof. intros m. unfold F2R. simpl. ring. Qed.

Lemma F2R_nonneg_exp : forall m e : Z, 0 <= e -> F2R (Float radix2 m e) = IZR (m * 2 ^ e).
Proof.
  intros m e He. unfold F2R. simpl Fnum. simpl Fexp.
  rewrite mult_IZR. f_equal. rewrite <- (IZR_Zpower radix2 e He). reflexivity.
Qed.

Section Fmt.
  Context (prec emax : Z) {Hp : Prec_gt_0 prec} {Hm : Prec_lt_emax prec emax}.
  Hypothesis Hemax : 64 < emax.
  Notation bf := (binary_float prec emax).
  Notation fexp := (FLT_exp (3 - emax - prec) prec).

  Lemma exact_Z_correct : forall (f : bf) z, exact_Z f = Some z -> B2R f = IZR z /\ is_finite f = true.
  Proof.
    intros [s | s | | s m e Hb] z; cbn [exact_Z]; try discriminate.
    - intros [= <-]. split; reflexivity.
    - destruct (0 <=? e) eqn:He.
      + intros [= <-]. split; [|reflexivity].
        apply Z.leb_le in He. cbn [B2R]. apply F2R_nonneg_exp. exact He.
      + destruct (Z.pos m mod 2 ^ (- e) =? 0) eqn:Hd; [|discriminate].
        intros [= <-]. split; [|reflexivity].
        apply Z.leb_gt in He. apply Z.eqb_eq in Hd. cbn [B2R].
        rewrite F2R_cond_Zopp, IZR_cond_Zopp. f_equal.
        assert (Hk : 0 < 2 ^ (- e)) by (apply Z.pow_pos_nonneg; lia).
        assert (Hq : Z.pos m = 2 ^ (- e) * (Z.pos m / 2 ^ (- e))) by (apply Z.div_exact; lia).
        unfold F2R. cbn [Fnum Fexp]. rewrite Hq at 1. rewrite mult_IZR.
        change 2 with (radix_val radix2) at 1. rewrite IZR_Zpower by lia.
        replace (bpow radix2 e) with (/ bpow radix2 (- e))%R by (rewrite <- bpow_opp; f_equal; lia).
        field. apply Rgt_not_eq. apply bpow_gt_0.
  Qed.

  (* n as f *)
  Lemma f_of_Z_correct : forall n, Z.abs n <= 2 ^ 64 ->
    B2R (f_of_Z prec emax n) = round radix2 fexp ZnearestE (IZR n) /\
    is_finite (f_of_Z prec emax n) = true.
  Proof.
    intros n Hn. unfold f_of_Z.
    generalize (binary_normalize_correct prec emax Hp Hm mode_NE n 0 false).
    cbv zeta. rewrite F2R_exp0. cbn [round_mode].
    rewrite Rlt_bool_true.
    - intros (H1 & H2 & _). split; assumption.
    - apply Rle_lt_trans with (bpow radix2 64).
      + apply abs_round_le_generic; [apply FLT_exp_valid; exact Hp | apply valid_rnd_N | |].
        * apply generic_format_bpow'; [apply FLT_exp_valid; exact Hp|].
          unfold SpecFloat.fexp, SpecFloat.emin, FLT_exp. unfold Prec_gt_0 in Hp. unfold Prec_lt_emax in Hm. lia.
        * rewrite <- abs_IZR. rewrite <- (IZR_Zpower radix2 64) by lia. apply IZR_le. exact Hn.
      + apply bpow_lt. exact Hemax.
  Qed.

  (* f::round *)
  Lemma f_round_correct : forall x : bf,
    B2R (f_round prec emax x) = IZR (ZnearestA (B2R x)) /\
    is_finite (f_round prec emax x) = is_finite x.
  Proof.
    intros x. unfold f_round.
    destruct (Bnearbyint_correct prec emax Hm mode_NA x) as (H1 & H2 & _).
    split; [|exact H2]. rewrite H1. cbn [round_mode]. apply round_FIX_IZR.
  Qed.

  (* x as iB for an integral x inside lo..hi *)
  Lemma f_to_int_sat_exact : forall (x : bf) (k lo hi : Z),
    is_finite x = true -> B2R x = IZR k -> lo <= k <= hi -> f_to_int_sat prec emax lo hi x = k.
  Proof.
    intros x k lo hi Hf Hx Hk.
    assert (Ht : Btrunc x = k).
    { apply eq_IZR. rewrite (Btrunc_correct prec emax Hm). rewrite round_FIX_IZR.
      rewrite Hx. rewrite Ztrunc_IZR. reflexivity. }
    destruct x as [s | s | | s m e Hb]; try discriminate; cbn [f_to_int_sat]; rewrite Ht; lia.
  Qed.

  (* the float-domain range test of cast_float_to_integer!, given that its two bounds are exact *)
  Lemma f_macro_correct : forall (lo hi : Z) (x : bf),
    exact_Z (f_of_Z prec emax lo) = Some lo ->
    exact_Z (f_upper prec emax true hi) = Some (hi + 1) ->
    f_macro prec emax OGe OLt true lo hi (f_round prec emax x) =
    if is_finite x && (lo <=? ZnearestA (B2R x)) && (ZnearestA (B2R x) <=? hi)
    then Some (ZnearestA (B2R x)) else None.
  Proof.
    intros lo hi x Hlo Hhi.
    apply exact_Z_correct in Hlo as [Rlo Flo]. apply exact_Z_correct in Hhi as [Rhi Fhi].
    destruct (f_round_correct x) as [Rr Fr]. set (k := ZnearestA (B2R x)) in *.
    unfold f_macro, f_cmp.
    destruct (is_finite x) eqn:Fx.
    - rewrite Bleb_correct by assumption. rewrite Bltb_correct by assumption.
      rewrite Rlo, Rhi, Rr. cbn [andb].
      destruct (Rle_bool_spec (IZR lo) (IZR k)) as [H1|H1];
      destruct (Rlt_bool_spec (IZR k) (IZR (hi + 1))) as [H2|H2]; cbn [andb].
      + apply le_IZR in H1. apply lt_IZR in H2.
        replace (lo <=? k) with true by (symmetry; apply Z.leb_le; lia).
        replace (k <=? hi) with true by (symmetry; apply Z.leb_le; lia). cbn [andb].
        f_equal. apply f_to_int_sat_exact; [assumption | assumption | lia].
      + apply le_IZR in H2. replace (k <=? hi) with false by (symmetry; apply Z.leb_gt; lia).
        rewrite andb_false_r. reflexivity.
      + apply lt_IZR in H1. replace (lo <=? k) with false by (symmetry; apply Z.leb_gt; lia). reflexivity.
      + apply lt_IZR in H1. replace (lo <=? k) with false by (symmetry; apply Z.leb_gt; lia). reflexivity.
    - cbn [andb].
      (* NaN and infinities fail one of the two comparisons whatever the finite bounds are *)
      destruct x as [s | s | | s m e Hb]; try discriminate.
      + (* infinity *)
        unfold f_round. cbn [Bnearbyint].
        destruct (f_of_Z prec emax lo) as [s1 | s1 | | s1 m1 e1 Hb1]; try discriminate;
        destruct (f_upper prec emax true hi) as [s2 | s2 | | s2 m2 e2 Hb2]; try discriminate;
        destruct s, s1, s2; reflexivity.
      + unfold f_round. cbn [Bnearbyint].
        destruct (f_of_Z prec emax lo) as [s1 | s1 | | s1 m1 e1 Hb1]; try discriminate; reflexivity.
  Qed.
End Fmt.

Lemma ZnearestA_IZR : forall n : Z, ZnearestA (IZR n) = n.
Proof.
  intros n. apply Znearest_imp. unfold Rminus. rewrite Rplus_opp_r. rewrite Rabs_R0. lra.
Qed.

Lemma opt_Z_eqb_eq : forall a b, opt_Z_eqb a b = true -> a = Some b.
Proof. intros [x|] b; cbn; [|discriminate]. intros H. apply Z.eqb_eq in H. congruence. Qed.

Lemma bounds_exact_spec : forall prec emax (Hp : Prec_gt_0 prec) (Hm : Prec_lt_emax prec emax) s b,
  bounds_exact prec emax true s b = true ->
  exact_Z (f_of_Z prec emax (pmin s b)) = Some (pmin s b) /\
  exact_Z (f_upper prec emax true (pmax s b)) = Some (pmax s b + 1).
Proof.
  intros prec emax Hp Hm s b H. unfold bounds_exact in H. apply andb_true_iff in H as [H1 H2].
  split; apply opt_Z_eqb_eq; assumption.
Qed.

(* ---- conversions between the two formats ---- *)

Lemma f32_in_f64 : forall x : f32, generic_format radix2 (FLT_exp (-1074) 53) (B2R x).
Proof.
  intros x. apply generic_format_FLT.
  destruct (FLT_format_generic radix2 (-149) 24 (B2R x) (generic_format_B2R 24 128 x)) as [f Hf1 Hf2 Hf3].
  exists f; [exact Hf1 | | lia].
  apply Z.lt_le_trans with (1 := Hf2). apply Zpower_le. lia.
Qed.

Lemma f32_to_f64_correct : forall x : f32,
  B2R (f32_to_f64 x) = B2R x /\ f_class (f32_to_f64 x) = f_class x.
Proof.
  intros [s | s | | s m e Hb]; try (split; reflexivity).
  cbn [f32_to_f64].
  generalize (binary_normalize_correct 53 1024 prec64 emax64 mode_NE (cond_Zopp s (Zpos m)) e s).
  cbv zeta. cbn [round_mode].
  change (F2R (Float radix2 (cond_Zopp s (Zpos m)) e)) with (B2R (B754_finite s m e Hb : f32)).
  set (x := (B754_finite s m e Hb : f32)).
  rewrite (round_generic radix2 (SpecFloat.fexp 53 1024) ZnearestE (B2R x)) by apply f32_in_f64.
  rewrite Rlt_bool_true.
  - intros (H1 & H2 & _). split; [exact H1|].
    destruct (binary_normalize 53 1024 prec64 emax64 mode_NE (cond_Zopp s (Z.pos m)) e s); try discriminate; reflexivity.
  - apply Rlt_trans with (bpow radix2 128).
    + apply abs_B2R_lt_emax.
    + apply bpow_lt. lia.
Qed.

Lemma f64_to_f32_correct : forall x : f64,
  is_finite x = true ->
  (Rabs (round radix2 (FLT_exp (-149) 24) ZnearestE (B2R x)) < bpow radix2 128)%R ->
  B2R (f64_to_f32 x) = round radix2 (FLT_exp (-149) 24) ZnearestE (B2R x) /\
  is_finite (f64_to_f32 x) = true.
Proof.
  intros [s | s | | s m e Hb] Hf Hlt; try discriminate.
  - cbn. rewrite round_0 by apply valid_rnd_N. split; reflexivity.
  - cbn [f64_to_f32].
    generalize (binary_normalize_correct 24 128 prec32 emax32 mode_NE (cond_Zopp s (Zpos m)) e s).
    cbv zeta. cbn [round_mode].
    change (F2R (Float radix2 (cond_Zopp s (Zpos m)) e)) with (B2R (B754_finite s m e Hb : f64)).
    rewrite Rlt_bool_true by exact Hlt.
    intros (H1 & H2 & _). split; assumption.
Qed.
