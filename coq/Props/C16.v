(* C16 — statements only (stub, to be completed) *)
From Coq Require Import List ZArith Bool.
From OV Require Import C16.Model C16.Proofs.
Open Scope Z_scope.
