(* C29: assembling termination, the characterisation of delete and the specification. *)
From Coq Require Import List ZArith Bool Lia.
Import ListNotations.
From OV Require Import C28.Refs C28.RefsFacts C28.RefsProofs.
From OV Require C28.Model C28.Proofs.
From OV Require Import C29.Model C29.Reach C29.TypeMatch C29.DeleteTerm C29.DeleteChar.
Open Scope Z_scope.

(* ---- lists ------------------------------------------------------------------------------------ *)
Lemma filter_none {A} (p : A -> bool) l : (forall x, In x l -> p x = false) -> filter p l = [].
Proof.
  induction l as [|x l IH]; cbn; intros H; [reflexivity|].
  rewrite (H x (or_introl eq_refl)). apply IH. intros y Hy. apply H. right. exact Hy.
Qed.

Lemma filter_map_swap {A B} (f : A -> B) (q : B -> bool) l :
  filter q (map f l) = map f (filter (fun x => q (f x)) l).
Proof.
  induction l as [|x l IH]; cbn; [reflexivity|]. destruct (q (f x)); cbn; rewrite IH; reflexivity.
Qed.

Lemma memZ_filter x p l : memZ x (filter p l) = memZ x l && p x.
Proof.
  apply eq_true_iff_eq. rewrite andb_true_iff, !memZ_In, filter_In. tauto.
Qed.

Lemma memZ_ext l1 l2 : (forall x, In x l1 <-> In x l2) -> forall x, memZ x l1 = memZ x l2.
Proof. intros H x. apply eq_true_iff_eq. rewrite !memZ_In. apply H. Qed.

(* ---- the forward buckets of a set of triples ------------------------------------------------ *)
Definition proj (y : Z) (X : list triple) : list ref :=
  map (fun x => (typ x, tgt x)) (filter (fun x => src x =? y) X).

Lemma proj_In y X ty t : In (ty, t) (proj y X) <-> In (y, ty, t) X.
Proof.
  unfold proj. rewrite in_map_iff. split.
  - intros ([[a b] c] & He & Hf). apply filter_In in Hf. destruct Hf as [Hf Hs].
    unfold src, typ, tgt, C28.Model.src, C28.Model.typ, C28.Model.tgt in *. cbn in *.
    apply Z.eqb_eq in Hs. inversion He; subst. exact Hf.
  - intros H. exists (y, ty, t). split; [reflexivity|]. apply filter_In. split; [exact H|].
    unfold src, C28.Model.src. cbn. apply Z.eqb_refl.
Qed.

Lemma proj_app y X x :
  proj y (X ++ [x]) = proj y X ++ (if src x =? y then [(typ x, tgt x)] else []).
Proof. unfold proj. rewrite filter_app, map_app. cbn [filter]. destruct (src x =? y); reflexivity. Qed.

Lemma triple_eta (x : triple) : x = (src x, typ x, tgt x).
Proof. destruct x as [[a b] c]. reflexivity. Qed.

(* ---- building the state of a case ------------------------------------------------------------- *)
Lemma build_refs_spec xs : forall st acc st', Inv st -> (forall y, F st y = proj y acc) ->
  build_refs st xs = Ok st' ->
  Inv st' /\ forall y, F st' y = proj y (ref_set acc xs).
Proof.
  induction xs as [|x xs IH]; intros st acc st' HI HF E; cbn [build_refs ref_set] in *.
  - inversion E; subst. auto.
  - destruct (insert_reference st (src x) (tgt x) (typ x)) as [st1|] eqn:E1; [|discriminate].
    assert (Hne : src x <> tgt x).
    { intros He. rewrite He, insert_self in E1. discriminate. }
    destruct (insert_ok st (src x) (tgt x) (typ x) Hne) as (st2 & E2 & HF2 & _).
    rewrite E1 in E2. inversion E2; subst st2; clear E2.
    destruct (insert_inv st _ _ _ st1 HI E1) as [HI1 _].
    apply (IH st1 _ st' HI1); [|exact E].
    intros y. rewrite HF2.
    assert (Hm : C28.Model.mem3 x acc = mem_ref (typ x, tgt x) (F st (src x))).
    { apply eq_true_iff_eq. rewrite C28.Proofs.mem3_In, mem_ref_In, HF, proj_In.
      rewrite <- triple_eta. tauto. }
    rewrite Hm. destruct (mem_ref (typ x, tgt x) (F st (src x))).
    + destruct (Z.eqb_spec y (src x)) as [->|]; apply HF.
    + rewrite proj_app, (Z.eqb_sym (src x) y). destruct (y =? src x) eqn:Ey.
      * apply Z.eqb_eq in Ey. subst y. rewrite HF. reflexivity.
      * rewrite app_nil_r. apply HF.
Qed.

Lemma build_refs_ok xs : forallb (fun x => negb (src x =? tgt x)) xs = true ->
  forall st, exists st', build_refs st xs = Ok st'.
Proof.
  induction xs as [|x xs IH]; cbn [forallb build_refs]; intros H st; [eexists; reflexivity|].
  apply andb_true_iff in H. destruct H as [Hx H]. apply negb_true_iff, Z.eqb_neq in Hx.
  destruct (insert_ok st _ _ (typ x) Hx) as (st1 & -> & _). apply IH, H.
Qed.

Lemma build_nodes_ok ns : forall acc, nodupb_from acc ns = true -> build_nodes acc ns = Some (acc ++ ns).
Proof.
  induction ns as [|n ns IH]; intros acc H; cbn [nodupb_from build_nodes] in *.
  - rewrite app_nil_r. reflexivity.
  - apply andb_true_iff in H. destruct H as [Hn H]. apply negb_true_iff in Hn. rewrite Hn.
    rewrite (IH _ H), <- app_assoc. reflexivity.
Qed.

Lemma build_valid c : valid c -> exists r,
  build c = Built (mk_astate (c_nodes c) r) /\ Inv r /\
  forall y, F r y = proj y (ref_set [] (c_refs c)).
Proof.
  unfold valid, validb. intros H. apply andb_true_iff in H. destruct H as [H _].
  apply andb_true_iff in H. destruct H as [Hn Hs].
  unfold build. unfold nodupb in Hn. rewrite (build_nodes_ok _ _ Hn). cbn [app].
  destruct (build_refs_ok _ Hs empty_refs) as (r & E). rewrite E.
  destruct (build_refs_spec _ empty_refs [] r Inv_empty (fun y => eq_refl) E) as [HI HF].
  exists r. auto.
Qed.

(* ---- aggregating reference types: the code's search = reachability in the specification ---- *)
Lemma Reach_RReach L a b : Reach L a b <-> RReach (fun x w => In (x, w) L) a b.
Proof.
  split; intros H.
  - induction H as [|x c _ IH Hin]; [constructor|]. exact (RReach_step _ a x c IH Hin).
  - induction H as [|x c _ IH Hin]; [constructor|]. exact (Reach_step L a x c IH Hin).
Qed.

Lemma sub_rel_spec r X : (forall y, F r y = proj y X) ->
  forall x w, sub_rel (fwd r) x w <-> In (x, w) (subtype_edges X).
Proof.
  intros HF x w. unfold sub_rel, subs. change (bucket x (fwd r)) with (F r x). rewrite HF.
  unfold subtype_edges. rewrite !in_map_iff. split.
  - intros ([ty t] & Hs & Hin). cbn in Hs. subst t. apply filter_In in Hin. destruct Hin as [Hin H45].
    unfold is_subtype_ref in H45. cbn in H45. apply proj_In in Hin.
    exists (x, ty, w). split; [reflexivity|]. apply filter_In. split; [exact Hin|exact H45].
  - intros (q & He & Hin). apply filter_In in Hin. destruct Hin as [Hin H45].
    rewrite (triple_eta q) in Hin. inversion He; subst. exists (typ q, tgt q). split; [reflexivity|].
    apply filter_In. split; [apply proj_In; exact Hin|exact H45].
Qed.

Lemma agg_spec r X : (forall y, F r y = proj y X) -> forall ty, tmA (fwd r) ty = aggregating X ty.
Proof.
  intros HF ty. apply eq_true_iff_eq. unfold tmA, aggregating.
  rewrite type_matches_spec, memZ_In, reach_spec, Reach_RReach.
  split; apply RReach_ext; intros x y H; apply (sub_rel_spec r X HF); exact H.
Qed.

(* ---- the set of deleted ids = the doomed set of the specification ----------------------------- *)
Lemma child_edges_In X ns a b :
  In (a, b) (child_edges X ns) <->
  exists ty, In (a, ty, b) X /\ aggregating X ty = true /\ In a ns /\ In b ns.
Proof.
  unfold child_edges. rewrite in_map_iff. split.
  - intros (q & He & Hin). apply filter_In in Hin. destruct Hin as [Hin Hc].
    apply andb_true_iff in Hc. destruct Hc as [Hc Hb]. apply andb_true_iff in Hc. destruct Hc as [Ha Hs].
    apply memZ_In in Hb. apply memZ_In in Hs.
    rewrite (triple_eta q) in Hin. inversion He; subst. exists (typ q). auto.
  - intros (ty & Hin & Ha & Hs & Hb). exists (a, ty, b). split; [reflexivity|]. apply filter_In.
    split; [exact Hin|]. rewrite !andb_true_iff. split; [split; [exact Ha|]|]; apply memZ_In; assumption.
Qed.

Section Case.
  Variable c : case.
  Variable r0 : refs.
  Hypothesis Hv : valid c.
  Hypothesis HI0 : Inv r0.
  Hypothesis HF0 : forall y, F r0 y = proj y (ref_set [] (c_refs c)).

  Let X := ref_set [] (c_refs c).
  Let st0 := mk_astate (c_nodes c) r0.

  Lemma valid_ok : forall d, d = c_target c \/ In d (c_nodes c) -> agg st0 d = false.
  Proof.
    intros d Hd. unfold agg. cbn [rs st0]. rewrite (agg_spec r0 X HF0).
    unfold valid, validb in Hv. apply andb_true_iff in Hv. destruct Hv as [_ H].
    rewrite forallb_forall in H. apply negb_true_iff. apply H.
    destruct Hd as [->|Hd]; [left; reflexivity|right; exact Hd].
  Qed.

  Lemma deleted_is_doomed b st' D :
    delete st0 (c_target c) (c_dtr c) = Some (b, st') ->
    In (c_target c) D ->
    (forall x r, In x D -> In x (nodes st0) -> In r (F (rs st0) x) -> agg st0 (fst r) = true ->
                 In (snd r) (nodes st0) -> In (snd r) D) ->
    (forall C, closedset st0 C -> In (c_target c) C -> incl D C) ->
    forall x, In x D <-> In x (doomed X (c_nodes c) (c_target c)).
  Proof.
    intros _ Ht Hcl Hmin x. unfold doomed. split.
    - apply Hmin.
      + intros y q Hy Hy0 Hq Ha Hn. cbn [rs nodes st0] in *. apply reach_closed with (s := y); [exact Hy|].
        apply child_edges_In. exists (fst q). split; [|split; [|split; [exact Hy0|exact Hn]]].
        * apply proj_In. rewrite <- HF0. destruct q; exact Hq.
        * unfold agg in Ha. cbn [rs st0] in Ha. rewrite (agg_spec r0 X HF0) in Ha. exact Ha.
      + apply reach_spec. constructor.
    - intros Hx. apply reach_spec in Hx. revert x Hx. apply Reach_closed; [|exact Ht].
      intros s y Hs Hin. apply child_edges_In in Hin. destruct Hin as (ty & Hin & Ha & Hs0 & Hb).
      apply (Hcl s (ty, y)); cbn [fst snd rs nodes st0]; auto.
      + rewrite HF0. apply proj_In. exact Hin.
      + unfold agg. cbn [rs st0]. rewrite (agg_spec r0 X HF0). exact Ha.
  Qed.

  Lemma proj_survivors D n :
    proj n (filter (fun x => notin D (src x) && notin D (tgt x)) X)
    = if memZ n D then [] else filter (fun q => notin D (snd q)) (proj n X).
  Proof.
    unfold proj. rewrite filter_filter'. destruct (memZ n D) eqn:En.
    - rewrite filter_none; [reflexivity|]. intros x _.
      destruct (Z.eqb_spec (src x) n) as [->|]; [|apply andb_false_r].
      unfold notin. rewrite En. reflexivity.
    - rewrite filter_map_swap, filter_filter'. f_equal. apply filter_ext. intros x. cbn [snd].
      destruct (Z.eqb_spec (src x) n) as [->|]; [|rewrite andb_false_r; reflexivity].
      unfold notin at 1. rewrite En. cbn [negb andb]. rewrite andb_true_r. reflexivity.
  Qed.

  Lemma dump_fwd_buckets r univ : wfm (fwd r) ->
    C28.Model.dump_fwd r univ
    = flat_map (fun n => match F r n with
                         | [] => []
                         | b => n :: Z.of_nat (length b) :: C28.Model.flat_pairs b
                         end) univ.
  Proof.
    intros Hw. unfold C28.Model.dump_fwd. apply flat_map_ext. intros n. unfold F, bucket.
    destruct (get n (fwd r)) as [b|] eqn:E; [|reflexivity].
    destruct b; [contradiction (Hw n)|reflexivity].
  Qed.

  (* the model's output is the specified one *)
  Lemma observe_spec b st' : delete st0 (c_target c) (c_dtr c) = Some (b, st') ->
    exists dump, observe c (Some (b, st')) = Z.b2z b :: (spec_body c ++ [-8]) ++ dump.
  Proof.
    intros E.
    destruct (delete_char st0 (c_dtr c) HI0 (fun d H => valid_ok d (or_intror H)) (c_target c) b st'
                          (valid_ok _ (or_introl eq_refl)) E) as (D & HR & Ht & Hcl & Hmin).
    pose proof (deleted_is_doomed b st' D E Ht Hcl Hmin) as HD.
    pose proof (memZ_ext _ _ HD) as HmD.
    eexists. unfold observe, spec_body. fold X. cbn [app]. f_equal. f_equal.
    rewrite <- !app_assoc. f_equal.
    - (* surviving nodes *)
      apply filter_ext. intros x. rewrite (rel_nodes _ _ _ _ HR). cbn [nodes st0].
      rewrite memZ_filter. unfold notin. rewrite HmD. reflexivity.
    - cbn [app]. f_equal. apply f_equal2; [|reflexivity].
      rewrite dump_fwd_buckets; [|apply (inv_wf_fwd _ (rel_inv _ _ _ _ HR))].
      apply flat_map_ext. intros n. rewrite (rel_F _ _ _ _ HR). unfold Fexp. cbn [rs st0].
      destruct (c_dtr c).
      + rewrite (filter_ext (fun x : C28.Model.triple => negb (memZ (src x) (doomed X (c_nodes c) (c_target c)))
                                             && negb (memZ (tgt x) (doomed X (c_nodes c) (c_target c))))
                            (fun x : C28.Model.triple => notin D (src x) && notin D (tgt x))).
        * pose proof (proj_survivors D n) as PS. unfold proj in PS. rewrite PS, HF0. reflexivity.
        * intros x. unfold notin. rewrite !HmD. reflexivity.
      + rewrite HF0. reflexivity.
  Qed.
End Case.

Lemma run_spec c : valid c -> exists ret dump,
  (ret = 0 \/ ret = 1) /\ run c = ret :: (spec_body c ++ [-8]) ++ dump.
Proof.
  intros Hv. destruct (build_valid c Hv) as (r & E & HI & HF). unfold run. rewrite E.
  destruct (delete_terminates (mk_astate (c_nodes c) r) (c_target c) (c_dtr c)) as (b & st' & Ed & _).
  rewrite Ed. destruct (observe_spec c r Hv HI HF b st' Ed) as (dump & Ho).
  exists (Z.b2z b), dump. split; [destruct b; auto|exact Ho].
Qed.

Lemma oracle_holds c : valid c -> oracle c (run c) = true.
Proof.
  intros Hv. destruct (run_spec c Hv) as (ret & dump & Hr & Hrun). rewrite Hrun. unfold oracle.
  rewrite C28.Proofs.prefix_eqb_app, andb_true_r. destruct Hr as [Hr | Hr]; rewrite Hr; reflexivity.
Qed.

(* ---- what delete leaves behind, for every state ---------------------------------------------- *)
Theorem delete_effect st0 target b st' :
  Inv (rs st0) ->
  (forall d, d = target \/ In d (nodes st0) -> tmA (fwd (rs st0)) d = false) ->
  delete st0 target true = Some (b, st') ->
  exists D,
    (* D: the deleted ids; the target, otherwise nodes *)
    In target D /\ incl D (target :: nodes st0) /\
    (* the nodes in D are gone, the other nodes are still there, in the same order *)
    nodes st' = filter (fun x => negb (memZ x D)) (nodes st0) /\
    (* the index invariant still holds *)
    Inv (rs st') /\
    (* exactly the references from or to a deleted id are gone *)
    (forall y r, In r (F (rs st') y) <-> In r (F (rs st0) y) /\ ~ In y D /\ ~ In (snd r) D) /\
    (* the same in the inverse index *)
    (forall d, In d D -> R (rs st') d = [] /\ forall y, ~ In d (R (rs st') y)) /\
    (* every node aggregated by a deleted NODE is deleted *)
    (forall x r, In x D -> In x (nodes st0) -> In r (F (rs st0) x) ->
                 tmA (fwd (rs st0)) (fst r) = true -> In (snd r) (nodes st0) -> In (snd r) D) /\
    (* and nothing else: D is included in every set with that closure property *)
    (forall C, closedset st0 C -> In target C -> incl D C).
Proof.
  intros HI Hok E.
  destruct (delete_char st0 true HI (fun d H => Hok d (or_intror H)) target b st'
                        (Hok _ (or_introl eq_refl)) E) as (D & HR & Ht & Hcl & Hmin).
  exists D.
  assert (InF : forall y r, In r (F (rs st') y) <-> In r (F (rs st0) y) /\ ~ In y D /\ ~ In (snd r) D).
  { intros y r. rewrite (rel_F _ _ _ _ HR). unfold Fexp.
    destruct (memZ y D) eqn:Ey.
    - apply memZ_In in Ey. cbn. tauto.
    - apply memZ_false in Ey. rewrite filter_In. unfold notin. rewrite negb_true_iff, memZ_false. tauto. }
  split; [exact Ht|]. split.
  { apply Hmin; [|left; reflexivity]. intros x r _ _ _ _ Hn. right. exact Hn. }
  split; [exact (rel_nodes _ _ _ _ HR)|]. split; [exact (rel_inv _ _ _ _ HR)|].
  split; [exact InF|]. split; [|split; [exact Hcl|exact Hmin]].
  intros d Hd. pose proof (inv_conv _ (rel_inv _ _ _ _ HR)) as CV. split.
  - destruct (R (rs st') d) as [|s l] eqn:ER; [reflexivity|]. exfalso.
    assert (Hs : In s (R (rs st') d)) by (rewrite ER; left; reflexivity).
    apply CV in Hs. destruct Hs as (ty & Hs). apply InF in Hs. cbn in Hs. tauto.
  - intros y Hy. apply CV in Hy. destruct Hy as (ty & Hy). apply InF in Hy. tauto.
Qed.

(* the flag returned by delete *)
Theorem delete_returns st n dtr b st' : Inv (rs st) ->
  delete st n dtr = Some (b, st') ->
  (b = true <-> In n (nodes st) \/ (dtr = true /\ (F (rs st) n <> [] \/ R (rs st) n <> []))).
Proof.
  intros HI E. unfold delete in E. cbn [delete_fuel] in E.
  destruct dtr.
  - pose proof (delete_node_references_inv (rs st) n HI) as (_ & _ & _ & Hd & _).
    destruct (delete_node_references (rs st) n) as [rt rs1]. cbn [fst] in Hd.
    destruct (dels _ _ _); [|discriminate]. inversion E; subst b.
    rewrite orb_true_iff, memZ_In, Hd. tauto.
  - destruct (dels _ _ _); [|discriminate]. inversion E; subst b.
    rewrite orb_true_iff, memZ_In. split; [intros [H|H]; [auto|discriminate]|].
    intros [H|[H _]]; [auto|discriminate].
Qed.

(* ---- the code before the fixes ---------------------------------------------------------------- *)
(* (1) delete recursed into the children before removing the node: on two nodes that aggregate each
   other the recursion never ends (in the real code: stack overflow, the process aborts) *)
Lemma legacy_cycle_diverges st dtr :
  find_aggregates_of st 1 = Some [2] -> find_aggregates_of st 2 = Some [1] ->
  forall k, Legacy.delete_fuel k dtr st 1 = None /\ Legacy.delete_fuel k dtr st 2 = None.
Proof.
  intros C1 C2. induction k as [|k [I1 I2]]; [split; reflexivity|].
  split; cbn [Legacy.delete_fuel]; [rewrite C1|rewrite C2]; cbn [opt_list]; [rewrite I2|rewrite I1]; reflexivity.
Qed.

Definition cycle2 : case :=
  mk_case [1; 2; 44; 45; 46; 47; 49] [1; 2]
          [(44, 45, 46); (44, 45, 47); (47, 45, 49); (1, 47, 2); (2, 47, 1)] 1 true.
Definition st_of (c : case) : astate :=
  match build c with Built st => st | Failed _ => mk_astate [] empty_refs end.

Lemma legacy_recursion_refuted :
  valid cycle2 /\
  (forall k, Legacy.delete_fuel k true (st_of cycle2) (c_target cycle2) = None) /\
  oracle cycle2 (run cycle2) = true.
Proof.
  split; [vm_compute; reflexivity|]. split; [|vm_compute; reflexivity].
  intros k. apply (legacy_cycle_diverges (st_of cycle2) true); vm_compute; reflexivity.
Qed.

(* (2) reference_type_matches without the visited set: HasProperty -HasSubtype-> Aggregates closes a
   cycle, and the search for a type outside the hierarchy (Organizes) never ends *)
Definition f_cycle : list (Z * list ref) := [(44, [(45, 46)]); (46, [(45, 44)])].

Lemma legacy_type_cycle_refuted :
  (forall k, Legacy.tm_loop k f_cycle 35 [44] = None) /\
  reference_type_matches_opt f_cycle 44 35 true = Some false.
Proof.
  split; [|vm_compute; reflexivity].
  assert (H : forall k, Legacy.tm_loop k f_cycle 35 [44] = None /\ Legacy.tm_loop k f_cycle 35 [46] = None).
  { induction k as [|k [I1 I2]]; [split; reflexivity|]. split.
    - change (Legacy.tm_loop (S k) f_cycle 35 [44]) with (Legacy.tm_loop k f_cycle 35 [46]). exact I2.
    - change (Legacy.tm_loop (S k) f_cycle 35 [46]) with (Legacy.tm_loop k f_cycle 35 [44]). exact I1. }
  intros k. apply H.
Qed.

(* non-trivial instances *)
Example cycle2_effect :
  exists b st', delete (st_of cycle2) 1 true = Some (b, st') /\ nodes st' = [] /\ F (rs st') 1 = [] /\ F (rs st') 44 <> [].
Proof. eexists _, _. split; [vm_compute; reflexivity|]. split; [reflexivity|]. split; [reflexivity|discriminate]. Qed.
