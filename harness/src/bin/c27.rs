//! C27: higher-priority subscriptions are served first.  Drives the real session/subscription
//! machinery (see ../subs2.rs) with several subscriptions of different priorities, data pending
//! on several of them and a scarce supply of publish requests.
#[path = "../util.rs"]
mod util;
#[path = "../subs2.rs"]
mod subs2;
use subs2::*;
use util::*;

pub struct P;

fn sub(prio: i64) -> Op { Op::CreateSub { prio, interval: 1000, kac: 3, life: 1000, enabled: true } }
fn item(sub: i64, var: i64) -> Op { Op::CreateItem { sub, var, mode: 2, samp: -1, qsize: 4, discard_oldest: true } }
fn tick(dt: i64) -> Op { Op::Tick { dt } }
fn publ() -> Op { Op::Publish { dt: 0, hint: 0, acks: vec![] } }
fn wr(v: i64, x: i64) -> Op { Op::Write { v, x } }

impl Property for P {
    type Case = Case;
    fn fixed(tier: &str) -> Vec<Case> {
        let mut v = vec![
            // the design-round witness: priorities 1 and 200 both have data, one request queued:
            // before the fix the priority-1 subscription was answered
            Case { nvars: 1, ops: vec![sub(1), sub(200), item(1, 0), item(2, 0), tick(0), tick(1000), publ(), wr(0, 5), tick(1000), tick(1000)] },
            // two requests, three subscriptions with data
            Case { nvars: 2, ops: vec![sub(5), sub(9), sub(7), item(1, 0), item(2, 1), item(3, 0), tick(0), tick(1000), wr(0, 1), wr(1, 2), tick(1000), publ(), publ(), tick(1000), publ(), publ(), publ(), tick(1000)] },
            // requests arrive after the data: served from the Late state in priority order
            Case { nvars: 1, ops: vec![sub(3), sub(4), item(1, 0), item(2, 0), tick(0), tick(1000), tick(1000), publ(), publ(), publ()] },
            // equal priorities: map order
            Case { nvars: 1, ops: vec![sub(7), sub(7), item(1, 0), item(2, 0), tick(0), tick(1000), publ(), tick(1000)] },
        ];
        if tier == "thorough" {
            // every order of three distinct priorities, 0..3 requests before the data tick
            let prios = [[1, 2, 3], [1, 3, 2], [2, 1, 3], [2, 3, 1], [3, 1, 2], [3, 2, 1]];
            for p in prios.iter() { for nreq in 0..4 {
                let mut ops = vec![sub(p[0]), sub(p[1]), sub(p[2]), item(1, 0), item(2, 0), item(3, 0), tick(0)];
                for _ in 0..nreq { ops.push(publ()); }
                ops.push(tick(1000)); ops.push(wr(0, 9)); ops.push(tick(1000)); ops.push(publ()); ops.push(tick(1000));
                v.push(Case { nvars: 1, ops });
            } }
        }
        v
    }
    fn gen(r: &mut Rng) -> Case {
        let nsubs = 2 + r.below(4) as i64;
        let nvars = 1 + r.below(3) as i64;
        let mut ops = Vec::new();
        // distinct priorities most of the time
        let mut prios: Vec<i64> = Vec::new();
        for _ in 0..nsubs {
            let mut p = r.below(256) as i64;
            if r.chance(5, 6) { while prios.contains(&p) { p = r.below(256) as i64; } }
            prios.push(p);
        }
        let intervals = [1000i64, 1000, 1000, 500, 2000];
        for &p in &prios {
            ops.push(Op::CreateSub { prio: p, interval: *r.pick(&intervals), kac: 1 + r.below(4) as i64, life: 30 + r.below(100) as i64, enabled: !r.chance(1, 12) });
        }
        for s in 1..=nsubs {
            let n = if r.chance(1, 8) { 0 } else { 1 + r.below(2) };
            for _ in 0..n {
                ops.push(Op::CreateItem { sub: s, var: r.below(nvars as u64) as i64, mode: if r.chance(1, 10) { r.below(2) as i64 } else { 2 },
                    samp: *r.pick(&[-1i64, -1, -1, 100, 500, 1000]), qsize: 1 + r.below(4) as i64, discard_oldest: r.chance(1, 2) });
            }
        }
        ops.push(tick(0));
        let n = 6 + r.below(18);
        let mut x = 1;
        for _ in 0..n {
            match r.below(10) {
                0..=2 => { ops.push(wr(r.below(nvars as u64) as i64, x)); x += 1; }
                3..=5 => ops.push(tick(*r.pick(&[1000i64, 1000, 1000, 500, 100, 2000]))),
                6..=8 => { let k = 1 + r.below(3); for _ in 0..k { ops.push(Op::Publish { dt: *r.pick(&[0i64, 0, 100]), hint: 0, acks: vec![] }); } }
                _ => { if r.chance(1, 2) { ops.push(Op::DeleteSub { sub: 1 + r.below(nsubs as u64) as i64 }); } else { ops.push(wr(0, x)); x += 1; ops.push(tick(1000)); } }
            }
        }
        Case { nvars, ops }
    }
    fn exec(c: &Case) -> Out {
        let out = exec_case(c);
        let nsubs = c.ops.iter().filter(|o| matches!(o, Op::CreateSub { .. })).count();
        let nreq = c.ops.iter().filter(|o| matches!(o, Op::Publish { .. })).count();
        let nresp = out.iter().filter(|&&v| v == 7).count();
        let _ = nresp;
        let tag = format!("subs{}-req{}{}", nsubs, if nreq == 0 { "0" } else if nreq < 4 { "1..3" } else { "4+" },
            if out.last() == Some(&-2) { "-panic" } else { "" });
        Out { tag, term: case_term(c), out }
    }
}
fn main() { run_main::<P>() }
