#!/usr/bin/env python3
"""Regenerate MANIFEST.json from props/*.json (one meta file per claimed property)."""
import json, os, glob
V = os.path.dirname(os.path.dirname(os.path.abspath(__file__)))
props = [json.loads(l) for l in open(os.path.join(V, "properties.jsonl"))]
ids = [p["id"] for p in props]
metas = {}
for f in sorted(glob.glob(os.path.join(V, "props", "C*.json"))):
    m = json.load(open(f))
    if m.get("claimed", True):
        metas[m["property_id"]] = m
na_reasons = {}
p = os.path.join(V, "props", "not_applicable.json")
if os.path.exists(p):
    na_reasons = json.load(open(p))
hooks_commits = []
try:
    import subprocess
    out = subprocess.run("git -C %s log --format=%%H%%x09%%s" % os.environ.get("VERIF_REPO", "/repo"), shell=True, stdout=subprocess.PIPE).stdout.decode()
    for line in out.split("\n"):
        if "\t" in line:
            h, s = line.split("\t", 1)
            if s.startswith("verif hooks"):
                hooks_commits.append(h)
except Exception:
    pass
# known_findings.jsonl = concatenation of known_findings.d/Cxx.jsonl (development-time only; the
# checks read the committed file and never write it).  `fixed:` lines name the fix commit by a
# prefix of its subject in braces; it is resolved to the commit hash in /repo here.
import subprocess, re
subjects = []
out = subprocess.run("git -C %s log --format=%%h%%x09%%s" % os.environ.get("VERIF_REPO", "/repo"), shell=True, stdout=subprocess.PIPE).stdout.decode()
for line in out.split("\n"):
    if "\t" in line:
        subjects.append(tuple(line.split("\t", 1)))
lines = []
for f in sorted(glob.glob(os.path.join(V, "known_findings.d", "C*.jsonl"))):
    for line in open(f):
        line = line.rstrip("\n")
        if not line.strip():
            continue
        m = re.match(r"(fixed: property=\S+ )\{([^}]*)\}(.*)", line)
        if m:
            hs = [h for h, sub in subjects if sub.startswith(m.group(2))]
            if not hs:
                print("WARNING: no commit in /repo with subject prefix %r" % m.group(2))
            line = m.group(1) + (hs[0] if hs else "UNRESOLVED") + m.group(3)
        lines.append(line)
open(os.path.join(V, "known_findings.jsonl"), "w").write("\n".join(lines) + "\n")

checks = []
for i in ids:
    if i not in metas:
        continue
    m = metas[i]
    checks.append({
        "property_id": i,
        "quick_cmd": "./check %s --tier quick" % i,
        "thorough_cmd": "./check %s --tier thorough" % i,
        "evidence_file": "/verif/evidence/%s.json" % i,
        "replay_cmd_template": "./check %s --replay {path}" % i,
        "engine": "coq-proof+correspondence",
        "level_claimed": {"category": m.get("level", "proof"), "text": m["level_text"], "design_ref": m.get("design_ref", "")},
        "level_note": m["level_note"],
        "technique": m["technique"],
    })
man = {
    "version": 1,
    "setup_cmd": "./setup.sh",
    "hooks": {
        "guard": "--cfg locka99_opcua_verif",
        "enable": "RUSTFLAGS='--cfg locka99_opcua_verif' (set in /verif/harness/.cargo/config.toml; the harness crate depends on /repo/lib by path, so every check rebuilds from /repo's working tree)",
        "baseline_off_cmd": "cd /repo && (cargo nextest run --workspace --no-fail-fast --test-threads 8 --offline || cargo test --workspace --no-fail-fast --offline)",
        "source_commits": hooks_commits,
        "add_only": True,
    },
    "engines": [{
        "name": "coq-proof+correspondence",
        "path": "/verif/tools/check.py",
        "serves_properties": [c["property_id"] for c in checks],
        "kind_free_text": "Coq 8.16 theorems about hand-written executable Gallina models (coq/Cxx/Model.v, Proofs.v, Props/Cxx.v) + translators regenerating coq/Gen/*.v from the source + a Rust harness (harness/, built against /repo with the hooks on) whose outputs are compared with the model inside the kernel by vm_compute, with the property oracle applied to the implementation's output",
    }],
    "checks": checks,
    "notes": "See DESIGN.md. known_findings.jsonl lists recorded findings and fixed: entries. FRAMEWORK.md describes the per-property layout.",
    "not_applicable": [{"property_id": i, "reason": na_reasons.get(i, "not claimed yet: model/proofs/harness for this property are not finished in this round (no property is considered out of reach of the technique; see DESIGN.md section 9)")} for i in ids if i not in metas],
}
json.dump(man, open(os.path.join(V, "MANIFEST.json"), "w"), indent=1)
print("MANIFEST.json: %d checks, %d not claimed" % (len(checks), len(man["not_applicable"])))
