(* C10 — memory held for an incomplete incoming message is bounded.

   Model of the server's receive path for chunk frames on an open channel (SecurityPolicy None,
   HEL and OPN already exchanged): `TcpCodec::decode`'s size check (tcp_codec.rs), and
   `TcpTransport::process_chunk` / `process_final_chunk` with `Chunker::validate_chunks`
   (tcp_transport.rs, chunker.rs) as committed after
     "fix: TCP codec waited to accumulate frames larger than the maximum message size" and
     "fix: server buffered an unbounded number of intermediate chunks for one message".
   A chunk is described by its final flag, its size in bytes, its sequence number and — for a
   final chunk — whether the reassembled body is a well-formed request (`Chunker::decode`'s
   verdict on bytes the harness builds accordingly: a transcript of that external step).

   No proofs in this file. *)
From Coq Require Import List ZArith Bool Lia.
Import ListNotations.
Open Scope Z_scope.

(* final flag: 0 = 'C' intermediate, 1 = 'F' final, 2 = 'A' abort *)
Inductive cframe :=
| Chunk (fin size seq : Z) (decodes : bool)
| Partial (declared present : Z).   (* only `present` bytes of a frame declaring `declared` arrived *)

(* status classes *)
Definition S_OK : Z := 0.
Definition S_WAITING : Z := 1.        (* codec returned None: the bytes stay in its buffer *)
Definition S_TOO_LARGE : Z := 10.     (* BadTcpMessageTooLarge *)
Definition S_MALFORMED : Z := 11.     (* BadDecodingError / BadUnexpectedError / BadServiceUnsupported *)
Definition S_COMM : Z := 12.          (* BadCommunicationError (also every codec error) *)
Definition S_SEQ : Z := 18.           (* BadSequenceNumberInvalid *)
Definition S_SECURITY : Z := 19.      (* BadSecurityChecksFailed *)

Record st := mk_st {
  pend : list (Z * Z);     (* pending_chunks: (size, sequence number) *)
  last_seq : Z;            (* last_received_sequence_number *)
  closed : bool;
  buffered : Z }.          (* bytes sitting in the codec buffer *)

(* after HEL + OPN: the OPN chunk had sequence number 1 *)
Definition init : st := mk_st [] 1 false 0.

Definition pend_bytes (p : list (Z * Z)) : Z := fold_right (fun c acc => fst c + acc) 0 p.
Definition pend_count (p : list (Z * Z)) : Z := Z.of_nat (length p).

Record lim := mk_lim { max_chunks : Z; max_size : Z }.

(* sizes of the headers: chunk header 12, symmetric security header 4, sequence header 8 *)
Definition HDR_SEC : Z := 16.
Definition HDR_SEQ : Z := 24.

(* Chunker::validate_chunks on the drained chunks: the first failing check in code order *)
Fixpoint validate_from (first i : Z) (cs : list (Z * Z)) : Z :=
  match cs with
  | [] => S_OK
  | (size, seq) :: r =>
      if size <? HDR_SEQ then S_COMM                   (* chunk_info cannot read the sequence header *)
      else if negb (seq =? first + i) then S_SECURITY
      else validate_from first (i + 1) r
  end.

(* process_final_chunk: (status, new last_seq) *)
Definition final (last : Z) (cs : list (Z * Z)) (decodes : bool) : Z * Z :=
  match cs with
  | [] => (S_COMM, last)   (* unreachable: the final chunk itself is in the list *)
  | (size0, seq0) :: _ =>
      if size0 <? HDR_SEQ then (S_COMM, last)          (* chunks[0].chunk_info *)
      else if seq0 <? last + 1 then (S_SEQ, last)
      else
        let v := validate_from seq0 0 cs in
        if negb (v =? S_OK) then (v, last)
        else
          let last' := seq0 + pend_count cs - 1 in
          if decodes then (S_OK, last') else (S_MALFORMED, last')
  end.

(* one frame through codec and transport.  [cg]: the codec refuses oversized declared sizes (fix 1);
   [tg]: process_chunk enforces the two limits (fix 2). *)
Definition step_gen (cg tg : bool) (l : lim) (s : st) (f : cframe) : st * Z :=
  let close s' := mk_st (pend s') (last_seq s') true (buffered s') in
  match f with
  | Partial declared present =>
      if present <=? 8 then (mk_st (pend s) (last_seq s) false present, S_WAITING)
      else if cg && (0 <? max_size l) && (max_size l <? declared) then
        (mk_st (pend s) (last_seq s) true present, S_COMM)
      else (mk_st (pend s) (last_seq s) false present, S_WAITING)
  | Chunk fin size seq decodes =>
      (* a complete frame: an oversized one is refused by the codec (before fix 1 by
         MessageChunk::decode, with the same effect) *)
      if (0 <? max_size l) && (max_size l <? size) then
        (mk_st (pend s) (last_seq s) true (if cg then size else 0), S_COMM)
      else if fin =? 2 then (mk_st [] (last_seq s) false 0, S_OK)
      else if size <? HDR_SEC then (close s, S_MALFORMED)     (* verify_and_remove_security *)
      else
        let p := pend s ++ [(size, seq)] in
        if tg && (0 <? max_chunks l) && (max_chunks l <? pend_count p) then
          (mk_st [] (last_seq s) true 0, S_TOO_LARGE)
        else if tg && (0 <? max_size l) && (max_size l <? pend_bytes p) then
          (mk_st [] (last_seq s) true 0, S_TOO_LARGE)
        else if fin =? 1 then
          let '(status, last') := final (last_seq s) p decodes in
          (mk_st [] last' (negb (status =? S_OK)) 0, status)
        else (mk_st p (last_seq s) false 0, S_OK)
  end.

Definition is_partial (f : cframe) : bool := match f with Partial _ _ => true | _ => false end.

(* the reading loop: stop at the first failure; nothing can follow an incomplete frame *)
Fixpoint trace_gen (cg tg : bool) (l : lim) (s : st) (fs : list cframe) : list (Z * Z * Z * Z) :=
  match fs with
  | [] => []
  | f :: r =>
      let '(s', status) := step_gen cg tg l s f in
      (status, pend_count (pend s'), pend_bytes (pend s'), buffered s') ::
      (if (status =? S_OK) && negb (is_partial f) then trace_gen cg tg l s' r else [])
  end.

Definition trace := trace_gen true true.

Definition render_rec (r : Z * Z * Z * Z) : list Z :=
  let '(a, b, c, d) := r in [a; b; c; d].
Definition failed (t : list (Z * Z * Z * Z)) : bool :=
  existsb (fun r => let '(a, _, _, _) := r in negb ((a =? S_OK) || (a =? S_WAITING))) t.
Definition render (t : list (Z * Z * Z * Z)) : list Z :=
  concat (map render_rec t) ++ [-1; if failed t then 1 else 0].

Module Legacy.
  Definition trace_codec := trace_gen false true.      (* before fix 1 *)
  Definition trace_transport := trace_gen true false.  (* before fix 2 *)
End Legacy.

(* ---- correspondence interface ------------------------------------------------------------- *)
Record case := mk_case { c_mc : Z; c_mms : Z; c_frames : list cframe }.

Definition run (c : case) : list Z := render (trace (mk_lim (c_mc c) (c_mms c)) init (c_frames c)).

Fixpoint parse (fuel : nat) (out : list Z) : option (list (Z * Z * Z * Z) * Z) :=
  match fuel with
  | O => None
  | S fuel' =>
      match out with
      | a :: b :: rest =>
          if a =? -1 then match rest with [] => Some ([], b) | _ => None end   (* end marker, finished? *)
          else match rest with
               | c :: d :: rest' =>
                   match parse fuel' rest' with
                   | Some (t, fin) => Some ((a, b, c, d) :: t, fin)
                   | None => None
                   end
               | _ => None
               end
      | _ => None
      end
  end.

(* the property on an observed trace, scanning with the previously OBSERVED pending count/bytes:
   (1) after every frame: count <= max chunk count, bytes <= max message size, and while the
       connection lives the codec buffer <= max message size (limits that are 0 are switched off;
       what a refusing codec leaves in its buffer is dropped with the connection);
   (2) a chunk that would take the pending list over either limit is answered with an error, and
       an error is the end of the connection (it is the last record and the connection is finished);
   (3) a frame whose declared size exceeds the maximum is refused, not waited for. *)
Definition is_ok (status : Z) : bool := (status =? S_OK) || (status =? S_WAITING).

Definition head_check (l : lim) (n b : Z) (f : cframe) (r : Z * Z * Z * Z) : bool :=
  let '(status, n', b', buf') := r in
  let ok := is_ok status in
  let bounded :=
    ((max_chunks l =? 0) || (n' <=? max_chunks l)) &&
    ((max_size l =? 0) || ((b' <=? max_size l) && (negb ok || (buf' <=? max_size l)))) in
  let c23 :=
    match f with
    | Chunk fin size _ _ =>
        let exceeds := negb (fin =? 2) &&
                       (((0 <? max_chunks l) && (max_chunks l <? n + 1)) ||
                        ((0 <? max_size l) && (max_size l <? b + size))) in
        if exceeds then negb ok else true
    | Partial declared present =>
        if (0 <? max_size l) && (max_size l <? declared) && (8 <? present) then negb ok else true
    end in
  bounded && c23.

Fixpoint scan (l : lim) (n b : Z) (fs : list cframe) (t : list (Z * Z * Z * Z)) : bool :=
  match fs, t with
  | _, [] => true
  | [], _ :: _ => false
  | f :: fs', (status, n', b', buf') :: t' =>
      (match t' with [] => true | _ => (status =? S_OK) && negb (is_partial f) end) &&
      head_check l n b f (status, n', b', buf') &&
      scan l n' b' fs' t'
  end.

Definition oracle (c : case) (out : list Z) : bool :=
  match parse (S (length out)) out with
  | None => false
  | Some (t, fin) =>
      scan (mk_lim (c_mc c) (c_mms c)) 0 0 (c_frames c) t &&
      (if failed t then fin =? 1
       else (fin =? 0) && (Z.of_nat (length t) =? Z.of_nat (length (c_frames c))))
  end.

Definition known (c : case) : Z := 0.

Definition frame_ok (f : cframe) : bool :=
  match f with
  | Chunk fin size seq _ => (0 <=? fin) && (fin <=? 2) && (12 <=? size) && (0 <=? seq)
  | Partial declared present => (0 <=? present) && (present <? declared)
  end.
Fixpoint partial_only_last (fs : list cframe) : bool :=
  match fs with
  | [] => true
  | f :: r => match r with [] => true | _ => negb (is_partial f) && partial_only_last r end
  end.
(* the limits are non-negative, a non-zero maximum message size is at least a frame header
   (OPC UA requires >= 8192), frames are well-formed and only the last may be incomplete *)
Definition valid (c : case) : Prop :=
  0 <= c_mc c /\ (c_mms c = 0 \/ 8 <= c_mms c) /\ forallb frame_ok (c_frames c) = true /\
  partial_only_last (c_frames c) = true.
