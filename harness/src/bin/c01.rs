//! C01: binary encoding round trip of the built-in types, Variant, DataValue, typed arrays
//! (value cases) and of generated structures (bytes cases), against the real BinaryEncoder impls.
#[path = "../util.rs"]
mod util;
#[path = "../codec_common.rs"]
mod cc;
#[path = "../codec_structs.rs"]
mod st;
use cc::*;
use opcua::types::*;
use std::io::Cursor;
use util::*;

pub enum Case {
    Val { t: Ty, v: UVal, o: HOpts, rest: Vec<u8> },
    Bytes { idx: usize, o: HOpts, bs: Vec<u8> },
    /// the hand-written types::argument::Argument
    Arg { a: opcua::types::argument::Argument, o: HOpts, rest: Vec<u8> },
}
pub struct P;

fn val(t: Ty, v: UVal) -> Case { Case::Val { t, v, o: HOpts::default(), rest: vec![] } }
fn vv(v: Variant) -> Case { val(Ty::Var, UVal::V(v)) }
fn arr(k: u8, values: Vec<Variant>, dims: Option<Vec<u32>>) -> Variant {
    Variant::Array(Box::new(Array { value_type: mask_type(k), values, dimensions: dims }))
}

/// decode `input` as `t` and report in the form of Model.report
fn report(t: &Ty, o: &HOpts, input: &[u8], out: &mut Vec<i128>) {
    let ro = o.real();
    let r = guarded(|| {
        let mut s = Cursor::new(input);
        let v = dec_typed(t, &mut s, &ro);
        (v, s.position())
    });
    match r {
        Err(_) => out.push(-2),
        Ok((Err(_), _)) => out.push(-1),
        Ok((Ok(v), pos)) => {
            let mut p = Vec::new();
            s_uval(&mut p, &v);
            out.push(0); out.push(pos as i128); out.push(p.len() as i128); out.extend(p);
            let mut b2 = Vec::new();
            match guarded(|| enc_typed(t, &v, &mut b2)) {
                Ok(Ok(_)) => { out.push(b2.len() as i128); out.extend(b2.iter().map(|x| *x as i128)); }
                Ok(Err(_)) => out.push(-1),
                Err(_) => out.push(-2),
            }
        }
    }
}

use opcua::types::argument::Argument as HArg;
fn t_arg(a: &HArg) -> String {
    format!("(Arg {} {} {} {} (SLText {} {}))", t_ustr(&a.name), t_nodeid(&a.data_type), z(a.value_rank as i128),
        match &a.array_dimensions { None => "None".to_string(), Some(ds) => format!("(Some {})", zlist(ds.iter().map(|d| *d as i128))) },
        t_ustr(&a.description.locale), t_ustr(&a.description.text))
}
fn s_arg(out: &mut Vec<i128>, a: &HArg) {
    let mut p = Vec::new();
    s_variant(&mut p, &Variant::from(a.name.clone())); out.extend(&p[1..]);        // ser_ustr
    p.clear(); s_variant(&mut p, &Variant::from(a.data_type.clone())); out.extend(&p[1..]);   // ser_nodeid
    out.push(a.value_rank as i128);
    match &a.array_dimensions { None => out.push(0), Some(ds) => { out.push(1); out.push(ds.len() as i128); out.extend(ds.iter().map(|d| *d as i128)) } }
    s_variant(out, &Variant::from(a.description.clone()));
}
fn enc_arg(a: &HArg) -> Result<(usize, Vec<u8>), i128> {
    match guarded(|| { let bl = a.byte_len(); let mut c = Cursor::new(Vec::new()); a.encode(&mut c).map(|_| (bl, c.into_inner())) }) {
        Ok(Ok(x)) => Ok(x), Ok(Err(_)) => Err(-1), Err(_) => Err(-2),
    }
}
fn g_arg(r: &mut Rng) -> HArg {
    let rank = r.range(-3, 3) as i32;
    let dims = if rank > 0 { Some((0..rank).map(|_| g_u32(r)).collect()) }
               else { match r.below(4) { 0 => None, 1 => Some(vec![]), _ => Some((0..1 + r.below(3)).map(|_| g_u32(r)).collect()) } };
    HArg { name: g_ustr(r, 5), data_type: g_nodeid(r, 4), value_rank: rank, array_dimensions: dims,
           description: LocalizedText { locale: g_ustr(r, 3), text: g_ustr(r, 5) } }
}

impl Property for P {
    type Case = Case;
    fn fixed(_tier: &str) -> Vec<Case> {
        let mut v = vec![
            // the witness of "fix: empty variant arrays with dimensions ...": what [0x86,0,0,0,0] decodes to
            vv(arr(6, vec![], Some(vec![]))),
            vv(arr(6, vec![], Some(vec![0, 2]))),
            vv(arr(12, vec![], None)),
            vv(arr(6, vec![Variant::Int32(1), Variant::Int32(-2)], None)),
            vv(arr(6, vec![Variant::Int32(1), Variant::Int32(2), Variant::Int32(3), Variant::Int32(4)], Some(vec![2, 2]))),
            vv(arr(6, vec![Variant::Int32(7)], Some(vec![]))),
            vv(arr(24, vec![Variant::Variant(Box::new(Variant::Empty)), Variant::Variant(Box::new(arr(3, vec![Variant::Byte(9)], None)))], None)),
            vv(Variant::Empty),
            vv(Variant::Variant(Box::new(Variant::Variant(Box::new(Variant::Boolean(true)))))),
            vv(Variant::Float(f32::from_bits(0x7f80_0001))),
            vv(Variant::Double(f64::from_bits(0xfff0_0000_0000_0001))),
            vv(Variant::from(LocalizedText { locale: UAString::from(""), text: UAString::null() })),
            vv(Variant::from(LocalizedText { locale: UAString::null(), text: UAString::from("x") })),
            vv(Variant::DateTime(Box::new(date_from_ticks(-1)))),
            vv(Variant::DateTime(Box::new(date_from_ticks(END_TICKS)))),
            vv(Variant::DateTime(Box::new(date_from_ticks(END_TICKS + 1)))),
            vv(Variant::DateTime(Box::new(date_from_ticks(i64::MAX as i128)))),
            vv(Variant::DateTime(Box::new(date_from_ticks(i64::MIN as i128)))),
            val(Ty::S(17), UVal::S(Variant::from(NodeId::new(0, 255u32)))),
            val(Ty::S(17), UVal::S(Variant::from(NodeId::new(0, 256u32)))),
            val(Ty::S(17), UVal::S(Variant::from(NodeId::new(255, 65535u32)))),
            val(Ty::S(17), UVal::S(Variant::from(NodeId::new(256, 65535u32)))),
            val(Ty::S(17), UVal::S(Variant::from(NodeId::new(255, 65536u32)))),
            val(Ty::S(18), UVal::S(Variant::from(ExpandedNodeId { node_id: NodeId::new(1, "a"), namespace_uri: UAString::from(""), server_index: 0 }))),
            val(Ty::S(18), UVal::S(Variant::from(ExpandedNodeId { node_id: NodeId::new(0, 1u32), namespace_uri: UAString::from("u"), server_index: 7 }))),
            val(Ty::DV, UVal::D(DataValue { value: None, status: None, source_timestamp: None, source_picoseconds: None, server_timestamp: None, server_picoseconds: None })),
            val(Ty::DV, UVal::D(DataValue { value: Some(Variant::Int32(5)), status: Some(StatusCode::from_bits_truncate(0x80350000)),
                source_timestamp: Some(date_from_ticks(1)), source_picoseconds: Some(9), server_timestamp: Some(date_from_ticks(2)), server_picoseconds: None })),
            val(Ty::Arr(Box::new(Ty::S(12))), UVal::A(None)),
            val(Ty::Arr(Box::new(Ty::S(12))), UVal::A(Some(vec![]))),
            val(Ty::Arr(Box::new(Ty::S(6))), UVal::A(Some(vec![UVal::S(Variant::Int32(-1)), UVal::S(Variant::Int32(i32::MIN))]))),
        ];
        // nesting exactly at / one beyond the depth limit
        let mut deep = Variant::Boolean(true);
        for _ in 0..10 { deep = Variant::Variant(Box::new(deep)); }
        v.push(vv(deep.clone()));
        v.push(vv(Variant::Variant(Box::new(deep))));
        let mut d = DiagnosticInfo::null();
        for _ in 0..9 { let mut e = DiagnosticInfo::null(); e.inner_diagnostic_info = Some(Box::new(d)); d = e; }
        v.push(val(Ty::S(25), UVal::S(Variant::from(d.clone()))));
        let mut e = DiagnosticInfo::null(); e.inner_diagnostic_info = Some(Box::new(d)); e.symbolic_id = Some(3);
        v.push(val(Ty::S(25), UVal::S(Variant::from(e))));
        // string exactly at / one beyond a small limit
        for n in [3usize, 4, 5] {
            v.push(Case::Val { t: Ty::S(12), v: UVal::S(Variant::from("a".repeat(n))), o: HOpts { max_str: 4, ..HOpts::default() }, rest: vec![1, 2] });
        }
        // Argument: the witness of "fix: Argument byte_len counted array dimensions ..." (value_rank <= 0 with
        // dimensions), and consistent ones
        let arg = |rank: i32, dims: Option<Vec<u32>>| HArg { name: UAString::from(""), data_type: NodeId::new(255, 223u32), value_rank: rank,
            array_dimensions: dims, description: LocalizedText { locale: UAString::null(), text: UAString::null() } };
        for (rank, dims) in [(-1, Some(vec![65536u32])), (0, Some(vec![1, 2])), (-1, None), (-2, Some(vec![])), (1, Some(vec![0])), (2, Some(vec![3, 4]))] {
            v.push(Case::Arg { a: arg(rank, dims), o: HOpts::default(), rest: vec![7] });
        }
        v.extend(st::fixed_cases().into_iter().map(|(idx, bs)| Case::Bytes { idx, o: HOpts::default(), bs }));
        v
    }
    fn gen(r: &mut Rng) -> Case {
        if st::count() > 0 && r.chance(1, 5) {
            let (idx, bs) = st::gen_case(r);
            return Case::Bytes { idx, o: HOpts::default(), bs };
        }
        if r.chance(1, 25) {
            let mut o = HOpts::default();
            if r.chance(1, 5) { o.max_str = r.below(4) as i64; }
            if r.chance(1, 5) { o.max_arr = r.below(3) as i64; }
            return Case::Arg { a: g_arg(r), o, rest: g_bytes(r, 4) };
        }
        let mut o = match r.below(8) { 0 => HOpts::minimal(), 1 => HOpts { max_depth: r.below(4) as i64, ..HOpts::default() }, _ => HOpts::default() };
        let smax = 6;
        if r.chance(1, 8) { o.max_str = r.below(5) as i64; }
        if r.chance(1, 10) { o.max_bstr = r.below(5) as i64; }
        if r.chance(1, 10) { o.max_arr = r.below(4) as i64; }
        // values mostly within the depth limit, sometimes one deeper
        let depth = if r.chance(1, 12) { o.max_depth as u32 + 1 } else { (o.max_depth as u32).min(3) };
        let (t, v) = match r.below(20) {
            0..=8 => (Ty::Var, UVal::V(g_variant(r, depth, smax))),
            9..=11 => (Ty::DV, UVal::D(g_datavalue(r, depth.saturating_sub(1), smax))),
            12..=15 => { let k = *r.pick(&SCALAR_KINDS); (Ty::S(k), UVal::S(g_scalar(r, k, depth.saturating_sub(1), smax))) }
            _ => {
                let (e, n) = (r.below(17), r.below(4) as usize);
                let none = r.chance(1, 8);
                match e {
                    15 => (Ty::Arr(Box::new(Ty::Var)), UVal::A(if none { None } else { Some((0..n).map(|_| UVal::V(g_variant(r, depth, smax))).collect()) })),
                    16 => (Ty::Arr(Box::new(Ty::DV)), UVal::A(if none { None } else { Some((0..n).map(|_| UVal::D(g_datavalue(r, depth.saturating_sub(1), smax))).collect()) })),
                    _ => { let k = ARRAY_ELEMS[e as usize];
                           (Ty::Arr(Box::new(Ty::S(k))), UVal::A(if none { None } else { Some((0..n).map(|_| UVal::S(g_scalar(r, k, depth.saturating_sub(1), smax))).collect()) })) }
                }
            }
        };
        let rest = g_bytes(r, 5);
        Case::Val { t, v, o, rest }
    }
    fn exec(c: &Case) -> Out {
        match c {
            Case::Val { t, v, o, rest } => {
                let mut out: Vec<i128> = Vec::new();
                let mut b = Vec::new();
                let tag;
                match guarded(|| enc_typed(t, v, &mut b)) {
                    Ok(Ok(bl)) => {
                        out.push(bl as i128); out.push(b.len() as i128); out.extend(b.iter().map(|x| *x as i128));
                        let mut input = b.clone(); input.extend(rest);
                        report(t, o, &input, &mut out);
                        let st = out[2 + b.len()];
                        tag = format!("{}{}", t.tag(), if st == 0 { "" } else { "-rejected" });
                    }
                    Ok(Err(_)) => { out.push(-1); tag = format!("{}-encode-error", t.tag()); }
                    Err(_) => { out.push(-2); tag = format!("{}-encode-panic", t.tag()); }
                }
                let term = format!("(CVal {} {} {} {})", t.term(), t_uval(v), o.term(), zbytes(rest));
                Out { tag, term, out }
            }
            Case::Bytes { idx, o, bs } => st::exec_bytes(*idx, o, bs),
            Case::Arg { a, o, rest } => {
                let mut out: Vec<i128> = Vec::new();
                let tag;
                match enc_arg(a) {
                    Err(code) => { out.push(code); tag = "Argument-encode-failed".to_string(); }
                    Ok((bl, b)) => {
                        out.push(bl as i128); out.push(b.len() as i128); out.extend(b.iter().map(|x| *x as i128));
                        let mut input = b.clone(); input.extend(rest);
                        let ro = o.real();
                        match guarded(|| { let mut s = Cursor::new(&input[..]); let v = HArg::decode(&mut s, &ro); (v, s.position()) }) {
                            Err(_) => out.push(-2),
                            Ok((Err(_), _)) => out.push(-1),
                            Ok((Ok(v), pos)) => {
                                let mut p = Vec::new(); s_arg(&mut p, &v);
                                out.push(0); out.push(pos as i128); out.push(p.len() as i128); out.extend(p);
                                match enc_arg(&v) { Ok((_, b2)) => { out.push(b2.len() as i128); out.extend(b2.iter().map(|x| *x as i128)); } Err(code) => out.push(code) }
                            }
                        }
                        tag = format!("Argument{}{}", if a.value_rank > 0 { "-array" } else if a.array_dimensions.as_ref().map(|d| !d.is_empty()).unwrap_or(false) { "-scalar-with-dimensions" } else { "-scalar" },
                                      if out[2 + b.len()] == 0 { "" } else { "-rejected" });
                    }
                }
                Out { tag, term: format!("(CArg {} {} {})", t_arg(a), o.term(), zbytes(rest)), out }
            }
        }
    }
}
fn main() { run_main::<P>() }
