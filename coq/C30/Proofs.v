(* C30 — proofs.  Part 1: invariants of the continuation-point store over arbitrary operation
   sequences, and the paging theorem. *)
From Coq Require Import List ZArith Bool Arith Lia.
Import ListNotations.
From OV Require Import C30.Model.
Open Scope Z_scope.

(* ---- sublists ------------------------------------------------------------------------------ *)
Inductive sublist {A : Type} : list A -> list A -> Prop :=
| sl_nil : sublist [] []
| sl_skip : forall x l' l, sublist l' l -> sublist l' (x :: l)
| sl_keep : forall x l' l, sublist l' l -> sublist (x :: l') (x :: l).

Lemma sublist_refl : forall A (l : list A), sublist l l.
Proof. induction l; [apply sl_nil | apply sl_keep; auto]. Qed.

Lemma sublist_nil : forall A (l : list A), sublist [] l.
Proof. induction l; constructor; auto. Qed.

Lemma sublist_filter : forall A p (l : list A), sublist (filter p l) l.
Proof. induction l as [|x l IH]; cbn; [constructor|]. destruct (p x); [apply sl_keep | apply sl_skip]; auto. Qed.

Lemma sublist_skipn : forall A n (l : list A), sublist (skipn n l) l.
Proof.
  induction n as [|n IH]; intro l; cbn; [apply sublist_refl|].
  destruct l; [constructor|]. constructor. apply IH.
Qed.

Lemma sublist_In : forall A (l' l : list A) x, sublist l' l -> In x l' -> In x l.
Proof.
  intros A l' l x H. induction H; cbn; intro Hin; auto.
  destruct Hin; auto.
Qed.

Lemma sublist_Forall : forall A (P : A -> Prop) l' l, sublist l' l -> Forall P l -> Forall P l'.
Proof.
  intros A P l' l H HF. apply Forall_forall. intros x Hx.
  rewrite Forall_forall in HF. apply HF. eapply sublist_In; eauto.
Qed.

Lemma sublist_map : forall A B (f : A -> B) l' l, sublist l' l -> sublist (map f l') (map f l).
Proof. intros A B f l' l H. induction H; cbn; [apply sl_nil | apply sl_skip | apply sl_keep]; auto. Qed.

Lemma sublist_NoDup : forall A (l' l : list A), sublist l' l -> NoDup l -> NoDup l'.
Proof.
  intros A l' l H. induction H; intro Hn; auto.
  - inversion Hn; auto.
  - inversion Hn as [|? ? Hx Hl]; subst. constructor; auto.
    intro Hin. apply Hx. eapply sublist_In; eauto.
Qed.

Lemma sublist_length : forall A (l' l : list A), sublist l' l -> (length l' <= length l)%nat.
Proof. intros A l' l H. induction H; cbn; lia. Qed.

Lemma sublist_trans : forall A (l1 l2 l3 : list A), sublist l1 l2 -> sublist l2 l3 -> sublist l1 l3.
Proof.
  intros A l1 l2 l3 H12 H23. revert l1 H12. induction H23; intros l1 H12.
  - exact H12.
  - constructor. apply IHsublist. exact H12.
  - inversion H12; subst.
    + apply sl_skip. apply IHsublist. assumption.
    + apply sl_keep. apply IHsublist. assumption.
Qed.

Lemma sublist_lastn : forall A n (l : list A), sublist (lastn n l) l.
Proof. intros. unfold lastn. apply sublist_skipn. Qed.

Lemma length_lastn : forall A n (l : list A), (length (lastn n l) <= n)%nat.
Proof. intros. unfold lastn. rewrite skipn_length. lia. Qed.

Lemma NoDup_app_one : forall (A : Type) (l : list A) x, NoDup l -> ~ In x l -> NoDup (l ++ [x]).
Proof.
  induction l as [|y l IH]; intros x Hn Hx; cbn.
  - constructor; [intros []|constructor].
  - inversion Hn as [|? ? Hy Hl]; subst. constructor.
    + intro Hin. apply in_app_or in Hin. destruct Hin as [Hin|[->|[]]]; [auto|]. apply Hx. left. reflexivity.
    + apply IH; auto. intro Hin. apply Hx. right. exact Hin.
Qed.

(* ---- take_cp ------------------------------------------------------------------------------- *)
Definition ids (l : list cp) : list Z := map cp_id l.

Lemma take_cp_some : forall id l c rest, take_cp id l = Some (c, rest) ->
  exists l1 l2, l = l1 ++ c :: l2 /\ rest = l1 ++ l2 /\ cp_id c = id.
Proof.
  induction l as [|x l IH]; intros c rest H; cbn in H; [discriminate|].
  destruct (cp_id x =? id) eqn:E.
  - inversion H; subst. exists [], rest. apply Z.eqb_eq in E. auto.
  - destruct (take_cp id l) as [[y r]|] eqn:T; [|discriminate]. inversion H; subst.
    destruct (IH c r eq_refl) as [l1 [l2 [A [B C]]]]. subst.
    exists (x :: l1), l2. auto.
Qed.

Lemma take_cp_none : forall id l, take_cp id l = None -> forall c, In c l -> cp_id c <> id.
Proof.
  induction l as [|x l IH]; intros H c Hin; [destruct Hin|]. cbn in H.
  destruct (cp_id x =? id) eqn:E; [discriminate|].
  destruct (take_cp id l) as [[y r]|] eqn:T; [discriminate|].
  destruct Hin as [<-|Hin]; [apply Z.eqb_neq; exact E | apply IH; auto].
Qed.

Lemma take_cp_absent : forall id l, (forall c, In c l -> cp_id c <> id) -> take_cp id l = None.
Proof.
  induction l as [|x l IH]; intro H; cbn; auto.
  destruct (cp_id x =? id) eqn:E.
  - apply Z.eqb_eq in E. exfalso. apply (H x); cbn; auto.
  - rewrite IH; auto. intros c Hin. apply H. right. exact Hin.
Qed.

Lemma sublist_remove_mid : forall A (l1 l2 : list A) c, sublist (l1 ++ l2) (l1 ++ c :: l2).
Proof. induction l1; intros; cbn; [apply sl_skip; apply sublist_refl | apply sl_keep; auto]. Qed.

(* ---- the invariant --------------------------------------------------------------------------- *)
Record inv (s : st) : Prop := {
  inv_ids : Forall (fun c => 1 <= cp_id c < next_id s) (store s);
  inv_nodup : NoDup (ids (store s));
  inv_len : (length (store s) <= MAX_CPS)%nat;
  inv_start : Forall (fun c => (cp_start c <= length (cp_refs c))%nat /\ (0 < cp_k c)%nat) (store s);
  inv_lm : Forall (fun c => cp_lm c <= lm s) (store s);
  inv_next : 1 <= next_id s }.

Lemma inv_sub : forall s l', inv s -> sublist l' (store s) -> inv (with_store s l' (next_id s)).
Proof.
  intros s l' [H1 H2 H3 H4 H5 H6] Hs. constructor; cbn.
  - eapply sublist_Forall; eauto.
  - eapply sublist_NoDup; [apply sublist_map; eauto | auto].
  - pose proof (sublist_length _ _ _ Hs). lia.
  - eapply sublist_Forall; eauto.
  - eapply sublist_Forall; eauto.
  - auto.
Qed.

Lemma inv_add : forall s refs st0 k, inv s -> (st0 <= length refs)%nat -> (0 < k)%nat ->
  inv (with_store s (add_cp (store s) (mk_cp (next_id s) (lm s) k st0 refs)) (next_id s + 1)).
Proof.
  intros s refs st0 k [H1 H2 H3 H4 H5 H6] Hst Hk.
  pose proof (sublist_lastn _ (MAX_CPS - 1) (store s)) as Hsub.
  constructor; cbn; unfold add_cp.
  - apply Forall_app. split.
    + eapply sublist_Forall in H1; eauto. eapply Forall_impl; [|exact H1]. cbn. intros; lia.
    + constructor; [cbn; lia | constructor].
  - unfold ids. rewrite map_app. cbn. apply NoDup_app_one.
    + eapply sublist_NoDup; [apply sublist_map; eauto | auto].
    + intro Hin. apply in_map_iff in Hin. destruct Hin as [c [E Hin]].
      eapply sublist_In in Hin; eauto. rewrite Forall_forall in H1. specialize (H1 c Hin). lia.
  - rewrite app_length. pose proof (length_lastn _ (MAX_CPS - 1) (store s)) as HL.
    unfold MAX_CPS in *. cbn [Nat.sub length] in *. lia.
  - apply Forall_app. split; [eapply sublist_Forall; eauto|]. constructor; [cbn; auto | constructor].
  - apply Forall_app. split; [eapply sublist_Forall; eauto|]. constructor; [cbn; lia | constructor].
  - lia.
Qed.

(* how a step may change things: ids and time only grow, nothing old comes back *)
Record evolves (s s' : st) : Prop := {
  ev_next : next_id s <= next_id s';
  ev_lm : lm s <= lm s';
  ev_store : forall c, In c (store s') -> In c (store s) \/ next_id s <= cp_id c }.

Lemma evolves_refl : forall s, evolves s s.
Proof. intro s. constructor; auto; lia. Qed.

Lemma evolves_trans : forall s1 s2 s3, evolves s1 s2 -> evolves s2 s3 -> evolves s1 s3.
Proof.
  intros s1 s2 s3 [A1 B1 C1] [A2 B2 C2]. constructor; try lia.
  intros c Hin. destruct (C2 c Hin) as [H|H]; [|right; lia].
  destruct (C1 c H); auto.
Qed.

Lemma evolves_sub : forall s l', sublist l' (store s) -> evolves s (with_store s l' (next_id s)).
Proof.
  intros s l' Hs. constructor; cbn; try lia. intros c Hin. left. eapply sublist_In; eauto.
Qed.

Lemma evolves_add : forall s c, cp_id c = next_id s ->
  evolves s (with_store s (add_cp (store s) c) (next_id s + 1)).
Proof.
  intros s c Hc. constructor; cbn; try lia. intros x Hin. unfold add_cp in Hin.
  apply in_app_or in Hin. destruct Hin as [Hin|[<-|[]]].
  - left. eapply sublist_In; [apply sublist_lastn | eauto].
  - right. lia.
Qed.

(* ---- page_r, browse_one_r, next_one_r ---------------------------------------------------------- *)
Lemma page_r_inv : forall s refs st0 k, inv s -> (st0 <= length refs)%nat ->
  inv (fst (page_r s refs st0 k)) /\ evolves s (fst (page_r s refs st0 k)) /\
  snd (page_r s refs st0 k) <> Panic.
Proof.
  intros s refs st0 k Hi Hst. unfold page_r.
  destruct (length refs <? st0)%nat eqn:E; [apply Nat.ltb_lt in E; lia|].
  destruct ((0 <? k)%nat && (k <? length refs - st0)%nat) eqn:C; cbn [fst snd].
  - apply andb_true_iff in C. destruct C as [C1 C2]. apply Nat.ltb_lt in C1, C2.
    split; [apply inv_add; auto; lia|]. split; [apply evolves_add; reflexivity | discriminate].
  - split; auto. split; [apply evolves_refl | discriminate].
Qed.

Lemma browse_one_inv : forall k s d, inv s ->
  inv (fst (browse_one_r k s d)) /\ evolves s (fst (browse_one_r k s d)) /\
  snd (browse_one_r k s d) <> Panic.
Proof.
  intros k s d Hi. unfold browse_one_r. destruct (nth_hub (hubs s) (d_hub d)).
  - apply page_r_inv; auto. lia.
  - cbn. split; auto. split; [apply evolves_refl | discriminate].
Qed.

Lemma next_one_inv : forall s id, inv s ->
  inv (fst (next_one_r s id)) /\ evolves s (fst (next_one_r s id)) /\
  snd (next_one_r s id) <> Panic.
Proof.
  intros s id Hi. unfold next_one_r. destruct (take_cp id (store s)) as [[c rest]|] eqn:T.
  - destruct (take_cp_some _ _ _ _ T) as [l1 [l2 [A [B C]]]].
    assert (Hsub : sublist rest (store s)) by (rewrite A, B; apply sublist_remove_mid).
    assert (Hc : In c (store s)) by (rewrite A; apply in_or_app; right; left; reflexivity).
    pose proof (inv_start s Hi) as Hs. rewrite Forall_forall in Hs. destruct (Hs c Hc) as [Hst _].
    pose proof (page_r_inv (with_store s rest (next_id s)) (cp_refs c) (cp_start c) (cp_k c)
                  (inv_sub s rest Hi Hsub) Hst) as [P1 [P2 P3]].
    split; [exact P1|]. split; [|exact P3].
    eapply evolves_trans; [apply evolves_sub; exact Hsub | exact P2].
  - cbn. split; auto. split; [apply evolves_refl | discriminate].
Qed.

Lemma thread_inv : forall A (f : st -> A -> st * bres),
  (forall s x, inv s -> inv (fst (f s x)) /\ evolves s (fst (f s x)) /\ snd (f s x) <> Panic) ->
  forall l s, inv s ->
  inv (fst (thread_r f s l)) /\ evolves s (fst (thread_r f s l)) /\ ~ In Panic (snd (thread_r f s l)).
Proof.
  intros A f Hf. induction l as [|x l IH]; intros s Hi; cbn.
  - split; auto. split; [apply evolves_refl | intros []].
  - destruct (Hf s x Hi) as [F1 [F2 F3]]. destruct (f s x) as [s1 r1]. cbn [fst snd] in *.
    destruct (IH s1 F1) as [G1 [G2 G3]]. destruct (thread_r f s1 l) as [s2 rs]. cbn [fst snd] in *.
    split; auto. split; [eapply evolves_trans; eauto|].
    intros [E|Hin]; [congruence | auto].
Qed.

Lemma expire_inv : forall s, inv s -> inv (expire s) /\ evolves s (expire s).
Proof.
  intros s Hi. unfold expire. split; [apply inv_sub; auto; apply sublist_filter | apply evolves_sub; apply sublist_filter].
Qed.

Lemma browse_r_inv : forall k s ds, inv s ->
  inv (fst (browse_r k s ds)) /\ evolves s (fst (browse_r k s ds)) /\ ~ In Panic (snd (browse_r k s ds)).
Proof. intros. unfold browse_r. apply thread_inv; auto. intros. apply browse_one_inv; auto. Qed.

Lemma next_r_inv : forall s l, inv s ->
  inv (fst (next_r s l)) /\ evolves s (fst (next_r s l)) /\ ~ In Panic (snd (next_r s l)).
Proof.
  intros s l Hi. unfold next_r. destruct (expire_inv s Hi) as [E1 E2].
  destruct (thread_inv _ next_one_r next_one_inv (known_ids (next_id s) l) (expire s) E1) as [T1 [T2 T3]].
  split; auto. split; auto. eapply evolves_trans; eauto.
Qed.

Lemma release_inv : forall s l, inv s -> inv (release_r s l) /\ evolves s (release_r s l).
Proof.
  intros s l Hi. unfold release_r. split; [apply inv_sub; auto; apply sublist_filter | apply evolves_sub; apply sublist_filter].
Qed.

(* states that differ only in the address space (hubs, last_modified growing) *)
Lemma inv_graph : forall s hs l b, inv s -> lm s <= l -> inv (mk_st hs l (store s) (next_id s) b).
Proof.
  intros s hs l b [H1 H2 H3 H4 H5 H6] Hl. constructor; cbn; auto.
  eapply Forall_impl; [|exact H5]. cbn. intros; lia.
Qed.
Lemma evolves_graph : forall s hs l b, lm s <= l -> evolves s (mk_st hs l (store s) (next_id s) b).
Proof. intros. constructor; cbn; auto; lia. Qed.

Lemma step_inv : forall s o, inv s -> inv (fst (step s o)) /\ evolves s (fst (step s o)).
Proof.
  intros s o Hi. destruct o as [k ds | rel l | id | | h ty cls | h k | h k]; cbn [step].
  - destruct ds as [|d ds]; [cbn; split; auto; apply evolves_refl|].
    destruct (MAX_NODES <? length (d :: ds))%nat; [cbn; split; auto; apply evolves_refl|].
    destruct (browse_r_inv k s (d :: ds) Hi) as [B1 [B2 _]].
    destruct (browse_r k s (d :: ds)) as [s' rs]. cbn [fst] in *. auto.
  - destruct l as [|i l]; [cbn; split; auto; apply evolves_refl|].
    destruct rel.
    + cbn [fst]. apply release_inv; auto.
    + destruct (next_r_inv s (i :: l) Hi) as [B1 [B2 _]].
      destruct (next_r s (i :: l)) as [s' rs]. cbn [fst] in *. auto.
  - cbn. split; auto. apply evolves_refl.
  - cbn [fst]. split; [apply inv_graph; auto; lia | apply evolves_graph; lia].
  - destruct (nth_hub (hubs s) h); cbn [fst].
    + split; [apply inv_graph; auto; lia | apply evolves_graph; lia].
    + split; auto. apply evolves_refl.
  - destruct (nth_hub (hubs s) h) as [g|]; cbn [fst]; [|split; auto; apply evolves_refl].
    destruct (g_fwd g); cbn [fst]; [split; auto; apply evolves_refl|].
    destruct (legacy_del s); (split; [apply inv_graph; auto; lia | apply evolves_graph; lia]).
  - destruct (nth_hub (hubs s) h) as [g|]; cbn [fst]; [|split; auto; apply evolves_refl].
    destruct (g_fwd g); cbn [fst]; [split; auto; apply evolves_refl|].
    destruct (legacy_del s); (split; [apply inv_graph; auto; lia | apply evolves_graph; lia]).
Qed.

Lemma exec_inv : forall ops s, inv s -> inv (exec s ops) /\ evolves s (exec s ops).
Proof.
  unfold exec. induction ops as [|o ops IH]; intros s Hi; cbn.
  - split; auto. apply evolves_refl.
  - destruct (step_inv s o Hi) as [S1 S2]. destruct (IH _ S1) as [I1 I2].
    split; auto. eapply evolves_trans; eauto.
Qed.

Lemma inv_init : forall b c, inv (init_st b c).
Proof. intros. constructor; cbn; auto; try constructor; unfold MAX_CPS; try lia. Qed.

(* ---- continuation points that can no longer be used ------------------------------------------ *)
Lemma unusable_evolves : forall id s s', unusable id s -> evolves s s' -> unusable id s'.
Proof.
  intros id s s' [H1 H2] [A B C]. split; [lia|]. intros c Hin E.
  destruct (C c Hin) as [Hold|Hnew]; [specialize (H2 c Hold E); lia | lia].
Qed.

Lemma unusable_exec : forall id s ops, inv s -> unusable id s -> unusable id (exec s ops).
Proof. intros id s ops Hi Hu. eapply unusable_evolves; eauto. apply exec_inv; auto. Qed.

Lemma next_r_single : forall s id,
  next_r s [id] =
  (fst (next_one_r (expire s) (if id <? next_id s then id else 0)),
   [snd (next_one_r (expire s) (if id <? next_id s then id else 0))]).
Proof.
  intros s id. unfold next_r, known_ids. cbn [map thread_r].
  destruct (next_one_r (expire s) (if id <? next_id s then id else 0)). reflexivity.
Qed.

(* an unusable point is refused and nothing but the expiry happens *)
Lemma unusable_refused : forall s id, unusable id s -> next_r s [id] = (expire s, [Res 2 0 None]).
Proof.
  intros s id [H1 H2]. rewrite next_r_single. apply Z.ltb_lt in H1. rewrite H1.
  unfold next_one_r. rewrite take_cp_absent; [reflexivity|].
  intros c Hin E. unfold expire in Hin. cbn in Hin. apply filter_In in Hin. destruct Hin as [Hin Hv].
  apply Z.leb_le in Hv. specialize (H2 c Hin E). lia.
Qed.

Lemma NoDup_mid : forall A B (f : A -> B) l1 c l2, NoDup (map f (l1 ++ c :: l2)) ->
  forall x, In x (l1 ++ l2) -> f x <> f c.
Proof.
  intros A B f l1 c l2 H x Hin E. rewrite map_app in H. cbn in H. apply NoDup_remove_2 in H.
  apply H. rewrite <- map_app, <- E. apply in_map. exact Hin.
Qed.

(* used once *)
Lemma used_unusable : forall s id, inv s -> id < next_id s -> unusable id (fst (next_r s [id])).
Proof.
  intros s id Hi Hlt. rewrite next_r_single. cbn [fst].
  pose proof Hlt as Hb. apply Z.ltb_lt in Hb. rewrite Hb.
  destruct (expire_inv s Hi) as [E1 E2]. set (s0 := expire s) in *.
  assert (Hn : next_id s0 = next_id s) by reflexivity.
  unfold next_one_r. destruct (take_cp id (store s0)) as [[c rest]|] eqn:T; cbn [fst].
  - destruct (take_cp_some _ _ _ _ T) as [l1 [l2 [A [B C]]]].
    assert (Hsub : sublist rest (store s0)) by (rewrite A, B; apply sublist_remove_mid).
    assert (Hc : In c (store s0)) by (rewrite A; apply in_or_app; right; left; reflexivity).
    pose proof (inv_start s0 E1) as Hs. rewrite Forall_forall in Hs. destruct (Hs c Hc) as [Hst _].
    pose proof (page_r_inv (with_store s0 rest (next_id s0)) (cp_refs c) (cp_start c) (cp_k c)
                  (inv_sub s0 rest E1 Hsub) Hst) as [_ [P2 _]].
    eapply unusable_evolves; [|exact P2]. split; [cbn; lia|]. cbn [store with_store].
    intros x Hx Ex. exfalso. pose proof (inv_nodup s0 E1) as Hnd. unfold ids in Hnd. rewrite A in Hnd.
    rewrite B in Hx. apply (NoDup_mid _ _ cp_id l1 c l2 Hnd x Hx). congruence.
  - split; [lia|]. intros c Hin E. exfalso. eapply take_cp_none; eauto.
Qed.

(* released *)
Lemma released_unusable : forall s l id, In id l -> id < next_id s -> unusable id (release_r s l).
Proof.
  intros s l id Hin Hlt. split; [cbn; lia|]. intros c Hc E. exfalso.
  unfold release_r in Hc. cbn in Hc. apply filter_In in Hc. destruct Hc as [_ Hm].
  apply negb_true_iff in Hm. unfold memZ in Hm.
  assert (existsb (Z.eqb (cp_id c)) l = true).
  { apply existsb_exists. exists id. split; auto. apply Z.eqb_eq. exact E. }
  congruence.
Qed.

(* invalid after the address space changed *)
Lemma modified_unusable : forall s o, inv s -> lm s < lm (fst (step s o)) ->
  forall id, id < next_id s -> unusable id (fst (step s o)).
Proof.
  intros s o Hi Hlm id Hlt. destruct (step_inv s o Hi) as [_ [A B C]].
  split; [lia|]. intros c Hin E. destruct (C c Hin) as [Hold|Hnew]; [|lia].
  pose proof (inv_lm s Hi) as Hl. rewrite Forall_forall in Hl. specialize (Hl c Hold). lia.
Qed.

(* ---- what does not touch the address space ---------------------------------------------------- *)
Definition frame (s s' : st) : Prop :=
  hubs s' = hubs s /\ lm s' = lm s /\ legacy_del s' = legacy_del s.

Lemma frame_refl : forall s, frame s s. Proof. intro; repeat split. Qed.
Lemma frame_trans : forall a b c, frame a b -> frame b c -> frame a c.
Proof. intros a b c [A1 [A2 A3]] [B1 [B2 B3]]. repeat split; congruence. Qed.

Lemma frame_page : forall s refs st0 k, frame s (fst (page_r s refs st0 k)).
Proof.
  intros. unfold page_r. destruct (length refs <? st0)%nat; [apply frame_refl|].
  destruct ((0 <? k)%nat && (k <? length refs - st0)%nat); cbn; repeat split.
Qed.
Lemma frame_browse_one : forall k s d, frame s (fst (browse_one_r k s d)).
Proof. intros. unfold browse_one_r. destruct (nth_hub (hubs s) (d_hub d)); [apply frame_page | apply frame_refl]. Qed.
Lemma frame_next_one : forall s id, frame s (fst (next_one_r s id)).
Proof.
  intros. unfold next_one_r. destruct (take_cp id (store s)) as [[c rest]|]; [|apply frame_refl].
  eapply frame_trans; [|apply frame_page]. repeat split.
Qed.
Lemma frame_thread : forall A (f : st -> A -> st * bres), (forall s x, frame s (fst (f s x))) ->
  forall l s, frame s (fst (thread_r f s l)).
Proof.
  intros A f Hf. induction l as [|x l IH]; intro s; cbn; [apply frame_refl|].
  pose proof (Hf s x) as F. destruct (f s x) as [s1 r1]. cbn [fst] in F.
  pose proof (IH s1) as G. destruct (thread_r f s1 l) as [s2 rs]. cbn [fst] in *.
  eapply frame_trans; eauto.
Qed.
Lemma frame_browse : forall k s ds, frame s (fst (browse_r k s ds)).
Proof. intros. unfold browse_r. apply frame_thread. intros; apply frame_browse_one. Qed.
Lemma frame_next : forall s l, frame s (fst (next_r s l)).
Proof.
  intros. unfold next_r. eapply frame_trans; [|apply frame_thread; intros; apply frame_next_one].
  repeat split.
Qed.

Lemma legacy_step : forall s o, legacy_del (fst (step s o)) = legacy_del s.
Proof.
  intros s o. destruct o as [k ds | rel l | id | | h ty cls | h k | h k]; cbn [step].
  - destruct ds as [|d ds]; [reflexivity|]. destruct (MAX_NODES <? length (d :: ds))%nat; [reflexivity|].
    pose proof (frame_browse k s (d :: ds)) as [_ [_ F]]. destruct (browse_r k s (d :: ds)). exact F.
  - destruct l as [|i l]; [reflexivity|]. destruct rel; [reflexivity|].
    pose proof (frame_next s (i :: l)) as [_ [_ F]]. destruct (next_r s (i :: l)). exact F.
  - reflexivity.
  - reflexivity.
  - destruct (nth_hub (hubs s) h); reflexivity.
  - destruct (nth_hub (hubs s) h) as [g|]; [|reflexivity]. destruct (g_fwd g); reflexivity.
  - destruct (nth_hub (hubs s) h) as [g|]; [|reflexivity]. destruct (g_fwd g); reflexivity.
Qed.

(* with the repaired code every change of the browsed fragment moves last_modified on *)
Lemma graph_change_bumps : forall s o, legacy_del s = false ->
  hubs (fst (step s o)) <> hubs s -> lm s < lm (fst (step s o)).
Proof.
  intros s o Hl. destruct o as [k ds | rel l | id | | h ty cls | h k | h k]; cbn [step].
  - destruct ds as [|d ds]; [intro H; exfalso; apply H; reflexivity|].
    destruct (MAX_NODES <? length (d :: ds))%nat; [intro H; exfalso; apply H; reflexivity|].
    pose proof (frame_browse k s (d :: ds)) as [F _]. destruct (browse_r k s (d :: ds)). cbn [fst] in *.
    intro H; exfalso; apply H; exact F.
  - destruct l as [|i l]; [intro H; exfalso; apply H; reflexivity|].
    destruct rel; [intro H; exfalso; apply H; reflexivity|].
    pose proof (frame_next s (i :: l)) as [F _]. destruct (next_r s (i :: l)). cbn [fst] in *.
    intro H; exfalso; apply H; exact F.
  - intro H; exfalso; apply H; reflexivity.
  - cbn. lia.
  - destruct (nth_hub (hubs s) h); cbn; [lia | intro H; exfalso; apply H; reflexivity].
  - destruct (nth_hub (hubs s) h) as [g|]; [|intro H; exfalso; apply H; reflexivity].
    destruct (g_fwd g); [intro H; exfalso; apply H; reflexivity|]. rewrite Hl. cbn. lia.
  - destruct (nth_hub (hubs s) h) as [g|]; [|intro H; exfalso; apply H; reflexivity].
    destruct (g_fwd g); [intro H; exfalso; apply H; reflexivity|]. rewrite Hl. cbn. lia.
Qed.

(* ---- the paging theorem ------------------------------------------------------------------------ *)
Lemma take_cp_last : forall id l x, (forall c, In c l -> cp_id c <> id) -> cp_id x = id ->
  take_cp id (l ++ [x]) = Some (x, l).
Proof.
  induction l as [|y l IH]; intros x H Hx; cbn.
  - apply Z.eqb_eq in Hx. rewrite Hx. reflexivity.
  - destruct (cp_id y =? id) eqn:E.
    + apply Z.eqb_eq in E. exfalso. apply (H y); cbn; auto.
    + rewrite IH; auto. intros c Hin. apply H. right. exact Hin.
Qed.

Lemma skipn_add : forall A (a b : nat) (l : list A), skipn (a + b) l = skipn b (skipn a l).
Proof.
  induction a as [|a IH]; intros b l; cbn; [reflexivity|].
  destruct l; [destruct b; reflexivity | apply IH].
Qed.

Lemma follow_pages : forall n s refs st0 k,
  inv s -> (st0 <= length refs)%nat -> (length refs - st0 <= n)%nat ->
  concat (snd (follow n (fst (page_r s refs st0 k)) (snd (page_r s refs st0 k)))) = skipn st0 refs /\
  inv (fst (follow n (fst (page_r s refs st0 k)) (snd (page_r s refs st0 k)))).
Proof.
  induction n as [|n IH]; intros s refs st0 k Hi Hst Hn; unfold page_r;
    (destruct (length refs <? st0)%nat eqn:E0; [apply Nat.ltb_lt in E0; lia|]);
    destruct ((0 <? k)%nat && (k <? length refs - st0)%nat) eqn:C; cbn [fst snd].
  - apply andb_true_iff in C. destruct C as [C1 C2]. apply Nat.ltb_lt in C2. lia.
  - cbn. rewrite app_nil_r. auto.
  - apply andb_true_iff in C. destruct C as [C1 C2]. apply Nat.ltb_lt in C1, C2.
    pose proof (inv_next s Hi) as Hnx.
    set (newcp := mk_cp (next_id s) (lm s) k (st0 + k) refs).
    set (s1 := with_store s (add_cp (store s) newcp) (next_id s + 1)).
    assert (Hi1 : inv s1) by (apply inv_add; auto; lia).
    cbn [follow]. cbn [Z.eqb negb].
    destruct (next_id s =? 0) eqn:Ez; [apply Z.eqb_eq in Ez; lia|].
    rewrite next_r_single.
    assert (Hlt : next_id s <? next_id s1 = true) by (apply Z.ltb_lt; cbn; lia). rewrite Hlt.
    (* the new point is the last of the store and survives the expiry *)
    assert (Hexp : store (expire s1) = filter (fun c => lm s <=? cp_lm c) (lastn (MAX_CPS - 1) (store s)) ++ [newcp]).
    { unfold expire, s1, add_cp. cbn [store with_store lm]. rewrite filter_app. cbn [filter cp_lm newcp].
      rewrite Z.leb_refl. reflexivity. }
    set (old := filter (fun c => lm s <=? cp_lm c) (lastn (MAX_CPS - 1) (store s))) in *.
    assert (Hold : forall c, In c old -> cp_id c <> next_id s).
    { intros c Hc. unfold old in Hc. apply filter_In in Hc. destruct Hc as [Hc _].
      eapply sublist_In in Hc; [|apply sublist_lastn].
      pose proof (inv_ids s Hi) as Hids. rewrite Forall_forall in Hids. specialize (Hids c Hc). lia. }
    unfold next_one_r. rewrite Hexp, (take_cp_last (next_id s) old newcp Hold eq_refl).
    cbn [cp_refs cp_start cp_k newcp].
    set (s2 := with_store (expire s1) old (next_id (expire s1))).
    assert (Hi2 : inv s2).
    { apply inv_sub; [apply expire_inv; auto|]. rewrite Hexp.
      replace old with (old ++ []) at 1 by apply app_nil_r. clear.
      induction old; cbn; [apply sublist_nil | apply sl_keep; auto]. }
    destruct (IH s2 refs (st0 + k)%nat k Hi2 ltac:(lia) ltac:(lia)) as [IH1 IH2].
    destruct (follow n (fst (page_r s2 refs (st0 + k) k)) (snd (page_r s2 refs (st0 + k) k))) as [s3 pgs] eqn:F.
    cbn [fst snd] in *. split; [|exact IH2].
    cbn [concat]. rewrite IH1.
    rewrite skipn_add. apply firstn_skipn.
  - cbn. rewrite app_nil_r. auto.
Qed.

Theorem pages_concat : forall s d k g fuel,
  inv s -> nth_hub (hubs s) (d_hub d) = Some g -> (length (full_of g d) <= fuel)%nat ->
  concat (snd (browse_pages fuel s d k)) = full_of g d.
Proof.
  intros s d k g fuel Hi Hg Hf. unfold browse_pages, browse_r. cbn [thread_r].
  unfold browse_one_r. rewrite Hg.
  destruct (follow_pages fuel s (full_of g d) 0 (eff_k k) Hi ltac:(lia) ltac:(lia)) as [H _].
  destruct (page_r s (full_of g d) 0 (eff_k k)) as [s1 r]. cbn [fst snd] in *. exact H.
Qed.
