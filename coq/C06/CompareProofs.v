(* C06 — proofs about the comparison operators of operator.rs (C06/Compare.v). *)
From Coq Require Import List ZArith Bool Lia Reals.
From Flocq Require Import Core IEEE754.BinarySingleNaN.
From OV Require Import C06.Model C06.Spec C06.IntFacts C06.Proofs C06.OracleProofs C06.Compare C06.Top.
Import ListNotations.
Open Scope Z_scope.

Definition int_tys : list ty := [TSByte; TByte; TInt16; TUInt16; TInt32; TUInt32; TInt64; TUInt64].

Lemma int_ty_in : forall t s b, int_ty t = Some (s, b) -> In t int_tys.
Proof. intros t s b H. destruct t; cbn in H; try discriminate; cbn; tauto. Qed.
Lemma int_ty_num_of : forall t s b, int_ty t = Some (s, b) -> num_of t = Some (NInt s b).
Proof. intros t s b H. destruct t; cbn in H; try discriminate; cbn; congruence. Qed.
Lemma int_ty_prim : forall t s b, int_ty t = Some (s, b) -> prim_of t = Some (PInt s b).
Proof. intros t s b H. destruct t; cbn in H; try discriminate; cbn; congruence. Qed.
Lemma int_ty_bits : forall t s b, int_ty t = Some (s, b) -> 0 < b <= 64.
Proof. intros t s b H. apply int_types_bits with (s := s). eapply int_ty_In; eassumption. Qed.

(* the arm of Variant::convert between two integer types is usable for a comparison: `as` / try_from,
   or the `v < 0` guard into an unsigned type *)
Definition arm_ok (s t : ty) : bool :=
  match lookup (c_convert gen_cfg) s t, int_ty t with
  | Some RAs, _ | Some RTry, _ => true
  | Some RNonNeg, Some (false, _) => true
  | _, _ => false
  end.
(* for two different integer types the ranks differ, and the type of lower precedence has a usable
   arm into the other *)
Definition table_cmp_ok : bool :=
  forallb (fun s => forallb (fun t =>
    ty_eqb s t ||
    (negb (precedence s =? precedence t) &&
     (if precedence t <? precedence s then arm_ok s t else arm_ok t s))) int_tys) int_tys.
Lemma table_cmp_ok_true : table_cmp_ok = true.
Proof. vm_compute. reflexivity. Qed.

Lemma table_pair : forall s t, In s int_tys -> In t int_tys -> ty_eqb s t = false ->
  precedence s <> precedence t /\ (if precedence t <? precedence s then arm_ok s t else arm_ok t s) = true.
Proof.
  intros s t Hs Ht Hne. pose proof table_cmp_ok_true as H. unfold table_cmp_ok in H.
  rewrite forallb_forall in H. specialize (H s Hs). rewrite forallb_forall in H. specialize (H t Ht).
  rewrite Hne in H. cbn [orb] in H. apply andb_true_iff in H. destruct H as [H1 H2].
  split; [|exact H2]. apply negb_true_iff in H1. apply Z.eqb_neq in H1. exact H1.
Qed.

(* Variant::convert between two different integer types with a usable arm: the value itself when it
   is in the range of the target, no result otherwise *)
Lemma convert_int_int : forall s t ss sb ts tb n,
  int_ty s = Some (ss, sb) -> int_ty t = Some (ts, tb) -> ty_eqb s t = false ->
  in_range ss sb n = true -> arm_ok s t = true ->
  convert gen_cfg s t (VInt n) = if in_range ts tb n then Res t (VInt n) else Empty.
Proof.
  intros s t ss sb ts tb n Hs Ht Hne Hn Harm.
  pose proof (int_ty_bits _ _ _ Ht) as Hb.
  destruct (in_range ts tb n) eqn:E.
  - unfold convert. rewrite Hne. rewrite (int_ty_prim _ _ _ Ht).
    unfold arm_ok in Harm. rewrite Ht in Harm.
    destruct (lookup (c_convert gen_cfg) s t) as [r|]; [|discriminate].
    unfold convert_r. destruct r; try discriminate.
    + cbn [as_cast]. rewrite wrap_id by (lia || assumption). reflexivity.
    + rewrite E. reflexivity.
    + destruct ts; [discriminate|].
      assert (Hn0 : (n <? 0) = false).
      { apply Z.ltb_ge. apply in_range_iff in E. unfold pmin in E. lia. }
      rewrite Hn0. cbn [as_cast]. rewrite wrap_id by (lia || assumption). reflexivity.
  - apply convert_out_of_range with (ks := NInt ss sb) (ts := ts) (tb := tb).
    + exact gen_cfg_ok.
    + apply int_ty_num_of; assumption.
    + apply int_ty_num_of; assumption.
    + unfold well_typed. rewrite (int_ty_num_of _ _ _ Hs). exact Hn.
    + reflexivity.
    + cbn [valR]. unfold in_range in E. apply andb_false_iff in E. destruct E as [E | E].
      * left. apply IZR_lt. apply Z.leb_gt in E. exact E.
      * right. apply IZR_lt. apply Z.leb_gt in E. exact E.
Qed.

(* Comparison of two integer operands of any two integer types: the operand whose type has the lower
   precedence must fit the type of the other; then the outcome is the comparison of the two NUMBERS,
   otherwise it is ComparisonResult::Error (every operator answers false). *)
Theorem compare_int : forall t1 t2 s1 b1 s2 b2 a b,
  int_ty t1 = Some (s1, b1) -> int_ty t2 = Some (s2, b2) ->
  in_range s1 b1 a = true -> in_range s2 b2 b = true ->
  compare gen_cfg t1 t2 (VInt a) (VInt b) =
    if (if precedence t1 <? precedence t2 then in_range s1 b1 b else in_range s2 b2 a)
    then cmp_of (Some (a ?= b)) else CErr.
Proof.
  intros t1 t2 s1 b1 s2 b2 a b H1 H2 Ha Hb.
  unfold compare, op_convert. destruct (ty_eqb t1 t2) eqn:E.
  - apply ty_eqb_eq in E. subst t2. rewrite H1 in H2. injection H2 as <- <-.
    rewrite Z.ltb_irrefl. rewrite Ha. rewrite ty_eqb_refl. reflexivity.
  - destruct (table_pair t1 t2 (int_ty_in _ _ _ H1) (int_ty_in _ _ _ H2) E) as [Hp Harm].
    destruct (precedence t1 <? precedence t2) eqn:P.
    + (* t1 wins: the second operand moves *)
      assert (P' : (precedence t2 <? precedence t1) = false) by (apply Z.ltb_ge; apply Z.ltb_lt in P; lia).
      rewrite P' in Harm.
      assert (E' : ty_eqb t2 t1 = false).
      { destruct (ty_eqb t2 t1) eqn:E2; [|reflexivity]. apply ty_eqb_eq in E2. subst. rewrite ty_eqb_refl in E. discriminate. }
      rewrite (convert_int_int t2 t1 s2 b2 s1 b1 b H2 H1 E' Hb Harm).
      destruct (in_range s1 b1 b); [rewrite ty_eqb_refl; reflexivity | reflexivity].
    + assert (P' : (precedence t2 <? precedence t1) = true) by (apply Z.ltb_lt; apply Z.ltb_ge in P; lia).
      rewrite P' in Harm.
      rewrite (convert_int_int t1 t2 s1 b1 s2 b2 a H1 H2 E Ha Harm).
      destruct (in_range s2 b2 a); [rewrite ty_eqb_refl; reflexivity | reflexivity].
Qed.

(* ---- the oracle on integer comparisons ---------------------------------------------------------- *)
Definition int_item (i : item) : Prop :=
  exists s1 b1 s2 b2, int_ty (i_t1 i) = Some (s1, b1) /\ int_ty (i_t2 i) = Some (s2, b2) /\
                      in_range s1 b1 (i_p1 i) = true /\ in_range s2 b2 (i_p2 i) = true.

Lemma rank_prec : forall t s b, int_ty t = Some (s, b) -> precedence t = spec_rank t /\ is_num t = true.
Proof. intros t s b H. destruct t; cbn in H; try discriminate; split; vm_compute; reflexivity. Qed.

Lemma xcmp_int : forall a b, xcmp (XFin (a, 0)) (XFin (b, 0)) = Some (a ?= b).
Proof.
  intros a b. cbn [xcmp]. unfold dy_l, dy_r. cbn [fst snd]. change (Z.min 0 0) with 0.
  change (2 ^ (0 - 0)) with 1. rewrite !Z.mul_1_r. reflexivity.
Qed.

Lemma list_eqb_refl : forall l, list_eqb l l = true.
Proof.
  intros l. unfold list_eqb. rewrite Nat.eqb_refl. cbn [andb].
  induction l as [|x l IH]; [reflexivity|]. cbn [combine forallb fst snd]. rewrite Z.eqb_refl. exact IH.
Qed.

Lemma five_len : forall c, c <> CUnm -> length (five c) = 5%nat.
Proof. intros c H. destruct c; try reflexivity. contradiction. Qed.

Lemma check_item_int : forall i, int_item i -> check_item i (run_item gen_cfg i) = true.
Proof.
  intros [t1 p1 t2 p2] (s1 & b1 & s2 & b2 & H1 & H2 & Ha & Hb). cbn [i_t1 i_p1 i_t2 i_p2] in *.
  unfold run_item. cbn [i_t1 i_p1 i_t2 i_p2].
  unfold decode. rewrite (int_ty_prim _ _ _ H1), (int_ty_prim _ _ _ H2).
  rewrite (compare_int t1 t2 s1 b1 s2 b2 p1 p2 H1 H2 Ha Hb).
  destruct (rank_prec _ _ _ H1) as [R1 N1]. destruct (rank_prec _ _ _ H2) as [R2 N2].
  unfold check_item. cbn [i_t1 i_p1 i_t2 i_p2]. rewrite N1, N2. cbn [andb negb].
  unfold src_view.
  assert (V1 : match t1 with TFloat => Some (view32 p1) | TDouble => Some (view64 p1)
                | _ => match int_ty t1 with Some _ => Some (XFin (p1, 0)) | None => None end end = Some (XFin (p1, 0))).
  { destruct t1; cbn in H1; try discriminate; reflexivity. }
  assert (V2 : match t2 with TFloat => Some (view32 p2) | TDouble => Some (view64 p2)
                | _ => match int_ty t2 with Some _ => Some (XFin (p2, 0)) | None => None end end = Some (XFin (p2, 0))).
  { destruct t2; cbn in H2; try discriminate; reflexivity. }
  rewrite V1, V2. rewrite xcmp_int. rewrite <- R1, <- R2.
  destruct (ty_eqb t1 t2) eqn:E.
  - apply ty_eqb_eq in E. subst t2. rewrite H1 in H2. injection H2 as <- <-.
    rewrite Z.ltb_irrefl, Z.leb_refl. rewrite H1. rewrite Hb, Ha. cbn [negb].
    rewrite orb_true_r. apply list_eqb_refl.
  - destruct (table_pair t1 t2 (int_ty_in _ _ _ H1) (int_ty_in _ _ _ H2) E) as [Hp _].
    destruct (precedence t1 <? precedence t2) eqn:P.
    + assert (L : (precedence t1 <=? precedence t2) = true) by (apply Z.leb_le; apply Z.ltb_lt in P; lia).
      rewrite L. rewrite H1. destruct (in_range s1 b1 p2); cbn [negb].
      * rewrite orb_true_r. apply list_eqb_refl.
      * reflexivity.
    + assert (L : (precedence t1 <=? precedence t2) = false) by (apply Z.leb_gt; apply Z.ltb_ge in P; lia).
      rewrite L. rewrite H2. destruct (in_range s2 b2 p1); cbn [negb].
      * rewrite orb_true_r. apply list_eqb_refl.
      * reflexivity.
Qed.

Lemma run_item_len : forall i, int_item i -> length (run_item gen_cfg i) = 5%nat.
Proof.
  intros [t1 p1 t2 p2] (s1 & b1 & s2 & b2 & H1 & H2 & Ha & Hb). cbn [i_t1 i_p1 i_t2 i_p2] in *.
  unfold run_item. cbn [i_t1 i_p1 i_t2 i_p2]. unfold decode.
  rewrite (int_ty_prim _ _ _ H1), (int_ty_prim _ _ _ H2).
  rewrite (compare_int t1 t2 s1 b1 s2 b2 p1 p2 H1 H2 Ha Hb).
  apply five_len. destruct (if precedence t1 <? precedence t2 then in_range s1 b1 p2 else in_range s2 b2 p1);
    [destruct (p1 ?= p2); discriminate | discriminate].
Qed.

Lemma firstn_app_len : forall (a b : list Z) n, length a = n -> firstn n (a ++ b) = a.
Proof. intros a b n <-. rewrite firstn_app, Nat.sub_diag, firstn_all. cbn. apply app_nil_r. Qed.
Lemma skipn_app_len : forall (a b : list Z) n, length a = n -> skipn n (a ++ b) = b.
Proof. intros a b n <-. rewrite skipn_app, Nat.sub_diag, skipn_all. reflexivity. Qed.

Theorem check_items_int : forall l, Forall int_item l -> check_items l (run_cmp_with gen_cfg l) = true.
Proof.
  induction l as [|i l IH]; intros H; [reflexivity|].
  inversion H as [|? ? Hi Hl]; subst. unfold run_cmp_with. cbn [flat_map check_items].
  rewrite (firstn_app_len _ _ 5%nat (run_item_len i Hi)), (skipn_app_len _ _ 5%nat (run_item_len i Hi)).
  rewrite (check_item_int i Hi). cbn [andb]. apply IH. exact Hl.
Qed.

(* ---- the oracle of the whole case language --------------------------------------------------------- *)
Definition valid_int (c : Top.case) : Prop :=
  match c with CConv c => Model.valid c | CCmp l => Forall int_item l end.

Theorem top_oracle_holds : forall c, valid_int c -> Top.known c = 0 -> Top.oracle c (Top.run c) = true.
Proof.
  intros [c | l] Hv _.
  - cbn [Top.oracle Top.run]. apply OracleProofs.oracle_holds; [exact Hv | reflexivity].
  - cbn [Top.oracle Top.run]. apply check_items_int. exact Hv.
Qed.
