(* C15 — stub while the correspondence is brought up *)
From Coq Require Import List ZArith.
Import ListNotations.
From OV Require Import C15.Model C15.Proofs.
Open Scope Z_scope.
Theorem C15_legacy_refuted :
  oracle [FHel 0 true true; FMsg 0 true] (render (Legacy.trace [FHel 0 true true; FMsg 0 true])) = false.
Proof. exact legacy_refuted. Qed.
Print Assumptions C15_legacy_refuted.
