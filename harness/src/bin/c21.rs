//! C21: publish responses pair with requests and deliver every data change once.  Drives the
//! real session/subscription machinery (see ../subs2.rs) through long histories of writes, timer
//! ticks, publish requests, item and subscription create/delete.
#[path = "../util.rs"]
mod util;
#[path = "../subs2.rs"]
mod subs2;
use subs2::*;
use util::*;

pub struct P;

fn sub(interval: i64, kac: i64, life: i64, enabled: bool) -> Op { Op::CreateSub { prio: 0, interval, kac, life, enabled } }
fn item(sub: i64, var: i64, samp: i64, qsize: i64, discard_oldest: bool) -> Op { Op::CreateItem { sub, var, mode: 2, samp, qsize, discard_oldest } }
fn tick(dt: i64) -> Op { Op::Tick { dt } }
fn publ() -> Op { Op::Publish { dt: 0, hint: 0, acks: vec![] } }
fn wr(v: i64, x: i64) -> Op { Op::Write { v, x } }

impl Property for P {
    type Case = Case;
    fn fixed(tier: &str) -> Vec<Case> {
        let mut v = Vec::new();
        // 0: the design-round history: one reporting item (sampling -1), a new value every cycle,
        // exactly one publish request per cycle just before the tick.  Before "fix: notifications
        // were dropped when no publish request was queued" no response carried data.
        {
            let mut ops = vec![sub(1000, 10, 30, true), item(1, 0, -1, 10, true)];
            for t in 0..14 { ops.push(wr(0, 1000 + t)); if t >= 6 { ops.push(publ()); } ops.push(tick(1000)); }
            v.push(Case { nvars: 1, ops });
        }
        // 1: values pile up for four cycles without a request, then the requests arrive
        {
            let mut ops = vec![sub(1000, 3, 30, true), item(1, 0, -1, 10, true), tick(0)];
            for t in 0..4 { ops.push(wr(0, 10 + t)); ops.push(tick(1000)); }
            for _ in 0..6 { ops.push(publ()); }
            ops.push(tick(1000));
            v.push(Case { nvars: 1, ops });
        }
        // 2: the subscription's lifetime runs out (no publish requests) in a cycle in which the
        // item has a new value
        {
            let mut ops = vec![sub(1000, 1, 3, true), item(1, 0, -1, 2, true), tick(0)];
            for t in 0..6 { ops.push(wr(0, 10 + t)); ops.push(tick(1000)); }
            ops.push(publ()); ops.push(publ()); ops.push(tick(1000));
            v.push(Case { nvars: 1, ops });
        }
        // 3: item with its own sampling interval: a timer tick right after a publish-request tick
        // that sampled does not sample again (values wait in the item queue for the next cycle)
        {
            let ops = vec![sub(1000, 3, 30, true), item(1, 0, 500, 4, true), tick(0), tick(1000), wr(0, 1), Op::Publish { dt: 900, hint: 0, acks: vec![] },
                tick(100), wr(0, 2), publ(), tick(1000), publ(), tick(1000), publ(), tick(1000)];
            v.push(Case { nvars: 1, ops });
        }
        // 4: queue of one / overflow, two items on one variable, item deleted with values queued
        {
            let ops = vec![sub(1000, 3, 30, true), item(1, 0, 100, 1, true), item(1, 0, 100, 3, false), tick(0), tick(1000), wr(0, 1), tick(100), wr(0, 2), tick(100), wr(0, 3), tick(100),
                wr(0, 4), tick(100), wr(0, 5), tick(100), Op::DeleteItem { sub: 1, item: 1 }, publ(), tick(1000), publ(), tick(1000)];
            v.push(Case { nvars: 1, ops });
        }
        // 5: publishing disabled: nothing is sent but keep-alives; a second, enabled subscription
        {
            let mut ops = vec![sub(1000, 2, 30, false), sub(500, 2, 30, true), item(1, 0, -1, 4, true), item(2, 0, -1, 4, true), tick(0)];
            for t in 0..6 { ops.push(wr(0, 50 + t)); ops.push(publ()); ops.push(tick(500)); }
            v.push(Case { nvars: 1, ops });
        }
        // 6: requests time out (hint 1500 ms) before data arrives; later ones are answered in order
        {
            let ops = vec![sub(1000, 20, 60, true), item(1, 0, -1, 4, true), tick(0), publ(), tick(1000), Op::Publish { dt: 0, hint: 1500, acks: vec![] }, publ(), tick(1000), tick(1000), wr(0, 7), tick(1000)];
            v.push(Case { nvars: 1, ops });
        }
        // 7: subscription deleted while it has notifications waiting, another one keeps going
        {
            let ops = vec![sub(1000, 3, 30, true), sub(1000, 3, 30, true), item(1, 0, -1, 4, true), item(2, 1, -1, 4, true), tick(0), tick(1000), wr(0, 1), wr(1, 2), tick(1000),
                Op::DeleteSub { sub: 1 }, publ(), publ(), tick(1000), wr(1, 3), publ(), tick(1000)];
            v.push(Case { nvars: 2, ops });
        }
        if tier == "thorough" {
            // every pattern of "request before the tick" over 8 cycles with a write in every cycle
            for mask in 0..256u32 {
                let mut ops = vec![sub(1000, 2, 12, true), item(1, 0, -1, 3, true), tick(0)];
                for t in 0..8 { ops.push(wr(0, 100 + t)); if mask & (1 << t) != 0 { ops.push(publ()); } ops.push(tick(1000)); }
                ops.push(publ()); ops.push(publ());
                v.push(Case { nvars: 1, ops });
            }
        }
        v
    }
    fn gen(r: &mut Rng) -> Case {
        let nsubs = 1 + r.below(3) as i64;
        let nvars = 1 + r.below(3) as i64;
        let mut ops = Vec::new();
        let short_life = r.chance(1, 5);
        for _ in 0..nsubs {
            let kac = 1 + r.below(3) as i64;
            let life = if short_life { 3 * kac + r.below(3) as i64 } else { 3 * kac + 20 + r.below(40) as i64 };
            ops.push(Op::CreateSub { prio: r.below(3) as i64, interval: *r.pick(&[1000i64, 1000, 500, 2000]), kac, life, enabled: !r.chance(1, 8) });
        }
        let mut nitems = vec![0i64; nsubs as usize + 8];
        for s in 1..=nsubs {
            for _ in 0..(1 + r.below(2)) {
                nitems[s as usize] += 1;
                ops.push(Op::CreateItem { sub: s, var: r.below(nvars as u64) as i64, mode: if r.chance(1, 12) { r.below(2) as i64 } else { 2 },
                    samp: *r.pick(&[-1i64, -1, -1, 100, 500, 1000, 0, 50]), qsize: *r.pick(&[0i64, 1, 2, 3, 10, 12]), discard_oldest: r.chance(2, 3) });
            }
        }
        if r.chance(3, 4) { ops.push(tick(0)); }
        // the client's behaviour: eager (a request per cycle or more), lazy (bursts), absent
        let eager = r.below(3);
        let n = 12 + r.below(40);
        let mut x = 0;
        let mut next_sub = nsubs + 1;
        for _ in 0..n {
            match r.below(24) {
                0..=6 => { x += 1; ops.push(wr(r.below(nvars as u64) as i64, if r.chance(1, 10) { x - 1 } else { x })); }
                7..=13 => ops.push(tick(*r.pick(&[1000i64, 1000, 1000, 500, 100, 100, 2000, 0]))),
                14..=19 => {
                    let k = match eager { 0 => if r.chance(1, 4) { 1 + r.below(4) } else { 0 }, 1 => 1, _ => 1 + r.below(2) };
                    for _ in 0..k { ops.push(Op::Publish { dt: *r.pick(&[0i64, 0, 0, 100, 900]), hint: if r.chance(1, 10) { 1500 } else { 0 }, acks: vec![] }); }
                }
                20 => { let s = 1 + r.below(next_sub as u64 - 1) as i64; nitems[s as usize] += 1;
                        ops.push(Op::CreateItem { sub: s, var: r.below(nvars as u64 + 1) as i64, mode: 2, samp: *r.pick(&[-1i64, 100, 500]), qsize: 1 + r.below(4) as i64, discard_oldest: r.chance(1, 2) }); }
                21 => { let s = 1 + r.below(next_sub as u64 - 1) as i64; ops.push(Op::DeleteItem { sub: s, item: 1 + r.below(nitems[s as usize].max(1) as u64 + 1) as i64 }); }
                22 => if r.chance(1, 2) { ops.push(Op::DeleteSub { sub: 1 + r.below(next_sub as u64) as i64 }); }
                      else if next_sub < 6 { next_sub += 1; ops.push(sub(1000, 2, 30, true)); },
                _ => { x += 1; ops.push(wr(0, x)); ops.push(tick(1000)); }
            }
        }
        // drain: enough requests to deliver what is pending
        if r.chance(2, 3) { for _ in 0..(2 + r.below(4)) { ops.push(publ()); } ops.push(tick(1000)); }
        Case { nvars, ops }
    }
    fn exec(c: &Case) -> Out {
        let out = exec_case(c);
        let nreq = c.ops.iter().filter(|o| matches!(o, Op::Publish { .. })).count();
        let nwr = c.ops.iter().filter(|o| matches!(o, Op::Write { .. })).count();
        let ntick = c.ops.iter().filter(|o| matches!(o, Op::Tick { .. })).count();
        let cl = |n: usize| if n == 0 { "0" } else if n < 5 { "1-4" } else if n < 15 { "5-14" } else { "15+" };
        let tag = format!("wr{}-tick{}-req{}{}", cl(nwr), cl(ntick), cl(nreq), if out.last() == Some(&-2) { "-panic" } else { "" });
        let tag = if nwr == 0 || ntick == 0 { format!("trivial-{}", tag) } else { tag };
        Out { tag, term: case_term(c), out }
    }
}
fn main() { run_main::<P>() }
