From Coq Require Import String List ZArith.
From OV Require Import Gen.C05Tables C05.Model C05.Proofs.
Open Scope Z_scope.

Theorem C05_known_1_refuted : exists c, known c = 1 /\ oracle c (run c) = false.
Proof. exact known_1_refuted. Qed.
Print Assumptions C05_known_1_refuted.
