(* C26 — Client timestamps and wall-clock jumps cannot crash subscription processing.
   Statements only.

   Vocabulary (C26/Model.v): times are ns since 1601-01-01, a request header timestamp is a number
   of 100 ns ticks ([ts_ns] converts); a history is a list of [Enq ts hint now] (a publish request
   with that header arrives at server time now), [Expire now] (expire_stale_publish_requests) and
   [Tick now] (timer tick) on a `Subscriptions` with one subscription and one monitored item;
   operation number i is the request id of an Enq; [trace] is the model of the repaired code: per
   operation the publish responses as (request id, kind) pairs and a snapshot, plus a panic flag;
   kind 8 is the BadTimeout fault of a publish request.  Every time in a statement ranges over all
   of Z: any order, any distance, before or after any timestamp. *)
From Coq Require Import List ZArith Bool.
From OV Require Import C26.Model C26.Proofs.
Import ListNotations.
Open Scope Z_scope.

Theorem C26_oracle : forall c, valid c -> known c = 0 -> oracle c (run c) = true.
Proof. exact oracle_holds. Qed.
Print Assumptions C26_oracle.

(* For all request timestamps and timeout hints and all sequences of server times: no operation
   panics, every operation is observed, and a BadTimeout response (kind 8) comes only from an
   Expire n and only for a request that has timed out at n (resp_ok, Model.v). *)
Theorem C26_no_panic_timeout_only_after : forall prt k l ivl8 samp8 t0 ops,
  1 <= k -> 3 * k <= l -> 1 <= ivl8 -> I64MIN <= prt ->
  let t := trace prt ivl8 samp8 0 (init_world k l t0) ops in
  snd t = false /\ length (fst t) = length ops /\
  Forall2 (fun o b => pairs (resp_ok prt ops o) (o_pre b)) ops (fst t).
Proof. exact history_ok. Qed.
Print Assumptions C26_no_panic_timeout_only_after.

(* "timed out at n" is: strictly more than its timeout (its hint if set and below the server's
   publish request timeout, else the server's) has passed since its header timestamp *)
Theorem C26_timed_out_meaning : forall prt ops n id,
  timed_out prt ops n id = true <->
  exists ts hint, request_of ops id = Some (ts, hint) /\ timeout_ms prt hint * 1000000 < n - ts_ns ts.
Proof. exact timed_out_iff. Qed.
Print Assumptions C26_timed_out_meaning.

(* the expiry test itself, for every timestamp and every now *)
Theorem C26_expired_iff : forall prt now r, I64MIN <= prt ->
  expired prt now r = true <-> timeout_ms prt (r_hint r) * 1000000 < now - ts_ns (r_ts r).
Proof. exact expired_iff. Qed.
Print Assumptions C26_expired_iff.

(* a request stamped in the future is kept; a tick or a sample earlier than the previous one
   counts as no time passed *)
Theorem C26_future_and_backwards :
  (forall prt now r, I64MIN <= prt -> now <= ts_ns (r_ts r) -> expired prt now r = false) /\
  (forall ivl now lst, 1 <= ivl -> now <= lst -> S.interval_test ivl now lst = (false, lst)) /\
  (forall samp8 now lst el, 1 <= samp8 -> now <= lst -> sampled samp8 now lst el = false).
Proof.
  split; [exact future_request_not_expired | split; [exact backwards_interval | exact backwards_sample]].
Qed.
Print Assumptions C26_future_and_backwards.

(* the pinned code (`.to_std().unwrap()`) panicked exactly when the difference is negative and
   computed the same elapsed time otherwise *)
Theorem C26_legacy_panics_iff : forall now t,
  (Legacy.elapsed now t = Legacy.Panic <-> now < t) /\
  (t <= now -> Legacy.elapsed now t = Legacy.Ok (elapsed now t)).
Proof. intros; split; [apply legacy_elapsed_panics_iff | apply legacy_elapsed_agrees]. Qed.
Print Assumptions C26_legacy_panics_iff.

Theorem C26_legacy_refuted :
  (exists prt now r, I64MIN <= r_ts r <= I64MAX /\ Legacy.expired prt now r = Legacy.Panic) /\
  (exists ivl now lst, 0 <= now /\ Legacy.interval_test ivl now lst = Legacy.Panic) /\
  (exists samp8 now lst el, 0 <= now /\ Legacy.sampled samp8 now lst el = Legacy.Panic).
Proof. exact legacy_refuted. Qed.
Print Assumptions C26_legacy_refuted.
