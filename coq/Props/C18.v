(* C18 — Certificate trust verdicts follow the configured trust store.  Statements only. *)
From Coq Require Import List ZArith Bool.
Import ListNotations.
From OV Require Import C18.Model C18.Proofs.
Open Scope Z_scope.

(* accepted <-> not rejected, byte-identical trusted copy (or unknown ones are trusted), key length
   valid for the policy, and unless verification is skipped: in its validity period (when the time
   check is enabled) and matching the expected host name and application URI, when given *)
Theorem C18_accept_iff : forall c, status (validate_or_reject c) = Good <-> spec_accept c = true.
Proof. exact accepted_iff. Qed.
Print Assumptions C18_accept_iff.

Theorem C18_unknown_untrusted_rejected : forall c,
  rej_dir c = true -> tru_dir c = true -> in_rej c = false -> tru c = TAbsent -> trust_unknown c = false ->
  put_rejected (validate_or_reject c) = true /\ status (validate_or_reject c) = BadCertificateUntrusted.
Proof. exact unknown_untrusted_is_rejected. Qed.
Print Assumptions C18_unknown_untrusted_rejected.

Theorem C18_accepted_never_rejected : forall c,
  status (validate_or_reject c) = Good -> put_rejected (validate_or_reject c) = false /\ in_rej c = false.
Proof. exact accepted_never_rejected. Qed.
Print Assumptions C18_accepted_never_rejected.

(* the validity period itself (X509::is_time_valid, asked directly with chosen instants in the
   correspondence run): valid exactly from notBefore to notAfter, ends included, at millisecond
   resolution -- a certificate that expired a second ago is expired *)
Theorem C18_time_valid_iff : forall nb na now, time_status nb na now = Good <-> nb <= now <= na.
Proof. exact time_valid_iff. Qed.
Print Assumptions C18_time_valid_iff.

(* the same for every history of validations on one store instance: each verdict is the one the
   store state at that moment prescribes *)
Theorem C18_oracle : forall c : case, known c = 0 -> oracle c (run c) = true.
Proof. intros c _. apply oracle_holds. Qed.
Print Assumptions C18_oracle.
