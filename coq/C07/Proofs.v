(* C07: the stand-in primitives satisfy the laws; the correspondence oracle holds of the model's
   run for every valid case. *)
From Coq Require Import List ZArith NArith Bool Lia.
Import ListNotations.
From OV Require Import C07.Chan C07.Lemmas C07.ChanProofs C07.RoundTrip C07.Encode C07.Model.
From OV Require C13.Sha C13.Model C13.Proofs.
Open Scope Z_scope.

Ltac Zify.zify_post_hook ::= Z.div_mod_to_equations.

(* ================= laws of the stand-ins ================= *)
Lemma len_toy_tag n l : 4 <= n -> len (toy_tag n l) = n.
Proof.
  intro H. unfold toy_tag. destruct (checksum l) as [a b].
  rewrite take_all; rewrite len_app, len_rep by lia; change (len [a mod 256; a / 256; b mod 256; b / 256]) with 4; lia.
Qed.

Lemma len_map_of_N (l : list N) : len (map Z.of_N l) = Z.of_nat (length l).
Proof. unfold len. rewrite map_length. reflexivity. Qed.

Lemma len_hmac_real p k d : p <> PNone -> len (hmac_real p k d) = src_sym_sig p.
Proof.
  intro Hp. unfold hmac_real. rewrite len_map_of_N.
  destruct p; try congruence; cbn [src_sym_hash Z.eqb Pos.eqb src_sym_sig].
  - change C13.Sha.hmac_sha1 with (C13.Model.mac_of C13.Policy.HSha1). rewrite C13.Proofs.mac_of_len. reflexivity.
  - change C13.Sha.hmac_sha1 with (C13.Model.mac_of C13.Policy.HSha1). rewrite C13.Proofs.mac_of_len. reflexivity.
  - change C13.Sha.hmac_sha256 with (C13.Model.mac_of C13.Policy.HSha256). rewrite C13.Proofs.mac_of_len. reflexivity.
  - change C13.Sha.hmac_sha256 with (C13.Model.mac_of C13.Policy.HSha256). rewrite C13.Proofs.mac_of_len. reflexivity.
  - change C13.Sha.hmac_sha256 with (C13.Model.mac_of C13.Policy.HSha256). rewrite C13.Proofs.mac_of_len. reflexivity.
Qed.

Lemma len_toy_mac p k d : p <> PNone -> len (toy_mac p k d) = src_sym_sig p.
Proof. intro Hp. unfold toy_mac. apply len_toy_tag. destruct p; try congruence; cbn; lia. Qed.

Lemma key_size_id ks j : 0 <= j < 16 -> key_size (16 * ks + j) = ks.
Proof. intro H. unfold key_size. lia. Qed.

Lemma toy_rsa_laws k p blk : 14 <= key_size k <= 512 -> len blk <= key_size k - 11 ->
  len (toy_rsa_enc k p blk) = key_size k /\ toy_rsa_dec k p (toy_rsa_enc k p blk) = Some blk.
Proof.
  intros Hk Hb. pose proof (len_nonneg blk) as H0. unfold toy_rsa_enc. split.
  - cbn [app]. rewrite !len_cons, len_app, len_rep by lia. lia.
  - cbn [app toy_rsa_dec].
    assert (E : len blk mod 256 + 256 * (len blk / 256) = len blk) by lia. rewrite E.
    rewrite !len_cons, !len_app, len_rep by lia.
    replace (1 + (1 + (1 + (len blk + (key_size k - 3 - len blk))))) with (key_size k) by lia.
    rewrite !Z.eqb_refl. cbn [andb].
    destruct (Z.leb_spec (len blk) (key_size k - 3)); [|lia].
    destruct (Z.leb_spec (len blk) (len blk + (key_size k - 3 - len blk))); [|lia].
    cbn [andb]. rewrite take_app_exact by reflexivity. reflexivity.
Qed.

Lemma toy_asign_laws k p d : 4 <= key_size k ->
  len (toy_asign k p d) = key_size k /\ toy_averify k p d (toy_asign k p d) = true.
Proof. intro H. split; [apply len_toy_tag; exact H|apply bytes_eqb_refl]. Qed.

Lemma toy_cert_key_cert k n : 0 <= k < U32 -> 0 < key_size k -> toy_cert_key (toy_cert k n) = Some (k, key_size k).
Proof.
  intros Hk Hs. unfold toy_cert, le32. cbn [app toy_cert_key]. rewrite rd32_le32 by exact Hk.
  destruct (Z.ltb_spec 0 (key_size k)); [reflexivity|lia].
Qed.
Lemma len_toy_cert k n : 4 <= n -> len (toy_cert k n) = n.
Proof. intro H. unfold toy_cert. rewrite len_app, len_le32, len_rep by lia. lia. Qed.

Lemma ascii_uri p : ascii (src_uri p) = true.
Proof. destruct p; vm_compute; reflexivity. Qed.

(* ================= a valid case links its sender and receiver ================= *)
Ltac split_andb H :=
  repeat match type of H with
         | (_ && _) = true => let H1 := fresh "V" in apply andb_true_iff in H as [H H1]
         end.

Record case_facts (c : case) : Prop := {
  cf_combo : (c_policy c = PNone /\ c_mode c = MNone) \/ (c_policy c <> PNone /\ (c_mode c = MSign \/ c_mode c = MSignEnc));
  cf_max : c_max c = 0 \/ src_min_chunk <= c_max c;
  cf_chan : 0 <= c_chan c < U32; cf_token : 0 <= c_token c < U32; cf_req : 0 <= c_req c < U32;
  cf_seq : 0 <= c_seq c /\ c_seq c + len (data_of c) < U32;
  cf_keys : key_ok (c_policy c) (c_sks c) = true /\ key_ok (c_policy c) (c_rks c) = true;
  cf_cert : c_policy c <> PNone -> c_sks c < c_certlen c <= 4000 /\ 4 <= c_certlen c;
  cf_data : data_of c <> [] /\ len (data_of c) < 16777216
}.

Lemma valid_facts c : valid c -> case_facts c.
Proof.
  unfold valid, validb. intro H. split_andb H.
  repeat match goal with
         | X : (_ <=? _) = true |- _ => apply Z.leb_le in X
         | X : (_ <? _) = true |- _ => apply Z.ltb_lt in X
         | X : u32_ok _ = true |- _ => unfold u32_ok in X; apply andb_true_iff in X as [? ?]
         | X : (_ || _) = true |- _ => apply orb_true_iff in X
         end.
  repeat match goal with
         | X : (_ <=? _) = true |- _ => apply Z.leb_le in X
         | X : (_ <? _) = true |- _ => apply Z.ltb_lt in X
         | X : (_ =? _) = true |- _ => apply Z.eqb_eq in X
         | X : _ \/ _ |- _ => destruct X as [X|X]
         end.
  all: repeat match goal with
         | X : (_ && _) = true |- _ => apply andb_true_iff in X as [? ?]
         end.
  all: repeat match goal with
         | X : (_ <=? _) = true |- _ => apply Z.leb_le in X
         | X : (_ <? _) = true |- _ => apply Z.ltb_lt in X
         end.
  all: constructor; try tauto; try lia.
  all: try (intro Hp; try lia; destruct (c_policy c); cbn in *; congruence).
  all: try (destruct (c_policy c), (c_mode c); try discriminate; (left; split; reflexivity) || (right; split; [discriminate|tauto])).
  all: try (split; [|lia]; intro E; unfold data_of in E; apply (f_equal len) in E; rewrite !len_app, len_nil in E;
            pose proof (len_nonneg (fill_bytes (c_fill c))); pose proof (len_nonneg (c_suffix c)); lia).
Qed.

Lemma case_link c : valid c -> link (toy_prims (c_exact c)) (sender_of c) (receiver_of c).
Proof.
  intro Hv. destruct (valid_facts c Hv) as [Hcombo Hmax Hchan Htok Hreq Hseq Hkeys Hcert Hdata].
  assert (Hn : c_policy c <> PNone -> is_none (c_policy c) = false) by (intro Hp; destruct (c_policy c); try reflexivity; congruence).
  assert (Hgeo : c_policy c <> PNone -> 128 <= c_sks c <= 512 /\ 128 <= c_rks c <= 512 /\
                 rsa_plain_block (c_policy c) (c_rks c) <= c_rks c - 11).
  { intro Hp. destruct Hkeys as [K1 K2]. pose proof (rsa_geometry _ _ Hp K1) as (A & _). pose proof (rsa_geometry _ _ Hp K2) as (B & _).
    repeat split; try lia. unfold rsa_plain_block. destruct (c_policy c); try congruence; cbn; lia. }
  constructor; cbn [sender_of receiver_of s_policy s_mode s_chan s_token s_cert s_key s_ks s_rthumb s_rkey s_rks s_sigkey s_enckey
                    r_policy r_mode r_chan r_thumb r_cert_ks r_pkey r_verkey r_limits big_limits lim_string lim_bstring toy_prims
                    p_mac p_aes_enc p_aes_dec p_rsa_enc p_rsa_dec p_asign p_averify p_cert_key p_utf8];
    try reflexivity; try assumption; try (left; reflexivity); try (change src_max_cert with 32767; lia); try lia.
  - intro p. apply ascii_uri.
  - intros Hp k d. destruct (c_exact c); [apply len_hmac_real|apply len_toy_mac]; exact Hp.
  - intro Hp. rewrite (Hn Hp). reflexivity.
  - intro Hp. destruct (Hgeo Hp) as (A & B & C). unfold skey.
    pose proof (toy_cert_key_cert (16 * c_sks c + 1) (c_certlen c)) as T. rewrite key_size_id in T by lia.
    apply T; [unfold U32; lia|lia].
  - intro Hp. rewrite (Hn Hp). exists rthumb. repeat split.
  - intro Hp. rewrite (Hn Hp). split; reflexivity.
  - intro Hp. specialize (Hcert Hp). rewrite len_toy_cert by lia. lia.
  - intros Hp blk Hb. destruct (Hgeo Hp) as (A & B & C). unfold rkey.
    pose proof (toy_rsa_laws (16 * c_rks c + 2) (c_policy c) blk) as T. rewrite key_size_id in T by lia.
    apply T; lia.
  - intros Hp d. destruct (Hgeo Hp) as (A & B & C). unfold skey.
    pose proof (toy_asign_laws (16 * c_sks c + 1) (c_policy c) d) as T. rewrite key_size_id in T by lia.
    apply T; lia.
Qed.

(* ================= the oracle holds of the model's run ================= *)
Lemma spec_header_eq c : valid c ->
  spec_header_size c = 12 + len (sec_header (sender_of c) (c_mty c)) + 8.
Proof.
  intro Hv. destruct (valid_facts c Hv) as [_ _ _ _ _ _ _ Hcert _].
  unfold spec_header_size, sec_header. cbn [sender_of s_policy s_token s_cert s_rthumb].
  destruct (c_mty c); try (rewrite len_le32; lia).
  destruct (is_none (c_policy c)) eqn:En.
  - rewrite !len_app, len_bstr. change (len bnull) with 4. lia.
  - assert (Hp : c_policy c <> PNone) by (intro E; rewrite E in En; discriminate). specialize (Hcert Hp).
    cbn [bopt]. rewrite !len_app, !len_bstr, len_toy_cert by lia. change (len rthumb) with 20. lia.
Qed.

Lemma ck_two (e : bool) (sec : bytes) :
  exists a b, (if e then let '(a0, b0) := checksum sec in [a0; b0] else [-1; -1]) = [a; b].
Proof. destruct e; [destruct (checksum sec)|]; eauto. Qed.

Section Run.
  Variable c : case.
  Hypothesis Hv : valid c.
  Let P := toy_prims (c_exact c).
  Let S := sender_of c.
  Let R := receiver_of c.
  Let t := c_mty c.
  Let fx := current.
  Let L : link P S R := case_link c Hv.

  Lemma run_chunk_ok fin seq body :
    (fin = 0 \/ fin = 1 \/ fin = 2) -> 0 <= seq < U32 -> small body ->
    (c_max c = 0 \/ secured_size S t (len body) <= c_max c) ->
    let plain := new_chunk S t fin seq (c_req c) body in
    exists a b slen,
      run_chunk P fx c plain = ([len plain; fin; seq; c_req c; 0; slen; a; b; 0; len plain; 1], Some plain) /\
      (c_max c = 0 \/ slen <= c_max c).
  Proof.
    intros Hfin Hseq Hb Hsz plain.
    destruct (valid_facts c Hv) as [_ _ _ _ Hreq _ _ _ _].
    pose proof (chunk_info_plain P S R L t fin seq (c_req c) body Hfin Hseq Hreq Hb) as Hci.
    destruct (recv_send P fx eq_refl S R L t fin seq (c_req c) body Hfin Hb) as (sec & Ha & Hr & Hl).
    fold plain in Hci, Ha, Hr.
    unfold run_chunk. fold S R P t. change big_limits with (r_limits R). rewrite Hci, Ha, Hr.
    cbn [fst i_hdr h_final i_seq i_req app]. rewrite bytes_eqb_refl.
    destruct (ck_two (c_exact c) sec) as (a & b & Eck). rewrite Eck.
    do 3 eexists. split; [reflexivity|]. rewrite Hl. exact Hsz.
  Qed.

  Lemma check_mk n : forall parts i bodies tail,
    parts <> [] -> 0 <= i -> i + Z.of_nat (length parts) = n -> Forall small parts ->
    c_seq c + n <= U32 -> 0 <= c_seq c ->
    (c_max c = 0 \/ Forall (fun p => secured_size S t (len p) <= c_max c) parts) ->
    let cs := mk_chunks S t (c_seq c + i) (c_req c) parts in
    snd (run_chunks P fx c cs) = Some cs /\
    check_chunks c n i (fst (run_chunks P fx c cs) ++ tail) bodies = Some (bodies + len (concat parts), tail).
  Proof.
    induction parts as [|b rest IH]; intros i bodies tail Hne Hi Hn Hs Hseq H0 Hsz cs; [congruence|].
    cbn [length] in Hn.
    assert (Hb : small b) by (inversion Hs; assumption).
    assert (Hrest : Forall small rest) by (inversion Hs; assumption).
    assert (Hszb : c_max c = 0 \/ secured_size S t (len b) <= c_max c).
    { destruct Hsz as [E|F]; [left; exact E|right; inversion F; assumption]. }
    assert (Hszr : c_max c = 0 \/ Forall (fun p => secured_size S t (len p) <= c_max c) rest).
    { destruct Hsz as [E|F]; [left; exact E|right; inversion F; assumption]. }
    unfold cs. cbn [mk_chunks run_chunks].
    set (fin := match rest with [] => 1 | _ => 0 end).
    destruct (run_chunk_ok fin (c_seq c + i) b (fin_ok rest) ltac:(lia) Hb Hszb) as (a & b0 & slen & Hrc & Hsl).
    rewrite Hrc.
    set (plain := new_chunk S t fin (c_seq c + i) (c_req c) b).
    assert (Hpl : len plain = spec_header_size c + len b).
    { unfold plain. rewrite len_plain, (spec_header_eq c Hv). fold S t. lia. }
    destruct rest as [|b1 rest'].
    - (* last chunk *)
      cbn [mk_chunks run_chunks fst snd app]. split; [reflexivity|].
      cbn [check_chunks]. cbn [length] in Hn.
      replace (i =? i + 1 - 1) with true by (symmetry; apply Z.eqb_eq; lia).
      assert (Hin : (i =? n - 1) = true) by (apply Z.eqb_eq; lia). rewrite Hin.
      rewrite !Z.eqb_refl. unfold fin. cbn [Z.eqb].
      assert (Hm : ((c_max c =? 0) || (slen <=? c_max c)) = true).
      { apply orb_true_iff. destruct Hsl as [E|E]; [left; apply Z.eqb_eq; exact E|right; apply Z.leb_le; exact E]. }
      rewrite Hm. destruct (Z.leb_spec (spec_header_size c) (len plain)); [|pose proof (len_nonneg b); lia].
      cbn [andb concat]. rewrite app_nil_r. f_equal. f_equal. lia.
    - specialize (IH (i + 1) (bodies + len b) tail ltac:(discriminate) ltac:(lia) ltac:(lia) Hrest Hseq H0 Hszr).
      cbn zeta in IH. replace (c_seq c + (i + 1)) with (c_seq c + i + 1) in IH by lia.
      destruct IH as [IH1 IH2].
      destruct (run_chunks P fx c (mk_chunks S t (c_seq c + i + 1) (c_req c) (b1 :: rest'))) as [os rcs] eqn:Erun.
      cbn [fst snd] in IH1, IH2 |- *. rewrite IH1. split; [reflexivity|].
      cbn [app check_chunks]. cbn [length] in Hn.
      assert (Hin : (i =? n - 1) = false) by (apply Z.eqb_neq; lia). rewrite Hin.
      rewrite !Z.eqb_refl. unfold fin. cbn [Z.eqb].
      assert (Hm : ((c_max c =? 0) || (slen <=? c_max c)) = true).
      { apply orb_true_iff. destruct Hsl as [E|E]; [left; apply Z.eqb_eq; exact E|right; apply Z.leb_le; exact E]. }
      rewrite Hm. destruct (Z.leb_spec (spec_header_size c) (len plain)); [|pose proof (len_nonneg b); lia].
      cbn [andb]. replace (bodies + len plain - spec_header_size c) with (bodies + len b) by lia.
      rewrite IH2. cbn [concat]. rewrite !len_app. f_equal. f_equal. lia.
  Qed.

  Theorem oracle_run : oracle c (run_with fx c) = true.
  Proof.
    destruct (valid_facts c Hv) as [_ Hmax _ _ Hreq [Hs0 Hs1] _ _ [Hd0 Hd1]].
    destruct (encode_ok P fx eq_refl eq_refl eq_refl S R L t (c_req c) Hreq (c_seq c) (c_max c) (data_of c)
                Hd0 ltac:(lia) Hs0 Hs1 Hmax) as (parts & Henc & Hne & Hcat & Hsm & Hn & Hsz & Hval & Hdec).
    assert (Hch : chunks_of_case true fx c = encode fx S t (c_seq c) (c_req c) (c_max c) (data_of c)).
    { unfold chunks_of_case, writer_chunks. fold S t. destruct (c_writer c); [replace (c_seq c - 1 + 1) with (c_seq c) by lia|]; reflexivity. }
    unfold run_with, run_gen. rewrite Hch. fold P S R t. rewrite Henc.
    set (n := Z.of_nat (length parts)) in *.
    assert (Hsz' : c_max c = 0 \/ Forall (fun p => secured_size S t (len p) <= c_max c) parts).
    { destruct Hmax as [E|E]; [left; exact E|right; apply Hsz; change src_min_chunk with 8196 in E; lia]. }
    pose proof (check_mk n parts 0 0 [0; c_seq c + n - 1; 0; 1] Hne ltac:(lia) ltac:(lia) Hsm ltac:(lia) Hs0 Hsz') as Hck.
    cbn zeta in Hck. rewrite Z.add_0_r in Hck. destruct Hck as [Hck1 Hck2].
    destruct (run_chunks P fx c (mk_chunks S t (c_seq c) (c_req c) parts)) as [o rcs] eqn:Erun.
    cbn [fst snd] in Hck1, Hck2. rewrite Hck1, Hval, Hdec, bytes_eqb_refl.
    rewrite mk_chunks_length. fold n.
    unfold oracle. cbn [app].
    assert (Hn1 : 1 <= n) by (unfold n; destruct parts; [congruence|cbn [length]; lia]).
    destruct (Z.leb_spec 1 n); [|lia]. cbn [andb].
    rewrite Hck2. rewrite Hcat, !Z.eqb_refl. reflexivity.
  Qed.
End Run.

Theorem oracle_holds c : valid c -> known c = 0 -> oracle c (run c) = true.
Proof. intros Hv _. apply oracle_run. exact Hv. Qed.

(* ================= the code before the fixes violates the property ================= *)
Definition w_padding : case :=
  mk_case Basic256Sha256 MSign MSG 8196 5 9 1 1000 256 256 903 [1; 0; 214; 1] (mk_fill 100 3 7 256 0) [] [] false false.
Definition w_budget : case :=
  mk_case Basic128Rsa15 MSignEnc MSG 8196 5 9 1 1000 256 256 903 [1; 0; 214; 1] (mk_fill 9000 3 7 256 0) [] [] false false.
Definition w_opn_budget : case :=
  mk_case Basic128Rsa15 MSignEnc OPN 8196 5 9 1 1000 256 256 903 [1; 0; 190; 1] (mk_fill 9000 3 7 256 0) [] [] false false.

(* a 9000 byte response through the server's writer on a connection whose negotiated send buffer is 8196 bytes *)
Definition w_writer : case :=
  mk_case PNone MNone MSG 8196 5 9 1 1000 0 0 0 [1; 0; 214; 1] (mk_fill 9000 3 7 256 0) [] [] false true.
Lemma legacy_writer_refuted : valid w_writer /\ oracle w_writer (Legacy.run_writer w_writer) = false /\ oracle w_writer (run w_writer) = true.
Proof. repeat split; vm_compute; reflexivity. Qed.

Lemma legacy_padding_refuted : valid w_padding /\ oracle w_padding (Legacy.run_padding w_padding) = false.
Proof. split; vm_compute; reflexivity. Qed.
Lemma legacy_budget_refuted : valid w_budget /\ oracle w_budget (Legacy.run_budget w_budget) = false.
Proof. split; vm_compute; reflexivity. Qed.
Lemma legacy_opn_budget_refuted : valid w_opn_budget /\ oracle w_opn_budget (Legacy.run_opn_budget w_opn_budget) = false.
Proof. split; vm_compute; reflexivity. Qed.
(* and the same cases pass on the repaired code *)
Lemma witnesses_now_ok :
  oracle w_padding (run w_padding) = true /\ oracle w_budget (run w_budget) = true /\ oracle w_opn_budget (run w_opn_budget) = true.
Proof. repeat split; vm_compute; reflexivity. Qed.
