From Coq Require Import List ZArith Bool Lia Sorting.Sorted.
From OV Require Import Gen.C34RefTypes C31.Model.
Import ListNotations.
Open Scope Z_scope.

Lemma mem_In : forall x l, mem x l = true <-> In x l.
Proof.
  intros x l. unfold mem. rewrite existsb_exists. split.
  - intros [y [Hin He]]. apply Z.eqb_eq in He. subst. exact Hin.
  - intros Hin. exists x. split; [exact Hin | apply Z.eqb_refl].
Qed.
Lemma bool_eq_iff : forall a b : bool, (a = true <-> b = true) -> a = b.
Proof. intros [|] [|] H; try reflexivity; [symmetry; apply H; reflexivity | apply H; reflexivity]. Qed.

(* ---- HasSubtype reachability within k steps ---- *)
Inductive reach_le (rs : list ref) : nat -> Z -> Z -> Prop :=
| rl_refl : forall k a, reach_le rs k a a
| rl_step : forall k a b c, In (a, HasSubtype, b) rs -> reach_le rs k b c -> reach_le rs (S k) a c.

Lemma reach_le_mono : forall rs k a b, reach_le rs k a b -> reach_le rs (S k) a b.
Proof. induction 1; [apply rl_refl | eapply rl_step; eassumption]. Qed.

(* the depth-bounded search of the implementation model *)
Lemma subtype_search_iff : forall rs k a b, subtype_search k rs a b = true <-> reach_le rs k a b.
Proof.
  intros rs k. induction k as [|k IH]; intros a b; cbn [subtype_search].
  - destruct (a =? b) eqn:E; [apply Z.eqb_eq in E; subst; split; [intros _; apply rl_refl | reflexivity]|].
    apply Z.eqb_neq in E. split; [discriminate|]. intros H. inversion H; subst. congruence.
  - destruct (a =? b) eqn:E; [apply Z.eqb_eq in E; subst; split; [intros _; apply rl_refl | reflexivity]|].
    apply Z.eqb_neq in E. rewrite existsb_exists. split.
    + intros [[[s t] d] [Hin H]]. destruct (s =? a) eqn:Es; [|discriminate]. destruct (t =? HasSubtype) eqn:Et; [|discriminate].
      apply Z.eqb_eq in Es, Et. subst. eapply rl_step; [exact Hin | apply IH; exact H].
    + intros H. inversion H; subst; [congruence|]. exists (a, HasSubtype, b0). split; [assumption|].
      rewrite !Z.eqb_refl. apply IH. assumption.
Qed.

(* the saturation of the specification *)
Lemma subtype_round_In : forall rs set x,
  In x (subtype_round rs set) <-> In x set \/ exists s, In s set /\ In (s, HasSubtype, x) rs.
Proof.
  intros rs set x. unfold subtype_round. rewrite in_app_iff, in_flat_map. split.
  - intros [H|[[[s t] d] [Hin H]]]; [left; exact H|].
    destruct (t =? HasSubtype) eqn:Et; [|contradiction]. destruct (mem s set) eqn:Ms; [|contradiction].
    destruct (mem d set) eqn:Md; [contradiction|]. destruct H as [H|[]]. subst d.
    apply Z.eqb_eq in Et. subst t. right. exists s. split; [apply mem_In; exact Ms | exact Hin].
  - intros [H|[s [Hs Hin]]]; [left; exact H|].
    destruct (mem x set) eqn:Mx; [left; apply mem_In; exact Mx|].
    right. exists (s, HasSubtype, x). split; [exact Hin|].
    rewrite Z.eqb_refl. rewrite (proj2 (mem_In s set) Hs), Mx. left. reflexivity.
Qed.

Lemma subtype_closure_iff : forall rs k set b,
  In b (subtype_closure k rs set) <-> exists a, In a set /\ reach_le rs k a b.
Proof.
  intros rs k. induction k as [|k IH]; intros set b; cbn [subtype_closure].
  - split; [intros H; exists b; split; [exact H | apply rl_refl]|].
    intros [a [Ha H]]. inversion H; subst. exact Ha.
  - rewrite IH. split.
    + intros [a [Ha H]]. apply subtype_round_In in Ha as [Ha|[s [Hs Hin]]].
      * exists a. split; [exact Ha | apply reach_le_mono; exact H].
      * exists s. split; [exact Hs | eapply rl_step; eassumption].
    + intros [a [Ha H]]. inversion H; subst.
      * exists b. split; [apply subtype_round_In; left; exact Ha | apply rl_refl].
      * exists b0. split; [apply subtype_round_In; right; exists a; split; assumption | assumption].
Qed.

(* the filter of the (repaired) implementation is the type test of the specification *)
Lemma passes_type_ok : forall rs e t, passes rs (filter_of false e) t = type_ok rs e t.
Proof.
  intros rs e t. unfold passes, filter_of, type_ok.
  destruct (e_reftype e =? 0); [reflexivity|]. unfold reference_type_matches.
  rewrite (Z.eqb_sym t). destruct (e_reftype e =? t); [reflexivity|].
  destruct (e_sub e); [|reflexivity]. apply bool_eq_iff.
  rewrite subtype_search_iff, mem_In, subtype_closure_iff. split.
  - intros H. exists (e_reftype e). split; [left; reflexivity | exact H].
  - intros [a [[Ha|[]] H]]. subst. exact H.
Qed.

(* ---- one step ---- *)
Lemma dedup_In : forall l x, In x (dedup l) <-> In x l.
Proof.
  induction l as [|a l IH]; intros x; cbn; [reflexivity|].
  rewrite filter_In, IH. split.
  - intros [H|[H _]]; auto.
  - intros [H|H]; [left; exact H|]. destruct (Z.eq_dec x a) as [->|Hne]; [left; reflexivity|].
    right. split; [exact H|]. apply negb_true_iff, Z.eqb_neq. exact Hne.
Qed.

Definition dir_ok (e : elem) (n m : Z) (r : ref) : Prop :=
  let '(s, t, d) := r in if e_inv e then d = n /\ s = m else s = n /\ d = m.

Lemma neighbours_In : forall rs flt inv n m,
  In m (neighbours rs flt inv n) <->
  exists s t d, In (s, t, d) rs /\ passes rs flt t = true /\ (if inv then d = n /\ s = m else s = n /\ d = m).
Proof.
  intros rs flt inv n m. unfold neighbours. rewrite in_flat_map. split.
  - intros [[[s t] d] [Hin H]]. exists s, t, d. split; [exact Hin|]. destruct inv.
    + destruct (d =? n) eqn:E; [|contradiction]. destruct (passes rs flt t); [|contradiction].
      destruct H as [H|[]]. apply Z.eqb_eq in E. auto.
    + destruct (s =? n) eqn:E; [|contradiction]. destruct (passes rs flt t); [|contradiction].
      destruct H as [H|[]]. apply Z.eqb_eq in E. auto.
  - intros [s [t [d [Hin [Hp Hd]]]]]. exists (s, t, d). split; [exact Hin|]. destruct inv; destruct Hd as [-> ->];
      rewrite Z.eqb_refl, Hp; left; reflexivity.
Qed.

Lemma follow_In : forall c e n m,
  In m (follow false c e n) <->
  name_matches (c_nodes c) e m = true /\
  exists s t d, In (s, t, d) (c_refs c) /\ type_ok (c_refs c) e t = true /\
                (if e_inv e then d = n /\ s = m else s = n /\ d = m).
Proof.
  intros c e n m. unfold follow. rewrite dedup_In, filter_In, neighbours_In. split.
  - intros [[s [t [d [H1 [H2 H3]]]]] Hn]. split; [exact Hn|]. exists s, t, d. rewrite <- passes_type_ok. auto.
  - intros [Hn [s [t [d [H1 [H2 H3]]]]]]. split; [|exact Hn]. exists s, t, d. rewrite passes_type_ok. auto.
Qed.

Lemma step_ok_iff : forall c e n m,
  step_ok c e n m = true <->
  name_matches (c_nodes c) e m = true /\
  exists s t d, In (s, t, d) (c_refs c) /\ type_ok (c_refs c) e t = true /\
                (if e_inv e then d = n /\ s = m else s = n /\ d = m).
Proof.
  intros c e n m. unfold step_ok. destruct (name_matches (c_nodes c) e m); [|split; [discriminate | intros [H _]; discriminate]].
  rewrite existsb_exists. split.
  - intros [[[s t] d] [Hin H]]. split; [reflexivity|]. exists s, t, d. split; [exact Hin|].
    destruct (e_inv e).
    + destruct ((d =? n) && (s =? m)) eqn:E; [|discriminate]. apply andb_true_iff in E as [E1 E2].
      apply Z.eqb_eq in E1, E2. auto.
    + destruct ((s =? n) && (d =? m)) eqn:E; [|discriminate]. apply andb_true_iff in E as [E1 E2].
      apply Z.eqb_eq in E1, E2. auto.
  - intros [_ [s [t [d [Hin [Ht Hd]]]]]]. exists (s, t, d). split; [exact Hin|].
    destruct (e_inv e); destruct Hd as [-> ->]; rewrite !Z.eqb_refl; exact Ht.
Qed.

Lemma universe_In : forall c s t d, In (s, t, d) (c_refs c) -> In s (universe c) /\ In d (universe c).
Proof.
  intros c s t d H. unfold universe. split; apply in_flat_map; exists (s, t, d); (split; [exact H|]); cbn; auto.
Qed.

(* the implementation's step and the specification's step reach the same nodes *)
Lemma step_agree : forall c e cur set m,
  (forall x, In x cur <-> In x set) ->
  (In m (flat_map (follow false c e) cur) <-> In m (spec_step c e set)).
Proof.
  intros c e cur set m Heq. rewrite in_flat_map. unfold spec_step. rewrite filter_In, existsb_exists. split.
  - intros [n [Hn H]]. apply follow_In in H as [Hnm [s [t [d [Hin [Ht Hd]]]]]]. split.
    + destruct (universe_In c s t d Hin) as [Us Ud]. destruct (e_inv e); destruct Hd as [? ?]; subst; assumption.
    + exists n. split; [apply Heq; exact Hn|]. apply step_ok_iff. split; [exact Hnm|]. exists s, t, d. auto.
  - intros [_ [n [Hn H]]]. exists n. split; [apply Heq; exact Hn|]. apply follow_In. apply step_ok_iff. exact H.
Qed.

(* ---- the whole path ---- *)
Lemma no_members_nil {A} (l : list A) : (forall x, ~ In x l) -> l = [].
Proof. destruct l as [|a l]; [reflexivity|]. intros H. exfalso. apply (H a). left. reflexivity. Qed.

Lemma spec_step_empty : forall c e set, (forall x, ~ In x set) -> spec_step c e set = [].
Proof.
  intros c e set H. apply no_members_nil. intros x Hx. unfold spec_step in Hx. apply filter_In in Hx as [_ Hx].
  apply existsb_exists in Hx as [n [Hn _]]. exact (H n Hn).
Qed.
Lemma spec_fold_empty : forall c es, fold_left (fun set e => spec_step c e set) es [] = [].
Proof.
  intros c es. induction es as [|e es IH]; cbn; [reflexivity|].
  rewrite (spec_step_empty c e []) by (intros x []). exact IH.
Qed.

Lemma walk_spec : forall c es cur set,
  (forall x, In x cur <-> In x set) ->
  forallb (fun e => negb (target_null e)) es = true ->
  exists l, walk false c es cur = inr l /\
            forall m, In m l <-> In m (fold_left (fun set e => spec_step c e set) es set).
Proof.
  intros c es. induction es as [|e es IH]; intros cur set Heq Hnn; cbn [walk fold_left].
  - exists cur. split; [reflexivity | exact Heq].
  - cbn [forallb] in Hnn. apply andb_true_iff in Hnn as [Hn Hnn]. apply negb_true_iff in Hn. rewrite Hn.
    assert (Hstep : forall m, In m (flat_map (follow false c e) cur) <-> In m (spec_step c e set))
      by (intro m; apply step_agree; exact Heq).
    destruct (flat_map (follow false c e) cur) as [|a next] eqn:En.
    + exists []. split; [reflexivity|]. intros m.
      rewrite (no_members_nil (spec_step c e set)) by (intros x Hx; apply Hstep in Hx; exact Hx).
      rewrite spec_fold_empty. reflexivity.
    + rewrite <- En in *. destruct (IH _ _ Hstep Hnn) as [l [Hw Hl]]. exists l. split; [|exact Hl].
      rewrite En in *. exact Hw.
Qed.

(* ---- the service result ---- *)
Theorem translate_exact : forall c e es,
  c_path c = Some (e :: es) -> well_formed c = true ->
  (forall m, In m (snd (translate false c)) <-> In m (spec_set c (e :: es))) /\
  ((fst (translate false c) = 0 /\ snd (translate false c) <> []) \/
   (fst (translate false c) = 4 /\ snd (translate false c) = [])).
Proof.
  intros c e es Hp Hwf. unfold well_formed in Hwf. rewrite Hp in Hwf. unfold translate. rewrite Hp.
  destruct (find_node (c_nodes c) (c_start c)); [|discriminate].
  destruct (walk_spec c (e :: es) [c_start c] [c_start c] (fun x => iff_refl _) Hwf) as [l [Hw Hl]].
  rewrite Hw. unfold spec_set. destruct l as [|a l]; cbn [fst snd].
  - split; [exact Hl | right; auto].
  - split; [exact Hl | left; split; [reflexivity | discriminate]].
Qed.

Lemma walk_null : forall c es cur,
  forallb (fun e => negb (target_null e)) es = false ->
  walk false c es cur = inl 3 \/ walk false c es cur = inr [].
Proof.
  intros c es. induction es as [|e es IH]; intros cur H; cbn [forallb walk] in *; [discriminate|].
  destruct (target_null e); [left; reflexivity|]. cbn [negb andb] in H.
  destruct (flat_map (follow false c e) cur); [right; reflexivity | apply IH; exact H].
Qed.

Theorem translate_malformed : forall c, well_formed c = false ->
  0 < fst (translate false c) /\ snd (translate false c) = [].
Proof.
  intros c Hwf. unfold well_formed in Hwf. unfold translate.
  destruct (c_path c) as [[|e es]|]; cbn [fst snd]; try (split; [lia | reflexivity]).
  - destruct (find_node (c_nodes c) (c_start c)); cbn; split; (lia || reflexivity).
  - destruct (find_node (c_nodes c) (c_start c)); [|cbn; split; [lia | reflexivity]].
    destruct (walk_null c (e :: es) [c_start c] Hwf) as [-> | ->]; cbn; split; (lia || reflexivity).
Qed.

(* ---- canonical form of the result set ---- *)
Fixpoint ssorted (l : list Z) : Prop :=
  match l with [] => True | a :: l' => (forall x, In x l' -> a < x) /\ ssorted l' end.

Lemma insert_sorted_In : forall x l y, In y (insert_sorted x l) <-> y = x \/ In y l.
Proof.
  intros x l. induction l as [|a l IH]; intros y; cbn; [intuition|].
  destruct (x <? a); [cbn; intuition|]. destruct (x =? a) eqn:E.
  - apply Z.eqb_eq in E. subst. cbn. intuition.
  - cbn. rewrite IH. intuition.
Qed.
Lemma insert_sorted_ssorted : forall x l, ssorted l -> ssorted (insert_sorted x l).
Proof.
  intros x l. induction l as [|a l IH]; intros H; cbn; [split; [intros y [] | exact I]|].
  destruct H as [Ha Hl]. destruct (x <? a) eqn:L.
  - apply Z.ltb_lt in L. cbn. split; [|split; assumption]. intros y [<-|Hy]; [exact L | specialize (Ha y Hy); lia].
  - destruct (x =? a) eqn:E; [cbn; auto|]. apply Z.ltb_ge in L. apply Z.eqb_neq in E. cbn. split; [|apply IH; exact Hl].
    intros y Hy. apply insert_sorted_In in Hy as [->|Hy]; [lia | apply Ha; exact Hy].
Qed.
Lemma sort_set_In : forall l y, In y (sort_set l) <-> In y l.
Proof. induction l as [|a l IH]; intros y; cbn; [reflexivity|]. rewrite insert_sorted_In, IH. intuition. Qed.
Lemma sort_set_ssorted : forall l, ssorted (sort_set l).
Proof. induction l as [|a l IH]; cbn; [exact I | apply insert_sorted_ssorted; exact IH]. Qed.

Lemma ssorted_ext : forall l1 l2, ssorted l1 -> ssorted l2 -> (forall x, In x l1 <-> In x l2) -> l1 = l2.
Proof.
  induction l1 as [|a l1 IH]; intros l2 H1 H2 Heq.
  - destruct l2 as [|b l2]; [reflexivity|]. exfalso. apply (Heq b). left. reflexivity.
  - destruct l2 as [|b l2]; [exfalso; apply (Heq a); left; reflexivity|].
    destruct H1 as [Ha H1]. destruct H2 as [Hb H2].
    assert (a = b).
    { assert (Ia : In a (b :: l2)) by (apply Heq; left; reflexivity).
      assert (Ib : In b (a :: l1)) by (apply Heq; left; reflexivity).
      destruct Ia as [->|Ia]; [reflexivity|]. destruct Ib as [->|Ib]; [reflexivity|].
      specialize (Ha b Ib). specialize (Hb a Ia). lia. }
    subst b. f_equal. apply IH; [exact H1 | exact H2|].
    intros x. split; intros Hx.
    + assert (In x (a :: l2)) as [<-|H] by (apply Heq; right; exact Hx); [specialize (Ha a Hx); lia | exact H].
    + assert (In x (a :: l1)) as [<-|H] by (apply Heq; right; exact Hx); [specialize (Hb a Hx); lia | exact H].
Qed.
Lemma sort_set_ext : forall l1 l2, (forall x, In x l1 <-> In x l2) -> sort_set l1 = sort_set l2.
Proof.
  intros l1 l2 H. apply ssorted_ext; try apply sort_set_ssorted. intros x. rewrite !sort_set_In. apply H.
Qed.
Lemma sort_set_nil : forall l, sort_set l = [] -> l = [].
Proof. intros [|a l] H; [reflexivity|]. exfalso. assert (In a (sort_set (a :: l))) by (apply sort_set_In; left; reflexivity). rewrite H in H0. contradiction. Qed.

Lemma list_eqb_refl : forall l, list_eqb l l = true.
Proof. induction l as [|a l IH]; cbn; [reflexivity|]. rewrite Z.eqb_refl. exact IH. Qed.
Lemma firstn_app_exact {A} : forall (s t : list A), firstn (length s) (s ++ t) = s.
Proof. induction s as [|a s IH]; intros t; cbn; [reflexivity | f_equal; apply IH]. Qed.

Theorem oracle_holds : forall c, valid c -> known c = 0 -> oracle c (run c) = true.
Proof.
  intros c _ _. unfold run, run_with, oracle.
  destruct (translate false c) as [st l] eqn:T.
  set (s := sort_set l).
  assert (Hfn : firstn (Z.to_nat (len s)) (s ++ [len l]) = s) by (unfold len; rewrite Nat2Z.id; apply firstn_app_exact).
  rewrite Hfn.
  assert (Hlen : (Z.of_nat (length (s ++ [len l])) =? len s + 1) = true)
    by (apply Z.eqb_eq; rewrite app_length; cbn; unfold len; lia).
  rewrite Hlen. cbn [andb].
  assert (Hn0 : (len s <? 0) = false) by (apply Z.ltb_ge; unfold len; lia).
  destruct (well_formed c) eqn:Hwf.
  - unfold well_formed in Hwf. destruct (c_path c) as [[|e es]|] eqn:Hp; try discriminate.
    assert (Hwf' : well_formed c = true) by (unfold well_formed; rewrite Hp; exact Hwf).
    destruct (translate_exact c e es Hp Hwf') as [Hset Hst]. rewrite T in *. cbn [fst snd] in *.
    assert (Hs : sort_set (spec_set c (e :: es)) = s) by (symmetry; apply sort_set_ext; exact Hset).
    rewrite Hs. destruct Hst as [[-> Hne]|[-> ->]].
    + rewrite Hn0. cbn [orb Z.ltb Z.compare]. destruct s as [|a s'] eqn:Es.
      * exfalso. apply Hne. apply sort_set_nil. exact Es.
      * cbn [Z.eqb andb]. apply list_eqb_refl.
    + reflexivity.
  - destruct (translate_malformed c Hwf) as [Hst Hl]. rewrite T in *. cbn [fst snd] in *. subst l. cbn.
    destruct st as [|p|p]; [lia | reflexivity | lia].
Qed.

(* ---- the bounded search is the full reflexive-transitive closure of HasSubtype ---- *)
Inductive reach (rs : list ref) : Z -> Z -> Prop :=
| r_refl : forall a, reach rs a a
| r_step : forall a b c, In (a, HasSubtype, b) rs -> reach rs b c -> reach rs a c.

Fixpoint chain (rs : list ref) (a : Z) (vs : list Z) : Prop :=
  match vs with [] => True | v :: vs' => In (a, HasSubtype, v) rs /\ chain rs v vs' end.

Lemma last_cons : forall (l : list Z) x a, last (x :: l) a = last l x.
Proof.
  induction l as [|y l IH]; intros x a; [reflexivity|].
  change (last (x :: y :: l) a) with (last (y :: l) a). rewrite (IH y a), (IH y x). reflexivity.
Qed.

Lemma reach_le_chain : forall rs k a b, reach_le rs k a b <-> exists vs, (length vs <= k)%nat /\ chain rs a vs /\ last vs a = b.
Proof.
  intros rs k a b. split.
  - induction 1 as [k a | k a b c Hin H [vs [Hl [Hc Hlast]]]].
    + exists []. cbn. split; [lia | auto].
    + exists (b :: vs). cbn [length chain]. split; [lia|]. split; [auto|]. rewrite last_cons. exact Hlast.
  - intros [vs [Hl [Hc Hlast]]]. revert k a Hl Hc Hlast. induction vs as [|v vs IH]; intros k a Hl Hc Hlast.
    + cbn in Hlast. subst. apply rl_refl.
    + destruct k; [cbn in Hl; lia|]. destruct Hc as [Hin Hc]. eapply rl_step; [exact Hin|].
      apply IH; [cbn in Hl; lia | exact Hc|]. rewrite last_cons in Hlast. exact Hlast.
Qed.

Lemma reach_chain : forall rs a b, reach rs a b <-> exists vs, chain rs a vs /\ last vs a = b.
Proof.
  intros rs a b. split.
  - induction 1 as [a | a b c Hin H [vs [Hc Hlast]]].
    + exists []. cbn. auto.
    + exists (b :: vs). cbn [chain]. split; [auto|]. rewrite last_cons. exact Hlast.
  - intros [vs [Hc Hlast]]. revert a Hc Hlast. induction vs as [|v vs IH]; intros a Hc Hlast.
    + cbn in Hlast. subst. apply r_refl.
    + destruct Hc as [Hin Hc]. eapply r_step; [exact Hin|]. apply IH; [exact Hc|]. rewrite last_cons in Hlast. exact Hlast.
Qed.

Lemma chain_app : forall rs l1 l2 a, chain rs a (l1 ++ l2) <-> chain rs a l1 /\ chain rs (last l1 a) l2.
Proof.
  intros rs l1. induction l1 as [|v l1 IH]; intros l2 a; cbn [app chain].
  - cbn. intuition.
  - rewrite IH, last_cons. intuition.
Qed.
Lemma last_app_cons : forall (l1 : list Z) x l2 a, last (l1 ++ x :: l2) a = last l2 x.
Proof.
  induction l1 as [|v l1 IH]; intros x l2 a; cbn [app]; [apply last_cons|].
  rewrite last_cons. apply IH.
Qed.

Lemma chain_targets : forall rs a vs, chain rs a vs -> incl vs (map (fun r : ref => snd r) rs).
Proof.
  intros rs a vs. revert a. induction vs as [|v vs IH]; intros a H x Hx; [contradiction|].
  destruct H as [Hin Hc]. destruct Hx as [<-|Hx]; [|eapply IH; eassumption].
  apply in_map_iff. exists (a, HasSubtype, v). auto.
Qed.

Lemma dup_split : forall l : list Z, ~ NoDup l -> exists x l1 l2 l3, l = l1 ++ x :: l2 ++ x :: l3.
Proof.
  induction l as [|a l IH]; intros H; [exfalso; apply H; constructor|].
  destruct (in_dec Z.eq_dec a l) as [Hin|Hnin].
  - apply in_split in Hin as [l2 [l3 ->]]. exists a, [], l2, l3. reflexivity.
  - destruct IH as [x [l1 [l2 [l3 ->]]]]; [intro Hnd; apply H; constructor; assumption|].
    exists x, (a :: l1), l2, l3. reflexivity.
Qed.

Lemma chain_shorten : forall rs n vs a b, (length vs <= n)%nat -> chain rs a vs -> last vs a = b ->
  exists ws, (length ws <= length rs)%nat /\ chain rs a ws /\ last ws a = b.
Proof.
  intros rs n. induction n as [|n IH]; intros vs a b Hn Hc Hlast.
  - destruct vs; [|cbn in Hn; lia]. exists []. cbn. split; [lia | auto].
  - destruct (le_lt_dec (length vs) (length rs)) as [Hle|Hgt]; [exists vs; auto|].
    assert (Hnd : ~ NoDup vs).
    { intro Hnd. pose proof (NoDup_incl_length Hnd (chain_targets rs a vs Hc)) as H. rewrite map_length in H. lia. }
    destruct (dup_split vs Hnd) as [x [l1 [l2 [l3 ->]]]].
    apply (IH (l1 ++ x :: l3) a b).
    + rewrite !app_length in *. cbn [length] in *. rewrite app_length in Hn. cbn [length] in Hn. lia.
    + apply chain_app in Hc as [Hc1 Hc2]. apply chain_app. split; [exact Hc1|].
      destruct Hc2 as [Hin Hc2]. split; [exact Hin|].
      apply chain_app in Hc2 as [_ Hc3]. destruct Hc3 as [_ Hc3]. rewrite last_cons in Hc3 || idtac. exact Hc3.
    + rewrite last_app_cons in *. rewrite <- Hlast. rewrite last_app_cons. reflexivity.
Qed.

Theorem reach_bounded : forall rs a b, reach rs a b <-> reach_le rs (length rs) a b.
Proof.
  intros rs a b. split.
  - intros H. apply reach_chain in H as [vs [Hc Hlast]].
    destruct (chain_shorten rs (length vs) vs a b (le_n _) Hc Hlast) as [ws H]. apply reach_le_chain. exists ws. exact H.
  - intros H. apply reach_le_chain in H as [vs [_ H]]. apply reach_chain. exists vs. exact H.
Qed.

(* so the type test of the specification is: no type given, the type itself, or (when requested) any
   type below it in the HasSubtype hierarchy *)
Theorem type_ok_closure : forall rs e t,
  type_ok rs e t = true <-> e_reftype e = 0 \/ t = e_reftype e \/ (e_sub e = true /\ reach rs (e_reftype e) t).
Proof.
  intros rs e t. unfold type_ok. destruct (e_reftype e =? 0) eqn:E0.
  - apply Z.eqb_eq in E0. intuition.
  - apply Z.eqb_neq in E0. destruct (t =? e_reftype e) eqn:Et.
    + apply Z.eqb_eq in Et. intuition.
    + apply Z.eqb_neq in Et. destruct (e_sub e).
      * rewrite mem_In, subtype_closure_iff. split.
        -- intros [a [[<-|[]] H]]. right. right. split; [reflexivity | apply reach_bounded; exact H].
        -- intros [H|[H|[_ H]]]; try congruence. exists (e_reftype e). split; [left; reflexivity | apply reach_bounded; exact H].
      * split; [discriminate|]. intros [H|[H|[H _]]]; congruence.
Qed.

(* ---- the code before the repair ---- *)
Definition W (v : Z) : Z := 4294967296 + v.
Definition CUSTOM0 : Z := 2 * 4294967296 + 500.
(* 1 -Organizes-> 2 (n2), 1 -custom-> 5 (n2), 1 -HasTypeDefinition-> 6 (n2); the path asks for the
   custom reference type only: the answer is {5}; with the filter dropped it was {2, 5, 6} *)
Definition w_custom : case :=
  mk_case [mk_gnode (W 1) 0 9; mk_gnode (W 2) 0 2; mk_gnode (W 5) 0 2; mk_gnode (W 6) 0 2]
          [(33, 45, 35); (35, 45, CUSTOM0); (W 1, 35, W 2); (W 1, CUSTOM0, W 5); (W 1, 40, W 6)]
          (W 1) (Some [mk_elem CUSTOM0 false false 0 2]).
Theorem legacy_refuted : exists c, valid c /\ oracle c (run_with true c) = false.
Proof. exists w_custom. split; [exact I | vm_compute; reflexivity]. Qed.
Example w_custom_fixed : run w_custom = [0; 1; W 5; 1] /\ run_with true w_custom = [0; 3; W 2; W 5; W 6; 3].
Proof. split; vm_compute; reflexivity. Qed.

(* the hypotheses of C31_translate_exact are satisfiable by a case with a non-empty answer, two path
   elements and the subtype closure in play *)
Definition ex_path : case :=
  mk_case [mk_gnode (W 1) 0 9; mk_gnode (W 2) 0 2; mk_gnode (W 3) 0 3; mk_gnode (W 4) 0 3]
          [(33, 45, 34); (34, 45, 44); (44, 45, 47); (33, 45, 35); (W 1, 35, W 2); (W 2, 47, W 3); (W 2, 40, W 4)]
          (W 1) (Some [mk_elem 33 false true 0 2; mk_elem 44 false true 0 3]).
Example ex_path_ok : well_formed ex_path = true /\ translate false ex_path = (0, [W 3]) /\
                     spec_set ex_path [mk_elem 33 false true 0 2; mk_elem 44 false true 0 3] = [W 3].
Proof. vm_compute. repeat split; reflexivity. Qed.
Example ex_reach : reach [(33, 45, 34); (34, 45, 44); (44, 45, 47)] 33 47.
Proof. apply reach_bounded. apply subtype_search_iff. vm_compute. reflexivity. Qed.
