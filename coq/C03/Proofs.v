(* C03 — limit theorems: the length checks of strings, byte strings and arrays, with the limits
   as parameters. *)
From Coq Require Import List ZArith Bool Lia.
Import ListNotations.
From OV Require Import C01.Codec C01.CodecProofs C01.Builtins C01.Types.
Open Scope Z_scope.

(* what the string / byte string decoder does on a declared length L followed by any bytes *)
Lemma ustr_length_check limit utf8 L bs : in_i 4 L ->
  run (dec_ustr limit utf8) (enc_i 4 L ++ bs) =
  if L =? -1 then Ok (None, bs)
  else if L <? -1 then Err ENeg
  else if limit <? L then Err ELimit
  else run (b <- take (Z.to_nat L) ;;
            if utf8 && negb (utf8_valid b) then fail EUtf8 else ret (Some b)) bs.
Proof.
  intros HL. unfold dec_ustr. rewrite run_bind, run_read_i by (try lia; exact HL).
  destruct (L =? -1); [reflexivity|]. destruct (L <? -1); [reflexivity|].
  destruct (limit <? L); [reflexivity|]. rewrite run_bind, run_alloc. reflexivity.
Qed.

Lemma ustr_over limit utf8 L bs : in_i 4 L -> 0 <= limit -> limit < L ->
  run (dec_ustr limit utf8) (enc_i 4 L ++ bs) = Err ELimit.
Proof.
  intros HL H0 H. rewrite ustr_length_check by exact HL.
  destruct (Z.eqb_spec L (-1)); [lia|]. destruct (Z.ltb_spec L (-1)); [lia|].
  destruct (Z.ltb_spec limit L); [reflexivity|lia].
Qed.
Lemma ustr_negative limit utf8 L bs : in_i 4 L -> L < -1 ->
  run (dec_ustr limit utf8) (enc_i 4 L ++ bs) = Err ENeg.
Proof.
  intros HL H. rewrite ustr_length_check by exact HL.
  destruct (Z.eqb_spec L (-1)); [lia|]. destruct (Z.ltb_spec L (-1)); [reflexivity|lia].
Qed.
Lemma ustr_within limit utf8 items rest :
  Z.of_nat (length items) <= limit -> Z.of_nat (length items) < 2 ^ 31 ->
  (utf8 = true -> utf8_valid items = true) ->
  run (dec_ustr limit utf8) (enc_i 4 (Z.of_nat (length items)) ++ items ++ rest) = Ok (Some items, rest).
Proof.
  intros Hl H31 Hu.
  pose proof (run_dec_ustr limit utf8 (Some items) rest) as H. cbn [enc_ustr chk_ustr] in H.
  rewrite <- app_assoc in H. rewrite H by (split; assumption).
  destruct (Z.ltb_spec limit (Z.of_nat (length items))); [lia|reflexivity].
Qed.
Lemma ustr_null limit utf8 rest : run (dec_ustr limit utf8) (enc_i 4 (-1) ++ rest) = Ok (None, rest).
Proof. rewrite ustr_length_check by (unfold in_i; cbn; lia). reflexivity. Qed.

(* read_array *)
Lemma array_length_check {A} o esize (m : M A) L bs : in_i 4 L ->
  run (dec_array o esize m) (enc_i 4 L ++ bs) =
  if L =? -1 then Ok (None, bs)
  else if L <? -1 then Err ENeg
  else if max_arr o <? L then Err ELimit
  else run (xs <- dec_n (Z.to_nat L) m ;; ret (Some xs)) bs.
Proof.
  intros HL. unfold dec_array. rewrite run_bind, run_read_i by (try lia; exact HL).
  destruct (L =? -1); [reflexivity|]. destruct (L <? -1); [reflexivity|].
  destruct (max_arr o <? L); [reflexivity|]. rewrite run_bind, run_alloc. reflexivity.
Qed.
Lemma array_over {A} o esize (m : M A) L bs : in_i 4 L -> 0 <= max_arr o -> max_arr o < L ->
  run (dec_array o esize m) (enc_i 4 L ++ bs) = Err ELimit.
Proof.
  intros HL H0 H. rewrite array_length_check by exact HL.
  destruct (Z.eqb_spec L (-1)); [lia|]. destruct (Z.ltb_spec L (-1)); [lia|].
  destruct (Z.ltb_spec (max_arr o) L); [reflexivity|lia].
Qed.
Lemma array_negative {A} o esize (m : M A) L bs : in_i 4 L -> L < -1 ->
  run (dec_array o esize m) (enc_i 4 L ++ bs) = Err ENeg.
Proof.
  intros HL H. rewrite array_length_check by exact HL.
  destruct (Z.eqb_spec L (-1)); [lia|]. destruct (Z.ltb_spec L (-1)); [reflexivity|lia].
Qed.

(* chunk: a declared size above max_message_size is rejected whatever follows the header, with no
   allocation: the body is not read *)
Definition chunk_header_bytes (mt fin size ch : Z) : bytes := enc_chunk_header [mt; fin; size; ch].

Lemma run_chunk_header mt fin size ch rest :
  (mt = 0 \/ mt = 1 \/ mt = 2) -> (fin = 0 \/ fin = 1 \/ fin = 2) -> in_u 4 size -> in_u 4 ch ->
  run dec_chunk_header (chunk_header_bytes mt fin size ch ++ rest) = Ok ([mt; fin; size; ch], rest).
Proof.
  intros Hm Hf Hs Hc. unfold dec_chunk_header, chunk_header_bytes, enc_chunk_header.
  destruct Hm as [-> | [-> | ->]]; destruct Hf as [-> | [-> | ->]]; cbn [Z.eqb Pos.eqb];
    rewrite <- !app_assoc; cbn [app]; rewrite run_bind;
    (match goal with |- context [run (take 3) (?a :: ?b :: ?c :: ?more)] =>
       change (a :: b :: c :: more) with ([a; b; c] ++ more); rewrite (run_take_n 3) by reflexivity end);
    cbn [Z.eqb Pos.eqb andb]; rewrite run_bind; rewrite run_read_byte by (unfold is_byte; lia);
    cbn [Z.eqb Pos.eqb]; rewrite run_bind, run_read_u by exact Hs;
    rewrite run_bind, run_read_u by exact Hc; reflexivity.
Qed.

Lemma chunk_too_large o mt fin size ch body :
  (mt = 0 \/ mt = 1 \/ mt = 2) -> (fin = 0 \/ fin = 1 \/ fin = 2) -> in_u 4 size -> in_u 4 ch ->
  0 < max_msg o < size ->
  dec_chunk o (chunk_header_bytes mt fin size ch ++ body) = (Err ELimit, st0).
Proof.
  intros Hm Hf Hs Hc Hl. pose proof (run_chunk_header mt fin size ch body Hm Hf Hs Hc) as H.
  unfold run in H. unfold dec_chunk, bind at 1.
  destruct (dec_chunk_header (chunk_header_bytes mt fin size ch ++ body)) as [r s] eqn:E.
  cbn [fst] in H. subst r.
  assert (Hs0 : s = st0).
  { clear - E Hm Hf. unfold dec_chunk_header, chunk_header_bytes, enc_chunk_header in E.
    destruct Hm as [-> | [-> | ->]]; destruct Hf as [-> | [-> | ->]]; cbn in E; inversion E; reflexivity. }
  subst s. cbn [nth].
  destruct (Z.ltb_spec 0 (max_msg o)); [|lia]. destruct (Z.ltb_spec (max_msg o) size); [|lia].
  reflexivity.
Qed.

(* ---- limits at any nesting position: from the codec law ------------------------------------------------------- *)
From OV Require Import C01.BuiltinsProofs C01.VariantProofs C01.TypesProofs C01.Model C01.Proofs C03.Model.

(* a well-formed value with some string / byte string / array longer than its limit, at any position,
   is rejected; with every length within the limits (and the nesting within the depth) it is accepted *)
Theorem nested_limits t v o rest : wf_ty t v -> plain o ->
  (fits_ty t o (depth0 o) v = true ->
     Codec.run (dec_ty t o (depth0 o)) (enc_ty t v ++ rest) = Ok (norm_ty t v, rest)) /\
  (fits_ty t o (depth0 o) v = false ->
     exists e, Codec.run (dec_ty t o (depth0 o)) (enc_ty t v ++ rest) = Err e).
Proof.
  intros Hw (Ho & Hd & Hl). destruct (ty_codec_ok t v Hw) as (_ & _ & D).
  unfold ty_codec in D. cbn [enc dec chk norm] in D. rewrite D by exact Ho.
  rewrite <- (fits_chk_ty o (depth0 o) Hl t v).
  destruct (chk_ty t o (depth0 o) v) as [e|]; cbn [is_none]; split; intros H; try discriminate.
  - exists e. reflexivity.
  - reflexivity.
Qed.

(* the error is the limit error exactly when the first violation in decoding order is a length *)
Theorem nested_limit_error t v o d rest : wf_ty t v -> offset_ns o = 0 -> chk_ty t o d v = Some ELimit ->
  Codec.run (dec_ty t o d) (enc_ty t v ++ rest) = Err ELimit.
Proof.
  intros Hw Ho Hc. destruct (ty_codec_ok t v Hw) as (_ & _ & D).
  unfold ty_codec in D. cbn [enc dec chk norm] in D. rewrite D by exact Ho. rewrite Hc. reflexivity.
Qed.

(* ---- the oracle on the model: value cases, chunk cases, and the contexts 1, 2, 5 -------------------------------- *)
Lemma zlen_app {A} (a b : list A) : zlen (a ++ b) = zlen a + zlen b.
Proof. unfold zlen. rewrite app_length. lia. Qed.

Lemma oracle_val_case t v o : wf_ty t v -> plain o -> oracle (CVal t v o) (C03.Model.run (CVal t v o)) = true.
Proof.
  intros Hw Hp. destruct (nested_limits t v o [] Hw Hp) as [Ha Hr].
  unfold oracle, C03.Model.run. cbn [case_bytes]. rewrite app_nil_r in Ha, Hr.
  destruct (fits_ty t o (depth0 o) v).
  - rewrite Ha by reflexivity. unfold zlen. cbn [length]. rewrite Z.sub_0_r. apply list_eqb_refl.
  - destruct (Hr eq_refl) as [e He]. rewrite He. reflexivity.
Qed.

Lemma chunk_hdr_len mt fin size ch : length (chunk_header_bytes mt fin size ch) = 12%nat.
Proof.
  unfold chunk_header_bytes, enc_chunk_header. rewrite !app_length, !enc_u_length.
  destruct (mt =? 0); [|destruct (mt =? 1)]; reflexivity.
Qed.

Lemma oracle_chunk_case o size body : in_u 4 size -> 0 <= max_msg o ->
  oracle (CChunk o size body) (C03.Model.run (CChunk o size body)) = true.
Proof.
  intros Hs Hm. unfold oracle, C03.Model.run. cbn [case_bytes].
  change ([77; 83; 71; 70] ++ enc_u 4 size ++ enc_u 4 1 ++ body)
    with (chunk_header_bytes 0 1 size 1 ++ body).
  assert (H1 : in_u 4 1) by (unfold in_u; cbn; lia).
  destruct ((0 <? max_msg o) && (max_msg o <? size)) eqn:Hc.
  - apply andb_true_iff in Hc. destruct Hc as [Ha Hb]. apply Z.ltb_lt in Ha. apply Z.ltb_lt in Hb.
    unfold Codec.run. rewrite chunk_too_large by (auto; lia). reflexivity.
  - assert (He : exists data rest, Codec.run (dec_chunk o) (chunk_header_bytes 0 1 size 1 ++ body) = Ok (data, rest)
                                    /\ zlen data = Z.max size 12).
    { unfold dec_chunk. rewrite run_bind, run_chunk_header by (auto; lia). cbn [nth]. rewrite Hc.
      rewrite run_bind, run_alloc. cbv zeta.
      destruct (Z.ltb_spec (Z.max size 12) 12); [lia|].
      assert (Hl : forall x : bytes, zlen (enc_chunk_header [0; 1; size; 1] ++ x) = 12 + zlen x).
      { intros x. rewrite zlen_app. unfold zlen at 1.
        change (enc_chunk_header [0; 1; size; 1]) with (chunk_header_bytes 0 1 size 1).
        rewrite chunk_hdr_len. reflexivity. }
      unfold Codec.run.
      destruct (Nat.ltb_spec (length body) (Z.to_nat (Z.max size 12 - 12))); cbn [fst];
        eexists; eexists; (split; [reflexivity|]); rewrite Hl; unfold zlen.
      - rewrite repeat_length. lia.
      - rewrite firstn_length. lia. }
    destruct He as (data & rest & He & Hlen). rewrite He, Hlen. apply Z.eqb_refl.
Qed.

Example nested_limits_example :
  let o := mk_opts 3 65535 1000 327675 10 0 in
  let v := UV (VArray 12 [VS (SStr (Some [97; 98])); VS (SStr (Some [97; 98; 99; 100]))] None) in
  wf_ty TVar v /\ plain o /\ fits_ty TVar o (depth0 o) v = false.
Proof.
  cbv zeta. split; [|split].
  - cbn. unfold wf_bytes, is_byte. cbn.
    repeat match goal with
           | |- _ /\ _ => split
           | |- Forall _ _ => constructor
           | |- True => exact I
           | |- _ = _ => reflexivity
           | |- _ => lia
           end.
  - unfold plain. cbn. lia.
  - vm_compute. reflexivity.
Qed.
