(* What AddressSpace::delete does: the set D of ids on which delete was invoked, the exact node
   set and forward buckets afterwards, closure of D under aggregation, minimality of D. *)
From Coq Require Import List ZArith Bool Lia.
Import ListNotations.
From OV Require Import C28.Refs C28.RefsFacts C28.RefsProofs C29.Model C29.TypeMatch.
Open Scope Z_scope.

(* "ty is Aggregates or a subtype of it", as the code decides it in the forward map f *)
Definition tmA (f : list (Z * list ref)) (ty : Z) : bool := reference_type_matches f AGGREGATES ty true.

Lemma opt_list_match (l : list ref) :
  opt_list (match l with [] => None | p :: l0 => Some (map snd (p :: l0)) end) = map snd l.
Proof. destruct l; reflexivity. Qed.

Lemma find_aggregates_of_eq st n :
  opt_list (find_aggregates_of st n)
  = map snd (filter (fun r => tmA (fwd (rs st)) (fst r)) (F (rs st) n)).
Proof.
  unfold find_aggregates_of, F, bucket, tmA. destruct (get n (fwd (rs st))) as [b|]; [|reflexivity].
  apply opt_list_match.
Qed.

Lemma filter_filter' {A} (p q : A -> bool) l : filter p (filter q l) = filter (fun x => q x && p x) l.
Proof.
  induction l as [|x l IH]; cbn [filter]; [reflexivity|].
  destruct (q x); cbn [filter andb]; [destruct (p x)|]; rewrite IH; reflexivity.
Qed.

Lemma memZ_cons x d D : memZ x (d :: D) = (x =? d) || memZ x D.
Proof. reflexivity. Qed.

(* deleting the references of a node that is not an aggregating reference type does not change
   which reference types aggregate *)
Lemma tmA_stable r d : Inv r -> tmA (fwd r) d = false ->
  forall ty, tmA (fwd (snd (delete_node_references r d))) ty = tmA (fwd r) ty.
Proof.
  intros HI Hd ty. destruct (delete_node_references_inv r d HI) as (_ & InF & _ & _ & _).
  set (r' := snd (delete_node_references r d)) in *.
  assert (Hsub : forall x w, sub_rel (fwd r') x w <-> sub_rel (fwd r) x w /\ x <> d /\ w <> d).
  { intros x w. unfold sub_rel, subs. change (bucket x (fwd r')) with (F r' x).
    change (bucket x (fwd r)) with (F r x). rewrite !in_map_iff. split.
    - intros (q & Hq & Hin). apply filter_In in Hin. destruct Hin as [Hin H45].
      apply InF in Hin. destruct Hin as (Hin & Hx & Hs). subst w.
      split; [exists q; split; [reflexivity|apply filter_In; auto]|auto].
    - intros ((q & Hq & Hin) & Hx & Hw). apply filter_In in Hin. destruct Hin as [Hin H45].
      exists q. split; [exact Hq|]. apply filter_In. split; [|exact H45]. apply InF. subst w. auto. }
  apply eq_true_iff_eq. unfold tmA. rewrite !type_matches_spec. split.
  - apply RReach_ext. intros x y H. apply Hsub in H. apply H.
  - intros HR.
    assert (G : forall x, RReach (sub_rel (fwd r)) AGGREGATES x -> RReach (sub_rel (fwd r')) AGGREGATES x).
    { intros x R0. induction R0 as [|x b R0 IH Hx]; [constructor|].
      apply (RReach_step _ _ x b IH). apply Hsub. split; [exact Hx|]. split.
      - intros ->. apply type_matches_spec in R0. unfold tmA in Hd. congruence.
      - intros ->. assert (R1 : RReach (sub_rel (fwd r)) AGGREGATES d) by exact (RReach_step _ _ x d R0 Hx).
        apply type_matches_spec in R1. unfold tmA in Hd. congruence. }
    apply G, HR.
Qed.

Section Del.
  Variable st0 : astate.          (* the state delete is called on *)
  Variable dtr : bool.            (* delete_target_references *)
  Hypothesis Inv0 : Inv (rs st0).
  Definition agg (ty : Z) : bool := tmA (fwd (rs st0)) ty.
  (* no node is an aggregating reference type *)
  Hypothesis ok_nodes : forall d, In d (nodes st0) -> agg d = false.

  Definition notin (D : list Z) (x : Z) : bool := negb (memZ x D).

  (* the bucket of y once the ids in D have been deleted *)
  Definition Fexp (D : list Z) (y : Z) : list ref :=
    if dtr then (if memZ y D then [] else filter (fun r => notin D (snd r)) (F (rs st0) y))
    else F (rs st0) y.

  Record Rel (D : list Z) (cur : astate) : Prop := {
    rel_nodes : nodes cur = filter (notin D) (nodes st0);
    rel_F : forall y, F (rs cur) y = Fexp D y;
    rel_inv : Inv (rs cur);
    rel_ok : forall d, In d D -> agg d = false;
    rel_tm : forall ty, tmA (fwd (rs cur)) ty = agg ty
  }.

  Lemma Rel_init : Rel [] st0.
  Proof.
    constructor.
    - symmetry. apply filter_all. intros; reflexivity.
    - intros y. unfold Fexp. destruct dtr; [|reflexivity]. cbn [memZ existsb].
      symmetry. apply filter_all. intros; reflexivity.
    - exact Inv0.
    - intros d [].
    - intros ty. reflexivity.
  Qed.

  Lemma Fexp_sub D y r : In r (Fexp D y) -> In r (F (rs st0) y).
  Proof.
    unfold Fexp. destruct dtr; [|auto]. destruct (memZ y D); [intros []|].
    intros H. apply filter_In in H. apply H.
  Qed.

  Lemma notin_cons d D x : notin D x && negb (x =? d) = notin (d :: D) x.
  Proof. unfold notin. rewrite memZ_cons, negb_orb. apply andb_comm. Qed.

  Lemma Rel_step D cur d : Rel D cur -> agg d = false ->
    Rel (d :: D)
        (mk_astate (filter (fun x => negb (x =? d)) (nodes cur))
                   (snd (if dtr then delete_node_references (rs cur) d else (false, rs cur)))).
  Proof.
    intros [HN HF HI HO HT] Hd. constructor; cbn [nodes rs].
    - rewrite HN, filter_filter'. apply filter_ext. intros x. apply notin_cons.
    - intros y. unfold Fexp in *. destruct dtr; cbn [snd]; [|apply HF].
      destruct (delete_node_references_inv (rs cur) d HI) as (_ & _ & _ & _ & EF).
      rewrite EF, HF, memZ_cons. destruct (y =? d); cbn [orb]; [reflexivity|].
      destruct (memZ y D); [reflexivity|]. rewrite filter_filter'. apply filter_ext.
      intros r. unfold keep_tgt. apply notin_cons.
    - destruct dtr; cbn [snd]; [|exact HI]. apply (delete_node_references_inv (rs cur) d HI).
    - intros x [<-|Hx]; [exact Hd|apply HO, Hx].
    - intros ty. destruct dtr; cbn [snd]; [|apply HT]. rewrite tmA_stable; [apply HT|exact HI|].
      rewrite HT. exact Hd.
  Qed.

  (* C is closed under "aggregated node of" in the original state *)
  Definition closedset (C : list Z) : Prop :=
    forall x r, In x C -> In x (nodes st0) -> In r (F (rs st0) x) -> agg (fst r) = true ->
                In (snd r) (nodes st0) -> In (snd r) C.

  Definition Post (D D' : list Z) (cur' : astate) : Prop :=
    Rel D' cur' /\ incl D D' /\
    (forall x, In x D' -> ~ In x D -> In x (nodes st0) -> forall r, In r (F (rs st0) x) ->
               agg (fst r) = true -> In (snd r) (nodes st0) -> In (snd r) D').

  Definition Minimal (D D' : list Z) (seed : Z -> Prop) : Prop :=
    forall C, closedset C -> (forall c, seed c -> In c C) -> forall x, In x D' -> In x D \/ In x C.

  Lemma node_cur D cur c : Rel D cur -> memZ c (nodes cur) = true -> In c (nodes st0).
  Proof. intros HR Hc. apply memZ_In in Hc. rewrite (rel_nodes _ _ HR) in Hc. apply filter_In in Hc. apply Hc. Qed.

  Lemma node_gone D cur c : Rel D cur -> memZ c (nodes cur) = false -> In c (nodes st0) -> In c D.
  Proof.
    intros HR Hc H0. apply memZ_false in Hc. rewrite (rel_nodes _ _ HR) in Hc.
    destruct (memZ c D) eqn:E; [apply memZ_In, E|]. exfalso. apply Hc. apply filter_In.
    split; [exact H0|]. unfold notin. rewrite E. reflexivity.
  Qed.

  Lemma dels_char k :
    (forall cur d D r, Rel D cur -> agg d = false -> delete_fuel k dtr cur d = Some r ->
       exists D', Post D D' (snd r) /\ In d D' /\ Minimal D D' (fun c => c = d)) ->
    forall cs cur D cur', Rel D cur -> dels (delete_fuel k dtr) cs cur = Some cur' ->
    exists D', Post D D' cur' /\
               (forall c, In c cs -> In c (nodes st0) -> In c D') /\
               Minimal D D' (fun c => In c cs /\ In c (nodes st0)).
  Proof.
    intros IHk. induction cs as [|c cs IH]; intros cur D cur' HR E; cbn [dels] in E.
    - inversion E; subst cur'. exists D. split; [|split].
      + split; [exact HR|]. split; [apply incl_refl|]. intros x Hx Hn. contradiction.
      + intros c [].
      + intros C _ _ x Hx. left. exact Hx.
    - destruct (memZ c (nodes cur)) eqn:Hc.
      + destruct (delete_fuel k dtr cur c) as [[b cur1]|] eqn:E1; [|discriminate].
        assert (Hc0 : In c (nodes st0)) by (eapply node_cur; eauto).
        destruct (IHk cur c D (b, cur1) HR (ok_nodes c Hc0) E1) as (D1 & (HR1 & Hi1 & Hcl1) & Hin1 & Hmin1).
        cbn [snd] in HR1.
        destruct (IH cur1 D1 cur' HR1 E) as (D' & (HR' & Hi' & Hcl') & Hin' & Hmin').
        exists D'. split; [|split].
        * split; [exact HR'|]. split; [eapply incl_tran; eauto|].
          intros x Hx Hn Hx0 r Hr Ha Hs. destruct (in_dec Z.eq_dec x D1) as [H1|H1].
          -- apply Hi'. eapply Hcl1; eauto.
          -- eapply Hcl'; eauto.
        * intros c' [<-|Hc'] H0; [apply Hi', Hin1|apply Hin'; assumption].
        * intros C HC Hseed x Hx.
          destruct (Hmin' C HC) with (x := x) as [H1|H1]; auto.
          { intros c' [Hc' H0]. apply Hseed. split; [right; exact Hc'|exact H0]. }
          destruct (Hmin1 C HC) with (x := x) as [H2|H2]; auto.
          intros c' ->. apply Hseed. split; [left; reflexivity|exact Hc0].
      + destruct (IH cur D cur' HR E) as (D' & (HR' & Hi' & Hcl') & Hin' & Hmin').
        exists D'. split; [|split].
        * split; [exact HR'|]. split; [exact Hi'|exact Hcl'].
        * intros c' [<-|Hc'] H0; [apply Hi'; eapply node_gone; eauto|apply Hin'; assumption].
        * intros C HC Hseed x Hx. apply (Hmin' C HC); [|exact Hx].
          intros c' [Hc' H0]. apply Hseed. split; [right; exact Hc'|exact H0].
  Qed.

  Lemma del_char : forall k cur d D r, Rel D cur -> agg d = false ->
    delete_fuel k dtr cur d = Some r ->
    exists D', Post D D' (snd r) /\ In d D' /\ Minimal D D' (fun c => c = d).
  Proof.
    induction k as [|k IHk]; intros cur d D r HR Hd E; [discriminate|].
    cbn [delete_fuel] in E.
    pose proof (Rel_step D cur d HR Hd) as HR1.
    destruct (if dtr then delete_node_references (rs cur) d else (false, rs cur)) as [rt rs1] eqn:Edn.
    cbn [snd] in HR1.
    destruct (dels (delete_fuel k dtr) _ _) as [st2|] eqn:E2; [|discriminate].
    inversion E; subst r; clear E. cbn [snd].
    destruct (dels_char k IHk _ _ _ _ HR1 E2) as (D' & (HR' & Hi' & Hcl') & Hin' & Hmin').
    (* the children are the aggregated targets in the bucket of d *)
    set (cs := opt_list (if memZ d (nodes cur) then find_aggregates_of cur d else None)) in *.
    assert (Hch : memZ d (nodes cur) = true ->
                  forall r0, In r0 (F (rs cur) d) -> agg (fst r0) = true -> In (snd r0) cs).
    { intros Hex r0 Hr0 Ha. unfold cs. rewrite Hex, find_aggregates_of_eq. apply in_map. apply filter_In.
      split; [exact Hr0|]. rewrite (rel_tm _ _ HR). exact Ha. }
    assert (Hch' : forall c, In c cs ->
                             In d (nodes st0) /\
                             exists r0, In r0 (F (rs st0) d) /\ agg (fst r0) = true /\ snd r0 = c).
    { intros c Hc. unfold cs in Hc. destruct (memZ d (nodes cur)) eqn:Hex; [|destruct Hc].
      split; [exact (node_cur D cur d HR Hex)|].
      rewrite find_aggregates_of_eq in Hc. apply in_map_iff in Hc.
      destruct Hc as (r0 & Hs & Hf). apply filter_In in Hf. destruct Hf as [Hf Ha].
      rewrite (rel_tm _ _ HR) in Ha. rewrite (rel_F _ _ HR) in Hf. apply Fexp_sub in Hf.
      exists r0. auto. }
    exists D'. split; [|split].
    - split; [exact HR'|]. split; [intros x Hx; apply Hi'; right; exact Hx|].
      intros x Hx Hn Hx0 r0 Hr0 Ha Hs.
      destruct (Z.eq_dec x d) as [->|Hxd].
      + (* the children of d itself; d is a node that has not been deleted yet *)
        assert (Hex : memZ d (nodes cur) = true).
        { apply memZ_In. rewrite (rel_nodes _ _ HR). apply filter_In. split; [exact Hx0|].
          unfold notin. apply negb_true_iff, memZ_false. exact Hn. }
        destruct (memZ (snd r0) D) eqn:EsD; [apply Hi'; right; apply memZ_In, EsD|].
        apply Hin'; [|exact Hs]. apply Hch; [exact Hex| |exact Ha].
        rewrite (rel_F _ _ HR). unfold Fexp. destruct dtr; [|exact Hr0].
        destruct (memZ d D) eqn:EdD; [apply memZ_In in EdD; contradiction|].
        apply filter_In. split; [exact Hr0|]. unfold notin. rewrite EsD. reflexivity.
      + eapply Hcl'; eauto. intros [<-|H]; [apply Hxd; reflexivity|contradiction].
    - apply Hi'. left. reflexivity.
    - intros C HC Hseed x Hx.
      assert (Hs2 : forall c, In c cs /\ In c (nodes st0) -> In c C).
      { intros c [Hc H0]. destruct (Hch' c Hc) as (Hd0 & r0 & Hr0 & Ha & <-).
        apply (HC d r0); auto. }
      destruct (Hmin' C HC Hs2 x Hx) as [[<-|H1]|H1].
      + right. apply Hseed. reflexivity.
      + left. exact H1.
      + right. exact H1.
  Qed.

  (* the whole call *)
  Theorem delete_char target b st' : agg target = false ->
    delete st0 target dtr = Some (b, st') ->
    exists D, Rel D st' /\ In target D /\
      (forall x r, In x D -> In x (nodes st0) -> In r (F (rs st0) x) -> agg (fst r) = true ->
                   In (snd r) (nodes st0) -> In (snd r) D) /\
      (forall C, closedset C -> In target C -> incl D C).
  Proof.
    intros Ht E. unfold delete in E.
    destruct (del_char _ _ _ _ _ Rel_init Ht E) as (D & (HR & _ & Hcl) & Hin & Hmin).
    cbn [snd] in HR. exists D. split; [exact HR|]. split; [exact Hin|]. split.
    - intros x r Hx Hx0. apply Hcl; [exact Hx|intros []|exact Hx0].
    - intros C HC HtC x Hx. destruct (Hmin C HC) with (x := x) as [[]|H]; auto. intros c ->. exact HtC.
  Qed.
End Del.
