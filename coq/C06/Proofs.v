(* C06 — the theorems about the interpreted code, for every configuration that passes [cfg_ok]
   (in particular the one translated from the source, see [gen_cfg_ok]). *)
From Coq Require Import List ZArith Bool Lia Reals Lra.
From Flocq Require Import Core IEEE754.BinarySingleNaN.
From OV Require Import C06.Model C06.Spec C06.IntFacts C06.FloatFacts C06.Dyadic.
Import ListNotations.
Open Scope Z_scope.

(* ---- the translated tables pass the check ------------------------------------------------------ *)

Lemma gen_cfg_ok : cfg_ok gen_cfg = true.
Proof. vm_compute. reflexivity. Qed.

(* key lemma of the repaired cast: for every integer type and both float formats, `MIN as f` is MIN
   and `(MAX as f) + 1.0` is MAX + 1 = 2^k, exactly *)
Lemma range_bounds_exact :
  forallb (fun sb => bounds_exact 24 128 true (fst sb) (snd sb) && bounds_exact 53 1024 true (fst sb) (snd sb))
          int_types = true.
Proof. vm_compute. reflexivity. Qed.

Lemma range_bounds_real : forall s b, In (s, b) int_types ->
  (B2R (f_of_Z 24 128 (pmin s b)) = IZR (pmin s b) /\
   B2R (f_upper 24 128 true (pmax s b)) = IZR (2 ^ (if s then b - 1 else b)) /\
   B2R (f_of_Z 53 1024 (pmin s b)) = IZR (pmin s b) /\
   B2R (f_upper 53 1024 true (pmax s b)) = IZR (2 ^ (if s then b - 1 else b)))%R.
Proof.
  intros s b Hin.
  pose proof (proj1 (forallb_forall _ _) range_bounds_exact (s, b) Hin) as H.
  cbn [fst snd] in H. apply andb_true_iff in H as [H32 H64].
  apply bounds_exact_spec in H32 as [A1 A2]. apply bounds_exact_spec in H64 as [B1 B2].
  apply exact_Z_correct in A1 as [A1 _]. apply exact_Z_correct in A2 as [A2 _].
  apply exact_Z_correct in B1 as [B1 _]. apply exact_Z_correct in B2 as [B2 _].
  assert (E : pmax s b + 1 = 2 ^ (if s then b - 1 else b)) by (unfold pmax; destruct s; lia).
  rewrite <- E. repeat split; assumption.
Qed.

(* ---- plumbing ------------------------------------------------------------------------------------ *)

Lemma num_of_In : forall t k, num_of t = Some k -> In t numeric_types.
Proof. intros t k H. destruct t; cbn in H; try discriminate; cbn; tauto. Qed.

Lemma num_of_prim : forall t k, num_of t = Some k ->
  prim_of t = Some (match k with NInt s b => PInt s b | NF32 => PF32 | NF64 => PF64 end).
Proof. intros t k H. destruct t; cbn in H; try discriminate; injection H as <-; reflexivity. Qed.

Lemma num_of_int_bits : forall t s b, num_of t = Some (NInt s b) -> 0 < b <= 64.
Proof. intros t s b H. destruct t; cbn in H; try discriminate; injection H as <- <-; lia. Qed.

Record cfg_params (cfg : config) : Prop := {
  p_neg : c_int_neg cfg = OLt; p_lo : c_int_lo cfg = OGe; p_hi : c_int_hi cfg = OLe;
  p_flo : c_fl_lo cfg = OGe; p_fhi : c_fl_hi cfg = OLt; p_plus : c_fl_plus cfg = true }.

Lemma ord_eqb_eq : forall a b, ord_eqb a b = true -> a = b.
Proof. intros [] []; cbn; congruence. Qed.

Lemma cfg_ok_params : forall cfg, cfg_ok cfg = true -> cfg_params cfg.
Proof.
  intros cfg H. unfold cfg_ok in H. repeat (apply andb_true_iff in H as [H ?]).
  constructor; try (apply ord_eqb_eq; assumption); assumption.
Qed.

Lemma cfg_ok_pair : forall cfg s t ks kt, cfg_ok cfg = true ->
  num_of s = Some ks -> num_of t = Some kt -> s <> t -> pair_ok cfg s t = true.
Proof.
  intros cfg s t ks kt H Hs Ht Hne. unfold cfg_ok in H. apply andb_true_iff in H as [_ H].
  pose proof (proj1 (forallb_forall _ _) H s (num_of_In _ _ Hs)) as H1. cbv beta in H1.
  pose proof (proj1 (forallb_forall _ _) H1 t (num_of_In _ _ Ht)) as H2. cbv beta in H2.
  apply orb_true_iff in H2 as [H2|H2]; [|exact H2]. apply ty_eqb_eq in H2. contradiction.
Qed.

Lemma ty_eqb_neq : forall a b, a <> b -> ty_eqb a b = false.
Proof. intros a b H. destruct (ty_eqb a b) eqn:E; [|reflexivity]. apply ty_eqb_eq in E. contradiction. Qed.

(* ---- explicit cast to an integer type ----------------------------------------------------------- *)

(* the rounded source value *)
Definition rounded (v : val) : Z := ZnearestA (valR v).

Definition cast_int_spec (ts : bool) (tb : Z) (tgt : ty) (v : val) : res :=
  if finite_val v && in_range ts tb (rounded v) then Res tgt (VInt (rounded v)) else Empty.

Lemma finite_val_f : forall prec emax (f : binary_float prec emax),
  (match f_class f with CFinite => true | _ => false end) = is_finite f.
Proof. intros prec emax [s | s | | s m e Hb]; reflexivity. Qed.

Theorem cast_to_int_correct : forall cfg src tgt ks ts tb v,
  cfg_ok cfg = true ->
  num_of src = Some ks -> num_of tgt = Some (NInt ts tb) -> well_typed src v ->
  cast cfg src tgt v = cast_int_spec ts tb tgt v.
Proof.
  intros cfg src tgt ks ts tb v Hok Hs Ht Hv.
  pose proof (cfg_ok_params cfg Hok) as P.
  pose proof (num_of_int_bits _ _ _ Ht) as Htb.
  pose proof (num_of_prim _ _ Ht) as Hpt. cbv iota in Hpt.
  pose proof (num_of_prim _ _ Hs) as Hps.
  unfold cast_int_spec, rounded.
  destruct (ty_eqb src tgt) eqn:Eq.
  { (* same type: convert returns the value *)
    apply ty_eqb_eq in Eq. subst tgt. unfold cast, convert, convert_r. rewrite ty_eqb_refl.
    rewrite Hs in Ht. injection Ht as ->. unfold well_typed in Hv. rewrite Hs in Hv.
    destruct v as [n | f | f]; try contradiction.
    cbn [valR finite_val val_class]. rewrite ZnearestA_IZR, Hv. reflexivity. }
  assert (Hne : src <> tgt) by (intros ->; rewrite ty_eqb_refl in Eq; discriminate).
  pose proof (cfg_ok_pair cfg src tgt _ _ Hok Hs Ht Hne) as Hp.
  unfold pair_ok in Hp. rewrite Hs, Ht in Hp.
  unfold well_typed in Hv. rewrite Hs in Hv.
  unfold cast, convert, convert_r, explicit, explicit_r. rewrite Eq, Hpt, Hps.
  destruct ks as [ss sb | | ].
  - (* integer source *)
    destruct v as [n | f | f]; try contradiction.
    pose proof (num_of_int_bits _ _ _ Hs) as Hsb.
    cbn [valR finite_val val_class andb]. rewrite ZnearestA_IZR.
    assert (Hmacro : int_macro cfg (VInt n) (PInt ss sb) (PInt ts tb) tgt =
                     if in_range ts tb n then Res tgt (VInt n) else Empty)
      by (apply int_macro_int; [apply P | apply P | apply P | assumption | assumption | assumption]).
    pose proof (proj1 (in_range_iff _ _ _) Hv) as Hn.
    destruct (lookup (c_convert cfg) src tgt) as [[ | | | ]|] eqn:Lc.
    + (* RAs, widening *)
      apply andb_true_iff in Hp as [Hp _]. apply andb_true_iff in Hp as [H1 H2].
      apply Z.leb_le in H1. apply Z.leb_le in H2.
      assert (Hr : in_range ts tb n = true) by (apply in_range_iff; lia).
      cbn [as_cast]. rewrite wrap_id by (lia || assumption). rewrite Hr. reflexivity.
    + (* RTry *)
      destruct (in_range ts tb n) eqn:Hr; [reflexivity|].
      destruct (lookup (c_cast cfg) src tgt) as [[[]| | | | | ]|]; try discriminate; try reflexivity.
      cbn [eval_arg]. rewrite Hmacro. reflexivity.
    + (* RNonNeg *)
      apply andb_true_iff in Hp as [Hp Hx]. apply andb_true_iff in Hp as [H1 H2].
      apply Z.eqb_eq in H1. apply Z.leb_le in H2.
      destruct (n <? 0) eqn:Hneg.
      * apply Z.ltb_lt in Hneg.
        assert (Hr : in_range ts tb n = false).
        { destruct (in_range ts tb n) eqn:Hr; [|reflexivity]. apply in_range_iff in Hr. lia. }
        rewrite Hr.
        destruct (lookup (c_cast cfg) src tgt) as [[[]| | | | | ]|]; try discriminate; try reflexivity.
        cbn [eval_arg]. rewrite Hmacro, Hr. reflexivity.
      * apply Z.ltb_ge in Hneg.
        assert (Hr : in_range ts tb n = true) by (apply in_range_iff; lia).
        cbn [as_cast]. rewrite wrap_id by (lia || assumption). rewrite Hr. reflexivity.
    + discriminate.
    + (* no implicit arm: cast_to_integer! *)
      destruct (lookup (c_cast cfg) src tgt) as [[[]| | | | | ]|]; try discriminate.
      cbn [eval_arg]. rewrite Hmacro. reflexivity.
  - (* Float source *)
    destruct v as [n | f | f]; try contradiction.
    destruct (lookup (c_convert cfg) src tgt); [discriminate|].
    destruct (lookup (c_cast cfg) src tgt) as [[| [] | | | | ]|]; try discriminate.
    rewrite (p_plus _ P) in Hp. apply bounds_exact_spec in Hp as [B1 B2].
    cbn [eval_arg float_macro]. rewrite (p_flo _ P), (p_fhi _ P), (p_plus _ P).
    rewrite (f_macro_correct 24 128 _ _ f B1 B2).
    unfold finite_val. cbn [valR val_class]. rewrite finite_val_f. unfold in_range.
    rewrite andb_assoc. destruct (is_finite f && _ && _); reflexivity.
  - (* Double source *)
    destruct v as [n | f | f]; try contradiction.
    destruct (lookup (c_convert cfg) src tgt); [discriminate|].
    destruct (lookup (c_cast cfg) src tgt) as [[| [] | | | | ]|]; try discriminate.
    rewrite (p_plus _ P) in Hp. apply bounds_exact_spec in Hp as [B1 B2].
    cbn [eval_arg float_macro]. rewrite (p_flo _ P), (p_fhi _ P), (p_plus _ P).
    rewrite (f_macro_correct 53 1024 _ _ f B1 B2).
    unfold finite_val. cbn [valR val_class]. rewrite finite_val_f. unfold in_range.
    rewrite andb_assoc. destruct (is_finite f && _ && _); reflexivity.
Qed.

(* ---- implicit conversion --------------------------------------------------------------------------- *)

(* w denotes the same number as v: exactly for an integer target, the nearest representable
   (ties to even) for a float target *)
Definition denotes (kt : num) (w v : val) : Prop :=
  match kt with
  | NInt _ _ => valR w = valR v
  | NF32 => valR w = round radix2 (FLT_exp (-149) 24) ZnearestE (valR v)
  | NF64 => valR w = round radix2 (FLT_exp (-1074) 53) ZnearestE (valR v)
  end.

(* the largest finite value of a float format; |v| <= fmax: v is inside the target's range *)
Definition fmax (kt : num) : R :=
  match kt with
  | NF32 => IZR (2 ^ 24 - 1) * bpow radix2 104
  | NF64 => IZR (2 ^ 53 - 1) * bpow radix2 971
  | NInt _ _ => 0
  end.
Definition in_float_range (kt : num) (v : val) : Prop :=
  match kt with NInt _ _ => True | _ => (Rabs (valR v) <= fmax kt)%R end.

Lemma fmax32_eq : fmax NF32 = (bpow radix2 128 - bpow radix2 104)%R.
Proof.
  unfold fmax. rewrite minus_IZR. rewrite (IZR_pow2 24) by lia.
  rewrite Rmult_minus_distr_r. rewrite <- bpow_plus. rewrite Rmult_1_l. reflexivity.
Qed.
Lemma fmax64_eq : fmax NF64 = (bpow radix2 1024 - bpow radix2 971)%R.
Proof.
  unfold fmax. rewrite minus_IZR. rewrite (IZR_pow2 53) by lia.
  rewrite Rmult_minus_distr_r. rewrite <- bpow_plus. rewrite Rmult_1_l. reflexivity.
Qed.

Lemma int_in_fmax : forall n kt, Z.abs n <= 2 ^ 64 -> kt = NF32 \/ kt = NF64 -> (Rabs (IZR n) <= fmax kt)%R.
Proof.
  intros n kt Hn Hk. rewrite <- abs_IZR.
  apply Rle_trans with (IZR (2 ^ 64)); [apply IZR_le; exact Hn|].
  rewrite (IZR_pow2 64) by lia.
  destruct Hk as [-> | ->]; unfold fmax.
  - apply Rle_trans with (1 * bpow radix2 104)%R.
    + rewrite Rmult_1_l. apply bpow_le. lia.
    + apply Rmult_le_compat_r; [apply bpow_ge_0|]. apply IZR_le. lia.
  - apply Rle_trans with (1 * bpow radix2 971)%R.
    + rewrite Rmult_1_l. apply bpow_le. lia.
    + apply Rmult_le_compat_r; [apply bpow_ge_0|]. apply IZR_le. lia.
Qed.

Lemma f32_in_fmax32 : forall f : f32, (Rabs (B2R f) <= fmax NF32)%R.
Proof. intros f. rewrite fmax32_eq. apply (abs_B2R_le_emax_minus_prec 24 128 prec32). Qed.
Lemma f64_in_fmax64 : forall f : f64, (Rabs (B2R f) <= fmax NF64)%R.
Proof. intros f. rewrite fmax64_eq. apply (abs_B2R_le_emax_minus_prec 53 1024 prec64). Qed.
Lemma f32_in_fmax64 : forall f : f32, (Rabs (B2R f) <= fmax NF64)%R.
Proof.
  intros f. apply Rle_trans with (bpow radix2 128).
  - apply Rlt_le. apply (abs_B2R_lt_emax 24 128).
  - unfold fmax. apply Rle_trans with (1 * bpow radix2 971)%R.
    + rewrite Rmult_1_l. apply bpow_le. lia.
    + apply Rmult_le_compat_r; [apply bpow_ge_0|]. apply IZR_le. lia.
Qed.

Lemma f_class_finite : forall prec emax (f : binary_float prec emax),
  is_finite f = true -> f_class f = CFinite.
Proof. intros prec emax [s | s | | s m e Hb]; cbn; congruence. Qed.

Theorem convert_correct : forall cfg src tgt ks kt v,
  cfg_ok cfg = true -> num_of src = Some ks -> num_of tgt = Some kt -> well_typed src v ->
  match convert cfg src tgt v with
  | Res t w => t = tgt /\ well_typed tgt w /\ val_class w = val_class v /\
               (finite_val v = true -> denotes kt w v /\ in_float_range kt v)
  | Empty => match kt with NInt _ _ => True | NF32 => ks = NF64 | NF64 => False end
  | Unmodelled => False
  end.
Proof.
  intros cfg src tgt ks kt v Hok Hs Ht Hv.
  pose proof (num_of_prim _ _ Ht) as Hpt.
  destruct (ty_eqb src tgt) eqn:Eq.
  { apply ty_eqb_eq in Eq. subst tgt. unfold convert, convert_r. rewrite ty_eqb_refl.
    rewrite Hs in Ht. injection Ht as <-.
    split; [reflexivity|]. split; [assumption|]. split; [reflexivity|]. intros _.
    unfold well_typed in Hv. rewrite Hs in Hv.
    destruct ks as [ss sb | | ]; destruct v as [n | f | f]; try contradiction; cbn [denotes in_float_range valR].
    - split; [reflexivity | exact I].
    - split; [|apply f32_in_fmax32].
      symmetry. apply round_generic; [apply valid_rnd_N | apply (generic_format_B2R 24 128)].
    - split; [|apply f64_in_fmax64].
      symmetry. apply round_generic; [apply valid_rnd_N | apply (generic_format_B2R 53 1024)]. }
  assert (Hne : src <> tgt) by (intros ->; rewrite ty_eqb_refl in Eq; discriminate).
  pose proof (cfg_ok_pair cfg src tgt _ _ Hok Hs Ht Hne) as Hp.
  unfold pair_ok in Hp. rewrite Hs, Ht in Hp.
  unfold well_typed in Hv. rewrite Hs in Hv.
  unfold convert, convert_r. rewrite Eq, Hpt.
  destruct ks as [ss sb | | ]; destruct v as [n | f | f]; try contradiction.
  - (* integer source *)
    pose proof (num_of_int_bits _ _ _ Hs) as Hsb.
    pose proof (proj1 (in_range_iff _ _ _) Hv) as Hn.
    destruct kt as [ts tb | | ].
    + pose proof (num_of_int_bits _ _ _ Ht) as Htb.
      destruct (lookup (c_convert cfg) src tgt) as [[ | | | ]|] eqn:Lc; try exact I; try discriminate.
      * apply andb_true_iff in Hp as [Hp _]. apply andb_true_iff in Hp as [H1 H2].
        apply Z.leb_le in H1. apply Z.leb_le in H2.
        assert (Hr : in_range ts tb n = true) by (apply in_range_iff; lia).
        cbn [as_cast]. rewrite wrap_id by (lia || assumption).
        unfold well_typed. rewrite Ht. repeat split; try assumption.
      * destruct (in_range ts tb n) eqn:Hr; [|exact I].
        unfold well_typed. rewrite Ht. repeat split; try assumption.
      * apply andb_true_iff in Hp as [Hp Hx]. apply andb_true_iff in Hp as [H1 H2].
        apply Z.eqb_eq in H1. apply Z.leb_le in H2.
        destruct (n <? 0) eqn:Hneg; [exact I|]. apply Z.ltb_ge in Hneg.
        assert (Hr : in_range ts tb n = true) by (apply in_range_iff; lia).
        cbn [as_cast]. rewrite wrap_id by (lia || assumption).
        unfold well_typed. rewrite Ht. repeat split; try assumption.
    + destruct (lookup (c_convert cfg) src tgt) as [[ | | | ]|]; try discriminate.
      cbn [as_cast].
      destruct (range_in_64 ss sb Hsb) as [R1 R2].
      destruct (f_of_Z_correct 24 128 ltac:(lia) n ltac:(lia)) as [Hr Hf].
      unfold well_typed. rewrite Ht. cbn [val_class]. rewrite (f_class_finite _ _ _ Hf).
      repeat split. cbn [denotes valR]. exact Hr. cbn [in_float_range valR]. apply int_in_fmax; [lia | tauto].
    + destruct (lookup (c_convert cfg) src tgt) as [[ | | | ]|]; try discriminate.
      cbn [as_cast].
      destruct (range_in_64 ss sb Hsb) as [R1 R2].
      destruct (f_of_Z_correct 53 1024 ltac:(lia) n ltac:(lia)) as [Hr Hf].
      unfold well_typed. rewrite Ht. cbn [val_class]. rewrite (f_class_finite _ _ _ Hf).
      repeat split. cbn [denotes valR]. exact Hr. cbn [in_float_range valR]. apply int_in_fmax; [lia | tauto].
  - (* Float source *)
    destruct kt as [ts tb | | ].
    + destruct (lookup (c_convert cfg) src tgt); [discriminate | exact I].
    + discriminate.
    + destruct (lookup (c_convert cfg) src tgt) as [[ | | | ]|]; try discriminate.
      cbn [as_cast]. destruct (f32_to_f64_correct f) as [Hr Hc].
      unfold well_typed. rewrite Ht. cbn [val_class]. repeat split; [exact Hc | | ].
      * cbn [denotes valR]. rewrite Hr. symmetry.
        apply round_generic; [apply valid_rnd_N | apply f32_in_f64].
      * cbn [in_float_range valR]. apply f32_in_fmax64.
  - (* Double source *)
    destruct kt as [ts tb | | ].
    + destruct (lookup (c_convert cfg) src tgt); [discriminate | exact I].
    + destruct (lookup (c_convert cfg) src tgt); [discriminate | reflexivity].
    + discriminate.
Qed.

(* a value outside the range of an integer target yields no result *)
Theorem convert_out_of_range : forall cfg src tgt ks ts tb v,
  cfg_ok cfg = true -> num_of src = Some ks -> num_of tgt = Some (NInt ts tb) -> well_typed src v ->
  finite_val v = true ->
  (valR v < IZR (pmin ts tb) \/ IZR (pmax ts tb) < valR v)%R ->
  convert cfg src tgt v = Empty.
Proof.
  intros cfg src tgt ks ts tb v Hok Hs Ht Hv Hf Hout.
  pose proof (convert_correct cfg src tgt ks _ v Hok Hs Ht Hv) as H.
  destruct (convert cfg src tgt v) as [t w | | ]; [exfalso | reflexivity | contradiction].
  destruct H as (_ & Hw & _ & Hd). destruct (Hd Hf) as [Hd' _]. clear Hd. rename Hd' into Hd. cbn [denotes] in Hd.
  unfold well_typed in Hw. rewrite Ht in Hw. destruct w as [k | f | f]; try contradiction.
  apply in_range_iff in Hw. cbn [valR] in Hd. rewrite <- Hd in Hout.
  destruct Hout as [Ho | Ho]; apply lt_IZR in Ho; lia.
Qed.

(* ---- explicit cast to a float type ------------------------------------------------------------------ *)

Lemma fmax32_format : generic_format radix2 (FLT_exp (-149) 24) (fmax NF32).
Proof.
  apply generic_format_FLT. exists (Float radix2 (2 ^ 24 - 1) 104).
  - reflexivity.
  - cbn. lia.
  - cbn. lia.
Qed.

Lemma fmax32_lt : (fmax NF32 < bpow radix2 128)%R.
Proof. rewrite fmax32_eq. pose proof (bpow_gt_0 radix2 104). lra. Qed.

(* every numeric value can be cast to a float type; the result is the nearest representable value
   when the source is inside the target's range (only Double -> Float can be outside: it then
   rounds like `as f32`, to an infinity) *)
Theorem cast_to_float_correct : forall cfg src tgt ks kt v,
  cfg_ok cfg = true -> num_of src = Some ks -> num_of tgt = Some kt -> kt = NF32 \/ kt = NF64 ->
  well_typed src v ->
  exists w, cast cfg src tgt v = Res tgt w /\ well_typed tgt w /\
    (finite_val v = false -> val_class w = val_class v) /\
    (finite_val v = true -> in_float_range kt v -> val_class w = CFinite /\ denotes kt w v).
Proof.
  intros cfg src tgt ks kt v Hok Hs Ht Hk Hv.
  pose proof (convert_correct cfg src tgt ks kt v Hok Hs Ht Hv) as H. unfold cast.
  destruct (convert cfg src tgt v) as [t w | | ] eqn:Ec.
  - destruct H as (-> & Hw & Hc & Hd). exists w.
    split; [reflexivity|]. split; [exact Hw|]. split.
    + intros _. exact Hc.
    + intros Hf _. split; [|apply Hd; exact Hf].
      rewrite Hc. unfold finite_val in Hf. destruct (val_class v); try discriminate; reflexivity.
  - destruct kt as [ts tb | | ]; [destruct Hk; discriminate | | contradiction]. subst ks.
    assert (Hne : src <> tgt) by (intros ->; rewrite Hs in Ht; discriminate).
    pose proof (cfg_ok_pair cfg src tgt _ _ Hok Hs Ht Hne) as Hp.
    unfold pair_ok in Hp. rewrite Hs, Ht in Hp.
    unfold explicit, explicit_r. rewrite (num_of_prim _ _ Hs), (num_of_prim _ _ Ht).
    destruct (lookup (c_convert cfg) src tgt); [discriminate|].
    destruct (lookup (c_cast cfg) src tgt) as [[ | | | | | ]|]; try discriminate.
    unfold well_typed in Hv. rewrite Hs in Hv. destruct v as [n | f | f]; try contradiction.
    cbn [as_cast]. exists (VF32 (f64_to_f32 f)).
    split; [reflexivity|]. split; [unfold well_typed; rewrite Ht; exact I|]. split.
    + unfold finite_val. cbn [val_class]. destruct f as [s | s | | s m e Hb]; cbn; try discriminate; reflexivity.
    + unfold finite_val. cbn [val_class in_float_range valR denotes]. rewrite finite_val_f. intros Hf Hr.
      assert (Hlt : (Rabs (round radix2 (FLT_exp (-149) 24) ZnearestE (B2R f)) < bpow radix2 128)%R).
      { apply Rle_lt_trans with (fmax NF32); [|apply fmax32_lt].
        apply abs_round_le_generic; [apply FLT_exp_valid; exact prec32 | apply valid_rnd_N | apply fmax32_format | exact Hr]. }
      destruct (f64_to_f32_correct f Hf Hlt) as [R1 R2].
      split; [apply f_class_finite; exact R2 | exact R1].
  - contradiction.
Qed.
