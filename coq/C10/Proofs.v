From Coq Require Import List ZArith Bool Lia.
Import ListNotations.
From OV Require Import C10.Model.
Open Scope Z_scope.

Definition legacy_witness := mk_case 3 0 [Chunk 0 40 2 false; Chunk 0 40 3 false; Chunk 0 40 4 false; Chunk 0 40 5 false].
Lemma legacy_transport_refuted :
  oracle legacy_witness (render (Legacy.trace_transport (mk_lim 3 0) init (c_frames legacy_witness))) = false.
Proof. vm_compute. reflexivity. Qed.
