(* C25 — Data change filters report exactly the changes they describe.  Statements only. *)
From Coq Require Import List ZArith Bool.
Import ListNotations.
From OV Require Import C25.Model.
Open Scope Z_scope.

Theorem C25_placeholder : run (mk_case (mk_filter 1 2 0) []) = [-1].
Proof. vm_compute. reflexivity. Qed.
Print Assumptions C25_placeholder.
