(* recv (apply_security chunk) = chunk, and the size bound, for a linked sender / receiver pair;
   generic in the external primitives under the laws collected in [link]. *)
From Coq Require Import List ZArith Bool Lia.
Import ListNotations.
From OV Require Import C07.Chan C07.Lemmas C07.ChanProofs.
Open Scope Z_scope.

Ltac Zify.zify_post_hook ::= Z.div_mod_to_equations.

(* what ties a sending channel to the receiving channel at the other end, and the laws of the
   primitives for the keys the two ends use *)
Record link (P : prims) (S : sender) (R : receiver) : Prop := {
  lk_policy : r_policy R = s_policy S;
  lk_mode : r_mode R = s_mode S;
  (* policy None goes with mode None, any other policy with Sign or SignAndEncrypt *)
  lk_combo : (s_policy S = PNone /\ s_mode S = MNone) \/
             (s_policy S <> PNone /\ (s_mode S = MSign \/ s_mode S = MSignEnc));
  lk_chan : 0 <= s_chan S < U32;
  lk_token : 0 <= s_token S < U32;
  lk_rchan : r_chan R = s_chan S \/ r_chan R = 0;
  lk_lim_s : 100 <= lim_string (r_limits R);
  lk_lim_b : src_max_cert <= lim_bstring (r_limits R);
  lk_utf8 : forall p, p_utf8 P (src_uri p) = true;
  (* HMAC output length; AES-CBC without padding is length preserving and invertible *)
  lk_mac_len : s_policy S <> PNone -> forall k d, len (p_mac P (s_policy S) k d) = src_sym_sig (s_policy S);
  lk_aes : forall d, p_aes_dec P (s_enckey S) (p_aes_enc P (s_enckey S) d) = d;
  lk_aes_len : forall d, len (p_aes_enc P (s_enckey S) d) = len d;
  (* the receiver verifies / decrypts with the keys the sender signs / encrypts with *)
  lk_keys : s_policy S <> PNone -> r_verkey R = Some (s_sigkey S, s_enckey S);
  (* the sender's certificate carries the public half of its key; the receiver owns the key
     pair the sender encrypts to *)
  lk_cert : s_policy S <> PNone -> p_cert_key P (s_cert S) = Some (s_key S, s_ks S);
  lk_thumb : s_policy S <> PNone ->
             exists th, s_rthumb S = Some th /\ r_thumb R = Some th /\ len th = src_thumb;
  lk_pkey : s_policy S <> PNone -> r_pkey R = Some (s_rkey S, s_rks S) /\ r_cert_ks R = Some (s_rks S);
  (* key sizes within the policy's range *)
  lk_ks : key_ok (s_policy S) (s_ks S) = true /\ key_ok (s_policy S) (s_rks S) = true;
  lk_certlen : s_policy S <> PNone -> s_ks S < len (s_cert S) <= 4000;
  (* one RSA block: cipher text has the key size, decryption inverts encryption *)
  lk_rsa : s_policy S <> PNone -> forall blk, len blk <= rsa_plain_block (s_policy S) (s_rks S) ->
           len (p_rsa_enc P (s_rkey S) (s_policy S) blk) = s_rks S /\
           p_rsa_dec P (s_rkey S) (s_policy S) (p_rsa_enc P (s_rkey S) (s_policy S) blk) = Some blk;
  (* an RSA signature has the key size and verifies under the same key pair *)
  lk_asign : s_policy S <> PNone -> forall d,
           len (p_asign P (s_key S) (s_policy S) d) = s_ks S /\
           p_averify P (s_key S) (s_policy S) d (p_asign P (s_key S) (s_policy S) d) = true
}.

Lemma len_src_uri p : 40 <= len (src_uri p) <= 70.
Proof. destruct p; vm_compute; split; discriminate. Qed.

Lemma sym_sig_vals p : p <> PNone -> (src_sym_sig p = 20 \/ src_sym_sig p = 32) /\ src_sym_block p = 16.
Proof. destruct p; intro H; try congruence; cbn; lia. Qed.

(* RSA geometry for an in-range key: plain block = key size - overhead, at least 2/3 of the key *)
Lemma rsa_geometry p ks : p <> PNone -> key_ok p ks = true ->
  128 <= ks <= 512 /\ 62 <= rsa_plain_block p ks /\ rsa_plain_block p ks < ks /\ 2 * ks <= 3 * rsa_plain_block p ks.
Proof.
  unfold key_ok, rsa_plain_block. destruct p; intros Hp H; try congruence;
    cbn [is_none orb src_key_min_bits src_key_max_bits src_rsa_overhead] in *;
    apply andb_true_iff in H as [H1 H2]; apply Z.leb_le in H1, H2; lia.
Qed.

Lemma Ok_inj {A} (a b : A) : Ok a = Ok b -> b = a.
Proof. congruence. Qed.

Section Link.
  Variable P : prims.
  Variable fx : fixes.
  Hypothesis Hfx1 : fx_pad_sign fx = true.
  Variables (S : sender) (R : receiver).
  Hypothesis L : link P S R.

  Variables (t : mtype) (fin seq req : Z) (body : bytes).
  Hypothesis Hfin : fin = 0 \/ fin = 1 \/ fin = 2.
  Hypothesis Hseq : 0 <= seq < U32.
  Hypothesis Hreq : 0 <= req < U32.
  Hypothesis Hbody : len body <= 1073741824.

  Let sh := sec_header S t.
  Let SQ := le32 seq ++ le32 req.
  Let plain := new_chunk S t fin seq req body.

  Lemma len_sh : 4 <= len sh <= 4200.
  Proof.
    unfold sh, sec_header. destruct t; try (rewrite len_le32; lia).
    pose proof (len_src_uri PNone). pose proof (len_src_uri (s_policy S)).
    destruct (is_none (s_policy S)) eqn:E.
    - rewrite !len_app, len_bstr. change (len bnull) with 4. lia.
    - assert (Hp : s_policy S <> PNone) by (intro X; rewrite X in E; discriminate).
      destruct (lk_thumb _ _ _ L Hp) as (th & E1 & _ & E3). pose proof (lk_certlen _ _ _ L Hp).
      rewrite E1. cbn [bopt]. rewrite !len_app, !len_bstr, E3. pose proof (len_nonneg (s_cert S)).
      change src_thumb with 20. lia.
  Qed.

  Lemma plain_eq : plain = enc_hdr t fin (12 + len sh + 8 + len body) (s_chan S) ++ sh ++ SQ ++ body.
  Proof. unfold plain, new_chunk, SQ. fold sh. rewrite <- !app_assoc. reflexivity. Qed.

  Lemma len_SQ : len SQ = 8.
  Proof. reflexivity. Qed.
  Lemma len_plain : len plain = 12 + len sh + 8 + len body.
  Proof. rewrite plain_eq, !len_app, len_enc_hdr, len_SQ. lia. Qed.

  (* ---------- chunk_info of a plain chunk ---------- *)
  Lemma parse_sechdr_plain rest :
    (match t with OPN => parse_asym P (r_limits R) (sh ++ rest) | _ => parse_sym (sh ++ rest) end) =
    Ok (match t with
        | OPN => if is_none (s_policy S) then Asym (Some (src_uri PNone)) None None
                 else Asym (Some (src_uri (s_policy S))) (Some (s_cert S)) (s_rthumb S)
        | _ => Sym (s_token S)
        end, rest).
  Proof.
    pose proof (lk_lim_s _ _ _ L) as Hls. pose proof (lk_lim_b _ _ _ L) as Hlb.
    unfold sh, sec_header. destruct t; try (apply parse_sym_le32; apply (lk_token _ _ _ L)).
    unfold parse_asym. destruct (is_none (s_policy S)) eqn:E.
    - rewrite <- !app_assoc. pose proof (len_src_uri PNone).
      rewrite parse_bstr_bstr by lia. cbn [bind]. rewrite (lk_utf8 _ _ _ L). cbn [negb].
      rewrite parse_bstr_null. cbn [bind]. rewrite parse_bstr_null. cbn [bind]. reflexivity.
    - assert (Hp : s_policy S <> PNone) by (intro X; rewrite X in E; discriminate).
      destruct (lk_thumb _ _ _ L Hp) as (th & E1 & _ & E3). pose proof (lk_certlen _ _ _ L Hp) as Hc.
      pose proof (len_src_uri (s_policy S)). pose proof (len_nonneg (s_cert S)).
      rewrite <- !app_assoc. rewrite parse_bstr_bstr by lia. cbn [bind]. rewrite (lk_utf8 _ _ _ L). cbn [negb].
      rewrite parse_bstr_bstr by (change src_max_cert with 32767 in Hlb; lia). cbn [bind].
      rewrite E1. cbn [bopt]. rewrite parse_bstr_bstr by (change src_thumb with 20 in E3; change src_max_cert with 32767 in Hlb; lia).
      cbn [bind]. destruct (Z.leb_spec src_max_cert (len (s_cert S))); [change src_max_cert with 32767 in *; lia|].
      rewrite E3. cbn. reflexivity.
  Qed.

  Definition sec_of : sechdr :=
    match t with
    | OPN => if is_none (s_policy S) then Asym (Some (src_uri PNone)) None None
             else Asym (Some (src_uri (s_policy S))) (Some (s_cert S)) (s_rthumb S)
    | _ => Sym (s_token S)
    end.

  Lemma len_plain_u32 : 0 <= len plain < U32.
  Proof. rewrite len_plain. pose proof len_sh. pose proof (len_nonneg body). unfold U32. lia. Qed.

  Lemma chunk_info_plain :
    chunk_info P (r_limits R) plain =
    Ok {| i_hdr := {| h_type := t; h_final := fin; h_size := len plain; h_chan := s_chan S |};
          i_sec := sec_of; i_seq := seq; i_req := req;
          i_seq_off := 12 + len sh; i_body_off := 12 + len sh + 8; i_body := body |}.
  Proof.
    pose proof len_plain_u32 as Hu. pose proof len_plain as Hl.
    unfold chunk_info. rewrite plain_eq at 1.
    rewrite parse_hdr_enc by (try assumption; try apply (lk_chan _ _ _ L); rewrite <- Hl; exact Hu).
    cbn [bind h_type].
    pose proof (parse_sechdr_plain (SQ ++ body)) as Hs. fold sec_of in Hs.
    assert (Hsec : (match t with
      | OPN => match parse_asym P (r_limits R) (sh ++ SQ ++ body) with
               | Ok (Asym uri cert thumb, b1) =>
                   match uri with
                   | None => Ok (Asym uri cert thumb, b1)
                   | Some u => match policy_of_uri u with Some _ => Ok (Asym uri cert thumb, b1) | None => Err E_SEC end
                   end
               | Ok (Sym _, _) => Err E_DEC
               | Err _ => Err E_DEC
               | Panic s => Panic s
               end
      | _ => match parse_sym (sh ++ SQ ++ body) with Ok x => Ok x | Err _ => Err E_DEC | Panic s => Panic s end
      end) = Ok (sec_of, SQ ++ body)).
    { unfold sec_of in *. destruct t; rewrite Hs; try reflexivity.
      destruct (is_none (s_policy S)); rewrite policy_of_uri_src; reflexivity. }
    rewrite Hsec. cbn [bind]. unfold SQ, le32. cbn [app].
    rewrite !rd32_le32 by assumption.
    f_equal. f_equal.
    - rewrite Hl. fold sh. reflexivity.
    - rewrite !len_cons. rewrite Hl. lia.
    - rewrite Hl. lia.
  Qed.

  (* ---------- not secured: policy None ---------- *)
  Lemma recv_unsecured : s_policy S = PNone ->
    apply_security P fx S t plain = Ok plain /\ recv P fx R plain = (Ok plain, r_policy R).
  Proof.
    intro Hp. destruct (lk_combo _ _ _ L) as [[_ Hm]|[Hn _]]; [|congruence].
    pose proof len_plain_u32 as Hu. pose proof len_plain as Hl.
    split.
    - unfold apply_security, secured. rewrite Hp. reflexivity.
    - unfold recv. rewrite plain_eq at 1.
      rewrite parse_hdr_enc by (try assumption; try apply (lk_chan _ _ _ L); rewrite <- Hl; exact Hu).
      cbn [h_type h_size].
      rewrite (parse_sechdr_plain (SQ ++ body)).
      rewrite <- Hl, Z.eqb_refl. cbn [negb].
      destruct t; cbn [is_none]; rewrite ?Hp; cbn [is_none];
        try (unfold recv_sym, secured; rewrite (lk_policy _ _ _ L), Hp; reflexivity).
  Qed.

  (* the chunk with its size field set to [n] and [tail] appended behind the body *)
  Let framed (n : Z) (tail : bytes) : bytes := enc_hdr t fin n (s_chan S) ++ sh ++ SQ ++ body ++ tail.

  Lemma framed_nil : framed (len plain) [] = plain.
  Proof. unfold framed. rewrite app_nil_r, len_plain, plain_eq. reflexivity. Qed.
  Lemma len_framed n tail : len (framed n tail) = len plain + len tail.
  Proof. unfold framed. rewrite !len_app, len_enc_hdr, len_SQ, len_plain. lia. Qed.
  Lemma framed_app n a b : framed n (a ++ b) = framed n a ++ b.
  Proof. unfold framed. rewrite <- !app_assoc. reflexivity. Qed.
  Lemma set_size_framed n m tail : set_size (framed n tail) m = framed m tail.
  Proof. apply set_size_enc. Qed.
  Lemma plain_framed : plain = framed (len plain) [].
  Proof. symmetry. apply framed_nil. Qed.
  Lemma set_size_plain_app tail m : set_size (plain ++ tail) m = framed m [] ++ tail.
  Proof. rewrite plain_eq. unfold framed. rewrite <- !app_assoc. cbn [app]. apply set_size_enc. Qed.

  (* parsing the front of a secured symmetric chunk *)
  Lemma parse_framed n tail : 0 <= n < U32 ->
    parse_hdr (framed n tail) = Ok ({| h_type := t; h_final := fin; h_size := n; h_chan := s_chan S |}, sh ++ SQ ++ body ++ tail).
  Proof. intro Hn. unfold framed. apply parse_hdr_enc; try assumption. apply (lk_chan _ _ _ L). Qed.


  (* ---------- symmetric chunks (MSG, CLO) on a secured channel ---------- *)
  Section Sym.
    Hypothesis Hp : s_policy S <> PNone.
    Hypothesis Ht : t <> OPN.
    Let ss := src_sym_sig (s_policy S).

    Lemma sh_sym : sh = le32 (s_token S).
    Proof. unfold sh, sec_header. destruct t; congruence. Qed.
    Lemma secured_S : secured (s_policy S) (s_mode S) = true.
    Proof.
      destruct (lk_combo _ _ _ L) as [[E _]|[_ [E|E]]]; [congruence| |]; unfold secured; rewrite E;
        destruct (s_policy S); try congruence; reflexivity.
    Qed.
    Lemma is_none_S : is_none (s_policy S) = false.
    Proof. destruct (s_policy S); try congruence; reflexivity. Qed.

    Lemma apply_sign : s_mode S = MSign ->
      apply_security P fx S t plain =
      Ok (framed (len plain + ss) [] ++ p_mac P (s_policy S) (s_sigkey S) (framed (len plain + ss) [])).
    Proof.
      intro Hm. pose proof (sym_sig_vals _ Hp) as [Hss _]. fold ss in Hss.
      unfold apply_security. rewrite secured_S.
      assert (Hpad : padding_size fx S t (len plain - (src_chunk_header + len (sec_header S t)) - 8) (signature_size S t) = Some (0, 0)).
      { unfold padding_size. rewrite is_none_S, Hm, Hfx1. destruct t; try congruence; reflexivity. }
      rewrite Hpad. change (padding_bytes 0 0) with (@nil Z). cbn [app].
      assert (Hsg : signature_size S t = ss) by (unfold signature_size; destruct t; [reflexivity|congruence|reflexivity]).
      rewrite Hsg.
      rewrite set_size_plain_app. replace (len plain + 0 + ss) with (len plain + ss) by lia.
      rewrite len_app, len_framed, len_nil, len_rep by lia.
      replace (len plain + 0 + ss - src_sym_sig (s_policy S)) with (len plain + 0) by (fold ss; lia).
      fold ss.
      rewrite take_app_exact by (rewrite len_framed, len_nil; lia).
      rewrite (lk_mac_len _ _ _ L Hp). fold ss. rewrite Z.eqb_refl. cbn [negb].
      destruct t; try congruence; rewrite Hm; reflexivity.
    Qed.

    Lemma secured_R : secured (r_policy R) (r_mode R) = true.
    Proof. rewrite (lk_policy _ _ _ L), (lk_mode _ _ _ L). apply secured_S. Qed.

    Lemma len_sh_sym : len sh = 4.
    Proof. rewrite sh_sym. reflexivity. Qed.

    Lemma recv_sign : s_mode S = MSign ->
      forall sec, apply_security P fx S t plain = Ok sec -> recv P fx R sec = (Ok plain, r_policy R).
    Proof.
      intros Hm sec Hsec. rewrite (apply_sign Hm) in Hsec. injection Hsec as <-.
      pose proof (sym_sig_vals _ Hp) as [Hss _]. fold ss in Hss.
      pose proof len_plain_u32 as Hu. pose proof len_plain as Hl. pose proof len_sh_sym as Hsh.
      set (X := framed (len plain + ss) []). set (tag := p_mac P (s_policy S) (s_sigkey S) X).
      assert (Htag : len tag = ss) by apply (lk_mac_len _ _ _ L Hp).
      assert (HX : len X = len plain) by (unfold X; rewrite len_framed, len_nil; lia).
      assert (Hbig : len plain + ss < U32) by (rewrite Hl, Hsh; unfold U32; lia).
      assert (Hph : parse_hdr (X ++ tag) = Ok ({| h_type := t; h_final := fin; h_size := len plain + ss; h_chan := s_chan S |}, sh ++ SQ ++ body ++ tag)).
      { unfold X. rewrite <- framed_app. apply parse_framed. lia. }
      unfold recv, recv_sym. rewrite Hph. cbn [h_type h_size].
      assert (Hps : (match t with OPN => parse_asym P (r_limits R) (sh ++ SQ ++ body ++ tag) | _ => parse_sym (sh ++ SQ ++ body ++ tag) end)
                    = Ok (Sym (s_token S), SQ ++ body ++ tag)).
      { pose proof (parse_sechdr_plain (SQ ++ body ++ tag)) as H. destruct t; try congruence; exact H. }
      rewrite Hps. rewrite !len_app, HX, Htag.
      rewrite Z.eqb_refl. cbn [negb]. rewrite secured_R.
      rewrite (lk_policy _ _ _ L). fold ss.
      destruct (Z.ltb_spec (len plain + ss) ss); [lia|].
      rewrite (lk_keys _ _ _ L Hp). rewrite (lk_mode _ _ _ L), Hm.
      replace (len plain + ss - ss) with (len plain) by lia.
      rewrite take_app_exact by exact HX. rewrite drop_app_exact by exact HX.
      fold tag. rewrite bytes_eqb_refl. cbn [negb].
      unfold X. rewrite <- framed_app. rewrite set_size_framed, framed_app, take_app_exact.
      - rewrite framed_nil. reflexivity.
      - rewrite len_framed, len_nil. lia.
    Qed.

    (* SignAndEncrypt *)
    Let es := 8 + len body + ss + 1.
    Let pad := 1 + (if es mod 16 =? 0 then 0 else 16 - es mod 16).

    Lemma pad_facts : 1 <= pad <= 16 /\ (8 + len body + pad + ss) mod 16 = 0.
    Proof.
      pose proof (sym_sig_vals _ Hp) as [Hss _]. fold ss in Hss. pose proof (len_nonneg body).
      pose proof (padding_block 16 es ltac:(lia) ltac:(unfold es; lia)) as [H1 H2]. cbn zeta in H1, H2.
      unfold pad. split; [lia|]. replace (8 + len body + (1 + (if es mod 16 =? 0 then 0 else 16 - es mod 16)) + ss)
        with (es + (if es mod 16 =? 0 then 0 else 16 - es mod 16)) by (unfold es; lia). exact H1.
    Qed.

    Lemma apply_signenc : s_mode S = MSignEnc ->
      let X := framed (len plain + pad + ss) (padding_bytes pad 1) in
      let full := X ++ p_mac P (s_policy S) (s_sigkey S) X in
      apply_security P fx S t plain = Ok (take 16 full ++ p_aes_enc P (s_enckey S) (drop 16 full)).
    Proof.
      intros Hm X full. pose proof (sym_sig_vals _ Hp) as [Hss Hblk]. fold ss in Hss.
      pose proof pad_facts as [Hpd Hmod]. pose proof len_plain as Hl. pose proof len_sh_sym as Hsh.
      unfold apply_security. rewrite secured_S.
      assert (Hsg : signature_size S t = ss) by (unfold signature_size; destruct t; [reflexivity|congruence|reflexivity]).
      rewrite Hsg.
      assert (Hpad : padding_size fx S t (len plain - (src_chunk_header + len (sec_header S t)) - 8) ss = Some (pad, 1)).
      { unfold padding_size. rewrite is_none_S, Hm. cbn [mode_eqb orb negb andb].
        replace (match t with OPN => false | _ => fx_pad_sign fx && false end) with false by (destruct t; rewrite ?andb_false_r; reflexivity).
        replace (match t with OPN => (rsa_plain_block (s_policy S) (s_rks S), s_rks S) | _ => (src_sym_block (s_policy S), ss) end)
          with (16, ss) by (destruct t; try congruence; rewrite Hblk; reflexivity).
        cbn [Z.leb Z.compare]. unfold min_padding. destruct (Z.leb_spec ss 256); [|lia].
        fold sh. change src_chunk_header with 12. rewrite Hl.
        replace (8 + (12 + len sh + 8 + len body - (12 + len sh) - 8) + ss + 1) with es by (unfold es; lia).
        reflexivity. }
      rewrite Hpad.
      rewrite set_size_plain_app.
      assert (Hlp : len (padding_bytes pad 1) = pad) by (apply len_padding_bytes; lia).
      rewrite !len_app, len_framed, len_nil, Hlp, len_rep by lia.
      rewrite app_assoc. fold ss.
      replace (len plain + 0 + (pad + ss) - ss) with (len plain + 0 + pad) by lia.
      rewrite <- (framed_app _ [] (padding_bytes pad 1)). cbn [app]. fold X.
      rewrite take_app_exact by (unfold X; rewrite len_framed, Hlp; lia).
      rewrite (lk_mac_len _ _ _ L Hp). fold ss. rewrite Z.eqb_refl. cbn [negb].
      fold full.
      assert (HX : len X = len plain + pad) by (unfold X; rewrite len_framed, Hlp; lia).
      fold sh. change src_chunk_header with 12. rewrite HX, Hl, Hsh.
      replace (12 + 4 + 8 + len body + pad + ss - (12 + 4)) with (8 + len body + pad + ss) by lia.
      rewrite Hmod. cbn [Z.eqb].
      destruct t; try congruence; rewrite Hm; reflexivity.
    Qed.

    Lemma recv_signenc : s_mode S = MSignEnc ->
      forall sec, apply_security P fx S t plain = Ok sec ->
      recv P fx R sec = (Ok plain, r_policy R) /\ len sec = len plain + pad + ss.
    Proof.
      intros Hm sec Hsec. rewrite (apply_signenc Hm) in Hsec. injection Hsec as <-.
      pose proof (sym_sig_vals _ Hp) as [Hss _]. fold ss in Hss.
      pose proof pad_facts as [Hpd Hmod].
      pose proof len_plain_u32 as Hu. pose proof len_plain as Hl. pose proof len_sh_sym as Hsh.
      assert (Hlp : len (padding_bytes pad 1) = pad) by (apply len_padding_bytes; lia).
      set (N := len plain + pad + ss).
      set (X := framed N (padding_bytes pad 1)). set (tag := p_mac P (s_policy S) (s_sigkey S) X).
      set (full := X ++ tag).
      assert (Htag : len tag = ss) by apply (lk_mac_len _ _ _ L Hp).
      assert (HX : len X = len plain + pad) by (unfold X; rewrite len_framed, Hlp; lia).
      assert (Hfull : len full = N) by (unfold full, N; rewrite len_app, HX, Htag; lia).
      assert (Hbig : N < U32) by (unfold N; rewrite Hl, Hsh; unfold U32; lia).
      set (C := p_aes_enc P (s_enckey S) (drop 16 full)).
      assert (HC : len C = N - 16).
      { unfold C. rewrite (lk_aes_len _ _ _ L), len_drop by lia. lia. }
      (* the first 16 bytes are the chunk header and the token *)
      assert (H16 : take 16 full = enc_hdr t fin N (s_chan S) ++ sh).
      { unfold full, X, framed. rewrite !app_assoc. rewrite <- !app_assoc. rewrite app_assoc.
        apply take_app_exact. rewrite len_app, len_enc_hdr, Hsh. reflexivity. }
      assert (Hlen : len (take 16 full ++ C) = N).
      { rewrite len_app, HC, len_take by lia. lia. }
      split; [|exact Hlen].
      assert (Hph : parse_hdr (take 16 full ++ C) = Ok ({| h_type := t; h_final := fin; h_size := N; h_chan := s_chan S |}, sh ++ C)).
      { rewrite H16, <- app_assoc. apply parse_hdr_enc; try assumption; [lia|apply (lk_chan _ _ _ L)]. }
      unfold recv, recv_sym. rewrite Hph. cbn [h_type h_size].
      assert (Hps : (match t with OPN => parse_asym P (r_limits R) (sh ++ C) | _ => parse_sym (sh ++ C) end)
                    = Ok (Sym (s_token S), C)).
      { pose proof (parse_sechdr_plain C) as H. destruct t; try congruence; exact H. }
      rewrite Hps. rewrite Hlen, HC.
      rewrite Z.eqb_refl. cbn [negb]. rewrite secured_R.
      rewrite (lk_policy _ _ _ L). fold ss.
      destruct (Z.ltb_spec N ss); [unfold N in *; lia|].
      rewrite (lk_keys _ _ _ L Hp). rewrite (lk_mode _ _ _ L), Hm.
      replace (N - (N - 16)) with 16 by lia.
      replace ((N - 16) mod 16) with 0.
      2:{ symmetry. unfold N. rewrite Hl, Hsh. replace (12 + 4 + 8 + len body + pad + ss - 16) with (8 + len body + pad + ss) by lia. exact Hmod. }
      cbn [Z.eqb negb].
      (* decryption restores the signed chunk *)
      assert (Hdst : take 16 (take 16 full ++ C) ++ p_aes_dec P (s_enckey S) C = full).
      { rewrite take_app_exact by (rewrite len_take by lia; reflexivity).
        unfold C. rewrite (lk_aes _ _ _ L). apply take_drop. }
      rewrite Hdst.
      replace (N - ss) with (len X) by (unfold N; lia).
      unfold full at 1 2. rewrite take_app_exact, drop_app_exact by reflexivity.
      fold tag. rewrite bytes_eqb_refl. cbn [negb]. rewrite Hfx1.
      pose proof (len_nonneg body) as Hb0.
      destruct (Z.ltb_spec N (ss + 16 + 1)); [unfold N in *; lia|].
      (* the padding *)
      set (A := framed N []).
      assert (HA : len A = len plain) by (unfold A; rewrite len_framed, len_nil; lia).
      assert (Hfull2 : full = A ++ padding_bytes pad 1 ++ tag).
      { unfold full, X, A. rewrite app_assoc. rewrite <- (framed_app N [] (padding_bytes pad 1)). reflexivity. }
      assert (Hpb : padding_bytes pad 1 = rep pad (pad - 1)).
      { unfold padding_bytes. destruct (Z.leb_spec pad 0); [lia|]. cbn [Z.eqb Pos.eqb]. rewrite Z.mod_small by lia. reflexivity. }
      replace (len X) with (len A + pad) by lia.
      assert (Hn : nth (Z.to_nat (len A + pad - 1)) full 0 = pad - 1).
      { rewrite Hfull2, Hpb. apply nth_last_rep. lia. }
      rewrite Hn.
      destruct (Z.ltb_spec (len A + pad) (16 + (pad - 1 + 1))); [lia|].
      rewrite Hfull2 at 1. rewrite verify_padding_one by lia. cbn [bind].
      rewrite Hfull2. unfold A. rewrite <- framed_app, set_size_framed, framed_app.
      rewrite take_app_exact by (rewrite !len_framed; reflexivity).
      rewrite len_framed, len_nil, Z.add_0_r. rewrite framed_nil. reflexivity.
    Qed.
  End Sym.

  (* ---------- asymmetric chunks (OPN) on a secured channel ---------- *)
  Section Asym.
    Hypothesis Hp : s_policy S <> PNone.
    Hypothesis Ht : t = OPN.
    Let sks := s_ks S.
    Let rks := s_rks S.
    Let pbs := rsa_plain_block (s_policy S) rks.
    Let mp := min_padding rks.
    Let esA := 8 + len body + sks + mp.
    Let padA := mp + (if esA mod pbs =? 0 then 0 else pbs - esA mod pbs).
    Let hs := 12 + len sh.
    (* plain text that is encrypted: sequence header, body, padding, signature *)
    Let ptl := 8 + len body + padA + sks.
    Let cts := cipher_text_size pbs rks ptl.

    Lemma geo : 128 <= rks <= 512 /\ 62 <= pbs /\ pbs < rks /\ 2 * rks <= 3 * pbs /\ 128 <= sks <= 512.
    Proof.
      destruct (lk_ks _ _ _ L) as [H1 H2].
      pose proof (rsa_geometry _ _ Hp H2) as (A & B & C & D). pose proof (rsa_geometry _ _ Hp H1) as (E & _).
      unfold pbs, rks, sks. repeat split; lia.
    Qed.

    Lemma padA_facts : mp <= padA <= mp + pbs - 1 /\ ptl mod pbs = 0 /\ (mp = 1 \/ mp = 2) /\
                       (rks <= 256 -> mp = 1) /\ (256 < rks -> mp = 2).
    Proof.
      pose proof geo as (G1 & G2 & G3 & G4 & G5). pose proof (len_nonneg body).
      assert (Hmp : (mp = 1 \/ mp = 2) /\ (rks <= 256 -> mp = 1) /\ (256 < rks -> mp = 2)).
      { unfold mp, min_padding. destruct (Z.leb_spec rks 256); lia. }
      pose proof (padding_block pbs esA ltac:(lia) ltac:(unfold esA; lia)) as [H1 H2]. cbn zeta in H1, H2.
      unfold padA. repeat split; try lia; try tauto.
      replace ptl with (esA + (if esA mod pbs =? 0 then 0 else pbs - esA mod pbs)) by (unfold ptl, padA, esA; lia).
      exact H1.
    Qed.

    Lemma cts_facts : cts = ptl / pbs * rks /\ ptl <= cts /\ 2 * cts <= 3 * ptl /\ cts mod rks = 0.
    Proof.
      pose proof geo as (G1 & G2 & G3 & G4 & G5). pose proof padA_facts as (_ & Hm & _).
      unfold cts, cipher_text_size. rewrite Hm. cbn [Z.eqb].
      assert (Hq : ptl = ptl / pbs * pbs) by (pose proof (Z.div_mod ptl pbs); lia).
      assert (Hq0 : 0 <= ptl / pbs) by (apply Z.div_pos; unfold ptl, padA, mp, min_padding; pose proof (len_nonneg body); destruct (rks <=? 256); destruct (esA mod pbs =? 0); lia).
      repeat split; try nia. apply Z.mod_mul. lia.
    Qed.

    Lemma rsa_laws :
      (forall blk, len blk <= pbs -> len (p_rsa_enc P (s_rkey S) (s_policy S) blk) = rks) /\
      (forall blk, len blk <= pbs -> p_rsa_dec P (s_rkey S) (s_policy S) (p_rsa_enc P (s_rkey S) (s_policy S) blk) = Some blk).
    Proof. split; intros blk H; apply (lk_rsa _ _ _ L Hp blk H). Qed.
    Lemma pbs_pos : 0 < pbs /\ 0 < rks.
    Proof. pose proof geo. lia. Qed.

    Lemma sh_asym : sh = bstr (src_uri (s_policy S)) ++ bstr (s_cert S) ++ bopt (s_rthumb S).
    Proof. unfold sh, sec_header. rewrite Ht, (is_none_S Hp). reflexivity. Qed.

    Lemma apply_asym :
      let tmp := framed (hs + cts) (padding_bytes padA mp) in
      let sg := p_asign P (s_key S) (s_policy S) tmp in
      apply_security P fx S t plain =
      Ok (enc_hdr t fin (hs + cts) (s_chan S) ++ sh ++
          rsa_encrypt P (s_rkey S) (s_policy S) pbs (SQ ++ body ++ padding_bytes padA mp ++ sg)).
    Proof.
      intros tmp sg.
      pose proof geo as (G1 & G2 & G3 & G4 & G5). pose proof padA_facts as (Hpa & Hm & Hmp & Hmp1 & Hmp2).
      pose proof cts_facts as (Hc1 & Hc2 & Hc3 & Hc4). pose proof len_plain as Hl. pose proof (len_nonneg body) as Hb0.
      destruct (lk_asign _ _ _ L Hp tmp) as [Hsgl _]. fold sg in Hsgl.
      unfold apply_security. rewrite (secured_S Hp).
      assert (Hsg : signature_size S t = sks) by (unfold signature_size; rewrite Ht, (is_none_S Hp); reflexivity).
      rewrite Hsg.
      assert (Hpad : padding_size fx S t (len plain - (src_chunk_header + len (sec_header S t)) - 8) sks = Some (padA, mp)).
      { unfold padding_size. rewrite (is_none_S Hp). cbn [orb].
        replace (mode_eqb (s_mode S) MNone) with false
          by (destruct (lk_combo _ _ _ L) as [[E _]|[_ [E|E]]]; [congruence| |]; rewrite E; reflexivity).
        fold sh. rewrite Ht. fold rks pbs. destruct (Z.leb_spec pbs 0); [lia|].
        fold mp. change src_chunk_header with 12. rewrite Hl.
        replace (8 + (12 + len sh + 8 + len body - (12 + len sh) - 8) + sks + mp) with esA by (unfold esA; lia).
        reflexivity. }
      rewrite Hpad. rewrite set_size_plain_app.
      assert (Hlp : len (padding_bytes padA mp) = padA) by (apply len_padding_bytes; lia).
      rewrite !len_app, len_framed, len_nil, Hlp, len_rep by lia.
      fold sh. change src_chunk_header with 12. fold hs. rewrite Ht.
      replace (len plain + 0 + (padA + sks) - hs) with ptl by (unfold ptl, hs; lia).
      fold sks rks pbs. destruct (Z.ltb_spec ptl sks); [unfold ptl in *; lia|].
      fold cts.
      replace (len plain + 0 + (padA + sks) - sks) with (len plain + 0 + padA) by lia.
      rewrite app_assoc, <- (framed_app _ [] (padding_bytes padA mp)). cbn [app].
      rewrite take_app_exact by (rewrite len_framed, Hlp; lia).
      rewrite set_size_framed. rewrite <- Ht. fold tmp sg.
      rewrite Hsgl, Z.eqb_refl. cbn [negb].
      assert (Hdrop : drop hs tmp = SQ ++ body ++ padding_bytes padA mp).
      { unfold tmp, framed. rewrite app_assoc. apply drop_app_exact. rewrite len_app, len_enc_hdr. reflexivity. }
      assert (Htake : take hs tmp = enc_hdr t fin (hs + cts) (s_chan S) ++ sh).
      { unfold tmp, framed. rewrite app_assoc. apply take_app_exact. rewrite len_app, len_enc_hdr. reflexivity. }
      rewrite Hdrop, Htake.
      assert (Hlen : len ((SQ ++ body ++ padding_bytes padA mp) ++ sg) = ptl).
      { rewrite !len_app, len_SQ, Hlp, Hsgl. unfold ptl. lia. }
      rewrite (rsa_encrypt_len P (s_rkey S) (s_policy S) pbs rks (proj1 pbs_pos) (proj1 rsa_laws) (proj2 rsa_laws)).
      rewrite Hlen. fold cts. rewrite Z.eqb_refl.
      rewrite <- !app_assoc. reflexivity.
    Qed.

    Lemma recv_asym_ok :
      forall sec, apply_security P fx S t plain = Ok sec ->
      recv P fx R sec = (Ok plain, s_policy S) /\ len sec = hs + cts.
    Proof.
      intros sec Hsec. rewrite apply_asym in Hsec. apply Ok_inj in Hsec. subst sec.
      pose proof geo as (G1 & G2 & G3 & G4 & G5). pose proof padA_facts as (Hpa & Hm & Hmp & Hmp1 & Hmp2).
      pose proof cts_facts as (Hc1 & Hc2 & Hc3 & Hc4). pose proof len_plain as Hl. pose proof (len_nonneg body) as Hb0.
      pose proof len_sh as Hshl.
      set (pb := padding_bytes padA mp).
      set (tmp := framed (hs + cts) pb).
      set (sg := p_asign P (s_key S) (s_policy S) tmp).
      destruct (lk_asign _ _ _ L Hp tmp) as [Hsgl Hver]. fold sg in Hsgl, Hver.
      assert (Hlp : len pb = padA) by (apply len_padding_bytes; lia).
      set (pt := SQ ++ body ++ pb ++ sg).
      assert (Hpt : len pt = ptl) by (unfold pt; rewrite !len_app, len_SQ, Hlp, Hsgl; unfold ptl, sks; lia).
      set (ct := rsa_encrypt P (s_rkey S) (s_policy S) pbs pt).
      assert (Hct : len ct = cts).
      { unfold ct. rewrite (rsa_encrypt_len P (s_rkey S) (s_policy S) pbs rks (proj1 pbs_pos) (proj1 rsa_laws) (proj2 rsa_laws)), Hpt. reflexivity. }
      assert (Hptl : ptl <= 8 + 1073741824 + 514 + 512) by (unfold ptl; lia).
      assert (HM : 0 <= hs + cts < U32) by (unfold hs, U32; lia).
      set (src := enc_hdr t fin (hs + cts) (s_chan S) ++ sh ++ ct).
      assert (Hsrc : len src = hs + cts) by (unfold src; rewrite !len_app, len_enc_hdr, Hct; unfold hs; lia).
      split; [|exact Hsrc].
      assert (Hph : parse_hdr src = Ok ({| h_type := t; h_final := fin; h_size := hs + cts; h_chan := s_chan S |}, sh ++ ct)).
      { unfold src. apply parse_hdr_enc; try assumption. apply (lk_chan _ _ _ L). }
      unfold recv. rewrite Hph. cbn [h_type h_size].
      pose proof (parse_sechdr_plain ct) as Hps. rewrite Ht in Hps |- *. rewrite (is_none_S Hp) in Hps. rewrite Hps.
      rewrite Hsrc, Hct, Z.eqb_refl. cbn [negb].
      rewrite policy_of_uri_src, (is_none_S Hp).
      f_equal.
      (* recv_asym *)
      unfold recv_asym. rewrite (lk_cert _ _ _ L Hp).
      destruct (lk_thumb _ _ _ L Hp) as (th & E1 & E2 & E3). rewrite E2, E1, bytes_eqb_refl. cbn [negb].
      destruct (lk_pkey _ _ _ L Hp) as [E4 E5]. rewrite E4, E5.
      fold rks. unfold ct at 1.
      rewrite (rsa_roundtrip P fx (s_rkey S) (s_policy S) pbs rks (proj1 pbs_pos) (proj2 pbs_pos) (proj1 rsa_laws) (proj2 rsa_laws)).
      cbn [bind]. rewrite Hpt.
      replace (hs + cts - cts) with hs by lia. fold sks.
      destruct (Z.ltb_spec (hs + ptl) sks); [unfold ptl in *; lia|].
      (* the decrypted buffer *)
      rewrite Hct. set (zs := rep (cts - ptl) 0).
      assert (Hdst : take hs src ++ pt ++ zs = framed (hs + cts) [] ++ pb ++ sg ++ zs).
      { unfold src. rewrite (app_assoc (enc_hdr t fin (hs + cts) (s_chan S)) sh ct).
        rewrite take_app_exact by (rewrite len_app, len_enc_hdr; reflexivity).
        unfold framed, pt. rewrite <- !app_assoc. cbn [app]. reflexivity. }
      rewrite Hdst.
      set (A := framed (hs + cts) []).
      assert (HA : len A = len plain) by (unfold A; rewrite len_framed, len_nil; lia).
      replace (hs + ptl - sks) with (len A + padA) by (rewrite HA, Hl; unfold hs, ptl; lia).
      assert (Htk : take (len A + padA) (A ++ pb ++ sg ++ zs) = tmp).
      { rewrite app_assoc. rewrite take_app_exact by (rewrite len_app, Hlp; reflexivity).
        unfold A, tmp. rewrite <- framed_app. reflexivity. }
      rewrite Htk.
      assert (Hsl : slice (len A + padA) (len A + padA + sks) (A ++ pb ++ sg ++ zs) = sg).
      { rewrite app_assoc. apply slice_app_mid; [rewrite len_app, Hlp; reflexivity|]. rewrite Hsgl. reflexivity. }
      rewrite Hsl. rewrite Hver. cbn [negb].
      assert (Hvp : verify_padding fx (A ++ pb ++ sg ++ zs) rks (len A + padA) = Ok (len A)).
      { unfold pb. destruct (Z.le_gt_cases rks 256) as [Hle|Hgt].
        - rewrite (Hmp1 Hle) in *. apply verify_padding_one; lia.
        - rewrite (Hmp2 Hgt) in *. apply verify_padding_two; lia. }
      rewrite Hvp. cbn [bind].
      unfold A. rewrite <- framed_app, set_size_framed, framed_app.
      rewrite take_app_exact by (rewrite !len_framed; reflexivity).
      rewrite len_framed, len_nil, Z.add_0_r, framed_nil. reflexivity.
    Qed.
  End Asym.

  (* ---------- every mode ---------- *)
  Theorem recv_send :
    exists sec, apply_security P fx S t plain = Ok sec /\
                recv P fx R sec = (Ok plain, r_policy R) /\
                len sec = secured_size S t (len body).
  Proof.
    pose proof len_plain as Hl.
    destruct (lk_combo _ _ _ L) as [[Hn Hm]|[Hp Hm]].
    - destruct (recv_unsecured Hn) as [H1 H2]. exists plain. repeat split; try assumption.
      unfold secured_size, secured. rewrite Hn. cbn [is_none negb andb]. fold sh. lia.
    - assert (Hd : t = OPN \/ t <> OPN) by (clear; destruct t; [right|left|right]; congruence).
      destruct Hd as [Ht|Ht].
      + destruct (recv_asym_ok Hp Ht _ (apply_asym Hp Ht)) as [H1 H2].
        eexists. split; [apply (apply_asym Hp Ht)|]. rewrite (lk_policy _ _ _ L). split; [exact H1|]. rewrite H2.
        unfold secured_size. rewrite (secured_S Hp). fold sh. rewrite Ht. unfold asym_pad. reflexivity.
      + destruct Hm as [Hm|Hm].
        * eexists. split; [apply (apply_sign Hp Ht Hm)|]. split; [apply (recv_sign Hp Ht Hm), (apply_sign Hp Ht Hm)|].
          rewrite len_app, len_framed, len_nil, (lk_mac_len _ _ _ L Hp).
          unfold secured_size. rewrite (secured_S Hp), Hm. fold sh. rewrite Hl. clear - Ht. destruct t; try congruence; lia.
        * destruct (recv_signenc Hp Ht Hm _ (apply_signenc Hp Ht Hm)) as [H1 H2].
          eexists. split; [apply (apply_signenc Hp Ht Hm)|]. split; [exact H1|]. rewrite H2.
          unfold secured_size. rewrite (secured_S Hp), Hm. fold sh. unfold sym_pad. rewrite Hl. clear - Ht. destruct t; try congruence; lia.
  Qed.
End Link.
