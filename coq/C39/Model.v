(* C39 — event filter where-clause evaluation.

   Model of lib/src/server/events/operator.rs (`evaluate`, `value_of`, `convert`,
   `compare_operands`, the operator functions) and event_filter.rs (`evaluate_where_clause`;
   `validate_where_clause` never rejects a clause, it only reports per-element status codes, so
   every content filter reaches evaluation) as committed after the fixes

     fix: event filter operators indexed operands the element did not supply and panicked
     fix: an element operand with an index outside the where clause panicked the evaluation
     fix: an AttributeOperand in a where clause panicked the evaluation
     fix: comparison and bitwise operators panicked when the implicit conversion of the second operand failed
     fix: a NaN operand compared as greater than every number
     fix: Equals and InList were never true for strings, status codes, node ids and other non-numeric values
     fix: LIKE patterns leaked regular expression syntax ...

   Each fix is a switch of [cfg]; [cfg_fixed] is the code as it is now, [Legacy.cfg_legacy] the
   pinned code.  Every Rust panic site is an explicit [RPanic].  Recursion through element
   operands uses fuel; Proofs.v shows the fuel given by [evaluate_where_clause] is never
   exhausted (the `used_elements` set bounds the depth by the number of elements).
   No proofs in this file. *)
From Coq Require Import List ZArith Bool Lia.
From OV Require Export C39.Values C39.Like.
Import ListNotations.
Open Scope Z_scope.

Inductive operator :=
| Equals | IsNull | GreaterThan | LessThan | GreaterThanOrEqual | LessThanOrEqual | Like | Not
| Between | InList | And | Or | Cast | InView | OfType | RelatedTo | BitwiseAnd | BitwiseOr.

(* OAttr k: a SimpleAttributeOperand selecting field k of the event (Empty if there is no such
   field); OAttribute: an AttributeOperand; OBad: an extension object that decodes to no operand *)
Inductive operand := OLit (v : value) | OElem (i : Z) | OAttr (k : Z) | OAttribute | OBad.

Record element := mk_el { el_op : operator; el_ops : option (list operand) }.

Inductive res (A : Type) := ROk (a : A) | RErr (e : Z) | RPanic | RFuel | RUnmod.
Arguments ROk {A} a. Arguments RErr {A} e. Arguments RPanic {A}. Arguments RFuel {A}. Arguments RUnmod {A}.
Definition outcome := res value.

(* status classes *)
Definition ECount : Z := 1.        (* BadFilterOperandCountMismatch *)
Definition EInvalid : Z := 2.      (* BadFilterOperandInvalid *)
Definition EUnsupported : Z := 3.  (* BadFilterOperatorUnsupported *)

Record cfg := mk_cfg {
  fix_count : bool;   (* operand_at instead of operands[1] / operands[2] *)
  fix_index : bool;   (* elements.get instead of elements[index] *)
  fix_attr : bool;    (* AttributeOperand -> BadFilterOperandInvalid instead of panic!() *)
  fix_conv : bool;    (* compare_values! / bitwise_operation! without panic!() *)
  fix_nan : bool;     (* unordered floats are NotEquals instead of GreaterThan *)
  fix_eq : bool;      (* == for the non-numeric types instead of Error *)
  fix_like : bool     (* the new like_to_regex_pattern, '.' matches a line feed *)
}.
Definition cfg_fixed : cfg := mk_cfg true true true true true true true.

Definition bind {A B} (r : res A) (k : A -> res B) : res B :=
  match r with ROk a => k a | RErr e => RErr e | RPanic => RPanic | RFuel => RFuel | RUnmod => RUnmod end.

(* ---- value level ------------------------------------------------------------------------------ *)
Definition is_poison (v : value) : bool := match v with VPoison => true | _ => false end.

(* operator.rs `convert`: the operand of lower precedence is converted to the type of the other *)
Definition convert_pair (v1 v2 : value) : value * value :=
  let dt1 := type_id v1 in
  let dt2 := type_id v2 in
  if tyid_eqb dt1 dt2 then (v1, v2)
  else if precedence dt1 <? precedence dt2 then (v1, convert v2 dt1)
  else (convert v1 dt2, v2).

Inductive cmpres := CLess | CEq | CGreater | CNotEq | CError.
Definition cmpres_eqb (a b : cmpres) : bool :=
  match a, b with
  | CLess, CLess | CEq, CEq | CGreater, CGreater | CNotEq, CNotEq | CError, CError => true
  | _, _ => false
  end.

Definition zcmp (a b : Z) : cmpres := if a <? b then CLess else if a =? b then CEq else CGreater.
Definition fcmpres (c : cfg) (r : option comparison) : cmpres :=
  match r with
  | Some Lt => CLess
  | Some Eq => CEq
  | Some Gt => CGreater
  | None => if fix_nan c then CNotEq else CGreater
  end.

(* the match in compare_operands after `convert`; None = panic!() *)
Definition compare_values (c : cfg) (v1 v2 : value) : option cmpres :=
  let mismatch := if fix_conv c then Some CError else None in
  match v1 with
  | VInt t a => match v2 with VInt t' b => if ity_eqb t t' then Some (zcmp a b) else mismatch | _ => mismatch end
  | VDouble a => match v2 with VDouble b => Some (fcmpres c (dcmp a b)) | _ => mismatch end
  | VFloat a => match v2 with VFloat b => Some (fcmpres c (fcmp a b)) | _ => mismatch end
  | VBool _ => Some (if value_eqb v1 v2 then CEq else CNotEq)
  | VEmpty | VPoison => Some CError
  | _ => if fix_eq c then Some (if value_eqb v1 v2 then CEq else CNotEq) else Some CError
  end.

Definition cmp_vals (c : cfg) (v1 v2 : value) : res cmpres :=
  let '(a, b) := convert_pair v1 v2 in
  if is_poison a || is_poison b then RUnmod
  else match compare_values c a b with Some r => ROk r | None => RPanic end.

(* bitwise_operation after `convert` *)
Definition bit_vals (c : cfg) (is_and : bool) (v1 v2 : value) : outcome :=
  let '(a, b) := convert_pair v1 v2 in
  if is_poison a || is_poison b then RUnmod
  else match a with
       | VInt t x =>
           match b with
           | VInt t' y => if ity_eqb t t' then ROk (VInt t (if is_and then Z.land x y else Z.lor x y))
                          else if fix_conv c then ROk VEmpty else RPanic
           | _ => if fix_conv c then ROk VEmpty else RPanic
           end
       | _ => ROk VEmpty
       end.

Definition not_val (v : value) : value :=
  match convert v TBool with VBool b => VBool (negb b) | _ => VEmpty end.

Definition is_vtrue (v : value) : bool := match v with VBool true => true | _ => false end.
Definition is_vfalse (v : value) : bool := match v with VBool false => true | _ => false end.
Definition and_vals (v1 v2 : value) : value :=
  let a := convert v1 TBool in
  let b := convert v2 TBool in
  if is_vtrue a && is_vtrue b then VBool true
  else if is_vfalse a || is_vfalse b then VBool false
  else VEmpty.
Definition or_vals (v1 v2 : value) : value :=
  let a := convert v1 TBool in
  let b := convert v2 TBool in
  if is_vtrue a || is_vtrue b then VBool true
  else if is_vfalse a && is_vfalse b then VBool false
  else VEmpty.

Definition like_vals (c : cfg) (v1 v2 : value) : outcome :=
  match convert v1 TString, convert v2 TString with
  | VStr s, VStr p => match like_model (fix_like c) p s with Some b => ROk (VBool b) | None => RUnmod end
  | _, _ => ROk (VBool false)
  end.

Definition is_empty (v : value) : bool := match v with VEmpty => true | _ => false end.

(* ---- operators over operands -------------------------------------------------------------------- *)
Section Ops.
  Variable c : cfg.
  Variable vo : operand -> outcome.       (* value_of *)

  (* operands[n] / operand_at(operands, n) *)
  Definition operand_at {B} (ops : list operand) (n : nat) (k : operand -> res B) : res B :=
    match nth_error ops n with
    | Some o => k o
    | None => if fix_count c then RErr ECount else RPanic
    end.

  Definition compare_operands (o1 o2 : operand) : res cmpres :=
    bind (vo o1) (fun v1 => bind (vo o2) (fun v2 => cmp_vals c v1 v2)).

  Definition bool_res (b : bool) : outcome := ROk (VBool b).

  Definition cmp_op (ops : list operand) (o0 : operand) (accept : cmpres -> bool) : outcome :=
    operand_at ops 1 (fun o1 => bind (compare_operands o0 o1) (fun r => bool_res (accept r))).

  (* `operands[1..].iter().any(..)`: an Err of one comparison counts as "not equal" *)
  Fixpoint in_list_any (o0 : operand) (l : list operand) : outcome :=
    match l with
    | [] => bool_res false
    | o :: l' =>
        match compare_operands o0 o with
        | ROk r => if cmpres_eqb r CEq then bool_res true else in_list_any o0 l'
        | RErr _ => in_list_any o0 l'
        | RPanic => RPanic
        | RFuel => RFuel
        | RUnmod => RUnmod
        end
    end.

  Definition eval_op (op : operator) (ops : list operand) : outcome :=
    match ops with
    | [] => RPanic                      (* operands[0]; `evaluate` never calls with no operands *)
    | o0 :: _ =>
      match op with
      | Equals => cmp_op ops o0 (fun r => cmpres_eqb r CEq)
      | GreaterThan => cmp_op ops o0 (fun r => cmpres_eqb r CGreater)
      | LessThan => cmp_op ops o0 (fun r => cmpres_eqb r CLess)
      | GreaterThanOrEqual => cmp_op ops o0 (fun r => cmpres_eqb r CGreater || cmpres_eqb r CEq)
      | LessThanOrEqual => cmp_op ops o0 (fun r => cmpres_eqb r CLess || cmpres_eqb r CEq)
      | IsNull => bind (vo o0) (fun v => bool_res (is_empty v))
      | Like =>
          bind (vo o0) (fun v1 => operand_at ops 1 (fun o1 => bind (vo o1) (fun v2 => like_vals c v1 v2)))
      | Not => bind (vo o0) (fun v => ROk (not_val v))
      | Between =>
          operand_at ops 1 (fun o1 =>
            bind (compare_operands o0 o1) (fun r1 =>
              if cmpres_eqb r1 CGreater || cmpres_eqb r1 CEq then
                operand_at ops 2 (fun o2 =>
                  bind (compare_operands o0 o2) (fun r2 =>
                    bool_res (cmpres_eqb r2 CLess || cmpres_eqb r2 CEq)))
              else bool_res false))
      | InList => in_list_any o0 (tl ops)
      | And => bind (vo o0) (fun v1 => operand_at ops 1 (fun o1 => bind (vo o1) (fun v2 => ROk (and_vals v1 v2))))
      | Or => bind (vo o0) (fun v1 => operand_at ops 1 (fun o1 => bind (vo o1) (fun v2 => ROk (or_vals v1 v2))))
      (* no NodeId / ExpandedNodeId values in the domain: `cast` always yields Empty *)
      | Cast => bind (vo o0) (fun _ => operand_at ops 1 (fun o1 => bind (vo o1) (fun _ => ROk VEmpty)))
      | BitwiseAnd => bind (vo o0) (fun v1 => operand_at ops 1 (fun o1 => bind (vo o1) (fun v2 => bit_vals c true v1 v2)))
      | BitwiseOr => bind (vo o0) (fun v1 => operand_at ops 1 (fun o1 => bind (vo o1) (fun v2 => bit_vals c false v1 v2)))
      | InView | OfType | RelatedTo => RErr EUnsupported
      end
    end.
End Ops.

(* ---- evaluate / value_of ------------------------------------------------------------------------ *)
Definition is_bad (o : operand) : bool := match o with OBad => true | _ => false end.

Section Eval.
  Variable c : cfg.
  Variable fields : list value.
  Variable els : list element.

  Definition nels : Z := Z.of_nat (length els).
  Definition field (k : Z) : value :=
    if (0 <=? k) && (k <? Z.of_nat (length fields)) then nth (Z.to_nat k) fields VEmpty else VEmpty.

  Fixpoint evaluate (fuel : nat) (used : list Z) (e : element) {struct fuel} : outcome :=
    match fuel with
    | O => RFuel
    | S fuel' =>
        let value_of (o : operand) : outcome :=
          match o with
          | OLit v => ROk v
          | OAttr k => ROk (field k)
          | OAttribute => if fix_attr c then RErr EInvalid else RPanic
          | OBad => RErr EInvalid
          | OElem i =>
              if mem i used then RErr EInvalid
              else if (0 <=? i) && (i <? nels) then
                match nth_error els (Z.to_nat i) with
                | Some e' => evaluate fuel' (i :: used) e'
                | None => RPanic
                end
              else if fix_index c then RErr EInvalid else RPanic
          end in
        match el_ops e with
        | None => RErr ECount
        | Some [] => RErr ECount
        | Some ops =>
            (* make_filter_operands: one undecodable operand fails the element *)
            if existsb is_bad ops then RErr EInvalid
            else eval_op c value_of (el_op e) ops
        end
    end.
End Eval.

(* event_filter.rs evaluate_where_clause *)
Definition evaluate_where_clause (c : cfg) (fields : list value) (els : option (list element)) : outcome :=
  match els with
  | None => ROk (VBool true)
  | Some [] => ROk (VBool true)
  | Some (e0 :: rest) => evaluate c fields (e0 :: rest) (S (length (e0 :: rest))) [0] e0
  end.

(* ---- canonical output ----------------------------------------------------------------------------
   [1; b] Boolean, [2] Empty (null), [3; type; value] an integer, [8] anything else,
   [0; class] Err, [-2] panic, [-5] out of fuel (never), [-9] outside the modelled fragment *)
Definition canon_value (v : value) : list Z :=
  match v with
  | VBool b => [1; if b then 1 else 0]
  | VEmpty => [2]
  | VInt t z => [3; ity_code t; z]
  | _ => [8]
  end.
Definition canon (r : outcome) : list Z :=
  match r with
  | ROk v => canon_value v
  | RErr e => [0; e]
  | RPanic => [-2]
  | RFuel => [-5]
  | RUnmod => [-9]
  end.

(* ---- cases ------------------------------------------------------------------------------------------ *)
(* the chain Not(1), Not(2), ..., Not(literal false) *)
Fixpoint deep_from (i : Z) (n : nat) : list element :=
  match n with
  | O => []
  | S O => [mk_el Not (Some [OLit (VBool false)])]
  | S n' => mk_el Not (Some [OElem (i + 1)]) :: deep_from (i + 1) n'
  end.

Inductive case :=
| CFilter (fields : list value) (els : option (list element))
| CLike (pat s : list Z)
| CLikeText (pat : list Z)
| CDeep (n stack_kib : Z).

Definition filter_of (c : case) : list value * option (list element) :=
  match c with
  | CFilter f e => (f, e)
  | CDeep n _ => ([], Some (deep_from 0 (Z.to_nat n)))
  | _ => ([], None)
  end.

Definition run_cfg (g : cfg) (c : case) : list Z :=
  match c with
  | CFilter _ _ | CDeep _ _ => let '(f, e) := filter_of c in canon (evaluate_where_clause g f e)
  | CLike pat s =>
      if fix_like g then
        match like_to_regex_fixed pat with
        | None => [0]
        | Some t => match re_parse t with
                    | RParsed a items => [1; if re_is_match true a items s then 1 else 0]
                    | RInvalid => [0]
                    | RUnmodelled => [-9]
                    end
        end
      else
        match re_parse (like_to_regex_legacy pat) with
        | RParsed a items => [1; if re_is_match false a items s then 1 else 0]
        | RInvalid => [0]
        | RUnmodelled => [-9]
        end
  | CLikeText pat =>
      if fix_like g then match like_to_regex_fixed pat with None => [0] | Some t => 1 :: t end
      else match re_parse (like_to_regex_legacy pat) with RInvalid => [0] | _ => 1 :: like_to_regex_legacy pat end
  end.

Definition run (c : case) : list Z := run_cfg cfg_fixed c.

Module Legacy.
  Definition cfg_legacy : cfg := mk_cfg false false false false false false false.
  Definition run (c : case) : list Z := run_cfg cfg_legacy c.

  (* Variant::convert before the pre-landed "fix: implicit unsigned to signed conversions wrapped"
     (C06 owns it): the unsigned -> signed arms of equal width were `as` casts.  Only what a
     comparison sees of it: Equals after the wrapping conversion. *)
  Definition wrap_signed (d : ity) (z : Z) : Z := if ity_hi d <? z then z - 2 * (ity_hi d + 1) else z.
  Definition convert_wrapping (v : value) (target : tyid) : value :=
    match v, target with
    | VInt Byte z, TInt SByte => VInt SByte (wrap_signed SByte z)
    | VInt UInt16 z, TInt Int16 => VInt Int16 (wrap_signed Int16 z)
    | VInt UInt32 z, TInt Int32 => VInt Int32 (wrap_signed Int32 z)
    | VInt UInt64 z, TInt Int64 => VInt Int64 (wrap_signed Int64 z)
    | _, _ => convert v target
    end.
  Definition equals_wrapping (v1 v2 : value) : option bool :=
    let '(a, b) := if precedence (type_id v1) <? precedence (type_id v2) then (v1, convert_wrapping v2 (type_id v1))
                   else (convert_wrapping v1 (type_id v2), v2) in
    match compare_values cfg_fixed a b with Some r => Some (cmpres_eqb r CEq) | None => None end.
End Legacy.

(* ==== the reference evaluator (Part 4), written over expression trees ============================ *)
Inductive expr := XLit (v : value) | XAttr (k : Z) | XOp (op : operator) (args : list expr).

(* operand counts of Part 4 table "Basic FilterOperator definition" (extra operands are an error) *)
Definition arity_ok (op : operator) (n : nat) : bool :=
  match op with
  | IsNull | Not => Nat.eqb n 1
  | Between => Nat.eqb n 3
  | InList => Nat.leb 2 n
  | Equals | GreaterThan | LessThan | GreaterThanOrEqual | LessThanOrEqual | Like | And | Or
  | BitwiseAnd | BitwiseOr => Nat.eqb n 2
  | Cast | InView | OfType | RelatedTo => false       (* outside the property's list *)
  end.

Definition map_opt {A B} (f : A -> option B) : list A -> option (list B) :=
  fix go (l : list A) : option (list B) :=
    match l with
    | [] => Some []
    | a :: l' => match f a, go l' with
                 | Some b, Some bs => Some (b :: bs)
                 | _, _ => None
                 end
    end.

(* unfolding a content filter from an element into a tree; None = not well formed (a loop, an index
   outside the clause, an attribute operand, an undecodable operand, a wrong operand count) *)
Section Unfold.
  Variable els : list element.
  Definition unfold_operand (rec : list Z -> element -> option expr) (used : list Z) (o : operand) : option expr :=
    match o with
    | OLit v => Some (XLit v)
    | OAttr k => Some (XAttr k)
    | OAttribute | OBad => None
    | OElem i =>
        if mem i used then None
        else if (0 <=? i) && (i <? Z.of_nat (length els)) then
          match nth_error els (Z.to_nat i) with
          | Some e' => rec (i :: used) e'
          | None => None
          end
        else None
    end.
  Fixpoint unfold (fuel : nat) (used : list Z) (e : element) {struct fuel} : option expr :=
    match fuel with
    | O => None
    | S fuel' =>
        match el_ops e with
        | None => None
        | Some ops =>
            if arity_ok (el_op e) (length ops) then
              option_map (XOp (el_op e)) (map_opt (unfold_operand (unfold fuel') used) ops)
            else None
        end
    end.
End Unfold.

Definition unfold_clause (els : list element) : option expr :=
  match els with
  | [] => None
  | e0 :: _ => unfold els (S (length els)) [0] e0
  end.

(* --- reference semantics on values --- *)
(* implicit conversion (Part 4 table "Conversion rules"), for what comparisons need: the
   mathematical value of Boolean/integer operands moves to an integer type iff it fits; to
   Float/Double it is rounded to nearest; strings are parsed; everything else as the table says *)
Definition int_value (v : value) : option Z :=
  match v with VBool b => Some (if b then 1 else 0) | VInt _ z => Some z | _ => None end.

Definition ref_convert (v : value) (target : tyid) : value :=
  if tyid_eqb (type_id v) target then v else
  match int_value v, target with
  | Some z, TInt t => if in_range t z then VInt t z else VEmpty
  | Some z, TDouble => VDouble (dbits (f64_of_Z z))
  | Some z, TFloat => VFloat (fbits (f32_of_Z z))
  | _, _ => convert v target      (* strings, Float -> Double, StatusCode: the table of Values.v *)
  end.

(* the operand with the type of lower precedence moves to the type of the other (table "Data
   precedence rules") *)
Definition ref_common (v1 v2 : value) : value * value :=
  if precedence (type_id v1) <? precedence (type_id v2) then (v1, ref_convert v2 (type_id v1))
  else (ref_convert v1 (type_id v2), v2).

(* Some (Some Lt/Eq/Gt): ordered or equal; Some None: not comparable, unordered (NaN) or unequal
   values of a type without order; None: outside the modelled fragment *)
Definition ref_compare (v1 v2 : value) : option (option comparison) :=
  let '(a, b) := ref_common v1 v2 in
  if is_poison a || is_poison b then None else
  Some match a, b with
  | VInt s x, VInt t y => if ity_eqb s t then Some (x ?= y) else None
  | VDouble x, VDouble y => dcmp x y
  | VFloat x, VFloat y => fcmp x y
  | VEmpty, _ | _, VEmpty => None          (* a null, or a failed conversion *)
  | _, _ => if value_eqb a b then Some Eq else None
  end.

Definition ord_is (r : option comparison) (accept : comparison -> bool) : bool :=
  match r with Some o => accept o | None => false end.
Definition is_Eq (o : comparison) : bool := match o with Eq => true | _ => false end.
Definition is_Gt (o : comparison) : bool := match o with Gt => true | _ => false end.
Definition is_Lt (o : comparison) : bool := match o with Lt => true | _ => false end.
Definition is_Ge (o : comparison) : bool := match o with Lt => false | _ => true end.
Definition is_Le (o : comparison) : bool := match o with Gt => false | _ => true end.

(* three-valued logic: None is NULL *)
Definition tri (v : value) : option bool := match convert v TBool with VBool b => Some b | _ => None end.
Definition tri_value (t : option bool) : value := match t with Some b => VBool b | None => VEmpty end.
Definition tri_not (a : option bool) : option bool :=
  match a with Some true => Some false | Some false => Some true | None => None end.
(* Part 4 tables "Logical AND Truth Table" / "Logical OR Truth Table" *)
Definition tri_and (a b : option bool) : option bool :=
  match a, b with
  | Some true, Some true => Some true
  | Some true, Some false => Some false
  | Some true, None => None
  | Some false, _ => Some false
  | None, Some true => None
  | None, Some false => Some false
  | None, None => None
  end.
Definition tri_or (a b : option bool) : option bool :=
  match a, b with
  | Some true, _ => Some true
  | Some false, Some true => Some true
  | Some false, Some false => Some false
  | Some false, None => None
  | None, Some true => Some true
  | None, Some false => None
  | None, None => None
  end.

Definition ref_bitwise (is_and : bool) (v1 v2 : value) : option value :=
  let '(a, b) := ref_common v1 v2 in
  if is_poison a || is_poison b then None else
  Some match a, b with
  | VInt s x, VInt t y => if ity_eqb s t then VInt s (if is_and then Z.land x y else Z.lor x y) else VEmpty
  | _, _ => VEmpty
  end.

(* LIKE: both operands must be strings; the pattern must be the canonical text of a well-formed
   pattern (otherwise the reference says nothing: None) *)
Definition ref_like (v1 v2 : value) : option value :=
  match v1, v2 with
  | VStr s, VStr pat => match like_parse_checked pat with
                        | Some p => Some (VBool (like_spec p s))
                        | None => None
                        end
  | _, _ => Some (VBool false)
  end.

Fixpoint ref_in_list (a : value) (l : list value) : option bool :=
  match l with
  | [] => Some false
  | b :: l' => match ref_compare a b, ref_in_list a l' with
               | Some r, Some rest => Some (ord_is r is_Eq || rest)
               | _, _ => None
               end
  end.

Definition ref_cmp_op (accept : comparison -> bool) (a b : value) : option value :=
  option_map (fun r => VBool (ord_is r accept)) (ref_compare a b).

Definition ref_op (op : operator) (vs : list value) : option value :=
  match op, vs with
  | Equals, [a; b] => ref_cmp_op is_Eq a b
  | GreaterThan, [a; b] => ref_cmp_op is_Gt a b
  | LessThan, [a; b] => ref_cmp_op is_Lt a b
  | GreaterThanOrEqual, [a; b] => ref_cmp_op is_Ge a b
  | LessThanOrEqual, [a; b] => ref_cmp_op is_Le a b
  | IsNull, [a] => Some (VBool (is_empty a))
  | Like, [a; b] => ref_like a b
  | Not, [a] => Some (tri_value (tri_not (tri a)))
  | Between, [a; lo; hi] =>
      match ref_compare a lo, ref_compare a hi with
      | Some r1, Some r2 => Some (VBool (ord_is r1 is_Ge && ord_is r2 is_Le))
      | _, _ => None
      end
  | InList, a :: l => option_map VBool (ref_in_list a l)
  | And, [a; b] => Some (tri_value (tri_and (tri a) (tri b)))
  | Or, [a; b] => Some (tri_value (tri_or (tri a) (tri b)))
  | BitwiseAnd, [a; b] => ref_bitwise true a b
  | BitwiseOr, [a; b] => ref_bitwise false a b
  | _, _ => None
  end.

Section Ref.
  Variable fields : list value.
  Fixpoint ref_eval (e : expr) : option value :=
    match e with
    | XLit v => Some v
    | XAttr k => Some (field fields k)
    | XOp op args => match map_opt ref_eval args with
                     | Some vs => ref_op op vs
                     | None => None
                     end
    end.

  (* does the reference evaluation meet the wildcard _ (known finding 1)? *)
  Fixpoint uses_one (e : expr) : bool :=
    match e with
    | XOp op args =>
        existsb uses_one args ||
        match op, args with
        | Like, [_; b] => match ref_eval b with
                          | Some (VStr pat) => match like_parse_checked pat with
                                               | Some p => has_one p
                                               | None => false
                                               end
                          | _ => false
                          end
        | _, _ => false
        end
    | _ => false
    end.
End Ref.

(* the expected result of a well-formed clause, if the reference defines one *)
Definition reference (fields : list value) (els : option (list element)) : option value :=
  match els with
  | None | Some [] => Some (VBool true)
  | Some l => match unfold_clause l with
              | Some e => ref_eval fields e
              | None => None
              end
  end.

(* ==== oracle =========================================================================================== *)
Definition no_crash (out : list Z) : bool :=
  match out with
  | [] => false
  | x :: _ => (0 <=? x)           (* not -2 panic, -3 stack overflow, -4 timeout, -5, -9 *)
  end.

Definition oracle (c : case) (out : list Z) : bool :=
  match c with
  | CFilter _ _ | CDeep _ _ =>
      let '(f, e) := filter_of c in
      no_crash out &&
      match reference f e with
      | Some v => list_Zeqb out (canon_value v)
      | None => true
      end
  | CLike pat s =>
      no_crash out &&
      match like_parse_checked pat with
      | Some p => list_Zeqb out [1; if like_spec p s then 1 else 0]
      | None => true
      end
  | CLikeText pat => no_crash out
  end.

(* known finding 1: `_` is translated to `?` (pinned by like_to_regex_tests).  The class: the
   reference evaluation of a well-formed clause meets a LIKE pattern with the wildcard `_` *)
Definition known_filter (fields : list value) (els : option (list element)) : Z :=
  match els with
  | Some l => match unfold_clause l with
              | Some e => if uses_one fields e then 1 else 0
              | None => 0
              end
  | None => 0
  end.

Definition known (c : case) : Z :=
  match c with
  | CFilter _ _ | CDeep _ _ => let '(f, e) := filter_of c in known_filter f e
  | CLike pat _ => match like_parse_checked pat with Some p => if has_one p then 1 else 0 | None => 0 end
  | _ => 0
  end.

(* inside the modelled fragment: no String -> Float/Double conversion outside the short decimal
   forms was needed, values are values of their types *)
Definition value_ok (v : value) : bool :=
  match v with
  | VInt t z => in_range t z
  | VPoison => false
  | VFloat b => (0 <=? b) && (b <? 4294967296)
  | VDouble b => (0 <=? b) && (b <? 18446744073709551616)
  | _ => true
  end.
Definition operand_ok (o : operand) : bool :=
  match o with OLit v => value_ok v | OElem i => 0 <=? i | _ => true end.
Definition element_ok (e : element) : bool :=
  match el_ops e with Some ops => forallb operand_ok ops | None => true end.
Definition case_ok (c : case) : bool :=
  match c with
  | CFilter fields els => forallb value_ok fields && match els with Some l => forallb element_ok l | None => true end
  | _ => true
  end.
Definition valid (c : case) : Prop := case_ok c = true /\ run c <> [-9].
