(* C08 proofs (in progress) *)
From Coq Require Import List ZArith Bool Lia.
Import ListNotations.
From OV Require Import C07.Chan C07.Lemmas C08.Model.
Open Scope Z_scope.
