(* C42 — round-trip laws of the text primitives: decimal integers, GUID text, base64. *)
From Coq Require Import List ZArith Bool Lia.
From OV Require Import C42.Text.
Import ListNotations.
Open Scope Z_scope.

Ltac dm := Z.div_mod_to_equations; lia.

(* ---- decimal ------------------------------------------------------------------------------- *)
Lemma is_digit_true c : 48 <= c <= 57 -> is_digit c = true.
Proof. intros; unfold is_digit; apply andb_true_iff; split; apply Z.leb_le; lia. Qed.

Lemma pda_app s1 : forall s2 a,
  parse_digits_aux (s1 ++ s2) a =
  match parse_digits_aux s1 a with Some a' => parse_digits_aux s2 a' | None => None end.
Proof.
  induction s1 as [|c s1 IH]; intros s2 a; cbn [app parse_digits_aux]; [reflexivity|].
  destruct (is_digit c); [apply IH | reflexivity].
Qed.

(* what digits_aux prepends: a non-empty digit string that reads back as n *)
Lemma digits_aux_spec : forall fuel n acc, (0 < fuel)%nat -> 0 <= n < 10 ^ Z.of_nat fuel ->
  exists ds, digits_aux fuel n acc = ds ++ acc /\ ds <> [] /\
             (forall c, In c ds -> 48 <= c <= 57) /\
             forall a, parse_digits_aux ds a = Some (a * 10 ^ Z.of_nat (length ds) + n).
Proof.
  induction fuel as [|f IH]; intros n acc Hf Hn; [lia|].
  cbn [digits_aux]. destruct (n <? 10) eqn:E.
  - apply Z.ltb_lt in E. exists [48 + n]. split; [|split; [|split]].
    + reflexivity.
    + discriminate.
    + intros c [<-|[]]; lia.
    + intro a. cbn [parse_digits_aux length]. rewrite is_digit_true by lia.
      f_equal. change (Z.of_nat 1) with 1. lia.
  - apply Z.ltb_ge in E.
    destruct f as [|f'].
    + change (10 ^ Z.of_nat 1) with 10 in Hn. lia.
    + assert (Hq : 0 <= n / 10 < 10 ^ Z.of_nat (S f')).
      { rewrite Nat2Z.inj_succ, Z.pow_succ_r in Hn by lia. dm. }
      destruct (IH (n / 10) ((48 + n mod 10) :: acc) ltac:(lia) Hq) as (ds & Hd & Hne & Hin & Hp).
      exists (ds ++ [48 + n mod 10]). split; [|split; [|split]].
      * rewrite Hd, <- app_assoc. reflexivity.
      * destruct ds; discriminate.
      * intros c Hc. apply in_app_or in Hc as [Hc|[<-|[]]]; [auto|]. dm.
      * intro a. rewrite pda_app, Hp. cbn [parse_digits_aux].
        rewrite is_digit_true by dm. f_equal.
        rewrite app_length. cbn [length]. rewrite Nat2Z.inj_add. change (Z.of_nat 1) with 1.
        rewrite Z.pow_add_r by lia. change (10 ^ 1) with 10.
        set (p := 10 ^ Z.of_nat (length ds)). dm.
Qed.

Lemma digits_spec n : 0 <= n < 10 ^ 20 ->
  exists c ds, digits n = c :: ds /\ 48 <= c <= 57 /\ parse_digits (c :: ds) = Some n.
Proof.
  intro Hn. unfold digits.
  destruct (digits_aux_spec 20 n [] ltac:(lia) Hn) as (ds & Hd & Hne & Hin & Hp).
  rewrite app_nil_r in Hd. destruct ds as [|c ds]; [congruence|].
  exists c, ds. split; [exact Hd|]. split; [apply Hin; left; reflexivity|].
  unfold parse_digits. rewrite Hp. f_equal; lia.
Qed.

Lemma parse_show_unsigned z lo hi : 0 <= z < 10 ^ 20 -> lo <= z <= hi ->
  parse_int false lo hi (show_int z) = Some z.
Proof.
  intros Hz Hr. unfold show_int. destruct (z <? 0) eqn:E; [apply Z.ltb_lt in E; lia|].
  destruct (digits_spec z Hz) as (c & ds & -> & Hc & Hp).
  unfold parse_int.
  replace (c =? 43) with false by (symmetry; apply Z.eqb_neq; lia).
  replace (c =? 45) with false by (symmetry; apply Z.eqb_neq; lia).
  rewrite Hp.
  replace ((lo <=? z) && (z <=? hi)) with true; [reflexivity|].
  symmetry; apply andb_true_iff; split; apply Z.leb_le; lia.
Qed.

Lemma parse_show_signed z lo hi : - 10 ^ 20 < z < 10 ^ 20 -> lo <= z <= hi ->
  parse_int true lo hi (show_int z) = Some z.
Proof.
  intros Hz Hr. unfold show_int. destruct (z <? 0) eqn:E.
  - apply Z.ltb_lt in E.
    destruct (digits_spec (- z) ltac:(lia)) as (c & ds & -> & Hc & Hp).
    unfold parse_int. change (45 =? 43) with false. change (45 =? 45) with true. cbv iota.
    rewrite Hp. cbn [option_map]. rewrite Z.opp_involutive.
    replace ((lo <=? z) && (z <=? hi)) with true; [reflexivity|].
    symmetry; apply andb_true_iff; split; apply Z.leb_le; lia.
  - apply Z.ltb_ge in E.
    destruct (digits_spec z ltac:(lia)) as (c & ds & -> & Hc & Hp).
    unfold parse_int.
    replace (c =? 43) with false by (symmetry; apply Z.eqb_neq; lia).
    replace (c =? 45) with false by (symmetry; apply Z.eqb_neq; lia).
    rewrite Hp.
    replace ((lo <=? z) && (z <=? hi)) with true; [reflexivity|].
    symmetry; apply andb_true_iff; split; apply Z.leb_le; lia.
Qed.

(* ---- hex / GUID ------------------------------------------------------------------------------ *)
Definition byte (b : Z) : Prop := 0 <= b <= 255.

Lemma hex_val_char v : 0 <= v < 16 -> hex_val (hex_char v) = Some v.
Proof.
  intro H. unfold hex_char, hex_val, is_digit.
  destruct (v <? 10) eqn:E; [apply Z.ltb_lt in E | apply Z.ltb_ge in E].
  - replace ((48 <=? 48 + v) && (48 + v <=? 57)) with true
      by (symmetry; apply andb_true_iff; split; apply Z.leb_le; lia).
    f_equal; lia.
  - replace ((48 <=? 87 + v) && (87 + v <=? 57)) with false
      by (symmetry; apply andb_false_iff; right; apply Z.leb_gt; lia).
    replace ((97 <=? 87 + v) && (87 + v <=? 102)) with true
      by (symmetry; apply andb_true_iff; split; apply Z.leb_le; lia).
    f_equal; lia.
Qed.

Lemma unhex_hex_byte b s : byte b ->
  unhex (hex_byte b ++ s) = match unhex s with Some r => Some (b :: r) | None => None end.
Proof.
  intro H. unfold byte in H. unfold hex_byte. cbn [app unhex].
  rewrite !hex_val_char by dm.
  destruct (unhex s); [|reflexivity]. do 2 f_equal. dm.
Qed.

Lemma unhex_hex_bytes bs : Forall byte bs -> forall s,
  unhex (hex_bytes bs ++ s) = match unhex s with Some r => Some (bs ++ r) | None => None end.
Proof.
  induction 1 as [|b bs Hb _ IH]; intro s.
  - cbn. destruct (unhex s); reflexivity.
  - unfold hex_bytes in *. cbn [flat_map]. rewrite <- app_assoc, unhex_hex_byte by exact Hb.
    rewrite IH. destruct (unhex s); reflexivity.
Qed.

Lemma hex_bytes_length bs : length (hex_bytes bs) = (2 * length bs)%nat.
Proof. induction bs as [|b bs IH]; [reflexivity|]. unfold hex_bytes in *. cbn [flat_map]. rewrite app_length, IH. cbn. lia. Qed.

Lemma guid_roundtrip g : length g = 16%nat -> Forall byte g -> parse_guid (guid_text g) = Some g.
Proof.
  intros Hl Hb.
  do 16 (destruct g as [|? g]; [discriminate Hl|]). destruct g; [|discriminate Hl].
  repeat match goal with H : Forall byte (_ :: _) |- _ => inversion H; clear H; subst end.
  unfold guid_text, parse_guid, parse_hyphenated.
  cbn -[hex_char hex_val Z.div Z.modulo Z.mul Z.add].
  rewrite !hex_val_char by (unfold byte in *; dm).
  unfold byte in *. f_equal. repeat (apply (f_equal2 (@cons Z)); [dm|]). reflexivity.
Qed.

Lemma guid_text_nonempty g : guid_text g <> [].
Proof. unfold guid_text. destruct (hex_bytes (firstn 4 g)); discriminate. Qed.

(* ---- base64 ---------------------------------------------------------------------------------- *)
Lemma b64_val_char v : 0 <= v < 64 -> b64_val (b64_char v) = Some v /\ b64_char v <> 61.
Proof.
  intro H. unfold b64_char, b64_val, is_digit.
  destruct (v <? 26) eqn:E1; [apply Z.ltb_lt in E1 | apply Z.ltb_ge in E1].
  { replace ((65 <=? 65 + v) && (65 + v <=? 90)) with true
      by (symmetry; apply andb_true_iff; split; apply Z.leb_le; lia).
    split; [f_equal|]; lia. }
  destruct (v <? 52) eqn:E2; [apply Z.ltb_lt in E2 | apply Z.ltb_ge in E2].
  { replace ((65 <=? 71 + v) && (71 + v <=? 90)) with false
      by (symmetry; apply andb_false_iff; right; apply Z.leb_gt; lia).
    replace ((97 <=? 71 + v) && (71 + v <=? 122)) with true
      by (symmetry; apply andb_true_iff; split; apply Z.leb_le; lia).
    split; [f_equal|]; lia. }
  destruct (v <? 62) eqn:E3; [apply Z.ltb_lt in E3 | apply Z.ltb_ge in E3].
  { replace ((65 <=? v - 4) && (v - 4 <=? 90)) with false
      by (symmetry; apply andb_false_iff; left; apply Z.leb_gt; lia).
    replace ((97 <=? v - 4) && (v - 4 <=? 122)) with false
      by (symmetry; apply andb_false_iff; left; apply Z.leb_gt; lia).
    replace ((48 <=? v - 4) && (v - 4 <=? 57)) with true
      by (symmetry; apply andb_true_iff; split; apply Z.leb_le; lia).
    split; [f_equal|]; lia. }
  assert (Hv : v = 62 \/ v = 63) by lia. destruct Hv as [-> | ->]; vm_compute; split; [reflexivity | discriminate | reflexivity | discriminate].
Qed.

Lemma list_ind3 (P : list Z -> Prop) :
  P [] -> (forall a, P [a]) -> (forall a b, P [a; b]) ->
  (forall a b c r, P r -> P (a :: b :: c :: r)) -> forall l, P l.
Proof.
  intros H0 H1 H2 H3.
  assert (H : forall n l, (length l <= n)%nat -> P l).
  { induction n as [|n IH]; intros l Hl.
    - destruct l; [exact H0 | cbn in Hl; lia].
    - destruct l as [|a [|b [|c r]]]; auto. apply H3. apply IH. cbn in Hl. lia. }
  intro l. apply (H (length l)). lia.
Qed.

Lemma b64_encode_nonempty bs : bs <> [] -> b64_encode bs <> [].
Proof. destruct bs as [|a [|b [|c r]]]; [congruence | discriminate ..]. Qed.

Lemma b64_roundtrip bs : Forall byte bs -> b64_decode (b64_encode bs) = Some bs.
Proof.
  induction bs as [| a | a b | a b c r IH] using list_ind3; intro Hb.
  - reflexivity.
  - inversion Hb as [|? ? Ha _]; subst. unfold byte in Ha.
    cbn [b64_encode b64_decode]. unfold b64_last. rewrite !Z.eqb_refl.
    destruct (b64_val_char (a / 4) ltac:(dm)) as [-> _].
    destruct (b64_val_char (a mod 4 * 16) ltac:(dm)) as [-> _].
    replace (a mod 4 * 16 mod 16 =? 0) with true by (symmetry; apply Z.eqb_eq; dm).
    do 2 f_equal. dm.
  - inversion Hb as [|? ? Ha Hb']; subst. inversion Hb' as [|? ? Hb0 _]; subst. unfold byte in *.
    cbn [b64_encode b64_decode]. unfold b64_last. rewrite Z.eqb_refl.
    destruct (b64_val_char (a / 4) ltac:(dm)) as [-> _].
    destruct (b64_val_char (a mod 4 * 16 + b / 16) ltac:(dm)) as [-> _].
    destruct (b64_val_char (b mod 16 * 4) ltac:(dm)) as [-> Hne].
    replace (b64_char (b mod 16 * 4) =? 61) with false by (symmetry; apply Z.eqb_neq; exact Hne).
    replace (b mod 16 * 4 mod 4 =? 0) with true by (symmetry; apply Z.eqb_eq; dm).
    f_equal. f_equal; [dm|]. f_equal. dm.
  - inversion Hb as [|? ? Ha Hb1]; subst. inversion Hb1 as [|? ? Hb0 Hb2]; subst.
    inversion Hb2 as [|? ? Hc Hr]; subst. unfold byte in *.
    specialize (IH Hr).
    cbn [b64_encode b64_decode].
    assert (Hq : b64_quad (b64_char (a / 4)) (b64_char (a mod 4 * 16 + b / 16))
                          (b64_char (b mod 16 * 4 + c / 64)) (b64_char (c mod 64)) = Some [a; b; c]).
    { unfold b64_quad.
      destruct (b64_val_char (a / 4) ltac:(dm)) as [-> _].
      destruct (b64_val_char (a mod 4 * 16 + b / 16) ltac:(dm)) as [-> _].
      destruct (b64_val_char (b mod 16 * 4 + c / 64) ltac:(dm)) as [-> _].
      destruct (b64_val_char (c mod 64) ltac:(dm)) as [-> _].
      f_equal. f_equal; [dm|]. f_equal; [dm|]. f_equal. dm. }
    destruct (b64_encode r) as [|e es] eqn:Er.
    + assert (r = []) by (destruct r; [reflexivity | exfalso; apply (b64_encode_nonempty (z :: r)); [discriminate | exact Er]]).
      subst r. unfold b64_last.
      destruct (b64_val_char (c mod 64) ltac:(dm)) as [_ Hne].
      replace (b64_char (c mod 64) =? 61) with false by (symmetry; apply Z.eqb_neq; exact Hne).
      exact Hq.
    + rewrite Hq, IH. reflexivity.
Qed.
