//! C16: encrypted user passwords (crypto/user_identity.rs, crypto/pkey.rs).
//! RoundTrip cases go through the real `make_user_name_identity_token` and
//! `decrypt_user_identity_token_password` with real RSA keys; Crafted cases present arbitrary
//! byte strings / well-encrypted malformed plaintexts to `legacy_password_decrypt`; the per-block
//! result of the RSA primitive is recorded as an oracle transcript for the model.
#[path = "../util.rs"]
mod util;
use util::*;
use opcua::crypto::{self, x509::X509Data, KeySize, PrivateKey, RsaPadding, SecurityPolicy, X509};
use opcua::types::{ByteString, UAString, UserNameIdentityToken, UserTokenPolicy, UserTokenType};
use opcua::server::{builder::ServerBuilder, config::{ServerEndpoint, ServerUserToken}, state::ServerState};
use opcua::sync::RwLock;
use opcua::types::{ActivateSessionRequest, ExtensionObject, MessageSecurityMode, ObjectId, RequestHeader, SignatureData};
use std::sync::{Arc, OnceLock};

const POLS: [(SecurityPolicy, &str); 5] = [(SecurityPolicy::Basic128Rsa15, "Basic128Rsa15"), (SecurityPolicy::Basic256, "Basic256"),
    (SecurityPolicy::Basic256Sha256, "Basic256Sha256"), (SecurityPolicy::Aes128Sha256RsaOaep, "Aes128Sha256RsaOaep"),
    (SecurityPolicy::Aes256Sha256RsaPss, "Aes256Sha256RsaPss")];
const PADS: [(RsaPadding, &str, usize); 3] = [(RsaPadding::Pkcs1, "Pkcs1", 11), (RsaPadding::OaepSha1, "OaepSha1", 42), (RsaPadding::OaepSha256, "OaepSha256", 66)];
const ALGS: [&str; 3] = ["http://www.w3.org/2001/04/xmlenc#rsa-1_5", "http://www.w3.org/2001/04/xmlenc#rsa-oaep", "http://opcfoundation.org/UA/security/rsa-oaep-sha2-256"];
const KEYBITS: [u32; 3] = [1024, 2048, 4096];
/// algorithm strings that name none of the three paddings (near misses of the real ones included)
const OTHER_ALGS: [&str; 6] = ["http://www.w3.org/2001/04/xmlenc#rsa-oaep-mgf1p", "http://www.w3.org/2001/04/xmlenc#rsa-1_5 ", "http://www.w3.org/2001/04/xmlenc#RSA-OAEP",
    "http://opcfoundation.org/UA/security/rsa-oaep-sha2-25", "x", "http://opcfoundation.org/UA/SecurityPolicy#Basic256Sha256"];

fn idents() -> &'static Vec<(X509, PrivateKey)> {
    static C: OnceLock<Vec<(X509, PrivateKey)>> = OnceLock::new();
    C.get_or_init(|| {
        KEYBITS.iter().map(|bits| {
            X509::cert_and_pkey(&X509Data {
                key_size: *bits, common_name: format!("verif{}", bits), organization: "o".into(), organizational_unit: "u".into(),
                country: "IE".into(), state: "D".into(), alt_host_names: vec![format!("urn:verif:{}", bits), "localhost".into()],
                certificate_duration_days: 30 }).unwrap()
        }).collect()
    })
}

/// users configured on the real server: (name, password); index 3 of `Auth.user` is a name that is not configured
const USERS: [(&str, &str); 3] = [("alice", "sample1pwd"), ("empty", ""), ("uni", "pässwörd-水-🔑")];
const ENDPOINT_URL: &str = "opc.tcp://localhost:4855/";

/// a real ServerState (sample-like configuration: one sign+encrypt endpoint per policy, three
/// user/password users); its certificate and private key are replaced per case
fn server_state() -> &'static Arc<RwLock<ServerState>> {
    static S: OnceLock<(opcua::server::server::Server, Arc<RwLock<ServerState>>)> = OnceLock::new();
    &S.get_or_init(|| {
        let ids: Vec<String> = USERS.iter().map(|u| format!("id_{}", u.0)).collect();
        let path = "/";
        let mut b = ServerBuilder::new().application_name("verif").application_uri("urn:verif").product_uri("urn:verif")
            .create_sample_keypair(true).certificate_path("own/cert.der").private_key_path("private/private.pem")
            .pki_dir("/tmp/verif-c16-pki").discovery_urls(vec![path.into()]);
        for (i, u) in USERS.iter().enumerate() {
            b = b.user_token(ids[i].clone(), ServerUserToken { user: u.0.to_string(), pass: Some(u.1.to_string()), x509: None, thumbprint: None });
        }
        b = b.endpoints(vec![
            ("e0", ServerEndpoint::new_basic128rsa15_sign_encrypt(path, &ids)),
            ("e1", ServerEndpoint::new_basic256_sign_encrypt(path, &ids)),
            ("e2", ServerEndpoint::new_basic256sha256_sign_encrypt(path, &ids)),
            ("e3", ServerEndpoint::new_aes128_sha256_rsaoaep_sign_encrypt(path, &ids)),
            ("e4", ServerEndpoint::new_aes256_sha256_rsapss_sign_encrypt(path, &ids)),
        ]);
        let server = b.server().expect("server configuration");
        let st = server.server_state();
        (server, st)
    }).1
}

#[derive(Clone, Debug)]
pub enum Mutc { Intact, Truncate(usize), Extend(usize), Flip(usize), Random(usize), Null }
#[derive(Clone, Debug)]
pub enum Case {
    /// encrypt `pw` for nonce `n` under channel policy `pol` with key `key`, decrypt with nonce `n2`
    RoundTrip { key: usize, pol: usize, pw: String, n: Vec<u8>, n2: Vec<u8> },
    /// `plain` encrypted block-wise with `public_encrypt` under padding `penc`, the cipher text
    /// mutated, then `legacy_password_decrypt` with padding `pdec` and nonce `n2`
    Crafted { key: usize, penc: usize, pdec: usize, plain: Vec<u8>, m: Mutc, seed: u64, n2: Vec<u8> },
    /// a token whose EncryptionAlgorithm is null (0), "" (1) or a URI that names no known padding (2),
    /// with arbitrary password bytes (or a null password), through `decrypt_user_identity_token_password`
    Token { uri: u8, other: usize, null: bool, bytes: Vec<u8>, n2: Vec<u8> },
    /// the server: the token made by `make_user_name_identity_token` for user `user` (index into
    /// USERS, 3 = not configured), password `pw` and nonce `n` is presented to
    /// `ServerState::authenticate_endpoint` of a real server whose session nonce is `n2`
    Auth { key: usize, pol: usize, user: usize, pw: String, n: Vec<u8>, n2: Vec<u8> },
}
pub struct P;

fn unicode_pw(r: &mut Rng, max_bytes: usize) -> String {
    let mut s = String::new();
    let target = r.below(max_bytes as u64 + 1) as usize;
    loop {
        let c = match r.below(6) {
            0 => char::from_u32(r.below(0x80) as u32),
            1 => char::from_u32(0x80 + r.below(0x780) as u32),
            2 => char::from_u32(0x800 + r.below(0xF800) as u32), // may hit surrogates -> None
            3 => char::from_u32(0x10000 + r.below(0x100000) as u32),
            4 => Some(*r.pick(&['\u{0}', '\u{7f}', '\u{80}', '\u{7ff}', '\u{800}', '\u{d7ff}', '\u{e000}', '\u{ffff}', '\u{10000}', '\u{10ffff}', 'é', 'ß', '水', '🔑'])),
            _ => char::from_u32(0x20 + r.below(0x5f) as u32),
        };
        if let Some(c) = c {
            if s.len() + c.len_utf8() > target { break; }
            s.push(c);
        }
    }
    s
}
fn pw_len(r: &mut Rng) -> usize {
    match r.below(10) { 0 => 0, 1..=5 => 24, 6 | 7 => 90, 8 => 260, _ => 512 }
}
fn nonce(r: &mut Rng) -> Vec<u8> {
    let l = match r.below(8) { 0 => 0, 1 => 16, 2 | 3 | 4 => 32, 5 => 64, _ => r.below(65) as usize };
    // small alphabet now and then so that suffix coincidences occur
    if r.chance(1, 4) { (0..l).map(|_| 0x61 + r.below(2) as u8).collect() } else { r.bytes(l) }
}
fn le32(v: u32) -> Vec<u8> { v.to_le_bytes().to_vec() }
fn layout(pw: &[u8], n: &[u8]) -> Vec<u8> { let mut v = le32((pw.len() + n.len()) as u32); v.extend_from_slice(pw); v.extend_from_slice(n); v }

/// block-wise encryption with the real `public_encrypt`
fn raw_encrypt(key: usize, penc: usize, plain: &[u8]) -> Vec<u8> {
    let pk = idents()[key].0.public_key().unwrap();
    let size = pk.calculate_cipher_text_size(plain.len(), PADS[penc].0);
    let mut dst = vec![0u8; size];
    let n = pk.public_encrypt(plain, &mut dst, PADS[penc].0).unwrap();
    dst.truncate(n);
    dst
}

fn res_out(r: Result<Result<String, opcua::types::StatusCode>, String>) -> Vec<i128> {
    match r {
        Ok(Ok(s)) => { let mut v = vec![0i128]; v.extend(s.as_bytes().iter().map(|b| *b as i128)); v }
        Ok(Err(_)) => vec![1],
        Err(_) => vec![-2],
    }
}

impl Property for P {
    type Case = Case;
    fn fixed(tier: &str) -> Vec<Case> {
        let mut v = Vec::new();
        let n32: Vec<u8> = (1..=32).collect();
        for key in 0..3 {
            for pol in 0..5 {
                for pw in ["", "x", "password", "pässwörd-水-🔑", &"a".repeat(512), &"🔑".repeat(128)] {
                    v.push(Case::RoundTrip { key, pol, pw: pw.into(), n: n32.clone(), n2: n32.clone() });
                }
                v.push(Case::RoundTrip { key, pol, pw: "secret".into(), n: n32.clone(), n2: (2..=33).collect() });
                v.push(Case::RoundTrip { key, pol, pw: "secret".into(), n: vec![], n2: vec![] });
                v.push(Case::RoundTrip { key, pol, pw: "".into(), n: vec![], n2: vec![] });
                // plain text exactly one / two blocks, and one byte more
                let k = KEYBITS[key] as usize / 8; let ov = PADS[[0usize, 1, 1, 1, 2][pol]].2;
                for blocks in 1..=2usize { for d in [-1i64, 0, 1] {
                    let l = ((k - ov) * blocks) as i64 - 4 - 32 + d;
                    if l >= 0 { v.push(Case::RoundTrip { key, pol, pw: "b".repeat(l as usize), n: n32.clone(), n2: n32.clone() }); }
                } }
            }
            // known finding C16-suffix-nonce: the decrypting nonce is a proper suffix of pw ++ nonce
            v.push(Case::RoundTrip { key, pol: 2, pw: "pw".into(), n: b"abcd".to_vec(), n2: b"cd".to_vec() });
            v.push(Case::RoundTrip { key, pol: 0, pw: "hunter2".into(), n: b"NN".to_vec(), n2: b"r2NN".to_vec() });
            v.push(Case::RoundTrip { key, pol: 4, pw: "pw".into(), n: b"abcd".to_vec(), n2: vec![] });
            // suffix but the remaining "password" is not UTF-8: fails as it should
            v.push(Case::RoundTrip { key, pol: 2, pw: "é".into(), n: b"N".to_vec(), n2: vec![0xa9, b'N'] });
            for pdec in 0..3 {
                // fixed 6c0db8b8: a 100 byte "cipher text" (not a multiple of the key size) panicked in the block loop
                v.push(Case::Crafted { key, penc: pdec, pdec, plain: vec![], m: Mutc::Random(100), seed: 7, n2: n32.clone() });
                v.push(Case::Crafted { key, penc: pdec, pdec, plain: layout(b"pw", &n32), m: Mutc::Truncate(1), seed: 0, n2: n32.clone() });
                v.push(Case::Crafted { key, penc: pdec, pdec, plain: layout(b"pw", &n32), m: Mutc::Extend(1), seed: 0, n2: n32.clone() });
                // fixed 72720213: a well-encrypted plain text shorter than the nonce underflowed
                v.push(Case::Crafted { key, penc: pdec, pdec, plain: layout(b"", b"abc"), m: Mutc::Intact, seed: 0, n2: n32.clone() });
                v.push(Case::Crafted { key, penc: pdec, pdec, plain: le32(0), m: Mutc::Intact, seed: 0, n2: vec![9] });
                v.push(Case::Crafted { key, penc: pdec, pdec, plain: vec![1, 0], m: Mutc::Intact, seed: 0, n2: vec![] });
                v.push(Case::Crafted { key, penc: pdec, pdec, plain: vec![], m: Mutc::Null, seed: 0, n2: vec![] });
                v.push(Case::Crafted { key, penc: pdec, pdec, plain: vec![], m: Mutc::Random(0), seed: 0, n2: vec![] });
                // length prefix too long / too short / huge
                let mut p = layout(b"pw", &n32); p[0] += 1; v.push(Case::Crafted { key, penc: pdec, pdec, plain: p, m: Mutc::Intact, seed: 0, n2: n32.clone() });
                let mut p = layout(b"pw", &n32); p[0] -= 1; v.push(Case::Crafted { key, penc: pdec, pdec, plain: p, m: Mutc::Intact, seed: 0, n2: n32.clone() });
                let mut p = layout(b"pw", &n32); p[3] = 0xff; v.push(Case::Crafted { key, penc: pdec, pdec, plain: p, m: Mutc::Intact, seed: 0, n2: n32.clone() });
                // invalid UTF-8 password
                v.push(Case::Crafted { key, penc: pdec, pdec, plain: layout(&[0xc3], &n32), m: Mutc::Intact, seed: 0, n2: n32.clone() });
                v.push(Case::Crafted { key, penc: pdec, pdec, plain: layout(&[0xed, 0xa0, 0x80], &n32), m: Mutc::Intact, seed: 0, n2: n32.clone() });
                v.push(Case::Crafted { key, penc: pdec, pdec, plain: layout("ok-é".as_bytes(), &n32), m: Mutc::Intact, seed: 0, n2: n32.clone() });
                v.push(Case::Crafted { key, penc: pdec, pdec, plain: layout(b"pw", &n32), m: Mutc::Flip(5), seed: 0, n2: n32.clone() });
                v.push(Case::Crafted { key, penc: pdec, pdec, plain: layout(b"pw", &n32), m: Mutc::Random(KEYBITS[key] as usize / 8), seed: 3, n2: n32.clone() });
                // other padding than the one used to encrypt
                v.push(Case::Crafted { key, penc: pdec, pdec: (pdec + 1) % 3, plain: layout(b"pw", &n32), m: Mutc::Intact, seed: 0, n2: n32.clone() });
            }
        }
        // the server: right / wrong / empty password, users with an empty password, unknown user, other nonce
        for key in 0..3 { for pol in 0..5 {
            if key == 2 && pol % 2 == 1 { continue; }
            for user in 0..4usize {
                let right = if user < 3 { USERS[user].1 } else { "whatever" };
                v.push(Case::Auth { key, pol, user, pw: right.into(), n: n32.clone(), n2: n32.clone() });
                v.push(Case::Auth { key, pol, user, pw: right.into(), n: n32.clone(), n2: (2..=33).collect() });
                v.push(Case::Auth { key, pol, user, pw: "".into(), n: n32.clone(), n2: n32.clone() });
                v.push(Case::Auth { key, pol, user, pw: "".into(), n: n32.clone(), n2: (2..=33).collect() });
                v.push(Case::Auth { key, pol, user, pw: format!("{}x", right), n: n32.clone(), n2: n32.clone() });
            }
        } }
        // known finding C16-suffix-nonce at the server: "sample1" ++ ("pwd" ++ n') read with the nonce n' is alice's password
        v.push(Case::Auth { key: 0, pol: 2, user: 0, pw: "sample1".into(), n: [b"pwd".to_vec(), n32.clone()].concat(), n2: n32.clone() });
        // tokens that are not RSA encrypted: null / empty algorithm (plain text), unknown algorithm
        for uri in 0..3u8 {
            for other in 0..OTHER_ALGS.len() {
                if uri != 2 && other > 0 { continue; }
                v.push(Case::Token { uri, other, null: true, bytes: vec![], n2: n32.clone() });
                v.push(Case::Token { uri, other, null: false, bytes: vec![], n2: n32.clone() });
                v.push(Case::Token { uri, other, null: false, bytes: "pässwörd-🔑".as_bytes().to_vec(), n2: n32.clone() });
                v.push(Case::Token { uri, other, null: false, bytes: vec![0x70, 0xc3], n2: vec![] });
                v.push(Case::Token { uri, other, null: false, bytes: vec![0xff; 128], n2: n32.clone() });
                v.push(Case::Token { uri, other, null: false, bytes: layout(b"pw", &n32), n2: n32.clone() });
            }
        }
        if tier == "thorough" {
            // every password length around the block boundaries of the smallest key
            for pol in [0usize, 2, 4] { for l in 0..=140usize { v.push(Case::RoundTrip { key: 0, pol, pw: "z".repeat(l), n: n32.clone(), n2: n32.clone() }); } }
        }
        v
    }
    fn gen(r: &mut Rng) -> Case {
        let key = match r.below(10) { 0..=4 => 0, 5..=8 => 1, _ => 2 };
        if r.chance(1, 12) {
            let m = pw_len(r).min(90);
            let mut bytes = unicode_pw(r, m).into_bytes();
            match r.below(4) {
                0 if !bytes.is_empty() => { let i = r.below(bytes.len() as u64) as usize; bytes[i] = *r.pick(&[0x80u8, 0xc0, 0xc3, 0xe0, 0xed, 0xf4, 0xf5, 0xff]); }
                1 => { let l = r.below(300) as usize; bytes = r.bytes(l); }
                _ => {}
            }
            return Case::Token { uri: r.below(3) as u8, other: r.below(OTHER_ALGS.len() as u64) as usize, null: r.chance(1, 8), bytes, n2: nonce(r) };
        }
        if r.chance(1, 5) {
            let user = match r.below(20) { 0..=9 => 0, 10..=14 => 1, 15..=17 => 2, _ => 3 };
            let right = if user < 3 { USERS[user].1.to_string() } else { "sample1pwd".to_string() };
            let pw = match r.below(10) {
                0..=5 => right,
                6 => String::new(),
                7 => { let mut c: Vec<char> = right.chars().collect(); if !c.is_empty() { let i = r.below(c.len() as u64) as usize; c.truncate(i); } c.into_iter().collect() }
                8 => format!("{}{}", right, unicode_pw(r, 4)),
                _ => unicode_pw(r, 24),
            };
            let n = if r.chance(3, 4) { r.bytes(32) } else { nonce(r) };
            let n2 = match r.below(10) {
                0..=4 => n.clone(),
                5 | 6 => { let mut x = n.clone(); if x.is_empty() { x.push(r.next() as u8) } else { let i = r.below(x.len() as u64) as usize; x[i] ^= 1 << r.below(8); } x }
                7 => r.bytes(n.len()),
                8 => { let mut x = n.clone(); x.pop(); x }
                _ => nonce(r),
            };
            return Case::Auth { key, pol: r.below(5) as usize, user, pw, n, n2 };
        }
        if r.chance(3, 5) {
            let m = pw_len(r); let pw = unicode_pw(r, m);
            let n = nonce(r);
            let n2 = match r.below(10) {
                0..=4 => n.clone(),
                5 => { let mut x = n.clone(); if x.is_empty() { x.push(r.next() as u8) } else { let i = r.below(x.len() as u64) as usize; x[i] ^= 1 << r.below(8); } x }
                6 => nonce(r),
                7 => { let all = [pw.as_bytes(), &n[..]].concat(); let l = r.below(all.len() as u64 + 1).min(64) as usize; all[all.len() - l..].to_vec() } // a suffix of pw ++ n
                8 => { let mut x = n.clone(); x.pop(); x }
                _ => { let mut x = n.clone(); if x.len() < 64 { x.insert(0, r.next() as u8); } x }
            };
            Case::RoundTrip { key, pol: r.below(5) as usize, pw, n, n2 }
        } else {
            let pdec = r.below(3) as usize;
            let penc = if r.chance(1, 10) { r.below(3) as usize } else { pdec };
            let n2 = nonce(r);
            let m = pw_len(r).min(260);
            let mut pw = unicode_pw(r, m).into_bytes();
            if r.chance(1, 6) && !pw.is_empty() { let i = r.below(pw.len() as u64) as usize; pw[i] = *r.pick(&[0x80u8, 0xc0, 0xc3, 0xe0, 0xed, 0xf4, 0xf5, 0xff]); }
            let n_in = match r.below(6) { 0 => nonce(r), 1 => { let mut x = n2.clone(); x.pop(); x } _ => n2.clone() };
            let mut plain = layout(&pw, &n_in);
            match r.below(12) {
                0 => { plain[0] = plain[0].wrapping_add(1); }
                1 => { plain[0] = plain[0].wrapping_sub(1); }
                2 => { let v = r.below(70) as u32; plain[..4].copy_from_slice(&v.to_le_bytes()); }
                3 => { plain[3] = 0xff; }
                4 => { plain.truncate(r.below(8) as usize); }
                5 => { let l = r.below(40) as usize; plain = r.bytes(l); }
                _ => {}
            }
            let k = KEYBITS[key] as usize / 8;
            let m = match r.below(14) {
                0 => Mutc::Truncate(1 + r.below(k as u64) as usize),
                1 => Mutc::Extend(1 + r.below(k as u64) as usize),
                2 => Mutc::Flip(r.next() as usize),
                3 => Mutc::Random(r.below(3 * k as u64) as usize),
                4 => Mutc::Random(k * r.below(3) as usize),
                5 => if r.chance(1, 3) { Mutc::Null } else { Mutc::Random(0) },
                _ => Mutc::Intact,
            };
            Case::Crafted { key, penc, pdec, plain, m, seed: r.next(), n2 }
        }
    }
    fn exec(c: &Case) -> Out {
        let ids = idents();
        match c {
            Case::RoundTrip { key, pol, pw, n, n2 } => {
                let k = KEYBITS[*key] as usize / 8;
                let policy = UserTokenPolicy { policy_id: UAString::from("p"), token_type: UserTokenType::UserName, issued_token_type: UAString::null(),
                                               issuer_endpoint_url: UAString::null(), security_policy_uri: UAString::null() };
                let cert = Some(ids[*key].0.clone());
                let tok = guarded(|| crypto::make_user_name_identity_token(POLS[*pol].0, &policy, n, &cert, "user", pw));
                let out = match tok {
                    Err(_) => vec![-2],
                    Ok(Err(_)) => vec![1],
                    Ok(Ok(tok)) => {
                        let mut out = vec![tok.password.as_ref().len() as i128];
                        out.extend(res_out(guarded(|| crypto::decrypt_user_identity_token_password(&tok, n2, &ids[*key].1))));
                        out
                    }
                };
                let tag = format!("roundtrip-{}-{}", KEYBITS[*key], if n == n2 { "same-nonce" } else if n.len() == n2.len() { "other-nonce-same-len" } else { "other-nonce-other-len" });
                let term = format!("(RoundTrip {} {} {} {} {})", k, POLS[*pol].1, zbytes(pw.as_bytes()), zbytes(n), zbytes(n2));
                Out { tag, term, out }
            }
            Case::Auth { key, pol, user, pw, n, n2 } => {
                let k = KEYBITS[*key] as usize / 8;
                let policy_id = if *pol == 0 { "userpass_rsa_15" } else { "userpass_rsa_oaep" };
                let policy = UserTokenPolicy { policy_id: UAString::from(policy_id), token_type: UserTokenType::UserName, issued_token_type: UAString::null(),
                                               issuer_endpoint_url: UAString::null(), security_policy_uri: UAString::null() };
                let cert = Some(ids[*key].0.clone());
                let name = if *user < 3 { USERS[*user].0 } else { "mallory" };
                let res = guarded(|| {
                    let tok = crypto::make_user_name_identity_token(POLS[*pol].0, &policy, n, &cert, name, pw)?;
                    let eo = ExtensionObject::from_encodable(ObjectId::UserNameIdentityToken_Encoding_DefaultBinary, &tok);
                    let st = server_state();
                    {
                        let mut w = st.write();
                        w.server_certificate = cert.clone();
                        w.server_pkey = Some(PrivateKey::from_pem(&ids[*key].1.private_key_to_pem().unwrap()).unwrap());
                    }
                    let request = ActivateSessionRequest { request_header: RequestHeader::dummy(),
                        client_signature: SignatureData { algorithm: UAString::null(), signature: ByteString::null() },
                        client_software_certificates: None, locale_ids: None, user_identity_token: ExtensionObject::null(),
                        user_token_signature: SignatureData { algorithm: UAString::null(), signature: ByteString::null() } };
                    let r = st.read().authenticate_endpoint(&request, ENDPOINT_URL, POLS[*pol].0, MessageSecurityMode::SignAndEncrypt, &eo, &ByteString::from(n2));
                    r.map(|_| ())
                });
                let out = match res { Ok(Ok(())) => vec![0], Ok(Err(_)) => vec![1], Err(_) => vec![-2] };
                let stored = if *user < 3 { format!("(Some {})", zbytes(USERS[*user].1.as_bytes())) } else { "None".to_string() };
                let tag = format!("server-{}-{}{}", KEYBITS[*key], if n == n2 { "same-nonce" } else if n.len() == n2.len() { "other-nonce-same-len" } else { "other-nonce-other-len" },
                                  if out[0] == 0 { "-activated" } else { "" });
                let term = format!("(Auth {} {} {} {} {} {})", k, POLS[*pol].1, stored, zbytes(pw.as_bytes()), zbytes(n), zbytes(n2));
                Out { tag, term, out }
            }
            Case::Token { uri, other, null, bytes, n2 } => {
                let alg = match uri { 0 => UAString::null(), 1 => UAString::from(""), _ => UAString::from(OTHER_ALGS[*other]) };
                let secret = if *null { ByteString::null() } else { ByteString::from(bytes) };
                let tok = UserNameIdentityToken { policy_id: UAString::from("p"), user_name: UAString::from("user"), password: secret, encryption_algorithm: alg };
                let out = res_out(guarded(|| crypto::decrypt_user_identity_token_password(&tok, n2, &ids[0].1)));
                let tag = format!("token-{}{}", ["null-algorithm", "empty-algorithm", "unknown-algorithm"][*uri as usize], if out[0] == 0 { "-accepted" } else { "" });
                let term = format!("(Token {} {} {} {})", uri, coq_bool(*null), zbytes(bytes), zbytes(n2));
                Out { tag, term, out }
            }
            Case::Crafted { key, penc, pdec, plain, m, seed, n2 } => {
                let k = KEYBITS[*key] as usize / 8;
                let mut r = Rng::new(*seed);
                let mut cipher = if plain.is_empty() { vec![] } else { raw_encrypt(*key, *penc, plain) };
                let mut null = false;
                match m {
                    Mutc::Intact => {}
                    Mutc::Truncate(t) => { let l = cipher.len().saturating_sub(*t); cipher.truncate(l); }
                    Mutc::Extend(t) => { let e = r.bytes(*t); cipher.extend(e); }
                    Mutc::Flip(p) => { if !cipher.is_empty() { let i = p % cipher.len(); cipher[i] ^= 1 << (p / 7 % 8); } }
                    Mutc::Random(l) => { cipher = r.bytes(*l); }
                    Mutc::Null => { null = true; cipher.clear(); }
                }
                // oracle transcript: the RSA primitive on each whole block (up to the first failure)
                let mut tr: Vec<Option<Vec<u8>>> = Vec::new();
                for b in cipher.chunks(k) {
                    if b.len() < k { break; }
                    let mut dst = vec![0u8; k];
                    match ids[*key].1.private_decrypt(b, &mut dst, PADS[*pdec].0) {
                        Ok(l) => { dst.truncate(l); tr.push(Some(dst)); }
                        Err(_) => { tr.push(None); break; }
                    }
                }
                let secret = if null { ByteString::null() } else { ByteString::from(&cipher) };
                let tok = UserNameIdentityToken { policy_id: UAString::from("p"), user_name: UAString::from("user"), password: secret, encryption_algorithm: UAString::from(ALGS[*pdec]) };
                let out = res_out(guarded(|| crypto::decrypt_user_identity_token_password(&tok, n2, &ids[*key].1)));
                let tag = format!("crafted-{}{}{}", match m { Mutc::Intact => "wellencrypted", Mutc::Truncate(_) => "truncated", Mutc::Extend(_) => "extended", Mutc::Flip(_) => "bitflip",
                                                              Mutc::Random(_) => "randombytes", Mutc::Null => "null" },
                                  if penc != pdec { "-otherpadding" } else { "" },
                                  if out[0] == 0 { "-accepted" } else { "" });
                let term = format!("(Crafted {} {} {} {} {} {})", k, PADS[*pdec].1, coq_bool(null), cipher.len(),
                                   coq_list(&tr, |b| coq_opt(b, |x| zbytes(x))), zbytes(n2));
                Out { tag, term, out }
            }
        }
    }
}
fn main() { run_main::<P>() }
