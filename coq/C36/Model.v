(* C36 — each received notification is acknowledged exactly once
   (lib/src/client/session/services/subscriptions/{state,service}.rs).

   Model of the client's acknowledgement bookkeeping as the code has it:
     SubscriptionState.acknowledgements : Vec<(subscription id, sequence number)>
     Session::publish:  take_acknowledgements  ->  send PublishRequest(acks)
        Ok(PublishResponse)  -> handle_notification: push (sub, seq) of the response
        anything else        -> re_queue_acknowledgements(acks)   (extend at the back)
   Several publish calls may be in flight at once (the session event loop starts a new one
   while older ones wait for their responses), so the operations interleave freely. *)
From Coq Require Import List ZArith Bool.
Import ListNotations.
Open Scope Z_scope.

Definition ack := (Z * Z)%type.            (* subscription id, sequence number *)

Inductive op :=
| Start                                   (* a publish call takes the acks and sends its request *)
| RespOk (k : Z) (sub seq : Z) (data : Z)  (* the k-th oldest in-flight request gets a PublishResponse; [data] says
                                             what its notification message carries (0 nothing, 1 a data change,
                                             2 a data change and a status change, 3 an undecodable body): the
                                             sequence number is acknowledged whatever the content *)
| RespOkBad (k : Z) (sub seq : Z)         (* … a PublishResponse whose header carries a Bad service result:
                                             the server received the request and the response still carries a
                                             sequence number, so the client treats it like any PublishResponse *)
| RespErr (k : Z)                         (* … fails: timeout, service fault, unexpected response *)
| StartDown (kind : Z)                    (* a publish call while the transport is down (0 not connected, 1 queue
                                             closed): the request never reaches the server, the call fails *)
| SubAdd (sub : Z)                        (* the client creates / deletes / modifies a subscription, or switches *)
| SubDel (sub : Z)                        (* its publishing mode: none of these touches the acknowledgements    *)
| SubMod (sub : Z)
| SubPub (sub : Z).

Record st := {
  pending : list ack;                     (* SubscriptionState.acknowledgements *)
  inflight : list (list ack);             (* acks carried by requests whose outcome is not known yet, oldest first *)
  sent_ok : list (list ack);              (* ghost: acks of requests that completed successfully *)
  received : list ack                     (* ghost: every (sub, seq) a publish response delivered *)
}.

Definition init : st := {| pending := []; inflight := []; sent_ok := []; received := [] |}.

Fixpoint remove_nth {A} (n : nat) (l : list A) : list A :=
  match n, l with
  | _, [] => []
  | O, _ :: l' => l'
  | S n', x :: l' => x :: remove_nth n' l'
  end.

(* which in-flight request an index designates: k modulo the number in flight *)
Definition pick (k : Z) (n : nat) : nat := Z.to_nat (k mod Z.of_nat n).

Definition step (s : st) (o : op) : st :=
  match o with
  | Start =>
      {| pending := []; inflight := inflight s ++ [pending s];
         sent_ok := sent_ok s; received := received s |}
  | RespOk k sub seq _ =>
      match inflight s with
      | [] => s
      | _ => let i := pick k (length (inflight s)) in
             {| pending := pending s ++ [(sub, seq)];
                inflight := remove_nth i (inflight s);
                sent_ok := sent_ok s ++ [nth i (inflight s) []];
                received := received s ++ [(sub, seq)] |}
      end
  | RespOkBad k sub seq =>
      match inflight s with
      | [] => s
      | _ => let i := pick k (length (inflight s)) in
             {| pending := pending s ++ [(sub, seq)];
                inflight := remove_nth i (inflight s);
                sent_ok := sent_ok s ++ [nth i (inflight s) []];
                received := received s ++ [(sub, seq)] |}
      end
  | RespErr k =>
      match inflight s with
      | [] => s
      | _ => let i := pick k (length (inflight s)) in
             {| pending := pending s ++ nth i (inflight s) [];
                inflight := remove_nth i (inflight s);
                sent_ok := sent_ok s; received := received s |}
      end
  | StartDown _ => s              (* taken and re-queued within the call *)
  | SubAdd _ | SubDel _ | SubMod _ | SubPub _ => s
  end.

(* ---- correspondence interface ---------------------------------------------- *)
Definition case := list op.

Fixpoint flat (l : list ack) : list Z :=
  match l with [] => [] | (a, b) :: l' => a :: b :: flat l' end.
Definition enc (l : list ack) : list Z := Z.of_nat (length l) :: flat l.

(* observable per operation: Start -> the acks carried by the request that was sent;
   responses -> the acks waiting in the subscription state afterwards *)
Definition obs (s : st) (o : op) : list Z :=
  match o with
  | Start => enc (pending s)
  | _ => enc (pending (step s o))
  end.

Fixpoint run_from (s : st) (c : case) : list Z :=
  match c with
  | [] => []
  | o :: c' => obs s o ++ run_from (step s o) c'
  end.
Definition run (c : case) : list Z := run_from init c.

(* ---- the property as a predicate on an observed output ------------------------ *)
(* multiset operations on ack lists *)
Definition ack_eqb (x y : ack) : bool := (fst x =? fst y) && (snd x =? snd y).

Fixpoint remove_one (x : ack) (l : list ack) : option (list ack) :=
  match l with
  | [] => None
  | y :: l' => if ack_eqb x y then Some l'
               else match remove_one x l' with Some r => Some (y :: r) | None => None end
  end.

Fixpoint remove_all (xs l : list ack) : option (list ack) :=
  match xs with
  | [] => Some l
  | x :: xs' => match remove_one x l with Some l' => remove_all xs' l' | None => None end
  end.

Definition ms_eqb (a b : list ack) : bool :=
  match remove_all a b with Some [] => true | _ => false end.

(* decode one encoded ack list from the front of the output *)
Fixpoint take_pairs (n : nat) (l : list Z) : option (list ack * list Z) :=
  match n with
  | O => Some ([], l)
  | S n' => match l with
            | a :: b :: l' => match take_pairs n' l' with
                              | Some (ps, r) => Some ((a, b) :: ps, r)
                              | None => None
                              end
            | _ => None
            end
  end.
Definition dec (l : list Z) : option (list ack * list Z) :=
  match l with
  | n :: l' => if n <? 0 then None else take_pairs (Z.to_nat n) l'
  | [] => None
  end.

(* the ledger the property talks about: [avail] = acks received and not yet carried by a request
   that succeeded or is still in flight; [infl] = acks carried by in-flight requests *)
Fixpoint oracle_from (avail : list ack) (infl : list (list ack)) (c : case) (out : list Z) : bool :=
  match c with
  | [] => match out with [] => true | _ => false end
  | o :: c' =>
      match dec out with
      | None => false
      | Some (seen, out') =>
          match o with
          | Start =>
              (* a request may only acknowledge what was received and is not already carried by
                 another request; what it carries leaves the waiting set *)
              match remove_all seen avail with
              | Some rest => oracle_from rest (infl ++ [seen]) c' out'
              | None => false
              end
          | StartDown _ | SubAdd _ | SubDel _ | SubMod _ | SubPub _ =>
              (* nothing was received by the server and nothing new by the client: what waits is unchanged *)
              ms_eqb seen avail && oracle_from avail infl c' out'
          | RespOk k sub seq _ =>
              match infl with
              | [] => ms_eqb seen avail && oracle_from avail infl c' out'
              | _ => let i := pick k (length infl) in
                     let avail' := avail ++ [(sub, seq)] in
                     (* the new number waits to be acknowledged; the acks of the request that
                        succeeded must not come back *)
                     ms_eqb seen avail' && oracle_from avail' (remove_nth i infl) c' out'
              end
          | RespOkBad k sub seq =>
              match infl with
              | [] => ms_eqb seen avail && oracle_from avail infl c' out'
              | _ => let i := pick k (length infl) in
                     let avail' := avail ++ [(sub, seq)] in
                     (* the new number waits to be acknowledged; the acks of the request that
                        succeeded must not come back *)
                     ms_eqb seen avail' && oracle_from avail' (remove_nth i infl) c' out'
              end
          | RespErr k =>
              match infl with
              | [] => ms_eqb seen avail && oracle_from avail infl c' out'
              | _ => let i := pick k (length infl) in
                     let avail' := avail ++ nth i infl [] in
                     (* the acks of the failed request wait again *)
                     ms_eqb seen avail' && oracle_from avail' (remove_nth i infl) c' out'
              end
          end
      end
  end.

Definition oracle (c : case) (out : list Z) : bool := oracle_from [] [] c out.

Definition known (c : case) : Z := 0.
