(* C16 — encrypted user passwords (lib/src/crypto/user_identity.rs, lib/src/crypto/pkey.rs).

   Model of  make_user_name_identity_token / legacy_password_encrypt / PublicKey::public_encrypt
   and       decrypt_user_identity_token_password / legacy_password_decrypt /
             PrivateKey::private_decrypt
   as committed in the repository (after the two `fix:` commits, the code before them is in
   [Legacy]).  One RSA block operation is an oracle: Section variables [enc] / [dec]; the laws
   assumed of them are hypotheses of the theorems in Proofs.v, never axioms.

   Bytes are Z, lengths and indices nat (they are bounded by the message length).  Every Rust
   panic site (usize subtraction, slicing, `%`/`/` by zero, assert_eq!) is an explicit [Panic]. *)
From Coq Require Import List ZArith Bool Arith Lia.
Import ListNotations.
Open Scope Z_scope.

Inductive outcome (A : Type) := Ok (a : A) | Err | Panic.
Arguments Ok {A} a. Arguments Err {A}. Arguments Panic {A}.

Inductive padding := Pkcs1 | OaepSha1 | OaepSha256.
(* PKey::plain_text_block_size: size() - 11 / 42 / 66 *)
Definition overhead (p : padding) : nat :=
  match p with Pkcs1 => 11 | OaepSha1 => 42 | OaepSha256 => 66 end%nat.

Inductive policy := Basic128Rsa15 | Basic256 | Basic256Sha256 | Aes128Sha256RsaOaep | Aes256Sha256RsaPss.
(* SecurityPolicy::asymmetric_encryption_padding *)
Definition padding_of (p : policy) : padding :=
  match p with
  | Basic128Rsa15 => Pkcs1
  | Basic256 | Basic256Sha256 | Aes128Sha256RsaOaep => OaepSha1
  | Aes256Sha256RsaPss => OaepSha256
  end.
(* the EncryptionAlgorithm URI: SecurityPolicy::asymmetric_encryption_algorithm *)
Inductive alg := AlgRsa15 | AlgOaep | AlgOaepSha256 | AlgOther.
Definition alg_of (p : policy) : alg :=
  match p with
  | Basic128Rsa15 => AlgRsa15
  | Basic256 | Basic256Sha256 | Aes128Sha256RsaOaep => AlgOaep
  | Aes256Sha256RsaPss => AlgOaepSha256
  end.
(* decrypt_user_identity_token_password: padding from the algorithm URI *)
Definition padding_of_alg (a : alg) : option padding :=
  match a with AlgRsa15 => Some Pkcs1 | AlgOaep => Some OaepSha1 | AlgOaepSha256 => Some OaepSha256 | AlgOther => None end.

(* ---------- bytes ---------- *)
Fixpoint list_eqb (a b : list Z) : bool :=
  match a, b with
  | [], [] => true
  | x :: a', y :: b' => (x =? y) && list_eqb a' b'
  | _, _ => false
  end.

(* write_u32 / read_u32: little endian *)
Definition le32 (v : Z) : list Z := [v mod 256; (v / 256) mod 256; (v / 65536) mod 256; (v / 16777216) mod 256].
Definition rd32 (l : list Z) : Z :=
  match l with
  | [b0; b1; b2; b3] => b0 + 256 * b1 + 65536 * b2 + 16777216 * b3
  | _ => 0
  end.

(* &l[a..b] : None = the slice panics *)
Definition slice (l : list Z) (a b : nat) : option (list Z) :=
  if ((a <=? b) && (b <=? length l))%nat then Some (firstn (b - a) (skipn a l)) else None.

(* String::from_utf8: well-formed UTF-8 (Unicode table 3-7: no overlong forms, no surrogates,
   nothing above U+10FFFF) *)
Definition cont (b : Z) : bool := (128 <=? b) && (b <=? 191).
Fixpoint utf8_valid (l : list Z) : bool :=
  match l with
  | [] => true
  | b0 :: t0 =>
    if (0 <=? b0) && (b0 <=? 127) then utf8_valid t0 else
    match t0 with
    | [] => false
    | b1 :: t1 =>
      if (194 <=? b0) && (b0 <=? 223) then cont b1 && utf8_valid t1 else
      match t1 with
      | [] => false
      | b2 :: t2 =>
        if b0 =? 224 then (160 <=? b1) && (b1 <=? 191) && cont b2 && utf8_valid t2
        else if ((225 <=? b0) && (b0 <=? 236)) || (b0 =? 238) || (b0 =? 239) then cont b1 && cont b2 && utf8_valid t2
        else if b0 =? 237 then (128 <=? b1) && (b1 <=? 159) && cont b2 && utf8_valid t2
        else
        match t2 with
        | [] => false
        | b3 :: t3 =>
          if b0 =? 240 then (144 <=? b1) && (b1 <=? 191) && cont b2 && cont b3 && utf8_valid t3
          else if (241 <=? b0) && (b0 <=? 243) then cont b1 && cont b2 && cont b3 && utf8_valid t3
          else if b0 =? 244 then (128 <=? b1) && (b1 <=? 143) && cont b2 && cont b3 && utf8_valid t3
          else false
        end
      end
    end
  end.

(* ---------- the code, relative to the RSA block oracle ---------- *)
Section Rsa.
  Variable R : Type.                    (* the randomness one block encryption consumes *)
  Variable k : nat.                     (* PKey::size(): key size = cipher text block size, in bytes *)
  Variable enc : padding -> R -> list Z -> option (list Z).  (* RSA_public_encrypt of one block; None = error *)
  Variable dec : padding -> list Z -> option (list Z).       (* RSA_private_decrypt of one block; None = error *)

  (* plain_text_block_size: usize subtraction *)
  Definition pbs (p : padding) : outcome nat :=
    if (k <? overhead p)%nat then Panic else Ok (k - overhead p)%nat.

  (* calculate_cipher_text_size: `%` and `/` panic on a zero block size *)
  Definition block_count (data_size b : nat) : nat :=
    if (data_size mod b =? 0)%nat then (data_size / b)%nat else (data_size / b + 1)%nat.
  Definition cipher_text_size (data_size : nat) (p : padding) : outcome nat :=
    match pbs p with
    | Ok b => if (b =? 0)%nat then Panic else Ok (block_count data_size b * k)%nat
    | Err => Err | Panic => Panic
    end.

  (* PublicKey::public_encrypt: the while loop.  [acc] is dst[0..dst_idx], so dst_idx = length acc;
     [blk] counts the blocks (it only selects the randomness). *)
  Fixpoint enc_loop (fuel : nat) (p : padding) (rs : nat -> R) (b : nat) (src : list Z) (dst_len : nat)
           (src_idx : nat) (acc : list Z) (blk : nat) : outcome (list Z) :=
    match fuel with
    | O => Panic
    | S fuel' =>
      let src_len := length src in
      if (src_len <=? src_idx)%nat then Ok acc else
      let bytes := if (src_len <? b)%nat then src_len
                   else if (src_len - src_idx <? b)%nat then (src_len - src_idx)%nat else b in
      match slice src src_idx (src_idx + bytes) with
      | None => Panic
      | Some s =>
        if (dst_len <? length acc + k)%nat then Panic else
        match enc p (rs blk) s with
        | None => Err
        | Some c => enc_loop fuel' p rs b src dst_len (src_idx + bytes)%nat (acc ++ c) (S blk)
        end
      end
    end.
  Definition public_encrypt (p : padding) (rs : nat -> R) (src : list Z) (dst_len : nat) : outcome (list Z) :=
    match pbs p with
    | Ok b => enc_loop (S (length src)) p rs b src dst_len 0 [] 0
    | Err => Err | Panic => Panic
    end.

  (* legacy_password_encrypt *)
  Definition password_encrypt (p : padding) (rs : nat -> R) (pw nonce : list Z) : outcome (list Z) :=
    let plaintext_size := (4 + length pw + length nonce)%nat in
    let src := le32 (Z.of_nat (plaintext_size - 4) mod 2 ^ 32) ++ pw ++ nonce in
    match cipher_text_size plaintext_size p with
    | Ok cipher_size =>
      match public_encrypt p rs src cipher_size with
      | Ok c => if (length c =? cipher_size)%nat then Ok c else Panic     (* assert_eq!(actual_size, cipher_size) *)
      | Err => Err | Panic => Panic
      end
    | Err => Err | Panic => Panic
    end.

  (* PrivateKey::private_decrypt (with the guard of fix 6c0db8b8); [acc] = dst[0..dst_idx] *)
  Fixpoint dec_loop (fuel : nat) (p : padding) (src : list Z) (dst_len : nat) (src_idx : nat) (acc : list Z)
    : outcome (list Z) :=
    match fuel with
    | O => Panic
    | S fuel' =>
      if (length src <=? src_idx)%nat then Ok acc else
      match slice src src_idx (src_idx + k) with
      | None => Panic
      | Some blk =>
        if (dst_len <? length acc + k)%nat then Panic else
        match dec p blk with
        | None => Err
        | Some pl => dec_loop fuel' p src dst_len (src_idx + k)%nat (acc ++ pl)
        end
      end
    end.
  Definition private_decrypt (p : padding) (src : list Z) (dst_len : nat) : outcome (list Z) :=
    if (k =? 0)%nat || negb (length src mod k =? 0)%nat || (dst_len <? length src)%nat then Err
    else dec_loop (S (length src)) p src dst_len 0 [].

  (* the tail of legacy_password_decrypt, after the RSA decryption: [plain] is dst[0..actual_size],
     [dst_len] the size of the buffer (the rest of it is zero) *)
  Definition parse_plain (guard : bool) (plain : list Z) (dst_len : nat) (nonce : list Z) : outcome (list Z) :=
    let actual := length plain in
    let dst := plain ++ repeat 0 (dst_len - actual) in
    if (length dst <? 4)%nat then Err else                                   (* read_u32 on a short buffer *)
    let psz := rd32 (firstn 4 dst) in
    if negb (psz + 4 =? Z.of_nat actual) || (guard && (psz <? Z.of_nat (length nonce))) then Err else
    if (actual <? length nonce)%nat then Panic else                          (* actual_size - nonce_len *)
    let nonce_begin := (actual - length nonce)%nat in
    match slice dst nonce_begin (nonce_begin + length nonce) with
    | None => Panic
    | Some nn =>
      if negb (list_eqb nn nonce) then Err else
      match slice dst 4 nonce_begin with
      | None => Panic
      | Some pw => if utf8_valid pw then Ok pw else Err
      end
    end.

  (* legacy_password_decrypt; [secret] = None is the null ByteString *)
  Definition password_decrypt (p : padding) (secret : option (list Z)) (nonce : list Z) : outcome (list Z) :=
    match secret with
    | None => Err
    | Some src =>
      match private_decrypt p src (length src) with
      | Ok plain => parse_plain true plain (length src) nonce
      | Err => Err | Panic => Panic
      end
    end.

  (* decrypt_user_identity_token_password for a non-empty EncryptionAlgorithm *)
  Definition decrypt_token (a : alg) (secret : option (list Z)) (nonce : list Z) : outcome (list Z) :=
    match padding_of_alg a with
    | Some p => password_decrypt p secret nonce
    | None => Err
    end.

End Rsa.

(* decrypt_user_identity_token_password for the algorithm strings that do not name an RSA padding:
   a null or empty EncryptionAlgorithm is the plain text branch (UserNameIdentityToken::
   plaintext_password: String::from_utf8 of the password bytes, a null password being no bytes),
   any other string is BadIdentityTokenInvalid.  [uri]: 0 = null, 1 = "", otherwise an unknown URI. *)
Definition plaintext_password (secret : option (list Z)) : outcome (list Z) :=
  let b := match secret with Some b => b | None => [] end in
  if utf8_valid b then Ok b else Err.
Definition decrypt_token_other (uri : Z) (secret : option (list Z)) : outcome (list Z) :=
  if (uri =? 0) || (uri =? 1) then plaintext_password secret else Err.

(* ServerState::authenticate_username_identity_token (server/state.rs) for a token with an RSA
   EncryptionAlgorithm, on an endpoint that supports user/password tokens and whose policy id the
   token carries: the password is decrypted with the session's server nonce - an error there is
   the result - and compared, as UTF-8 bytes, with the password configured for the first user of
   that name; an unknown user or another password is BadUserAccessDenied.
   [stored] = None: no user of that name is configured. *)
Definition authenticate (k : nat) (dec : padding -> list Z -> option (list Z)) (a : alg)
           (secret : option (list Z)) (nonce : list Z) (stored : option (list Z)) : outcome unit :=
  match decrypt_token k dec a secret nonce with
  | Ok pw => match stored with
             | Some s => if list_eqb s pw then Ok tt else Err
             | None => Err
             end
  | Err => Err
  | Panic => Panic
  end.

(* ---------- the code before the fixes ---------- *)
Definition private_decrypt_fixed := private_decrypt.
Module Legacy.
Section Rsa.
  Variable k : nat.
  Variable dec : padding -> list Z -> option (list Z).
  (* before fix e300a6dc the constants ASYMMETRIC_ENCRYPTION_ALGORITHM of the two newest policies
     named another algorithm than the padding that asymmetric_encryption_padding() selects *)
  Definition alg_of (p : policy) : alg :=
    match p with
    | Basic128Rsa15 | Aes128Sha256RsaOaep => AlgRsa15
    | Basic256 | Basic256Sha256 | Aes256Sha256RsaPss => AlgOaep
    end.
  (* private_decrypt without the length guard: the slices of the block loop panic *)
  Definition private_decrypt (p : padding) (src : list Z) (dst_len : nat) : outcome (list Z) :=
    dec_loop k dec (S (length src)) p src dst_len 0 [].
  (* legacy_password_decrypt without `plaintext_size < server_nonce.len()`: the subtraction
     actual_size - nonce_len underflows; [fixed_rsa] selects which private_decrypt is underneath *)
  Definition password_decrypt (fixed_rsa : bool) (p : padding) (secret : option (list Z)) (nonce : list Z) : outcome (list Z) :=
    match secret with
    | None => Err
    | Some src =>
      match (if fixed_rsa then private_decrypt_fixed k dec p src (length src) else private_decrypt p src (length src)) with
      | Ok plain => parse_plain false plain (length src) nonce
      | Err => Err | Panic => Panic
      end
    end.
End Rsa.
End Legacy.

(* ---------- correspondence interface ---------- *)
(* A toy block cipher that satisfies the laws assumed of RSA: a block is  len_hi, len_lo, data,
   zero padding up to k bytes, preceded by a byte naming the padding (decrypting under another
   padding fails).  By the theorems of Proofs.v the results below do not depend on
   which lawful cipher is used. *)
Definition tag (p : padding) : Z := match p with Pkcs1 => 2 | OaepSha1 => 1 | OaepSha256 => 3 end.
Definition toy_block (k : nat) (p : padding) (pl : list Z) : list Z :=
  [tag p; Z.of_nat (length pl) / 256; Z.of_nat (length pl) mod 256] ++ pl ++ repeat 0 (k - 3 - length pl).
Definition toy_enc (k : nat) (p : padding) (_ : unit) (pl : list Z) : option (list Z) :=
  if (length pl <=? k - overhead p)%nat then Some (toy_block k p pl) else None.
Definition toy_dec (k : nat) (p : padding) (c : list Z) : option (list Z) :=
  match c with
  | t :: h :: l :: rest =>
    let n := Z.to_nat (h * 256 + l) in
    if (length c =? k)%nat && (t =? tag p) && (n <=? k - overhead p)%nat
    then Some (firstn n rest) else None
  | _ => None
  end.
(* a block on which the toy decryption fails *)
Definition bad_block (k : nat) : list Z := repeat 255 k.

Inductive case :=
  (* key size in bytes, channel policy, password (UTF-8 bytes), nonce used to encrypt, nonce used to decrypt *)
| RoundTrip (k : Z) (pol : policy) (pw n n' : list Z)
  (* key size, padding used to decrypt, null secret?, cipher text length, transcript of the RSA
     primitive on the whole blocks of the cipher text (up to the first failure), nonce *)
| Crafted (k : Z) (p : padding) (null : bool) (clen : Z) (tr : list (option (list Z))) (n' : list Z)
  (* a token whose EncryptionAlgorithm is null (0), empty (1) or an unknown URI (2): password bytes
     (or a null password), nonce *)
| Token (uri : Z) (null : bool) (bytes : list Z) (n' : list Z)
  (* ActivateSession on a real ServerState: key size, endpoint policy, the password configured for
     the user named in the token (None: no such user), the password the client encrypted with the
     nonce n, the server nonce n' of the session *)
| Auth (k : Z) (pol : policy) (stored : option (list Z)) (pw n n' : list Z).

Definition encode (r : outcome (list Z)) : list Z :=
  match r with Ok pw => 0 :: pw | Err => [1] | Panic => [-2] end.

(* the cipher text the toy cipher would have for a transcript *)
Definition synth (k : nat) (p : padding) (clen : nat) (tr : list (option (list Z))) : list Z :=
  let body := concat (map (fun o => match o with Some pl => toy_block k p pl | None => bad_block k end) tr) in
  body ++ repeat 0 (clen - length body).

Definition run (c : case) : list Z :=
  match c with
  | RoundTrip kz pol pw n n' =>
    let k := Z.to_nat kz in
    match password_encrypt unit k (toy_enc k) (padding_of pol) (fun _ => tt) pw n with
    | Ok ct => Z.of_nat (length ct) :: encode (decrypt_token k (toy_dec k) (alg_of pol) (Some ct) n')
    | Err => [1]
    | Panic => [-2]
    end
  | Crafted kz p null clen tr n' =>
    let k := Z.to_nat kz in
    encode (password_decrypt k (toy_dec k) p (if null then None else Some (synth k p (Z.to_nat clen) tr)) n')
  | Token uri null bytes n' => encode (decrypt_token_other uri (if null then None else Some bytes))
  | Auth kz pol stored pw n n' =>
    let k := Z.to_nat kz in
    match password_encrypt unit k (toy_enc k) (padding_of pol) (fun _ => tt) pw n with
    | Ok ct => match authenticate k (toy_dec k) (alg_of pol) (Some ct) n' stored with
               | Ok _ => [0] | Err => [1] | Panic => [-2]
               end
    | Err => [1]
    | Panic => [-2]
    end
  end.

(* ---------- the property ---------- *)
Definition is_suffix (s l : list Z) : bool :=
  (length s <=? length l)%nat && list_eqb (skipn (length l - length s) l) s.

(* known finding 1 (C16-suffix-nonce): decrypting with another nonce succeeds (with another
   password) exactly when that nonce is a suffix of  password ++ nonce  and what is left in front of
   it is UTF-8.  Nonces of the same length are never in the class. *)
Definition suffix_class (pw n n' : list Z) : bool :=
  negb (list_eqb n n') && is_suffix n' (pw ++ n) &&
  utf8_valid (firstn (length pw + length n - length n') (pw ++ n)).

Definition known (c : case) : Z :=
  match c with
  | RoundTrip _ _ pw n n' => if suffix_class pw n n' then 1 else 0
  | Crafted _ _ _ _ _ _ => 0
  | Token _ _ _ _ => 0
  | Auth _ _ _ pw n n' => if suffix_class pw n n' then 1 else 0
  end.

(* reference evaluation of a decrypted plain text, written on the layout
   length(4, LE) ++ password ++ nonce  and not on the index arithmetic of the code *)
Definition ref_parse (plain nonce : list Z) : option (list Z) :=
  let body := skipn 4 plain in
  if (4 <=? length plain)%nat && (rd32 (firstn 4 plain) =? Z.of_nat (length body)) && is_suffix nonce body then
    let pw := firstn (length body - length nonce) body in
    if utf8_valid pw then Some pw else None
  else None.

Fixpoint all_plain (tr : list (option (list Z))) : option (list Z) :=
  match tr with
  | [] => Some []
  | Some pl :: tr' => match all_plain tr' with Some r => Some (pl ++ r) | None => None end
  | None :: _ => None
  end.

Definition oracle (c : case) (out : list Z) : bool :=
  match c with
  | RoundTrip kz pol pw n n' =>
    let b := kz - Z.of_nat (overhead (padding_of pol)) in
    let size := 4 + Z.of_nat (length pw) + Z.of_nat (length n) in
    match out with
    | clen :: rest =>
      (clen =? (size + b - 1) / b * kz) &&
      (if list_eqb n n' then list_eqb rest (0 :: pw)      (* same nonce: the password comes back *)
       else list_eqb rest [1])                           (* different nonce: decryption fails *)
    | [] => false
    end
  | Crafted kz p null clen tr n' =>
    (* any byte string: Ok or Err, never a panic; Ok exactly for a well-formed plain text *)
    let expected :=
      if null || negb (clen mod kz =? 0) then None
      else match all_plain tr with Some plain => ref_parse plain n' | None => None end in
    list_eqb out (match expected with Some pw => 0 :: pw | None => [1] end)
  | Token uri null bytes n' =>
    (* never a panic; an algorithm that is not understood is an error; a password that was not
       encrypted comes back as it is or is refused, it is never turned into another one *)
    let sent := if null then [] else bytes in
    if (uri =? 0) || (uri =? 1) then list_eqb out [1] || list_eqb out (0 :: sent) && utf8_valid sent
    else list_eqb out [1]
  | Auth kz pol stored pw n n' =>
    (* the session is activated exactly when the nonce is the session's, the user exists and the
       password is the configured one; everything else is refused, nothing panics *)
    let good := list_eqb n n' && match stored with Some s => list_eqb s pw | None => false end in
    list_eqb out [if good then 0 else 1]
  end.

Definition tr_ok (k : nat) (p : padding) (o : option (list Z)) : bool :=
  match o with Some pl => (length pl <=? k - overhead p)%nat | None => true end.
Definition valid (c : case) : bool :=
  match c with
  | RoundTrip kz pol pw n n' =>
    (66 <? kz) && utf8_valid pw && (Z.of_nat (length pw) + Z.of_nat (length n) <? 2 ^ 32)
  | Crafted kz p null clen tr n' =>
    (66 <? kz) && (0 <=? clen) && forallb (tr_ok (Z.to_nat kz) p) tr &&
    (* the transcript covers the whole blocks: all of them, or up to the first failure *)
    (Z.of_nat (length tr) * kz <=? clen) &&
    match all_plain tr with Some _ => Z.of_nat (length tr) =? clen / kz | None => true end
  | Token _ _ _ _ => true
  | Auth kz pol stored pw n n' =>
    (66 <? kz) && utf8_valid pw && (Z.of_nat (length pw) + Z.of_nat (length n) <? 2 ^ 32)
  end.
