(* C04 — round-trip proofs for Guid, Identifier, NodeId, ExpandedNodeId, NumericRange *)
From Coq Require Import String List ZArith Bool Lia.
From OV Require Import C04.Text C04.TextProofs C04.Date C04.Model.
Import ListNotations.
Open Scope Z_scope.

Lemma lit_ns : lit "ns=" = [110; 115; 61]. Proof. reflexivity. Qed.
Lemma lit_nsu : lit "nsu=" = [110; 115; 117; 61]. Proof. reflexivity. Qed.
Lemma lit_svr : lit "svr=" = [115; 118; 114; 61]. Proof. reflexivity. Qed.
Lemma lit_snsu : lit ";nsu=" = [59; 110; 115; 117; 61]. Proof. reflexivity. Qed.

Lemma byteb_range : forall b, byteb b = true -> 0 <= b <= 255.
Proof. intros b H. unfold byteb in H. apply andb_true_iff in H as [A B]. lia. Qed.

(* ---- Guid ------------------------------------------------------------------------------------ *)
Lemma guid_roundtrip : forall b,
  length b = 16%nat -> forallb byteb b = true -> parse_guid (print_guid b) = Some b.
Proof.
  intros b L F.
  do 16 (destruct b as [|? b]; [discriminate L|]). destruct b; [|discriminate L]. clear L.
  assert (F' := F).
  cbn [forallb] in F'.
  repeat match goal with
         | H : (byteb ?x && _) = true |- _ =>
             let A := fresh "B" in apply andb_true_iff in H as [A H]; apply byteb_range in A
         end.
  clear F'.
  assert (HA : forallb is_ascii (print_guid [z; z0; z1; z2; z3; z4; z5; z6; z7; z8; z9; z10; z11; z12; z13; z14]) = true).
  { cbn [print_guid firstn skipn hex_of_bytes app forallb].
    rewrite !hexc_ascii by zdm. reflexivity. }
  unfold parse_guid. rewrite HA. cbn [negb].
  rewrite (utf8len_ascii _ HA).
  change (len (print_guid [z; z0; z1; z2; z3; z4; z5; z6; z7; z8; z9; z10; z11; z12; z13; z14])) with 36.
  change (36 =? 32) with false. change (36 =? 36) with true. cbv iota.
  unfold parse_hyph.
  cbn [print_guid firstn skipn hex_of_bytes app].
  change (bytes_of_hex (hex_of_bytes [z; z0; z1; z2; z3; z4; z5; z6; z7; z8; z9; z10; z11; z12; z13; z14])
          = Some [z; z0; z1; z2; z3; z4; z5; z6; z7; z8; z9; z10; z11; z12; z13; z14]).
  apply bytes_hex_roundtrip. exact F.
Qed.

Lemma print_guid_nonempty : forall b, print_guid b <> [].
Proof.
  intro b. unfold print_guid. destruct (hex_of_bytes (firstn 4 b)); discriminate.
Qed.

(* ---- Identifier ------------------------------------------------------------------------------- *)
Lemma print_ident_shape : forall id, ident_validb id = true ->
  exists c0 v, print_ident id = c0 :: 61 :: v /\ In c0 [105; 115; 103; 98] /\ v <> [] /\
               ident_body c0 61 v = Ok id.
Proof.
  intros [n | [s|] | b | [b|]] V; cbn [ident_validb] in V; try discriminate.
  - apply andb_true_iff in V as [A B]. apply Z.leb_le in A, B. unfold U32MAX in B.
    exists 105, (dec n). split; [reflexivity|]. split; [cbn; tauto|]. split; [apply dec_nonempty|].
    unfold ident_body. cbn [Z.eqb Pos.eqb]. rewrite parse_uint_dec; [reflexivity | unfold U32MAX; lia | unfold U32MAX; lia].
  - destruct s as [|x s]; [discriminate|].
    exists 115, (x :: s). split; [reflexivity|]. split; [cbn; tauto|]. split; [discriminate|]. reflexivity.
  - apply andb_true_iff in V as [A B]. apply Nat.eqb_eq in A.
    exists 103, (print_guid b). split; [reflexivity|]. split; [cbn; tauto|].
    split; [apply print_guid_nonempty|].
    unfold ident_body. cbn [Z.eqb Pos.eqb]. rewrite guid_roundtrip by assumption. reflexivity.
  - destruct b as [|x b]; [discriminate|].
    exists 98, (b64_encode (x :: b)). split; [reflexivity|]. split; [cbn; tauto|].
    split; [apply b64_encode_nonempty; discriminate|].
    unfold ident_body. cbn [Z.eqb Pos.eqb]. rewrite b64_roundtrip by exact V. reflexivity.
Qed.

Lemma ident_from_str_shape : forall strict c0 v,
  In c0 [105; 115; 103; 98] -> ident_from_str_gen strict (c0 :: 61 :: v) = ident_body c0 61 v.
Proof.
  intros strict c0 v H. unfold ident_from_str_gen. cbn [utf8len].
  pose proof (utf8len_nonneg v) as N.
  assert (E : u8len1 c0 = 1) by (cbn in H; intuition (subst; reflexivity)).
  rewrite E. change (u8len1 61) with 1.
  replace (1 + (1 + utf8len v) <? 2) with false by (symmetry; apply Z.ltb_ge; lia).
  reflexivity.
Qed.

Theorem ident_roundtrip : forall id, ident_validb id = true -> ident_from_str (print_ident id) = Ok id.
Proof.
  intros id V. destruct (print_ident_shape id V) as (c0 & v & E & I & _ & B).
  unfold ident_from_str. rewrite E, ident_from_str_shape by exact I. exact B.
Qed.

Lemma match_t_shape : forall c0 v, In c0 [105; 115; 103; 98] -> v <> [] -> match_t true (c0 :: 61 :: v) = true.
Proof.
  intros c0 v H NE. destruct v as [|x v]; [congruence|].
  cbn in H. intuition (subst; reflexivity).
Qed.

Lemma strip_ns_shape : forall c0 v, In c0 [105; 115; 103; 98] -> strip (lit "ns=") (c0 :: v) = None.
Proof. intros c0 v H. cbn in H. intuition (subst; reflexivity). Qed.

(* ---- NodeId ------------------------------------------------------------------------------------ *)
Lemma is_digit_59 : is_digit 59 = false. Proof. reflexivity. Qed.
Lemma is_digit_58 : is_digit 58 = false. Proof. reflexivity. Qed.

Theorem node_roundtrip : forall ns id,
  0 <= ns <= 65535 -> ident_validb id = true ->
  node_from_str (print_node (mk_node ns id)) = Ok (mk_node ns id).
Proof.
  intros ns id Hns V. destruct (print_ident_shape id V) as (c0 & v & E & I & NE & B).
  unfold node_from_str, node_from_str_gen, print_node. cbn [n_ns n_id]. rewrite E.
  destruct (ns =? 0) eqn:Z0.
  - apply Z.eqb_eq in Z0. subst ns.
    unfold re_node. rewrite strip_ns_shape by exact I. rewrite match_t_shape by assumption.
    rewrite ident_from_str_shape by exact I. rewrite B. reflexivity.
  - unfold re_node. rewrite strip_app.
    rewrite span_digits_app by (apply dec_digits || reflexivity).
    destruct (dec_cons ns) as (d & t & ED & _). rewrite ED. rewrite <- ED.
    rewrite Z.eqb_refl, match_t_shape by assumption. cbn [andb].
    rewrite parse_uint_dec by (unfold U16MAX; lia).
    rewrite ident_from_str_shape by exact I. rewrite B. reflexivity.
Qed.

(* ---- namespace URI escaping ------------------------------------------------------------------- *)
Definition esc1 (x : Z) : str :=
  if x =? 37 then [37; 50; 53] else if x =? 59 then [37; 51; 98] else [x].
Definition esc1' (x : Z) : str := if x =? 37 then [37; 50; 53] else [x].

Lemma uri_escape_flat : forall u, uri_escape u = flat_map esc1 u.
Proof.
  unfold uri_escape, replace1. induction u as [|x u IH]; [reflexivity|].
  cbn [flat_map]. rewrite flat_map_app, IH. f_equal.
  unfold esc1. destruct (x =? 37) eqn:E.
  - reflexivity.
  - cbn [flat_map app]. destruct (x =? 59); reflexivity.
Qed.

Lemma unescape_pass1 : forall u, replace3 37 51 98 [59] (flat_map esc1 u) = flat_map esc1' u.
Proof.
  induction u as [|x u IH]; [reflexivity|].
  cbn [flat_map]. unfold esc1 at 1, esc1' at 1. destruct (x =? 37) eqn:E.
  - cbn [app]. rewrite replace3_miss2 by lia. rewrite !replace3_skip by lia. rewrite IH. reflexivity.
  - destruct (x =? 59) eqn:E2.
    + cbn [app]. rewrite replace3_hit, IH. apply Z.eqb_eq in E2. subst. reflexivity.
    + cbn [app]. apply Z.eqb_neq in E. rewrite replace3_skip by exact E. rewrite IH. reflexivity.
Qed.

Lemma unescape_pass2 : forall u, replace3 37 50 53 [37] (flat_map esc1' u) = u.
Proof.
  induction u as [|x u IH]; [reflexivity|].
  cbn [flat_map]. unfold esc1' at 1. destruct (x =? 37) eqn:E.
  - cbn [app]. rewrite replace3_hit, IH. apply Z.eqb_eq in E. subst. reflexivity.
  - cbn [app]. apply Z.eqb_neq in E. rewrite replace3_skip by exact E. rewrite IH. reflexivity.
Qed.

Theorem uri_escape_roundtrip : forall u, uri_unescape (uri_escape u) = u.
Proof.
  intro u. unfold uri_unescape. rewrite uri_escape_flat, unescape_pass1. apply unescape_pass2.
Qed.

Lemma uri_escape_no_semicolon : forall u, forallb (fun c => negb (c =? 59)) (uri_escape u) = true.
Proof.
  intro u. rewrite uri_escape_flat. induction u as [|x u IH]; [reflexivity|].
  cbn [flat_map]. rewrite forallb_app, IH, andb_true_r. unfold esc1.
  destruct (x =? 37); [reflexivity|]. destruct (x =? 59) eqn:E; [reflexivity|].
  cbn. rewrite E. reflexivity.
Qed.

Lemma uri_escape_nonempty : forall u, u <> [] -> uri_escape u <> [].
Proof.
  intros [|x u] H; [congruence|]. rewrite uri_escape_flat. cbn [flat_map]. unfold esc1.
  destruct (x =? 37); [discriminate|]. destruct (x =? 59); discriminate.
Qed.

(* ---- ExpandedNodeId ----------------------------------------------------------------------------- *)
Theorem enode_roundtrip : forall svr uri ns id,
  0 <= svr <= 4294967295 -> 0 <= ns <= 65535 -> ident_validb id = true ->
  match uri with None => True | Some [] => False | Some _ => ns = 0 end ->
  enode_from_str (print_enode (mk_enode svr uri (mk_node ns id))) = Ok (mk_enode svr uri (mk_node ns id)).
Proof.
  intros svr uri ns id Hs Hns V U. destruct (print_ident_shape id V) as (c0 & v & E & I & NE & B).
  unfold enode_from_str, enode_from_str_gen, print_enode. cbn [e_uri e_svr e_node n_id].
  destruct (dec_cons svr) as (d & t & ED & _).
  destruct uri as [[|u0 u]|]; [contradiction | |].
  - (* with a namespace URI *)
    subst ns. cbn [is_empty_o]. rewrite E.
    unfold re_enode. rewrite strip_app.
    rewrite lit_snsu. cbn [app].
    rewrite span_digits_app by (apply dec_digits || reflexivity).
    rewrite ED. rewrite <- ED. rewrite Z.eqb_refl. cbn [negb].
    change (strip (lit "ns=") (110 :: 115 :: 117 :: 61 :: uri_escape (u0 :: u) ++ 59 :: c0 :: 61 :: v)) with (@None str).
    change (strip (lit "nsu=") (110 :: 115 :: 117 :: 61 :: uri_escape (u0 :: u) ++ 59 :: c0 :: 61 :: v))
      with (Some (uri_escape (u0 :: u) ++ 59 :: c0 :: 61 :: v)).
    cbv beta iota. rewrite span_not_app by apply uri_escape_no_semicolon.
    pose proof (uri_escape_nonempty (u0 :: u)) as UN.
    destruct (uri_escape (u0 :: u)) as [|e0 e] eqn:EU; [exfalso; apply UN; [discriminate | reflexivity]|].
    rewrite match_t_shape by assumption.
    rewrite parse_uint_dec by (unfold U32MAX; lia).
    rewrite ident_from_str_shape by exact I. rewrite B.
    rewrite <- EU, uri_escape_roundtrip. reflexivity.
  - (* without URI: svr=..;<NodeId> *)
    cbn [is_empty_o]. unfold print_node. cbn [n_ns n_id]. rewrite E.
    unfold re_enode. rewrite strip_app.
    rewrite span_digits_app by (apply dec_digits || reflexivity).
    rewrite ED. rewrite <- ED. rewrite Z.eqb_refl. cbn [negb].
    destruct (ns =? 0) eqn:Z0.
    + apply Z.eqb_eq in Z0. subst ns.
      rewrite strip_ns_shape by exact I.
      replace (strip (lit "nsu=") (c0 :: 61 :: v)) with (@None str)
        by (cbn in I; intuition (subst; reflexivity)).
      cbn [andb]. rewrite match_t_shape by assumption.
      rewrite parse_uint_dec by (unfold U32MAX; lia).
      rewrite ident_from_str_shape by exact I. rewrite B. reflexivity.
    + rewrite strip_app. rewrite span_digits_app by (apply dec_digits || reflexivity).
      destruct (dec_cons ns) as (d2 & t2 & ED2 & _). rewrite ED2. rewrite <- ED2.
      rewrite Z.eqb_refl, match_t_shape by assumption. cbn [andb].
      rewrite !parse_uint_dec by (unfold U32MAX, U16MAX; lia).
      rewrite ident_from_str_shape by exact I. rewrite B. reflexivity.
Qed.

(* ---- NumericRange ------------------------------------------------------------------------------- *)
Lemma nocomma_digits : forall d, forallb is_digit d = true -> forallb (fun c => negb (c =? 44)) d = true.
Proof.
  induction d as [|x d IH]; intro D; [reflexivity|].
  cbn [forallb] in *. apply andb_true_iff in D as [D1 D2]. rewrite (IH D2), andb_true_r.
  apply is_digit_range in D1. apply negb_true_iff, Z.eqb_neq. lia.
Qed.

Lemma print_nr1_nocomma : forall r, forallb (fun c => negb (c =? 44)) (print_nr1 r) = true.
Proof.
  intros [i | a b]; cbn [print_nr1].
  - apply nocomma_digits, dec_digits.
  - rewrite forallb_app. cbn [forallb]. rewrite !nocomma_digits by apply dec_digits. reflexivity.
Qed.

Lemma print_nr1_nonempty : forall r, print_nr1 r <> [].
Proof.
  intros [i | a b]; cbn [print_nr1]; [apply dec_nonempty|].
  pose proof (dec_nonempty a). destruct (dec a); [congruence | discriminate].
Qed.

Lemma u32_digits : forall n, 0 <= n <= U32MAX -> (Nat.leb 1 (length (dec n)) && Nat.leb (length (dec n)) 10) = true.
Proof.
  intros n H. apply andb_true_iff. split; apply Nat.leb_le.
  - apply dec_length_pos.
  - apply dec_length; [unfold U32MAX in H; cbn; lia | lia].
Qed.

Lemma nr1_roundtrip : forall r, nr1_wf r = true -> parse_nr1 (print_nr1 r) = Some r.
Proof.
  intros [i | a b] W; cbn [nr1_wf] in W.
  - unfold u32b in W. apply andb_true_iff in W as [A B]. apply Z.leb_le in A, B.
    cbn [print_nr1]. unfold parse_nr1.
    destruct (dec_cons i) as (c & t & E & _). rewrite E. rewrite <- E.
    rewrite span_digits_all by apply dec_digits. rewrite u32_digits by lia.
    rewrite parse_uint_dec by (unfold U32MAX in *; lia). reflexivity.
  - apply andb_true_iff in W as [W L]. apply andb_true_iff in W as [A B].
    unfold u32b in A, B. apply andb_true_iff in A as [A1 A2]. apply andb_true_iff in B as [B1 B2].
    apply Z.leb_le in A1, A2, B1, B2. apply Z.ltb_lt in L.
    cbn [print_nr1]. unfold parse_nr1.
    destruct (dec_cons a) as (c & t & E & _).
    assert (NE : dec a ++ 58 :: dec b = c :: (t ++ 58 :: dec b)) by (rewrite E; reflexivity).
    rewrite NE. rewrite <- NE.
    rewrite span_digits_app by (apply dec_digits || reflexivity).
    rewrite u32_digits by lia. rewrite Z.eqb_refl. cbn [negb].
    rewrite span_digits_all by apply dec_digits. rewrite u32_digits by lia.
    rewrite !parse_uint_dec by (unfold U32MAX, U64MAX in *; lia).
    replace (b <=? a) with false by (symmetry; apply Z.leb_gt; lia).
    replace (U32MAX <? b) with false by (symmetry; apply Z.ltb_ge; lia).
    reflexivity.
Qed.

Lemma parse_all_roundtrip : forall l, forallb nr1_wf l = true -> parse_all (map print_nr1 l) = Some l.
Proof.
  induction l as [|r l IH]; intro W; [reflexivity|].
  cbn [forallb] in W. apply andb_true_iff in W as [W1 W2].
  cbn [map parse_all]. rewrite (nr1_roundtrip r W1), (IH W2). reflexivity.
Qed.

Theorem nrange_roundtrip : forall r,
  match r with
  | NRNone => True
  | NROne x => nr1_wf x = true
  | NRMulti l => forallb nr1_wf l = true /\ (2 <= length l <= 10)%nat
  end ->
  nrange_from_str (print_nrange r) = Some r.
Proof.
  intros [|x|l] W.
  - reflexivity.
  - cbn [print_nrange]. unfold nrange_from_str.
    pose proof (print_nr1_nonempty x) as NE. destruct (print_nr1 x) as [|c t] eqn:E; [congruence|].
    rewrite <- E. rewrite split_on_nosep by apply print_nr1_nocomma.
    rewrite (nr1_roundtrip x W). reflexivity.
  - destruct W as [W L]. cbn [print_nrange]. unfold nrange_from_str.
    destruct l as [|r1 [|r2 l]]; [cbn in L; lia | cbn in L; lia |].
    assert (NE : join 44 (map print_nr1 (r1 :: r2 :: l)) <> []).
    { cbn [map join]. pose proof (print_nr1_nonempty r1). destruct (print_nr1 r1); [congruence | discriminate]. }
    destruct (join 44 (map print_nr1 (r1 :: r2 :: l))) as [|c t] eqn:E; [congruence|]. rewrite <- E.
    rewrite split_join.
    + cbn [map]. rewrite <- !map_cons. rewrite map_length.
      replace (Nat.leb 2 (length (r1 :: r2 :: l))) with true by (symmetry; apply Nat.leb_le; lia).
      replace (Nat.leb (length (r1 :: r2 :: l)) MAX_INDICES) with true
        by (symmetry; apply Nat.leb_le; unfold MAX_INDICES; lia).
      cbn [andb]. rewrite parse_all_roundtrip by exact W. reflexivity.
    + discriminate.
    + apply Forall_forall. intros p Hp. apply in_map_iff in Hp as (r & <- & _). apply print_nr1_nocomma.
Qed.
