(* C06 — implicit Variant conversion (Variant::convert) and explicit cast (Variant::cast),
   lib/src/types/variant.rs.

   The (source, target, rule) tables of both functions and the comparators of the cast macros are
   EXTRACTED from the source by tools/translate/c06_convert_table.py into Gen/C06Table.v; this file
   interprets them with Rust's semantics of `as` (int->int wraps, int->float rounds to nearest even,
   float->int truncates and saturates with NaN -> 0, f64->f32 rounds), `try_from`, `f64::round`
   (nearest, ties away from zero) and IEEE comparisons.  Floats are Flocq binary_float
   (BinarySingleNaN); in cases and outputs a float is its IEEE bit pattern.

   No proofs in this file. *)
From Coq Require Import List ZArith Bool.
From Flocq Require Import Core IEEE754.BinarySingleNaN.
From Flocq Require IEEE754.Binary IEEE754.Bits.
From OV Require Export C06.Types.
From OV Require Gen.C06Table.
Import ListNotations.
Open Scope Z_scope.

(* ---- types ------------------------------------------------------------------------------- *)

(* OPC UA built-in type numbers (Part 6); Empty 0, Array 26 *)
Definition ty_code (t : ty) : Z :=
  match t with
  | TEmpty => 0 | TBoolean => 1 | TSByte => 2 | TByte => 3 | TInt16 => 4 | TUInt16 => 5 | TInt32 => 6
  | TUInt32 => 7 | TInt64 => 8 | TUInt64 => 9 | TFloat => 10 | TDouble => 11 | TString => 12
  | TDateTime => 13 | TGuid => 14 | TByteString => 15 | TXmlElement => 16 | TNodeId => 17
  | TExpandedNodeId => 18 | TStatusCode => 19 | TQualifiedName => 20 | TLocalizedText => 21
  | TExtensionObject => 22 | TDataValue => 23 | TVariant => 24 | TDiagnosticInfo => 25 | TArray => 26
  end.
Definition ty_eqb (a b : ty) : bool := ty_code a =? ty_code b.

(* the Rust primitive type carried by a Variant of that type.  A Boolean is carried as 0 / 1
   (`true as u8 = 1`), a StatusCode as its u32 bits. *)
Inductive prim := PInt (signed : bool) (bits : Z) | PF32 | PF64.
Definition prim_of (t : ty) : option prim :=
  match t with
  | TBoolean => Some (PInt false 1)
  | TSByte => Some (PInt true 8)   | TByte => Some (PInt false 8)
  | TInt16 => Some (PInt true 16)  | TUInt16 => Some (PInt false 16)
  | TInt32 => Some (PInt true 32)  | TUInt32 => Some (PInt false 32)
  | TInt64 => Some (PInt true 64)  | TUInt64 => Some (PInt false 64)
  | TFloat => Some PF32 | TDouble => Some PF64
  | TStatusCode => Some (PInt false 32)
  | _ => None
  end.

Definition pmin (s : bool) (b : Z) : Z := if s then - 2 ^ (b - 1) else 0.
Definition pmax (s : bool) (b : Z) : Z := if s then 2 ^ (b - 1) - 1 else 2 ^ b - 1.
Definition in_range (s : bool) (b : Z) (n : Z) : bool := (pmin s b <=? n) && (n <=? pmax s b).
(* `n as iB` / `n as uB` on integers: reduction modulo 2^B into the type's range *)
Definition wrap (s : bool) (b : Z) (n : Z) : Z :=
  if s then (n + 2 ^ (b - 1)) mod 2 ^ b - 2 ^ (b - 1) else n mod 2 ^ b.

(* the eight integer types the property speaks about (Boolean and StatusCode are not numeric) *)
Definition int_ty (t : ty) : option (bool * Z) :=
  match t with
  | TSByte => Some (true, 8)   | TByte => Some (false, 8)
  | TInt16 => Some (true, 16)  | TUInt16 => Some (false, 16)
  | TInt32 => Some (true, 32)  | TUInt32 => Some (false, 32)
  | TInt64 => Some (true, 64)  | TUInt64 => Some (false, 64)
  | _ => None
  end.

(* ---- floats -------------------------------------------------------------------------------- *)

Global Instance prec32 : Prec_gt_0 24 := eq_refl.
Global Instance emax32 : Prec_lt_emax 24 128 := eq_refl.
Global Instance prec64 : Prec_gt_0 53 := eq_refl.
Global Instance emax64 : Prec_lt_emax 53 1024 := eq_refl.
Notation f32 := (binary_float 24 128).
Notation f64 := (binary_float 53 1024).

Definition zcmp (o : ord) (a b : Z) : bool :=
  match o with OLt => a <? b | OLe => a <=? b | OGt => b <? a | OGe => b <=? a end.

Section Fmt.
  Context (prec emax : Z) {Hp : Prec_gt_0 prec} {Hm : Prec_lt_emax prec emax}.
  Notation bf := (binary_float prec emax).

  (* `n as f`: round to nearest, ties to even; 0 gives +0.0 *)
  Definition f_of_Z (n : Z) : bf := binary_normalize prec emax Hp Hm mode_NE n 0 false.
  Definition f_one : bf := f_of_Z 1.
  Definition f_half : bf := binary_normalize prec emax Hp Hm mode_NE 1 (-1) false.
  (* `x as iB`: toward zero, saturating, NaN -> 0 *)
  Definition f_to_int_sat (lo hi : Z) (x : bf) : Z :=
    match x with
    | B754_nan => 0
    | B754_infinity s => if s then lo else hi
    | _ => Z.max lo (Z.min hi (Btrunc x))
    end.
  (* f::round: nearest integer, ties away from zero *)
  Definition f_round (x : bf) : bf := Bnearbyint mode_NA x.
  (* f::trunc(x + 0.5) *)
  Definition f_trunc_half (x : bf) : bf := Bnearbyint mode_ZR (Bplus mode_NE x f_half).
  (* IEEE comparisons: false when either side is NaN *)
  Definition f_cmp (o : ord) (a b : bf) : bool :=
    match o with OLt => Bltb a b | OLe => Bleb a b | OGt => Bltb b a | OGe => Bleb b a end.
  (* the upper bound of the float-domain range test: `(MAX as f) + 1.0`, or `MAX as f` *)
  Definition f_upper (plus_one : bool) (hi : Z) : bf :=
    if plus_one then Bplus mode_NE (f_of_Z hi) f_one else f_of_Z hi.
  (* cast_float_to_integer!(x, f, to) *)
  Definition f_macro (lo_o hi_o : ord) (plus_one : bool) (lo hi : Z) (x : bf) : option Z :=
    if f_cmp lo_o x (f_of_Z lo) && f_cmp hi_o x (f_upper plus_one hi)
    then Some (f_to_int_sat lo hi x) else None.
End Fmt.

(* `x as f64` and `x as f32` between the formats *)
Definition f32_to_f64 (x : f32) : f64 :=
  match x with
  | B754_zero s => B754_zero s
  | B754_infinity s => B754_infinity s
  | B754_nan => B754_nan
  | B754_finite s m e _ => binary_normalize 53 1024 _ _ mode_NE (cond_Zopp s (Zpos m)) e s
  end.
Definition f64_to_f32 (x : f64) : f32 :=
  match x with
  | B754_zero s => B754_zero s
  | B754_infinity s => B754_infinity s
  | B754_nan => B754_nan
  | B754_finite s m e _ => binary_normalize 24 128 _ _ mode_NE (cond_Zopp s (Zpos m)) e s
  end.

(* bit patterns; every NaN is printed as the quiet NaN with an empty payload *)
Definition f32_of_bits (b : Z) : f32 := Binary.B2BSN 24 128 (Bits.b32_of_bits b).
Definition f64_of_bits (b : Z) : f64 := Binary.B2BSN 53 1024 (Bits.b64_of_bits b).
Definition bits_of_f32 (x : f32) : Z := Bits.bits_of_b32 (Binary.BSN2B 24 128 Bits.default_nan_pl32 x).
Definition bits_of_f64 (x : f64) : Z := Bits.bits_of_b64 (Binary.BSN2B 53 1024 Bits.default_nan_pl64 x).

(* ---- values and `as` ----------------------------------------------------------------------- *)

Inductive val := VInt (n : Z) | VF32 (f : f32) | VF64 (f : f64).

Definition as_cast (v : val) (p : prim) : val :=
  match v, p with
  | VInt n, PInt s b => VInt (wrap s b n)
  | VInt n, PF32 => VF32 (f_of_Z 24 128 n)
  | VInt n, PF64 => VF64 (f_of_Z 53 1024 n)
  | VF32 f, PInt s b => VInt (f_to_int_sat 24 128 (pmin s b) (pmax s b) f)
  | VF32 f, PF32 => VF32 f
  | VF32 f, PF64 => VF64 (f32_to_f64 f)
  | VF64 f, PInt s b => VInt (f_to_int_sat 53 1024 (pmin s b) (pmax s b) f)
  | VF64 f, PF32 => VF32 (f64_to_f32 f)
  | VF64 f, PF64 => VF64 f
  end.

Definition as_Z (v : val) (s : bool) (b : Z) : Z :=
  match as_cast v (PInt s b) with VInt n => n | _ => 0 end.

(* `a <o> b` for two values of the same primitive type *)
Definition val_cmp (o : ord) (a b : val) : bool :=
  match a, b with
  | VInt x, VInt y => zcmp o x y
  | VF32 x, VF32 y => f_cmp 24 128 o x y
  | VF64 x, VF64 y => f_cmp 53 1024 o x y
  | _, _ => false
  end.

Definition decode (t : ty) (p : Z) : option val :=
  match prim_of t with
  | Some (PInt _ _) => Some (VInt p)
  | Some PF32 => Some (VF32 (f32_of_bits p))
  | Some PF64 => Some (VF64 (f64_of_bits p))
  | None => None
  end.
Definition payload (v : val) : Z :=
  match v with VInt n => n | VF32 f => bits_of_f32 f | VF64 f => bits_of_f64 f end.

(* ---- the two functions, interpreted over the extracted tables -------------------------------- *)

Record config := mk_config {
  c_convert : list (ty * ty * crule);
  c_cast : list (ty * ty * xrule);
  c_int_neg : ord; c_int_lo : ord; c_int_hi : ord;       (* cast_to_integer! *)
  c_fl_lo : ord; c_fl_hi : ord; c_fl_plus : bool }.      (* cast_float_to_integer! *)

Definition gen_cfg : config :=
  {| c_convert := Gen.C06Table.convert_rows; c_cast := Gen.C06Table.cast_rows;
     c_int_neg := Gen.C06Table.int_macro_neg; c_int_lo := Gen.C06Table.int_macro_lo;
     c_int_hi := Gen.C06Table.int_macro_hi;
     c_fl_lo := Gen.C06Table.float_macro_lo; c_fl_hi := Gen.C06Table.float_macro_hi;
     c_fl_plus := Gen.C06Table.float_macro_plus_one |}.

(* Rust takes the first arm that matches *)
Fixpoint lookup {R : Type} (rows : list (ty * ty * R)) (s t : ty) : option R :=
  match rows with
  | [] => None
  | (s', t', r) :: rest => if ty_eqb s s' && ty_eqb t t' then Some r else lookup rest s t
  end.

(* Unmodelled: an arm the model does not interpret (strings, node ids, ... and StatusCode/Boolean
   targets of convert); never reached on valid cases *)
Inductive res := Res (t : ty) (v : val) | Empty | Unmodelled.

(* [same], [row], [opt]: `self.type_id() == target_type`, the arm found for the pair, the target's
   primitive type (parameters, so that a run over many payloads looks them up once) *)
Definition convert_r (same : bool) (row : option crule) (opt : option prim) (tgt : ty) (v : val) : res :=
  if same then Res tgt v                                 (* return self.clone() *)
  else match row with
       | None => Empty                                   (* _ => Variant::Empty *)
       | Some r =>
         match opt with
         | None => Unmodelled
         | Some pt =>
           match r, v, pt with
           | RAs, _, _ => Res tgt (as_cast v pt)
           | RTry, VInt n, PInt s b => if in_range s b n then Res tgt (VInt n) else Empty
           | RNonNeg, VInt n, _ => if n <? 0 then Empty else Res tgt (as_cast v pt)
           | _, _, _ => Unmodelled
           end
         end
       end.
Definition convert (cfg : config) (src tgt : ty) (v : val) : res :=
  convert_r (ty_eqb src tgt) (lookup (c_convert cfg) src tgt) (prim_of tgt) tgt v.

Definition eval_arg (a : arg) (v : val) : option val :=
  match a, v with
  | AV, _ => Some v
  | ARound, VF32 f => Some (VF32 (f_round 24 128 f))
  | ARound, VF64 f => Some (VF64 (f_round 53 1024 f))
  | ATruncHalf, VF32 f => Some (VF32 (f_trunc_half 24 128 f))
  | ATruncHalf, VF64 f => Some (VF64 (f_trunc_half 53 1024 f))
  | AAsI64, _ => Some (as_cast v (PInt true 64))
  | _, _ => None
  end.

(* cast_to_integer!(x, from, to) *)
Definition int_macro (cfg : config) (x : val) (from to : prim) (tgt : ty) : res :=
  match to with
  | PInt s b =>
    let valid :=
      if val_cmp (c_int_neg cfg) x (as_cast (VInt 0) from)
      then negb (pmin s b =? 0) && zcmp (c_int_lo cfg) (as_Z x true 64) (wrap true 64 (pmin s b))
      else zcmp (c_int_hi cfg) (as_Z x false 64) (wrap false 64 (pmax s b)) in
    if valid then Res tgt (as_cast x to) else Empty
  | _ => Unmodelled
  end.

(* cast_float_to_integer!(x, from, to) *)
Definition float_macro (cfg : config) (x : val) (to : prim) (tgt : ty) : res :=
  match to, x with
  | PInt s b, VF32 f =>
    match f_macro 24 128 (c_fl_lo cfg) (c_fl_hi cfg) (c_fl_plus cfg) (pmin s b) (pmax s b) f with
    | Some n => Res tgt (VInt n) | None => Empty end
  | PInt s b, VF64 f =>
    match f_macro 53 1024 (c_fl_lo cfg) (c_fl_hi cfg) (c_fl_plus cfg) (pmin s b) (pmax s b) f with
    | Some n => Res tgt (VInt n) | None => Empty end
  | _, _ => Unmodelled
  end.

(* cast_to_bool!(x) *)
Definition bool_macro (x : val) : res :=
  match x with
  | VInt n => if n =? 1 then Res TBoolean (VInt 1) else if n =? 0 then Res TBoolean (VInt 0) else Empty
  | _ => Unmodelled
  end.

Definition explicit_r (cfg : config) (row : option xrule) (ops opt : option prim) (tgt : ty) (v : val) : res :=
  match row with
  | None => Empty
  | Some r =>
    match ops, opt with
    | Some pf, Some pt =>
      match r with
      | XInt a => match eval_arg a v with Some x => int_macro cfg x pf pt tgt | None => Unmodelled end
      | XFloat a => match eval_arg a v with Some x => float_macro cfg x pt tgt | None => Unmodelled end
      | XBool a => match eval_arg a v with Some x => bool_macro x | None => Unmodelled end
      | XAs => Res tgt (as_cast v pt)
      | XStatusHi => match v with
                     | VInt n => Res tgt (VInt (wrap false 16 (Z.land n 4294901760 / 65536)))
                     | _ => Unmodelled end
      | XOpaque => Unmodelled
      end
    | _, _ => Unmodelled
    end
  end.
Definition explicit (cfg : config) (src tgt : ty) (v : val) : res :=
  explicit_r cfg (lookup (c_cast cfg) src tgt) (prim_of src) (prim_of tgt) tgt v.

Definition cast (cfg : config) (src tgt : ty) (v : val) : res :=
  match convert cfg src tgt v with
  | Empty => explicit cfg src tgt v
  | r => r
  end.

(* ---- the pinned code before the three fix commits ---------------------------------------------- *)
Module Legacy.
  Definition unsigned_to_signed (s t : ty) : bool :=
    match s, t with
    | TByte, TSByte | TUInt16, TInt16 | TUInt32, TInt32 | TUInt64, TInt64 => true
    | _, _ => false
    end.
  (* `(v as i8).into()` instead of try_from in the four unsigned-to-signed arms of convert; the float
     arms of cast used cast_to_integer!(f64::trunc(v + 0.5), f64, to); cast had no UInt64 -> Int32 arm *)
  Definition cfg : config :=
    {| c_convert := map (fun row => match row with
                                    | (s, t, RTry) => if unsigned_to_signed s t then (s, t, RAs) else row
                                    | _ => row end) (c_convert gen_cfg);
       c_cast := map (fun row => match row with
                                 | (s, t, XFloat ARound) => (s, t, XInt ATruncHalf)
                                 | _ => row end)
                     (filter (fun row => match row with
                                         | (TUInt64, TInt32, _) => false
                                         | _ => true end) (c_cast gen_cfg));
       c_int_neg := OLt; c_int_lo := OGe; c_int_hi := OLe;
       c_fl_lo := OGe; c_fl_hi := OLt; c_fl_plus := true |}.
End Legacy.

(* ---- correspondence interface ------------------------------------------------------------------ *)

Inductive op := Convert | Cast.
(* payloads of source type c_src (integers: the value; Float / Double: the IEEE bit pattern;
   Boolean: 0 / 1; StatusCode: its bits) that are converted / cast to c_tgt: the c_n consecutive
   payloads c_lo, c_lo + 1, .. followed by the listed ones *)
Record case := mk_case { c_op : op; c_src : ty; c_tgt : ty; c_lo : Z; c_n : Z; c_extra : list Z }.

Fixpoint zrange (lo : Z) (n : nat) : list Z :=
  match n with O => [] | S k => lo :: zrange (lo + 1) k end.
Definition payloads (c : case) : list Z := zrange (c_lo c) (Z.to_nat (c_n c)) ++ c_extra c.

Definition apply (cfg : config) (o : op) (s t : ty) (v : val) : res :=
  match o with Convert => convert cfg s t v | Cast => cast cfg s t v end.

(* two numbers per payload: [type code; payload] of the result, [-1; 0] for Variant::Empty *)
Definition out_of_res (r : res) : list Z :=
  match r with
  | Res t v => [ty_code t; payload v]
  | Empty => [-1; 0]
  | Unmodelled => [-3; 0]
  end.

Definition run1 (cfg : config) (o : op) (s t : ty) (p : Z) : list Z :=
  match decode s p with
  | Some v => out_of_res (apply cfg o s t v)
  | None => [-3; 0]
  end.

(* The canonical output is the run-length encoding of the per-payload pairs (type code, d), as
   triples [count; type code; d]: d is the result minus the source payload when the result is of an
   integer type (codes 2..9) and the source is not a float, the result payload otherwise.  (An exhaustive range of an integer type
   converted to an integer type is then three numbers instead of two per value.) *)
Definition is_int_code (tc : Z) : bool := (2 <=? tc) && (tc <=? 9).
Definition is_float_ty (s : ty) : bool := match s with TFloat | TDouble => true | _ => false end.
Definition use_delta (s : ty) (tc : Z) : bool := is_int_code tc && negb (is_float_ty s).
Definition delta (s : ty) (tc p w : Z) : Z := if use_delta s tc then w - p else w.
Definition undelta (s : ty) (tc p d : Z) : Z := if use_delta s tc then d + p else d.

Definition pair_of (l : list Z) : Z * Z := match l with [a; b] => (a, b) | _ => (-3, 0) end.
Definition enc1 (cfg : config) (o : op) (s t : ty) (p : Z) : Z * Z :=
  let r := pair_of (run1 cfg o s t p) in (fst r, delta s (fst r) p (snd r)).

Definition pair_eqb (a b : Z * Z) : bool := (fst a =? fst b) && (snd a =? snd b).
Fixpoint rle (l : list (Z * Z)) : list (nat * (Z * Z)) :=
  match l with
  | [] => []
  | x :: r => match rle r with
              | (n, y) :: t => if pair_eqb x y then (S n, y) :: t else (1%nat, x) :: (n, y) :: t
              | [] => [(1%nat, x)]
              end
  end.
Definition flatten3 (l : list (nat * (Z * Z))) : list Z :=
  flat_map (fun e => [Z.of_nat (fst e); fst (snd e); snd (snd e)]) l.

(* the same function with the table look-ups done once per case instead of once per payload
   (equal to enc1: Proofs, enc1_fast_eq) *)
Definition apply_fast (cfg : config) (o : op) (s t : ty) : val -> res :=
  let same := ty_eqb s t in
  let row := lookup (c_convert cfg) s t in
  let xrow := lookup (c_cast cfg) s t in
  let ps := prim_of s in
  let pt := prim_of t in
  match o with
  | Convert => fun v => convert_r same row pt t v
  | Cast => fun v => match convert_r same row pt t v with
                     | Empty => explicit_r cfg xrow ps pt t v
                     | r => r
                     end
  end.
Definition enc1_fast (cfg : config) (o : op) (s t : ty) : Z -> Z * Z :=
  let f := apply_fast cfg o s t in
  fun p => let r := pair_of (match decode s p with
                             | Some v => out_of_res (f v)
                             | None => [-3; 0]
                             end) in
           (fst r, delta s (fst r) p (snd r)).

Definition run_with (cfg : config) (c : case) : list Z :=
  flatten3 (rle (map (enc1_fast cfg (c_op c) (c_src c) (c_tgt c)) (payloads c))).
Definition run (c : case) : list Z := run_with gen_cfg c.

(* ---- the property as a decidable predicate on an output ------------------------------------------
   Written without any floating-point operation: a float is decoded from its bits into
   sign / mantissa / exponent (Flocq's decoder) and everything else is exact arithmetic on dyadic
   rationals m * 2^e in Z. *)

Definition dy := (Z * Z)%type.
Definition dy_l (a b : dy) : Z := fst a * 2 ^ (snd a - Z.min (snd a) (snd b)).
Definition dy_r (a b : dy) : Z := fst b * 2 ^ (snd b - Z.min (snd a) (snd b)).
Definition dy_le (a b : dy) : bool := dy_l a b <=? dy_r a b.
Definition dy_eq (a b : dy) : bool := dy_l a b =? dy_r a b.
(* |a - b| *)
Definition dy_dist (a b : dy) : dy := (Z.abs (dy_l a b - dy_r a b), Z.min (snd a) (snd b)).
Definition dy_abs (a : dy) : dy := (Z.abs (fst a), snd a).
Definition dy_floor (a : dy) : Z := if 0 <=? snd a then fst a * 2 ^ snd a else fst a / 2 ^ (- snd a).

Inductive xval := XFin (d : dy) | XInf (neg : bool) | XNaN.

Definition view32 (b : Z) : xval :=
  match Bits.b32_of_bits b with
  | Binary.B754_zero _ _ _ => XFin (0, 0)
  | Binary.B754_infinity _ _ s => XInf s
  | Binary.B754_nan _ _ _ _ _ => XNaN
  | Binary.B754_finite _ _ s m e _ => XFin (cond_Zopp s (Zpos m), e)
  end.
Definition view64 (b : Z) : xval :=
  match Bits.b64_of_bits b with
  | Binary.B754_zero _ _ _ => XFin (0, 0)
  | Binary.B754_infinity _ _ s => XInf s
  | Binary.B754_nan _ _ _ _ _ => XNaN
  | Binary.B754_finite _ _ s m e _ => XFin (cond_Zopp s (Zpos m), e)
  end.

(* the number a source payload denotes; None for the types the property does not speak about *)
Definition src_view (t : ty) (p : Z) : option xval :=
  match t with
  | TFloat => Some (view32 p)
  | TDouble => Some (view64 p)
  | _ => match int_ty t with Some _ => Some (XFin (p, 0)) | None => None end
  end.

(* w is within 1/2 of d *)
Definition nearest_int (d : dy) (w : Z) : bool := dy_le (dy_dist d (w, 0)) (1, -1).

(* integer target with range lo..hi; [r] is the result (None: no result) *)
Definition check_int (lo hi : Z) (o : op) (x : xval) (r : option Z) : bool :=
  let inr w := (lo <=? w) && (w <=? hi) in
  match r with
  | Some w =>
    inr w && match x with
             | XFin d => match o with Convert => dy_eq d (w, 0) | Cast => nearest_int d w end
             | _ => false
             end
  | None =>
    match o with
    | Convert => true
    | Cast => match x with
              | XFin d => let f := dy_floor d in
                          (nearest_int d f && negb (inr f)) || (nearest_int d (f + 1) && negb (inr (f + 1)))
              | _ => true
              end
    end
  end.

(* float target of [width] bits: the bit patterns next to w in magnitude (both signs around zero) *)
Definition neighbours (width : Z) (w : Z) : list Z :=
  let h := 2 ^ (width - 1) in
  if w mod h =? 0 then [1; h + 1] else [w - 1; w + 1].

(* [mx]: the largest finite value of the format *)
Definition check_float (width : Z) (mx : dy) (view : Z -> xval) (o : op) (x : xval) (w : Z) : bool :=
  (0 <=? w) && (w <? 2 ^ width) &&
  match x, view w with
  | XNaN, XNaN => true
  | XInf s, XInf s' => Bool.eqb s s'
  | XFin d, wv =>
    if dy_le (dy_abs d) mx
    then match wv with
         | XFin g => let dg := dy_dist d g in
                     forallb (fun nb => match view nb with
                                        | XFin h => dy_le dg (dy_dist d h)
                                        | _ => true end) (neighbours width w)
         | _ => false
         end
    else match o with Convert => false | Cast => true end
  | _, _ => false
  end.

Definition max32 : dy := (2 ^ 24 - 1, 104).
Definition max64 : dy := (2 ^ 53 - 1, 971).

(* one payload: tc, w are the two output numbers *)
Definition check1 (o : op) (s t : ty) (p tc w : Z) : bool :=
  negb (tc =? -2) &&
  match src_view s p with
  | None => true
  | Some x =>
    match t with
    | TFloat => if tc =? -1 then true else (tc =? 10) && check_float 32 max32 view32 o x w
    | TDouble => if tc =? -1 then true else (tc =? 11) && check_float 64 max64 view64 o x w
    | _ => match int_ty t with
           | Some (sg, b) => if tc =? -1 then check_int (pmin sg b) (pmax sg b) o x None
                             else (tc =? ty_code t) && check_int (pmin sg b) (pmax sg b) o x (Some w)
           | None => true
           end
    end
  end.

(* walk the payloads along the run-length encoded output: [cur] payloads are still covered by the
   current triple (tc, d) *)
Fixpoint check_rle (o : op) (s t : ty) (ps : list Z) (cur tc d : Z) (rest : list Z) : bool :=
  match ps with
  | [] => (cur =? 0) && match rest with [] => true | _ => false end
  | p :: ps' =>
    if 0 <? cur then check1 o s t p tc (undelta s tc p d) && check_rle o s t ps' (cur - 1) tc d rest
    else match rest with
         | n :: tc' :: d' :: rest' =>
           (0 <? n) && check1 o s t p tc' (undelta s tc' p d') && check_rle o s t ps' (n - 1) tc' d' rest'
         | _ => false
         end
  end.

Definition oracle (c : case) (out : list Z) : bool :=
  check_rle (c_op c) (c_src c) (c_tgt c) (payloads c) 0 0 0 out.

Definition known (c : case) : Z := 0.

(* the cases the harness generates: a modelled source type with payloads inside its range, a
   numeric or Boolean target *)
Definition src_range (t : ty) : option (Z * Z) :=
  match t with
  | TFloat => Some (0, 2 ^ 32 - 1)
  | TDouble => Some (0, 2 ^ 64 - 1)
  | _ => match prim_of t with Some (PInt s b) => Some (pmin s b, pmax s b) | _ => None end
  end.
Definition tgt_ok (t : ty) : bool :=
  match t with TBoolean | TFloat | TDouble => true | _ => match int_ty t with Some _ => true | None => false end end.

Definition valid (c : case) : Prop :=
  tgt_ok (c_tgt c) = true /\
  match src_range (c_src c) with
  | Some (lo, hi) => Forall (fun p => lo <= p <= hi) (payloads c)
  | None => False
  end.
